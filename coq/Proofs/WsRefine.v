(* C12 — the reader model refines the whole-stream reference decoder (Model/WsSpec.v) with the
   aiohttp profile, on every stream. *)
From AV Require Import Lib.Base Lib.Utf8Valid Generated.WsGen Model.Ws Model.WsSpec Proofs.WsSeg.
From Coq Require Import ZifyBool ZifyN.
Ltac Zify.zify_post_hook ::= Z.to_euclidean_division_equations.
Open Scope N_scope.

Lemma land15 b : N.land b 15 = b mod 16.
Proof. change 15 with (N.ones 4). rewrite N.land_ones. reflexivity. Qed.
Lemma land127 b : N.land b 127 = b mod 128.
Proof. change 127 with (N.ones 7). rewrite N.land_ones. reflexivity. Qed.

Lemma be_num2 b0 b1 : be_num 0 [b0; b1] = b0 * 256 + b1.
Proof. cbn [be_num]. lia. Qed.

Lemma ws_mem_memN x l : ws_mem x l = memN x l.
Proof. induction l as [|y l IH]; cbn [ws_mem memN]; [reflexivity|]. now rewrite IH. Qed.

Lemma opcode_bad_known op : hdr_opcode_bad op = negb (known_opcode op).
Proof. unfold hdr_opcode_bad, known_opcode, is_data. cbn [ws_mem]. lia. Qed.

Lemma is_control_gen op : hdr_is_control op = is_control op.
Proof. unfold hdr_is_control, is_control. lia. Qed.

Lemma size_applies_gen mx op : size_check_applies mx op = negb (mx =? 0) && is_data op.
Proof. unfold size_check_applies, is_data. cbn [ws_mem]. lia. Qed.

Lemma size_reject_gen tr mx pl :
  size_reject (Z.of_N tr) (Z.of_N mx) (Z.of_N pl) = size_reject (Z.of_N (tr + pl)) (Z.of_N mx) 0.
Proof. unfold size_reject. lia. Qed.

Lemma known_cases op : known_opcode op = true -> op = 0 \/ op = 1 \/ op = 2 \/ op = 8 \/ op = 9 \/ op = 10.
Proof. unfold known_opcode, is_data. lia. Qed.

Definition b2n (b : bool) : N := if b then 1 else 0.

Section Refine.
Variable Cx : Type.
Variable decomp : Cx -> bytes -> N -> dres Cx.
Variable c : cfg.

Notation rstate := (rstate Cx).
Notation sstate := (sstate Cx).
Notation mstate := (mstate Cx).
Notation iter := (iter Cx decomp c).
Notation handle_frame := (handle_frame Cx decomp c).
Notation P := aiohttp_profile.

(* message-level part of the simulation relation *)
Definition relm (m : mstate) (st : sstate) : Prop :=
  m_cx m = sp_cx st /\
  match sp_cur st with
  | None => m_opcode m = 16 /\ m_partial m = [] /\ sp_acc st = []
  | Some (op, _) => m_opcode m = op /\ (op = 1 \/ op = 2) /\ m_partial m = sp_acc st
  end.

Definition Rel (s : rstate) (st : sstate) : Prop :=
  s_phase s = RH /\ s_tail s = [] /\ s_frags s = [] /\ relm (s_m s) st /\
  match sp_cur st with
  | None => hdr_first_fragment (s_ffin s) (s_comp s) = true
  | Some (_, cmp) => s_ffin s = false /\ s_comp s = b2n cmp
  end.

(* ---- control frames ----------------------------------------------------------------------- *)
Lemma control_sim m st op payload rest fin comp :
  op = 8 \/ op = 9 \/ op = 10 ->
  match control_frame Cx P st op payload rest with
  | FNeed => False
  | FViol e _ => handle_frame m fin op payload comp = HErr e
  | FNext ev st' rest' => handle_frame m fin op payload comp = HOk ev m /\ st' = st /\ rest' = rest
  end.
Proof.
  intros [-> | [-> | ->]]; unfold control_frame, Ws.handle_frame; cbn [N.eqb Pos.eqb orb OP_TEXT OP_BINARY OP_CONTINUATION OP_CLOSE OP_PING OP_PONG].
  - destruct payload as [|b0 [|b1 reason]]; cbn [negb].
    + auto.
    + reflexivity.
    + rewrite be_num2. cbn [close_ok P]. destruct (close_code_bad (b0 * 256 + b1)); cbn [negb]; [reflexivity|].
      destruct (utf8_valid reason); cbn [negb]; auto.
  - auto.
  - auto.
Qed.

(* ---- data frames -------------------------------------------------------------------------- *)
Lemma finish_sim st cx op cmp data rest mop' :
  cx = sp_cx st -> (op = 1 \/ op = 2) ->
  match finish Cx decomp P c st op cmp data rest with
  | FNeed => False
  | FViol e _ => complete Cx decomp c cx op mop' data (b2n cmp) = HErr e
  | FNext ev st' rest' =>
      rest' = rest /\ sp_cur st' = None /\ sp_acc st' = [] /\
      complete Cx decomp c cx op mop' data (b2n cmp) = HOk ev (mkm [] mop' (sp_cx st'))
  end.
Proof.
  intros Hcx Hop. unfold finish, complete, deliver. rewrite Hcx.
  change WS_DEFLATE_TRAILING with [0; 0; 255; 255].
  change (inflate_cap (max_msg_size c)) with (if max_msg_size c =? 0 then max_msg_size c else max_msg_size c + 1).
  replace (if max_msg_size c =? 0 then max_msg_size c else max_msg_size c + 1)
    with (if max_msg_size c =? 0 then 0 else max_msg_size c + 1) by (destruct (max_msg_size c =? 0) eqn:E; [lia|reflexivity]).
  change CODE_MESSAGE_TOO_BIG with 1009. change CODE_INVALID_TEXT with 1007. change OP_TEXT with 1.
  cbn [msg_too_big P].
  destruct cmp; cbn [b2n N.eqb negb].
  - destruct (decomp _ _ _) as [out cx'| |]; try reflexivity.
    destruct (inflated_too_big (max_msg_size c) (lenN out)); [reflexivity|].
    destruct Hop as [-> | ->]; cbn [N.eqb Pos.eqb].
    + destruct (decode_text c); cbn [andb]; [|auto]. destruct (utf8_valid out); cbn [negb]; auto.
    + auto.
  - destruct Hop as [-> | ->]; cbn [N.eqb Pos.eqb].
    + destruct (decode_text c); cbn [andb]; [|auto]. destruct (utf8_valid data); cbn [negb]; auto.
    + auto.
Qed.

Lemma data_sim m st h payload rest compN :
  relm m st -> is_data (h_op h) = true ->
  compN = (match sp_cur st with Some (_, cmp) => b2n cmp | None => b2n (h_rsv1 h) end) ->
  match data_frame Cx decomp P c st h payload rest with
  | FNeed => False
  | FViol e cls => handle_frame m (h_fin h) (h_op h) payload compN = HErr e
  | FNext ev st' rest' =>
      rest' = rest /\ exists m', handle_frame m (h_fin h) (h_op h) payload compN = HOk ev m' /\ relm m' st' /\
      match sp_cur st' with
      | None => h_fin h = true
      | Some (_, cm) => h_fin h = false /\ compN = b2n cm
      end
  end.
Proof.
  intros (Hcx & Hm) Hop ->.
  assert (Hop' : h_op h = 0 \/ h_op h = 1 \/ h_op h = 2) by (unfold is_data in Hop; lia).
  unfold data_frame, Ws.handle_frame.
  change OP_TEXT with 1. change OP_BINARY with 2. change OP_CONTINUATION with 0. change NOT_SET_OP with 16.
  unfold perr, viol1002. change CODE_PROTOCOL_ERROR with 1002. unfold cont_not_started, data_in_message.
  destruct Hop' as [E | E]; [|destruct E as [E | E]]; rewrite E; cbn [N.eqb Pos.eqb orb andb negb].
  - (* continuation *)
    destruct (sp_cur st) as [[op cmp]|] eqn:Ecur.
    + destruct Hm as (Hmo & Hopv & Hpa). rewrite Hmo.
      replace (op =? 16) with false by (destruct Hopv as [-> | ->]; reflexivity).
      destruct (h_fin h) eqn:Efin; cbn [negb].
      * pose proof (finish_sim st (m_cx m) op cmp (sp_acc st ++ payload) rest 16 Hcx Hopv) as F.
        rewrite Hpa. destruct (finish _ _ _ _ _ _ _ _ _) as [|e cls|ev st' rest']; [exact F|exact F|].
        destruct F as (-> & Hc' & Ha' & F). split; [reflexivity|]. eexists; split; [exact F|].
        rewrite Hc'. split; [|reflexivity]. split; [reflexivity|]. rewrite Hc'. cbn. auto.
      * split; [reflexivity|]. eexists; split; [reflexivity|]. cbn [sp_cur]. split; [|auto].
        split; [exact Hcx|]. cbn [sp_cur m_opcode m_partial sp_acc]. rewrite Hpa. auto.
    + destruct Hm as (Hmo & Hpa & Hac). rewrite Hmo. reflexivity.
  - (* text *)
    destruct (sp_cur st) as [[op cmp]|] eqn:Ecur.
    { destruct Hm as (Hmo & Hopv & Hpa). rewrite Hmo.
      replace (op =? 16) with false by (destruct Hopv as [-> | ->]; reflexivity). reflexivity. }
    destruct Hm as (Hmo & Hpa & Hac). rewrite Hmo, Hpa. cbn [app N.eqb Pos.eqb negb].
    destruct (h_fin h) eqn:Efin; cbn [negb].
    * pose proof (finish_sim st (m_cx m) 1 (h_rsv1 h) payload rest 16 Hcx (or_introl eq_refl)) as F.
      destruct (finish _ _ _ _ _ _ _ _ _) as [|e cls|ev st' rest']; [exact F|exact F|].
      destruct F as (-> & Hc' & Ha' & F). split; [reflexivity|]. eexists; split; [exact F|].
      rewrite Hc'. split; [|reflexivity]. split; [reflexivity|]. rewrite Hc'. cbn. auto.
    * split; [reflexivity|]. eexists; split; [reflexivity|]. cbn [sp_cur]. split; [|auto].
      split; [exact Hcx|]. cbn [sp_cur m_opcode m_partial sp_acc]. auto.
  - (* binary *)
    destruct (sp_cur st) as [[op cmp]|] eqn:Ecur.
    { destruct Hm as (Hmo & Hopv & Hpa). rewrite Hmo.
      replace (op =? 16) with false by (destruct Hopv as [-> | ->]; reflexivity). reflexivity. }
    destruct Hm as (Hmo & Hpa & Hac). rewrite Hmo, Hpa. cbn [app N.eqb Pos.eqb negb].
    destruct (h_fin h) eqn:Efin; cbn [negb].
    * pose proof (finish_sim st (m_cx m) 2 (h_rsv1 h) payload rest 16 Hcx (or_intror eq_refl)) as F.
      destruct (finish _ _ _ _ _ _ _ _ _) as [|e cls|ev st' rest']; [exact F|exact F|].
      destruct F as (-> & Hc' & Ha' & F). split; [reflexivity|]. eexists; split; [exact F|].
      rewrite Hc'. split; [|reflexivity]. split; [reflexivity|]. rewrite Hc'. cbn. auto.
    * split; [reflexivity|]. eexists; split; [reflexivity|]. cbn [sp_cur]. split; [|auto].
      split; [exact Hcx|]. cbn [sp_cur m_opcode m_partial sp_acc]. auto.
Qed.

(* ---- the four sections of the loop body against the staged parser ------------------------------ *)

Definition hdr_state (s : rstate) (h : header) : rstate :=
  R RL (s_tail s) (s_m s) (if is_control (h_op h) then s_ffin s else h_fin h) (h_op h) (s_frags s) (s_nfrags s)
    (h_masked h) (s_mask s) (s_toread s) (h_len7 h)
    (if is_control (h_op h) then s_comp s
     else if hdr_first_fragment (s_ffin s) (s_comp s) then b2n (h_rsv1 h) else s_comp s).

Lemma header_sim s st b0 b1 r :
  s_phase s = RH -> in_progress Cx st = negb (hdr_first_fragment (s_ffin s) (s_comp s)) ->
  match check_header Cx c st (parse_header b0 b1) with
  | Some _ => ph_header Cx c s (b0 :: b1 :: r) = PFail (WsErr 1002)
  | None => ph_header Cx c s (b0 :: b1 :: r) = PGo (hdr_state s (parse_header b0 b1)) r /\
            known_opcode (N.land b0 15) = true
  end.
Proof.
  intros Hp Hip. unfold Ws.ph_header, check_header, parse_header, hdr_state. rewrite Hp, Hip.
  cbn [h_fin h_rsv1 h_rsv2 h_rsv3 h_op h_masked h_len7].
  rewrite opcode_bad_known, is_control_gen.
  unfold hdr_rsv_bad, hdr_ctl_fragmented, hdr_ctl_too_long, pfail. change CODE_PROTOCOL_ERROR with 1002.
  replace (7 <? N.land b0 15) with (is_control (N.land b0 15)) by (unfold is_control; lia).
  generalize (N.testbit b0 7) (N.testbit b0 6) (N.testbit b0 5) (N.testbit b0 4) (N.testbit b1 7).
  intros fin rsv1 rsv2 rsv3 msk.
  destruct rsv2, rsv3; cbn [orb andb negb]; try reflexivity.
  - destruct rsv1, (compress c); cbn [orb andb negb]; try reflexivity;
      destruct (known_opcode (N.land b0 15)); cbn [negb]; try reflexivity;
      destruct (is_control (N.land b0 15)); cbn [andb negb]; try reflexivity;
      destruct fin; cbn [negb]; try reflexivity;
      destruct (125 <? N.land b1 127); try reflexivity;
      destruct (hdr_first_fragment (s_ffin s) (s_comp s)); cbn [negb b2n]; try reflexivity; auto.
Qed.

Definition len_state (s : rstate) (len : N) : rstate :=
  R (if s_hmask s then RM else RP) (s_tail s) (s_m s) (s_ffin s) (s_fop s) (s_frags s) (s_nfrags s)
    (s_hmask s) (s_mask s) len (s_lflag s) (s_comp s).

Lemma length_sim (s : rstate) d :
  s_phase s = RL -> s_lflag s < 128 ->
  match ext_len (s_lflag s) d with
  | None => ph_length Cx c s d = PNeed (set_tail Cx s d)
  | Some (len, d2) =>
    if (s_lflag s =? 127) && (9223372036854775807 <? len) then ph_length Cx c s d = PFail (WsErr 1009)
    else if is_data (s_fop s) && wire_too_big P (max_msg_size c) (len + lenN (m_partial (s_m s)))
    then ph_length Cx c s d = PFail (WsErr 1009)
    else ph_length Cx c s d = PGo (len_state s len) d2
  end.
Proof.
  intros Hp Hl. unfold Ws.ph_length, ext_len, after_length, len_state. rewrite Hp.
  rewrite size_applies_gen. repeat rewrite size_reject_gen. cbn [wire_too_big P]. unfold len64_too_big. change CODE_MESSAGE_TOO_BIG with 1009.
  destruct (s_lflag s <? 126) eqn:E1.
  { replace (s_lflag s =? 126) with false by lia. replace (126 <? s_lflag s) with false by lia.
    replace (s_lflag s =? 127) with false by lia. cbn [andb].
    destruct (is_data (s_fop s)); cbn [andb]; [|rewrite andb_false_r; reflexivity].
    rewrite andb_true_r. destruct (negb (max_msg_size c =? 0)); cbn [andb]; [|reflexivity].
    destruct (size_reject _ _ _); reflexivity. }
  destruct (s_lflag s =? 126) eqn:E2.
  { replace (s_lflag s =? 127) with false by lia. cbn [andb].
    destruct d as [|b0 [|b1 r]]; try reflexivity. rewrite size_reject_gen.
    destruct (is_data (s_fop s)); cbn [andb]; [|rewrite andb_false_r; reflexivity].
    rewrite andb_true_r. destruct (negb (max_msg_size c =? 0)); cbn [andb]; [|reflexivity].
    destruct (size_reject _ _ _); reflexivity. }
  replace (126 <? s_lflag s) with true by lia. replace (s_lflag s =? 127) with true by lia. cbn [andb].
  destruct d as [|b0 [|b1 [|b2 [|b3 [|b4 [|b5 [|b6 [|b7 r]]]]]]]]; try reflexivity.
  rewrite size_reject_gen.
  destruct (9223372036854775807 <? be_num 0 [b0; b1; b2; b3; b4; b5; b6; b7]); [reflexivity|].
  destruct (is_data (s_fop s)); cbn [andb]; [|rewrite andb_false_r; reflexivity].
  rewrite andb_true_r. destruct (negb (max_msg_size c =? 0)); cbn [andb]; [|reflexivity].
  destruct (size_reject _ _ _); reflexivity.
Qed.


Definition mask_state (s : rstate) (key : option (N * N * N * N)) : rstate :=
  R RP (s_tail s) (s_m s) (s_ffin s) (s_fop s) (s_frags s) (s_nfrags s) (s_hmask s)
    (match key with Some k => k | None => s_mask s end) (s_toread s) (s_lflag s) (s_comp s).

Lemma mask_sim (s : rstate) d :
  s_phase s = (if s_hmask s then RM else RP) ->
  match mask_key (s_hmask s) d with
  | None => ph_mask Cx s d = PNeed (set_tail Cx s d)
  | Some (key, d3) => ph_mask Cx s d = PGo (mask_state s key) d3 /\
                      unmask Cx (mask_state s key) = apply_mask key
  end.
Proof.
  destruct s as [ph tl m ffin fop frags nf hm mk tr lf cp]. unfold Ws.ph_mask, mask_key, mask_state, unmask.
  cbn [s_phase s_tail s_m s_ffin s_fop s_frags s_nfrags s_hmask s_mask s_toread s_lflag s_comp].
  intros ->. destruct hm.
  - destruct d as [|a [|b [|c' [|e r]]]]; try reflexivity. split; reflexivity.
  - split; reflexivity.
Qed.

Lemma rel_inprog s st : Rel s st -> in_progress Cx st = negb (hdr_first_fragment (s_ffin s) (s_comp s)).
Proof.
  intros (_ & _ & _ & _ & H). unfold in_progress. destruct (sp_cur st) as [[op cmp]|].
  - destruct H as (-> & ->). unfold hdr_first_fragment. destruct cmp; reflexivity.
  - rewrite H. reflexivity.
Qed.

Lemma rel_partial s st : Rel s st -> m_partial (s_m s) = sp_acc st.
Proof.
  intros (_ & _ & _ & (_ & H) & _). destruct (sp_cur st) as [[op cmp]|].
  - tauto.
  - destruct H as (_ & -> & ->). reflexivity.
Qed.

Lemma known_not_control op : known_opcode op = true -> is_control op = false -> is_data op = true.
Proof. unfold known_opcode, is_control, is_data. lia. Qed.

Lemma known_control op : known_opcode op = true -> is_control op = true -> op = 8 \/ op = 9 \/ op = 10.
Proof. unfold known_opcode, is_control, is_data. lia. Qed.

(* one pass of the loop from READ_HEADER = one frame of the reference decoder *)
Lemma frame_sim s st d : Rel s st ->
  match spec_frame Cx decomp P c st d with
  | FNeed => exists s1, iter s d = PNeed s1
  | FViol e cls => iter s d = PFail e
  | FNext ev st' rest => exists s1, iter s d = PDone ev s1 rest /\ Rel s1 st'
  end.
Proof.
  intros HR. pose proof (rel_inprog s st HR) as Hip. pose proof (rel_partial s st HR) as Hacc.
  destruct HR as (Hp & Ht & Hfr & Hm & Hc).
  unfold spec_frame, Ws.iter.
  destruct d as [|b0 [|b1 d1]].
  { eexists. unfold Ws.ph_header. rewrite Hp. reflexivity. }
  { eexists. unfold Ws.ph_header. rewrite Hp. reflexivity. }
  pose proof (header_sim s st b0 b1 d1 Hp Hip) as H1.
  set (h := parse_header b0 b1) in *.
  destruct (check_header Cx c st h) as [cls|].
  { rewrite H1. reflexivity. }
  destruct H1 as (H1 & Hk). rewrite H1. cbn [Ws.bind].
  change (N.land b0 15) with (h_op h) in Hk.
  set (s1 := hdr_state s h) in *.
  assert (L2 : s_lflag s1 < 128) by (cbn; rewrite land127; lia).
  pose proof (length_sim s1 d1 eq_refl L2) as H2.
  change (s_lflag s1) with (h_len7 h) in H2.
  change (s_fop s1) with (h_op h) in H2. change (m_partial (s_m s1)) with (m_partial (s_m s)) in H2.
  rewrite Hacc in H2.
  destruct (ext_len (h_len7 h) d1) as [[len d2]|]; [|rewrite H2; cbn [Ws.bind]; eexists; reflexivity].
  destruct ((h_len7 h =? 127) && (9223372036854775807 <? len)); [rewrite H2; reflexivity|].
  destruct (is_data (h_op h) && wire_too_big P (max_msg_size c) (len + lenN (sp_acc st))); [rewrite H2; reflexivity|].
  rewrite H2. cbn [Ws.bind].
  set (s2 := len_state s1 len) in *.
  pose proof (mask_sim s2 d2 eq_refl) as H3.
  change (s_hmask s2) with (h_masked h) in H3.
  destruct (mask_key (h_masked h) d2) as [[key d3]|]; [|rewrite H3; cbn [Ws.bind]; eexists; reflexivity].
  destruct H3 as (H3 & Hun). rewrite H3. cbn [Ws.bind].
  set (s3 := mask_state s2 key) in *.
  unfold Ws.ph_payload. change (s_toread s3) with len.
  destruct (lenN d3 <? len); [eexists; reflexivity|].
  rewrite Hun. change (s_frags s3) with (s_frags s). rewrite Hfr. cbn [app].
  change (s_m s3) with (s_m s). change (s_fop s3) with (h_op h).
  destruct (is_control (h_op h)) eqn:Ectl.
  - (* control frame *)
    pose proof (control_sim (s_m s) st (h_op h) (apply_mask key (takeN (N.to_nat len) d3)) (dropN (N.to_nat len) d3)
                  (s_ffin s3) (s_comp s3) (known_control _ Hk Ectl)) as H4.
    destruct (control_frame Cx P st (h_op h) _ _) as [|e cls|ev st' rest']; [destruct H4|rewrite H4; reflexivity|].
    destruct H4 as (H4 & -> & ->). rewrite H4. eexists; split; [reflexivity|].
    unfold Rel. cbn [s_phase s_tail s_frags s_m s_ffin s_comp].
    repeat split; try assumption; try apply Hm.
    change (s_ffin s3) with (if is_control (h_op h) then s_ffin s else h_fin h).
    change (s_comp s3) with (if is_control (h_op h) then s_comp s
      else if hdr_first_fragment (s_ffin s) (s_comp s) then b2n (h_rsv1 h) else s_comp s).
    rewrite Ectl. exact Hc.
  - (* data frame *)
    assert (Hcomp : s_comp s3 = match sp_cur st with Some (_, cmp) => b2n cmp | None => b2n (h_rsv1 h) end).
    { change (s_comp s3) with (if is_control (h_op h) then s_comp s
        else if hdr_first_fragment (s_ffin s) (s_comp s) then b2n (h_rsv1 h) else s_comp s).
      rewrite Ectl. destruct (sp_cur st) as [[op cmp]|].
      - destruct Hc as (-> & ->). unfold hdr_first_fragment. destruct cmp; reflexivity.
      - rewrite Hc. reflexivity. }
    assert (Hfin : s_ffin s3 = h_fin h).
    { change (s_ffin s3) with (if is_control (h_op h) then s_ffin s else h_fin h). rewrite Ectl. reflexivity. }
    pose proof (data_sim (s_m s) st h (apply_mask key (takeN (N.to_nat len) d3)) (dropN (N.to_nat len) d3) (s_comp s3)
                  Hm (known_not_control _ Hk Ectl) Hcomp) as H4.
    rewrite Hfin.
    destruct (data_frame Cx decomp P c st h _ _) as [|e cls|ev st' rest']; [destruct H4| |].
    + rewrite H4; reflexivity.
    + destruct H4 as (-> & m' & H4 & Hm' & Hlast). rewrite H4. eexists; split; [reflexivity|].
      unfold Rel. cbn [s_phase s_tail s_frags s_m s_ffin s_comp].
      repeat split; try apply Hm'.
      destruct (sp_cur st') as [[op cm]|].
      * destruct Hlast as (-> & ->). split; reflexivity.
      * rewrite Hlast. reflexivity.
Qed.


(* ---- whole runs ---------------------------------------------------------------------------- *)

Notation runs := (runs Cx decomp c).

Lemma run_sim fuel : forall s st d acc, Rel s st ->
  match spec_run Cx decomp P c fuel st d acc with
  | (evs, Pending) => exists s1, runs s d acc (evs, Live s1)
  | (evs, Violation e cls) => runs s d acc (evs, Latched e)
  | (_, SpecFuel) => True
  end.
Proof.
  induction fuel as [|f IH]; intros s st d acc HR; cbn [spec_run]; [exact I|].
  pose proof (frame_sim s st d HR) as F.
  destruct (spec_frame Cx decomp P c st d) as [|e cls|ev st' rest].
  - destruct F as (s1 & E). exists s1. apply RNeed. exact E.
  - apply RFail; exact F.
  - destruct F as (s1 & E & HR'). specialize (IH s1 st' rest (acc ++ ev) HR').
    destruct (spec_run Cx decomp P c f st' rest (acc ++ ev)) as [evs [|e cls|]]; [| |exact I].
    + destruct IH as (s2 & R). exists s2. eapply RDone; eassumption.
    + eapply RDone; eassumption.
Qed.

Lemma rel_init cx0 : Rel (init_state Cx cx0) (mks None [] cx0).
Proof. unfold Rel, relm, init_state; cbn. repeat split; reflexivity. Qed.

End Refine.

(* ---- the reference decoder always terminates within its fuel (any profile) ------------------- *)
Section SpecFuel.
Variable Cx : Type.
Variable decomp : Cx -> bytes -> N -> dres Cx.
Variable p : profile.
Variable c : cfg.

Lemma ext_len_len l s len s2 : ext_len l s = Some (len, s2) -> (length s2 <= length s)%nat.
Proof.
  unfold ext_len. destruct (l <? 126); [intros [= _ <-]; lia|].
  destruct (l =? 126).
  - destruct s as [|b0 [|b1 r]]; try discriminate. intros [= _ <-]. cbn [length]. lia.
  - destruct s as [|b0 [|b1 [|b2 [|b3 [|b4 [|b5 [|b6 [|b7 r]]]]]]]]; try discriminate. intros [= _ <-]. cbn [length]. lia.
Qed.

Lemma mask_key_len m s k s2 : mask_key m s = Some (k, s2) -> (length s2 <= length s)%nat.
Proof.
  unfold mask_key. destruct m; [|intros [= _ <-]; lia].
  destruct s as [|b0 [|b1 [|b2 [|b3 r]]]]; try discriminate. intros [= _ <-]. cbn [length]. lia.
Qed.

Lemma finish_rest st op cmp data rest :
  match finish Cx decomp p c st op cmp data rest with FNext _ _ r => r = rest | _ => True end.
Proof.
  unfold finish. destruct cmp.
  - destruct (decomp _ _ _); try exact I. destruct (msg_too_big _ _ _); [exact I|].
    destruct (op =? 1); [destruct (decode_text c && negb (utf8_valid out))|]; try exact I; reflexivity.
  - destruct (op =? 1); [destruct (decode_text c && negb (utf8_valid data))|]; try exact I; reflexivity.
Qed.

Lemma spec_frame_progress st s :
  match spec_frame Cx decomp p c st s with
  | FNext _ _ rest => (length rest + 2 <= length s)%nat
  | _ => True
  end.
Proof.
  unfold spec_frame. destruct s as [|b0 [|b1 s1]]; try exact I.
  destruct (check_header Cx c st _); [exact I|].
  destruct (ext_len _ s1) as [[len s2]|] eqn:E1; [|exact I].
  destruct (_ && _); [exact I|]. destruct (_ && _); [exact I|].
  destruct (mask_key _ s2) as [[k s3]|] eqn:E2; [|exact I].
  destruct (lenN s3 <? len); [exact I|].
  apply ext_len_len in E1. apply mask_key_len in E2.
  pose proof (dropN_length s3 (N.to_nat len)) as L.
  assert (G : forall r, r = dropN (N.to_nat len) s3 -> (length r + 2 <= length (b0 :: b1 :: s1))%nat)
    by (intros r ->; cbn [length]; lia).
  destruct (is_control _).
  - unfold control_frame. destruct (_ =? 9); [apply G; reflexivity|]. destruct (_ =? 10); [apply G; reflexivity|].
    destruct (apply_mask k _) as [|x [|y reason]]; try exact I; [apply G; reflexivity|].
    unfold viol1002. destruct (negb (close_ok p _)); [exact I|]. destruct (negb (utf8_valid reason)); [exact I|]. apply G; reflexivity.
  - unfold data_frame, viol1002. destruct (_ =? 0).
    + destruct (sp_cur st) as [[op cmp]|]; [|exact I]. destruct (h_fin _); [|apply G; reflexivity].
      pose proof (finish_rest st op cmp (sp_acc st ++ apply_mask k (takeN (N.to_nat len) s3)) (dropN (N.to_nat len) s3)) as F.
      destruct (finish _ _ _ _ _ _ _ _ _); try exact I. apply G; exact F.
    + destruct (sp_cur st) as [[op cmp]|]; [exact I|]. destruct (h_fin _); [|apply G; reflexivity].
      match goal with |- context[finish _ _ _ _ _ ?o ?cm ?dt ?rs] => pose proof (finish_rest st o cm dt rs) as F end.
      destruct (finish _ _ _ _ _ _ _ _ _); try exact I. apply G; exact F.
Qed.

Lemma spec_run_no_fuel fuel : forall st s acc, (length s < fuel)%nat -> snd (spec_run Cx decomp p c fuel st s acc) <> SpecFuel.
Proof.
  induction fuel as [|f IH]; intros st s acc L; [lia|]. cbn [spec_run].
  pose proof (spec_frame_progress st s) as Pg.
  destruct (spec_frame Cx decomp p c st s); cbn; try congruence. apply IH. lia.
Qed.

Lemma decode_no_fuel cx0 s : snd (decode Cx decomp p c cx0 s) <> SpecFuel.
Proof. unfold decode. apply spec_run_no_fuel. lia. Qed.

End SpecFuel.

(* ---- MAIN ----------------------------------------------------------------------------------- *)
Inductive status := SPending | SFailed (e : werr) | SFuel.
Definition rd_status {Cx} (rd : reader Cx) : status :=
  match rd with Live _ => SPending | Latched e => SFailed e | Fuel => SFuel end.
Definition out_status (o : outcome) : status :=
  match o with Pending => SPending | Violation e _ => SFailed e | SpecFuel => SFuel end.

Lemma zapr_status {Cx} (rd : reader Cx) : rd_status (zapr Cx rd) = rd_status rd.
Proof. destruct rd; reflexivity. Qed.

Section Main.
Variable Cx : Type.
Variable decomp : Cx -> bytes -> N -> dres Cx.

(* segmentation independence, in its plain form *)
Theorem seg_independent c cx0 segs :
  let r1 := feed_all Cx decomp c (Live (init_state Cx cx0)) segs in
  let r2 := feed Cx decomp c (Live (init_state Cx cx0)) (concat segs) in
  fst r1 = fst r2 /\ zapr Cx (snd r1) = zapr Cx (snd r2) /\ rd_status (snd r1) = rd_status (snd r2).
Proof.
  cbn zeta. pose proof (feed_all_concat Cx decomp c segs (Live (init_state Cx cx0)) (init_settled Cx decomp c cx0)) as H.
  unfold zres in H. injection H as H1 H2. repeat split; try assumption.
  rewrite <- (zapr_status (snd (feed_all _ _ _ _ _))), H2. apply zapr_status.
Qed.

Theorem refines_aiohttp_profile c cx0 segs :
  let r := feed_all Cx decomp c (Live (init_state Cx cx0)) segs in
  let d := decode Cx decomp aiohttp_profile c cx0 (concat segs) in
  fst r = fst d /\ rd_status (snd r) = out_status (snd d).
Proof.
  cbn zeta.
  destruct (seg_independent c cx0 segs) as (E1 & _ & E3). rewrite E1, E3. clear E1 E3.
  pose proof (feed_runs Cx decomp c (init_state Cx cx0) (concat segs)) as R.
  change (Ws.set_tail Cx (init_state Cx cx0) []) with (init_state Cx cx0) in R. cbn [s_tail init_state app] in R.
  pose proof (decode_no_fuel Cx decomp aiohttp_profile c cx0 (concat segs)) as NF.
  unfold decode in *.
  pose proof (run_sim Cx decomp c (S (length (concat segs))) _ _ (concat segs) [] (rel_init Cx cx0)) as HS.
  destruct (spec_run Cx decomp aiohttp_profile c (S (length (concat segs))) (mks None [] cx0) (concat segs) []) as [evs out].
  cbn [fst snd] in *. destruct out as [|e cls|]; [| |congruence].
  - destruct HS as (s1 & HS). pose proof (runs_det Cx decomp c _ _ _ _ R _ HS) as XX. rewrite XX. split; reflexivity.
  - pose proof (runs_det Cx decomp c _ _ _ _ R _ HS) as XX. rewrite XX. split; reflexivity.
Qed.

End Main.

(* the comparisons regenerated from the code are the RFC / documented ones *)
Lemma aiohttp_is_rfc :
  (forall mx n, wire_too_big aiohttp_profile mx n = wire_too_big rfc_profile mx n) /\
  (forall mx n, msg_too_big aiohttp_profile mx n = msg_too_big rfc_profile mx n) /\
  (forall code, close_ok aiohttp_profile code = close_ok rfc_profile code).
Proof.
  split; [|split]; intros; cbn [wire_too_big msg_too_big close_ok aiohttp_profile rfc_profile].
  - unfold size_reject. lia.
  - reflexivity.
  - unfold rfc_close_ok, close_code_bad. cbn [ws_mem ALLOWED_CLOSE_CODES]. lia.
Qed.

(* the reference decoder only looks at a profile through its three functions *)
Section ProfileExt.
Variable Cx : Type.
Variable decomp : Cx -> bytes -> N -> dres Cx.
Variables p q : profile.
Hypothesis Hw : forall mx n, wire_too_big p mx n = wire_too_big q mx n.
Hypothesis Hm : forall mx n, msg_too_big p mx n = msg_too_big q mx n.
Hypothesis Hc : forall code, close_ok p code = close_ok q code.

Lemma finish_ext c st op cmp data rest :
  finish Cx decomp p c st op cmp data rest = finish Cx decomp q c st op cmp data rest.
Proof.
  unfold finish. destruct cmp; [|reflexivity].
  destruct (decomp _ _ _); try reflexivity. rewrite Hm. reflexivity.
Qed.

Lemma spec_frame_ext c st s : spec_frame Cx decomp p c st s = spec_frame Cx decomp q c st s.
Proof.
  unfold spec_frame.
  destruct s as [|b0 [|b1 s1]]; try reflexivity.
  destruct (check_header _ _ _ _); [reflexivity|].
  destruct (ext_len _ _) as [[len s2]|]; [|reflexivity].
  rewrite Hw.
  destruct (_ && _); [reflexivity|]. destruct (_ && _); [reflexivity|].
  destruct (mask_key _ _) as [[key s3]|]; [|reflexivity].
  destruct (lenN s3 <? len); [reflexivity|].
  destruct (is_control _).
  - unfold control_frame. destruct (_ =? 9); [reflexivity|]. destruct (_ =? 10); [reflexivity|].
    destruct (apply_mask _ _) as [|x [|y reason]]; try reflexivity. rewrite Hc. reflexivity.
  - unfold data_frame.
    destruct (_ =? 0); destruct (sp_cur st) as [[op cmp]|]; try reflexivity;
      destruct (h_fin _); try reflexivity; apply finish_ext.
Qed.

Lemma spec_run_ext c fuel : forall st s acc, spec_run Cx decomp p c fuel st s acc = spec_run Cx decomp q c fuel st s acc.
Proof.
  induction fuel as [|f IH]; intros; cbn [spec_run]; [reflexivity|]. rewrite spec_frame_ext.
  destruct (spec_frame Cx decomp q c st s); try reflexivity. apply IH.
Qed.

Lemma decode_ext c cx0 s : decode Cx decomp p c cx0 s = decode Cx decomp q c cx0 s.
Proof. unfold decode. apply spec_run_ext. Qed.
End ProfileExt.

Theorem refines_rfc (Cx : Type) (decomp : Cx -> bytes -> N -> dres Cx) c cx0 segs :
  let r := feed_all Cx decomp c (Live (init_state Cx cx0)) segs in
  let d := decode Cx decomp rfc_profile c cx0 (concat segs) in
  fst r = fst d /\ rd_status (snd r) = out_status (snd d).
Proof.
  destruct aiohttp_is_rfc as (Hw & Hm & Hc).
  cbn zeta. rewrite <- (decode_ext Cx decomp aiohttp_profile rfc_profile Hw Hm Hc).
  exact (refines_aiohttp_profile Cx decomp c cx0 segs).
Qed.

(* instance used by the refutation witnesses and examples of Props/C12.v *)
Definition agrees_with_spec (p : profile) (c : cfg) (segs : list bytes) : Prop :=
  let r := feed_all toycx toy_decomp c (Live (init_state toycx toy0)) segs in
  let d := decode toycx toy_decomp p c toy0 (concat segs) in
  fst r = fst d /\ rd_status (snd r) = out_status (snd d).


Lemma reader_total (Cx : Type) (decomp : Cx -> bytes -> N -> dres Cx) (c : cfg) (rd : reader Cx) (segs : list bytes) :
  rd <> Fuel -> snd (feed_all Cx decomp c rd segs) <> Fuel.
Proof. exact (feed_all_no_fuel Cx decomp c segs rd). Qed.
