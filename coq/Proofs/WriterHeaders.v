From AV Require Import Lib.Base Lib.Utf8 Generated.WriterGen Model.Writer.
From Coq Require Import ZifyBool ZifyN.
Open Scope N_scope.

Definition no_crlf (b : list N) : Prop := ~ In 13 b /\ ~ In 10 b.

Lemma existsb_false_In {A} (f : A -> bool) l x : existsb f l = false -> In x l -> f x = false.
Proof.
  induction l as [|y l IH]; cbn [existsb In]; [tauto|].
  intros H [->|Hin]; apply orb_false_iff in H as [H1 H2]; auto.
Qed.

Lemma safe_header_no_ctl s c :
  safe_header s = true -> forbidden_header_char c = true -> ~ In c s.
Proof.
  unfold safe_header. intros H Hc Hin. apply negb_true_iff in H.
  rewrite (existsb_false_In _ _ _ H Hin) in Hc. discriminate.
Qed.

Lemma safe_header_no_crlf s : safe_header s = true -> no_crlf s.
Proof. intro H. split; apply (safe_header_no_ctl _ _ H); reflexivity. Qed.

Lemma safe_header_no_nul s : safe_header s = true -> ~ In 0 s.
Proof. intro H. apply (safe_header_no_ctl _ _ H); reflexivity. Qed.

Lemma safe_header_app a b : safe_header (a ++ b) = safe_header a && safe_header b.
Proof. unfold safe_header. rewrite existsb_app, negb_orb. reflexivity. Qed.

Lemma header_line_safe kv :
  safe_header (fst kv) && safe_header (snd kv) = true -> safe_header (header_line kv) = true.
Proof.
  unfold header_line. rewrite !safe_header_app. intro H. apply andb_true_iff in H as [H1 H2].
  rewrite H1, H2. reflexivity.
Qed.

Lemma encode_no_crlf s b : utf8_encode s = Some b -> no_crlf s -> no_crlf b.
Proof.
  intros He [H13 H10]. split; intro Hin;
    destruct (utf8_encode_bytes _ _ _ He Hin) as [[Hi _]|[Hge _]]; try tauto; lia.
Qed.

Lemma encode_CRLF : utf8_encode CRLF = Some CRLF.
Proof. reflexivity. Qed.

Lemma encode_app_Some a b out :
  utf8_encode (a ++ b) = Some out ->
  exists x y, utf8_encode a = Some x /\ utf8_encode b = Some y /\ out = x ++ y.
Proof.
  rewrite utf8_encode_app. destruct (utf8_encode a) as [x|]; [|discriminate].
  destruct (utf8_encode b) as [y|]; [|discriminate]. intro H. apply Some_inj in H.
  exists x, y. auto.
Qed.

Lemma encode_join ls out :
  utf8_encode (join CRLF ls) = Some out ->
  exists els, Forall2 (fun l el => utf8_encode l = Some el) ls els /\ out = join CRLF els.
Proof.
  revert out. induction ls as [|l ls IH]; intros out H.
  - cbn in H. apply Some_inj in H. subst. exists []. split; constructor.
  - destruct ls as [|l2 ls'].
    + cbn [join] in H. exists [out]. split; [repeat constructor; exact H|reflexivity].
    + change (join CRLF (l :: l2 :: ls')) with (l ++ CRLF ++ join CRLF (l2 :: ls')) in H.
      apply encode_app_Some in H as (x & y & Hx & Hy & ->).
      apply encode_app_Some in Hy as (c & z & Hc & Hz & ->).
      rewrite encode_CRLF in Hc. apply Some_inj in Hc. subst c.
      destruct (IH _ Hz) as (els & HF & ->).
      exists (x :: els). split; [constructor; assumption|].
      inversion HF; subst. reflexivity.
Qed.

Theorem no_injection sl hs out :
  serialize_headers sl hs = Some out ->
  exists esl elines,
    utf8_encode sl = Some esl /\
    Forall2 (fun kv el => utf8_encode (header_line kv) = Some el) hs elines /\
    out = esl ++ CRLF ++ join CRLF elines ++ CRLF ++ CRLF /\
    no_crlf esl /\ Forall no_crlf elines.
Proof.
  unfold serialize_headers. destruct (safe_header sl && headers_safe hs) eqn:Hs; [|discriminate].
  apply andb_true_iff in Hs as [Hsl Hhs]. intro H.
  apply encode_app_Some in H as (esl & r1 & Hesl & H & ->).
  apply encode_app_Some in H as (c1 & r2 & Hc1 & H & ->).
  rewrite encode_CRLF in Hc1. apply Some_inj in Hc1. subst c1.
  apply encode_app_Some in H as (ej & r3 & Hej & H & ->).
  change (CRLF ++ CRLF) with [13; 10; 13; 10] in H. cbn in H. apply Some_inj in H. subst r3.
  apply encode_join in Hej as (els & HF & ->).
  exists esl, els. split; [exact Hesl|]. split.
  { clear -HF. revert els HF. induction hs as [|kv hs IH]; intros els HF; inversion HF; subst; constructor; auto. }
  split; [reflexivity|]. split.
  { apply (encode_no_crlf _ _ Hesl). apply safe_header_no_crlf. exact Hsl. }
  clear -HF Hhs. revert els HF. unfold headers_safe in Hhs.
  induction hs as [|kv hs IH]; intros els HF; inversion HF as [|? ? ? ? He HF']; subst; constructor.
  - cbn [forallb] in Hhs. apply andb_true_iff in Hhs as [Hkv _].
    apply (encode_no_crlf _ _ He). apply safe_header_no_crlf. apply header_line_safe. exact Hkv.
  - apply IH; [|exact HF']. cbn [forallb] in Hhs. apply andb_true_iff in Hhs as [_ Hr]. exact Hr.
Qed.

(* a refused message: characterisation of None *)
Theorem refused_iff sl hs :
  serialize_headers sl hs = None <->
  (safe_header sl && headers_safe hs = false) \/
  utf8_encode (sl ++ CRLF ++ join CRLF (map header_line hs) ++ CRLF ++ CRLF) = None.
Proof.
  unfold serialize_headers. destruct (safe_header sl && headers_safe hs); split; intro H; auto.
  - destruct H as [H|H]; [discriminate|exact H].
Qed.

(* ---- reading the output back as lines ---- *)

Lemma split_aux_cons cur c d s :
  split_crlf_aux cur (c :: d :: s) =
  if (c =? 13) && (d =? 10) then rev cur :: split_crlf_aux [] s else split_crlf_aux (c :: cur) (d :: s).
Proof. reflexivity. Qed.

Lemma split_line cur l rest :
  no_crlf l ->
  split_crlf_aux cur (l ++ CRLF ++ rest) = (rev cur ++ l) :: split_crlf_aux [] rest.
Proof.
  revert cur. induction l as [|x l IH]; intros cur [H13 H10].
  - cbn. rewrite app_nil_r. reflexivity.
  - assert (Hx : x <> 13) by (intro; subst; apply H13; left; reflexivity).
    assert (Hl : no_crlf l) by (split; intro; [apply H13|apply H10]; right; assumption).
    change ((x :: l) ++ CRLF ++ rest) with (x :: (l ++ CRLF ++ rest)).
    destruct (l ++ CRLF ++ rest) as [|d s''] eqn:E.
    { destruct l; discriminate. }
    rewrite split_aux_cons. apply N.eqb_neq in Hx. rewrite Hx. cbn [andb].
    rewrite IH by exact Hl. cbn [rev]. rewrite <- app_assoc. reflexivity.
Qed.

Lemma split_joined els rest :
  Forall no_crlf els -> els <> [] ->
  split_crlf_aux [] (join CRLF els ++ CRLF ++ rest) = els ++ split_crlf_aux [] rest.
Proof.
  induction els as [|l els IH]; intros HF Hne; [congruence|].
  inversion HF as [|? ? Hl HF']; subst.
  destruct els as [|l2 els'].
  - cbn [join]. rewrite split_line by exact Hl. reflexivity.
  - change (join CRLF (l :: l2 :: els')) with (l ++ CRLF ++ join CRLF (l2 :: els')).
    rewrite <- !app_assoc. rewrite split_line by exact Hl. cbn [rev app].
    rewrite IH by (auto; congruence). reflexivity.
Qed.

Theorem lines_exact sl hs out :
  hs <> [] ->
  serialize_headers sl hs = Some out ->
  exists esl elines,
    utf8_encode sl = Some esl /\
    Forall2 (fun kv el => utf8_encode (header_line kv) = Some el) hs elines /\
    split_crlf out = esl :: elines ++ [[]; []].
Proof.
  intros Hne H. destruct (no_injection _ _ _ H) as (esl & els & H1 & H2 & -> & H4 & H5).
  exists esl, els. split; [exact H1|]. split; [exact H2|].
  unfold split_crlf. rewrite split_line by exact H4. cbn [rev app]. f_equal.
  rewrite split_joined; [reflexivity|exact H5|].
  intro; subst. inversion H2; subst. congruence.
Qed.

Theorem lines_exact_nohdr sl out :
  serialize_headers sl [] = Some out ->
  exists esl, utf8_encode sl = Some esl /\ split_crlf out = [esl; []; []; []].
Proof.
  intro H. destruct (no_injection _ _ _ H) as (esl & els & H1 & H2 & -> & H4 & _).
  inversion H2; subst. exists esl. split; [exact H1|].
  unfold split_crlf. rewrite split_line by exact H4. reflexivity.
Qed.

(* reason / method checks *)
Lemma reason_ok_no_crlf r : reason_ok r = true -> no_crlf r.
Proof.
  unfold reason_ok. intro H. apply negb_true_iff in H.
  split; intro Hin; pose proof (existsb_false_In _ _ _ H Hin) as E; vm_compute in E; discriminate.
Qed.

Lemma method_ok_safe m : method_ok m = true -> safe_header m = true /\ ~ In 32 m.
Proof.
  unfold method_ok, safe_header. intro H. apply negb_true_iff in H. split.
  - apply negb_true_iff. induction m as [|c m IH]; [reflexivity|].
    cbn [existsb] in *. apply orb_false_iff in H as [Hc Hm]. rewrite (IH Hm), orb_false_r.
    unfold method_nontoken_char in Hc. unfold forbidden_header_char. lia.
  - intro Hin. pose proof (existsb_false_In _ _ _ H Hin) as E. vm_compute in E. discriminate.
Qed.
