(* C01: concrete streams for the refinement theorems (vm_compute). *)
From AV Require Import Lib.Base Lib.BytesX Generated.HttpGen Model.Http Model.HttpSpec
  Proofs.HttpSeg Proofs.HttpSegEx Proofs.HttpSpecRefinePart Proofs.HttpSpecRefineBase Proofs.HttpSpecRefine.
Open Scope N_scope.

Definition limq : limits := mkLimits default_max_line default_max_field default_max_headers 0.

(* what the strict reading says: verdict kind (0 accept, 1 upgraded, 2 incomplete, 3 reject, 4 ask),
   per message method, target, body, chunk ends, span length; the rest; the error *)
Definition sm_d (m : smsg) := (m_method (s_msg m), m_target (s_msg m), s_body m, s_chunk_ends m, length (s_span m)).
Definition sdigest (v : sverdict) :=
  match v with
  | SAccept ms _ => (0, map sm_d ms, @nil N, @None herr)
  | SUpgraded ms r => (1, map sm_d ms, r, None)
  | SIncomplete ms r => (2, map sm_d ms, r, None)
  | SReject ms e => (3, map sm_d ms, [], Some e)
  | SAsk c t => (4, [], t, None)
  end.

(* CRLF, chunked POST with trailers (106 bytes), CRLF CRLF, GET (28 bytes), CRLF *)
Definition st_two : bytes := [13; 10; 80; 79; 83; 84; 32; 47; 97; 32; 72; 84; 84; 80; 47; 49; 46; 49; 13; 10; 72; 111; 115; 116; 58; 32; 104; 13; 10; 84; 114; 97; 110; 115; 102; 101; 114; 45; 69; 110; 99; 111; 100; 105; 110; 103; 58; 32; 99; 104; 117; 110; 107; 101; 100; 13; 10; 13; 10; 49; 97; 59; 120; 61; 121; 13; 10; 97; 98; 99; 100; 101; 102; 103; 104; 105; 106; 107; 108; 109; 110; 111; 112; 113; 114; 115; 116; 117; 118; 119; 120; 121; 122; 13; 10; 48; 13; 10; 88; 45; 84; 58; 32; 118; 13; 10; 13; 10; 13; 10; 13; 10; 71; 69; 84; 32; 47; 98; 32; 72; 84; 84; 80; 47; 49; 46; 49; 13; 10; 72; 111; 115; 116; 58; 32; 104; 13; 10; 13; 10; 13; 10].
Definition st_two_segs : list bytes := [[13; 10; 80; 79; 83; 84; 32; 47; 97; 32; 72; 84; 84; 80; 47; 49; 46; 49; 13; 10; 72; 111; 115; 116; 58; 32; 104; 13; 10; 84; 114; 97; 110; 115; 102; 101; 114; 45; 69; 110; 99; 111; 100; 105; 110; 103; 58; 32; 99; 104; 117; 110; 107; 101; 100; 13; 10; 13; 10; 49; 97; 59]; [120; 61; 121; 13; 10; 97; 98; 99; 100; 101; 102; 103; 104; 105; 106; 107; 108; 109; 110; 111; 112; 113; 114; 115; 116; 117; 118; 119; 120; 121; 122; 13; 10; 48; 13; 10; 88; 45]; [84; 58; 32; 118; 13; 10; 13; 10; 13]; [10; 13; 10; 71; 69; 84; 32; 47; 98; 32; 72; 84; 84; 80; 47; 49; 46; 49; 13; 10; 72; 111; 115; 116; 58; 32; 104; 13; 10; 13; 10; 13; 10]].
Definition body26 : bytes := [97; 98; 99; 100; 101; 102; 103; 104; 105; 106; 107; 108; 109; 110; 111; 112; 113; 114; 115; 116; 117; 118; 119; 120; 121; 122].

Lemma ex_partition :
  match spec limq [] st_two with
  | SAccept ms _ => st_two = weave [1%nat; 2%nat] (spans ms) ++ crlfs 1 /\ map (@length N) (spans ms) = [106%nat; 28%nat]
  | _ => False
  end.
Proof. vm_compute. split; reflexivity. Qed.

Lemma ex_refines :
  sdigest (spec limq [] st_two) =
    (0, [([80; 79; 83; 84], [47; 97], body26, [26], 106%nat); ([71; 69; 84], [47; 98], [], [], 28%nat)], [], None) /\
  digest (feed limq [] init st_two []) =
    (ROk [], [([71; 69; 84], [47; 98], [], [], true, None); ([80; 79; 83; 84], [47; 97], body26, [26], true, None)]).
Proof. vm_compute. split; reflexivity. Qed.

Lemma ex_refines_segs :
  concat st_two_segs = st_two /\
  digest (run_segs limq [] init st_two_segs [] []) =
    (ROk [], [([71; 69; 84], [47; 98], [], [], true, None); ([80; 79; 83; 84], [47; 97], body26, [26], true, None)]).
Proof. vm_compute. split; reflexivity. Qed.

(* the exception class can differ: max_headers = 2 is exceeded at the third line (BadHttpMessage
   as soon as it is read), the fourth line is longer than max_field = 10 (the strict reading,
   which checks line lengths first, says LineTooLong) *)
Definition lim_cls : limits := mkLimits 100 10 2 0.
Definition st_cls : bytes := [71; 69; 84; 32; 47; 32; 72; 84; 84; 80; 47; 49; 46; 48; 13; 10; 97; 58; 49; 13; 10; 98; 58; 50; 13; 10; 99; 58; 99; 99; 99; 99; 99; 99; 99; 99; 99; 99; 99; 99; 99; 99; 99; 99; 99; 99; 99; 13; 10; 13; 10].
Lemma ex_class_differs :
  sdigest (spec lim_cls [] st_cls) = (3, [], [], Some ELineTooLong) /\
  digest (feed lim_cls [] init st_cls []) = (RErr EBadMessage, []).
Proof. vm_compute. split; reflexivity. Qed.

(* incomplete streams (strict reading: SIncomplete) and what the parser does with them *)
Definition lim_inc : limits := mkLimits 20 20 3 0.
Definition inc_kind (s : bytes) := (fst (fst (fst (sdigest (spec lim_inc [] s)))), fst (digest (feed lim_inc [] init s []))).
Lemma ex_incomplete :
  inc_kind [71; 69; 84; 32; 47; 32; 72; 84; 84; 80; 47; 49; 46; 48; 13; 10; 102; 111; 111; 10] = (2, RErr EBadMessage) (* bare LF in a partial line *) /\
  inc_kind [71; 69; 84; 32; 47; 32; 72; 84; 84; 80; 47; 49; 46; 48; 13; 10; 120; 120; 120; 120; 120; 120; 120; 120; 120; 120; 120; 120; 120; 120; 120; 120; 120; 120; 120; 120; 120; 120; 120; 120; 120; 120; 120; 120; 120; 120] = (2, RErr ELineTooLong) (* partial line longer than its limit *) /\
  inc_kind [71; 69; 84; 32; 47; 32; 72; 84; 84; 80; 47; 49; 46; 48; 13; 10; 120; 120; 120; 120; 120; 120; 120; 120; 120; 120; 120; 120; 120; 120; 120; 120; 120; 120; 120; 120; 120; 120; 120; 120; 120; 120; 120; 120; 120; 120; 13; 10; 97; 98] = (2, RErr ELineTooLong) (* complete over-long line, block not finished *) /\
  inc_kind [71; 69; 84; 32; 47; 32; 72; 84; 84; 80; 47; 49; 46; 48; 13; 10; 13; 10; 71; 69; 84; 32; 47; 32; 72; 84; 84; 80; 47; 49; 46; 48; 13; 10; 97; 98] = (2, RErr EBadMessage) (* a line after a message that closes *) /\
  inc_kind [71; 69; 84; 32; 47; 32; 72; 84; 84; 80; 47; 49; 46; 48; 13; 10; 97; 58; 49; 13; 10; 98; 58; 50; 13; 10; 99; 58; 51; 13; 10; 100] = (2, RErr EBadMessage) (* more lines than max_headers, block not finished *) /\
  inc_kind [71; 69; 84; 32; 47; 32; 72; 84; 84; 80; 47; 49; 46; 48; 13; 10; 97; 98] = (2, ROk []) (* otherwise: waits for more *).
Proof. vm_compute. repeat split. Qed.

(* upgrades *)
Definition st_connect : bytes := [67; 79; 78; 78; 69; 67; 84; 32; 104; 58; 49; 32; 72; 84; 84; 80; 47; 49; 46; 49; 13; 10; 72; 111; 115; 116; 58; 32; 104; 13; 10; 13; 10; 116; 117; 110; 110; 101; 108].
Definition o_connect : oracle := [(true, [104; 58; 49], true)].
Definition st_ws : bytes := [71; 69; 84; 32; 47; 119; 32; 72; 84; 84; 80; 47; 49; 46; 49; 13; 10; 72; 111; 115; 116; 58; 32; 104; 13; 10; 67; 111; 110; 110; 101; 99; 116; 105; 111; 110; 58; 32; 117; 112; 103; 114; 97; 100; 101; 13; 10; 85; 112; 103; 114; 97; 100; 101; 58; 32; 119; 101; 98; 115; 111; 99; 107; 101; 116; 13; 10; 13; 10; 102; 114; 97; 109; 101; 115].
Lemma ex_upgraded :
  sdigest (spec limq o_connect st_connect) = (1, [([67; 79; 78; 78; 69; 67; 84], [104; 58; 49], [], [], 33%nat)], [116; 117; 110; 110; 101; 108], None) /\
  digest (feed limq o_connect init st_connect []) = (ROk [], [([67; 79; 78; 78; 69; 67; 84], [104; 58; 49], [116; 117; 110; 110; 101; 108], [], false, None)]) /\
  sdigest (spec limq [] st_ws) = (1, [([71; 69; 84], [47; 119], [], [], 69%nat)], [102; 114; 97; 109; 101; 115], None) /\
  digest (feed limq [] init st_ws []) = (ROk [102; 114; 97; 109; 101; 115], [([71; 69; 84], [47; 119], [], [], true, None)]).
Proof. vm_compute. repeat split. Qed.
