(* C16 — the jar refines the RFC 6265 reference store in the safety direction: after any history, every
   cookie filter_cookies attaches is attached by the reference store as well. *)
From AV Require Import Lib.Base Generated.CookiesGen Model.Cookies Proofs.CookiesStrings Proofs.CookiesJar.
Open Scope N_scope.

(* ------------------------------------------------------------ hypotheses on the inputs *)

(* response hosts: non-empty, no empty label at the front or inside (a trailing dot is allowed) *)
Definition wf_host (h : str) : Prop :=
  h <> [] /\ first_is DOT h = false /\ (forall p q, h <> p ++ DOT :: DOT :: q).

(* the only hypothesis on a history: every Set-Cookie batch comes from a well-formed response host.  (With a
   host starting with "." the jar strips that dot from the host-only domain too, and with an empty label inside,
   save+load moves a cookie of domain ".x" to "x"; such hosts do not resolve and are excluded.) *)
Definition op_ok (o : op) : Prop :=
  match o with
  | OSet u ms => wf_host (u_host u)
  | _ => True
  end.

(* ------------------------------------------------------------ the simulation relation *)

Definition witness (j : jar) (k : key) (c : cookie) (r : rcookie) : Prop :=
  r_name r = k_name k /\ r_value r = c_value c /\ r_domain r = k_dom k /\ r_path r = c_path c /\
  r_secure r = c_secure c /\
  (r_host_only r = true -> flagged j k = true) /\
  (forall e, r_expiry r = Some e -> exists w, lookup k (j_expirations j) = Some w /\ (w <= e)%Z).

Definition Sim (j : jar) (s : rstore) : Prop :=
  forall k c, In (k, c) (j_cookies j) -> exists r, In r s /\ witness j k c r.

Lemma sim_sub j j' s : Sim j s -> Sub j' j -> Sim j' s.
Proof.
  intros HS HB k c Hin. destruct (HB k c Hin) as [Hin0 [HF HE]].
  destruct (HS k c Hin0) as [r [Hr [A [B [C [D [E [F G]]]]]]]].
  exists r. split; [exact Hr|]. repeat (split; [assumption|]). split; [auto|].
  intros e He. destruct (G e He) as [w [Hw Hle]]. exists w. split; [apply HE; exact Hw|exact Hle].
Qed.

Definition St (unsafe : bool) (j : jar) (s : rstore) : Prop :=
  Inv j /\ Sim j s /\ j_unsafe j = unsafe.

(* ------------------------------------------------------------ update_cookies *)

Definition via_expires (j1 : jar) (m : morsel) (k : key) : jar :=
  match m_expires m with
  | EX_val t => if expires_value_used t then expire_cookie j1 t k else j1
  | _ => j1
  end.

Definition stage_expiry (j1 : jar) (m : morsel) (now : Z) (k : key) : jar :=
  match m_maxage m with
  | MA_val dl => expire_cookie j1 (max_age_ticks now dl) k
  | MA_invalid => if invalid_max_age_uses_expires then via_expires j1 m k else j1
  | MA_none => via_expires j1 m k
  end.

Definition stored (u : url) (m : morsel) : cookie :=
  {| c_value := m_value m; c_path := cookie_path u m; c_secure := m_secure m |}.

Definition mark (j : jar) (u : url) (m : morsel) : jar :=
  if marks_host_only m then set_host_only j (add_dn (u_host u, m_name m) (j_host_only j)) else j.

Lemma update1_unfold u now j m :
  update1 u now j m =
  let j1 := mark j u m in
  let d := effective_domain u m in
  if negb (is_nil (u_host u)) && negb (is_domain_match d (u_host u)) then j1
  else let k := (d, rstrip SLASH (cookie_path u m), m_name m) in
       let j2 := stage_expiry j1 m now k in
       set_cookies j2 (upsert k (stored u m) (j_cookies j2)).
Proof. reflexivity. Qed.

Ltac stage_cases :=
  unfold stage_expiry, via_expires;
  repeat match goal with
         | |- context [match m_maxage ?m with _ => _ end] => destruct (m_maxage m)
         | |- context [match m_expires ?m with _ => _ end] => destruct (m_expires m)
         | |- context [if invalid_max_age_uses_expires then _ else _] => destruct invalid_max_age_uses_expires
         | |- context [if expires_value_used ?t then _ else _] => destruct (expires_value_used t)
         end.

Lemma stage_expiry_cookies j m now k : j_cookies (stage_expiry j m now k) = j_cookies j.
Proof. stage_cases; try reflexivity; apply expire_cookie_cookies. Qed.

Lemma stage_expiry_host_only j m now k : j_host_only (stage_expiry j m now k) = j_host_only j.
Proof. stage_cases; try reflexivity; apply expire_cookie_host_only. Qed.

Lemma stage_expiry_unsafe j m now k : j_unsafe (stage_expiry j m now k) = j_unsafe j.
Proof. stage_cases; try reflexivity; apply expire_cookie_unsafe. Qed.

Lemma stage_expiry_covers j m now k : heap_covers j -> heap_covers (stage_expiry j m now k).
Proof. intro H. stage_cases; try exact H; apply expire_cookie_covers; exact H. Qed.

Lemma stage_expiry_other j m now k k' : k' <> k ->
  lookup k' (j_expirations (stage_expiry j m now k)) = lookup k' (j_expirations j).
Proof. intro N. stage_cases; try reflexivity; apply expire_cookie_lookup_other; exact N. Qed.

(* the jar's deadline for the stored cookie is never later than the RFC expiry-time.  This is where the three
   repaired defects lived: it needs the generated `expires_value_used t = true` (the parsed Expires is used
   whatever its value, also 0) and `invalid_max_age_uses_expires = true`. *)
Lemma stage_expiry_deadline j m now k :
  forall e, rfc_expiry m now = Some e ->
  exists w, lookup k (j_expirations (stage_expiry j m now k)) = Some w /\ (w <= e)%Z.
Proof.
  intros e He. unfold rfc_expiry in He. unfold stage_expiry, via_expires.
  assert (U : forall t, expires_value_used t = true) by reflexivity.
  assert (V : invalid_max_age_uses_expires = true) by reflexivity.
  rewrite V.
  destruct (m_maxage m) as [| |dl].
  - destruct (m_expires m) as [| |t]; try discriminate. inversion He. subst. rewrite U.
    exists e. split; [apply expire_cookie_lookup_same|lia].
  - destruct (m_expires m) as [| |t]; try discriminate. inversion He. subst. rewrite U.
    exists e. split; [apply expire_cookie_lookup_same|lia].
  - inversion He. subst. exists (max_age_ticks now dl). split; [apply expire_cookie_lookup_same|].
    unfold max_age_ticks, max_age_deadline_gen. apply Z.le_min_l.
Qed.

Lemma effective_domain_cases u m : wf_host (u_host u) ->
  (marks_host_only m = true /\ effective_domain u m = u_host u /\ rfc_domain_attr m = []) \/
  (marks_host_only m = false /\ effective_domain u m = rfc_domain_attr m /\ rfc_domain_attr m <> []).
Proof.
  intros [Hne [Hfd _]]. unfold marks_host_only, effective_domain, rfc_domain_attr.
  destruct (last_is DOT (m_domain m)) eqn:L.
  - left. simpl. rewrite Hfd. auto.
  - destruct (m_domain m) as [|x t] eqn:D.
    + left. simpl. rewrite Hfd. auto.
    + right. simpl is_nil. cbv iota. split; [reflexivity|]. split; [reflexivity|].
      destruct (first_is DOT (x :: t)) eqn:F; [|discriminate].
      simpl. destruct t; [|discriminate]. simpl in F. simpl in L. congruence.
Qed.

Lemma Inv_mark j u m : Inv j -> Inv (mark j u m).
Proof. intro H. unfold mark. destruct (marks_host_only m); exact H. Qed.

Lemma Sub_mark j u m : Sub (mark j u m) j.
Proof.
  unfold mark. destruct (marks_host_only m); [|apply Sub_refl].
  intros k c H. simpl in H. split; [exact H|]. split; [|auto].
  unfold flagged. simpl. intro F. apply mem_add_dn. right. exact F.
Qed.

Lemma mark_flag j u m : marks_host_only m = true ->
  mem_dn (u_host u, m_name m) (j_host_only (mark j u m)) = true.
Proof. intro H. unfold mark. rewrite H. simpl. apply mem_add_dn. left. reflexivity. Qed.

Lemma mark_unsafe j u m : j_unsafe (mark j u m) = j_unsafe j.
Proof. unfold mark. destruct (marks_host_only m); reflexivity. Qed.

Lemma r_same_id_false a b : r_same_id a b = false ->
  ~ (r_name a = r_name b /\ r_domain a = r_domain b /\ r_path a = r_path b).
Proof.
  intros H [A [B C]]. unfold r_same_id in H. rewrite A, B, C, !list_eqb_refl in H. discriminate.
Qed.

(* storing an accepted cookie: jar and reference store stay related *)
Lemma accept_step j1 s u m now d ho :
  Inv j1 -> Sim j1 s -> d <> [] -> first_is DOT d = false ->
  (ho = true -> mem_dn (d, m_name m) (j_host_only j1) = true) ->
  let k := (d, rstrip SLASH (cookie_path u m), m_name m) in
  let j2 := stage_expiry j1 m now k in
  let j' := set_cookies j2 (upsert k (stored u m) (j_cookies j2)) in
  let c := {| r_name := m_name m; r_value := m_value m; r_domain := d; r_path := cookie_path u m;
              r_host_only := ho; r_secure := m_secure m; r_expiry := rfc_expiry m now |} in
  Inv j' /\ Sim j' (c :: filter (fun x => negb (r_same_id x c)) s).
Proof.
  intros [HE HC] HS Hd Hfd Hho k j2 j' c.
  assert (Cj2 : j_cookies j2 = j_cookies j1) by apply stage_expiry_cookies.
  split.
  - split.
    + intros kc Hin. unfold j' in Hin. simpl in Hin. apply In_upsert in Hin. destruct Hin as [->|[Hin _]].
      * unfold entry_ok, k, stored. simpl. split; [reflexivity|]. split.
        { unfold cookie_path. destruct (first_is SLASH (m_path m)) eqn:F; [exact F|apply default_path_first]. }
        split; assumption.
      * apply HE. rewrite <- Cj2. exact Hin.
    + unfold j'. intros k0 w L. simpl in *. apply (stage_expiry_covers j1 m now k HC). exact L.
  - intros k0 c0 Hin. unfold j' in Hin. simpl in Hin. apply In_upsert in Hin. destruct Hin as [E|[Hin N]].
    + inversion E. subst k0 c0. exists c. split; [left; reflexivity|].
      unfold witness, c, k, stored, k_name, k_dom, flagged. simpl.
      repeat (split; [reflexivity|]). split.
      * intro H. unfold j2. rewrite stage_expiry_host_only. apply Hho. exact H.
      * intros e He. apply (stage_expiry_deadline j1 m now k e He).
    + rewrite Cj2 in Hin. simpl in N.
      destruct (HS k0 c0 Hin) as [r [Hr [A [B [C [D [E [F G]]]]]]]].
      exists r. split.
      * right. apply filter_In. split; [exact Hr|]. apply negb_true_iff.
        destruct (r_same_id r c) eqn:Same; [|reflexivity]. exfalso. apply N.
        unfold r_same_id in Same. apply andb_true_iff in Same. destruct Same as [Same S3].
        apply andb_true_iff in Same. destruct Same as [S1 S2].
        apply list_eqb_eq in S1, S2, S3. simpl in S1, S2, S3.
        destruct k0 as [[d0 p0] n0]. unfold k_name, k_dom in *. simpl in *.
        pose proof (HE _ Hin) as [P _]. simpl in P. unfold k_path in P. simpl in P.
        unfold k. rewrite P, <- A, <- C, <- D, S1, S2, S3. reflexivity.
      * unfold witness. repeat (split; [assumption|]). split.
        { unfold flagged, j'. simpl. unfold j2. rewrite stage_expiry_host_only. exact F. }
        { intros e He. destruct (G e He) as [w [Hw Hle]]. exists w. split; [|exact Hle].
          unfold j'. simpl. unfold j2. rewrite stage_expiry_other; [exact Hw|exact N]. }
Qed.

Lemma update1_sim u now j s m unsafe :
  wf_host (u_host u) -> St unsafe j s ->
  St unsafe (update1 u now j m) (rfc_set1 u now s m).
Proof.
  intros Hwf [HI [HS HU]].
  pose proof Hwf as [Hne [Hfd Hdd]].
  assert (I1 : Inv (mark j u m)) by (apply Inv_mark; exact HI).
  assert (S1 : Sim (mark j u m) s) by (eapply sim_sub; [exact HS|apply Sub_mark]).
  rewrite update1_unfold. unfold rfc_set1. cbv zeta.
  destruct (effective_domain_cases u m Hwf) as [[Hm [He Hr]]|[Hm [He Hr]]]; rewrite He.
  - (* no usable Domain attribute: host-only cookie for the response host *)
    rewrite Hr. simpl is_nil. cbv iota. rewrite is_domain_match_refl. rewrite andb_false_r.
    destruct (accept_step (mark j u m) s u m now (u_host u) true I1 S1 Hne Hfd) as [A B].
    { intros _. apply mark_flag. exact Hm. }
    split; [exact A|]. split; [exact B|].
    simpl. rewrite stage_expiry_unsafe, mark_unsafe. exact HU.
  - (* Domain attribute present: accepted iff it domain-matches the response host *)
    destruct (rfc_domain_attr m) as [|x t] eqn:D; [congruence|]. simpl is_nil. cbv iota.
    replace (negb (is_nil (u_host u))) with true by (destruct (u_host u); [congruence|reflexivity]).
    rewrite is_domain_match_rfc. simpl andb.
    destruct (rfc_domain_match (x :: t) (u_host u)) eqn:M; simpl negb; cbv iota.
    + assert (Fd : first_is DOT (x :: t) = false).
      { destruct (first_is DOT (x :: t)) eqn:F; [|reflexivity]. exfalso.
        apply first_is_spec in F. destruct F as [t' Ft]. inversion Ft. subst x t'.
        apply rfc_domain_match_spec in M. destruct M as [M|[_ [[p M] _]]].
        - rewrite <- M in Hfd. simpl in Hfd. discriminate.
        - apply (Hdd p t). exact M. }
      destruct (accept_step (mark j u m) s u m now (x :: t) false I1 S1) as [A B]; try assumption; try discriminate.
      split; [exact A|]. split; [exact B|].
      simpl. rewrite stage_expiry_unsafe, mark_unsafe. exact HU.
    + split; [exact I1|]. split; [exact S1|]. rewrite mark_unsafe. exact HU.
Qed.

Lemma fold_update1_sim u now unsafe ms : forall j s,
  wf_host (u_host u) -> St unsafe j s ->
  St unsafe (fold_left (update1 u now) ms j) (fold_left (rfc_set1 u now) ms s).
Proof.
  induction ms as [|m ms IH]; intros j s Hwf H; simpl; [exact H|].
  apply IH; try assumption. apply update1_sim; assumption.
Qed.

Lemma St_sub unsafe j j' s : St unsafe j s -> Sub j' j -> Inv j' -> j_unsafe j' = j_unsafe j -> St unsafe j' s.
Proof.
  intros [HI [HS HU]] HB HI' HU'. split; [exact HI'|]. split; [eapply sim_sub; eassumption|congruence].
Qed.

Lemma update_sim unsafe j s u ms now :
  wf_host (u_host u) -> St unsafe j s ->
  St unsafe (update j u ms now) (rfc_set unsafe s u ms now).
Proof.
  intros Hwf H. pose proof H as [_ [_ HU]]. unfold update, rfc_set. rewrite HU.
  destruct (negb unsafe && is_ip (u_host u)); [exact H|].
  pose proof (fold_update1_sim u now unsafe ms j s Hwf H) as H2.
  eapply St_sub; [exact H2|apply do_expiration_sub|apply Inv_do_expiration; apply H2|apply do_expiration_unsafe].
Qed.

(* ------------------------------------------------------------ clear / clear_domain *)

Lemma clear_all_sim unsafe j : j_unsafe j = unsafe -> St unsafe (clear_all j) [].
Proof.
  intro HU. split; [apply Inv_empty|]. split; [intros k c []|exact HU].
Qed.

Lemma clear_domain_sim unsafe j s now d : St unsafe j s ->
  St unsafe (clear_domain j now d) (filter (fun c => negb (rfc_domain_match d (r_domain c))) s).
Proof.
  intros [HI [HS HU]]. unfold clear_domain.
  set (pred := fun (k : key) (_ : cookie) => is_domain_match d (k_dom k)).
  split; [unfold clear_pred; apply Inv_delete_cookies; exact HI|]. split.
  - intros k c Hin. pose proof (clear_pred_survivor j now pred k c Hin) as P.
    destruct (sim_sub j _ s HS (clear_pred_sub j now pred) k c Hin) as [r [Hr W]].
    exists r. split; [|exact W]. apply filter_In. split; [exact Hr|].
    destruct W as [_ [_ [Dm _]]]. unfold pred in P. rewrite is_domain_match_rfc in P. rewrite Dm, P. reflexivity.
  - unfold clear_pred. rewrite delete_cookies_unsafe. exact HU.
Qed.

(* ------------------------------------------------------------ filter_cookies *)

Lemma dict_set_In n v l x : In x (dict_set n v l) -> x = (n, v) \/ In x l.
Proof.
  induction l as [|[n' v'] l IH]; simpl.
  - intros [H|[]]; auto.
  - destruct (list_eqb n' n); simpl; intros [H|H]; auto.
    destruct (IH H); auto.
Qed.

Lemma dict_of_In emits x : In x (dict_of emits) -> In x emits.
Proof.
  unfold dict_of. assert (G : forall acc, In x (fold_left (fun d nv => dict_set (fst nv) (snd nv) d) emits acc) -> In x acc \/ In x emits).
  { induction emits as [|[n v] emits IH]; intros acc H; simpl in *; [auto|].
    destruct (IH _ H) as [H1|H1]; [|auto]. apply dict_set_In in H1. destruct H1 as [->|H1]; auto. }
  intro H. destruct (G [] H) as [[]|H1]. exact H1.
Qed.

Lemma group_In j d p k c : In (k, c) (group j d p) <-> In (k, c) (j_cookies j) /\ k_dom k = d /\ k_path k = p.
Proof.
  unfold group. rewrite filter_In. simpl. rewrite andb_true_iff, !list_eqb_eq. tauto.
Qed.

Lemma filter_emits_In j u n v : In (n, v) (filter_emits j u) ->
  (exists k c, In (k, c) (group j [] []) /\ (n, v) = emit (k, c)) \/
  ((is_ip (u_host u) && negb (j_unsafe j) = false) /\
   exists d p k c,
     In d (if is_ip (u_host u) then [u_host u] else dot_suffixes (u_host u)) /\
     In p (path_prefixes (u_path u)) /\ In (k, c) (group j d p) /\ sendable j u (k, c) = true /\ (n, v) = emit (k, c)).
Proof.
  unfold filter_emits. intro H.
  assert (Sh : In (n, v) (map emit (group j [] [])) -> exists k c, In (k, c) (group j [] []) /\ (n, v) = emit (k, c)).
  { intro Hs. apply in_map_iff in Hs. destruct Hs as [[k c] [E Hin]]. exists k, c. auto. }
  destruct (is_ip (u_host u) && negb (j_unsafe j)) eqn:Ip; [left; apply Sh; exact H|].
  apply in_app_iff in H. destruct H as [H|H]; [left; apply Sh; exact H|]. right. split; [reflexivity|].
  apply in_flat_map in H. destruct H as [d [Hd H]].
  apply in_flat_map in H. destruct H as [p [Hp H]].
  apply in_map_iff in H. destruct H as [[k c] [E H]]. apply filter_In in H. destruct H as [Hg Hs].
  exists d, p, k, c. auto.
Qed.

Lemma touch_St unsafe j s : St unsafe j s -> St unsafe (touch j) s.
Proof. intros H. exact H. Qed.

Lemma filter_sound unsafe j s u now : St unsafe j s ->
  St unsafe (fst (filter_cookies j u now)) s /\
  forall n v, In (n, v) (snd (filter_cookies j u now)) -> In (n, v) (rfc_filter s u now).
Proof.
  intro H. unfold filter_cookies. destruct (negb (j_touched j)); simpl; [split; [exact H|intros n v []]|].
  pose proof H as [[HE HC] [HS HU]].
  set (j' := do_expiration j now).
  assert (H' : St unsafe j' s).
  { eapply St_sub; [exact H|apply do_expiration_sub|apply Inv_do_expiration; apply H|apply do_expiration_unsafe]. }
  split; [apply touch_St; exact H'|].
  intros n v Hin. apply dict_of_In in Hin. apply filter_emits_In in Hin.
  destruct H' as [[HE' HC'] [HS' HU']].
  destruct Hin as [[k [c [Hg E]]]|[Ip [d [p [k [c [Hd [Hp [Hg [Hsend E]]]]]]]]]].
  - exfalso. apply group_In in Hg. destruct Hg as [Hin [Dm _]].
    destruct (HE' _ Hin) as [_ [_ [Ne _]]]. apply Ne. exact Dm.
  - apply group_In in Hg. destruct Hg as [Hin [Dm Pk]].
    destruct (HS' k c Hin) as [r [Hr [A [B [C [D [Es [F G]]]]]]]].
    destruct (HE' _ Hin) as [P1 [P2 [P4 P5]]]. simpl in P1, P2, P4, P5.
    unfold emit in E. simpl in E. inversion E. subst n v.
    unfold rfc_filter. apply in_map_iff. exists r. split; [rewrite A, B; reflexivity|].
    apply filter_In. split; [exact Hr|].
    unfold sendable in Hsend. apply andb_true_iff in Hsend. destruct Hsend as [Hsend Hsec].
    apply andb_true_iff in Hsend. destruct Hsend as [Hho Hlen].
    unfold rfc_sendable. rewrite !andb_true_iff. repeat split.
    + (* domain *)
      destruct (r_host_only r) eqn:Ho.
      * rewrite C. specialize (F eq_refl). unfold flagged in F. rewrite F in Hho. simpl in Hho.
        apply negb_true_iff in Hho. apply negb_false_iff in Hho. exact Hho.
      * rewrite C. apply rfc_domain_match_spec.
        destruct (is_ip (u_host u)) eqn:I.
        { destruct Hd as [Hd|[]]. left. congruence. }
        { apply dot_suffix_domain_match; [rewrite Dm; exact Hd|exact P4|exact I]. }
    + (* path *)
      rewrite D. apply rfc_path_match_spec. apply jar_path_sound; [|exact Hlen].
      rewrite <- P1, Pk. exact Hp.
    + (* secure *)
      rewrite Es. destruct (c_secure c), (u_secure u); simpl in *; auto.
    + (* not expired *)
      unfold r_live. destruct (r_expiry r) as [e|] eqn:Ex; [|reflexivity].
      destruct (G e eq_refl) as [w [Hw Hle]].
      pose proof (do_expiration_live j now HC k c w Hin Hw) as L. apply Z.ltb_lt. lia.
Qed.

(* ------------------------------------------------------------ save + load *)

(* Sub, except that the deadline row of the one key being reloaded is restored a step later *)
Definition Sub' (jx j : jar) (k0 : key) : Prop :=
  forall k c, In (k, c) (j_cookies jx) ->
    In (k, c) (j_cookies j) /\
    (flagged j k = true -> flagged jx k = true) /\
    (k <> k0 -> forall w, lookup k (j_expirations j) = Some w -> lookup k (j_expirations jx) = Some w).

Lemma Sub_Sub' a b j k0 : Sub a b -> Sub' b j k0 -> Sub' a j k0.
Proof.
  intros A B k c H. destruct (A k c H) as [H2 [F2 E2]]. destruct (B k c H2) as [H3 [F3 E3]].
  split; [exact H3|]. split; [auto|]. intros N w L. apply E2. apply E3; assumption.
Qed.

Lemma Sub_weaken a j k0 : Sub a j -> Sub' a j k0.
Proof. intros A k c H. destruct (A k c H) as [H2 [F2 E2]]. split; [exact H2|]. split; [exact F2|]. intros _. exact E2. Qed.

Lemma finish_some jx j k0 w : Sub' jx j k0 -> lookup k0 (j_expirations j) = Some w -> Sub (expire_cookie jx w k0) j.
Proof.
  intros A L k c H. rewrite expire_cookie_cookies in H. destruct (A k c H) as [H2 [F2 E2]].
  split; [exact H2|]. split.
  - unfold flagged. rewrite expire_cookie_host_only. exact F2.
  - intros w' L'. destruct (key_eqb k k0) eqn:E.
    + apply key_eqb_eq in E. subst k. rewrite L in L'. inversion L'. subst. apply expire_cookie_lookup_same.
    + apply key_eqb_neq in E. rewrite expire_cookie_lookup_other by exact E. apply E2; assumption.
Qed.

Lemma finish_none jx j k0 : Sub' jx j k0 -> lookup k0 (j_expirations j) = None -> Sub jx j.
Proof.
  intros A L k c H. destruct (A k c H) as [H2 [F2 E2]]. split; [exact H2|]. split; [exact F2|].
  intros w L'. apply E2; [|exact L']. intro. subst. congruence.
Qed.

Definition reload_morsel (k0 : key) (c0 : cookie) (ho : bool) : morsel :=
  {| m_name := k_name k0; m_value := c_value c0; m_domain := if ho then [] else k_dom k0;
     m_path := c_path c0; m_secure := c_secure c0; m_maxage := MA_none; m_expires := EX_none |}.

Definition reload_url (k0 : key) : url := {| u_secure := true; u_host := k_dom k0; u_path := [SLASH] |}.

Lemma load1_unfold now jk k0 c0 ho dl :
  load1 now jk {| sv_key := k0; sv_cookie := c0; sv_host_only := ho; sv_deadline := dl |} =
  let j1 := update jk (reload_url k0) [reload_morsel k0 c0 ho] now in
  match dl with Some w => expire_cookie j1 w k0 | None => j1 end.
Proof. destruct k0 as [[d p] n]. reflexivity. Qed.

Lemma reload_effective_domain k0 c0 ho :
  k_dom k0 <> [] -> first_is DOT (k_dom k0) = false ->
  effective_domain (reload_url k0) (reload_morsel k0 c0 ho) = k_dom k0.
Proof.
  intros Hne Hfd. unfold effective_domain, reload_url, reload_morsel. simpl.
  destruct ho.
  - simpl. rewrite Hfd. reflexivity.
  - destruct (last_is DOT (k_dom k0)).
    + simpl. rewrite Hfd. reflexivity.
    + destruct (k_dom k0) eqn:D; [congruence|]. simpl is_nil. cbv iota. rewrite Hfd. reflexivity.
Qed.

Lemma update1_reload now jk k0 c0 ho : entry_ok (k0, c0) ->
  let ju := update1 (reload_url k0) now jk (reload_morsel k0 c0 ho) in
  j_cookies ju = upsert k0 c0 (j_cookies jk) /\
  j_expirations ju = j_expirations jk /\ j_heap ju = j_heap jk /\ j_unsafe ju = j_unsafe jk /\
  (forall x, mem_dn x (j_host_only jk) = true -> mem_dn x (j_host_only ju) = true) /\
  (ho = true -> mem_dn (k_dom k0, k_name k0) (j_host_only ju) = true).
Proof.
  intros [P1 [P2 [P4 P5]]]. simpl in P1, P2, P4, P5. cbv zeta.
  rewrite update1_unfold. cbv zeta. rewrite (reload_effective_domain k0 c0 ho P4 P5).
  change (u_host (reload_url k0)) with (k_dom k0).
  rewrite is_domain_match_refl, andb_false_r.
  assert (CP : cookie_path (reload_url k0) (reload_morsel k0 c0 ho) = c_path c0).
  { unfold cookie_path. simpl. rewrite P2. reflexivity. }
  rewrite CP, <- P1.
  assert (SE : forall j k, stage_expiry j (reload_morsel k0 c0 ho) now k = j) by reflexivity.
  rewrite SE.
  assert (ST : stored (reload_url k0) (reload_morsel k0 c0 ho) = c0).
  { unfold stored. rewrite CP. destruct c0; reflexivity. }
  rewrite ST.
  assert (K : (k_dom k0, k_path k0, k_name (k0)) = k0) by (destruct k0 as [[d p] n]; reflexivity).
  change (m_name (reload_morsel k0 c0 ho)) with (k_name k0). rewrite K.
  set (jm := mark jk (reload_url k0) (reload_morsel k0 c0 ho)).
  assert (M1 : j_cookies jm = j_cookies jk) by (unfold jm, mark; destruct (marks_host_only _); reflexivity).
  assert (M2 : j_expirations jm = j_expirations jk) by (unfold jm, mark; destruct (marks_host_only _); reflexivity).
  assert (M3 : j_heap jm = j_heap jk) by (unfold jm, mark; destruct (marks_host_only _); reflexivity).
  assert (M4 : j_unsafe jm = j_unsafe jk) by apply mark_unsafe.
  assert (M5 : forall x, mem_dn x (j_host_only jk) = true -> mem_dn x (j_host_only jm) = true).
  { intros x Hx. unfold jm, mark. destruct (marks_host_only _); [|exact Hx]. simpl. apply mem_add_dn. right. exact Hx. }
  cbn [set_cookies j_cookies j_expirations j_heap j_unsafe j_host_only].
  split; [rewrite M1; reflexivity|]. split; [exact M2|]. split; [exact M3|]. split; [exact M4|].
  split; [exact M5|].
  intros ->. apply (mark_flag jk (reload_url k0) (reload_morsel k0 c0 true)). reflexivity.
Qed.

Definition Q (j jk : jar) : Prop := Inv jk /\ Sub jk j /\ j_unsafe jk = j_unsafe j.

Lemma load1_Q now j jk k0 c0 : Inv j -> In (k0, c0) (j_cookies j) -> Q j jk ->
  Q j (load1 now jk {| sv_key := k0; sv_cookie := c0; sv_host_only := flagged j k0;
                       sv_deadline := lookup k0 (j_expirations j) |}).
Proof.
  intros [HE HC] Hin [[HEk HCk] [HB HU]]. rewrite load1_unfold. cbv zeta.
  set (ho := flagged j k0).
  (* the state after update_cookies({name: morsel}, https://domain) *)
  assert (U : let j1 := update jk (reload_url k0) [reload_morsel k0 c0 ho] now in
              Sub' j1 j k0 /\ heap_covers j1 /\ j_unsafe j1 = j_unsafe j).
  { cbv zeta. unfold update. destruct (negb (j_unsafe jk) && is_ip (u_host (reload_url k0))).
    - split; [apply Sub_weaken; exact HB|]. auto.
    - simpl fold_left.
      destruct (update1_reload now jk k0 c0 ho (HE _ Hin)) as [A1 [A2 [A3 [A4 [A5 A6]]]]].
      set (ju := update1 (reload_url k0) now jk (reload_morsel k0 c0 ho)) in *.
      assert (SU : Sub' ju j k0).
      { intros k c H. rewrite A1 in H. apply In_upsert in H. destruct H as [E|[H N]].
        - inversion E. subst k c. split; [exact Hin|]. split; [|intro N; congruence].
          intro F. unfold flagged. apply A6. exact F.
        - destruct (HB k c H) as [H2 [F2 E2]]. split; [exact H2|]. split.
          + intro F. unfold flagged. apply A5. apply F2. exact F.
          + intros _ w L. rewrite A2. apply E2. exact L. }
      assert (CU : heap_covers ju).
      { intros k w L. rewrite A2 in L. rewrite A3. apply HCk. exact L. }
      split; [eapply Sub_Sub'; [apply do_expiration_sub|exact SU]|].
      split; [apply do_expiration_covers; exact CU|]. rewrite do_expiration_unsafe. congruence. }
  cbv zeta in U. destruct U as [U1 [U2 U3]].
  set (j1 := update jk (reload_url k0) [reload_morsel k0 c0 ho] now) in *.
  destruct (lookup k0 (j_expirations j)) as [w|] eqn:L.
  - pose proof (finish_some j1 j k0 w U1 L) as S. split; [|split; [exact S|rewrite expire_cookie_unsafe; exact U3]].
    split; [eapply Inv_sub_entries; [exact S|exact HE]|apply expire_cookie_covers; exact U2].
  - pose proof (finish_none j1 j k0 U1 L) as S. split; [|split; [exact S|exact U3]].
    split; [eapply Inv_sub_entries; [exact S|exact HE]|exact U2].
Qed.

Lemma save_load_Q j now : Inv j -> Q j (save_load j now).
Proof.
  intro HI. unfold save_load, load, save.
  assert (G : forall l jk, (forall kc, In kc l -> In kc (j_cookies j)) -> Q j jk ->
    Q j (fold_left (load1 now)
          (map (fun kc => {| sv_key := fst kc; sv_cookie := snd kc;
                             sv_host_only := mem_dn (k_dom (fst kc), k_name (fst kc)) (j_host_only j);
                             sv_deadline := lookup (fst kc) (j_expirations j) |}) l) jk)).
  { induction l as [|[k0 c0] l IH]; intros jk Hl Hq; simpl; [exact Hq|].
    apply IH; [intros kc H; apply Hl; right; exact H|].
    apply (load1_Q now j jk k0 c0 HI); [apply Hl; left; reflexivity|exact Hq]. }
  assert (Q0 : Q j (clear_all j)).
  { split; [apply Inv_empty|]. split; [intros k c []|reflexivity]. }
  destruct (G (j_cookies j) (clear_all j) (fun kc H => H) Q0) as [A [B C]].
  split; [apply Inv_do_expiration; exact A|].
  split; [eapply Sub_trans; [apply do_expiration_sub|exact B]|].
  rewrite do_expiration_unsafe. exact C.
Qed.

Lemma save_load_sim unsafe j s now : St unsafe j s -> St unsafe (save_load j now) s.
Proof.
  intros [HI [HS HU]]. destruct (save_load_Q j now HI) as [A [B C]].
  split; [exact A|]. split; [eapply sim_sub; eassumption|congruence].
Qed.

(* ------------------------------------------------------------ histories *)

Lemma step_sim unsafe j s now o : op_ok o -> St unsafe j s ->
  St unsafe (fst (fst (step (j, now) o))) (fst (fst (rfc_step unsafe (s, now) o))) /\
  snd (fst (step (j, now) o)) = snd (fst (rfc_step unsafe (s, now) o)) /\
  match snd (step (j, now) o), snd (rfc_step unsafe (s, now) o) with
  | Some out, Some rout => forall n v, In (n, v) out -> In (n, v) rout
  | None, None => True
  | _, _ => False
  end.
Proof.
  intros Hok H. destruct o as [u ms|dt| |d| |u]; simpl.
  - split; [apply update_sim; assumption|auto].
  - auto.
  - split; [apply clear_all_sim; apply H|auto].
  - split; [apply clear_domain_sim; exact H|auto].
  - split; [apply save_load_sim; exact H|auto].
  - destruct (filter_cookies j u now) as [j' out] eqn:E. simpl.
    pose proof (filter_sound unsafe j s u now H) as [A B]. rewrite E in A, B. simpl in A, B. auto.
Qed.

Definition outputs_sound (outs : list dict) (routs : list (list (str * str))) : Prop :=
  Forall2 (fun out rout => forall n v, In (n, v) out -> In (n, v) rout) outs routs.

Lemma run_cons st o r :
  run st (o :: r) = let '(st', out) := step st o in
                    let '(stf, outs) := run st' r in
                    (stf, match out with Some d => d :: outs | None => outs end).
Proof. reflexivity. Qed.

Lemma rfc_run_cons unsafe st o r :
  rfc_run unsafe st (o :: r) = let '(st', out) := rfc_step unsafe st o in
                               let '(stf, outs) := rfc_run unsafe st' r in
                               (stf, match out with Some d => d :: outs | None => outs end).
Proof. reflexivity. Qed.

Lemma run_sim unsafe ops : forall j s now, Forall op_ok ops -> St unsafe j s ->
  outputs_sound (snd (run (j, now) ops)) (snd (rfc_run unsafe (s, now) ops)).
Proof.
  induction ops as [|o ops IH]; intros j s now Hok H; [constructor|].
  inversion Hok as [|? ? Ho Hops]; subst. rewrite run_cons, rfc_run_cons.
  pose proof (step_sim unsafe j s now o Ho H) as [A [B C]].
  destruct (step (j, now) o) as [[j' now'] out] eqn:E1.
  destruct (rfc_step unsafe (s, now) o) as [[s' now''] rout] eqn:E2.
  simpl in A, B, C. subst now''.
  specialize (IH j' s' now' Hops A).
  destruct (run (j', now') ops) as [stf outs] eqn:R1.
  destruct (rfc_run unsafe (s', now') ops) as [rstf routs] eqn:R2.
  simpl in IH. simpl.
  destruct out as [out|], rout as [rout|]; try contradiction; [|exact IH].
  constructor; assumption.
Qed.

Theorem no_leak unsafe t0 ops : Forall op_ok ops ->
  outputs_sound (snd (run (empty_jar unsafe, t0) ops)) (snd (rfc_run unsafe ([], t0) ops)).
Proof.
  intro H. apply run_sim; [exact H|].
  split; [apply Inv_empty|]. split; [intros k c []|reflexivity].
Qed.
