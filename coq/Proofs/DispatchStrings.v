(* String lemmas for the dispatcher model: prefixes, rpartition, rstrip, the ancestor walk. *)
From AV Require Import Lib.Base Generated.DispatchGen Model.Dispatch.
From Coq Require Import Arith.
Open Scope N_scope.

Lemma list_eqb_refl a : list_eqb a a = true.
Proof. apply list_eqb_eq. reflexivity. Qed.

Lemma list_eqb_neq a b : list_eqb a b = false <-> a <> b.
Proof.
  split.
  - intros H E. subst. rewrite list_eqb_refl in H. discriminate.
  - intros H. destruct (list_eqb a b) eqn:E; [|reflexivity]. apply list_eqb_eq in E. contradiction.
Qed.

Lemma is_nil_true {A} (l : list A) : is_nil l = true <-> l = [].
Proof. destruct l; simpl; split; congruence. Qed.

Lemma starts_with_iff p s : starts_with p s = true <-> exists t, s = p ++ t.
Proof.
  revert s. induction p as [|x p IH]; intros s; simpl.
  - split; [eauto|reflexivity].
  - destruct s as [|y s].
    + split; [discriminate|intros [t H]; discriminate].
    + rewrite andb_true_iff, N.eqb_eq, IH. split.
      * intros [-> [t ->]]. eauto.
      * intros [t H]. inversion H; subst. eauto.
Qed.

Lemma strip_prefix_some p s r : strip_prefix p s = Some r <-> s = p ++ r.
Proof.
  revert s. induction p as [|x p IH]; intros s; simpl.
  - split; congruence.
  - destruct s as [|y s]; [split; discriminate|].
    destruct (x =? y) eqn:E.
    + apply N.eqb_eq in E. subst. rewrite IH. split; [intros ->; reflexivity|intros H; inversion H; reflexivity].
    + apply N.eqb_neq in E. split; [discriminate|intros H; inversion H; congruence].
Qed.

(* ---- before_char *)

Lemma before_char_prefix c s : exists t, s = before_char c s ++ t.
Proof.
  induction s as [|x s [t IH]]; simpl; [exists []; reflexivity|].
  destruct (x =? c); [eexists; reflexivity|]. exists t. simpl. congruence.
Qed.

Lemma before_char_nomem c s : memN c s = false -> before_char c s = s.
Proof.
  induction s as [|x s IH]; simpl; [reflexivity|].
  rewrite orb_false_iff, N.eqb_sym. intros [-> H]. rewrite IH; auto.
Qed.

(* the text before the first c of (a ++ c :: b) is a prefix of a *)
Lemma before_char_app_prefix c a b : exists t, a = before_char c (a ++ c :: b) ++ t.
Proof.
  induction a as [|x a [t IH]]; simpl.
  - rewrite N.eqb_refl. exists []. reflexivity.
  - destruct (x =? c); [eexists; reflexivity|]. exists t. simpl. congruence.
Qed.

Lemma before_char_app_nomem c a b : memN c a = false -> before_char c (a ++ b) = a ++ before_char c b.
Proof.
  induction a as [|x a IH]; simpl; [reflexivity|].
  rewrite orb_false_iff, N.eqb_sym. intros [-> H]. rewrite IH; auto.
Qed.

Lemma before_char_app_mem c a b : memN c a = true -> before_char c (a ++ b) = before_char c a.
Proof.
  induction a as [|x a IH]; [discriminate|]. cbn [memN before_char app].
  destruct (x =? c) eqn:Ex; [reflexivity|]. rewrite N.eqb_sym, Ex. simpl. intros H. rewrite IH; auto.
Qed.

Lemma memN_app c a b : memN c (a ++ b) = memN c a || memN c b.
Proof. induction a as [|x a IH]; simpl; [reflexivity|]. rewrite IH, orb_assoc. reflexivity. Qed.

(* ---- rpart *)

Lemma rpart_nil c s : rpart c s = [] -> s = [] \/ exists x s', s = x :: s' /\ memN c s' = false.
Proof.
  destruct s as [|x s']; simpl; [auto|].
  destruct (memN c s') eqn:E; [discriminate|]. right. eauto.
Qed.

Lemma rpart_split c s : rpart c s <> [] -> exists tail, s = rpart c s ++ c :: tail /\ memN c tail = false.
Proof.
  induction s as [|x s IH]; simpl; [congruence|].
  destruct (memN c s) eqn:E; [|congruence]. intros _.
  destruct (rpart c s) as [|y q] eqn:R.
  - apply rpart_nil in R. destruct R as [->|(y & s' & -> & Hn)]; [discriminate|].
    simpl in E. rewrite Hn, orb_false_r in E. apply N.eqb_eq in E. subst y.
    exists s'. split; [reflexivity|assumption].
  - destruct IH as (tail & Hs & Ht); [congruence|]. exists tail. split; [|assumption].
    simpl. rewrite Hs at 1. reflexivity.
Qed.

(* ---- rstrip *)

Lemma rstrip_split c s : exists n, s = rstrip c s ++ repeat c n.
Proof.
  induction s as [|x s [n IH]]; simpl; [exists 0%nat; reflexivity|].
  destruct ((x =? c) && is_nil (rstrip c s)) eqn:E.
  - apply andb_true_iff in E as [E1 E2]. apply N.eqb_eq in E1. apply is_nil_true in E2.
    rewrite E2 in IH. simpl in IH. subst x. exists (S n). simpl. congruence.
  - exists n. simpl. congruence.
Qed.

Lemma repeat_snoc {A} (c : A) n : repeat c n ++ [c] = c :: repeat c n.
Proof. induction n; simpl; [reflexivity|]. rewrite IHn. reflexivity. Qed.

(* q followed by a slash: the key obtained by stripping trailing slashes of q is followed by one too *)
Lemma rstrip_then_slash c q tail :
  rstrip c q <> [] -> exists rest, q ++ c :: tail = rstrip c q ++ c :: rest.
Proof.
  intros _. destruct (rstrip_split c q) as [n H]. remember (rstrip c q) as k eqn:Hk. clear Hk. subst q.
  rewrite <- app_assoc. destruct n; simpl; eauto.
Qed.

(* ---- the walk *)

Definition next_part (p : str) : str := match rpart SLASH p with [] => [SLASH] | q => q end.

Lemma walk_S f p : walk (S f) p =
  match p with [] => [] | _ => p :: (if list_eqb p [SLASH] then [] else walk f (next_part p)) end.
Proof. reflexivity. Qed.

Definition anc_rel (k p : str) : Prop :=
  k = p \/ (k <> [] /\ exists rest, p = k ++ SLASH :: rest) \/ k = [SLASH].

Lemma anc_rel_step_split q tail k :
  q <> [] -> memN SLASH tail = false -> k <> q ++ SLASH :: tail ->
  (anc_rel k (q ++ SLASH :: tail) <-> anc_rel k q).
Proof.
  intros Hq Ht Hk. unfold anc_rel. split.
  - intros [H|[[Hne [rest H]]|H]]; [contradiction| |auto].
    apply app_eq_app in H. destruct H as [l [[H1 H2]|[H1 H2]]].
    + (* q = k ++ l *) destruct l as [|y l].
      * rewrite app_nil_r in H1. auto.
      * simpl in H2. inversion H2; subst. right. left. split; [assumption|eauto].
    + (* k = q ++ l, SLASH :: tail = l ++ SLASH :: rest *)
      destruct l as [|y l].
      * rewrite app_nil_r in H1. auto.
      * simpl in H2. inversion H2; subst. rewrite memN_app in Ht. simpl in Ht.
        rewrite ?N.eqb_refl, ?orb_true_r in Ht. discriminate.
  - intros [H|[[Hne [rest H]]|H]]; [| |auto].
    + subst. right. left. split; [assumption|eauto].
    + subst. right. left. split; [assumption|]. rewrite <- app_assoc. simpl. eauto.
Qed.

Lemma anc_rel_step_last x s' k :
  memN SLASH s' = false -> k <> x :: s' ->
  (anc_rel k (x :: s') <-> k = [SLASH]).
Proof.
  intros Hn Hk. unfold anc_rel. split; [|auto].
  intros [H|[[Hne [rest H]]|H]]; [contradiction| |assumption].
  destruct k as [|y k]; [congruence|]. simpl in H. inversion H; subst.
  rewrite memN_app in Hn. simpl in Hn. rewrite ?N.eqb_refl, ?orb_true_r in Hn. discriminate.
Qed.

Lemma In_walk f : forall p k, p <> [] -> (length p <= f)%nat ->
  (In k (walk (S f) p) <-> anc_rel k p).
Proof.
  induction f as [|f IH]; intros p k Hp Hl.
  { destruct p; [congruence|simpl in Hl; lia]. }
  rewrite walk_S. destruct p as [|x s']; [congruence|].
  destruct (list_eqb (x :: s') [SLASH]) eqn:E.
  - apply list_eqb_eq in E. rewrite E. simpl. unfold anc_rel. split.
    + intros [H|[]]. auto.
    + intros [H|[[Hne [rest H]]|H]]; auto.
      destruct k as [|y k]; [congruence|]. destruct k; simpl in H; inversion H.
  - apply list_eqb_neq in E. cbn [In].
    destruct (list_eqb k (x :: s')) eqn:Ek.
    { apply list_eqb_eq in Ek. subst. split; [intros _; left; reflexivity|auto]. }
    apply list_eqb_neq in Ek.
    unfold next_part. destruct (rpart SLASH (x :: s')) as [|y q] eqn:R.
    + apply rpart_nil in R. destruct R as [R|(x' & s'' & R & Hn)]; [discriminate|]. inversion R; subst x' s''.
      rewrite (anc_rel_step_last x s' k Hn Ek).
      change (walk (S f) [SLASH]) with [[SLASH]]. simpl.
      split; [intros [H|[H|[]]]; congruence|auto].
    + assert (Hne : y :: q <> []) by congruence.
      destruct (rpart_split SLASH (x :: s')) as (tail & Hs & Ht); [rewrite R; assumption|].
      rewrite R in Hs. rewrite Hs in Ek |- *.
      rewrite (anc_rel_step_split (y :: q) tail k Hne Ht Ek).
      assert (Hlen : (length (y :: q) <= f)%nat).
      { apply (f_equal (@length N)) in Hs. rewrite app_length in Hs. simpl in Hs, Hl |- *. lia. }
      rewrite <- (IH (y :: q) k Hne Hlen). split; [intros [H|H]; [congruence|assumption]|auto].
Qed.

Lemma In_ancestors p k : p <> [] -> (In k (ancestors p) <-> anc_rel k p).
Proof. intros Hp. unfold ancestors. apply In_walk; auto. Qed.

(* ---- strictly decreasing lengths *)

Fixpoint desc_len (l : list str) : Prop :=
  match l with
  | [] => True
  | a :: l' => (forall b, In b l' -> (length b < length a)%nat) /\ desc_len l'
  end.

Lemma walk_desc f : forall p, starts_with [SLASH] p = true -> (length p <= f)%nat ->
  desc_len (walk (S f) p) /\ (forall b, In b (walk (S f) p) -> (length b <= length p)%nat).
Proof.
  induction f as [|f IH]; intros p Hs Hl.
  { destruct p; [discriminate|simpl in Hl; lia]. }
  rewrite walk_S. destruct p as [|x s']; [discriminate|].
  cbn [starts_with] in Hs. rewrite andb_true_r in Hs. apply N.eqb_eq in Hs. subst x.
  destruct (list_eqb (SLASH :: s') [SLASH]) eqn:E.
  - simpl. split; [split; [intros b []|exact I]|]. intros b [<-|[]]. simpl. lia.
  - apply list_eqb_neq in E.
    assert (Hnext : starts_with [SLASH] (next_part (SLASH :: s')) = true /\
                    (length (next_part (SLASH :: s')) < length (SLASH :: s'))%nat).
    { unfold next_part. destruct (rpart SLASH (SLASH :: s')) as [|y q] eqn:R.
      - split; [reflexivity|]. destruct s'; [congruence|simpl; lia].
      - destruct (rpart_split SLASH (SLASH :: s')) as (tail & H1 & H2); [rewrite R; congruence|].
        rewrite R in H1. split.
        + simpl in H1. inversion H1. reflexivity.
        + apply (f_equal (@length N)) in H1. rewrite app_length in H1. simpl in H1 |- *. lia. }
    destruct Hnext as [Hs' Hlt].
    assert (Hl' : (length (next_part (SLASH :: s')) <= f)%nat) by (simpl in Hl, Hlt |- *; lia).
    destruct f as [|f'].
    { destruct (next_part (SLASH :: s')); [discriminate|simpl in Hl'; lia]. }
    destruct (IH _ Hs' Hl') as [Hd Hb].
    split.
    + cbn [desc_len]. split; [|assumption]. intros b Hin. apply Hb in Hin. lia.
    + intros b [<-|Hin]; [lia|]. apply Hb in Hin. lia.
Qed.

Lemma ancestors_desc p : starts_with [SLASH] p = true -> desc_len (ancestors p).
Proof. intros H. apply (walk_desc (length p) p H). lia. Qed.

(* ---- literal_prefix_ok is membership in the ancestors *)

Lemma literal_prefix_ok_iff k p : k <> [] -> p <> [] ->
  (literal_prefix_ok k p = true <-> In k (ancestors p)).
Proof.
  intros Hk Hp. rewrite In_ancestors by assumption. unfold literal_prefix_ok, anc_rel.
  destruct (list_eqb k [SLASH]) eqn:E.
  - apply list_eqb_eq in E. subst. split; [auto|]. intros _. destruct p; [congruence|reflexivity].
  - apply list_eqb_neq in E. rewrite orb_true_iff, list_eqb_eq, starts_with_iff. split.
    + intros [->|[t H]]; [auto|]. right. left. split; [assumption|]. rewrite <- app_assoc in H. eauto.
    + intros [H|[[_ [rest H]]|H]]; [auto| |contradiction].
      right. exists rest. rewrite <- app_assoc. assumption.
Qed.

(* ---- the index key of a canonical path is an ancestor of every path it is a (brace-cut) prefix of *)

Lemma index_key_of_nonempty c : index_key_of c <> [].
Proof. unfold index_key_of. destruct (path_safe_dec _); congruence. Qed.

Lemma index_key_nonempty r : index_key r <> [].
Proof.
  destruct r; try apply index_key_of_nonempty.
  unfold index_key, index_key_plain. destruct (cut_key _); congruence.
Qed.

(* ---- path_safe_dec works segment by segment *)

Lemma split_on_aux_nonempty c s : forall cur, split_on_aux c cur s <> [].
Proof. induction s as [|x s IH]; intros cur; simpl; [congruence|]. destruct (x =? c); [congruence|apply IH]. Qed.

Lemma split_on_aux_app c a b : forall cur,
  split_on_aux c cur (a ++ c :: b) = split_on_aux c cur a ++ split_on c b.
Proof.
  induction a as [|x a IH]; intros cur; cbn [app split_on_aux].
  - rewrite N.eqb_refl. reflexivity.
  - destruct (x =? c); [rewrite IH; reflexivity|apply IH].
Qed.

Lemma split_on_app c a b : split_on c (a ++ c :: b) = split_on c a ++ split_on c b.
Proof. apply split_on_aux_app. Qed.

Lemma split_on_aux_cur c s : forall cur,
  split_on_aux c cur s =
  match split_on_aux c [] s with h :: t => (rev cur ++ h) :: t | [] => [] end.
Proof.
  induction s as [|x s IH]; intros cur; cbn [split_on_aux].
  - cbn [rev]. rewrite app_nil_r. reflexivity.
  - destruct (x =? c).
    + cbn [rev]. rewrite app_nil_r. reflexivity.
    + rewrite (IH (x :: cur)), (IH [x]).
      destruct (split_on_aux c [] s) as [|h t]; [reflexivity|]. cbn [rev]. rewrite <- !app_assoc. reflexivity.
Qed.

Lemma split_on_cons c x s : (x =? c) = false ->
  split_on c (x :: s) = match split_on c s with h :: t => (x :: h) :: t | [] => [] end.
Proof.
  intros E. unfold split_on. cbn [split_on_aux]. rewrite E, split_on_aux_cur. reflexivity.
Qed.

Lemma join_with_app sep (l1 l2 : list str) : l1 <> [] -> l2 <> [] ->
  join_with sep (l1 ++ l2) = join_with sep l1 ++ sep ++ join_with sep l2.
Proof.
  induction l1 as [|a l1 IH]; intros H1 H2; [congruence|].
  destruct l1 as [|b l1].
  - cbn [app join_with]. destruct l2; [congruence|reflexivity].
  - change ((a :: b :: l1) ++ l2) with (a :: (b :: l1) ++ l2).
    change (join_with sep (a :: (b :: l1) ++ l2)) with (a ++ sep ++ join_with sep ((b :: l1) ++ l2)).
    rewrite IH by congruence.
    change (join_with sep (a :: b :: l1)) with (a ++ sep ++ join_with sep (b :: l1)).
    rewrite <- !app_assoc. reflexivity.
Qed.

(* D1: a '/' never takes part in an escape *)
Lemma dec_slash a b : path_safe_dec (a ++ SLASH :: b) = path_safe_dec a ++ SLASH :: path_safe_dec b.
Proof.
  unfold path_safe_dec. rewrite split_on_app, map_app.
  rewrite join_with_app.
  - reflexivity.
  - intros H. apply map_eq_nil in H. exact (split_on_aux_nonempty _ _ _ H).
  - intros H. apply map_eq_nil in H. exact (split_on_aux_nonempty _ _ _ H).
Qed.

Lemma dec_nil : path_safe_dec [] = [].
Proof. reflexivity. Qed.

Lemma decode_head_not_pct x s : (x =? PCT) = false -> decode_head (x :: s) = None.
Proof.
  intros E. unfold decode_head, pct_head. destruct s as [|h [|l r]]; try reflexivity. rewrite E. reflexivity.
Qed.

Lemma dec_cons x s : (x =? SLASH) = false -> (x =? PCT) = false ->
  path_safe_dec (x :: s) = x :: path_safe_dec s.
Proof.
  intros E1 E2. unfold path_safe_dec. rewrite (split_on_cons SLASH x s E1).
  pose proof (split_on_aux_nonempty SLASH s []) as Hne. fold (split_on SLASH s) in Hne.
  destruct (split_on SLASH s) as [|h t]; [congruence|].
  cbn [map]. assert (Hh : dec_aux 0 (x :: h) = x :: dec_aux 0 h).
  { cbn [dec_aux]. rewrite (decode_head_not_pct x h E2). reflexivity. }
  rewrite Hh. destruct t; reflexivity.
Qed.

(* D2: text without '%' is copied *)
Lemma dec_plain_app a b : memN PCT a = false -> path_safe_dec (a ++ b) = a ++ path_safe_dec b.
Proof.
  induction a as [|x a IH]; intros H; [reflexivity|].
  cbn [memN] in H. apply orb_false_iff in H as [Hx Ha]. rewrite N.eqb_sym in Hx.
  destruct (x =? SLASH) eqn:Es.
  - apply N.eqb_eq in Es. subst x. change ((SLASH :: a) ++ b) with ([] ++ SLASH :: (a ++ b)).
    rewrite dec_slash, dec_nil, IH by assumption. reflexivity.
  - cbn [app]. rewrite dec_cons by assumption. rewrite IH by assumption. reflexivity.
Qed.

Lemma dec_plain a : memN PCT a = false -> path_safe_dec a = a.
Proof. intros H. rewrite <- (app_nil_r a) at 1. rewrite dec_plain_app, dec_nil, app_nil_r by assumption. reflexivity. Qed.

Lemma dec_slashes n : path_safe_dec (repeat SLASH n) = repeat SLASH n.
Proof.
  induction n as [|n IH]; [reflexivity|]. cbn [repeat].
  change (SLASH :: repeat SLASH n) with ([] ++ SLASH :: repeat SLASH n). rewrite dec_slash, dec_nil, IH. reflexivity.
Qed.

Lemma dec_app_slashes a n : path_safe_dec (a ++ repeat SLASH n) = path_safe_dec a ++ repeat SLASH n.
Proof.
  destruct n as [|n]; [cbn [repeat]; rewrite !app_nil_r; reflexivity|].
  cbn [repeat]. rewrite dec_slash, dec_slashes. reflexivity.
Qed.

(* ---- the index key of a canonical path is an ancestor of every path that starts with the decoded
   form of a text L of which the brace-cut canonical is a prefix *)

Lemma key_anc_brace c L rest p :
  p <> [] -> memN ik_brace c = true ->
  (exists u, L = before_char ik_brace c ++ u) ->
  p = path_safe_dec L ++ rest ->
  In (index_key_of c) (ancestors p).
Proof.
  intros Hp Hb [u HL] Hpe. rewrite In_ancestors by assumption. unfold index_key_of, cut_key, anc_rel. rewrite Hb.
  set (b := before_char ik_brace c) in *.
  destruct (path_safe_dec (rstrip ik_sep (rpart ik_sep b))) as [|y k] eqn:R; [auto|].
  right. left. split; [congruence|].
  assert (Hq : rpart ik_sep b <> []).
  { intros H. rewrite H in R. discriminate. }
  destruct (rpart_split ik_sep b Hq) as (tail & H1 & _).
  destruct (rstrip_split ik_sep (rpart ik_sep b)) as [n Hn].
  set (k0 := rstrip ik_sep (rpart ik_sep b)) in *.
  assert (HLk : exists X, L = k0 ++ SLASH :: X).
  { rewrite HL, H1, Hn, <- !app_assoc. destruct n; cbn [repeat app]; eauto. }
  destruct HLk as [X HX]. rewrite Hpe, HX, dec_slash, R. rewrite <- app_assoc. cbn [app]. eauto.
Qed.

Lemma key_anc_whole c p : p <> [] -> memN ik_brace c = false -> p = path_safe_dec c ->
  In (index_key_of c) (ancestors p).
Proof.
  intros Hp Hb Hpe. rewrite In_ancestors by assumption. unfold index_key_of, cut_key, anc_rel. rewrite Hb.
  destruct (rstrip_split ik_sep c) as [n Hn].
  destruct (path_safe_dec (rstrip ik_sep c)) as [|y k] eqn:R; [auto|].
  rewrite Hn, dec_app_slashes, R in Hpe. destruct n; cbn [repeat] in Hpe.
  - rewrite app_nil_r in Hpe. auto.
  - right. left. split; [congruence|]. eauto.
Qed.

(* a plain path is keyed as written *)
Lemma key_anc_plain c : c <> [] -> memN ik_brace c = false -> In (index_key_plain c) (ancestors c).
Proof.
  intros Hp Hb. rewrite In_ancestors by assumption. unfold index_key_plain, cut_key, anc_rel. rewrite Hb.
  destruct (rstrip_split ik_sep c) as [n Hn].
  destruct (rstrip ik_sep c) as [|y k] eqn:R; [auto|].
  destruct n; cbn [repeat] in Hn.
  - rewrite app_nil_r in Hn. auto.
  - right. left. split; [congruence|]. eauto.
Qed.
