(* resolve_ix (index walk, as the code) = resolve_rule (documented linear rule) for every table whose
   index is consistent (index_ok, proved to be preserved by construction in DispatchIndex.v). *)
From AV Require Import Lib.Base Generated.DispatchGen Model.Dispatch Proofs.DispatchStrings.
From Coq Require Import Arith Sorting.Sorted.
Open Scope N_scope.

(* ------------------------------------------------------------------ induction on nested resources *)

Lemma resource_ind' (P : resource -> Prop) :
  (forall p rt, P (RPlain p rt)) ->
  (forall o f pat rt, P (RDyn o f pat rt)) ->
  (forall p rt, P (RStatic p rt)) ->
  (forall p rs ix, Forall P rs -> P (RSub p rs ix)) ->
  (forall d rs ix, Forall P rs -> P (RDom d rs ix)) ->
  forall r, P r.
Proof.
  intros H1 H2 H3 H4 H5. fix IH 1. intros [p rt|o f pat rt|p rt|p rs ix|d rs ix].
  - apply H1.
  - apply H2.
  - apply H3.
  - apply H4. induction rs as [|r rs IHrs]; constructor; [apply IH|apply IHrs].
  - apply H5. induction rs as [|r rs IHrs]; constructor; [apply IH|apply IHrs].
Qed.

(* ------------------------------------------------------------------ index consistency *)

Definition nondom (r : resource) : bool := negb (is_dom r).

Definition in_bucket (k : str) (r : resource) : bool := nondom r && list_eqb (index_key r) k.

Definition positions_where (Q : resource -> bool) (rs : list resource) : list nat :=
  map fst (filter (fun ir => Q (snd ir)) (combine (seq 0 (length rs)) rs)).

(* every key maps to the positions of the non-matched resources with that key, in registration order *)
Definition index_ok (rs : list resource) (ix : index) : Prop :=
  forall k, bucket ix k = positions_where (in_bucket k) rs.

(* leading literal text of a template: what the formatter carries / what the pattern matches *)
Fixpoint lead_f (pat : list item) : str :=
  match pat with Lit f _ :: r => f ++ lead_f r | _ => [] end.
Fixpoint lead_m (pat : list item) : str :=
  match pat with Lit _ m :: r => m ++ lead_m r | _ => [] end.
Fixpoint after_lead (pat : list item) : list item :=
  match pat with Lit _ _ :: r => after_lead r | _ => pat end.

(* the pattern matches the path_safe form of what the formatter says *)
Definition lead_ok (pat : list item) : Prop := path_safe_dec (lead_f pat) = lead_m pat.

Inductive res_ok : resource -> Prop :=
| ok_plain p rt : memN ik_brace p = false -> res_ok (RPlain p rt)
| ok_dyn o pat rt : lead_ok pat -> res_ok (RDyn o (formatter_of pat) pat rt)
| ok_static p rt : res_ok (RStatic p rt)
| ok_sub p rs ix : index_ok rs ix -> Forall res_ok rs -> res_ok (RSub p rs ix)
| ok_dom d rs ix : index_ok rs ix -> Forall res_ok rs -> res_ok (RDom d rs ix).

Definition router_ok (rt : router) : Prop := index_ok (r_res rt) (r_ix rt) /\ Forall res_ok (r_res rt).

(* ------------------------------------------------------------------ picking outcomes by position *)

Lemma map_pick_positions_gen (f : resource -> outcome) (Q : resource -> bool) rs : forall pre,
  map (pick (map f (pre ++ rs)))
      (map fst (filter (fun ir => Q (snd ir)) (combine (seq (length pre) (length rs)) rs)))
  = map f (filter Q rs).
Proof.
  induction rs as [|r rs IH]; intros pre; [reflexivity|].
  cbn [length seq combine filter snd].
  assert (Hrest : map (pick (map f (pre ++ r :: rs)))
      (map fst (filter (fun ir => Q (snd ir)) (combine (seq (S (length pre)) (length rs)) rs)))
      = map f (filter Q rs)).
  { specialize (IH (pre ++ [r])). rewrite <- app_assoc in IH. simpl in IH.
    rewrite app_length in IH. simpl in IH. rewrite Nat.add_1_r in IH. exact IH. }
  destruct (Q r).
  - cbn [map fst]. rewrite Hrest. f_equal.
    unfold pick. rewrite map_app. rewrite nth_error_app2 by (rewrite map_length; lia).
    rewrite map_length, Nat.sub_diag. reflexivity.
  - exact Hrest.
Qed.

Lemma map_pick_positions (f : resource -> outcome) (Q : resource -> bool) rs :
  map (pick (map f rs)) (positions_where Q rs) = map f (filter Q rs).
Proof. apply (map_pick_positions_gen f Q rs []). Qed.

Lemma dom_positions_eq rs : dom_positions rs = positions_where is_dom rs.
Proof. reflexivity. Qed.

(* ------------------------------------------------------------------ scan *)

Lemma scan_skip {A} (f : A -> outcome) (R : A -> bool) l : forall acc,
  (forall x, In x l -> R x = false -> f x = ONo []) ->
  scan (map f l) acc = scan (map f (filter R l)) acc.
Proof.
  induction l as [|x l IH]; intros acc H; [reflexivity|].
  cbn [map filter]. destruct (R x) eqn:E.
  - cbn [map scan]. destruct (f x); try reflexivity. apply IH. intros; apply H; simpl; auto.
  - rewrite (H x (or_introl eq_refl) E). cbn [scan]. rewrite app_nil_r.
    apply IH. intros; apply H; simpl; auto.
Qed.

(* ------------------------------------------------------------------ stable sort by decreasing key length *)

Section Sorting.
  Context {A : Type} (len : A -> nat).
  Definition ge_len (a b : A) : Prop := (len b <= len a)%nat.

  Lemma insert_In x y S : In y (insert_by_len len x S) <-> y = x \/ In y S.
  Proof.
    induction S as [|z S IH]; simpl; [intuition|].
    destruct (Nat.ltb (len x) (len z)); simpl; [rewrite IH|]; intuition.
  Qed.

  Lemma insert_sorted x S : StronglySorted ge_len S -> StronglySorted ge_len (insert_by_len len x S).
  Proof.
    induction S as [|z S IH]; intros HS; simpl.
    - constructor; constructor.
    - inversion HS as [|? ? HS' Hall]; subst.
      destruct (Nat.ltb (len x) (len z)) eqn:E.
      + apply Nat.ltb_lt in E. constructor; [apply IH; assumption|].
        apply Forall_forall. intros y Hy. apply insert_In in Hy. destruct Hy as [->|Hy].
        * unfold ge_len. lia.
        * rewrite Forall_forall in Hall. apply Hall. assumption.
      + apply Nat.ltb_ge in E. constructor; [assumption|].
        constructor; [exact E|]. apply Forall_forall. intros y Hy.
        rewrite Forall_forall in Hall. specialize (Hall y Hy). unfold ge_len in *. lia.
  Qed.

  Lemma sort_sorted l : StronglySorted ge_len (sort_by_len len l).
  Proof. induction l; simpl; [constructor|apply insert_sorted; assumption]. Qed.

  Lemma sort_In y l : In y (sort_by_len len l) <-> In y l.
  Proof.
    induction l as [|x l IH]; simpl; [tauto|]. rewrite insert_In, IH. intuition.
  Qed.

  Lemma insert_first x l : (forall z, In z l -> (len z <= len x)%nat) -> insert_by_len len x l = x :: l.
  Proof.
    destruct l as [|z l]; intros H; simpl; [reflexivity|].
    specialize (H z (or_introl eq_refl)). apply Nat.ltb_ge in H. rewrite H. reflexivity.
  Qed.

  Lemma insert_skip x l1 l2 : (forall z, In z l1 -> (len x < len z)%nat) ->
    insert_by_len len x (l1 ++ l2) = l1 ++ insert_by_len len x l2.
  Proof.
    induction l1 as [|z l1 IH]; intros H; simpl; [reflexivity|].
    assert (E : Nat.ltb (len x) (len z) = true) by (apply Nat.ltb_lt; apply H; simpl; auto).
    rewrite E, IH; [reflexivity|]. intros; apply H; simpl; auto.
  Qed.

  Lemma filter_insert (P : A -> bool) x S : StronglySorted ge_len S ->
    filter P (insert_by_len len x S) = if P x then insert_by_len len x (filter P S) else filter P S.
  Proof.
    induction S as [|z S IH]; intros HS.
    - simpl. destruct (P x); reflexivity.
    - inversion HS as [|? ? HS' Hall]; subst. specialize (IH HS').
      cbn [insert_by_len]. destruct (Nat.ltb (len x) (len z)) eqn:E.
      + cbn [filter]. rewrite IH. destruct (P z), (P x); try reflexivity.
        cbn [insert_by_len]. rewrite E. reflexivity.
      + apply Nat.ltb_ge in E. cbn [filter]. destruct (P x) eqn:Px; [|reflexivity].
        rewrite insert_first; [reflexivity|].
        intros y Hy. assert (Hy' : In y (z :: S)).
        { destruct (P z); [destruct Hy as [<-|Hy]; [simpl; auto|]|];
            apply filter_In in Hy; simpl; tauto. }
        destruct Hy' as [<-|Hy']; [assumption|].
        rewrite Forall_forall in Hall. specialize (Hall y Hy'). unfold ge_len in Hall. lia.
  Qed.

  Lemma sort_map {B} (g : B -> A) (l : list B) :
    sort_by_len len (map g l) = map g (sort_by_len (fun b => len (g b)) l).
  Proof.
    induction l as [|b l IH]; simpl; [reflexivity|]. rewrite IH.
    generalize (sort_by_len (fun b0 => len (g b0)) l). intros S.
    induction S as [|z S IHS]; simpl; [reflexivity|].
    destruct (Nat.ltb (len (g b)) (len (g z))); simpl; [rewrite IHS|]; reflexivity.
  Qed.
End Sorting.

Lemma filter_map_comm {A B} (g : B -> A) (P : A -> bool) l :
  filter P (map g l) = map g (filter (fun b => P (g b)) l).
Proof. induction l as [|b l IH]; simpl; [reflexivity|]. destruct (P (g b)); simpl; rewrite IH; reflexivity. Qed.

Lemma combine_map_self {A B} (f : A -> B) (l : list A) : combine l (map f l) = map (fun x => (x, f x)) l.
Proof. induction l; simpl; [reflexivity|]. rewrite IHl. reflexivity. Qed.

(* visiting the outcomes of rs in rule order = mapping over the rule order of rs *)
Lemma in_rule_order_map (f : resource -> outcome) rs :
  in_rule_order rs (map f rs) = map f (rule_order is_dom keylen rs).
Proof.
  unfold in_rule_order, rule_order. rewrite combine_map_self.
  rewrite !filter_map_comm. cbn [fst].
  rewrite (sort_map (fun ro : resource * outcome => keylen (fst ro)) (fun x => (x, f x))). cbn [fst].
  rewrite <- map_app, map_map. cbn [snd]. reflexivity.
Qed.

(* ------------------------------------------------------------------ buckets along a decreasing key list *)

Definition bk (L : list resource) (k : str) : list resource :=
  filter (fun r => list_eqb (index_key r) k) L.

Lemma bk_cons_other x L k : list_eqb (index_key x) k = false -> bk (x :: L) k = bk L k.
Proof. intros H. unfold bk. cbn [filter]. rewrite H. reflexivity. Qed.

Lemma flat_map_ext_in' {A B} (f g : A -> list B) l : (forall a, In a l -> f a = g a) -> flat_map f l = flat_map g l.
Proof.
  induction l; intros H; simpl; [reflexivity|]. rewrite H by (simpl; auto).
  rewrite IHl; [reflexivity|]. intros; apply H; simpl; auto.
Qed.

Lemma insert_into_buckets A x L : desc_len A -> mem_str (index_key x) A = true ->
  insert_by_len keylen x (flat_map (bk L) A) = flat_map (bk (x :: L)) A.
Proof.
  induction A as [|a A IH]; intros HA Hm; [discriminate|].
  destruct HA as [Hlt HA]. cbn [flat_map].
  assert (Hrest_keys : forall z, In z (flat_map (bk L) A) -> (keylen z < length a)%nat).
  { intros z Hz. apply in_flat_map in Hz. destruct Hz as (k & Hk & Hz).
    apply filter_In in Hz. destruct Hz as [_ Hz]. apply list_eqb_eq in Hz.
    unfold keylen. rewrite Hz. apply Hlt. assumption. }
  cbn [mem_str] in Hm. destruct (list_eqb (index_key x) a) eqn:E.
  - apply list_eqb_eq in E. subst a.
    assert (Hother : flat_map (bk (x :: L)) A = flat_map (bk L) A).
    { apply flat_map_ext_in'. intros k Hk. apply bk_cons_other. apply list_eqb_neq.
      intros Heq. specialize (Hlt k Hk). rewrite <- Heq in Hlt. lia. }
    rewrite Hother.
    assert (Hhead : bk (x :: L) (index_key x) = x :: bk L (index_key x)).
    { unfold bk. cbn [filter]. rewrite list_eqb_refl. reflexivity. }
    rewrite Hhead. rewrite insert_first; [reflexivity|].
    intros z Hz. apply in_app_or in Hz. destruct Hz as [Hz|Hz].
    + apply filter_In in Hz. destruct Hz as [_ Hz]. apply list_eqb_eq in Hz.
      unfold keylen. rewrite Hz. lia.
    + apply Hrest_keys in Hz. unfold keylen at 2. lia.
  - simpl in Hm. rewrite (bk_cons_other x L a E).
    assert (Hx : (keylen x < length a)%nat).
    { clear - Hm Hlt. induction A as [|b A IHA]; [discriminate|]. cbn [mem_str] in Hm.
      destruct (list_eqb (index_key x) b) eqn:Eb.
      - apply list_eqb_eq in Eb. unfold keylen. rewrite Eb. apply Hlt. simpl; auto.
      - apply IHA; [intros; apply Hlt; simpl; auto|exact Hm]. }
    rewrite insert_skip.
    + rewrite IH; auto.
    + intros z Hz. apply filter_In in Hz. destruct Hz as [_ Hz]. apply list_eqb_eq in Hz.
      unfold keylen at 2. rewrite Hz. exact Hx.
Qed.

Lemma mem_str_In k l : mem_str k l = true <-> In k l.
Proof.
  induction l as [|x l IH]; simpl; [split; [discriminate|tauto]|].
  rewrite orb_true_iff, list_eqb_eq, IH. split; intros [H|H]; auto.
Qed.

Lemma relevant_sorted A L : desc_len A ->
  filter (fun r => mem_str (index_key r) A) (sort_by_len keylen L) = flat_map (bk L) A.
Proof.
  intros HA. induction L as [|x L IH].
  - simpl. clear HA. induction A; simpl; auto.
  - cbn [sort_by_len]. rewrite filter_insert by apply sort_sorted. rewrite IH.
    destruct (mem_str (index_key x) A) eqn:E.
    + apply insert_into_buckets; assumption.
    + apply flat_map_ext_in'. intros k Hk. symmetry. apply bk_cons_other.
      apply list_eqb_neq. intros Heq. subst k.
      apply mem_str_In in Hk. congruence.
Qed.


(* ------------------------------------------------------------------ per-resource agreement *)

Section Agreement.
  Variables (host : option str) (p m : str).
  Hypothesis Hp : starts_with [SLASH] p = true.

  Let p_nonempty : p <> [].
  Proof. intros E. rewrite E in Hp. discriminate. Qed.

  Definition fix_ := resolve_ix_res host p m.
  Definition frule := resolve_rule_res host p m.

  (* the three facts needed of one resource *)
  Definition agrees (r : resource) : Prop :=
    (is_dom r = true -> fix_ r = frule r) /\
    (is_dom r = false -> In (index_key r) (ancestors p) -> fix_ r = frule r) /\
    (is_dom r = false -> ~ In (index_key r) (ancestors p) -> frule r = ONo []).

  (* the literal head of a template is a prefix of everything it matches *)
  Lemma match_lead pat : forall s d, match_items pat s = Some d ->
    exists rest, s = lead_m pat ++ rest /\ (after_lead pat = [] -> rest = []).
  Proof.
    induction pat as [|it pat IH]; intros s d H.
    - simpl in H. destruct s; [|discriminate]. exists []. auto.
    - destruct it as [f l|n c mn].
      + cbn [match_items] in H. destruct (strip_prefix l s) as [r|] eqn:S; [|discriminate].
        apply strip_prefix_some in S. subst s. destruct (IH r d H) as (rest & -> & Hr).
        exists rest. cbn [lead_m after_lead]. rewrite <- app_assoc. auto.
      + exists s. cbn [lead_m after_lead]. split; [reflexivity|discriminate].
  Qed.

  Lemma formatter_lead pat : formatter_of pat = lead_f pat ++ formatter_of (after_lead pat).
  Proof.
    induction pat as [|[f l|n c mn] pat IH]; [reflexivity| |reflexivity].
    cbn [formatter_of lead_f after_lead]. rewrite IH, <- app_assoc. reflexivity.
  Qed.

  Lemma after_lead_head pat : after_lead pat = [] \/ exists n c mn r, after_lead pat = Hole n c mn :: r.
  Proof. induction pat as [|[f l|n c mn] pat IH]; [auto|exact IH|right; exists n, c, mn, pat; reflexivity]. Qed.

  Lemma before_brace_lead pat : memN ik_brace (formatter_of pat) = true ->
    exists u, lead_f pat = before_char ik_brace (formatter_of pat) ++ u.
  Proof.
    intros Hb. rewrite formatter_lead in *. destruct (after_lead_head pat) as [E|(n & c & mn & r & E)]; rewrite E in *.
    - cbn [formatter_of] in *. rewrite app_nil_r in *. apply before_char_prefix.
    - cbn [formatter_of]. cbn [app]. apply (before_char_app_prefix ik_brace (lead_f pat) (n ++ 125 :: formatter_of r)).
  Qed.

  Lemma leaf_no_match_plain path rt : memN ik_brace path = false ->
    ~ In (index_key (RPlain path rt)) (ancestors p) -> leaf_outcome (RPlain path rt) p m = ONo [].
  Proof.
    intros Hb H. simpl. destruct (list_eqb path p) eqn:E; [|reflexivity].
    apply list_eqb_eq in E. subst path. exfalso. apply H. cbn [index_key].
    apply key_anc_plain; assumption.
  Qed.

  Lemma leaf_no_match_dyn o pat rt : lead_ok pat ->
    ~ In (index_key (RDyn o (formatter_of pat) pat rt)) (ancestors p) ->
    leaf_outcome (RDyn o (formatter_of pat) pat rt) p m = ONo [].
  Proof.
    intros Hlead H. simpl. destruct (match_items pat p) as [d|] eqn:E; [|reflexivity].
    exfalso. apply H. unfold index_key. simpl.
    destruct (match_lead pat p d E) as (rest & Hpe & Hrest). unfold lead_ok in Hlead.
    destruct (memN ik_brace (formatter_of pat)) eqn:Hb.
    - apply (key_anc_brace _ (lead_f pat) rest p p_nonempty Hb (before_brace_lead pat Hb)).
      rewrite Hlead. exact Hpe.
    - apply key_anc_whole; [exact p_nonempty|exact Hb|].
      destruct (after_lead_head pat) as [E0|(n & c & mn & r & E0)].
      + rewrite formatter_lead, E0. cbn [formatter_of]. rewrite app_nil_r, Hlead, Hpe, (Hrest E0), app_nil_r. reflexivity.
      + rewrite formatter_lead, E0, memN_app in Hb. cbn [formatter_of app memN] in Hb.
        rewrite N.eqb_refl, orb_true_r in Hb. discriminate.
  Qed.

  (* router level: given per-resource agreement, the walk and the rule give the same answer *)
  Lemma router_agree rs ix : index_ok rs ix -> Forall agrees rs ->
    scan (map (pick (map fix_ rs)) (dom_positions rs ++ flat_map (bucket ix) (ancestors p))) []
    = scan (in_rule_order rs (map frule rs)) [].
  Proof.
    intros Hix Hall. rewrite Forall_forall in Hall.
    rewrite in_rule_order_map. unfold rule_order.
    (* left side: positions -> resources *)
    rewrite map_app, dom_positions_eq, map_pick_positions.
    assert (Hb : map (pick (map fix_ rs)) (flat_map (bucket ix) (ancestors p))
                 = map fix_ (flat_map (fun k => filter (in_bucket k) rs) (ancestors p))).
    { induction (ancestors p) as [|k A IHA]; [reflexivity|].
      cbn [flat_map]. rewrite !map_app, IHA. f_equal.
      rewrite (Hix k). apply map_pick_positions. }
    rewrite Hb, <- map_app.
    (* right side: drop the irrelevant resources *)
    set (rel := fun r => is_dom r || mem_str (index_key r) (ancestors p)).
    rewrite (scan_skip frule rel).
    2:{ intros r Hr Hrel. unfold rel in Hrel. apply orb_false_iff in Hrel as [Hd Hm].
        apply in_app_or in Hr. destruct Hr as [Hr|Hr].
        - apply filter_In in Hr. destruct Hr as [_ Hr]. congruence.
        - apply (proj1 (sort_In keylen r _)) in Hr. apply filter_In in Hr.
          destruct (Hall r (proj1 Hr)) as (_ & _ & A3). apply A3; [exact Hd|].
          intros Hin. apply mem_str_In in Hin. congruence. }
    rewrite filter_app.
    assert (Hd : filter rel (filter is_dom rs) = filter is_dom rs).
    { rewrite filter_ext_in with (g := fun _ => true).
      - clear. induction (filter is_dom rs); simpl; congruence.
      - intros r Hr. apply filter_In in Hr. unfold rel. destruct Hr as [_ ->]. reflexivity. }
    rewrite Hd.
    assert (Hs : filter rel (sort_by_len keylen (filter (fun r => negb (is_dom r)) rs))
                 = flat_map (fun k => filter (in_bucket k) rs) (ancestors p)).
    { rewrite filter_ext_in with (g := fun r => mem_str (index_key r) (ancestors p)).
      - rewrite relevant_sorted by (apply ancestors_desc; assumption).
        apply flat_map_ext_in'. intros k _. unfold bk, in_bucket, nondom.
        clear. induction rs as [|r rs IH]; simpl; [reflexivity|].
        destruct (is_dom r); simpl; [assumption|]. destruct (list_eqb (index_key r) k); simpl; rewrite IH; reflexivity.
      - intros r Hr. apply (proj1 (sort_In keylen r _)) in Hr. apply filter_In in Hr.
        unfold rel. destruct Hr as [_ Hr]. apply negb_true_iff in Hr. rewrite Hr. reflexivity. }
    rewrite Hs.
    (* pointwise agreement on what is left *)
    f_equal. apply map_ext_in. intros r Hr. apply in_app_or in Hr. destruct Hr as [Hr|Hr].
    - apply filter_In in Hr. destruct Hr as [Hin Hd']. destruct (Hall r Hin) as (A1 & _ & _). apply A1. exact Hd'.
    - apply in_flat_map in Hr. destruct Hr as (k & Hk & Hr). apply filter_In in Hr.
      destruct Hr as [Hin Hb']. unfold in_bucket, nondom in Hb'. apply andb_true_iff in Hb' as [Hnd Hkey].
      apply negb_true_iff in Hnd. apply list_eqb_eq in Hkey.
      destruct (Hall r Hin) as (_ & A2 & _). apply A2; [exact Hnd|]. rewrite Hkey. exact Hk.
  Qed.
End Agreement.

(* ------------------------------------------------------------------ all consistent resources agree *)

Lemma fix_sub host p m q rs ix :
  resolve_ix_res host p m (RSub q rs ix) =
  OFinal (scan (map (pick (map (resolve_ix_res host p m) rs))
                    (dom_positions rs ++ flat_map (bucket ix) (ancestors p))) []).
Proof. reflexivity. Qed.

Lemma fix_dom host p m d rs ix :
  resolve_ix_res host p m (RDom d rs ix) =
  if dom_match d host then
    OFinal (scan (map (pick (map (resolve_ix_res host p m) rs))
                      (dom_positions rs ++ flat_map (bucket ix) (ancestors p))) [])
  else ONo [].
Proof. reflexivity. Qed.

Lemma frule_sub host p m q rs ix :
  resolve_rule_res host p m (RSub q rs ix) =
  if literal_prefix_ok (index_key (RSub q rs ix)) p
  then OFinal (scan (in_rule_order rs (map (resolve_rule_res host p m) rs)) [])
  else ONo [].
Proof. reflexivity. Qed.

Lemma frule_dom host p m d rs ix :
  resolve_rule_res host p m (RDom d rs ix) =
  if dom_match d host
  then OFinal (scan (in_rule_order rs (map (resolve_rule_res host p m) rs)) [])
  else ONo [].
Proof. reflexivity. Qed.

Lemma frule_static host p m q rt :
  resolve_rule_res host p m (RStatic q rt) =
  if literal_prefix_ok (index_key (RStatic q rt)) p then static_outcome q rt p m else ONo [].
Proof. reflexivity. Qed.

Lemma lpo_key_true r p : p <> [] -> In (index_key r) (ancestors p) -> literal_prefix_ok (index_key r) p = true.
Proof. intros Hp H. apply literal_prefix_ok_iff; auto. apply index_key_nonempty. Qed.

Lemma lpo_key_false r p : p <> [] -> ~ In (index_key r) (ancestors p) -> literal_prefix_ok (index_key r) p = false.
Proof.
  intros Hp H. destruct (literal_prefix_ok (index_key r) p) eqn:E; [|reflexivity].
  exfalso. apply H. apply literal_prefix_ok_iff in E; auto. apply index_key_nonempty.
Qed.

Lemma all_agree host p m : starts_with [SLASH] p = true ->
  forall r, res_ok r -> agrees host p m r.
Proof.
  intros Hp.
  assert (Hne : p <> []) by (intros E; rewrite E in Hp; discriminate).
  induction r using resource_ind'; intros Hok; unfold agrees, fix_, frule.
  - inversion Hok; subst. split; [discriminate|]. split; [reflexivity|]. intros _ H.
    apply leaf_no_match_plain; assumption.
  - inversion Hok; subst. split; [discriminate|]. split; [reflexivity|].
    intros _ Hno. apply leaf_no_match_dyn; assumption.
  - split; [discriminate|]. rewrite frule_static. split.
    + intros _ Hin. rewrite (lpo_key_true _ p Hne Hin). reflexivity.
    + intros _ Hin. rewrite (lpo_key_false _ p Hne Hin). reflexivity.
  - inversion Hok as [| | |? ? ? Hix Hrs|]; subst.
    assert (Hag : Forall (agrees host p m) rs).
    { rewrite Forall_forall in *. intros r Hr. apply H; auto. }
    split; [discriminate|]. rewrite fix_sub, frule_sub. split.
    + intros _ Hin. rewrite (lpo_key_true _ p Hne Hin). f_equal.
      apply router_agree; assumption.
    + intros _ Hin. rewrite (lpo_key_false _ p Hne Hin). reflexivity.
  - inversion Hok as [| | | |? ? ? Hix Hrs]; subst.
    assert (Hag : Forall (agrees host p m) rs).
    { rewrite Forall_forall in *. intros r Hr. apply H; auto. }
    split; [|split; discriminate].
    intros _. rewrite fix_dom, frule_dom. destruct (dom_match d host); [|reflexivity].
    f_equal. apply router_agree; assumption.
Qed.

Theorem index_eq_rule rt host p m :
  router_ok rt -> starts_with [SLASH] p = true ->
  resolve_ix rt host p m = resolve_rule rt host p m.
Proof.
  intros [Hix Hrs] Hp. unfold resolve_ix, resolve_rule.
  apply router_agree; [assumption|assumption|].
  rewrite Forall_forall in *. intros r Hr. apply all_agree; auto.
Qed.
