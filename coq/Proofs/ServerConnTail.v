(* Pause/resume of the pipeline queue loses nothing: reading is paused only while more than the resume mark of
   items are queued, and start() never waits for input while the parser's tail still holds parsed-able items. *)
From Coq Require Import List NArith Bool Lia ZifyBool ZifyN.
From AV Require Import Lib.Base Generated.ServerGen Model.ServerConn Proofs.ServerConnInv.
Import ListNotations.
Open Scope N_scope.
Ltac Zify.zify_post_hook ::= Z.to_euclidean_division_equations.

Lemma proto_full_inv n : proto_queue_full n maxq = true -> maxq <= n.
Proof. unfold proto_queue_full. lia. Qed.
Lemma stays_inv n : proto_stays_paused n maxq = true -> maxq <= n.
Proof. unfold proto_stays_paused. lia. Qed.
Lemma resume_mark_false n : proto_resume_mark n resume_mark = false -> resume_mark < n.
Proof. unfold proto_resume_mark. lia. Qed.

Definition errish (s : st) : Prop := In QErr (q s) \/ (exists sd, pc s = PHandler QErr sd) \/ pc s = PExit.

(* reading paused => more than the resume mark queued *)
Definition PInv (s : st) : Prop := paused s = true -> resume_mark < lenN (q s).

(* no error so far: the parser's counter is exactly the number of queued requests, and a non-empty tail means paused *)
Definition Tight (s : st) : Prop :=
  p_infl (ps s) = nmsgs (q s) /\ (closed s = false -> p_tail (ps s) <> [] -> paused s = true).
Definition Pre (s : st) : Prop := In QErr (q s) \/ Tight s.
Definition TInv (s : st) : Prop := errish s \/ Tight s.

Lemma Pre_TInv s : Pre s -> TInv s.
Proof. intros [H|H]; [left; left; exact H|right; exact H]. Qed.

Lemma PInv_frame s t : paused t = paused s -> q t = q s -> PInv s -> PInv t.
Proof. unfold PInv. intros -> ->. auto. Qed.
Lemma Tight_frame s t : ps t = ps s -> q t = q s -> paused t = paused s -> (closed t = false -> closed s = false) -> Tight s -> Tight t.
Proof. unfold Tight. intros -> -> -> Hc [H1 H2]. split; auto. Qed.
Lemma Pre_frame s t : ps t = ps s -> q t = q s -> paused t = paused s -> (closed t = false -> closed s = false) -> Pre s -> Pre t.
Proof. intros Hp Hq Hpa Hc [H|H]; [left; rewrite Hq; exact H|right; eapply Tight_frame; eassumption]. Qed.

(* ---- feed ------------------------------------------------------------------------------------------ *)
Lemma feed_tail s new s' w : feed s new = (s', w) -> Core s ->
  (PInv s -> PInv s') /\
  (In QErr (q s) -> In QErr (q s')) /\
  (Tight s -> In QErr (q s') \/ (Tight s' /\ (p_tail (ps s') <> [] -> maxq <= lenN (q s')))) /\
  pc s' = pc s /\ closed s' = closed s /\ forcef s' = forcef s.
Proof.
  intros H [C1 C2 C3]. apply feed_shape in H; [|exact C1].
  destruct H as (msgs & p' & -> & _ & _ & Hp & Hn & Hs).
  split; [|split; [|split; [|cbn; auto]]].
  - unfold PInv. cbn [paused q set_paused set_ps set_q]. intros P Hpa. rewrite lenN_app. apply orb_true_iff in Hpa as [Hpa|Hpa].
    + specialize (P Hpa). lia.
    + apply proto_full_inv in Hpa. rewrite lenN_app in Hpa. pose proof resume_lt. lia.
  - cbn. intro Hi. apply in_or_app. left; exact Hi.
  - intros [T1 T2]. destruct Hs as [->|(Ha & He & Ht)].
    + left. cbn. apply in_or_app. right. left. reflexivity.
    + right. assert (L : p_tail p' <> [] -> maxq <= lenN (q s ++ msgs)).
      { intro Hne. specialize (Ht Hne). pose proof (nmsgs_le_len (q s ++ msgs)) as L. rewrite nmsgs_app in L. lia. }
      split; [|exact L]. split; cbn.
      * rewrite nmsgs_app. lia.
      * intros _ Hne. rewrite (proto_full_true _ (L Hne)). apply orb_true_r.
Qed.

Lemma resume_q_tail s : Core s ->
  PInv (resume_q s) /\ (In QErr (q s) -> In QErr (q (resume_q s))) /\ (Tight s -> Pre (resume_q s)) /\
  pc (resume_q s) = pc s /\ closed (resume_q s) = closed s /\ forcef (resume_q s) = forcef s.
Proof.
  intros C. unfold resume_q. destruct (forcef s) eqn:F.
  - assert (Cl : closed s = true) by (destruct C as [_ _ C3]; congruence).
    destruct (proto_stays_paused (lenN (q s)) maxq) eqn:E.
    + split; [|split; [auto|split; [intro T; right; exact T|auto]]].
      unfold PInv. intros _. apply stays_inv in E. pose proof resume_lt. lia.
    + split; [|split; [auto|split; [|cbn; auto]]].
      * unfold PInv. cbn. discriminate.
      * intros [T1 T2]. right. split; cbn; [exact T1|]. intro Hc. congruence.
  - destruct (feed s []) as [s1 w] eqn:E. cbn [fst].
    destruct (feed_tail _ _ _ _ E C) as (_ & Hi & Ht & Hpc & Hcl & Hf).
    destruct (proto_stays_paused (lenN (q s1)) maxq) eqn:Es.
    + split; [|split; [exact Hi|split; [|repeat split; congruence]]].
      * unfold PInv. intros _. apply stays_inv in Es. pose proof resume_lt. lia.
      * intro T. destruct (Ht T) as [H|[H _]]; [left; exact H|right; exact H].
    + apply stays_false in Es. split; [|split; [exact Hi|split; [|cbn; repeat split; congruence]]].
      * unfold PInv. cbn. discriminate.
      * intro T. destruct (Ht T) as [H|[[H1 H2] H3]]; [left; exact H|]. right. split; cbn; [exact H1|].
        intros _ Hne. specialize (H3 Hne). lia.
Qed.

(* ---- helpers of start(): PInv always, TInv from Pre ------------------------------------------------------ *)
Definition Post (s : st) : Prop := PInv s /\ TInv s.

Lemma exit_loop_post s : PInv s -> Post (exit_loop s).
Proof.
  intro P. unfold exit_loop. split.
  - destruct (forcef s); (eapply PInv_frame; [| |exact P]; reflexivity).
  - left. right. right. destruct (forcef s); reflexivity.
Qed.

Lemma loop_top_post s : Core s -> PInv s -> Pre s -> Post (loop_top s).
Proof.
  intros C P T. unfold loop_top. destruct (forcef s) eqn:F; [apply exit_loop_post; exact P|].
  destruct (q s) as [|it q'] eqn:Q.
  - split; [eapply PInv_frame; [| |exact P]; reflexivity|]. right.
    destruct T as [T|T]; [rewrite Q in T; destruct T|]. eapply Tight_frame; [| | | |exact T]; auto.
  - set (s1 := set_ps (set_q s q') _).
    assert (C1 : Core s1).
    { destruct C as [C1 C2 C3]. split; cbn.
      - rewrite msg_consumed_spec. lia.
      - intro Hp. specialize (C2 Hp). rewrite Q, lenN_cons in C2. lia.
      - exact C3. }
    (* what is known about s1 *)
    assert (T1 : it = QErr \/ In QErr (q s1) \/ Tight s1).
    { destruct it as [m|]; [|left; reflexivity]. right. destruct T as [T|[T1 T2]].
      - left. cbn. rewrite Q in T. destruct T as [T|T]; [discriminate|exact T].
      - right. split; cbn.
        + rewrite msg_consumed_spec. rewrite Q in T1. cbn [nmsgs] in T1. lia.
        + exact T2. }
    destruct (paused s1 && proto_resume_mark (lenN q') resume_mark) eqn:E.
    + destruct (resume_q_tail s1 C1) as (RP & Ri & Rt & Rpc & Rcl & Rf).
      split; [eapply PInv_frame; [| |exact RP]; reflexivity|].
      destruct T1 as [->|[T1|T1]].
      * left. right. left. exists false. reflexivity.
      * left. left. cbn. apply Ri. exact T1.
      * destruct (Rt T1) as [H|H]; [left; left; exact H|right; eapply Tight_frame; [| | | |exact H]; auto].
    + split.
      * unfold PInv. cbn. intro Hpa. change (paused s1) with (paused s) in E. rewrite Hpa in E. cbn [andb] in E.
        apply resume_mark_false in E. exact E.
      * destruct T1 as [->|[T1|T1]].
        -- left. right. left. exists false. reflexivity.
        -- left. left. exact T1.
        -- right. eapply Tight_frame; [| | | |exact T1]; auto.
Qed.

Lemma after_req_post c s f : Core s -> PInv s -> Pre s -> Post (after_req c s f).
Proof.
  intros C P T. unfold after_req. destruct (ka s && negb f && negb (forcef s)).
  - destruct (arm_ka_frame c s) as (Hq & Hp & Hpa & Hpc & Hf & Hc & Hk & Ho).
    apply loop_top_post.
    + eapply Core_frame; [..|exact C]; assumption.
    + eapply PInv_frame; [| |exact P]; assumption.
    + eapply Pre_frame; [| | | |exact T]; try assumption. rewrite Hc. auto.
  - apply exit_loop_post; exact P.
Qed.

Lemma payload_check_post c s cur : Core s -> PInv s -> Pre s -> Post (payload_check c s cur).
Proof.
  intros C P T. unfold payload_check. destruct cur as [m|]; [|apply after_req_post; assumption].
  destruct (incomplete s m); [|apply after_req_post; assumption].
  destruct (forcef s); [apply after_req_post; assumption|].
  destruct (failed s m).
  - apply exit_loop_post. eapply PInv_frame; [| |exact P]; reflexivity.
  - destruct (0 <? c_linger c); [|apply after_req_post; assumption].
    split; [eapply PInv_frame; [| |exact P]; reflexivity|]. apply Pre_TInv. eapply Pre_frame; [| | | |exact T]; auto.
Qed.

Lemma push_frames s r : Core s -> PInv s -> Pre s -> Core (push s r) /\ PInv (push s r) /\ Pre (push s r).
Proof.
  intros C P T. split; [apply Core_push; exact C|]. split; [eapply PInv_frame; [| |exact P]; reflexivity|].
  eapply Pre_frame; [| | | |exact T]; auto.
Qed.
Lemma set_ka_frames s v : Core s -> PInv s -> Pre s -> Core (set_ka s v) /\ PInv (set_ka s v) /\ Pre (set_ka s v).
Proof.
  intros C P T. split; [apply Core_set_ka; exact C|]. split; [eapply PInv_frame; [| |exact P]; reflexivity|].
  eapply Pre_frame; [| | | |exact T]; auto.
Qed.

Lemma finish_fresh_post c s cur sd status k : Core s -> PInv s -> Pre s -> Post (finish_fresh c s cur sd status k).
Proof.
  intros C P T. unfold finish_fresh. destruct (closed s); [apply exit_loop_post; exact P|].
  assert (H0 : Core (if sd then push s (partial_of cur) else s) /\ PInv (if sd then push s (partial_of cur) else s) /\
               Pre (if sd then push s (partial_of cur) else s)).
  { destruct sd; [apply push_frames; assumption|auto]. }
  destruct H0 as (C0 & P0 & T0).
  destruct (push_frames _ {| r_id := id_of cur; r_status := status; r_done := true |} C0 P0 T0) as (C1 & P1 & T1).
  destruct (set_ka_frames _ (k && negb (close_of cur)) C1 P1 T1) as (C2 & P2 & T2).
  apply payload_check_post; assumption.
Qed.

Lemma on_done_post c s cur sd o : Core s -> PInv s -> Pre s -> Post (on_done c s cur sd o).
Proof.
  intros C P T. unfold on_done.
  assert (EP : forall r, Post (exit_loop (push s r))).
  { intro r. apply exit_loop_post. eapply PInv_frame; [| |exact P]; reflexivity. }
  assert (EC : Post (exit_loop (do_close (if sd then push s (partial_of cur) else s)))).
  { apply exit_loop_post. destruct sd; (eapply PInv_frame; [| |exact P]; reflexivity). }
  destruct o as [keep status| |status| | | | ].
  - destruct sd; [apply EP|apply finish_fresh_post; assumption].
  - destruct sd; [|apply finish_fresh_post; assumption].
    destruct (closed s); [apply EP|].
    destruct (push_frames _ {| r_id := id_of cur; r_status := 200; r_done := true |} C P T) as (C1 & P1 & T1).
    destruct (set_ka_frames _ (negb (close_of cur)) C1 P1 T1) as (C2 & P2 & T2).
    apply payload_check_post; assumption.
  - destruct sd; [apply EP|apply finish_fresh_post; assumption].
  - destruct sd; [apply EP|apply finish_fresh_post; assumption].
  - destruct sd; [apply EP|apply finish_fresh_post; assumption].
  - exact EC.
  - exact EC.
Qed.

(* PInv alone does not need Pre *)
Lemma loop_top_P s : Core s -> PInv s -> PInv (loop_top s).
Proof.
  intros C P. unfold loop_top. destruct (forcef s) eqn:F; [apply exit_loop_post; exact P|].
  destruct (q s) as [|it q'] eqn:Q; [eapply PInv_frame; [| |exact P]; reflexivity|].
  set (s1 := set_ps (set_q s q') _).
  assert (C1 : Core s1).
  { destruct C as [C1 C2 C3]. split; cbn.
    - rewrite msg_consumed_spec. lia.
    - intro Hp. specialize (C2 Hp). rewrite Q, lenN_cons in C2. lia.
    - exact C3. }
  destruct (paused s1 && proto_resume_mark (lenN q') resume_mark) eqn:E.
  - destruct (resume_q_tail s1 C1) as (RP & _). eapply PInv_frame; [| |exact RP]; reflexivity.
  - unfold PInv. cbn. intro Hpa. change (paused s1) with (paused s) in E. rewrite Hpa in E. cbn [andb] in E.
    apply resume_mark_false in E. exact E.
Qed.

Lemma after_req_P c s f : Core s -> PInv s -> PInv (after_req c s f).
Proof.
  intros C P. unfold after_req. destruct (ka s && negb f && negb (forcef s)).
  - destruct (arm_ka_frame c s) as (Hq & Hp & Hpa & Hpc & Hf & Hc & Hk & Ho).
    apply loop_top_P; [eapply Core_frame; [..|exact C]; assumption|eapply PInv_frame; [| |exact P]; assumption].
  - apply exit_loop_post; exact P.
Qed.

Lemma payload_check_P c s cur : Core s -> PInv s -> PInv (payload_check c s cur).
Proof.
  intros C P. unfold payload_check. destruct cur as [m|]; [|apply after_req_P; assumption].
  destruct (incomplete s m); [|apply after_req_P; assumption].
  destruct (forcef s); [apply after_req_P; assumption|].
  destruct (failed s m).
  - apply exit_loop_post. eapply PInv_frame; [| |exact P]; reflexivity.
  - destruct (0 <? c_linger c); [|apply after_req_P; assumption]. eapply PInv_frame; [| |exact P]; reflexivity.
Qed.

Lemma on_done_P c s cur sd o : Core s -> PInv s -> PInv (on_done c s cur sd o).
Proof.
  intros C P.
  assert (PP : forall r, Core (push s r) /\ PInv (push s r)).
  { intro r. split; [apply Core_push; exact C|eapply PInv_frame; [| |exact P]; reflexivity]. }
  assert (FF : forall sd0 status k, PInv (finish_fresh c s cur sd0 status k)).
  { intros sd0 status k. unfold finish_fresh. destruct (closed s); [apply exit_loop_post; exact P|].
    apply payload_check_P.
    - apply Core_set_ka, Core_push. destruct sd0; [apply Core_push|]; exact C.
    - eapply PInv_frame; [| |exact P]; destruct sd0; reflexivity. }
  assert (EC : PInv (exit_loop (do_close (if sd then push s (partial_of cur) else s)))).
  { apply exit_loop_post. destruct sd; (eapply PInv_frame; [| |exact P]; reflexivity). }
  unfold on_done. destruct o as [keep status| |status| | | | ].
  - destruct sd; [apply exit_loop_post, PP|apply FF].
  - destruct sd; [|apply FF].
    destruct (closed s); [apply exit_loop_post, PP|].
    apply payload_check_P; [apply Core_set_ka, Core_push; exact C|eapply PInv_frame; [| |exact P]; reflexivity].
  - destruct sd; [apply exit_loop_post, PP|apply FF].
  - destruct sd; [apply exit_loop_post, PP|apply FF].
  - destruct sd; [apply exit_loop_post, PP|apply FF].
  - exact EC.
  - exact EC.
Qed.

(* ---- steps ----------------------------------------------------------------------------------------- *)
Lemma TInv_pre s : Inv s -> TInv s -> (forall sd, pc s <> PHandler QErr sd) -> pc s <> PExit -> Pre s.
Proof.
  intros I [[H|[[sd H]|H]]|H] N1 N2; [left; exact H|elim (N1 sd H)|elim (N2 H)|right; exact H].
Qed.

Lemma deliver_post s tits : Inv s -> Post s -> Post (deliver s tits).
Proof.
  intros I [P T]. pose proof I as [C B W X]. unfold deliver. destruct (feed s tits) as [s1 w] eqn:E.
  destruct (feed_tail _ _ _ _ E C) as (FP & Fi & Ft & Fpc & Fcl & Ff).
  destruct (feed_core _ _ _ _ _ E C B) as (C1 & _).
  assert (T1 : TInv s1).
  { destruct T as [[H|[[sd H]|H]]|H].
    - left. left. apply Fi. exact H.
    - left. right. left. exists sd. congruence.
    - left. right. right. congruence.
    - destruct (Ft H) as [H1|[H1 _]]; [left; left; exact H1|right; exact H1]. }
  destruct (pc s1) eqn:P1; try (split; [apply FP; exact P|exact T1]).
  destruct w; [|split; [apply FP; exact P|exact T1]].
  apply loop_top_post; [exact C1|apply FP; exact P|].
  destruct T1 as [[H|[[sd H]|H]]|H]; [left; exact H|congruence|congruence|right; exact H].
Qed.

Lemma Post_frame s t : ps t = ps s -> q t = q s -> paused t = paused s -> closed t = closed s -> pc t = pc s -> Post s -> Post t.
Proof.
  intros Hp Hq Hpa Hc Hpc [P T]. split; [eapply PInv_frame; [| |exact P]; assumption|].
  destruct T as [[H|[[sd H]|H]]|H].
  - left. left. rewrite Hq. exact H.
  - left. right. left. exists sd. congruence.
  - left. right. right. congruence.
  - right. eapply Tight_frame; [| | | |exact H]; try assumption. rewrite Hc. auto.
Qed.

Lemma Post_close s : Post s -> Post (do_close s).
Proof.
  intros [P T]. split; [eapply PInv_frame; [| |exact P]; reflexivity|].
  destruct T as [[H|[[sd H]|H]]|[H1 H2]].
  - left. left. exact H.
  - left. right. left. exists sd. exact H.
  - left. right. right. exact H.
  - right. split; [exact H1|]. cbn. discriminate.
Qed.

Lemma Post_exit s : Post s -> Post (set_pc s PExit).
Proof. intros [P T]. split; [eapply PInv_frame; [| |exact P]; reflexivity|]. left. right. right. reflexivity. Qed.

Theorem step_post c s e s' : Reach c s -> Post s -> step c s e = Some s' -> Post s'.
Proof.
  intros R PT H. pose proof (reach_inv _ _ R) as I. pose proof I as [C B W X]. pose proof PT as [P T].
  destruct e as [its| |o| | |dt|]; cbn [step] in H.
  - destruct (closed s || paused s); [discriminate|].
    destruct (tag (nseen s) its) as [tits n'] eqn:Tg. inversion H; subst; clear H.
    apply deliver_post.
    + eapply Inv_frame; [..|exact I]; reflexivity.
    + eapply Post_frame; [..|exact PT]; reflexivity.
  - destruct (pc s) as [|cur [|]| |] eqn:Pc; try discriminate.
    destruct (closed s); [discriminate|]. inversion H; subst; clear H.
    split; [eapply PInv_frame; [| |exact P]; reflexivity|].
    destruct T as [[H|[[sd H]|H]]|H].
    + left. left. exact H.
    + left. right. left. exists true. cbn. congruence.
    + congruence.
    + right. eapply Tight_frame; [| | | |exact H]; auto.
  - destruct (pc s) as [|cur sd| |] eqn:Pc; try discriminate.
    destruct cur as [m|].
    + inversion H; subst; clear H. apply on_done_post; [exact C|exact P|].
      apply TInv_pre; try assumption; rewrite Pc; [intros sd0; discriminate|discriminate].
    + pose proof H as H'. cbn [step] in H'. inversion H; subst; clear H.
      split; [apply on_done_P; assumption|].
      assert (Hs : step c s (EDone o) = Some (on_done c s QErr sd o)) by (cbn [step]; rewrite Pc; reflexivity).
      destruct (err_request_closes _ _ _ _ _ R Pc Hs) as [E1 _]. left. right. right. exact E1.
  - inversion H; subst; clear H. destruct (closed s); [exact PT|]. apply deliver_post; assumption.
  - inversion H; subst; clear H. destruct (pc s) as [| |m until|] eqn:Pc; try exact PT.
    assert (Pr : Pre s) by (apply TInv_pre; try assumption; rewrite Pc; [intros sd0; discriminate|discriminate]).
    destruct (incomplete s m); [|apply after_req_post; assumption].
    destruct (forcef s); [exact PT|]. destruct (failed s m); [|exact PT].
    apply exit_loop_post. eapply PInv_frame; [| |exact P]; reflexivity.
  - inversion H; subst; clear H.
    assert (K : forall t, Reach c t \/ True -> Inv t -> Post t -> Inv (fire_ka t) /\ Post (fire_ka t)).
    { intros t _ It Pt. split; [apply fire_ka_inv; exact It|]. unfold fire_ka.
      destruct (ka_h t); [|exact Pt]. destruct (n <=? now t); [|exact Pt].
      set (t1 := set_timer t (ka_close t) None).
      assert (P1 : Post t1) by (eapply Post_frame; [..|exact Pt]; reflexivity).
      destruct (forcef t1 || negb (ka t1)); [exact P1|]. destruct (now t1 <? ka_close t1).
      - eapply Post_frame; [..|exact P1]; reflexivity.
      - destruct (pc t1) eqn:P1c; try exact P1. apply Post_exit, Post_close. exact P1. }
    set (s0 := set_now s (now s + dt)).
    assert (I0 : Inv s0) by (eapply Inv_frame; [..|exact I]; reflexivity).
    assert (P0 : Post s0) by (eapply Post_frame; [..|exact PT]; reflexivity).
    destruct (K s0 (or_intror Logic.I) I0 P0) as [I1 P1].
    unfold fire_linger. destruct (pc (fire_ka s0)) as [| |m until|] eqn:Pc; try exact P1.
    destruct (until <=? now (fire_ka s0)); [|exact P1].
    destruct I1 as [C1 B1 W1 X1]. destruct P1 as [P1 T1].
    apply after_req_post; [exact C1|exact P1|].
    apply TInv_pre; try assumption; try (split; assumption); rewrite Pc; [intros sd0; discriminate|discriminate].
  - destruct (closed s) eqn:Cl; [discriminate|]. inversion H; subst; clear H. cbn [pc do_close].
    destruct (pc s) eqn:Pc; try (apply Post_close; exact PT).
    apply Post_exit, Post_close. exact PT.
Qed.

Lemma init_post : Post init.
Proof.
  split; [unfold PInv; cbn; discriminate|]. right. split; cbn; [reflexivity|]. intros _ F. now elim F.
Qed.

Theorem reach_post c s : Reach c s -> Post s.
Proof. induction 1; [apply init_post|eapply step_post; eassumption]. Qed.

(* ---- consequences ------------------------------------------------------------------------------------- *)
Theorem paused_has_work c s : Reach c s -> paused s = true -> resume_mark < lenN (q s).
Proof. intro R. destruct (reach_post _ _ R) as [P _]. exact P. Qed.

Theorem idle_means_drained c s : Reach c s -> closed s = false -> pc s = PWait ->
  q s = [] /\ p_tail (ps s) = [] /\ paused s = false.
Proof.
  intros R Cl Pc. destruct (reach_inv _ _ R) as [C B W X]. destruct (reach_post _ _ R) as [P T].
  pose proof (W Pc) as Q. split; [exact Q|].
  assert (Hp : paused s = false).
  { destruct (paused s) eqn:E; [|reflexivity]. specialize (P E). rewrite Q in P. cbn in P. lia. }
  split; [|exact Hp].
  destruct T as [[H|[[sd H]|H]]|[_ H2]].
  - rewrite Q in H. destruct H.
  - congruence.
  - congruence.
  - destruct (p_tail (ps s)) eqn:E; [reflexivity|]. assert (N : t :: l <> []) by discriminate.
    rewrite (H2 Cl N) in Hp. discriminate.
Qed.
