(* Response-parser proofs, part 1: byte-string facts for the lax line conventions
   (find_lf = split at the first LF, rstrip_cr). *)
From Coq Require Import ZifyBool ZifyN.
From AV Require Import Lib.Base Lib.BytesX Generated.HttpGen Generated.HttpRespGen Model.Http Model.HttpResp
  Proofs.HttpSegBase.
Ltac Zify.zify_post_hook ::= Z.to_euclidean_division_equations.
Open Scope N_scope.

Lemma split_first_aux_app sep : forall x acc y l r,
  split_first_aux sep acc x = Some (l, r) -> split_first_aux sep acc (x ++ y) = Some (l, r ++ y).
Proof.
  induction x as [|c x IH]; intros acc y l r H; [discriminate|].
  cbn [app split_first_aux] in *. destruct (c =? sep).
  - inversion H; subst. reflexivity.
  - now apply IH.
Qed.

Lemma split_first_aux_shape sep : forall x acc l r,
  split_first_aux sep acc x = Some (l, r) -> exists m, l = rev acc ++ m /\ x = m ++ sep :: r.
Proof.
  induction x as [|c x IH]; intros acc l r H; [discriminate|].
  cbn [split_first_aux] in H. destruct (c =? sep) eqn:E.
  - inversion H; subst. apply N.eqb_eq in E. subst. exists []. rewrite app_nil_r. split; reflexivity.
  - apply IH in H as (m & -> & ->). exists (c :: m). cbn [rev]. rewrite <- app_assoc. split; reflexivity.
Qed.

Lemma split_first_aux_none_app sep : forall ct acc d l r,
  split_first_aux sep acc ct = None -> split_first_aux sep acc (ct ++ d) = Some (l, r) ->
  (length r < length d)%nat.
Proof.
  induction ct as [|c ct IH]; intros acc d l r Hn Hs.
  - cbn [app] in Hs. apply split_first_aux_shape in Hs as (m & _ & ->). rewrite app_length. cbn [length]. lia.
  - cbn [app split_first_aux] in *. destruct (c =? sep); [discriminate|]. eapply IH; eassumption.
Qed.

Lemma find_lf_app x y l r : find_lf x = Some (l, r) -> find_lf (x ++ y) = Some (l, r ++ y).
Proof. apply split_first_aux_app. Qed.

Lemma find_lf_shape x l r : find_lf x = Some (l, r) -> x = l ++ 10 :: r.
Proof. intro H. apply split_first_aux_shape in H as (m & -> & ->). reflexivity. Qed.

Lemma find_lf_len x l r : find_lf x = Some (l, r) -> length x = (length l + length r + 1)%nat.
Proof. intro H. apply find_lf_shape in H. subst. rewrite app_length. cbn [length]. lia. Qed.

Lemma find_lf_none_app ct d l r :
  find_lf ct = None -> find_lf (ct ++ d) = Some (l, r) -> (length r < length d)%nat.
Proof. apply split_first_aux_none_app. Qed.

Lemma split_first_aux_none_has sep : forall x acc, split_first_aux sep acc x = None <-> has_byte sep x = false.
Proof.
  induction x as [|c x IH]; intros acc; cbn [split_first_aux has_byte]; [tauto|].
  destruct (c =? sep); cbn [orb]; [split; discriminate|apply IH].
Qed.

Lemma find_lf_none_has x : find_lf x = None <-> has_byte 10 x = false.
Proof. apply split_first_aux_none_has. Qed.

(* rstrip_cr never lengthens a line *)
Lemma lstrip_cr_len s : (length (lstrip_cr s) <= length s)%nat.
Proof. induction s as [|c s IH]; cbn [lstrip_cr length]; [lia|]. destruct (c =? 13); cbn [length]; lia. Qed.

Lemma rstrip_cr_len s : (length (rstrip_cr s) <= length s)%nat.
Proof. unfold rstrip_cr. rewrite rev_length. pose proof (lstrip_cr_len (rev s)). rewrite rev_length in H. exact H. Qed.

Lemma rstrip_cr_lenN s : lenN (rstrip_cr s) <= lenN s.
Proof. unfold lenN. pose proof (rstrip_cr_len s). lia. Qed.

(* events *)
Lemma rev_data_app a b evs : rev_data (a ++ b) evs = rev_data b (rev_data a evs).
Proof. destruct evs as [|m r]; [reflexivity|]. cbn. now rewrite app_assoc. Qed.
