(* Response-parser proofs, part 1: byte-string facts for the lax line conventions
   (find_lf = split at the first LF, rstrip_cr). *)
From Coq Require Import ZifyBool ZifyN.
From AV Require Import Lib.Base Lib.BytesX Lib.Utf8Decode Generated.HttpGen Generated.HttpRespGen Model.Http Model.HttpResp
  Proofs.HttpSegBase.
Ltac Zify.zify_post_hook ::= Z.to_euclidean_division_equations.
Open Scope N_scope.

Lemma split_byte_app sep : forall x y l r,
  split_byte sep x = Some (l, r) -> split_byte sep (x ++ y) = Some (l, r ++ y).
Proof.
  induction x as [|c x IH]; intros y l r H; [discriminate|].
  cbn [app split_byte] in *. destruct (c =? sep).
  - inversion H; subst. reflexivity.
  - destruct (split_byte sep x) as [[l0 r0]|] eqn:E; [|discriminate]. inversion H; subst.
    rewrite (IH y l0 r eq_refl). reflexivity.
Qed.

Lemma split_byte_shape sep : forall x l r, split_byte sep x = Some (l, r) -> x = l ++ sep :: r.
Proof.
  induction x as [|c x IH]; intros l r H; [discriminate|].
  cbn [split_byte] in H. destruct (c =? sep) eqn:E.
  - inversion H; subst. apply N.eqb_eq in E. subst. reflexivity.
  - destruct (split_byte sep x) as [[l0 r0]|] eqn:E2; [|discriminate]. inversion H; subst.
    cbn [app]. f_equal. now apply IH.
Qed.

Lemma split_byte_none_app sep : forall ct d l r,
  split_byte sep ct = None -> split_byte sep (ct ++ d) = Some (l, r) -> (length r < length d)%nat.
Proof.
  induction ct as [|c ct IH]; intros d l r Hn Hs.
  - cbn [app] in Hs. apply split_byte_shape in Hs. subst. rewrite app_length. cbn [length]. lia.
  - cbn [app split_byte] in *. destruct (c =? sep); [discriminate|].
    destruct (split_byte sep ct) as [[l0 r0]|] eqn:E; [discriminate|].
    destruct (split_byte sep (ct ++ d)) as [[l1 r1]|] eqn:E2; [|discriminate]. inversion Hs; subst.
    eapply IH; [reflexivity|exact E2].
Qed.

Lemma split_byte_none_has sep : forall x, split_byte sep x = None <-> has_byte sep x = false.
Proof.
  induction x as [|c x IH]; cbn [split_byte has_byte]; [tauto|].
  destruct (c =? sep); cbn [orb]; [split; discriminate|].
  destruct (split_byte sep x) as [[l r]|]; [split; [discriminate|]|tauto].
  intro H. apply IH in H. discriminate.
Qed.

(* the part before the separator starts with the first byte of the string *)
Lemma split_byte_head sep c x l r : split_byte sep (c :: x) = Some (l, r) -> l = [] \/ exists l', l = c :: l'.
Proof.
  cbn [split_byte]. destruct (c =? sep); [intro H; inversion H; auto|].
  destruct (split_byte sep x) as [[l0 r0]|]; [|discriminate]. intro H. inversion H; subst. right. eauto.
Qed.

Lemma find_lf_app x y l r : find_lf x = Some (l, r) -> find_lf (x ++ y) = Some (l, r ++ y).
Proof. apply split_byte_app. Qed.

Lemma find_lf_shape x l r : find_lf x = Some (l, r) -> x = l ++ 10 :: r.
Proof. apply split_byte_shape. Qed.

Lemma find_lf_len x l r : find_lf x = Some (l, r) -> length x = (length l + length r + 1)%nat.
Proof. intro H. apply find_lf_shape in H. subst. rewrite app_length. cbn [length]. lia. Qed.

Lemma find_lf_none_app ct d l r :
  find_lf ct = None -> find_lf (ct ++ d) = Some (l, r) -> (length r < length d)%nat.
Proof. apply split_byte_none_app. Qed.

Lemma find_lf_none_has x : find_lf x = None <-> has_byte 10 x = false.
Proof. apply split_byte_none_has. Qed.

(* rstrip_cr never lengthens a line *)
Lemma rstrip_cr_len s : (length (rstrip_cr s) <= length s)%nat.
Proof. apply rstrip_by_len. Qed.

Lemma rstrip_cr_lenN s : lenN (rstrip_cr s) <= lenN s.
Proof. unfold lenN. pose proof (rstrip_cr_len s). lia. Qed.

(* ---- the measured length of a lax line *)
Lemma ends_cr_len s : ends_cr s = true -> (1 <= length s)%nat.
Proof. destruct s; [discriminate|]. cbn [length]. lia. Qed.

Lemma len1_le s : len1 s <= lenN s.
Proof. unfold len1. destruct (ends_cr s); lia. Qed.

Lemma lenN_le_len1 s : lenN s <= len1 s + 1.
Proof. unfold len1. destruct (ends_cr s) eqn:E; [|lia]. apply ends_cr_len in E. unfold lenN. lia. Qed.

Lemma rstrip_cr_ends s : ends_cr s = true -> (length (rstrip_cr s) + 1 <= length s)%nat.
Proof.
  unfold rstrip_cr. induction s as [|c s IH]; [discriminate|].
  cbn [ends_cr rstrip_by]. destruct s as [|d s'].
  - intros ->. cbn. lia.
  - intro H. specialize (IH H).
    destruct (rstrip_by (fun c0 : N => c0 =? 13) (d :: s')) as [|r0 r]; [destruct (c =? 13); cbn [length] in *; lia|].
    cbn [length] in *. lia.
Qed.

(* the stored line (every trailing CR removed) is never longer than its measured length *)
Lemma rstrip_cr_le_len1 s : lenN (rstrip_cr s) <= len1 s.
Proof.
  unfold len1. destruct (ends_cr s) eqn:E.
  - apply rstrip_cr_ends in E. unfold lenN. lia.
  - apply rstrip_cr_lenN.
Qed.

Lemma len1_app_ge x y : len1 x <= len1 (x ++ y).
Proof.
  destruct y as [|c y]; [rewrite app_nil_r; lia|].
  pose proof (lenN_le_len1 (x ++ c :: y)) as H. pose proof (len1_le x) as H2.
  rewrite lenN_app, lenN_cons in H. lia.
Qed.

(* a buffer without LF: the line found after appending data starts with that buffer *)
Lemma split_byte_none_app_prefix sep : forall ct d l r,
  split_byte sep ct = None -> split_byte sep (ct ++ d) = Some (l, r) -> exists pre, l = ct ++ pre.
Proof.
  induction ct as [|c ct IH]; intros d l r Hn Hs; [exists l; reflexivity|].
  cbn [app split_byte] in *. destruct (c =? sep); [discriminate|].
  destruct (split_byte sep ct) as [[l0 r0]|] eqn:E; [discriminate|].
  destruct (split_byte sep (ct ++ d)) as [[l1 r1]|] eqn:E2; [|discriminate]. inversion Hs; subst.
  destruct (IH d l1 r eq_refl E2) as [pre ->]. exists pre. reflexivity.
Qed.

Lemma find_lf_none_app_prefix ct d l r :
  find_lf ct = None -> find_lf (ct ++ d) = Some (l, r) -> exists pre, l = ct ++ pre.
Proof. apply split_byte_none_app_prefix. Qed.

(* events *)
Lemma rev_data_app a b evs : rev_data (a ++ b) evs = rev_data b (rev_data a evs).
Proof. destruct evs as [|m r]; [reflexivity|]. cbn. now rewrite app_assoc. Qed.
