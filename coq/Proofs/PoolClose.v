(* C07 — what connector close does to the requests queued at that moment. *)
From AV Require Import Lib.Base Generated.PoolGen Model.Pool Proofs.PoolLimit Proofs.PoolCoh Proofs.PoolOwner.
Open Scope N_scope.

Lemma close_fails_waiters c tr s s' t k :
  run c init tr = Some s -> closed s = false -> step c s EClose = Some s' ->
  In (t, k, false) (waiters s) ->
  closed s' = true /\ waiters s' = [] /\ acquired s' = [] /\
  get_pc (pcs s') t = PWaiting k FCancelled /\
  forall order, exists s'', step c s' (EResume t order) = Some s'' /\ get_pc (pcs s'') t = PCancelled.
Proof.
  intros H Hc Hs Hin. pose proof (run_coh c tr init s coh_init H) as (C1 & C2 & _).
  cbn [step] in Hs. rewrite Hc in Hs. injection Hs as <-. cbn [closed waiters acquired pcs].
  pose proof (cancel_all_entry (waiters s) (pcs s) t k C2 Hin) as E.
  repeat split; try reflexivity; [exact E|].
  intro order. cbn [step pcs]. rewrite E. eexists. split; [reflexivity|].
  cbn [with_pc with_waiters pcs]. apply get_set_same.
Qed.

(* ---- nobody ever queues on a closed connector ----------------------------------------------------- *)

Definition closed_inv (s : state) : Prop := closed s = true -> waiters s = [] /\ idle s = [].

Lemma nil_of_no_member {A} (l : list A) : (forall x, In x l -> False) -> l = [].
Proof. destruct l as [|x l]; [reflexivity|]. intro H. exfalso. apply (H x). left. reflexivity. Qed.

Lemma proceed_no_idle c s t k :
  idle s = [] -> waiters (proceed c s t k) = waiters s /\ idle (proceed c s t k) = [] /\
  get_pc (pcs (proceed c s t k)) t = PCreating k.
Proof.
  intro I. unfold proceed. rewrite I. cbn [take_idle with_pc add_slot waiters idle pcs].
  repeat split; [exact I|apply get_set_same].
Qed.

Lemma refuse_wait_closed s : closed s = true -> refuse_wait s = true.
Proof. intro H. unfold refuse_wait. rewrite H, wait_checks_closed_true. reflexivity. Qed.

Lemma step_closed_inv c s e s' : closed_inv s -> step c s e = Some s' -> closed_inv s'.
Proof.
  intros I H Hc'. destruct (closed s) eqn:Hc.
  - unfold closed_inv in I. rewrite Hc in I. destruct (I eq_refl) as (W & D).
    destruct e as [t k|t order|t|t|t order|t cl order|]; cbn [step] in H.
    + destruct (get_pc (pcs s) t); try discriminate. rewrite D in H. cbn [take_idle] in H.
      assert (H' : start_tail c s t k = Some s') by (destruct (connect_fast_path _); exact H). clear H.
      unfold start_tail in H'. destruct (connect_must_wait _).
      * rewrite (refuse_wait_closed s Hc) in H'. injection H' as <-. split; assumption.
      * injection H' as <-. destruct (proceed_no_idle c s t k D) as (A & B & _). rewrite A. split; assumption.
    + destruct (get_pc (pcs s) t) as [| k f | | | | |]; try discriminate. destruct f; try discriminate.
      * set (s1 := with_woken s (filter (fun x => negb (x =? t)) (woken s))) in *.
        destruct (wait_slot_found _).
        -- injection H as <-. destruct (proceed_no_idle c s1 t k D) as (A & B & _). rewrite A. split; assumption.
        -- unfold requeue in H. destruct (hand_on c s1 order) as [s2|] eqn:Eh; [|discriminate].
           destruct (hand_on_frame _ _ _ _ Eh) as (_ & _ & I2 & D2 & _). destruct (hand_on_facts _ _ _ _ Eh) as (F1 & _).
           assert (Hc2 : closed s2 = true) by (rewrite D2; exact Hc).
           rewrite (refuse_wait_closed s2 Hc2) in H. injection H as <-. cbn [with_pc waiters idle]. split.
           ++ apply nil_of_no_member. intros x Hx. apply F1 in Hx. cbn [s1 with_woken waiters] in Hx. rewrite W in Hx. exact Hx.
           ++ rewrite I2. exact D.
      * injection H as <-. cbn [with_pc with_waiters waiters idle]. rewrite W. split; [reflexivity|exact D].
      * destruct (release_waiter c _ order) as [s2|] eqn:Er; [|discriminate]. injection H as <-.
        destruct (release_waiter_facts _ _ _ _ Er) as (F1 & _).
        unfold release_waiter in Er. destruct (covers order _); [|discriminate]. injection Er as <-.
        cbn [with_pc waiters idle]. split.
        -- apply nil_of_no_member. intros x Hx. apply release_loop_waiters_sub in Hx.
           cbn [with_woken waiters] in Hx. rewrite W in Hx. exact Hx.
        -- match goal with |- idle (release_loop c ?x order) = [] =>
             destruct (release_loop_frame c order x) as (_ & _ & I' & _); rewrite I' end. exact D.
    + destruct (get_pc (pcs s) t) as [| k f | | | | |]; try discriminate.
      destruct f; try discriminate; injection H as <-; cbn [with_pc with_waiters waiters idle].
      * rewrite W. split; [reflexivity|exact D].
      * split; assumption.
    + destruct (get_pc (pcs s) t); try discriminate. rewrite Hc in H. injection H as <-. split; assumption.
    + destruct (get_pc (pcs s) t); try discriminate. unfold release_acquired in H. rewrite Hc in H.
      injection H as <-. split; assumption.
    + destruct (get_pc (pcs s) t) as [| | | k cn | | |]; try discriminate. rewrite Hc in H. injection H as <-.
      split; assumption.
    + rewrite Hc in H. injection H as <-. split; assumption.
  - (* the connector was open: only EClose can make it closed *)
    destruct e as [t k|t order|t|t|t order|t cl order|]; cbn [step] in H;
      try (pose proof (step_closed c s _ s') as X).
    + exfalso. destruct (get_pc (pcs s) t); try discriminate.
      destruct (if connect_fast_path (avail c s k) then take_idle k (idle s) else None);
        [injection H as <-; rewrite proceed_closed in Hc'; congruence|].
      rewrite (start_tail_closed _ _ _ _ _ H) in Hc'. congruence.
    + exfalso. destruct (get_pc (pcs s) t) as [| k f | | | | |]; try discriminate. destruct f; try discriminate.
      * destruct (wait_slot_found _); [injection H as <-; rewrite proceed_closed in Hc'; cbn in Hc'; congruence|].
        rewrite (requeue_closed _ _ _ _ _ _ H) in Hc'. cbn in Hc'. congruence.
      * injection H as <-. cbn in Hc'. congruence.
      * destruct (release_waiter c _ order) as [s2|] eqn:Er; [|discriminate]. injection H as <-.
        apply release_waiter_closed in Er. cbn [with_pc closed with_woken] in *. congruence.
    + exfalso. destruct (get_pc (pcs s) t) as [| k f | | | | |]; try discriminate.
      destruct f; try discriminate; injection H as <-; cbn in Hc'; congruence.
    + exfalso. destruct (get_pc (pcs s) t); try discriminate. rewrite Hc in H. injection H as <-. cbn in Hc'. congruence.
    + exfalso. destruct (get_pc (pcs s) t); try discriminate.
      destruct (release_acquired c s (SPh t) order) as [s1|] eqn:Er; [|discriminate]. injection H as <-.
      apply release_acquired_closed in Er. cbn [with_pc closed] in Hc'. congruence.
    + exfalso. destruct (get_pc (pcs s) t) as [| | | k cn | | |]; try discriminate. rewrite Hc in H.
      destruct (release_acquired c s (SConn cn) order) as [s1|] eqn:Er; [|discriminate]. injection H as <-.
      apply release_acquired_closed in Er. destruct (force_close c || cl); cbn in Hc'; congruence.
    + rewrite Hc in H. injection H as <-. split; reflexivity.
Qed.

Lemma closed_inv_init : closed_inv init.
Proof. intro H. discriminate. Qed.

Lemma run_closed_inv c : forall tr s s', closed_inv s -> run c s tr = Some s' -> closed_inv s'.
Proof.
  induction tr as [|e r IH]; intros s s' I H; cbn [run] in H.
  - injection H as <-. exact I.
  - destruct (step c s e) as [s1|] eqn:Es; [|discriminate]. eapply IH; [|exact H]. eapply step_closed_inv; eauto.
Qed.

(* After close nobody is queued, in any trace: no request can queue (again) on a closed connector. *)
Lemma close_no_waiter c tr s :
  run c init tr = Some s -> closed s = true -> waiters s = [] /\ idle s = [].
Proof. intros H Hc. exact (run_closed_inv c tr init s closed_inv_init H Hc). Qed.

(* A request that had already been woken when the connector closed fails when it runs: either at once
   (no capacity: the closed connector refuses to queue it) or after its connection attempt, whose
   outcome on a closed connector is always failure (a connection that does arrive is closed). *)
Lemma woken_fails_after_close c tr s t k :
  run c init tr = Some s -> closed s = true -> get_pc (pcs s) t = PWaiting k FWoken ->
  forall order, exists s',
    step c s (EResume t order) = Some s' /\ closed s' = true /\
    (get_pc (pcs s') t = PFailed \/ get_pc (pcs s') t = PCreating k).
Proof.
  intros H Hc Ep order. destruct (close_no_waiter c tr s H Hc) as (_ & D).
  cbn [step]. rewrite Ep.
  set (s1 := with_woken s (filter (fun x => negb (x =? t)) (woken s))).
  destruct (wait_slot_found (avail c s1 k)).
  - eexists. split; [reflexivity|]. destruct (proceed_no_idle c s1 t k D) as (_ & _ & P).
    split; [rewrite proceed_closed; exact Hc|right; exact P].
  - unfold requeue. destruct (hand_on c s1 order) as [s2|] eqn:Eh.
    + destruct (hand_on_frame _ _ _ _ Eh) as (_ & _ & _ & D2 & _).
      assert (Hc2 : closed s2 = true) by (rewrite D2; exact Hc).
      rewrite (refuse_wait_closed s2 Hc2). eexists. split; [reflexivity|]. split; [exact Hc2|left].
      cbn [with_pc pcs]. apply get_set_same.
    + exfalso. unfold hand_on, release_waiter in Eh. destruct requeue_hands_on; [|discriminate].
      cbn [s1 with_woken waiters] in Eh. rewrite (proj1 (close_no_waiter c tr s H Hc)) in Eh. cbn in Eh. discriminate.
Qed.

Lemma creating_fails_after_close c s t k :
  closed s = true -> get_pc (pcs s) t = PCreating k ->
  (exists s', step c s (ECreateOk t) = Some s' /\ get_pc (pcs s') t = PFailed /\ In (nconn s) (closedc s')) /\
  (forall order, exists s', step c s (ECreateFail t order) = Some s' /\ get_pc (pcs s') t = PFailed).
Proof.
  intros Hc Ep. split.
  - cbn [step]. rewrite Ep, Hc. eexists. split; [reflexivity|]. cbn [with_pc with_closedc bump_conn pcs closedc].
    split; [apply get_set_same|left; reflexivity].
  - intro order. cbn [step]. rewrite Ep. unfold release_acquired. rewrite Hc. eexists. split; [reflexivity|].
    cbn [with_pc pcs]. apply get_set_same.
Qed.
