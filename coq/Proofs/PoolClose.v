(* C07 — what connector close does to the requests queued at that moment. *)
From AV Require Import Lib.Base Generated.PoolGen Model.Pool Proofs.PoolLimit Proofs.PoolCoh.
Open Scope N_scope.

Lemma close_fails_waiters c tr s s' t k :
  run c init tr = Some s -> closed s = false -> step c s EClose = Some s' ->
  In (t, k, false) (waiters s) ->
  closed s' = true /\ waiters s' = [] /\ acquired s' = [] /\
  get_pc (pcs s') t = PWaiting k FCancelled /\
  forall order, exists s'', step c s' (EResume t order) = Some s'' /\ get_pc (pcs s'') t = PCancelled.
Proof.
  intros H Hc Hs Hin. pose proof (run_coh c tr init s coh_init H) as (C1 & C2 & _).
  cbn [step] in Hs. rewrite Hc in Hs. injection Hs as <-. cbn [closed waiters acquired pcs].
  pose proof (cancel_all_entry (waiters s) (pcs s) t k C2 Hin) as E.
  repeat split; try reflexivity; [exact E|].
  intro order. cbn [step pcs]. rewrite E. eexists. split; [reflexivity|].
  cbn [with_pc with_waiters pcs]. apply get_set_same.
Qed.
