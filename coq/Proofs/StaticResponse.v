(* C15 — the whole file response is consistent: status, Content-Length, Content-Range and body *)
From Coq Require Import ZifyBool ZifyN.
From AV Require Import Lib.Base Generated.StaticGen Model.Static Model.StaticSpec Proofs.StaticRange.
Ltac Zify.zify_post_hook ::= Z.to_euclidean_division_equations.
Open Scope Z_scope.

Lemma send_body_exact is_head cs content first count :
  0 < cs -> 0 <= first -> 0 <= count -> first + count <= Z.of_N (lenN content) ->
  send_body is_head cs content first count = Some (if is_head then [] else slice content first count).
Proof.
  intros Hcs Hf Hc Hb. unfold send_body, zero_count_test.
  destruct (count =? 0) eqn:E.
  - cbn [orb]. assert (count = 0) by lia. subst count. unfold slice. change (Z.to_nat 0) with 0%nat.
    cbn [firstn]. destruct is_head; reflexivity.
  - cbn [orb]. destruct is_head; [reflexivity|].
    destruct (sendfile_fallback_exact cs content first count) as (l & H1 & H2 & _); try lia.
    rewrite H1, H2. reflexivity.
Qed.

Definition resp_ok (is_head : bool) (content : bytes) (range : option str) (r : response) : Prop :=
  let sz := Z.of_N (lenN content) in
  (r_status r = 200%N /\ r_length r = Some sz /\ r_range r = None /\
     r_body r = Some (if is_head then [] else content))
  \/ (exists st n, r_status r = 206%N /\ 0 <= st /\ 0 < n /\ st + n <= sz /\ r_length r = Some n /\
        r_range r = Some (cr_sat st n sz) /\ r_body r = Some (if is_head then [] else slice content st n) /\
        range <> None)
  \/ (r_status r = 416%N /\ r_length r = None /\ r_range r = Some (cr_unsat sz) /\ r_body r = Some [] /\ range <> None)
  \/ (r_status r = 304%N /\ r_length r = None /\ r_range r = None /\ r_body r = Some [])
  \/ (r_status r = 412%N /\ r_length r = Some 0 /\ r_range r = None /\ r_body r = Some []).

Lemma file_response_consistent is_head cs content mtime etagv ifm unm ifn ms ifr rng :
  0 < cs ->
  resp_ok is_head content rng (file_response is_head cs content mtime etagv ifm unm ifn ms ifr rng).
Proof.
  intro Hcs. unfold file_response, resp_ok.
  assert (Hsz : 0 <= Z.of_N (lenN content)) by lia.
  destruct (preconditions etagv mtime ifm unm ifn ms).
  - right; right; right; right. cbn. auto.
  - right; right; right; left. cbn. auto.
  - set (gate := match ifr with Some t => ifrange_test mtime t | None => true end).
    destruct (range_decision (Z.of_N (lenN content)) gate rng) as [cnt|st cnt cr|cr] eqn:E.
    + apply decision_200 in E as [-> _]. left. cbn [r_status r_length r_range r_body].
      rewrite send_body_exact by lia. rewrite slice_whole. auto.
    + pose proof E as E'. apply decision_206_bounds in E as (A & B & C & ->); [|assumption].
      right; left. exists st, cnt. cbn [r_status r_length r_range r_body].
      rewrite send_body_exact by lia. repeat split; try assumption; try reflexivity.
      intros ->. rewrite decision_no_header in E'. discriminate.
    + apply decision_416 in E as (-> & _ & Hn). right; right; left. cbn. auto.
Qed.

(* a range request that passes the preconditions and whose If-Range gate is open gets exactly the
   RFC slice (or 416), never the whole file *)
Lemma file_response_range_exact is_head cs content mtime etagv ifm unm ifn ms ifr d1 d2 :
  0 < cs -> all_digits d1 -> all_digits d2 ->
  (lenN d1 <= INT_MAX_STR_DIGITS)%N -> (lenN d2 <= INT_MAX_STR_DIGITS)%N ->
  preconditions etagv mtime ifm unm ifn ms = PC_send ->
  match ifr with Some t => ifrange_test mtime t | None => true end = true ->
  let sz := Z.of_N (lenN content) in
  let r := file_response is_head cs content mtime etagv ifm unm ifn ms ifr (Some (range_header d1 d2)) in
  match spec_of_groups d1 d2 with
  | Some rs =>
      match requested_slice sz rs with
      | Some (st, n) => r_status r = 206%N /\ r_length r = Some n /\ r_range r = Some (cr_sat st n sz) /\
                        r_body r = Some (if is_head then [] else slice content st n)
      | None => r_status r = 416%N /\ r_range r = Some (cr_unsat sz) /\ r_body r = Some []
      end
  | None => r_status r = 416%N /\ r_range r = Some (cr_unsat sz) /\ r_body r = Some []
  end.
Proof.
  intros Hcs H1 H2 L1 L2 Hp Hg sz r. subst r. unfold file_response. rewrite Hp, Hg.
  fold sz. assert (Hsz : 0 <= sz) by (unfold sz; lia).
  pose proof (decision_exact sz d1 d2 Hsz H1 H2 L1 L2) as D. unfold expected_decision in D.
  destruct (spec_of_groups d1 d2) as [rs|]; [|rewrite D; cbn; auto].
  destruct (requested_slice sz rs) as [[st n]|]; [|rewrite D; cbn; auto].
  pose proof (decision_206_bounds _ _ _ _ _ _ Hsz D) as (A & B & C & _).
  rewrite D. cbn [r_status r_length r_range r_body].
  rewrite send_body_exact by (unfold sz in *; lia). auto.
Qed.
