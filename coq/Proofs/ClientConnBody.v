(* C06 — unconditional "no mixing" for heads and body items: everything handed to a caller arrived while that
   caller's own exchange held the connection, for every trace. *)
From AV Require Import Lib.Base Generated.ClientConnGen Model.ClientConn Proofs.ClientConnBase Proofs.ClientConnStruct
  Proofs.ClientConnTagsDef Proofs.ClientConnCore Proofs.ClientConnTagsA Proofs.ClientConnTagsB Proofs.ClientConnHeads.
Open Scope N_scope.

Definition tagged (s : state) (pid : N) (t : tag) : Prop :=
  p_tag (s_pay s pid) = t /\ Forall (fun it : N * tag => snd it = t) (p_items (s_pay s pid)).

Definition bmsg (s : state) (c : N) (t : tag) (m : msg) : Prop :=
  m_tag m = t /\ forall pid, m_pay m = Some pid -> pid < s_npay s /\ p_conn (s_pay s pid) = c /\ tagged s pid t.

Definition bconn (s : state) (c : N) : Prop :=
  forall e, c_phase (s_conn s c) = PFlight e ->
    Forall (bmsg s c (TFlight e)) (c_buf (s_conn s c)) /\ Forall (fun p => snd p = TFlight e) (c_htail (s_conn s c)).

Definition bseg (s : state) (g : seg) : Prop :=
  forall e, c_phase (s_conn s (g_c g)) = PFlight e ->
    g_tag g = TFlight e /\ Forall (bmsg s (g_c g) (g_tag g)) (g_msgs g) /\
    Forall (fun p => snd p = g_tag g) (g_rest g) /\ Forall (fun p => snd p = g_tag g) (g_queue g).

Record BCore (s : state) : Prop := {
  bd_log : Forall well_tagged (s_log s);
  bd_x : forall e pid, x_st (s_x s e) = XHead -> x_pay (s_x s e) = Some pid ->
           pid < s_npay s /\ tagged s pid (TFlight e);
  bd_feed : forall e pid c rem, x_st (s_x s e) = XHead -> x_pay (s_x s e) = Some pid ->
           c_pst (s_conn s c) = PSBody pid rem -> x_held (s_x s e) = true /\ x_conn (s_x s e) = c;
  bd_conn : forall c, bconn s c;
  bd_pst : forall c pid rem, c_pst (s_conn s c) = PSBody pid rem ->
           pid < s_npay s /\ p_conn (s_pay s pid) = c /\ p_eof (s_pay s pid) = false;
  bd_cb : forall pid e, p_cb (s_pay s pid) = Some e ->
          (x_st (s_x s e) = XHead \/ x_st (s_x s e) = XDone) /\ x_pay (s_x s e) = Some pid
}.

Definition Body (s : state) : Prop := BCore s /\ forall g, s_seg s = Some g -> bseg s g.

Lemma body_init : Body init.
Proof. split; [split; cbn; try constructor; try discriminate|cbn; discriminate]. Qed.

(* payload table: tags, creators and items of existing payloads unchanged; callbacks only cleared *)
Definition pay_soft (s s' : state) : Prop :=
  s_npay s' = s_npay s /\
  forall pid, p_tag (s_pay s' pid) = p_tag (s_pay s pid) /\ p_conn (s_pay s' pid) = p_conn (s_pay s pid) /\
              p_items (s_pay s' pid) = p_items (s_pay s pid) /\ p_eof (s_pay s' pid) = p_eof (s_pay s pid) /\
              (p_cb (s_pay s' pid) = p_cb (s_pay s pid) \/ p_cb (s_pay s' pid) = None).

Lemma pay_soft_refl s s' : s_npay s' = s_npay s -> s_pay s' = s_pay s -> pay_soft s s'.
Proof. intros H1 H2. split; [exact H1|]. intros pid. rewrite H2. repeat split. now left. Qed.

Lemma tagged_soft s s' pid t : pay_soft s s' -> tagged s pid t -> tagged s' pid t.
Proof. intros [_ H] [T1 T2]. destruct (H pid) as (E1 & _ & E3 & _). split; [now rewrite E1|now rewrite E3]. Qed.

Lemma bmsg_soft s s' c t m : pay_soft s s' -> bmsg s c t m -> bmsg s' c t m.
Proof.
  intros P [M1 M2]. split; [exact M1|]. intros pid Hp. destruct (M2 pid Hp) as (A & B & C).
  destruct P as [Pn Pp]. destruct (Pp pid) as (_ & E2 & _). split; [now rewrite Pn|split; [now rewrite E2|]].
  apply (tagged_soft s s'); [now split|exact C].
Qed.

(* a connection keeps its parser state, and either is not held any more or keeps the fields we read *)
Definition conn_le2 (cn cn' : conn) : Prop := c_pst cn' = c_pst cn /\ conn_le cn cn'.

Lemma conn_le2_refl cn : conn_le2 cn cn.
Proof. split; [reflexivity|apply conn_le_refl]. Qed.

Lemma conn_le2_trans a b c : conn_le2 a b -> conn_le2 b c -> conn_le2 a c.
Proof. intros [A1 A2] [B1 B2]. split; [congruence|eapply conn_le_trans; eauto]. Qed.

(* generic transfer *)
Lemma bcore_transfer s s' :
  BCore s -> s_log s' = s_log s -> s_x s' = s_x s -> pay_soft s s' ->
  (forall c, conn_le2 (s_conn s c) (s_conn s' c)) -> BCore s'.
Proof.
  intros [A B C D E G] Hl Hx P Hc. pose proof P as [Pn Pp].
  split.
  - now rewrite Hl.
  - intros e pid H1 H2. rewrite Hx in *. destruct (B e pid H1 H2) as [B1 B2]. split; [now rewrite Pn|now apply (tagged_soft s s')].
  - intros e pid c rem H1 H2 H3. rewrite Hx in *. destruct (Hc c) as [X _]. rewrite X in H3. now apply (C e pid c rem).
  - intros c e He. destruct (Hc c) as [_ [X|(X1 & X2 & X3)]]; [now destruct (X e)|].
    rewrite X1 in He. destruct (D c e He) as [Y1 Y2]. rewrite X2, X3. split; [|exact Y2].
    eapply Forall_impl; [|exact Y1]. intros m. now apply bmsg_soft.
  - intros c pid rem H. destruct (Hc c) as [X _]. rewrite X in H. destruct (E c pid rem H) as (E1 & E2 & E3).
    destruct (Pp pid) as (_ & Q2 & _ & Q4 & _). repeat split; [now rewrite Pn|now rewrite Q2|now rewrite Q4].
  - intros pid e H. rewrite Hx. destruct (Pp pid) as (_ & _ & _ & _ & [Q|Q]); [rewrite Q in H; now apply G|congruence].
Qed.

Lemma bseg_transfer s s' g :
  pay_soft s s' -> conn_le (s_conn s (g_c g)) (s_conn s' (g_c g)) -> bseg s g -> bseg s' g.
Proof.
  intros P [X|(X1 & X2 & X3)] H e He; [now destruct (X e)|].
  rewrite X1 in He. destruct (H e He) as (Y1 & Y2 & Y3 & Y4). repeat split; try assumption.
  eapply Forall_impl; [|exact Y2]. intros m. now apply bmsg_soft.
Qed.

Section BodyStep.
Variable cf : cfg.

Lemma release_conn_le2 s c arg c' : conn_le2 (s_conn s c') (s_conn (release_conn cf s c arg) c').
Proof.
  split; [|apply release_conn_le].
  destruct (release_conn_spec cf s c arg c') as [E|[(_ & _ & E & _)|(_ & _ & E & _)]]; [now rewrite E|exact E|exact E].
Qed.

Lemma body_release s c arg : BCore s -> BCore (release_conn cf s c arg).
Proof.
  intros H. destruct (release_conn_frame cf s c arg) as (F1 & F2 & F3 & F4 & F5).
  eapply bcore_transfer; [exact H|exact F5|exact F3|now apply pay_soft_refl|]. intros c'. apply release_conn_le2.
Qed.

Lemma pay_soft_set s pid pl :
  BCore s -> p_tag pl = p_tag (s_pay s pid) -> p_conn pl = p_conn (s_pay s pid) -> p_items pl = p_items (s_pay s pid) ->
  p_eof pl = p_eof (s_pay s pid) -> (p_cb pl = None \/ p_cb pl = p_cb (s_pay s pid)) -> pay_soft s (set_payl s pid pl).
Proof.
  intros H H1 H2 H3 H4 H5.
  split; [reflexivity|]. intros pid'. cbn. destruct (upd_cases (s_pay s) pid pl pid') as [[-> E]|[_ E]]; rewrite E; repeat split; auto.
  destruct H5; [now right|now left].
Qed.

Lemma body_set_exch s e x' :
  BCore s -> x_pay x' = x_pay (s_x s e) -> (x_st x' = XHead -> x_st (s_x s e) = XHead) ->
  (x_st (s_x s e) = XHead \/ x_st (s_x s e) = XDone -> x_st x' = XHead \/ x_st x' = XDone) ->
  (x_st x' = XHead -> (x_held x' = x_held (s_x s e) /\ x_conn x' = x_conn (s_x s e)) \/
                      (forall pid, x_pay x' = Some pid -> p_eof (s_pay s pid) = true)) ->
  BCore (set_exch s e x').
Proof.
  intros [A B C D E G] Hp Hst Hst2 Hh. split; cbn; try assumption.
  - intros e' pid. destruct (upd_cases (s_x s) e x' e') as [[-> X]|[_ X]]; rewrite X; [|apply B].
    intros H1 H2. apply B; [now apply Hst|congruence].
  - intros e' pid c rem. destruct (upd_cases (s_x s) e x' e') as [[-> X]|[_ X]]; rewrite X; [|apply C].
    intros H1 H2 H3. destruct (Hh H1) as [[Y1 Y2]|Y].
    + rewrite Y1, Y2. apply (C e pid c rem); [now apply Hst|congruence|exact H3].
    + destruct (E c pid rem H3) as (_ & _ & E3). rewrite (Y pid H2) in E3. discriminate.
  - intros pid e' H. destruct (G pid e' H) as [G1 G2].
    destruct (upd_cases (s_x s) e x' e') as [[-> X]|[_ X]]; rewrite X; [|now split]. split; [now apply Hst2|congruence].
Qed.

Lemma body_response_eof s e :
  BCore s -> (x_st (s_x s e) = XHead -> forall pid, x_pay (s_x s e) = Some pid -> p_eof (s_pay s pid) = true) ->
  BCore (response_eof cf s e).
Proof.
  intros H He. unfold response_eof. destruct (response_eof_releases_gen _ _); [|exact H].
  assert (H1 : BCore (set_exch s e (set_x_held (set_x_closed (s_x s e) true) false))).
  { apply body_set_exch; [exact H|reflexivity|cbn; tauto|cbn; tauto|]. cbn. intros Hx. right. now apply He. }
  destruct (x_held (s_x s e)); [now apply body_release|exact H1].
Qed.

Lemma body_log_items s e pid :
  BCore s -> x_st (s_x s e) = XHead -> x_pay (s_x s e) = Some pid ->
  BCore (set_s_log s (s_log s ++ log_items e (p_items (s_pay s pid)))).
Proof.
  intros H H1 H2. destruct (bd_x s H e pid H1 H2) as [_ [T1 T2]].
  pose proof H as [A B C D E G]. split; cbn; try assumption.
  apply Forall_app. split; [exact A|]. eapply log_items_tagged; [exact T2|reflexivity].
Qed.


(* body bytes fed to the payload the parser of connection c is in *)
Lemma bcore_feed s c pid rem id tg (done : bool) pst' :
  Struct s -> BCore s -> c_pst (s_conn s c) = PSBody pid rem ->
  (forall e, c_phase (s_conn s c) = PFlight e -> tg = TFlight e) ->
  (done = false -> exists rem', pst' = PSBody pid rem') -> (done = true -> pst' = PSHead) ->
  let pl := set_p_items (s_pay s pid) (p_items (s_pay s pid) ++ [(id, tg)]) in
  let pl' := if done then set_p_cb (set_p_eof pl true) None else pl in
  let s' := set_conn (set_payl s pid pl') c (set_c_pst (s_conn s c) pst') in
  BCore s' /\ (forall g, g_c g = c -> bseg s g -> bseg s' g).
Proof.
  intros S [A B C D E G] Hp Htg Hnd Hd pl pl' s'.
  destruct (E c pid rem Hp) as (P1 & P2 & P3).
  assert (Epl : p_tag pl' = p_tag (s_pay s pid) /\ p_conn pl' = p_conn (s_pay s pid) /\
                p_items pl' = p_items (s_pay s pid) ++ [(id, tg)] /\ p_eof pl' = done /\
                (p_cb pl' = None \/ p_cb pl' = p_cb (s_pay s pid))).
  { subst pl' pl. destruct done; cbn; repeat split; auto. }
  destruct Epl as (Q1 & Q2 & Q3 & Q4 & Q5).
  assert (Ht : forall pid' t, tagged s pid' t -> (pid' = pid -> tg = t) -> tagged s' pid' t).
  { intros pid' t [T1 T2] Heq. unfold tagged. subst s'. cbn.
    destruct (upd_cases (s_pay s) pid pl' pid') as [[-> X]|[_ X]]; rewrite X; [|now split].
    rewrite Q1, Q3. split; [exact T1|]. apply Forall_app. split; [exact T2|]. constructor; [|constructor]. cbn. now apply Heq. }
  assert (Hm : forall c2 e2 m, c_phase (s_conn s c2) = PFlight e2 -> bmsg s c2 (TFlight e2) m -> bmsg s' c2 (TFlight e2) m).
  { intros c2 e2 m Hph [M1 M2]. split; [exact M1|]. intros pid' Hpm. destruct (M2 pid' Hpm) as (X1 & X2 & X3).
    split; [exact X1|]. split.
    - subst s'. cbn. destruct (upd_cases (s_pay s) pid pl' pid') as [[-> X]|[_ X]]; rewrite X; [now rewrite Q2|exact X2].
    - apply Ht; [exact X3|]. intros ->. apply Htg. assert (Hcc : c2 = c) by congruence. rewrite <- Hcc. exact Hph. }
  split; [split|].
  - exact A.
  - intros e pid' H1 H2. cbn in H1, H2. destruct (B e pid' H1 H2) as [B1 B2]. split; [exact B1|].
    apply Ht; [exact B2|]. intros ->. destruct (C e pid c rem H1 H2 Hp) as [Y1 Y2].
    apply Htg. rewrite <- Y2. now apply (st_held s S).
  - intros e pid' c' rem' H1 H2 H3. cbn in H1, H2, H3.
    destruct (upd_cases (s_conn s) c (set_c_pst (s_conn s c) pst') c') as [[-> X]|[_ X]]; rewrite X in H3; [|now apply (C e pid' c' rem')].
    cbn in H3. destruct done; [rewrite (Hd eq_refl) in H3; discriminate|].
    destruct (Hnd eq_refl) as [r' ->]. injection H3 as <- <-. now apply (C e pid c rem).
  - intros c2 e2 He. cbn in He.
    assert (He' : c_phase (s_conn s c2) = PFlight e2).
    { destruct (upd_cases (s_conn s) c (set_c_pst (s_conn s c) pst') c2) as [[-> X]|[_ X]]; rewrite X in He; exact He. }
    destruct (D c2 e2 He') as [Y1 Y2].
    assert (Hf : c_buf (s_conn s' c2) = c_buf (s_conn s c2) /\ c_htail (s_conn s' c2) = c_htail (s_conn s c2)).
    { subst s'. cbn. destruct (upd_cases (s_conn s) c (set_c_pst (s_conn s c) pst') c2) as [[-> X]|[_ X]]; rewrite X; now split. }
    destruct Hf as [F1 F2]. rewrite F1, F2. split; [|exact Y2].
    eapply Forall_impl; [|exact Y1]. intros m. now apply Hm.
  - intros c' pid' rem' H3. cbn in H3.
    destruct (upd_cases (s_conn s) c (set_c_pst (s_conn s c) pst') c') as [[-> X]|[Hne X]]; rewrite X in H3.
    + cbn in H3. destruct done; [rewrite (Hd eq_refl) in H3; discriminate|].
      destruct (Hnd eq_refl) as [r' ->]. injection H3 as <- <-. cbn. rewrite upd_same. now rewrite Q2, Q4.
    + destruct (E c' pid' rem' H3) as (Y1 & Y2 & Y3). cbn.
      destruct (upd_cases (s_pay s) pid pl' pid') as [[-> Z]|[_ Z]]; rewrite Z; [exfalso; congruence|now repeat split].
  - intros pid' e H. cbn in H |- *.
    destruct (upd_cases (s_pay s) pid pl' pid') as [[-> Z]|[_ Z]]; rewrite Z in H; [|now apply G].
    destruct Q5 as [Q5|Q5]; rewrite Q5 in H; [discriminate|now apply G].
  - intros g Hg HG e He. assert (He' : c_phase (s_conn s (g_c g)) = PFlight e).
    { rewrite Hg in He |- *. unfold s' in He. cbn in He. rewrite upd_same in He. exact He. }
    destruct (HG e He') as (Y1 & Y2 & Y3 & Y4). repeat split; try assumption.
    eapply Forall_impl; [|exact Y2]. intros m. rewrite Y1. apply Hm. exact He'.
Qed.


(* a head announcing a body: fresh payload, parser enters the body state *)
Lemma bcore_newpay s c cn' blen tg :
  BCore s -> c_phase cn' = c_phase (s_conn s c) -> c_buf cn' = c_buf (s_conn s c) -> c_htail cn' = c_htail (s_conn s c) ->
  c_pst cn' = PSBody (s_npay s) blen ->
  let pid := s_npay s in
  let pl := {| p_tag := tg; p_conn := c; p_items := []; p_eof := false; p_exc := false; p_cb := None |} in
  let s' := set_conn (set_s_npay (set_payl s pid pl) (pid + 1)) c cn' in
  BCore s' /\ (forall g, g_c g = c -> bseg s g -> bseg s' g) /\
  (forall m, m_tag m = tg -> m_pay m = Some pid -> bmsg s' c tg m).
Proof.
  intros [A B C D E G] H1 H2 H3 H4 pid pl s'.
  assert (Hold : forall pid', pid' < pid -> s_pay s' pid' = s_pay s pid').
  { intros pid' Hlt. subst s'. cbn. apply upd_other. lia. }
  assert (Ht : forall pid' t, pid' < pid -> tagged s pid' t -> tagged s' pid' t).
  { intros pid' t Hlt [T1 T2]. unfold tagged. rewrite (Hold pid' Hlt). now split. }
  assert (Hm : forall c2 t m, bmsg s c2 t m -> bmsg s' c2 t m).
  { intros c2 t m [M1 M2]. split; [exact M1|]. intros pid' Hp. destruct (M2 pid' Hp) as (X1 & X2 & X3).
    split; [subst s'; cbn; fold pid; lia|]. split; [rewrite (Hold pid' X1); exact X2|now apply Ht]. }
  split; [split|split].
  - exact A.
  - intros e pid' X1 X2. cbn in X1, X2. destruct (B e pid' X1 X2) as [B1 B2]. split; [subst s'; cbn; fold pid; lia|now apply Ht].
  - intros e pid' c' rem' X1 X2 X3. cbn in X1, X2, X3.
    destruct (upd_cases (s_conn s) c cn' c') as [[-> X]|[_ X]]; rewrite X in X3; [|now apply (C e pid' c' rem')].
    rewrite H4 in X3. injection X3 as <- <-. destruct (B e pid X1 X2) as [B1 _]. unfold pid in B1. lia.
  - intros c2 e2 He. cbn in He.
    destruct (upd_cases (s_conn s) c cn' c2) as [[-> X]|[_ X]]; rewrite X in He.
    + rewrite H1 in He. destruct (D c e2 He) as [Y1 Y2]. subst s'. cbn. rewrite upd_same, H2, H3. split; [|exact Y2].
      eapply Forall_impl; [|exact Y1]. intros m. apply Hm.
    + destruct (D c2 e2 He) as [Y1 Y2]. subst s'. cbn. rewrite X. split; [|exact Y2].
      eapply Forall_impl; [|exact Y1]. intros m. apply Hm.
  - intros c' pid' rem' X3. cbn in X3.
    destruct (upd_cases (s_conn s) c cn' c') as [[-> X]|[_ X]]; rewrite X in X3.
    + rewrite H4 in X3. injection X3 as <- <-. subst s'. cbn. rewrite upd_same. cbn. repeat split. fold pid. lia.
    + destruct (E c' pid' rem' X3) as (Y1 & Y2 & Y3). rewrite (Hold pid' Y1). repeat split; try assumption. subst s'. cbn. fold pid. lia.
  - intros pid' e X. subst s'. cbn in X |- *.
    destruct (upd_cases (s_pay s) pid pl pid') as [[-> Z]|[_ Z]]; rewrite Z in X; [discriminate|now apply G].
  - intros g Hg HG e He. assert (He' : c_phase (s_conn s (g_c g)) = PFlight e).
    { rewrite Hg in He |- *. unfold s' in He. cbn in He. rewrite upd_same in He. congruence. }
    destruct (HG e He') as (Y1 & Y2 & Y3 & Y4). repeat split; try assumption.
    eapply Forall_impl; [|exact Y2]. intros m. apply Hm.
  - intros m M1 M2. split; [exact M1|]. intros pid' Hp. rewrite M2 in Hp. injection Hp as <-.
    subst s'. unfold tagged. cbn. rewrite upd_same. cbn. repeat split; [fold pid; lia|constructor].
Qed.


(* one connection changes, its parser state does not *)
Lemma bcore_set_conn s c cn' :
  BCore s -> (c_pst cn' = c_pst (s_conn s c) \/ c_pst cn' = PSHead) ->
  (forall e, c_phase cn' = PFlight e ->
     Forall (bmsg s c (TFlight e)) (c_buf cn') /\ Forall (fun p => snd p = TFlight e) (c_htail cn')) ->
  BCore (set_conn s c cn').
Proof.
  intros [A B C D E G] Hp Hc. split; cbn; try assumption.
  - intros e pid c' rem H1 H2 H3. destruct (upd_cases (s_conn s) c cn' c') as [[-> X]|[_ X]]; rewrite X in H3;
      [destruct Hp as [Hp|Hp]; rewrite Hp in H3; [|discriminate]|]; exact (C e pid _ rem H1 H2 H3).
  - intros c' e He. cbn in He |- *. destruct (upd_cases (s_conn s) c cn' c') as [[-> X]|[_ X]]; rewrite X in He |- *; [now apply Hc|now apply D].
  - intros c' pid rem H3. destruct (upd_cases (s_conn s) c cn' c') as [[-> X]|[_ X]]; rewrite X in H3;
      [destruct Hp as [Hp|Hp]; rewrite Hp in H3; [|discriminate]|]; exact (E _ pid rem H3).
Qed.

Lemma bcore_same_fields s c cn' :
  BCore s -> c_pst cn' = c_pst (s_conn s c) -> c_phase cn' = c_phase (s_conn s c) ->
  c_buf cn' = c_buf (s_conn s c) -> c_htail cn' = c_htail (s_conn s c) -> BCore (set_conn s c cn').
Proof.
  intros H H1 H2 H3 H4. apply bcore_set_conn; [exact H|now left|]. intros e He. rewrite H3, H4. apply (bd_conn s H c). congruence.
Qed.

Lemma bseg_same_fields s c cn' g :
  c_phase cn' = c_phase (s_conn s c) -> bseg s g -> bseg (set_conn s c cn') g.
Proof.
  intros H1 HG e He. cbn in He. apply HG.
  destruct (upd_cases (s_conn s) c cn' (g_c g)) as [[Eq X]|[_ X]]; rewrite X in He; [rewrite Eq; congruence|exact He].
Qed.

Lemma bcore_flag s s' :
  s_conn s' = s_conn s -> s_pay s' = s_pay s -> s_npay s' = s_npay s -> s_log s' = s_log s -> s_x s' = s_x s ->
  BCore s -> BCore s'.
Proof.
  intros H1 H2 H3 H4 H5 H. apply (bcore_transfer s s'); [exact H|exact H4|exact H5|now apply pay_soft_refl|].
  intros c. rewrite H1. apply conn_le2_refl.
Qed.

Lemma bseg_flag s s' g : s_conn s' = s_conn s -> s_pay s' = s_pay s -> s_npay s' = s_npay s -> bseg s g -> bseg s' g.
Proof.
  intros H1 H2 H3 H. apply (bseg_transfer s s' g); [now apply pay_soft_refl| |exact H]. rewrite H1. apply conn_le_refl.
Qed.

Lemma surplus_tail_body s cn g : BCore s -> bseg s g -> BCore (surplus_tail s cn) /\ bseg (surplus_tail s cn) g.
Proof.
  intros H HG. unfold surplus_tail. destruct (prog_done _); [|now split].
  split; [eapply bcore_flag; [| | | | |exact H]; reflexivity|eapply bseg_flag; [| | |exact HG]; reflexivity].
Qed.

Lemma response_eof_soft s e : pay_soft s (response_eof cf s e).
Proof. destruct (response_eof_frame cf s e) as (F1 & F2 & _). now apply pay_soft_refl. Qed.

Lemma bmsg_nopay s c t m : m_tag m = t -> m_pay m = None -> bmsg s c t m.
Proof. intros H1 H2. split; [exact H1|]. intros pid Hp. congruence. Qed.

Lemma body_proc_tok s g0 g' tk tg s1 g1 :
  Struct s -> BCore s -> s_seg s = Some g0 -> g_c g' = g_c g0 -> bseg s g' ->
  (forall e, c_phase (s_conn s (g_c g0)) = PFlight e -> tg = g_tag g') ->
  proc_tok cf s g' tk tg = Some (s1, g1) ->
  BCore s1 /\ bseg s1 g1 /\ g_c g1 = g_c g0.
Proof.
  intros S H Hs Gc HG Htg Hp. set (c := g_c g0) in *.
  assert (Htg' : forall e, c_phase (s_conn s c) = PFlight e -> tg = TFlight e).
  { intros e He. rewrite (Htg e He). assert (He' : c_phase (s_conn s (g_c g')) = PFlight e) by (rewrite Gc; exact He). now destruct (HG e He'). }
  assert (HGc : forall e, c_phase (s_conn s c) = PFlight e ->
            g_tag g' = TFlight e /\ Forall (bmsg s c (g_tag g')) (g_msgs g') /\
            Forall (fun p => snd p = g_tag g') (g_rest g') /\ Forall (fun p => snd p = g_tag g') (g_queue g')).
  { intros e He. assert (He' : c_phase (s_conn s (g_c g')) = PFlight e) by (rewrite Gc; exact He).
    destruct (HG e He') as (Y1 & Y2 & Y3 & Y4). rewrite Gc in Y2. now repeat split. }
  unfold proc_tok in Hp. rewrite Gc in Hp. fold c in Hp.
  destruct (g_err g'); [inv_some; split; [exact H|split; [exact HG|exact Gc]]|].
  destruct (g_stash g').
  { inv_some. split; [|split; [now apply bseg_same_fields|exact Gc]].
    apply bcore_set_conn; [exact H|now left|]. cbn. intros e He. destruct (bd_conn s H c e He) as [X1 X2].
    split; [exact X1|]. apply Forall_app. split; [exact X2|]. constructor; [|constructor]. cbn. now apply Htg'. }
  destruct (c_pupg (s_conn s c)).
  { inv_some. split; [exact H|split; [|exact Gc]]. intros e He. cbn in He. rewrite Gc in He. fold c in He.
    destruct (HGc e He) as (Y1 & Y2 & Y3 & Y4). cbn. rewrite Gc. fold c. repeat split; try assumption.
    apply Forall_app. split; [exact Y3|]. constructor; [|constructor]. cbn. exact (Htg e He). }
  (* the two ways the segment record can grow *)
  assert (Hseg_same : forall s', pay_soft s s' -> conn_le (s_conn s c) (s_conn s' c) -> bseg s' g').
  { intros s' P L. eapply bseg_transfer; [exact P|rewrite Gc; exact L|exact HG]. }
  unfold parse_tok in Hp. rewrite Gc in Hp. fold c in Hp.
  destruct (c_pst (s_conn s c)) as [|pid rem] eqn:Ep; destruct tk as [id blen cl up|id n|id|id]; try discriminate.
  - destruct (c_ptail _ || c_psc _).
    { unfold parse_error in Hp. rewrite Gc in Hp. fold c in Hp. inv_some. split; [now apply bcore_same_fields|split; [|exact Gc]].
      intros e He. cbn in He. rewrite Gc, upd_same in He. cbn in He. destruct (HGc e He) as (Y1 & Y2 & Y3 & Y4).
      cbn. rewrite Gc. repeat split; try assumption. constructor. }
    destruct up.
    { inv_some. split; [now apply bcore_same_fields|split; [|exact Gc]].
      intros e He. cbn in He. rewrite Gc, upd_same in He. cbn in He. destruct (HGc e He) as (Y1 & Y2 & Y3 & Y4).
      cbn. rewrite Gc. fold c. repeat split; try assumption. apply Forall_app. split; [exact Y2|].
      constructor; [|constructor]. apply bmsg_nopay; [exact (Htg e He)|reflexivity]. }
    destruct (blen =? 0).
    { inv_some. split; [now apply bcore_same_fields|split; [|exact Gc]].
      intros e He. cbn in He. rewrite Gc, upd_same in He. cbn in He. destruct (HGc e He) as (Y1 & Y2 & Y3 & Y4).
      cbn. rewrite Gc. fold c. repeat split; try assumption. apply Forall_app. split; [exact Y2|].
      constructor; [|constructor]. apply bmsg_nopay; [exact (Htg e He)|reflexivity]. }
    inv_some.
    destruct (bcore_newpay s c (set_c_pst (set_c_psc (s_conn s c) cl) (PSBody (s_npay s) blen)) blen tg H eq_refl eq_refl eq_refl eq_refl)
      as (N1 & N2 & N3).
    split; [exact N1|split; [|exact Gc]].
    intros e He. cbn in He. rewrite Gc, upd_same in He. cbn in He.
    assert (HG' := N2 g' Gc HG).
    assert (He' : c_phase (s_conn (set_conn (set_s_npay (set_payl s (s_npay s) {| p_tag := tg; p_conn := c; p_items := []; p_eof := false; p_exc := false; p_cb := None |}) (s_npay s + 1)) c (set_c_pst (set_c_psc (s_conn s c) cl) (PSBody (s_npay s) blen))) (g_c g')) = PFlight e).
    { rewrite Gc. cbn. rewrite upd_same. exact He. }
    destruct (HG' e He') as (Y1 & Y2 & Y3 & Y4). cbn. repeat split; try assumption.
    apply Forall_app. split; [exact Y2|]. constructor; [|constructor]. rewrite Gc. rewrite <- (Htg e He).
    apply N3; reflexivity.
  - inv_some. destruct (surplus_tail_body (set_conn s c (set_c_ptail (s_conn s c) true)) (s_conn s c) g') as [T1 T2];
      [now apply bcore_same_fields|now apply bseg_same_fields|]. split; [exact T1|split; [exact T2|exact Gc]].
  - unfold parse_error in Hp. rewrite Gc in Hp. fold c in Hp. inv_some. split; [now apply bcore_same_fields|split; [|exact Gc]].
    intros e He. cbn in He. rewrite Gc, upd_same in He. cbn in He. destruct (HGc e He) as (Y1 & Y2 & Y3 & Y4).
    cbn. rewrite Gc. repeat split; try assumption. constructor.
  - inv_some. destruct (surplus_tail_body (set_conn s c (set_c_ptail (s_conn s c) true)) (s_conn s c) g') as [T1 T2];
      [now apply bcore_same_fields|now apply bseg_same_fields|]. split; [exact T1|split; [exact T2|exact Gc]].
  - destruct (n <? rem).
    + inv_some. destruct (bcore_feed s c pid rem id tg false (PSBody pid (rem - n)) S H Ep Htg') as [F1 F2];
        [intros _; now eexists|discriminate|]. split; [exact F1|split; [now apply F2|exact Gc]].
    + inv_some. destruct (bcore_feed s c pid rem id tg true PSHead S H Ep Htg') as [F1 F2]; [discriminate|reflexivity|].
      cbv zeta in F1, F2.
      match goal with |- BCore (if _ then surplus_tail (set_conn ?t _ _) _ else _) /\ _ => set (s3 := t) end.
      match type of F1 with BCore ?t => set (s2 := t) in * end.
      assert (L3 : BCore s3 /\ bseg s3 g').
      { subst s3. cbn [p_cb set_p_items]. destruct (p_cb (s_pay s pid)) as [e1|] eqn:Ecb; [|split; [exact F1|now apply F2]].
        split.
        - apply body_response_eof; [exact F1|]. intros _ pid' Hx.
          assert (Hx' : x_pay (s_x s e1) = Some pid') by exact Hx.
          destruct (bd_cb s H pid e1 Ecb) as [_ Hcb]. rewrite Hcb in Hx'. injection Hx' as <-. subst s2. cbn. now rewrite upd_same.
        - eapply bseg_transfer; [apply response_eof_soft|apply response_eof_le|now apply F2]. }
      destruct L3 as [L3a L3b].
      destruct (rem <? n); [|split; [exact L3a|split; [exact L3b|exact Gc]]].
      destruct (surplus_tail_body (set_conn s3 c (set_c_ptail (s_conn s3 c) true)) (s_conn s c) g') as [T1 T2];
        [now apply bcore_same_fields|now apply bseg_same_fields|]. split; [exact T1|split; [exact T2|exact Gc]].
Qed.

End BodyStep.

Section BodyStep2.
Variable cf : cfg.

Lemma pool_get_le2 key : forall pool s kept s1 got,
  pool_get cf s key pool kept = (s1, got) ->
  s_log s1 = s_log s /\ s_seg s1 = s_seg s /\ s_x s1 = s_x s /\ s_pay s1 = s_pay s /\ s_npay s1 = s_npay s /\
  (forall c, conn_le2 (s_conn s c) (s_conn s1 c)) /\
  (forall c, got = Some c -> reusable cf s1 (s_conn s1 c) = true).
Proof.
  induction pool as [|c0 rest IH]; intros s kept s1 got H; cbn [pool_get] in H.
  - inv_some. refine (conj eq_refl (conj eq_refl (conj eq_refl (conj eq_refl (conj eq_refl (conj _ _)))))); [intros c; apply conn_le2_refl|intros c Hc; discriminate].
  - destruct (list_eqb _ _); [|eapply IH; eauto].
    destruct (reusable cf s (s_conn s c0)) eqn:Er.
    + injection H as <- <-. refine (conj eq_refl (conj eq_refl (conj eq_refl (conj eq_refl (conj eq_refl (conj _ _)))))); [intros c; apply conn_le2_refl|]. intros c Hc. injection Hc as <-. exact Er.
    + destruct (IH _ _ _ _ H) as (H1 & H2 & H3 & H4 & H5 & H6 & H7). refine (conj H1 (conj H2 (conj H3 (conj H4 (conj H5 (conj _ H7)))))).
      intros c. eapply conn_le2_trans; [|apply H6]. cbn.
      destruct (upd_cases (s_conn s) c0 (close_proto (s_conn s c0)) c) as [[-> E']|[_ E']]; rewrite E'; [|apply conn_le2_refl].
      split; [reflexivity|left; intros e; discriminate].
Qed.

Lemma body_noseg s : BCore s -> s_seg s = None -> Body s.
Proof. intros H Hs. split; [exact H|intros g Hg; congruence]. Qed.

Lemma bcore_set_seg s v : BCore s -> BCore (set_s_seg s v).
Proof. intros H. eapply bcore_flag; [| | | | |exact H]; reflexivity. Qed.

Lemma bcore_set_nconn s v : BCore s -> BCore (set_s_nconn s v).
Proof. intros H. eapply bcore_flag; [| | | | |exact H]; reflexivity. Qed.

Lemma bcore_log1 s d : BCore s -> well_tagged d -> BCore (set_s_log s (s_log s ++ [d])).
Proof.
  intros [A B C D E G] Hd. split; cbn; try assumption. apply Forall_app. split; [exact A|now constructor].
Qed.

Lemma bcore_exch_fresh s e x' :
  BCore s -> x_st (s_x s e) <> XHead -> x_st (s_x s e) <> XDone -> x_st x' <> XHead -> BCore (set_exch s e x').
Proof.
  intros [A B C D E G] N1 N2 N3. split; cbn; try assumption.
  - intros e' pid. destruct (upd_cases (s_x s) e x' e') as [[-> X]|[_ X]]; rewrite X; [intros; contradiction|apply B].
  - intros e' pid c rem. destruct (upd_cases (s_x s) e x' e') as [[-> X]|[_ X]]; rewrite X; [intros; contradiction|apply C].
  - intros pid e' H. destruct (G pid e' H) as [G1 G2].
    destruct (upd_cases (s_x s) e x' e') as [[-> X]|[_ X]]; rewrite X; [destruct G1; contradiction|now split].
Qed.

(* start(): the head of the queue becomes the response of exchange e *)
Lemma bcore_read_exch s e x' (m : msg) :
  Struct s -> BCore s -> x_st (s_x s e) = XWait -> x_st x' = XHead ->
  x_held x' = x_held (s_x s e) -> x_conn x' = x_conn (s_x s e) -> x_pay x' = m_pay m ->
  bmsg s (x_conn (s_x s e)) (TFlight e) m -> BCore (set_exch s e x').
Proof.
  intros S [A B C D E G] Hw Hst Hh Hc Hp [M1 M2]. destruct (st_xok s S e) as [X1 _].
  assert (Hheld : x_held (s_x s e) = true) by (apply X1; now right).
  split; cbn; try assumption.
  - intros e' pid. destruct (upd_cases (s_x s) e x' e') as [[-> X]|[_ X]]; rewrite X; [|apply B].
    intros _ H2. rewrite Hp in H2. destruct (M2 pid H2) as (Y1 & Y2 & Y3). now split.
  - intros e' pid c rem. destruct (upd_cases (s_x s) e x' e') as [[-> X]|[_ X]]; rewrite X; [|apply C].
    intros _ H2 H3. rewrite Hp in H2. destruct (M2 pid H2) as (Y1 & Y2 & Y3). destruct (E c pid rem H3) as (_ & Z2 & _).
    split; [congruence|congruence].
  - intros pid e' H. destruct (G pid e' H) as [G1 G2].
    destruct (upd_cases (s_x s) e x' e') as [[-> X]|[_ X]]; rewrite X; [destruct G1; congruence|now split].
Qed.

Lemma bcore_set_cb s e pid :
  BCore s -> x_st (s_x s e) = XHead -> x_pay (s_x s e) = Some pid ->
  BCore (set_payl s pid (set_p_cb (s_pay s pid) (Some e))).
Proof.
  intros H H1 H2. pose proof H as [A B C D E G].
  assert (P : forall pid', p_tag (s_pay (set_payl s pid (set_p_cb (s_pay s pid) (Some e))) pid') = p_tag (s_pay s pid') /\
                           p_conn (s_pay (set_payl s pid (set_p_cb (s_pay s pid) (Some e))) pid') = p_conn (s_pay s pid') /\
                           p_items (s_pay (set_payl s pid (set_p_cb (s_pay s pid) (Some e))) pid') = p_items (s_pay s pid') /\
                           p_eof (s_pay (set_payl s pid (set_p_cb (s_pay s pid) (Some e))) pid') = p_eof (s_pay s pid')).
  { intros pid'. cbn. destruct (upd_cases (s_pay s) pid (set_p_cb (s_pay s pid) (Some e)) pid') as [[-> X]|[_ X]]; rewrite X; now repeat split. }
  assert (Ht : forall pid' t, tagged s pid' t -> tagged (set_payl s pid (set_p_cb (s_pay s pid) (Some e))) pid' t).
  { intros pid' t [T1 T2]. destruct (P pid') as (P1 & _ & P3 & _). split; [now rewrite P1|now rewrite P3]. }
  assert (Hm : forall c t m, bmsg s c t m -> bmsg (set_payl s pid (set_p_cb (s_pay s pid) (Some e))) c t m).
  { intros c t m [M1 M2]. split; [exact M1|]. intros pid' Hp. destruct (M2 pid' Hp) as (Y1 & Y2 & Y3). destruct (P pid') as (_ & P2 & _).
    split; [exact Y1|split; [now rewrite P2|now apply Ht]]. }
  split; cbn [s_log s_x s_conn s_npay set_payl set_s_pay]; try assumption.
  - intros e' pid' X1 X2. destruct (B e' pid' X1 X2) as [B1 B2]. split; [exact B1|now apply Ht].
  - intros c e' He. destruct (D c e' He) as [Y1 Y2]. split; [|exact Y2]. eapply Forall_impl; [|exact Y1]. intros m. apply Hm.
  - intros c pid' rem X. destruct (E c pid' rem X) as (E1 & E2 & E3). destruct (P pid') as (_ & P2 & _ & P4). repeat split; [exact E1|now rewrite P2|now rewrite P4].
  - intros pid' e' X. cbn in X. destruct (upd_cases (s_pay s) pid (set_p_cb (s_pay s pid) (Some e)) pid') as [[-> Z]|[_ Z]]; rewrite Z in X; [|now apply G].
    cbn in X. injection X as <-. split; [now left|exact H2].
Qed.

Lemma bseg_payl_irrelevant s g : bseg s g -> forall v, bseg (set_s_seg s v) g.
Proof. intros H v. eapply bseg_flag; [| | |exact H]; reflexivity. Qed.

End BodyStep2.

Section BodyStep3.
Variable cf : cfg.

Lemma body_step s ev s' : Struct s -> Body s -> step cf s ev = Some s' -> Body s'.
Proof.
  intros S [H HS] Hst. destruct ev; cbn [step] in Hst;
    try (destruct (no_seg s) eqn:Hn; [|discriminate];
         assert (Hs : s_seg s = None) by (unfold no_seg in Hn; destruct (s_seg s); [discriminate|reflexivity])).
  - (* connect *)
    unfold do_connect in Hst. destruct (x_st (s_x s e)) eqn:Est; try discriminate.
    destruct (pool_get cf s (key_of_req r) (s_pool s) []) as [s1 got] eqn:Eg.
    destruct (pool_get_le2 cf _ _ _ _ _ _ Eg) as (P1 & P2 & P3 & P4 & P5 & P6 & P7).
    assert (H1 : BCore s1) by (eapply bcore_transfer; [exact H|exact P1|exact P3|now apply pay_soft_refl|exact P6]).
    assert (Est1 : x_st (s_x s1 e) = XFree) by now rewrite P3.
    destruct got as [c|]; inv_some.
    + specialize (P7 c eq_refl). unfold reusable in P7. apply andb_true_iff in P7 as [P7 _]. apply get_reuses_clean in P7.
      apply should_close_pooled in P7 as (Hb & Ht & _).
      apply body_noseg; [|cbn; congruence].
      apply bcore_exch_fresh; [|cbn; congruence|cbn; congruence|cbn; discriminate].
      apply bcore_set_conn; [exact H1|now left|]. cbn. rewrite Hb, Ht. intros e0 _. split; constructor.
    + apply body_noseg; [|cbn; congruence].
      apply bcore_exch_fresh; [|cbn; congruence|cbn; congruence|cbn; discriminate].
      apply bcore_set_nconn. apply bcore_set_conn; [exact H1|now right|]. cbn. intros e0 _. split; constructor.
  - (* params *)
    unfold do_params in Hst. destruct (x_st (s_x s e)) eqn:Est; try discriminate.
    set (c := x_conn (s_x s e)) in *.
    assert (Hx : BCore (set_exch s e (set_x_st (s_x s e) XWait))).
    { apply body_set_exch; [exact H|reflexivity|cbn; discriminate|rewrite Est; intros [X|X]; discriminate|cbn; discriminate]. }
    destruct (c_htail (s_conn s c)) as [|p q] eqn:Eh; inv_some.
    + apply body_noseg; [|exact Hs]. apply bcore_set_conn; [exact Hx|now right|]. cbn. intros e0 He.
      destruct (bd_conn s H c e0 He) as [Y1 Y2]. split; [exact Y1|exact Y2].
    + split.
      * apply bcore_set_seg. apply bcore_set_conn; [exact Hx|now right|]. cbn. intros e0 He.
        destruct (bd_conn s H c e0 He) as [Y1 Y2]. split; [exact Y1|constructor].
      * intros g Hg. cbn in Hg. injection Hg as <-. intros e0 He. cbn in He. rewrite upd_same in He. cbn in He.
        destruct (bd_conn s H c e0 He) as [Y1 Y2]. rewrite Eh in Y2. cbn. rewrite He. cbn. repeat split; try constructor; now inversion Y2.
  - (* read *)
    unfold do_read in Hst. destruct (x_st (s_x s e)) eqn:Est; try discriminate.
    pose proof (held_phase s e S (or_intror Est)) as Hph.
    set (c := x_conn (s_x s e)) in *. destruct (bd_conn s H c e Hph) as [Hb Ht].
    destruct (c_buf (s_conn s c)) as [|m rest] eqn:Eb.
    + destruct (c_exc _ =? 0); [discriminate|]. inv_some. apply body_noseg; [|now rewrite release_seg].
      apply body_release. apply body_set_exch; [exact H|reflexivity|cbn; discriminate|cbn; now right|cbn; discriminate].
    + inversion Hb as [|? ? Hm Hrest]; subst.
      set (s1 := set_conn s c (set_c_buf (s_conn s c) rest)) in *.
      assert (K1 : BCore s1).
      { apply bcore_set_conn; [exact H|now left|]. cbn. intros e0 He. rewrite Hph in He. injection He as <-. now split. }
      match type of Hst with context[set_exch ?t e ?x] => set (s2 := t) in *; set (x3 := x) in * end.
      assert (K2 : BCore s2) by (apply bcore_log1; [exact K1|exact (proj1 Hm)]).
      assert (S2 : Struct s2) by (apply sf_log; now apply sf_conn).
      assert (K3 : BCore (set_exch s2 e x3)).
      { apply (bcore_read_exch s2 e x3 m S2 K2); try reflexivity; [exact Est|]. exact Hm. }
      assert (Hs3 : s_seg (set_exch s2 e x3) = None) by exact Hs.
      destruct (m_pay m) as [pid|] eqn:Emp.
      * destruct (p_eof (s_pay (set_exch s2 e x3) pid)) eqn:Ee.
        { inv_some. apply body_noseg; [|now rewrite response_eof_seg].
          apply body_response_eof; [exact K3|]. cbn. rewrite upd_same. cbn. intros _ pid' Hp. injection Hp as <-. exact Ee. }
        destruct (p_exc _); inv_some; [apply body_noseg; [exact K3|exact Hs3]|].
        apply body_noseg; [|exact Hs3]. apply (bcore_set_cb (set_exch s2 e x3) e pid K3); cbn; now rewrite upd_same.
      * inv_some. apply body_noseg; [|now rewrite response_eof_seg].
        apply body_response_eof; [exact K3|]. cbn. rewrite upd_same. cbn. intros _ pid' Hp. discriminate.
  - (* body *)
    unfold do_body in Hst. destruct (x_st (s_x s e)) eqn:Est; try discriminate.
    assert (Hfin : forall s0, BCore s0 -> s_seg s0 = None ->
      Body (let x' := s_x s0 e in
            let upgraded := x_held x' && c_upg (s_conn s0 (x_conn x')) in
            let s'' := set_exch s0 e (set_x_held (set_x_st x' XDone) (x_held x' && upgraded)) in
            if x_held x' && negb upgraded then release_conn cf s'' (x_conn x') false else s'')).
    { intros s0 H0 Hs0. cbv zeta.
      assert (K : forall b, BCore (set_exch s0 e (set_x_held (set_x_st (s_x s0 e) XDone) b))).
      { intros b. apply body_set_exch; [exact H0|reflexivity|cbn; discriminate|cbn; now right|cbn; discriminate]. }
      destruct (x_held (s_x s0 e) && negb _); apply body_noseg; try (rewrite release_seg); try exact Hs0; [apply body_release|]; apply K. }
    destruct (x_pay (s_x s e)) as [pid|] eqn:Exp.
    + destruct (p_exc _ || _).
      * inv_some.
        assert (K : BCore (set_exch s e (set_x_held (set_x_closed (set_x_st (s_x s e) XDone) true) false))).
        { apply body_set_exch; [exact H|reflexivity|cbn; discriminate|cbn; now right|cbn; discriminate]. }
        destruct (x_held _); apply body_noseg; try (rewrite release_seg); try exact Hs; [now apply body_release|exact K].
      * destruct (p_eof _); [|discriminate]. inv_some.
        apply (Hfin (set_s_log s (s_log s ++ log_items e (p_items (s_pay s pid))))); [|exact Hs].
        now apply body_log_items.
    + inv_some. exact (Hfin s H Hs).
  - (* release *)
    unfold do_release in Hst.
    assert (Hgo : forall arg, Body (let s0 := match x_pay (s_x s e) with
                                | Some pid => set_payl s pid (set_p_cb (set_p_exc (s_pay s pid) true) None)
                                | None => s end in
                      let s1 := set_exch s0 e (set_x_held (set_x_closed (set_x_st (s_x s e) XDone) true) false) in
                      if x_held (s_x s e) then release_conn cf s1 (x_conn (s_x s e)) arg else s1)).
    { intros arg. cbv zeta. match goal with |- context[set_exch ?t e _] => set (s0 := t) end.
      assert (K0 : BCore s0 /\ s_x s0 = s_x s /\ s_seg s0 = s_seg s).
      { subst s0. destruct (x_pay (s_x s e)) as [pid|]; [|split; [exact H|split; reflexivity]]. split; [|split; reflexivity].
        eapply bcore_transfer; [exact H|reflexivity|reflexivity| |intros c; apply conn_le2_refl].
        apply pay_soft_set; try reflexivity; [exact H|now left]. }
      destruct K0 as (K0 & Ex & Eg).
      assert (K1 : BCore (set_exch s0 e (set_x_held (set_x_closed (set_x_st (s_x s e) XDone) true) false))).
      { rewrite <- Ex. apply body_set_exch; [exact K0|reflexivity|cbn; discriminate|cbn; now right|cbn; discriminate]. }
      destruct (x_held (s_x s e)); [apply body_noseg; [now apply body_release|rewrite release_seg; cbn; congruence]|apply body_noseg; [exact K1|cbn; congruence]]. }
    destruct (x_st (s_x s e)); try discriminate; inv_some; apply Hgo.
  - (* close *)
    unfold do_release in Hst.
    assert (Hgo : forall arg, Body (let s0 := match x_pay (s_x s e) with
                                | Some pid => set_payl s pid (set_p_cb (set_p_exc (s_pay s pid) true) None)
                                | None => s end in
                      let s1 := set_exch s0 e (set_x_held (set_x_closed (set_x_st (s_x s e) XDone) true) false) in
                      if x_held (s_x s e) then release_conn cf s1 (x_conn (s_x s e)) arg else s1)).
    { intros arg. cbv zeta. match goal with |- context[set_exch ?t e _] => set (s0 := t) end.
      assert (K0 : BCore s0 /\ s_x s0 = s_x s /\ s_seg s0 = s_seg s).
      { subst s0. destruct (x_pay (s_x s e)) as [pid|]; [|split; [exact H|split; reflexivity]]. split; [|split; reflexivity].
        eapply bcore_transfer; [exact H|reflexivity|reflexivity| |intros c; apply conn_le2_refl].
        apply pay_soft_set; try reflexivity; [exact H|now left]. }
      destruct K0 as (K0 & Ex & Eg).
      assert (K1 : BCore (set_exch s0 e (set_x_held (set_x_closed (set_x_st (s_x s e) XDone) true) false))).
      { rewrite <- Ex. apply body_set_exch; [exact K0|reflexivity|cbn; discriminate|cbn; now right|cbn; discriminate]. }
      destruct (x_held (s_x s e)); [apply body_noseg; [now apply body_release|rewrite release_seg; cbn; congruence]|apply body_noseg; [exact K1|cbn; congruence]]. }
    destruct (x_st (s_x s e)); try discriminate; inv_some; apply Hgo.
  - (* segbegin *)
    unfold do_segbegin in Hst. destruct ((c <? s_nconn s) && c_conn (s_conn s c)); inv_some.
    split; [now apply bcore_set_seg|]. intros g Hg. cbn in Hg. injection Hg as <-. intros e He. cbn in He |- *.
    rewrite He. cbn. repeat split; constructor.
  - (* tok *)
    unfold do_tok in Hst. destruct (s_seg s) as [g|] eqn:Hs; [|discriminate]. destruct (g_queue g) eqn:Hq; [|discriminate].
    destruct (proc_tok cf (ghost_tok s (g_c g) tk) g tk (g_tag g)) as [[s1 g1]|] eqn:Ep; [|discriminate]. inv_some.
    set (sg := ghost_tok s (g_c g) tk) in *.
    assert (Fg : s_seg sg = Some g /\ s_pay sg = s_pay s /\ s_npay sg = s_npay s /\ s_log sg = s_log s /\ s_x sg = s_x s /\
                 forall c', conn_le2 (s_conn s c') (s_conn sg c')).
    { subst sg. unfold ghost_tok. destruct (c_phase (s_conn s (g_c g))); [destruct (ghost_prog _ _)| |]; cbn;
        (refine (conj Hs (conj eq_refl (conj eq_refl (conj eq_refl (conj eq_refl _))))));
        intros c'; unfold upd; destruct (c' =? g_c g) eqn:Ec; try apply conn_le2_refl; apply N.eqb_eq in Ec; subst c';
        (split; [reflexivity|now apply conn_le_fields]). }
    destruct Fg as (F1 & F2 & F3 & F4 & F5 & F6).
    assert (Kg : BCore sg) by (apply (bcore_transfer s sg); [exact H|exact F4|exact F5|now apply pay_soft_refl|exact F6]).
    assert (Gg : bseg sg g) by (apply (bseg_transfer s sg g); [now apply pay_soft_refl|apply (proj2 (F6 (g_c g)))|now apply HS]).
    destruct (body_proc_tok cf sg g g tk (g_tag g) s1 g1 (struct_ghost_tok s (g_c g) tk S) Kg F1 eq_refl Gg (fun _ _ => eq_refl) Ep) as (R1 & R2 & R3).
    split; [now apply bcore_set_seg|]. intros g2 Hg2. cbn in Hg2. injection Hg2 as <-. now apply bseg_payl_irrelevant.
  - (* replay *)
    unfold do_replay in Hst. destruct (s_seg s) as [g|] eqn:Hs; [|discriminate]. destruct (g_queue g) as [|[tk tg] q] eqn:Hq; [discriminate|].
    destruct (proc_tok cf s (set_g_queue g q) tk tg) as [[s1 g1]|] eqn:Ep; [|discriminate]. inv_some.
    pose proof (HS g eq_refl) as HG.
    assert (HG' : bseg s (set_g_queue g q)).
    { intros e He. destruct (HG e He) as (Y1 & Y2 & Y3 & Y4). cbn. rewrite Hq in Y4. repeat split; try assumption. now inversion Y4. }
    assert (Htg : forall e, c_phase (s_conn s (g_c g)) = PFlight e -> tg = g_tag (set_g_queue g q)).
    { intros e He. destruct (HG e He) as (_ & _ & _ & Y4). rewrite Hq in Y4. inversion Y4; subst. cbn in *. assumption. }
    destruct (body_proc_tok cf s g (set_g_queue g q) tk tg s1 g1 S H Hs eq_refl HG' Htg Ep) as (R1 & R2 & R3).
    split; [now apply bcore_set_seg|]. intros g2 Hg2. cbn in Hg2. injection Hg2 as <-. now apply bseg_payl_irrelevant.
  - (* segend *)
    unfold do_segend in Hst. destruct (s_seg s) as [g|] eqn:Hs; [|discriminate]. destruct (g_queue g); [|discriminate]. inv_some.
    pose proof (HS g eq_refl) as HG. pose proof (bd_conn s H (g_c g)) as Hc.
    apply body_noseg; [|reflexivity]. apply bcore_set_seg.
    destruct (g_err g || g_stash g).
    + apply bcore_set_conn; [exact H|now left|]. exact Hc.
    + destruct (push_msgs_fields (g_msgs g) (s_conn s (g_c g))) as (P1 & P2 & P3 & P4 & P5 & P6 & P7).
      apply bcore_set_conn; [exact H|left; cbn; exact P3|].
      intros e He. cbn in He. rewrite P1 in He. destruct (Hc e He) as [X1 X2]. destruct (HG e He) as (Y1 & Y2 & Y3 & _).
      cbn. rewrite P6, P2. split; apply Forall_app; (split; [assumption|]).
      * rewrite <- Y1. exact Y2.
      * eapply Forall_impl; [|exact Y3]. intros p Hp. congruence.
  - (* peerclose *)
    unfold do_peerclose in Hst. destruct ((c <? s_nconn s) && c_conn (s_conn s c)); inv_some.
    match goal with |- Body (set_conn ?t _ _) => set (s1 := t) end.
    assert (K1 : BCore s1 /\ s_conn s1 = s_conn s /\ s_seg s1 = s_seg s /\ s_pay s1 = s_pay s \/ True) by now right.
    assert (K : BCore s1 /\ s_conn s1 c = s_conn s c /\ s_seg s1 = None /\ pay_soft s s1).
    { subst s1. destruct (c_parser _); [|refine (conj H (conj eq_refl (conj Hs _))); now apply pay_soft_refl].
      destruct (c_pst _); [refine (conj H (conj eq_refl (conj Hs _))); now apply pay_soft_refl|].
      destruct (c_pay _) as [pid'|]; [|refine (conj H (conj eq_refl (conj Hs _))); now apply pay_soft_refl].
      assert (P : pay_soft s (set_payl s pid' (set_p_cb (set_p_exc (s_pay s pid') true) None)))
        by (apply pay_soft_set; try reflexivity; [exact H|now left]).
      refine (conj _ (conj eq_refl (conj Hs P))).
      eapply bcore_transfer; [exact H|reflexivity|reflexivity|exact P|intros c'; apply conn_le2_refl]. }
    destruct K as (K & Ec & Es & P).
    apply body_noseg; [|exact Es].
    apply bcore_set_conn; [exact K|now right|].
    intros e He. assert (He' : c_phase (s_conn s c) = PFlight e) by (destruct (c_exc (s_conn s c) =? 0); exact He).
    destruct (bd_conn s H c e He') as [Y1 Y2].
    assert (Hf : forall cn, c_buf (set_c_dirty (set_c_conn (set_c_pay (set_c_pst (set_c_parser (set_c_sc cn true) false) PSHead) None) false) true) = c_buf cn /\
                        c_htail (set_c_dirty (set_c_conn (set_c_pay (set_c_pst (set_c_parser (set_c_sc cn true) false) PSHead) None) false) true) = c_htail cn) by (intros; now split).
    destruct (c_exc (s_conn s c) =? 0); cbn; (split; [|exact Y2]); (eapply Forall_impl; [|exact Y1]); intros m; now apply bmsg_soft.
Qed.

End BodyStep3.

(* C06_no_mix: for EVERY trace, everything handed to a caller - response heads and body items - arrived while that
   caller's own exchange held the connection. *)
Theorem no_mix_all cf tr s : run cf init tr = Some s -> no_mix s.
Proof.
  intros Hr.
  assert (X : forall tr s0 s, Struct s0 -> Body s0 -> run cf s0 tr = Some s -> Body s).
  { induction tr0 as [|ev tr0 IH]; intros s0 s1 S0 H0 Hr0; cbn [run] in Hr0; [inversion Hr0; now subst|].
    destruct (step cf s0 ev) as [s2|] eqn:E; [|discriminate].
    eapply IH; [| |exact Hr0]; [eapply struct_step; eauto|eapply body_step; eauto]. }
  destruct (X tr init s struct_init body_init Hr) as [K _].
  intros d Hd. pose proof (bd_log s K) as L. rewrite Forall_forall in L. now apply L.
Qed.
