(* Stream reader model: the recursion fuel supplied by the model always suffices, and
   `self._buffer[0]` is never evaluated on an empty deque: ExFuel / ExIndex are unreachable. *)
From AV Require Import Lib.Base Generated.StreamGen Model.Stream Proofs.StreamBase Proofs.StreamInv
  Proofs.StreamDeliver Proofs.StreamEof Proofs.StreamChunk.
From Coq Require Import ZifyBool.
Open Scope Z_scope.

Definition M (s : st) : nat := (length (buf s) + length (pend s))%nat.

Lemma buf_wake_ok' s : buf (wake_ok s) = buf s.
Proof. unfold wake_ok. destruct (wt s); reflexivity. Qed.

Lemma buf_feed_len d s : (length (buf s) <= length (buf (fst (feed_data d s))) <= S (length (buf s)))%nat.
Proof.
  unfold feed_data. destruct (eof s); [cbn; lia|]. destruct d as [|x d]; [cbn; lia|]. cbn [fst].
  match goal with |- context [if ?c then do_pause ?a else ?a] =>
    assert (E : buf (if c then do_pause a else a) = buf a) by (destruct c; reflexivity) end.
  rewrite E, buf_wake_ok'. cbn [buf]. rewrite app_length. cbn. lia.
Qed.

Lemma buf_end_len s : buf (fst (end_chunk s)) = buf s.
Proof.
  unfold end_chunk. destruct (splits s); [|reflexivity]. destruct (empty_chunk _ _); [reflexivity|]. cbn [fst].
  rewrite buf_wake_ok'. match goal with |- context [if ?c then _ else _] => destruct c end; reflexivity.
Qed.

Lemma buf_apply_pitem it s : (length (buf s) <= length (buf (apply_pitem it s)) <= S (length (buf s)))%nat.
Proof.
  destruct it; cbn [apply_pitem]; [apply buf_feed_len|]. destruct (splits s); [rewrite buf_end_len|]; lia.
Qed.

Lemma deliver_measure items : forall s,
  (length (buf s) <= length (buf (deliver items s)))%nat /\
  (length (buf (deliver items s)) + length (pend (deliver items s)) <= length (buf s) + length items)%nat.
Proof.
  induction items as [|it rest IH]; intros s; cbn [deliver]; [cbn; lia|].
  destruct (paused s || eof s); [cbn; lia|].
  pose proof (buf_apply_pitem it s). destruct (IH (apply_pitem it s)). cbn [length]. lia.
Qed.

Lemma consume_whole n f r s : 0 <= n \/ n = -1 -> n - len (snd (consume n f r s)) <> 0 ->
  buf (fst (consume n f r s)) = r /\ pend (fst (consume n f r s)) = pend s.
Proof.
  intros Hn. unfold consume, take_chunk. destruct (take_partial (len f) n) eqn:Et; cbn [fst snd buf pend]; [|auto].
  unfold take_partial in Et. apply andb_true_iff in Et as [E1 E2]. apply negb_true_iff, Z.eqb_neq in E1. apply Z.ltb_lt in E2.
  intros H. exfalso. apply H. unfold len in *. rewrite firstn_length. lia.
Qed.

Lemma consume_buf_ge n f r s : (length r <= length (buf (fst (consume n f r s))))%nat /\ pend (fst (consume n f r s)) = pend s.
Proof. unfold consume, take_chunk. destruct (take_partial _ _); cbn [fst buf pend length]; split; auto; lia. Qed.

Lemma rnc_buf_ge n f r s : (length r <= length (buf (fst (rnc n f r s))))%nat.
Proof.
  unfold rnc. pose proof (consume_buf_ge n f r s) as [A B]. destruct (consume n f r s) as [s1 d]. cbn [fst] in *.
  destruct (resume_cond s1); [|exact A]. unfold do_resume. cbv zeta.
  pose proof (deliver_measure (pend (set_paused s1 false)) (set_paused s1 false)) as [C _].
  set (D := deliver _ _) in *. cbn [buf set_paused] in C. lia.
Qed.

Lemma rnc_measure n f r s : 0 <= n \/ n = -1 -> buf s = f :: r -> n - len (snd (rnc n f r s)) <> 0 ->
  (S (M (fst (rnc n f r s))) <= M s)%nat.
Proof.
  intros Hn Hb Hne. rewrite rnc_snd in Hne. destruct (consume_whole n f r s Hn Hne) as [A B].
  unfold rnc, M. destruct (consume n f r s) as [s1 d]. cbn [fst] in *. rewrite Hb. cbn [length].
  destruct (resume_cond s1).
  - unfold do_resume. cbv zeta.
    pose proof (deliver_measure (pend (set_paused s1 false)) (set_paused s1 false)) as [_ C].
    set (D := deliver _ _) in *. cbn [buf pend set_paused] in C. rewrite A, B in C. lia.
  - rewrite A, B. lia.
Qed.

Lemma rnc_measure_le n f r s : buf s = f :: r -> (M (fst (rnc n f r s)) <= M s)%nat.
Proof.
  intros Hb. unfold rnc, M. pose proof (consume_buf_ge n f r s) as [_ B].
  assert (A : (length (buf (fst (consume n f r s))) <= S (length r))%nat).
  { unfold consume, take_chunk. destruct (take_partial _ _); cbn [fst buf length]; lia. }
  destruct (consume n f r s) as [s1 d]. cbn [fst] in *. rewrite Hb. cbn [length].
  destruct (resume_cond s1).
  - unfold do_resume. cbv zeta.
    pose proof (deliver_measure (pend (set_paused s1 false)) (set_paused s1 false)) as [_ C].
    set (D := deliver _ _) in *. cbn [buf pend set_paused] in C. rewrite B in C. lia.
  - rewrite B. lia.
Qed.

Lemma take_n_ok fuel : forall n s, 0 <= n -> (M s < fuel)%nat ->
  snd (take_n fuel n s) = SOk /\ (M (fst (fst (take_n fuel n s))) <= M s)%nat.
Proof.
  induction fuel as [|fuel IH]; intros n s Hn Hf; [lia|]. rewrite take_n_eq.
  destruct (buf s) as [|f r] eqn:Eb; [cbn; split; [reflexivity|lia]|].
  pose proof (consume_len n f r s Hn) as Hl. rewrite <- rnc_snd in Hl.
  pose proof (rnc_measure n f r s (or_introl Hn) Eb) as Hm.
  pose proof (rnc_measure_le n f r s Eb) as Hle.
  destruct (rnc n f r s) as [s1 d]. cbn [fst snd] in *. cbv zeta.
  destruct (n - len d =? 0) eqn:E0; [cbn; split; [reflexivity|lia]|].
  assert (Hne : n - len d <> 0) by lia. specialize (Hm Hne).
  destruct (IH (n - len d) s1) as [A B]; [lia|lia|].
  destruct (take_n fuel (n - len d) s1) as [[s2 d2] e]. cbn [fst snd] in *. split; [exact A|lia].
Qed.

Lemma drain_ok k : forall s, (k <= length (buf s))%nat ->
  snd (drain k s) = SOk /\ (M (fst (fst (drain k s))) + k <= M s)%nat.
Proof.
  induction k as [|k IH]; intros s Hk; [cbn; split; [reflexivity|lia]|]. rewrite drain_S.
  destruct (buf s) as [|f r] eqn:Eb; [cbn in Hk; lia|]. cbn [length] in Hk.
  pose proof (rnc_buf_ge (-1) f r s) as Hg.
  assert (Hm : (S (M (fst (rnc (-1) f r s))) <= M s)%nat).
  { apply rnc_measure; [right; reflexivity|exact Eb|]. pose proof (len_nonneg (snd (rnc (-1) f r s))). lia. }
  destruct (rnc (-1) f r s) as [s1 d]. cbn [fst] in *.
  destruct (IH s1) as [A B]; [lia|]. destruct (drain k s1) as [[s2 d2] e]. cbn [fst snd] in *. split; [exact A|lia].
Qed.

Lemma read_nowait_ok n s : n = -1 \/ 0 <= n ->
  snd (read_nowait n s) = SOk /\ (M (fst (fst (read_nowait n s))) <= M s)%nat.
Proof.
  intros Hn. unfold read_nowait. destruct (n =? -1) eqn:E.
  - destruct (drain_ok (length (buf s)) s (le_n _)) as [A B]. split; [exact A|lia].
  - apply take_n_ok; [lia|]. unfold fuel_of, M. lia.
Qed.

(* a read that returned something made the measure strictly smaller, unless it ended by a partial take *)
Lemma read_nowait_progress n s : Inv s -> takes n -> snd (fst (read_nowait n s)) <> [] ->
  n - len (snd (fst (read_nowait n s))) <> 0 -> (S (M (fst (fst (read_nowait n s)))) <= M s)%nat.
Proof.
  intros HI Hn Hd Hne. unfold read_nowait in *. destruct (n =? -1) eqn:E.
  - destruct (buf s) as [|f r] eqn:Eb; [cbn in Hd; congruence|].
    destruct (drain_ok (length (f :: r)) s) as [_ B]; [rewrite Eb; lia|]. cbn [length] in *. lia.
  - assert (H0 : 0 <= n) by (destruct Hn; lia). clear Hn. revert Hd Hne.
    unfold fuel_of. rewrite take_n_eq. destruct (buf s) as [|f r] eqn:Eb; [cbn; congruence|].
    pose proof (consume_len n f r s H0) as Hl. rewrite <- rnc_snd in Hl.
    pose proof (rnc_measure n f r s (or_introl H0) Eb) as Hm.
    destruct (rnc n f r s) as [s1 d] eqn:Er. cbn [fst snd] in *. cbv zeta.
    destruct (n - len d =? 0) eqn:E0; [cbn; lia|].
    assert (Hne' : n - len d <> 0) by lia. specialize (Hm Hne').
    destruct (take_n_ok (length (buf s) + length (pend s)) (n - len d) s1) as [_ B]; [lia|unfold M in *; rewrite Eb in *; cbn [length] in *; lia|].
    rewrite Eb in B. destruct (take_n _ (n - len d) s1) as [[s2 d2] e]. cbn [fst snd] in *. intros _ _. unfold M in *. rewrite Eb in *. cbn [length] in *. lia.
Qed.

(* ---- no operation ever reports ExFuel / ExIndex ---------------------------------------------- *)

Definition clean (r : result) : Prop :=
  match r with RRaise ExFuel _ => False | RRaise ExIndex _ => False | _ => True end.
Definition wf_k (k : cont) : Prop :=
  match k with KRead n => n = -1 \/ 0 <= n | KReadExactly n _ => 1 <= n | _ => True end.
Definition okout (o : outcome) : Prop := match o with Done r => clean r | Block k => wf_k k end.
Definition clean_obs (b : obs) : Prop := match b with ObDone r => clean r | _ => True end.

Lemma okout_block k s : wf_k k -> okout (snd (block k s)).
Proof. intros H. unfold block. destruct (wait_exc s); cbn [snd okout]; [exact I|exact H]. Qed.

Lemma clean_finish e ok d : e = SOk -> clean ok -> clean (finish e ok d).
Proof. intros -> H. exact H. Qed.

Lemma M_marks n s : M (set_chunk_size n s) = M s.
Proof. unfold set_chunk_size. destruct (chunk_size_raises _ _); reflexivity. Qed.

Lemma k_read_ok n s : n = -1 \/ 0 <= n -> okout (snd (k_read n s)).
Proof.
  intros Hn. unfold k_read. destruct (need_wait s); [apply okout_block; exact Hn|].
  pose proof (read_nowait_ok n s Hn) as [A _]. destruct (read_nowait n s) as [[s1 d] e]. cbn [snd] in *.
  apply clean_finish; [exact A|exact I].
Qed.

Lemma k_readall_ok fuel : forall acc s, ICP s -> (M s < fuel)%nat -> okout (snd (k_readall fuel acc s)).
Proof.
  induction fuel as [|fuel IH]; intros acc s H Hf; [lia|]. rewrite k_readall_eq.
  destruct (need_wait s); [apply okout_block; exact I|].
  pose proof (read_nowait_ok (-1) s (or_introl eq_refl)) as [A _].
  pose proof (read_nowait_progress (-1) s (proj1 H) (or_introl eq_refl)) as Hp.
  pose proof (ICP_read_nowait (-1) s H) as H1.
  destruct (read_nowait (-1) s) as [[s1 d] e]. cbn [fst snd] in *. subst e.
  destruct d as [|x d]; [exact I|]. destruct (exc s1); [exact I|].
  apply IH; [exact H1|]. assert (S (M s1) <= M s)%nat; [|lia].
  apply Hp; [discriminate|]. pose proof (len_nonneg (x :: d)). lia.
Qed.

Lemma k_until_ok fuel : forall sep m acc s, ICP s -> (M s < fuel)%nat -> okout (snd (k_until fuel sep m acc s)).
Proof.
  induction fuel as [|fuel IH]; intros sep m acc s H Hf; [lia|]. rewrite k_until_eq.
  destruct (buf s) as [|f r] eqn:Eb; [destruct (eof s); [exact I|apply okout_block; exact I]|].
  destruct (find_sub sep f).
  - destruct (rnc _ f r s). cbv zeta. destruct (line_too_long _ _); exact I.
  - pose proof (rnc_measure (-1) f r s (or_intror eq_refl) Eb) as Hm.
    pose proof (ICP_rnc (-1) f r s H Eb) as H1.
    destruct (rnc (-1) f r s) as [s1 d]. cbn [fst snd] in *. cbv zeta.
    destruct (line_too_long _ _); [exact I|]. apply IH; [exact H1|].
    assert (S (M s1) <= M s)%nat; [|lia]. apply Hm. pose proof (len_nonneg d). lia.
Qed.

Lemma k_exactly_ok fuel : forall n acc s, ICP s -> 1 <= n -> (M s < fuel)%nat -> okout (snd (k_exactly fuel n acc s)).
Proof.
  induction fuel as [|fuel IH]; intros n acc s H Hn Hf; [lia|]. rewrite k_exactly_eq.
  destruct (need_wait s); [apply okout_block; exact Hn|].
  assert (Hn0 : 0 <= n) by lia.
  pose proof (read_nowait_ok n s (or_intror Hn0)) as [A _].
  pose proof (read_nowait_progress n s (proj1 H) (or_intror Hn)) as Hp.
  pose proof (ICP_read_nowait n s H) as H1.
  destruct (read_nowait n s) as [[s1 d] e]. cbn [fst snd] in *. subst e.
  destruct d as [|x d]; [exact I|]. cbv zeta.
  destruct (n - len (x :: d) <=? 0) eqn:E0; [exact I|]. destruct (exc s1); [exact I|].
  apply IH; [apply ICP_marks; exact H1|lia|]. rewrite M_marks.
  assert (S (M s1) <= M s)%nat; [|lia]. apply Hp; [discriminate|lia].
Qed.

Lemma k_readchunk_ok s : ICP s -> okout (snd (k_readchunk s)).
Proof.
  intros H. unfold k_readchunk. destruct (exc s); [exact I|].
  destruct (splits s) as [l|] eqn:El.
  2: { destruct (buf s) as [|f r]; [destruct (eof s); [exact I|apply okout_block; exact I]|]. destruct (rnc (-1) f r s). exact I. }
  destruct (pop_splits (cursor s) l) as [found l'] eqn:Ep.
  destruct found as [p|].
  - destruct (pop_splits_In _ _ _ _ Ep) as [_ Hpc].
    destruct (readchunk_at p (cursor s)) eqn:Ea; [exact I|]. unfold readchunk_at in Ea.
    assert (Hn0 : 0 <= p - cursor s) by lia.
    pose proof (read_nowait_ok (p - cursor s) (set_splits s (Some l')) (or_intror Hn0)) as [A _].
    destruct (read_nowait (p - cursor s) (set_splits s (Some l'))) as [[s1 d] e]. cbn [snd] in *.
    apply clean_finish; [exact A|exact I].
  - destruct (buf (set_splits s (Some l'))) as [|f r]; [destruct (eof _); [exact I|apply okout_block; exact I]|].
    destruct (rnc (-1) f r _). exact I.
Qed.

Lemma fuel_of_gt s : (M s < fuel_of s)%nat /\ (M s < fuel_all s)%nat.
Proof. unfold fuel_all, fuel_of, M. lia. Qed.

Lemma start_ok c s : ICP s -> okout (snd (start c s)).
Proof.
  intros H. destruct c; cbn [start]; unfold raise_exc.
  - destruct (exc s); [exact I|]. destruct (n =? 0); [exact I|]. destruct (n <? 0) eqn:E.
    + apply k_readall_ok; [apply ICP_marks; exact H|apply fuel_of_gt].
    + apply k_read_ok. lia.
  - destruct (exc s); [exact I|]. apply k_read_ok. left; reflexivity.
  - destruct sep; [exact I|]. destruct (exc s); [exact I|]. apply k_until_ok; [exact H|apply fuel_of_gt].
  - destruct (exc s); [exact I|]. destruct (n <=? 0) eqn:E; [exact I|].
    apply k_exactly_ok; [apply ICP_marks; exact H|lia|apply fuel_of_gt].
  - apply k_readchunk_ok. exact H.
  - cbn [sync_op]. destruct (exc s); [exact I|]. destruct (wt s) eqn:Ew; try exact I.
    all: destruct (n <? -1) eqn:E; [exact I|].
    all: assert (Hn : n = -1 \/ 0 <= n) by lia.
    all: pose proof (read_nowait_ok n s Hn) as [A _]; destruct (read_nowait n s) as [[s1 d0] e0]; cbn [snd] in *.
    all: apply clean_finish; [exact A|exact I].
  - exact I.
  - exact I.
Qed.

Lemma resume_k_ok k s : ICP s -> wf_k k -> okout (snd (resume_k k s)).
Proof.
  intros H Hk. destruct k; cbn [resume_k wf_k] in *.
  - apply k_read_ok. exact Hk.
  - apply k_readall_ok; [exact H|apply fuel_of_gt].
  - apply k_until_ok; [exact H|apply fuel_of_gt].
  - apply k_exactly_ok; [exact H|exact Hk|apply fuel_of_gt].
  - apply k_readchunk_ok. exact H.
Qed.

Definition wf_task (y : sys) : Prop := forall k, task y = Some k -> wf_k k.

Lemma step_clean o y : SysP Inv y -> wf_task y -> clean_obs (snd (step o y)) /\ wf_task (fst (step o y)).
Proof.
  intros [HI Ht] Hw.
  assert (Hfin : forall so, okout (snd so) -> clean_obs (snd (finish_task so)) /\ wf_task (fst (finish_task so))).
  { intros [s1 o1] Ho. unfold finish_task. destruct o1; cbn [fst snd] in *; split; try exact Ho; try exact I.
    - intros k E. inversion E.
    - intros k' E. inversion E; subst. exact Ho. }
  destruct o; cbn [step]; unfold prod; cbn [fst snd];
    try (split; [destruct (snd _); exact I|intros k E; apply Hw; exact E]);
    try (split; [exact I|intros k E; apply Hw; exact E]).
  - destruct (task y) as [k|] eqn:Et.
    + destruct c; cbn [fst snd]; try (split; [exact I|exact Hw]).
      destruct (wt (sst y)); cbn [fst snd]; split; try exact I; try exact Hw. destruct (exc (sst y)); exact I.
      split; [exact I|]. intros k' E. cbn in E. apply Hw. congruence.
    + apply Hfin. apply start_ok. split; auto.
  - destruct (task y) as [k|] eqn:Et; [|split; [exact I|exact Hw]].
    destruct (wt (sst y)) eqn:Ew; cbn [fst snd]; try (split; [exact I|exact Hw]).
    + apply Hfin. apply resume_k_ok; [split; [apply Inv_wt; exact HI|reflexivity]|apply Hw; exact Et].
    + split; [exact I|]. intros k' E. inversion E.
Qed.

Theorem run_clean limit ops : Forall clean_obs (snd (run ops (init_sys limit))).
Proof.
  assert (H : forall ops y, SysP Inv y -> wf_task y -> Forall clean_obs (snd (run ops y))).
  { clear. induction ops as [|o ops IH]; intros y Hy Hw; [constructor|]. cbn [run].
    pose proof (step_clean o y Hy Hw) as [A B].
    pose proof (step_SysP Inv Inv_feed Inv_begin Inv_end Inv_eof Inv_exc Inv_pend Inv_consume_resume Inv_marks
                  (fun s H _ _ _ _ => Inv_wt s Waiting H) (fun s H => Inv_wt s NoTask H) Inv_pop Inv_unread o y Hy) as Hy1.
    destruct (step o y) as [y1 b]. cbn [fst snd] in *. specialize (IH y1 Hy1 B).
    destruct (run ops y1) as [y2 bs]. cbn [snd] in *. constructor; assumption. }
  apply H.
  - split; [apply Inv_init|reflexivity].
  - intros k E. inversion E.
Qed.
