(* Stream reader model: the recursion fuel supplied by the model always suffices, and
   `self._buffer[0]` is never evaluated on an empty deque: ExFuel / ExIndex are unreachable. *)
From AV Require Import Lib.Base Generated.StreamGen Model.Stream Proofs.StreamBase Proofs.StreamInv
  Proofs.StreamDeliver Proofs.StreamEof Proofs.StreamChunk.
From Coq Require Import ZifyBool.
Open Scope Z_scope.

Definition M (s : st) : nat := (length (buf s) + length (pend s))%nat.

Lemma buf_wake_ok' s : buf (wake_ok s) = buf s.
Proof. unfold wake_ok. destruct (wt s); reflexivity. Qed.

Lemma buf_feed_len d s : (length (buf s) <= length (buf (fst (feed_data d s))) <= S (length (buf s)))%nat.
Proof.
  unfold feed_data. destruct (eof s); [cbn; lia|]. destruct d as [|x d]; [cbn; lia|]. cbn [fst].
  match goal with |- context [if ?c then do_pause ?a else ?a] =>
    assert (E : buf (if c then do_pause a else a) = buf a) by (destruct c; reflexivity) end.
  rewrite E, buf_wake_ok'. cbn [buf]. rewrite app_length. cbn. lia.
Qed.

Lemma buf_end_len s : buf (fst (end_chunk s)) = buf s.
Proof.
  unfold end_chunk. destruct (splits s); [|reflexivity]. destruct (empty_chunk _ _); [reflexivity|]. cbn [fst].
  rewrite buf_wake_ok'. match goal with |- context [if ?c then _ else _] => destruct c end; reflexivity.
Qed.

Lemma buf_apply_pitem it s : (length (buf s) <= length (buf (apply_pitem it s)) <= S (length (buf s)))%nat.
Proof.
  destruct it; cbn [apply_pitem]; [apply buf_feed_len|]. destruct (splits s); [rewrite buf_end_len|]; lia.
Qed.

Lemma deliver_measure items : forall s,
  (length (buf s) <= length (buf (deliver items s)))%nat /\
  (length (buf (deliver items s)) + length (pend (deliver items s)) <= length (buf s) + length items)%nat.
Proof.
  induction items as [|it rest IH]; intros s; cbn [deliver]; [cbn; lia|].
  destruct (paused s || eof s); [cbn; lia|].
  pose proof (buf_apply_pitem it s). destruct (IH (apply_pitem it s)). cbn [length]. lia.
Qed.

Lemma consume_whole n f r s : 0 <= n \/ n = -1 -> n - len (snd (consume n f r s)) <> 0 ->
  buf (fst (consume n f r s)) = r /\ pend (fst (consume n f r s)) = pend s.
Proof.
  intros Hn. unfold consume, take_chunk. destruct (take_partial (len f) n) eqn:Et; cbn [fst snd buf pend]; [|auto].
  unfold take_partial in Et. apply andb_true_iff in Et as [E1 E2]. apply negb_true_iff, Z.eqb_neq in E1. apply Z.ltb_lt in E2.
  intros H. exfalso. apply H. unfold len in *. rewrite firstn_length. lia.
Qed.

Lemma consume_buf_ge n f r s : (length r <= length (buf (fst (consume n f r s))))%nat /\ pend (fst (consume n f r s)) = pend s.
Proof. unfold consume, take_chunk. destruct (take_partial _ _); cbn [fst buf pend length]; split; auto; lia. Qed.

Lemma rnc_buf_ge n f r s : (length r <= length (buf (fst (rnc n f r s))))%nat.
Proof.
  unfold rnc. pose proof (consume_buf_ge n f r s) as [A B]. destruct (consume n f r s) as [s1 d]. cbn [fst] in *.
  destruct (resume_cond s1); [|exact A]. unfold do_resume. cbv zeta.
  pose proof (deliver_measure (pend (set_paused s1 false)) (set_paused s1 false)) as [C _].
  set (D := deliver _ _) in *. cbn [buf set_paused] in C. lia.
Qed.

Lemma rnc_measure n f r s : 0 <= n \/ n = -1 -> buf s = f :: r -> n - len (snd (rnc n f r s)) <> 0 ->
  (S (M (fst (rnc n f r s))) <= M s)%nat.
Proof.
  intros Hn Hb Hne. rewrite rnc_snd in Hne. destruct (consume_whole n f r s Hn Hne) as [A B].
  unfold rnc, M. destruct (consume n f r s) as [s1 d]. cbn [fst] in *. rewrite Hb. cbn [length].
  destruct (resume_cond s1).
  - unfold do_resume. cbv zeta.
    pose proof (deliver_measure (pend (set_paused s1 false)) (set_paused s1 false)) as [_ C].
    set (D := deliver _ _) in *. cbn [buf pend set_paused] in C. rewrite A, B in C. lia.
  - rewrite A, B. lia.
Qed.

Lemma rnc_measure_le n f r s : buf s = f :: r -> (M (fst (rnc n f r s)) <= M s)%nat.
Proof.
  intros Hb. unfold rnc, M. pose proof (consume_buf_ge n f r s) as [_ B].
  assert (A : (length (buf (fst (consume n f r s))) <= S (length r))%nat).
  { unfold consume, take_chunk. destruct (take_partial _ _); cbn [fst buf length]; lia. }
  destruct (consume n f r s) as [s1 d]. cbn [fst] in *. rewrite Hb. cbn [length].
  destruct (resume_cond s1).
  - unfold do_resume. cbv zeta.
    pose proof (deliver_measure (pend (set_paused s1 false)) (set_paused s1 false)) as [_ C].
    set (D := deliver _ _) in *. cbn [buf pend set_paused] in C. rewrite B in C. lia.
  - rewrite B. lia.
Qed.

Lemma take_n_ok fuel : forall n s, 0 <= n -> (M s < fuel)%nat ->
  snd (take_n fuel n s) = SOk /\ (M (fst (fst (take_n fuel n s))) <= M s)%nat.
Proof.
  induction fuel as [|fuel IH]; intros n s Hn Hf; [lia|]. rewrite take_n_eq.
  destruct (buf s) as [|f r] eqn:Eb; [cbn; split; [reflexivity|lia]|].
  pose proof (consume_len n f r s Hn) as Hl. rewrite <- rnc_snd in Hl.
  pose proof (rnc_measure n f r s (or_introl Hn) Eb) as Hm.
  pose proof (rnc_measure_le n f r s Eb) as Hle.
  destruct (rnc n f r s) as [s1 d]. cbn [fst snd] in *. cbv zeta.
  destruct (n - len d =? 0) eqn:E0; [cbn; split; [reflexivity|lia]|].
  assert (Hne : n - len d <> 0) by lia. specialize (Hm Hne).
  destruct (IH (n - len d) s1) as [A B]; [lia|lia|].
  destruct (take_n fuel (n - len d) s1) as [[s2 d2] e]. cbn [fst snd] in *. split; [exact A|lia].
Qed.

Lemma drain_ok k : forall s, (k <= length (buf s))%nat ->
  snd (drain k s) = SOk /\ (M (fst (fst (drain k s))) + k <= M s)%nat.
Proof.
  induction k as [|k IH]; intros s Hk; [cbn; split; [reflexivity|lia]|]. rewrite drain_S.
  destruct (buf s) as [|f r] eqn:Eb; [cbn in Hk; lia|]. cbn [length] in Hk.
  pose proof (rnc_buf_ge (-1) f r s) as Hg.
  assert (Hm : (S (M (fst (rnc (-1) f r s))) <= M s)%nat).
  { apply rnc_measure; [right; reflexivity|exact Eb|]. pose proof (len_nonneg (snd (rnc (-1) f r s))). lia. }
  destruct (rnc (-1) f r s) as [s1 d]. cbn [fst] in *.
  destruct (IH s1) as [A B]; [lia|]. destruct (drain k s1) as [[s2 d2] e]. cbn [fst snd] in *. split; [exact A|lia].
Qed.

Lemma read_nowait_ok n s : n = -1 \/ 0 <= n ->
  snd (read_nowait n s) = SOk /\ (M (fst (fst (read_nowait n s))) <= M s)%nat.
Proof.
  intros Hn. unfold read_nowait. destruct (n =? -1) eqn:E.
  - destruct (drain_ok (length (buf s)) s (le_n _)) as [A B]. split; [exact A|lia].
  - apply take_n_ok; [lia|]. unfold fuel_of, M. lia.
Qed.

(* a read that returned something made the measure strictly smaller, unless it ended by a partial take *)
Lemma read_nowait_progress n s : Inv s -> takes n -> snd (fst (read_nowait n s)) <> [] ->
  n - len (snd (fst (read_nowait n s))) <> 0 -> (S (M (fst (fst (read_nowait n s)))) <= M s)%nat.
Proof.
  intros HI Hn Hd Hne. unfold read_nowait in *. destruct (n =? -1) eqn:E.
  - destruct (buf s) as [|f r] eqn:Eb; [cbn in Hd; congruence|].
    destruct (drain_ok (length (f :: r)) s) as [_ B]; [rewrite Eb; lia|]. cbn [length] in B. lia.
  - assert (H0 : 0 <= n) by (destruct Hn; lia). clear Hn. revert Hd Hne.
    unfold fuel_of. rewrite take_n_eq. destruct (buf s) as [|f r] eqn:Eb; [cbn; congruence|].
    pose proof (consume_len n f r s H0) as Hl. rewrite <- rnc_snd in Hl.
    pose proof (rnc_measure n f r s (or_introl H0) Eb) as Hm.
    destruct (rnc n f r s) as [s1 d] eqn:Er. cbn [fst snd] in *. cbv zeta.
    destruct (n - len d =? 0) eqn:E0; [cbn; lia|].
    assert (Hne' : n - len d <> 0) by lia. specialize (Hm Hne').
    destruct (take_n_ok (length (buf s) + length (pend s)) (n - len d) s1) as [_ B]; [lia|unfold M in *; rewrite Eb in *; cbn [length] in *; lia|].
    rewrite Eb in B. destruct (take_n _ (n - len d) s1) as [[s2 d2] e]. cbn [fst snd] in *. intros _ _. unfold M in *. rewrite Eb in *. cbn [length] in *. lia.
Qed.
