(* C09: BaseRequest.read() accumulate-and-test loop *)
From AV Require Import Lib.Base Generated.DecodeGen Model.Decode.
From Coq Require Import ZifyBool ZifyN.
Ltac Zify.zify_post_hook ::= Z.to_euclidean_division_equations.
Open Scope N_scope.

Lemma request_read_inv : forall cms chunks body peak res peak' m,
  cms <> 0 -> lenN body <= cms -> peak <= cms ->
  (forall c, In c chunks -> lenN c <= m) ->
  request_read cms chunks body peak = (res, peak') ->
  peak' <= cms + m /\ (forall b, res = Some b -> lenN b <= cms /\ peak' <= cms).
Proof.
  intros cms chunks. induction chunks as [|c cs IH]; intros body peak res peak' m Hc Hb Hp Hm H; cbn [request_read] in H.
  - inversion H; subst. split; [lia|]. intros b E; inversion E; subst. split; lia.
  - assert (Hcm : lenN c <= m) by (apply Hm; left; reflexivity).
    unfold dg_too_large in H. rewrite lenN_app in H.
    destruct (negb (cms =? 0) && (cms <? lenN body + lenN c)) eqn:E.
    + inversion H; subst. split; [lia|]. intros b E'; discriminate.
    + assert (lenN body + lenN c <= cms) by lia.
      destruct (isnil c).
      * inversion H; subst. split; [lia|]. intros b E'; inversion E'; subst. rewrite lenN_app. split; lia.
      * eapply IH in H; eauto; try (rewrite lenN_app; lia); try lia.
        intros c' Hin; apply Hm; right; exact Hin.
Qed.

Lemma request_read_returned : forall cms chunks b peak,
  cms <> 0 -> request_read cms chunks [] 0 = (Some b, peak) -> lenN b <= cms /\ peak <= cms.
Proof.
  intros cms chunks b peak Hc H.
  assert (Hm : forall c, In c chunks -> lenN c <= fold_right (fun c a => N.max (lenN c) a) 0 chunks).
  { clear. induction chunks as [|a chunks IHc]; intros c Hin; [destruct Hin|].
    cbn [fold_right]. destruct Hin as [->|Hin]; [lia|]. specialize (IHc c Hin). lia. }
  destruct (request_read_inv cms chunks [] 0 (Some b) peak _ Hc ltac:(cbn; lia) ltac:(lia) Hm H) as [_ H2].
  apply H2; reflexivity.
Qed.

Lemma request_read_accumulated : forall cms chunks res peak m,
  cms <> 0 -> (forall c, In c chunks -> lenN c <= m) ->
  request_read cms chunks [] 0 = (res, peak) -> peak <= cms + m.
Proof.
  intros cms chunks res peak m Hc Hm H.
  destruct (request_read_inv cms chunks [] 0 res peak m Hc ltac:(cbn; lia) ltac:(lia) Hm H) as [H1 _]. exact H1.
Qed.
