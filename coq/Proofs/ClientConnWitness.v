(* C06 — concrete traces of the model (regression witnesses of the two repaired defects and non-vacuity examples). *)
From AV Require Import Lib.Base Generated.ClientConnGen Model.ClientConn.
Open Scope N_scope.

Definition rqA : reqp := {| rq_host := 0; rq_port := 80; rq_is_ssl := 0; rq_ssl := 0; rq_proxy := 0; rq_phh := 0; rq_sni := 0 |}.
Definition rqB : reqp := {| rq_host := 0; rq_port := 8080; rq_is_ssl := 0; rq_ssl := 0; rq_proxy := 0; rq_phh := 0; rq_sni := 0 |}.

(* one complete exchange on a fresh connection: head (2 body bytes announced), body, caller reads *)
Definition tr_exchange1 : list event :=
  [EConnect 1 rqA; EParams 1; ESegBegin 0; ETok (KHead 0 2 false false); ESegEnd; ERead 1;
   ESegBegin 0; ETok (KBody 1 2); ESegEnd; EBody 1].

(* W1 (was a refutation before d13503d): an unsolicited response arrives while the connection idles in the pool;
   _get now refuses that connection, the next request gets a fresh one and its own answer *)
Definition tr_idle_unsolicited : list event :=
  tr_exchange1 ++
  [ESegBegin 0; ETok (KHead 2 0 false false); ESegEnd;
   EConnect 2 rqA; EParams 2; ESegBegin 1; ETok (KHead 3 0 false false); ESegEnd; ERead 2].

(* W2 (was a refutation): the surplus response follows the end of the body in the same read; the reader had
   registered its end-of-body callback, so the connection is released in the middle of that read *)
Definition tr_same_read_surplus : list event :=
  [EConnect 1 rqA; EParams 1; ESegBegin 0; ETok (KHead 0 2 false false); ESegEnd; ERead 1;
   ESegBegin 0; ETok (KBody 1 2); ETok (KHead 2 0 false false); ESegEnd;
   EConnect 2 rqA; EParams 2; ESegBegin 1; ETok (KHead 3 0 false false); ESegEnd; ERead 2].

(* W3 (was a refutation before 2b34708): an incomplete line follows the response; should_close now sees the
   parser's line buffer and the connection is closed at release *)
Definition tr_partial_surplus : list event :=
  [EConnect 1 rqA; EParams 1; ESegBegin 0; ETok (KHead 0 0 false false); ETok (KPartial 1); ESegEnd; ERead 1;
   EConnect 2 rqA].

(* W4: the incomplete line arrives while the connection is pooled: refused by _get *)
Definition tr_partial_idle : list event :=
  tr_exchange1 ++ [ESegBegin 0; ETok (KPartial 2); ESegEnd; EConnect 2 rqA].

(* a well-behaved session: two requests share a connection, a third one to another port gets its own *)
Definition tr_good : list event :=
  tr_exchange1 ++
  [EConnect 2 rqA; EParams 2; ESegBegin 0; ETok (KHead 2 1 false false); ETok (KBody 3 1); ESegEnd; ERead 2; EBody 2;
   EConnect 3 rqB; EParams 3; ESegBegin 1; ETok (KHead 4 0 true false); ESegEnd; ERead 3].

Lemma w_idle_unsolicited : exists s, run faithful init tr_idle_unsolicited = Some s /\
  s_idle_parsed s = true /\ s_nconn s = 2 /\ c_phase (s_conn s 0) = PClosed /\
  length (s_log s) = 3%nat /\ forallb well_taggedb (s_log s) = true.
Proof. eexists. split; [vm_compute; reflexivity|]. vm_compute. repeat split; reflexivity. Qed.

Lemma w_same_read_surplus : exists s, run faithful init tr_same_read_surplus = Some s /\
  s_idle_parsed s = true /\ s_nconn s = 2 /\ c_phase (s_conn s 0) = PClosed /\
  length (s_log s) = 2%nat /\ forallb well_taggedb (s_log s) = true.
Proof. eexists. split; [vm_compute; reflexivity|]. vm_compute. repeat split; reflexivity. Qed.

Lemma w_partial_surplus : exists s, run faithful init tr_partial_surplus = Some s /\
  s_nconn s = 2 /\ c_phase (s_conn s 0) = PClosed /\ c_dirty (s_conn s 0) = true /\ s_idle_parsed s = false.
Proof. eexists. split; [vm_compute; reflexivity|]. vm_compute. repeat split; reflexivity. Qed.

Lemma w_partial_idle : exists s, run faithful init tr_partial_idle = Some s /\
  s_nconn s = 2 /\ c_phase (s_conn s 0) = PClosed.
Proof. eexists. split; [vm_compute; reflexivity|]. vm_compute. repeat split; reflexivity. Qed.

Lemma w_good : exists s, run faithful init tr_good = Some s /\
  s_idle_parsed s = false /\ s_tail_surplus s = false /\ s_nconn s = 2 /\
  length (s_log s) = 5%nat /\ forallb well_taggedb (s_log s) = true /\
  c_phase (s_conn s 0) = PIdle /\ c_phase (s_conn s 1) = PClosed.
Proof. eexists. split; [vm_compute; reflexivity|]. vm_compute. repeat split; reflexivity. Qed.
