(* Template matching is inverse to template filling when every hole is closed by a character
   outside its class (a '/' for the default class) or by the end of the template. *)
From AV Require Import Lib.Base Lib.Utf8 Generated.DispatchGen Model.Dispatch Proofs.DispatchStrings.
From Coq Require Import Arith.
Open Scope N_scope.

Definition hole_try (n : str) (mn : nat) (k : str -> option (list (str * str))) (taken_rev s : str) :=
  if Nat.leb mn (length taken_rev) then
    match k s with Some d => Some ((n, rev taken_rev) :: d) | None => None end
  else None.

Fixpoint hole_go (n : str) (c : cls) (mn : nat) (k : str -> option (list (str * str)))
         (taken_rev s : str) {struct s} : option (list (str * str)) :=
  match s with
  | ch :: s' =>
    if cls_mem c ch then
      match hole_go n c mn k (ch :: taken_rev) s' with
      | Some r => Some r
      | None => hole_try n mn k taken_rev s
      end
    else hole_try n mn k taken_rev s
  | [] => hole_try n mn k taken_rev s
  end.

Lemma match_items_hole n c mn r s :
  match_items (Hole n c mn :: r) s = hole_go n c mn (match_items r) [] s.
Proof.
  cbn [match_items]. generalize (@nil N). revert s.
  induction s as [|ch s IH]; intros taken; [reflexivity|].
  cbn [hole_go]. rewrite <- IH. reflexivity.
Qed.

Definition head_outside (c : cls) (t : str) : Prop :=
  match t with [] => True | x :: _ => cls_mem c x = false end.

Lemma hole_go_run n c mn k : forall v taken t d,
  forallb (cls_mem c) v = true -> head_outside c t -> k t = Some d ->
  (mn <= length taken + length v)%nat ->
  hole_go n c mn k taken (v ++ t) = Some ((n, rev taken ++ v) :: d).
Proof.
  induction v as [|ch v IH]; intros taken t d Hv Ht Hk Hl.
  - simpl in Hl. rewrite app_nil_r. simpl.
    assert (E : hole_try n mn k taken t = Some ((n, rev taken) :: d)).
    { unfold hole_try. replace (Nat.leb mn (length taken)) with true by (symmetry; apply Nat.leb_le; lia).
      rewrite Hk. reflexivity. }
    destruct t as [|x t]; [exact E|]. cbn [hole_go]. simpl in Ht. rewrite Ht. exact E.
  - cbn [forallb] in Hv. apply andb_true_iff in Hv as [Hc Hv].
    cbn [app hole_go]. rewrite Hc.
    rewrite (IH (ch :: taken) t d Hv Ht Hk) by (simpl in *; lia).
    cbn [rev]. rewrite <- app_assoc. reflexivity.
Qed.

Definition lookup (n : str) (vals : list (str * str)) : str :=
  match assoc n vals with Some v => v | None => [] end.

Fixpoint fill (its : list item) (vals : list (str * str)) : str :=
  match its with
  | [] => []
  | Lit _ l :: r => l ++ fill r vals
  | Hole n _ _ :: r => lookup n vals ++ fill r vals
  end.

Definition closes (c : cls) (r : list item) : Prop :=
  match r with
  | [] => True
  | Lit _ (x :: _) :: _ => cls_mem c x = false
  | _ => False
  end.

(* every hole value is in the hole's class, long enough, and the hole is closed *)
Fixpoint good_for (its : list item) (vals : list (str * str)) : Prop :=
  match its with
  | [] => True
  | Lit _ _ :: r => good_for r vals
  | Hole n c mn :: r =>
    forallb (cls_mem c) (lookup n vals) = true /\ (mn <= length (lookup n vals))%nat /\
    closes c r /\ good_for r vals
  end.

Definition bindings (its : list item) (vals : list (str * str)) : list (str * str) :=
  map (fun n => (n, lookup n vals)) (hole_names its).

Theorem match_fill its vals : good_for its vals ->
  match_items its (fill its vals) = Some (bindings its vals).
Proof.
  induction its as [|it its IH]; intros H; [reflexivity|].
  destruct it as [f l|n c mn].
  - cbn [match_items fill]. assert (S : strip_prefix l (l ++ fill its vals) = Some (fill its vals))
      by (apply strip_prefix_some; reflexivity).
    rewrite S. apply IH. exact H.
  - destruct H as (Hv & Hl & Hc & Hg). rewrite match_items_hole. cbn [fill].
    rewrite (hole_go_run n c mn (match_items its) (lookup n vals) [] (fill its vals) (bindings its vals)).
    + reflexivity.
    + exact Hv.
    + unfold closes in Hc. destruct its as [|[f [|x l]|] its']; try contradiction; simpl; auto.
    + apply IH. exact Hg.
    + simpl. exact Hl.
Qed.

(* ---- the quoting layer, for values that need no quoting *)

Definition plain_char (c : N) : bool :=
  ((48 <=? c) && (c <=? 57)) || ((65 <=? c) && (c <=? 90)) || ((97 <=? c) && (c <=? 122))
  || memN c [45; 46; 95; 126].

Lemma plain_char_facts c : plain_char c = true ->
  (c <? 128) && path_safe_char c = true /\ (c =? 58) = false /\ (c =? PCT) = false /\ scheme_char c || (c =? 95) || (c =? 126) = true.
Proof.
  unfold plain_char, path_safe_char, scheme_char, PCT. cbn [memN]. intros H.
  repeat split; lia.
Qed.

Lemma quote_chars_plain v : forallb plain_char v = true -> quote_chars v = Some v.
Proof.
  induction v as [|c v IH]; [reflexivity|]. cbn [forallb]. intros H. apply andb_true_iff in H as [Hc Hv].
  cbn [quote_chars]. destruct (plain_char_facts c Hc) as (E & _). rewrite E, (IH Hv). reflexivity.
Qed.

Lemma encode_colon_aux_plain v b : forallb plain_char v = true -> encode_colon_aux b v = v.
Proof.
  revert b. induction v as [|c v IH]; intros b; [reflexivity|]. cbn [forallb]. intros H.
  apply andb_true_iff in H as [Hc Hv]. cbn [encode_colon_aux].
  destruct (plain_char_facts c Hc) as (_ & E & _). rewrite E.
  destruct (scheme_char c); [rewrite IH; auto|reflexivity].
Qed.

Lemma quote_path_plain v : forallb plain_char v = true -> quote_path v = Some v.
Proof.
  intros H. unfold quote_path. rewrite (quote_chars_plain v H). unfold encode_colon.
  rewrite encode_colon_aux_plain; auto.
Qed.

Lemma plain_no_pct v : forallb plain_char v = true -> memN PCT v = false.
Proof.
  induction v as [|c v IH]; [reflexivity|]. cbn [forallb memN]. intros H. apply andb_true_iff in H as [Hc Hv].
  destruct (plain_char_facts c Hc) as (_ & _ & E & _). rewrite N.eqb_sym, E, IH; auto.
Qed.

Lemma replace_aux_nohead pat rep s x pat' :
  pat = x :: pat' -> memN x s = false -> replace_aux pat rep O s = s.
Proof.
  intros -> . induction s as [|c s IH]; [reflexivity|]. cbn [memN]. intros H.
  apply orb_false_iff in H as [H1 H2]. cbn [replace_aux starts_with]. rewrite H1. cbn [andb].
  rewrite IH; auto.
Qed.

Lemma unquote_no_pct v : memN PCT v = false -> unquote_path_safe v = v.
Proof.
  intros H. unfold unquote_path_safe, unquote_table. cbn [fold_left fst snd]. unfold replace_all.
  rewrite (replace_aux_nohead _ _ v PCT _ eq_refl H).
  rewrite (replace_aux_nohead _ _ v PCT _ eq_refl H). reflexivity.
Qed.

Definition plain_values (its : list item) (vals : list (str * str)) : Prop :=
  forall n, In n (hole_names its) -> exists v, assoc n vals = Some v /\ forallb plain_char v = true.

(* literal parts that need no quoting: formatter text = matched text, no '%' *)
Fixpoint lits_no_pct (its : list item) : Prop :=
  match its with
  | [] => True
  | Lit f l :: r => memN PCT f = false /\ l = f /\ lits_no_pct r
  | Hole _ _ _ :: r => lits_no_pct r
  end.

Lemma format_fill its vals : lits_no_pct its -> plain_values its vals -> format_items its vals = Some (fill its vals).
Proof.
  induction its as [|it its IH]; intros HL H; [reflexivity|].
  destruct it as [f l|n c mn]; cbn [format_items fill].
  - destruct HL as (_ & -> & HL). rewrite IH; [reflexivity|exact HL|]. intros n Hn. apply H. exact Hn.
  - destruct (H n (or_introl eq_refl)) as (v & Hv & Hp). unfold lookup. rewrite Hv, (quote_path_plain v Hp).
    rewrite IH; [reflexivity|exact HL|]. intros n' Hn. apply H. simpl. auto.
Qed.

Lemma unquote_bindings its vals : plain_values its vals ->
  unquote_dict (bindings its vals) = bindings its vals.
Proof.
  unfold bindings, unquote_dict. intros H. rewrite map_map. apply map_ext_in. intros n Hn. cbn [fst snd].
  destruct (H n Hn) as (v & Hv & Hp). unfold lookup. rewrite Hv, unquote_no_pct; [reflexivity|].
  apply plain_no_pct; assumption.
Qed.

Lemma fill_no_pct its vals : lits_no_pct its -> plain_values its vals -> memN PCT (fill its vals) = false.
Proof.
  induction its as [|it its IH]; intros HL HP; [reflexivity|].
  destruct it as [f l|n c mn]; cbn [fill]; rewrite memN_app.
  - destruct HL as (Hl & -> & HL). rewrite Hl, IH; auto.
  - destruct (HP n (or_introl eq_refl)) as (v & Hv & Hp). unfold lookup. rewrite Hv, (plain_no_pct v Hp).
    apply IH; [exact HL|]. intros n' Hn. apply HP. simpl. auto.
Qed.

(* url_for, then matching the produced path, gives back the values *)
Theorem url_for_inverse_plain o f pat rt vals :
  good_for pat vals -> plain_values pat vals -> lits_no_pct pat ->
  exists u, url_for (RDyn o f pat rt) vals = Some u /\ memN PCT u = false /\
            option_map unquote_dict (match_items pat u) = Some (bindings pat vals).
Proof.
  intros Hg Hp Hl. exists (fill pat vals). cbn [url_for]. split; [apply format_fill; assumption|].
  split; [apply fill_no_pct; assumption|].
  rewrite match_fill by assumption. cbn [option_map]. rewrite unquote_bindings; auto.
Qed.

(* ---- soundness: every matched value lies in the class of its hole *)

Lemma forallb_rev {A} (f : A -> bool) l : forallb f (rev l) = forallb f l.
Proof.
  induction l as [|x l IH]; [reflexivity|]. cbn [rev forallb]. rewrite forallb_app, IH. cbn [forallb].
  rewrite andb_true_r. apply andb_comm.
Qed.

Lemma hole_try_sound n c mn k taken s r :
  forallb (cls_mem c) taken = true -> hole_try n mn k taken s = Some r ->
  exists v d, r = (n, v) :: d /\ forallb (cls_mem c) v = true /\ k s = Some d.
Proof.
  unfold hole_try. intros Ht H. destruct (Nat.leb mn (length taken)); [|discriminate].
  destruct (k s) as [d|] eqn:E; [|discriminate]. inversion H. exists (rev taken), d.
  rewrite forallb_rev. auto.
Qed.

Lemma hole_go_sound n c mn k : forall s taken r,
  forallb (cls_mem c) taken = true -> hole_go n c mn k taken s = Some r ->
  exists v d t, r = (n, v) :: d /\ forallb (cls_mem c) v = true /\ k t = Some d.
Proof.
  induction s as [|ch s IH]; intros taken r Ht H; cbn [hole_go] in H.
  - destruct (hole_try_sound n c mn k taken [] r Ht H) as (v & d & H1 & H2 & H3). eauto 6.
  - destruct (cls_mem c ch) eqn:Ec.
    + destruct (hole_go n c mn k (ch :: taken) s) as [r'|] eqn:Eg.
      * inversion H; subst r'. apply (IH (ch :: taken) r); [|exact Eg]. cbn [forallb]. rewrite Ec, Ht. reflexivity.
      * destruct (hole_try_sound n c mn k taken (ch :: s) r Ht H) as (v & d & H1 & H2 & H3). eauto 6.
    + destruct (hole_try_sound n c mn k taken (ch :: s) r Ht H) as (v & d & H1 & H2 & H3). eauto 6.
Qed.

Theorem match_values_in_class its : forall p d, match_items its p = Some d ->
  Forall (fun nv => exists c mn, In (Hole (fst nv) c mn) its /\ forallb (cls_mem c) (snd nv) = true) d.
Proof.
  induction its as [|it its IH]; intros p d H.
  - simpl in H. destruct (is_nil p); inversion H. constructor.
  - destruct it as [f l|n c mn].
    + cbn [match_items] in H. destruct (strip_prefix l p) as [r|]; [|discriminate].
      specialize (IH r d H). eapply Forall_impl; [|exact IH].
      intros nv (c & mn & Hin & Hv). exists c, mn. split; [right; exact Hin|exact Hv].
    + rewrite match_items_hole in H.
      destruct (hole_go_sound n c mn (match_items its) p [] d eq_refl H) as (v & d' & t & -> & Hv & Hk).
      constructor.
      * exists c, mn. split; [left; reflexivity|exact Hv].
      * specialize (IH t d' Hk). eapply Forall_impl; [|exact IH].
        intros nv (c' & mn' & Hin & Hv'). exists c', mn'. split; [right; exact Hin|exact Hv'].
Qed.

(* the documented default class: a plain {name} never matches '/', '{' or '}' *)
Lemma good_char_excludes c : good_char c = true -> c <> 47 /\ c <> 123 /\ c <> 125.
Proof. unfold good_char. intros H. repeat split; intros ->; discriminate H. Qed.

Theorem default_hole_stays_in_segment its p d n v :
  match_items its p = Some d -> In (n, v) d ->
  (forall c mn, In (Hole n c mn) its -> c = CGood) ->
  ~ In 47 v /\ ~ In 123 v /\ ~ In 125 v.
Proof.
  intros Hm Hin Hc. pose proof (match_values_in_class its p d Hm) as Hall.
  rewrite Forall_forall in Hall. destruct (Hall (n, v) Hin) as (c & mn & Hh & Hv). cbn [fst snd] in *.
  rewrite (Hc c mn Hh) in Hv. rewrite forallb_forall in Hv.
  repeat split; intros Hx; apply Hv in Hx; cbn [cls_mem] in Hx; apply good_char_excludes in Hx; tauto.
Qed.
