(* C18 — main lemmas: bounds, residue, isolation, the shared lookup survives (over ALL traces). *)
From Coq Require Import ZArith Lia Bool List.
From AV Require Import Lib.Base Generated.TimeoutsGen Model.Timeouts Proofs.TimeoutsArith Proofs.TimeoutsEff
  Proofs.TimeoutsInv Proofs.TimeoutsTimers.
Open Scope Z_scope.

Lemma run_inv_tinv g : 0 < u g -> forall tr s s',
  Forall wf_event tr -> Inv s -> Tinv g s -> run g s tr = Some s' -> Inv s' /\ Tinv g s'.
Proof.
  intros Hu. induction tr as [|e tr IH]; simpl; intros s s' W I T H.
  - injection H as <-. auto.
  - destruct (step g s e) as [s1|] eqn:E; [|discriminate]. inversion W; subst.
    apply (IH s1 s'); auto.
    + apply (step_inv g s e s1 I E).
    + apply (step_tinv g s e s1 Hu); assumption.
Qed.

Lemma Tinv_init g : Tinv g init.
Proof. intro t. apply tinv_idle. Qed.

Lemma reach_all g tr s : 0 < u g -> Forall wf_event tr -> run g init tr = Some s -> Inv s /\ Tinv g s.
Proof. intros Hu W H. apply (run_inv_tinv g Hu tr init s W Inv_init (Tinv_init g) H). Qed.

(* ---- bounds ------------------------------------------------------------------------------------------ *)

Lemma awaiting_live p : awaiting p = true -> live p = true.
Proof. destruct p as [| | | | |[|]| | |]; simpl; congruence. Qed.

Lemma connecting_awaiting p : connecting p = true -> awaiting p = true.
Proof. destruct p as [| | | | |[|]| | |]; simpl; congruence. Qed.

Lemma bound_total g tr s t T :
  0 < u g -> Forall wf_event tr -> run g init tr = Some s ->
  awaiting (pcs (tasks s t)) = true -> eff_total (cfg (tasks s t)) = Some T -> 0 < T ->
  let ts := tasks s t in
  let D := total_when (u g) (started ts) T (c_thr (cfg ts)) in
  d_total (tm ts) = Some D /\ now s <= D /\ D <= ceil_to (u g) (started ts + T) /\ D < started ts + T + u g /\
  (T < c_thr (cfg ts) -> D = started ts + T).
Proof.
  intros Hu W H A E P ts D. destruct (reach_all g tr s Hu W H) as [I Ti]. specialize (Ti t).
  pose proof (awaiting_total g (now s) ts Ti A) as Ed. fold ts in E.
  unfold arm_total in Ed. rewrite E in Ed.
  assert (En : total_enabled (Some T) = true) by (apply total_enabled_iff; eauto). rewrite En in Ed.
  pose proof (total_when_le (u g) (started ts) T (c_thr (cfg ts)) Hu).
  pose proof (ceil_to_lt (u g) (started ts + T) Hu).
  repeat split; auto; try lia.
  - apply (t_urgent _ _ _ Ti TTotal). exact Ed.
  - apply total_when_exact.
Qed.

Lemma bound_connect g tr s t T :
  0 < u g -> Forall wf_event tr -> run g init tr = Some s ->
  connecting (pcs (tasks s t)) = true -> c_connect (cfg (tasks s t)) = Some T -> 0 < T ->
  let ts := tasks s t in
  let D := ctx_when (u g) (started ts) T (c_thr (cfg ts)) in
  d_conn (tm ts) = Some D /\ now s <= D /\ D <= ceil_to (u g) (started ts + T) /\ D < started ts + T + u g /\
  (T <= c_thr (cfg ts) -> D = started ts + T).
Proof.
  intros Hu W H C E P ts D. destruct (reach_all g tr s Hu W H) as [I Ti]. specialize (Ti t).
  pose proof (t_conn _ _ _ Ti) as Ed. fold ts in Ed, E, C. rewrite C in Ed. unfold arm_ctx in Ed. rewrite E in Ed.
  assert (En : ctx_enabled (Some T) = true) by (apply ctx_enabled_iff; eauto). rewrite En in Ed.
  pose proof (ctx_when_le (u g) (started ts) T (c_thr (cfg ts)) Hu).
  pose proof (ceil_to_lt (u g) (started ts + T) Hu).
  repeat split; auto; try lia.
  - apply (t_urgent _ _ _ Ti TConn). exact Ed.
  - apply ctx_when_exact.
Qed.

Lemma bound_sock_connect g tr s t T :
  0 < u g -> Forall wf_event tr -> run g init tr = Some s ->
  pcs (tasks s t) = PConnect -> c_sock_connect (cfg (tasks s t)) = Some T -> 0 < T ->
  let ts := tasks s t in
  let D := ctx_when (u g) (sock_started ts) T (c_thr (cfg ts)) in
  d_sock (tm ts) = Some D /\ now s <= D /\ D <= ceil_to (u g) (sock_started ts + T) /\
  D < sock_started ts + T + u g /\ (T <= c_thr (cfg ts) -> D = sock_started ts + T).
Proof.
  intros Hu W H C E P ts D. destruct (reach_all g tr s Hu W H) as [I Ti]. specialize (Ti t).
  pose proof (t_sock _ _ _ Ti) as Ed. fold ts in Ed, E, C. rewrite C in Ed. unfold arm_ctx in Ed. rewrite E in Ed.
  assert (En : ctx_enabled (Some T) = true) by (apply ctx_enabled_iff; eauto). rewrite En in Ed.
  pose proof (ctx_when_le (u g) (sock_started ts) T (c_thr (cfg ts)) Hu).
  pose proof (ceil_to_lt (u g) (sock_started ts + T) Hu).
  repeat split; auto; try lia.
  - apply (t_urgent _ _ _ Ti TSock). exact Ed.
  - apply ctx_when_exact.
Qed.

Lemma bound_sock_read g tr s t T :
  0 < u g -> Forall wf_event tr -> run g init tr = Some s ->
  pcs (tasks s t) = PHeaders \/ pcs (tasks s t) = PBody true -> writer (tasks s t) = false ->
  c_sock_read (cfg (tasks s t)) = Some T -> T <> 0 ->
  let ts := tasks s t in
  d_read (tm ts) = Some (last_io ts + T) /\ now s <= last_io ts + T /\ last_io ts <= now s.
Proof.
  intros Hu W H P Wr E NZ ts. destruct (reach_all g tr s Hu W H) as [I Ti]. specialize (Ti t). fold ts in P, Wr, E.
  assert (A : awaiting (pcs ts) = true) by (destruct P as [-> | ->]; reflexivity).
  assert (Hc : has_conn (pcs ts) = true) by (destruct P as [-> | ->]; reflexivity).
  destruct (t_awaiting _ _ _ Ti A) as [La Pa].
  assert (Ed : d_read (tm ts) = arm_read (cfg ts) (last_io ts)).
  { apply (t_read _ _ _ Ti); auto. rewrite La. discriminate. }
  unfold arm_read in Ed. rewrite E in Ed.
  assert (En : read_enabled (Some T) = true) by (apply read_enabled_iff; eauto). rewrite En in Ed.
  unfold read_when in Ed. repeat split; auto.
  - apply (t_urgent _ _ _ Ti TRead). exact Ed.
  - apply (t_last_io _ _ _ Ti Hc).
Qed.

(* time cannot pass an armed deadline *)
Lemma adv_respects_deadlines g s d s' t w D :
  Inv s -> step g s (EAdv d) = Some s' -> deadline (tasks s t) w = Some D -> now s + d <= D.
Proof.
  intros I H E. simpl in H. destruct ((0 <=? d) && all_timers_ok (now s + d) (tasks s) (ids s)) eqn:G; [|discriminate].
  apply andb_true_iff in G as [_ G]. destruct (i_ids _ _ I t) as [X|X].
  - pose proof (all_timers_ok_In _ _ _ t G X) as Ok. unfold timers_ok, le_opt in Ok.
    repeat (apply andb_true_iff in Ok as [Ok ?]). destruct w; simpl in E; rewrite E in *; lia.
  - rewrite X in E. destruct w; discriminate.
Qed.

Definition fire_kind (w : timer) : failure :=
  match w with TTotal => FTotal | TConn => FConnect | TSock => FSockConnect | TRead => FSockRead end.

(* ... and when it is reached while the caller is awaiting, the timer event is enabled and fails the request
   at that very instant, with the timeout error of that timer *)
Lemma due_timer_fails g tr s t w D :
  0 < u g -> Forall wf_event tr -> run g init tr = Some s ->
  awaiting (pcs (tasks s t)) = true -> deadline (tasks s t) w = Some D -> D <= now s ->
  exists s', step g s (EFire t w) = Some s' /\ now s' = now s /\
             tasks s' t = failed (tasks s t) (fire_kind w) (now s).
Proof.
  intros Hu W H A E Le. destruct (reach_all g tr s Hu W H) as [I Ti]. specialize (Ti t).
  assert (Lb : (D <=? now s) = true) by (apply Z.leb_le; assumption).
  exists (fail g s t (fire_kind w)). split; [|split; [apply fail_now|apply fail_own]].
  simpl. rewrite E, Lb. destruct w; simpl in *.
  - rewrite A. reflexivity.
  - pose proof (t_conn _ _ _ Ti) as X. destruct (connecting (pcs (tasks s t))); [reflexivity|congruence].
  - pose proof (t_sock _ _ _ Ti) as X. destruct (pcs (tasks s t)); try congruence; reflexivity.
  - rewrite A. reflexivity.
Qed.

(* ---- residue -------------------------------------------------------------------------------------------- *)

Lemma dead_no_timers g nw ts : tinv g nw ts -> live (pcs ts) = false -> tm ts = no_timers.
Proof.
  intros T L. pose proof (t_total_only _ _ _ T L) as A. pose proof (t_conn _ _ _ T) as B.
  pose proof (t_sock _ _ _ T) as C.
  assert (Hc : has_conn (pcs ts) = false) by (destruct (pcs ts) as [| | | | |[|]| | |]; simpl in *; congruence).
  pose proof (t_read_only _ _ _ T Hc) as D'.
  assert (Cn : connecting (pcs ts) = false) by (destruct (pcs ts) as [| | | | |[|]| | |]; simpl in *; congruence).
  rewrite Cn in B. assert (C' : d_sock (tm ts) = None) by (destruct (pcs ts); simpl in *; congruence).
  destruct (tm ts); simpl in *. unfold no_timers. congruence.
Qed.

(* once the connection has been given back (response complete, or the request failed) no timer of the request
   is armed - whatever the order of end of body, pause/resume, body-written and read events was *)
Lemma released_no_timers g tr s t :
  0 < u g -> Forall wf_event tr -> run g init tr = Some s -> live (pcs (tasks s t)) = false ->
  tm (tasks s t) = no_timers /\ ~ In t (acq s) /\ writer (tasks s t) = false.
Proof.
  intros Hu W H L. destruct (reach_all g tr s Hu W H) as [I Ti]. repeat split.
  - apply (dead_no_timers g (now s)); [apply Ti|assumption].
  - intro X. apply (i_acq _ _ I) in X. unfold pc_of in X.
    destruct (pcs (tasks s t)) as [| | | | |[|]| | |]; simpl in *; discriminate.
  - apply (l_quiet _ (i_local _ _ I t)). destruct (pcs (tasks s t)) as [| | | | |[|]| | |]; simpl in *; auto; discriminate.
Qed.

Lemma residue g tr s t f a :
  0 < u g -> Forall wf_event tr -> run g init tr = Some s -> pcs (tasks s t) = PFailed f a ->
  ~ In t (acq s) /\ ~ In t (waiters s) /\ writer (tasks s t) = false /\ tm (tasks s t) = no_timers /\
  (forall c, conn_of (tasks s t) = Some c ->
     In c (closedc s) /\ ~ In c (idle s) /\
     forall t', has_conn (pcs (tasks s t')) = true -> conn_of (tasks s t') <> Some c).
Proof.
  intros Hu W H P. destruct (reach_all g tr s Hu W H) as [I Ti].
  repeat split.
  - intro X. apply (i_acq _ _ I) in X. unfold pc_of in X. rewrite P in X. discriminate.
  - intro X. apply (i_wait _ _ I) in X. unfold pc_of in X. rewrite P in X. destruct X. discriminate.
  - apply (l_quiet _ (i_local _ _ I t)). rewrite P. reflexivity.
  - apply (dead_no_timers g (now s)); [apply Ti|]. rewrite P. reflexivity.
  - apply (i_failed_conn _ _ I t f a c P H0).
  - intro X. apply (i_idle _ _ I c X). apply (i_failed_conn _ _ I t f a c P H0).
  - intros t' Hc E. destruct (i_conn _ _ I t' c Hc E) as [_ [Y _]]. apply Y.
    apply (i_failed_conn _ _ I t f a c P H0).
Qed.

(* the pool holds exactly the requests that are being established or served; the queue exactly those waiting *)
Lemma pool_coherent g tr s :
  run g init tr = Some s ->
  NoDup (acq s) /\ NoDup (waiters s) /\
  (forall t, In t (acq s) <-> holds_slot (pcs (tasks s t)) = true) /\
  (forall t, In t (waiters s) <-> pcs (tasks s t) = PWaitSlot) /\
  (forall c, In c (idle s) -> ~ In c (closedc s) /\ forall t, has_conn (pcs (tasks s t)) = true -> conn_of (tasks s t) <> Some c).
Proof.
  intro H. pose proof (reach_inv g tr s H) as I.
  split; [apply (i_acq_nodup _ _ I)|]. split; [apply (i_wait_nodup _ _ I)|]. split; [apply (i_acq _ _ I)|].
  split.
  - intro t. rewrite (i_wait _ _ I t). unfold pc_of.
    split; [intros [A _]; exact A|intro A; split; [exact A|discriminate]].
  - intros c Hc. split; [apply (i_idle _ _ I c Hc)|]. intros t Hh E.
    destruct (i_conn _ _ I t c Hh E) as [_ [_ Z]]. contradiction.
Qed.

(* ---- isolation -------------------------------------------------------------------------------------------- *)

(* the only events that make request t fail with f *)
Definition cause (t : task) (f : failure) (e : event) : Prop :=
  (e = ECancel t /\ f = FCancelled) \/ (exists w, e = EFire t w /\ f = fire_kind w) \/ e = ERead t.

Lemma acquired_form_not_failed g nw old new f a : acquired_form g nw old new -> pcs new <> PFailed f a.
Proof.
  intros [[c ->]|[->| ->]]; simpl; try discriminate.
  destruct (to_headers_fields old c nw) as [P _]. rewrite P. discriminate.
Qed.

Lemma step_failed_cause g s e s' t f a :
  Inv s -> step g s e = Some s' -> pcs (tasks s' t) = PFailed f a ->
  pcs (tasks s t) = PFailed f a \/ (cause t f e /\ a = now s /\ pending (pcs (tasks s t)) = true).
Proof.
  intros I H P. destruct (option_eq_dec_task (ev_task e) (Some t)) as [E|N].
  - pose proof (step_own g s e s' t H E) as O. right.
    destruct O; subst e;
      repeat match goal with
      | H : exists k, tasks s' t = _ |- _ => destruct H as [? H]
      | H : tasks s' t = _ \/ tasks s' t = _ |- _ => destruct H as [H|H]
      | H : tasks s' t = _ |- _ => rewrite H in P; clear H
      end; simpl in P; try discriminate;
      try (match type of P with pcs (to_headers ?o ?c ?n) = _ =>
             destruct (to_headers_fields o c n) as [X _]; rewrite X in P; discriminate end);
      try (match type of P with pcs (read_ts ?o ?n) = _ => unfold read_ts in P; destruct (paused o); discriminate end);
      try (match type of P with pcs (ended_ts ?o ?r) = _ => destruct r; discriminate end);
      try (exfalso; match goal with Hc : has_conn (pcs (tasks s t)) = true |- _ => rewrite P in Hc; discriminate end);
      try (exfalso; match goal with Hc : pcs (tasks s t) = _ |- _ => rewrite Hc in P; discriminate end);
      simpl in E; injection E as ->; injection P as <- <-.
    + unfold cause. repeat split; auto.
      match goal with H : pcs (tasks s t) = _ \/ pcs (tasks s t) = _ |- _ => destruct H as [H|H]; rewrite H end; reflexivity.
    + unfold cause. repeat split; auto.
    + match goal with H : _ \/ _ |- _ => destruct H as [[-> [-> A]]|[[-> [-> A]]|[[-> [-> A]]|[-> [-> A]]]]] end;
        (split; [right; left; eexists; split; reflexivity|split; [reflexivity|apply live_pending]]).
      * now apply awaiting_live.
      * apply awaiting_live. now apply connecting_awaiting.
      * rewrite A. reflexivity.
      * now apply awaiting_live.
  - left. destruct (step_other g s e s' t (Inv_waiters_wait s I) H N) as [X|[[_ F]|[_ X]]].
    + rewrite <- X. assumption.
    + exfalso. eapply acquired_form_not_failed; eauto.
    + rewrite X in P. discriminate.
Qed.

Lemma run_failed_cause g : forall tr s0 s t f a,
  Inv s0 -> run g s0 tr = Some s -> pcs (tasks s t) = PFailed f a ->
  pcs (tasks s0 t) = PFailed f a \/ exists e, In e tr /\ cause t f e.
Proof.
  induction tr as [|e tr IH]; simpl; intros s0 s t f a I H P.
  - injection H as <-. left. assumption.
  - destruct (step g s0 e) as [s1|] eqn:E; [|discriminate].
    destruct (IH s1 s t f a (step_inv g s0 e s1 I E) H P) as [X|[e' [In' C]]].
    + destruct (step_failed_cause g s0 e s1 t f a I E X) as [Y|[C _]]; [left; assumption|].
      right. exists e. split; [left; reflexivity|assumption].
    + right. exists e'. split; [right; assumption|assumption].
Qed.

(* what one step can do to a request that is not its subject: nothing, or progress (a queued request
   is woken, a request waiting for the shared lookup starts connecting) -- never a failure *)
Lemma step_bystander g s e s' t :
  Inv s -> step g s e = Some s' -> ev_task e <> Some t ->
  tasks s' t = tasks s t \/
  (pcs (tasks s t) = PWaitSlot /\ (pcs (tasks s' t) = PHeaders \/ pcs (tasks s' t) = PConnect \/ pcs (tasks s' t) = PResolve)) \/
  (pcs (tasks s t) = PResolve /\ pcs (tasks s' t) = PConnect).
Proof.
  intros I H N. destruct (step_other g s e s' t (Inv_waiters_wait s I) H N) as [X|[[P F]|[P X]]].
  - left. assumption.
  - right; left. split; [assumption|]. destruct F as [[c ->]|[->| ->]]; simpl; auto.
    left. apply to_headers_fields.
  - right; right. split; [assumption|]. rewrite X. reflexivity.
Qed.

(* ---- the shared lookup ------------------------------------------------------------------------------------ *)

Lemma acquire_dns g s t : dns s = DInflight \/ dns s = DCached -> dns (acquire g s t) = dns s.
Proof. unfold acquire. destruct (idle s); [|reflexivity]. intros [E|E]; rewrite E; reflexivity. Qed.

Lemma wake_dns g s : dns s = DInflight \/ dns s = DCached -> dns (wake g s) = dns s.
Proof.
  intro H. unfold wake. destruct (waiters s); [reflexivity|]. destruct (release_skips_key _); [reflexivity|].
  rewrite acquire_dns; simpl; auto.
Qed.

Lemma fail_dns g s t f : dns s = DInflight \/ dns s = DCached -> dns (fail g s t f) = dns s.
Proof. intro H. unfold fail. destruct (holds_slot _); [rewrite wake_dns|]; simpl; auto. Qed.

(* no timeout, cancellation or any other event but the resolver's answer ends the lookup in flight, and a
   cached answer stays *)
Lemma step_dns g s e s' :
  step g s e = Some s' -> dns s = DInflight \/ dns s = DCached ->
  dns s' = dns s \/ (e = EDns /\ dns s = DInflight /\ dns s' = DCached).
Proof.
  intros H D. destruct e; simpl in H.
  - break_match H. injection H as <-. left. reflexivity.
  - break_match H; injection H as <-; left; try reflexivity; rewrite acquire_dns; simpl; auto.
  - break_match H. injection H as <-. right. auto.
  - break_match H. injection H as <-. left. reflexivity.
  - break_match H. injection H as <-. left. reflexivity.
  - break_match H; injection H as <-; left; try reflexivity; rewrite wake_dns; simpl; auto.
  - break_match H; injection H as <-; left; try reflexivity; rewrite fail_dns; simpl; auto.
  - break_match H; injection H as <-; left; rewrite fail_dns; simpl; auto.
  - break_match H; injection H as <-; left; try reflexivity; rewrite fail_dns; simpl; auto.
Qed.

(* ---- statements over reachable states (wrappers used by Props/C18.v) ------------------------------------- *)

Lemma time_stops_at_deadline g tr s d s' t w D :
  run g init tr = Some s -> step g s (EAdv d) = Some s' -> deadline (tasks s t) w = Some D -> now s + d <= D.
Proof. intros H. apply adv_respects_deadlines. apply (reach_inv g tr s H). Qed.

(* a timer fires exactly at its deadline; if the caller is awaiting, the request has failed with that timer's
   error and the failure is stamped with the deadline *)
Lemma timeout_at_deadline g tr s t w s' :
  0 < u g -> Forall wf_event tr -> run g init tr = Some s -> step g s (EFire t w) = Some s' ->
  exists D, deadline (tasks s t) w = Some D /\ now s = D /\ now s' = D /\
            (awaiting (pcs (tasks s t)) = true -> tasks s' t = failed (tasks s t) (fire_kind w) D).
Proof.
  intros Hu W H E. destruct (reach_all g tr s Hu W H) as [I Ti].
  pose proof (step_now g s _ s' E) as Nw. simpl in Nw.
  simpl in E. destruct (deadline (tasks s t) w) as [D|] eqn:Ed; [|discriminate].
  destruct (D <=? now s) eqn:Le; [|discriminate]. apply Z.leb_le in Le.
  pose proof (t_urgent _ _ _ (Ti t) w D Ed) as U.
  assert (ND : now s = D) by lia. exists D. repeat split; auto; try lia.
  intro A. destruct (due_timer_fails g tr s t w D Hu W H A Ed Le) as [s2 [E2 [_ T2]]].
  simpl in E2. rewrite Ed in E2. assert (Lb : (D <=? now s) = true) by (apply Z.leb_le; lia).
  rewrite Lb in E2. rewrite E2 in E. injection E as <-. rewrite T2, ND. reflexivity.
Qed.

Lemma failed_only_by_own_event g tr s t f a :
  run g init tr = Some s -> pcs (tasks s t) = PFailed f a -> exists e, In e tr /\ cause t f e.
Proof.
  intros H P. destruct (run_failed_cause g tr init s t f a Inv_init H P) as [X|X]; [discriminate|assumption].
Qed.

Lemma bystander_untouched g tr s e s' t :
  run g init tr = Some s -> step g s e = Some s' -> ev_task e <> Some t ->
  tasks s' t = tasks s t \/
  (pcs (tasks s t) = PWaitSlot /\ (pcs (tasks s' t) = PHeaders \/ pcs (tasks s' t) = PConnect \/ pcs (tasks s' t) = PResolve)) \/
  (pcs (tasks s t) = PResolve /\ pcs (tasks s' t) = PConnect).
Proof. intro H. apply step_bystander. apply (reach_inv g tr s H). Qed.

Lemma failure_stamped_now g tr s e s' t f a :
  run g init tr = Some s -> step g s e = Some s' -> pcs (tasks s' t) = PFailed f a ->
  pcs (tasks s t) = PFailed f a \/ (cause t f e /\ a = now s /\ pending (pcs (tasks s t)) = true).
Proof. intro H. apply step_failed_cause. apply (reach_inv g tr s H). Qed.
