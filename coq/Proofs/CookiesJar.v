(* C16 — lemmas about the jar's tables: deletion and expiry keep the host-only and deadline side tables
   in step with the cookies that remain. *)
From AV Require Import Lib.Base Generated.CookiesGen Model.Cookies Proofs.CookiesStrings.
Open Scope N_scope.

(* ------------------------------------------------------------ keys *)

Lemma key_eqb_eq a b : key_eqb a b = true <-> a = b.
Proof.
  destruct a as [[d1 p1] n1], b as [[d2 p2] n2]. unfold key_eqb.
  rewrite !andb_true_iff, !list_eqb_eq. split.
  - intros [[-> ->] ->]. reflexivity.
  - intro H. inversion H. auto.
Qed.

Lemma key_eqb_refl a : key_eqb a a = true.
Proof. apply key_eqb_eq. reflexivity. Qed.

Lemma key_eqb_neq a b : key_eqb a b = false <-> a <> b.
Proof.
  split; intro H.
  - intro E. apply key_eqb_eq in E. congruence.
  - destruct (key_eqb a b) eqn:E; [apply key_eqb_eq in E; contradiction|reflexivity].
Qed.

Lemma dn_eqb_eq a b : dn_eqb a b = true <-> a = b.
Proof.
  destruct a, b. unfold dn_eqb. simpl. rewrite andb_true_iff, !list_eqb_eq. split.
  - intros [-> ->]. reflexivity.
  - intro H. inversion H. auto.
Qed.

Lemma mem_dn_In x l : mem_dn x l = true <-> In x l.
Proof.
  unfold mem_dn. rewrite existsb_exists. split.
  - intros [y [Hy E]]. apply dn_eqb_eq in E. subst. exact Hy.
  - intro H. exists x. split; [exact H|]. apply dn_eqb_eq. reflexivity.
Qed.

Lemma mem_add_dn x y l : mem_dn x (add_dn y l) = true <-> x = y \/ mem_dn x l = true.
Proof.
  unfold add_dn. destruct (mem_dn y l) eqn:E.
  - split; [auto|]. intros [->|H]; assumption.
  - rewrite !mem_dn_In. simpl. split; intros [H|H]; auto.
Qed.

Lemma mem_remove_dn x y l : mem_dn x (remove_dn y l) = true <-> x <> y /\ mem_dn x l = true.
Proof.
  rewrite !mem_dn_In. unfold remove_dn. rewrite filter_In, negb_true_iff. split.
  - intros [H E]. split; [|exact H]. intro. subst.
    assert (dn_eqb y y = true) by (apply dn_eqb_eq; reflexivity). congruence.
  - intros [N H]. split; [exact H|]. destruct (dn_eqb x y) eqn:E; [|reflexivity].
    apply dn_eqb_eq in E. contradiction.
Qed.

(* ------------------------------------------------------------ association lists *)

Lemma In_remove_key {V} k (kv : key * V) l : In kv (remove_key k l) <-> In kv l /\ fst kv <> k.
Proof.
  unfold remove_key. rewrite filter_In, negb_true_iff, key_eqb_neq. tauto.
Qed.

Lemma lookup_remove_key_same {V} k (l : list (key * V)) : lookup k (remove_key k l) = None.
Proof.
  induction l as [|[k' v] l IH]; simpl; [reflexivity|].
  destruct (key_eqb k' k) eqn:E; simpl; [exact IH|]. rewrite E. exact IH.
Qed.

Lemma lookup_remove_key_other {V} k k' (l : list (key * V)) : k <> k' -> lookup k (remove_key k' l) = lookup k l.
Proof.
  intro N. induction l as [|[k2 v] l IH]; simpl; [reflexivity|].
  destruct (key_eqb k2 k') eqn:E; simpl.
  - apply key_eqb_eq in E. subst. destruct (key_eqb k' k) eqn:F; [apply key_eqb_eq in F; congruence|exact IH].
  - destruct (key_eqb k2 k); [reflexivity|exact IH].
Qed.

Lemma lookup_remove_key_Some {V} k k' (l : list (key * V)) v :
  lookup k (remove_key k' l) = Some v -> lookup k l = Some v /\ k <> k'.
Proof.
  intro H. assert (N : k <> k') by (intro; subst; rewrite lookup_remove_key_same in H; discriminate).
  rewrite lookup_remove_key_other in H by exact N. auto.
Qed.

Lemma lookup_upsert_same {V} k (v : V) l : lookup k (upsert k v l) = Some v.
Proof. unfold upsert. simpl. rewrite key_eqb_refl. reflexivity. Qed.

Lemma lookup_upsert_other {V} k k' (v : V) l : k <> k' -> lookup k (upsert k' v l) = lookup k l.
Proof.
  intro N. unfold upsert. simpl. destruct (key_eqb k' k) eqn:E; [apply key_eqb_eq in E; congruence|].
  apply lookup_remove_key_other. exact N.
Qed.

Lemma In_upsert {V} k (v : V) kv l : In kv (upsert k v l) <-> kv = (k, v) \/ (In kv l /\ fst kv <> k).
Proof. unfold upsert. simpl. rewrite In_remove_key. split; intros [H|H]; auto. Qed.

(* ------------------------------------------------------------ Sub: what survives keeps its side-table rows *)

Definition flagged (j : jar) (k : key) : bool := mem_dn (k_dom k, k_name k) (j_host_only j).

Definition Sub (j' j : jar) : Prop :=
  forall k c, In (k, c) (j_cookies j') ->
    In (k, c) (j_cookies j) /\
    (flagged j k = true -> flagged j' k = true) /\
    (forall w, lookup k (j_expirations j) = Some w -> lookup k (j_expirations j') = Some w).

Lemma Sub_refl j : Sub j j.
Proof. intros k c H. auto. Qed.

Lemma Sub_trans j1 j2 j3 : Sub j1 j2 -> Sub j2 j3 -> Sub j1 j3.
Proof.
  intros A B k c H. destruct (A k c H) as [H2 [F2 E2]]. destruct (B k c H2) as [H3 [F3 E3]].
  split; [exact H3|]. split; auto.
Qed.

Lemma Sub_same j' j :
  j_cookies j' = j_cookies j -> j_host_only j' = j_host_only j -> j_expirations j' = j_expirations j -> Sub j' j.
Proof. intros A B C k c H. unfold flagged. rewrite A in H. rewrite B, C. auto. Qed.

Lemma name_remains_false d n cs :
  name_remains d n cs = false -> forall k c, In (k, c) cs -> (k_dom k, k_name k) <> (d, n).
Proof.
  intros H k c Hin E. inversion E. subst.
  assert (name_remains (k_dom k) (k_name k) cs = true); [|congruence].
  unfold name_remains. apply existsb_exists. exists (k, c). split; [exact Hin|].
  simpl. rewrite !list_eqb_refl. reflexivity.
Qed.

Lemma delete_cookie_sub j k' : Sub (delete_cookie j k') j.
Proof.
  intros k c H. unfold delete_cookie in H. simpl in H. apply In_remove_key in H. destruct H as [H N]. simpl in N.
  split; [exact H|]. split.
  - unfold flagged, delete_cookie. simpl. intro F.
    destruct (name_remains (k_dom k') (k_name k') (remove_key k' (j_cookies j))) eqn:E; [exact F|].
    apply mem_remove_dn. split; [|exact F].
    apply (name_remains_false _ _ _ E k c). apply In_remove_key. auto.
  - intros w L. unfold delete_cookie. simpl. rewrite lookup_remove_key_other; auto.
Qed.

Lemma delete_cookies_sub ks : forall j, Sub (delete_cookies j ks) j.
Proof.
  induction ks as [|k ks IH]; intro j; simpl; [apply Sub_refl|].
  eapply Sub_trans; [apply IH|apply delete_cookie_sub].
Qed.

Lemma delete_cookies_heap ks : forall j, j_heap (delete_cookies j ks) = j_heap j.
Proof. induction ks as [|k ks IH]; intro j; simpl; [reflexivity|]. rewrite IH. reflexivity. Qed.

Lemma delete_cookies_unsafe ks : forall j, j_unsafe (delete_cookies j ks) = j_unsafe j.
Proof. induction ks as [|k ks IH]; intro j; simpl; [reflexivity|]. rewrite IH. reflexivity. Qed.

Lemma delete_cookies_not_in ks : forall j k c, In k ks -> ~ In (k, c) (j_cookies (delete_cookies j ks)).
Proof.
  induction ks as [|k1 ks IH]; intros j k c Hin; simpl in *; [contradiction|].
  destruct Hin as [->|Hin].
  - intro H. apply (delete_cookies_sub ks) in H. destruct H as [H _].
    unfold delete_cookie in H. simpl in H. apply In_remove_key in H. destruct H as [_ N]. apply N. reflexivity.
  - apply IH. exact Hin.
Qed.

Lemma delete_cookies_deadline_Some ks : forall j k w,
  lookup k (j_expirations (delete_cookies j ks)) = Some w ->
  lookup k (j_expirations j) = Some w /\ ~ In k ks.
Proof.
  induction ks as [|k1 ks IH]; intros j k w H; simpl in *; [auto|].
  apply IH in H. destruct H as [H N]. unfold delete_cookie in H. simpl in H.
  apply lookup_remove_key_Some in H. destruct H as [H N1]. split; [exact H|].
  intros [E|E]; [congruence|contradiction].
Qed.

(* ------------------------------------------------------------ the expiry heap *)

Definition heap_covers (j : jar) : Prop :=
  forall k w, lookup k (j_expirations j) = Some w -> In (w, k) (j_heap j).

Lemma deadline_is_true j k w : deadline_is j k w = true <-> lookup k (j_expirations j) = Some w.
Proof.
  unfold deadline_is. destruct (lookup k (j_expirations j)) as [w'|].
  - rewrite Z.eqb_eq. split; congruence.
  - split; discriminate.
Qed.

Definition cleaned (j : jar) : list (Z * key) :=
  if heap_cleanup_due (lenN (j_heap j)) (lenN (j_expirations j))
  then filter (fun e => deadline_is j (snd e) (fst e)) (j_heap j) else j_heap j.

Lemma do_expiration_unfold j now :
  do_expiration j now =
  if is_nil (j_heap j) then j else
  delete_cookies (set_heap j (filter (fun e => heap_entry_stays (fst e) now) (cleaned j)))
    (map snd (filter (fun e => deadline_is j (snd e) (fst e))
                     (filter (fun e => negb (heap_entry_stays (fst e) now)) (cleaned j)))).
Proof. reflexivity. Qed.

Lemma cleaned_keeps j k w : heap_covers j -> lookup k (j_expirations j) = Some w -> In (w, k) (cleaned j).
Proof.
  intros Hc L. unfold cleaned. destruct (heap_cleanup_due _ _); [|apply Hc; exact L].
  apply filter_In. split; [apply Hc; exact L|]. simpl. apply deadline_is_true. exact L.
Qed.

Lemma do_expiration_sub j now : Sub (do_expiration j now) j.
Proof.
  rewrite do_expiration_unfold. destruct (is_nil (j_heap j)); [apply Sub_refl|].
  eapply Sub_trans; [apply delete_cookies_sub|]. apply Sub_same; reflexivity.
Qed.

Lemma do_expiration_unsafe j now : j_unsafe (do_expiration j now) = j_unsafe j.
Proof.
  rewrite do_expiration_unfold. destruct (is_nil (j_heap j)); [reflexivity|].
  rewrite delete_cookies_unsafe. reflexivity.
Qed.

(* after _do_expiration every remaining cookie that has a deadline has it in the future *)
Lemma do_expiration_live j now : heap_covers j ->
  forall k c w, In (k, c) (j_cookies (do_expiration j now)) ->
    lookup k (j_expirations (do_expiration j now)) = Some w -> (now < w)%Z.
Proof.
  intros Hc k c w Hin L. rewrite do_expiration_unfold in *.
  destruct (is_nil (j_heap j)) eqn:En.
  - apply Hc in L. destruct (j_heap j); [destruct L|discriminate].
  - apply delete_cookies_deadline_Some in L. destruct L as [L N]. simpl in L.
    destruct (heap_entry_stays w now) eqn:S; [unfold heap_entry_stays in S; lia|].
    exfalso. eapply delete_cookies_not_in; [|exact Hin].
    apply in_map_iff. exists (w, k). split; [reflexivity|].
    apply filter_In. split; [|apply deadline_is_true; exact L].
    apply filter_In. split; [apply cleaned_keeps; assumption|]. simpl. rewrite S. reflexivity.
Qed.

Lemma do_expiration_covers j now : heap_covers j -> heap_covers (do_expiration j now).
Proof.
  intros Hc k w L. pose proof L as L0. rewrite do_expiration_unfold in *.
  destruct (is_nil (j_heap j)) eqn:En; [apply Hc; exact L|].
  rewrite delete_cookies_heap. simpl.
  apply delete_cookies_deadline_Some in L. destruct L as [L N]. simpl in L.
  apply filter_In. split; [apply cleaned_keeps; assumption|]. simpl.
  destruct (heap_entry_stays w now) eqn:S; [reflexivity|].
  exfalso. apply N. apply in_map_iff. exists (w, k). split; [reflexivity|].
  apply filter_In. split; [|apply deadline_is_true; exact L].
  apply filter_In. split; [apply cleaned_keeps; assumption|]. simpl. rewrite S. reflexivity.
Qed.

Lemma delete_cookies_covers ks j : heap_covers j -> heap_covers (delete_cookies j ks).
Proof.
  intros Hc k w L. rewrite delete_cookies_heap. apply delete_cookies_deadline_Some in L. apply Hc. tauto.
Qed.

Lemma expire_cookie_covers j w k : heap_covers j -> heap_covers (expire_cookie j w k).
Proof.
  intros Hc k' w' L. unfold expire_cookie in *. destruct (deadline_is j k w) eqn:E; [apply Hc; exact L|].
  cbn [j_expirations j_heap] in *. destruct (key_eqb k k') eqn:F.
  - apply key_eqb_eq in F. subst. rewrite lookup_upsert_same in L. inversion L. left. reflexivity.
  - right. apply Hc. apply key_eqb_neq in F. rewrite lookup_upsert_other in L by congruence. exact L.
Qed.

Lemma expire_cookie_lookup_same j w k : lookup k (j_expirations (expire_cookie j w k)) = Some w.
Proof.
  unfold expire_cookie. destruct (deadline_is j k w) eqn:E.
  - apply deadline_is_true. exact E.
  - simpl. rewrite key_eqb_refl. reflexivity.
Qed.

Lemma expire_cookie_lookup_other j w k k' : k' <> k ->
  lookup k' (j_expirations (expire_cookie j w k)) = lookup k' (j_expirations j).
Proof.
  intro N. unfold expire_cookie. destruct (deadline_is j k w); [reflexivity|].
  simpl. apply lookup_upsert_other. exact N.
Qed.

Lemma expire_cookie_cookies j w k : j_cookies (expire_cookie j w k) = j_cookies j.
Proof. unfold expire_cookie. destruct (deadline_is j k w); reflexivity. Qed.

Lemma expire_cookie_host_only j w k : j_host_only (expire_cookie j w k) = j_host_only j.
Proof. unfold expire_cookie. destruct (deadline_is j k w); reflexivity. Qed.

Lemma expire_cookie_unsafe j w k : j_unsafe (expire_cookie j w k) = j_unsafe j.
Proof. unfold expire_cookie. destruct (deadline_is j k w); reflexivity. Qed.

(* ------------------------------------------------------------ per-entry invariants *)

Definition entry_ok (kc : key * cookie) : Prop :=
  k_path (fst kc) = rstrip SLASH (c_path (snd kc)) /\
  first_is SLASH (c_path (snd kc)) = true /\
  k_dom (fst kc) <> [] /\
  first_is DOT (k_dom (fst kc)) = false.

Definition Inv (j : jar) : Prop :=
  (forall kc, In kc (j_cookies j) -> entry_ok kc) /\ heap_covers j.

Lemma Inv_empty unsafe : Inv (empty_jar unsafe).
Proof. split; [intros kc []|intros k w H; discriminate]. Qed.

Lemma Inv_sub_entries j' j : Sub j' j -> (forall kc, In kc (j_cookies j) -> entry_ok kc) ->
  forall kc, In kc (j_cookies j') -> entry_ok kc.
Proof. intros S H [k c] Hin. apply H. apply (S k c Hin). Qed.

Lemma Inv_do_expiration j now : Inv j -> Inv (do_expiration j now).
Proof.
  intros [E C]. split; [|apply do_expiration_covers; exact C].
  eapply Inv_sub_entries; [apply do_expiration_sub|exact E].
Qed.

Lemma Inv_delete_cookies j ks : Inv j -> Inv (delete_cookies j ks).
Proof.
  intros [E C]. split; [|apply delete_cookies_covers; exact C].
  eapply Inv_sub_entries; [apply delete_cookies_sub|exact E].
Qed.

Lemma clear_pred_sub j now pred : Sub (clear_pred j now pred) j.
Proof. unfold clear_pred. apply delete_cookies_sub. Qed.

Lemma clear_pred_survivor j now pred k c :
  In (k, c) (j_cookies (clear_pred j now pred)) -> pred k c = false.
Proof.
  intro H. destruct (pred k c) eqn:P; [|reflexivity]. exfalso.
  pose proof (clear_pred_sub j now pred k c H) as [H0 _].
  unfold clear_pred in H. eapply delete_cookies_not_in; [|exact H].
  apply in_map_iff. exists (k, c). split; [reflexivity|]. apply filter_In. split; [exact H0|].
  simpl. rewrite P. apply orb_true_r.
Qed.
