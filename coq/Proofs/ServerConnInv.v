(* Invariants of the server-connection model (Model/ServerConn.v): queue cap, flags, never-orphaned. *)
From Coq Require Import List NArith Bool Lia ZifyBool ZifyN.
From AV Require Import Lib.Base Generated.ServerGen Model.ServerConn.
Import ListNotations.
Open Scope N_scope.
Ltac Zify.zify_post_hook ::= Z.to_euclidean_division_equations.
Ltac spl := repeat match goal with |- _ /\ _ => split end.

(* ---- what the proofs need from the generated constants and comparisons ---------------------- *)
Lemma maxq_pos : 0 < maxq. Proof. reflexivity. Qed.
Lemma resume_lt : resume_mark < maxq. Proof. reflexivity. Qed.

Lemma pqf_false i : parser_queue_full i maxq = false -> i < maxq.
Proof. unfold parser_queue_full. pose proof maxq_pos. lia. Qed.
Lemma pqf_true i : parser_queue_full i maxq = true -> maxq <= i.
Proof. unfold parser_queue_full. lia. Qed.
Lemma proto_full_false n : proto_queue_full n maxq = false -> n < maxq.
Proof. unfold proto_queue_full. lia. Qed.
Lemma proto_full_true n : maxq <= n -> proto_queue_full n maxq = true.
Proof. unfold proto_queue_full. lia. Qed.
Lemma stays_false n : proto_stays_paused n maxq = false -> n < maxq.
Proof. unfold proto_stays_paused. lia. Qed.
Lemma stays_true n : maxq <= n -> proto_stays_paused n maxq = true.
Proof. unfold proto_stays_paused. lia. Qed.
Lemma resume_mark_true n : proto_resume_mark n resume_mark = true -> n <= resume_mark.
Proof. unfold proto_resume_mark. lia. Qed.
Lemma msg_consumed_spec i : msg_consumed i = i - 1.
Proof. unfold msg_consumed. destruct (0 <? i) eqn:E; lia. Qed.

(* ---- lists ---------------------------------------------------------------------------------- *)
Lemma nmsgs_app a b : nmsgs (a ++ b) = nmsgs a + nmsgs b.
Proof. induction a as [|[m|] a IH]; cbn [nmsgs app]; lia. Qed.
Lemma nmsgs_rev a : nmsgs (rev a) = nmsgs a.
Proof. induction a as [|[m|] a IH]; cbn [rev nmsgs]; rewrite ?nmsgs_app; cbn [nmsgs]; lia. Qed.
Lemma nmsgs_le_len a : nmsgs a <= lenN a.
Proof. induction a as [|[m|] a IH]; cbn [nmsgs]; rewrite ?lenN_cons; unfold lenN in *; cbn [length]; lia. Qed.
Lemma lenN_nil {A} : lenN (@nil A) = 0. Proof. reflexivity. Qed.

(* ---- one feed_data call ------------------------------------------------------------------------ *)
Definition all_msgs (l : list qitem) : Prop := lenN l = nmsgs l.

Lemma ploop_spec : forall its infl b acc r p',
  ploop its infl b acc = (r, p') ->
  infl <= maxq ->
  p_infl p' <= maxq /\ infl <= p_infl p' /\
  match r with
  | POk l => exists new, l = rev acc ++ new /\ nmsgs new + infl = p_infl p' /\ all_msgs new /\
                         (p_tail p' <> [] -> maxq <= p_infl p')
  | PErr => True
  end.
Proof.
  induction its as [|it its IH]; intros infl b acc r p' H Hle.
  - cbn [ploop] in H. inversion H; subst; clear H. cbn [p_infl p_tail]. repeat split; try lia.
    exists []. rewrite app_nil_r. unfold all_msgs. cbn [nmsgs]. repeat split; try lia; try reflexivity. intro F; now elim F.
  - cbn [ploop] in H. destruct b as [|bid|bid].
    + destruct (parser_queue_full infl maxq) eqn:E.
      * inversion H; subst; clear H. cbn [p_infl p_tail]. repeat split; try lia.
        exists []. rewrite app_nil_r. unfold all_msgs. cbn [nmsgs]. apply pqf_true in E. repeat split; try lia; try reflexivity.
      * apply pqf_false in E. destruct it as [m| |k].
        -- apply IH in H; [|lia]. destruct H as (H1 & H2 & H3). repeat split; try lia.
           destruct r as [l|]; [|exact I]. destruct H3 as (new & -> & Hn & Ha & Ht).
           exists (QMsg m :: new). cbn [rev]. rewrite <- app_assoc. cbn [app nmsgs].
           unfold all_msgs in *. rewrite lenN_cons. cbn [nmsgs]. repeat split; try lia; try reflexivity.
        -- apply IH in H; [|lia]. exact H.
        -- inversion H; subst; clear H. cbn [p_infl]. repeat split; try lia.
    + destruct it as [m| |k].
      * apply IH in H; [|lia]. exact H.
      * apply IH in H; [|lia]. exact H.
      * inversion H; subst; clear H. cbn [p_infl]. repeat split; try lia.
    + destruct it as [m| |k].
      * apply IH in H; [|lia]. exact H.
      * apply IH in H; [|lia]. exact H.
      * inversion H; subst; clear H. cbn [p_infl]. repeat split; try lia.
Qed.

(* ---- the invariant ------------------------------------------------------------------------------ *)
(* pc-independent part *)
Record Core (s : st) : Prop := {
  core_infl : p_infl (ps s) <= maxq;                              (* the parser never counts past the cap *)
  core_reading : paused s = false -> lenN (q s) < maxq;         (* while the transport reads, the queue is below the cap *)
  core_flags : forcef s = closed s
}.

Definition Bal (k : N) (s : st) : Prop := nmsgs (q s) <= p_infl (ps s) + k.

Definition bonus_cur (c : qitem) : N := match c with QMsg _ => 0 | QErr => 1 end.
Definition bonus (p : pcs) : N :=
  match p with PHandler c _ => bonus_cur c | PExit => 1 | _ => 0 end.

Record Inv (s : st) : Prop := {
  inv_core : Core s;
  inv_bal : Bal (bonus (pc s)) s;
  inv_wait : pc s = PWait -> q s = [];
  inv_exit : pc s = PExit -> closed s = true
}.

Lemma Bal_mono k k' s : k <= k' -> Bal k s -> Bal k' s.
Proof. unfold Bal. lia. Qed.

(* feed: explicit shape of the result *)
Lemma feed_shape s new s' w :
  feed s new = (s', w) ->
  p_infl (ps s) <= maxq ->
  exists msgs p',
    s' = set_paused (set_ps (set_q s (q s ++ msgs)) p') (paused s || proto_queue_full (lenN (q s ++ msgs)) maxq) /\
    (w = false -> msgs = []) /\ (msgs <> [] -> w = true) /\
    p_infl p' <= maxq /\ nmsgs msgs + p_infl (ps s) <= p_infl p' /\
    (msgs = [QErr] \/ (all_msgs msgs /\ nmsgs msgs + p_infl (ps s) = p_infl p' /\ (p_tail p' <> [] -> maxq <= p_infl p'))).
Proof.
  unfold feed. intros H Hle.
  destruct (ploop (p_tail (ps s) ++ new) (p_infl (ps s)) (p_body (ps s)) []) as [r p'] eqn:E.
  apply ploop_spec in E; [|exact Hle]. destruct E as (E1 & E2 & E3).
  inversion H; subst; clear H.
  destruct r as [l|].
  - destruct E3 as (nw & -> & Hn & Ha & Ht). cbn [rev app] in *.
    exists nw, p'. spl; try lia; try reflexivity.
    + destruct nw; [reflexivity|discriminate].
    + destruct nw; [intro F; now elim F|reflexivity].
    + right. spl; try assumption; lia.
  - exists [QErr], p'. cbn [nmsgs]. spl; try lia; try discriminate; try reflexivity.
    left; reflexivity.
Qed.

Lemma feed_core k s new s' w :
  feed s new = (s', w) -> Core s -> Bal k s ->
  Core s' /\ Bal k s' /\ pc s' = pc s /\ closed s' = closed s /\ forcef s' = forcef s /\ ka s' = ka s /\
  (w = false -> q s' = q s).
Proof.
  intros H [C1 C2 C3] B. apply feed_shape in H; [|exact C1].
  destruct H as (msgs & p' & -> & Hw & _ & Hp & Hn & _).
  split.
  { split; cbn.
    - exact Hp.
    - intro Hp0. apply orb_false_iff in Hp0 as [_ Hf]. now apply proto_full_false.
    - exact C3. }
  split.
  { unfold Bal in *. cbn. rewrite nmsgs_app. lia. }
  cbn. spl; try reflexivity. intro E. rewrite (Hw E). apply app_nil_r.
Qed.

Lemma resume_q_core k s : Core s -> Bal k s ->
  Core (resume_q s) /\ Bal k (resume_q s) /\ pc (resume_q s) = pc s /\ closed (resume_q s) = closed s /\
  forcef (resume_q s) = forcef s /\ ka (resume_q s) = ka s.
Proof.
  intros C B. unfold resume_q.
  assert (H : exists s1, (if forcef s then s else fst (feed s [])) = s1 /\ Core s1 /\ Bal k s1 /\ pc s1 = pc s /\
                         closed s1 = closed s /\ forcef s1 = forcef s /\ ka s1 = ka s).
  { destruct (forcef s) eqn:F.
    - exists s. spl; auto.
    - destruct (feed s []) as [s1 w] eqn:E. exists s1. cbn [fst].
      destruct (feed_core k _ _ _ _ E C B) as (H1 & H2 & H3 & H4 & H5 & H6 & _). spl; auto; congruence. }
  destruct H as (s1 & -> & [C1 C2 C3] & B1 & P1 & P2 & P3 & P4).
  assert (C' : Core s1) by (split; assumption).
  destruct (proto_stays_paused (lenN (q s1)) maxq) eqn:E.
  - spl; auto.
  - apply stays_false in E. split; [|split; [exact B1|cbn; spl; assumption]].
    split; cbn; try assumption. intros _. exact E.
Qed.

Lemma Core_do_close s : Core s -> Core (do_close s).
Proof. intros [C1 C2 C3]. split; cbn; auto. Qed.

Lemma Core_frame s s' : q s' = q s -> ps s' = ps s -> paused s' = paused s -> forcef s' = forcef s -> closed s' = closed s ->
  Core s -> Core s'.
Proof. intros Hq Hp Hpa Hf Hc [C1 C2 C3]. split; rewrite ?Hq, ?Hp, ?Hpa, ?Hf, ?Hc; assumption. Qed.

Lemma Bal_frame k s s' : q s' = q s -> ps s' = ps s -> Bal k s -> Bal k s'.
Proof. unfold Bal. intros -> ->. auto. Qed.

Lemma exit_loop_inv s : Core s -> Bal 1 s -> Inv (exit_loop s).
Proof.
  intros C B. unfold exit_loop. destruct (forcef s) eqn:F.
  - split; cbn [pc set_pc bonus]; try discriminate.
    + eapply Core_frame; [..|exact C]; reflexivity.
    + eapply Bal_frame; [..|exact B]; reflexivity.
    + intros _. cbn. destruct C as [C1 C2 C3]. congruence.
  - pose proof (Core_do_close _ C) as C'. split; cbn [pc set_pc bonus]; try discriminate.
    + eapply Core_frame; [..|exact C']; reflexivity.
    + eapply Bal_frame; [..|exact B]; reflexivity.
    + reflexivity.
Qed.

Lemma arm_ka_frame c s : q (arm_ka c s) = q s /\ ps (arm_ka c s) = ps s /\ paused (arm_ka c s) = paused s /\
  pc (arm_ka c s) = pc s /\ forcef (arm_ka c s) = forcef s /\ closed (arm_ka c s) = closed s /\ ka (arm_ka c s) = ka s /\
  out (arm_ka c s) = out s.
Proof. unfold arm_ka. cbn. spl; reflexivity. Qed.

Lemma loop_top_inv s : Core s -> Bal 0 s -> Inv (loop_top s).
Proof.
  intros C B. unfold loop_top. destruct (forcef s) eqn:F.
  - apply exit_loop_inv; [exact C|]. eapply Bal_mono; [|exact B]. lia.
  - destruct (q s) as [|it q'] eqn:Q.
    + split; cbn; try discriminate.
      * eapply Core_frame; [..|exact C]; reflexivity.
      * unfold Bal in *. cbn. rewrite Q in *. exact B.
      * intros _. exact Q.
    + set (s1 := set_ps (set_q s q') _).
      assert (C1 : Core s1).
      { destruct C as [C1 C2 C3]. split; cbn.
        - rewrite msg_consumed_spec. lia.
        - intro Hp. specialize (C2 Hp). rewrite Q, lenN_cons in C2. lia.
        - exact C3. }
      assert (B1 : Bal (bonus_cur it) s1).
      { unfold Bal in *. cbn. rewrite msg_consumed_spec. rewrite Q in B. destruct it; cbn [nmsgs bonus_cur] in *; lia. }
      assert (H : exists s2, (if paused s1 && proto_resume_mark (lenN q') resume_mark then resume_q s1 else s1) = s2 /\
                             Core s2 /\ Bal (bonus_cur it) s2).
      { destruct (paused s1 && proto_resume_mark (lenN q') resume_mark).
        - exists (resume_q s1). destruct (resume_q_core _ _ C1 B1) as (H1 & H2 & _). spl; auto.
        - exists s1. spl; auto. }
      destruct H as (s2 & -> & C2 & B2).
      split; cbn; try discriminate.
      * eapply Core_frame; [..|exact C2]; reflexivity.
      * exact B2.
Qed.

Lemma after_req_inv c s f : Core s -> Bal 1 s -> (ka s = true -> Bal 0 s) -> Inv (after_req c s f).
Proof.
  intros C B1 B0. unfold after_req.
  destruct (ka s && negb f && negb (forcef s)) eqn:E.
  - apply andb_true_iff in E as [E _]. apply andb_true_iff in E as [E _].
    destruct (arm_ka_frame c s) as (Hq & Hp & Hpa & Hpc & Hf & Hc & Hk & Ho).
    apply loop_top_inv.
    + eapply Core_frame; [..|exact C]; assumption.
    + eapply Bal_frame; [..|exact (B0 E)]; assumption.
  - apply exit_loop_inv; assumption.
Qed.

Lemma payload_check_inv c s cur :
  Core s -> Bal (bonus_cur cur) s -> (cur = QErr -> ka s = false) -> Inv (payload_check c s cur).
Proof.
  intros C B K. unfold payload_check. destruct cur as [m|].
  - cbn [bonus_cur] in B.
    assert (A : forall f, Inv (after_req c s f)).
    { intro f. apply after_req_inv; [exact C| |intros _; exact B]. eapply Bal_mono; [|exact B]. lia. }
    destruct (incomplete s m); [|apply A].
    destruct (forcef s); [apply A|].
    destruct (failed s m).
    + apply exit_loop_inv; [apply Core_do_close; exact C|]. eapply Bal_mono; [|eapply Bal_frame; [..|exact B]]; try reflexivity. lia.
    + destruct (0 <? c_linger c); [|apply A].
      split; cbn; try discriminate.
      * eapply Core_frame; [..|exact C]; reflexivity.
      * exact B.
  - apply after_req_inv; [exact C|exact B|]. intro E. rewrite (K eq_refl) in E. discriminate.
Qed.

Lemma Core_push s r : Core s -> Core (push s r).
Proof. intro C. eapply Core_frame; [..|exact C]; reflexivity. Qed.
Lemma Bal_push k s r : Bal k s -> Bal k (push s r).
Proof. intro B. eapply Bal_frame; [..|exact B]; reflexivity. Qed.
Lemma Core_set_ka s v : Core s -> Core (set_ka s v).
Proof. intro C. eapply Core_frame; [..|exact C]; reflexivity. Qed.
Lemma Bal_set_ka k s v : Bal k s -> Bal k (set_ka s v).
Proof. intro B. eapply Bal_frame; [..|exact B]; reflexivity. Qed.

Lemma close_of_err_ka b : (b && negb (close_of QErr)) = false.
Proof. cbn. now rewrite andb_false_r. Qed.

Lemma finish_fresh_inv c s cur started status k :
  Core s -> Bal (bonus_cur cur) s -> Inv (finish_fresh c s cur started status k).
Proof.
  intros C B. unfold finish_fresh. destruct (closed s).
  - apply exit_loop_inv; [exact C|]. eapply Bal_mono; [|exact B]. destruct cur; cbn; lia.
  - apply payload_check_inv.
    + apply Core_set_ka, Core_push. destruct started; [apply Core_push|]; exact C.
    + apply Bal_set_ka, Bal_push. destruct started; [apply Bal_push|]; exact B.
    + intros ->. cbn [ka set_ka]. apply close_of_err_ka.
Qed.

Lemma bonus_cur_le1 cur : bonus_cur cur <= 1. Proof. destruct cur; cbn; lia. Qed.

Lemma on_done_inv c s cur started o :
  Core s -> Bal (bonus_cur cur) s -> Inv (on_done c s cur started o).
Proof.
  intros C B. pose proof (bonus_cur_le1 cur) as L1.
  assert (B1 : Bal 1 s) by (eapply Bal_mono; [exact L1|exact B]).
  assert (EP : Inv (exit_loop (push s (partial_of cur)))).
  { apply exit_loop_inv; [apply Core_push; exact C|apply Bal_push; exact B1]. }
  assert (EC : Inv (exit_loop (do_close (if started then push s (partial_of cur) else s)))).
  { apply exit_loop_inv.
    - apply Core_do_close. destruct started; [apply Core_push|]; exact C.
    - eapply Bal_frame; [..|exact B1]; destruct started; reflexivity. }
  unfold on_done. destruct o as [keep status| |status| | | | ].
  - destruct started; [exact EP|apply finish_fresh_inv; assumption].
  - destruct started.
    + destruct (closed s); [exact EP|].
      apply payload_check_inv.
      * apply Core_set_ka, Core_push; exact C.
      * apply Bal_set_ka, Bal_push; exact B.
      * intros ->. reflexivity.
    + apply finish_fresh_inv; assumption.
  - destruct started; [exact EP|apply finish_fresh_inv; assumption].
  - destruct started; [exact EP|apply finish_fresh_inv; assumption].
  - destruct started; [exact EP|apply finish_fresh_inv; assumption].
  - exact EC.
  - exact EC.
Qed.

Lemma deliver_inv s tits : Inv s -> Inv (deliver s tits).
Proof.
  intros [C B W X]. unfold deliver. destruct (feed s tits) as [s1 w] eqn:E.
  destruct (feed_core _ _ _ _ _ E C B) as (C1 & B1 & P & Hc & Hf & Hk & Hq).
  assert (I1 : w = false -> Inv s1).
  { intro Hw. split; [exact C1|rewrite P; exact B1|rewrite P, (Hq Hw); exact W|rewrite P, Hc; exact X]. }
  assert (I2 : pc s1 <> PWait -> Inv s1).
  { intro Hn. split; [exact C1|rewrite P; exact B1|intro E0; contradiction|rewrite P, Hc; exact X]. }
  assert (B0 : pc s1 = PWait -> Bal 0 s1).
  { intro E0. rewrite <- P, E0 in B1. exact B1. }
  destruct (pc s1) eqn:P1; try (apply I2; discriminate).
  destruct w; [|apply I1; reflexivity].
  apply loop_top_inv; [exact C1|]. apply B0; reflexivity.
Qed.

Lemma Inv_frame s s' : q s' = q s -> ps s' = ps s -> paused s' = paused s -> forcef s' = forcef s -> closed s' = closed s ->
  pc s' = pc s -> Inv s -> Inv s'.
Proof.
  intros Hq Hp Hpa Hf Hc Hpc [C B W X]. split.
  - eapply Core_frame; eassumption.
  - rewrite Hpc. eapply Bal_frame; eassumption.
  - rewrite Hpc, Hq. exact W.
  - rewrite Hpc, Hc. exact X.
Qed.

Lemma fire_ka_inv s : Inv s -> Inv (fire_ka s).
Proof.
  intro I. unfold fire_ka. destruct (ka_h s) as [w|]; [|exact I].
  destruct (w <=? now s); [|exact I].
  set (s1 := set_timer s (ka_close s) None).
  assert (I1 : Inv s1) by (eapply Inv_frame; [..|exact I]; reflexivity).
  destruct (forcef s1 || negb (ka s1)); [exact I1|].
  destruct (now s1 <? ka_close s1).
  - eapply Inv_frame; [..|exact I1]; reflexivity.
  - destruct (pc s1) eqn:P; try exact I1.
    destruct I1 as [C B W X]. split; cbn; try discriminate.
    + apply Core_do_close in C. eapply Core_frame; [..|exact C]; reflexivity.
    + unfold Bal in *. cbn. try rewrite P in B. cbn in B. lia.
    + reflexivity.
Qed.

Lemma fire_linger_inv c s : Inv s -> Inv (fire_linger c s).
Proof.
  intro I. unfold fire_linger. destruct (pc s) eqn:P; try exact I.
  destruct (until <=? now s); [|exact I].
  destruct I as [C B W X]. try rewrite P in B. cbn in B.
  apply after_req_inv; [exact C| |intros _; exact B]. eapply Bal_mono; [|exact B]. lia.
Qed.

Theorem step_inv c s e s' : Inv s -> step c s e = Some s' -> Inv s'.
Proof.
  intros I H. destruct e as [its| |o| | |dt|]; cbn [step] in H.
  - destruct (closed s || paused s); [discriminate|].
    destruct (tag (nseen s) its) as [tits n'] eqn:T. inversion H; subst; clear H.
    apply deliver_inv. eapply Inv_frame; [..|exact I]; reflexivity.
  - destruct (pc s) as [|cur [|]| |] eqn:P; try discriminate.
    destruct (closed s); [discriminate|]. inversion H; subst; clear H.
    destruct I as [C B W X]. split; cbn; try discriminate.
    + eapply Core_frame; [..|exact C]; reflexivity.
    + try rewrite P in B. exact B.
  - destruct (pc s) as [|cur st| |] eqn:P; try discriminate. inversion H; subst; clear H.
    destruct I as [C B W X]. try rewrite P in B. apply on_done_inv; assumption.
  - inversion H; subst; clear H. destruct (closed s); [exact I|]. apply deliver_inv; exact I.
  - inversion H; subst; clear H. destruct (pc s) as [| |m until|] eqn:P; try exact I.
    destruct I as [C B W X]. pose proof B as B'. try rewrite P in B'. cbn in B'.
    assert (A : Inv (after_req c s false)).
    { apply after_req_inv; [exact C| |intros _; exact B']. eapply Bal_mono; [|exact B']. lia. }
    destruct (incomplete s m); [|exact A].
    assert (I : Inv s) by (split; assumption).
    destruct (forcef s); [exact I|]. destruct (failed s m); [|exact I].
    apply exit_loop_inv; [apply Core_do_close; exact C|]. eapply Bal_mono; [|eapply Bal_frame; [..|exact B']]; try reflexivity. lia.
  - inversion H; subst; clear H. apply fire_linger_inv, fire_ka_inv.
    eapply Inv_frame; [..|exact I]; reflexivity.
  - destruct (closed s) eqn:Cl; [discriminate|]. inversion H; subst; clear H.
    destruct I as [C B W X]. cbn [pc do_close].
    destruct (pc s) eqn:P.
    + split; cbn; try discriminate.
      * apply Core_do_close in C. eapply Core_frame; [..|exact C]; reflexivity.
      * unfold Bal in *. cbn. try rewrite P in B. cbn in B. lia.
      * reflexivity.
    + split; cbn; rewrite ?P; try discriminate.
      * apply Core_do_close; exact C.
      * try rewrite P in B. exact B.
    + split; cbn; rewrite ?P; try discriminate.
      * apply Core_do_close; exact C.
      * try rewrite P in B. exact B.
    + split; cbn; rewrite ?P; try discriminate.
      * apply Core_do_close; exact C.
      * try rewrite P in B. exact B.
      * reflexivity.
Qed.

Lemma init_inv : Inv init.
Proof.
  split.
  - split; cbn; try reflexivity; try lia.
  - unfold Bal. cbn. lia.
  - reflexivity.
  - discriminate.
Qed.

(* reachable states: any configuration, any sequence of enabled events *)
Inductive Reach (c : cfg) : st -> Prop :=
  | reach_init : Reach c init
  | reach_step s e s' : Reach c s -> step c s e = Some s' -> Reach c s'.

Theorem reach_inv c s : Reach c s -> Inv s.
Proof. induction 1; [apply init_inv|eapply step_inv; eassumption]. Qed.

Lemma run_reach c es : forall s s', Reach c s -> run c s es = Some s' -> Reach c s'.
Proof.
  induction es as [|e es IH]; intros s s' R H; cbn [run] in H.
  - inversion H; subst; exact R.
  - destruct (step c s e) as [s1|] eqn:E; [|discriminate]. eapply IH; [|exact H]. eapply reach_step; eassumption.
Qed.

(* ---- consequences ---------------------------------------------------------------------------- *)
Theorem queue_bound c s : Reach c s -> nmsgs (q s) <= maxq + 1 /\ p_infl (ps s) <= maxq.
Proof.
  intro R. destruct (reach_inv _ _ R) as [[C1 C2 C3] B W X]. split; [|exact C1].
  unfold Bal in B. assert (bonus (pc s) <= 1) by (destruct (pc s); cbn; try lia; apply bonus_cur_le1). lia.
Qed.

Theorem reading_below_cap c s : Reach c s -> paused s = false -> lenN (q s) < maxq.
Proof. intros R. destruct (reach_inv _ _ R) as [[C1 C2 C3] B W X]. exact C2. Qed.

Theorem never_orphaned c s : Reach c s ->
  (closed s = false -> pc s <> PExit) /\ (pc s = PWait -> q s = []) /\ forcef s = closed s.
Proof.
  intro R. destruct (reach_inv _ _ R) as [[C1 C2 C3] B W X]. spl; try assumption.
  intros Hc Hp. rewrite (X Hp) in Hc. discriminate.
Qed.

(* a queued parse error is answered by whatever the application does with it, and then the loop ends:
   every way the handler of an _ErrInfo request can end closes the connection *)
Theorem err_request_closes c s sd o s' : Reach c s -> pc s = PHandler QErr sd ->
  step c s (EDone o) = Some s' -> pc s' = PExit /\ closed s' = true.
Proof.
  intros R P H. destruct (reach_inv _ _ R) as [[C1 C2 C3] B W X].
  cbn [step] in H. rewrite P in H. inversion H; subst; clear H.
  assert (EX : forall t, forcef t = closed t -> pc (exit_loop t) = PExit /\ closed (exit_loop t) = true).
  { intros t Ht. unfold exit_loop. destruct (forcef t) eqn:F; cbn; split; congruence. }
  assert (AR : forall t f, forcef t = closed t -> ka t = false -> pc (after_req c t f) = PExit /\ closed (after_req c t f) = true).
  { intros t f Ht Hk. unfold after_req. rewrite Hk. cbn [andb]. apply EX; exact Ht. }
  assert (FF : forall t stt status k, forcef t = closed t ->
             pc (finish_fresh c t QErr stt status k) = PExit /\ closed (finish_fresh c t QErr stt status k) = true).
  { intros t stt status k Ht. unfold finish_fresh. destruct (closed t) eqn:Ct; [apply EX; congruence|].
    cbn [payload_check]. apply AR; [destruct stt; cbn; congruence|]. cbn [ka set_ka]. apply close_of_err_ka. }
  unfold on_done. destruct o as [keep status| |status| | | | ].
  - destruct sd; [apply EX; cbn; congruence|apply FF; exact C3].
  - destruct sd.
    + destruct (closed s) eqn:Cs; [apply EX; cbn; congruence|]. cbn [payload_check]. apply AR; [cbn; congruence|reflexivity].
    + apply FF; exact C3.
  - destruct sd; [apply EX; cbn; congruence|apply FF; exact C3].
  - destruct sd; [apply EX; cbn; congruence|apply FF; exact C3].
  - destruct sd; [apply EX; cbn; congruence|apply FF; exact C3].
  - apply EX. destruct sd; reflexivity.
  - apply EX. destruct sd; reflexivity.
Qed.

(* ... and when the application answers it the way web.Application does (HTTPBadRequest raised by the
   MatchInfoError route), a complete 4xx is the last thing written *)
Theorem err_request_400 c s status s' : Reach c s -> pc s = PHandler QErr false -> closed s = false ->
  step c s (EDone (OHttp status)) = Some s' ->
  out s' = out s ++ [{| r_id := None; r_status := status; r_done := true |}] /\ pc s' = PExit /\ closed s' = true.
Proof.
  intros R P Cl H. destruct (err_request_closes _ _ _ _ _ R P H) as [H1 H2]. split; [|split; assumption].
  cbn [step] in H. rewrite P in H. inversion H; subst; clear H.
  unfold on_done, finish_fresh. rewrite Cl. cbn [payload_check].
  unfold after_req. cbn [ka set_ka]. rewrite close_of_err_ka. cbn [andb].
  unfold exit_loop. cbn. destruct (forcef s); reflexivity.
Qed.
