(* C09: a small concrete codec satisfying the laws the theorems assume (so that they are not vacuous),
   and concrete runs of the executable toy instance used as witnesses. *)
From AV Require Import Lib.Base Generated.DecodeGen Model.Decode Proofs.DecodeCommon Proofs.DecodeBound Proofs.DecodeProgress.
From Coq Require Import ZifyBool ZifyN.
Ltac Zify.zify_post_hook ::= Z.to_euclidean_division_equations.
Open Scope N_scope.

(* IdCap: the identity "compression" with zlib's max_length discipline: what does not fit in the output
   cap is kept and handed out by later calls with empty input. *)
Definition ic_new (_ : N) : bytes := [].
Definition ic_step (h x : bytes) (m : N) : option (option (bytes * bytes)) :=
  let all := h ++ x in
  if m =? 0 then Some (Some ([], all)) else Some (Some (drop m all, take m all)).
Definition ic_avail (h : bytes) : bool := negb (isnil h).
Definition ic_eof (_ : bytes) : bool := true.
Definition ic_flush (h : bytes) : option bytes := Some h.

Lemma firstn_lenN (n : nat) (l : bytes) : lenN (firstn n l) <= N.of_nat n.
Proof. unfold lenN. rewrite firstn_length. lia. Qed.

Lemma take_le (m : N) (l : bytes) : lenN (take m l) <= m.
Proof.
  unfold take. destruct (lenN l <=? m) eqn:E; [lia|].
  pose proof (firstn_lenN (N.to_nat m) l). lia.
Qed.

Lemma ic_cap : forall h x m h' out, ic_step h x m = Some (Some (h', out)) -> m <> 0 -> lenN out <= m.
Proof.
  intros h x m h' out. unfold ic_step. destruct (m =? 0) eqn:E; [lia|].
  intros [= <- <-] _. apply take_le.
Qed.

Lemma id_mono : forall a b : N, a <= b -> (fun m => m) a <= (fun m => m) b.
Proof. auto. Qed.

Definition ic_sys := sys bytes.
Definition ic_run := run bytes ic_new ic_step ic_avail ic_eof ic_flush.
Definition ic_init := init bytes ic_new.

Lemma bounded_memory_idcap : forall f c t len enc evs (y : ic_sys) os,
  c_flow c = true -> 1 <= c_limit c -> enc <> 0 ->
  ic_run f (ic_init c t len enc) evs = (y, os) ->
  let r := re (core y) in
  dg_max_length (c_limit c) (low r) <> 0 ->
  rsize r <= high r + dg_max_length (c_limit c) (low r) /\ high r = low r * 2.
Proof.
  intros f c t len enc evs y os Hf Hl He Hr.
  exact (bounded_memory bytes ic_new ic_step ic_avail ic_eof ic_flush (fun m => m) ic_cap id_mono f c t len enc evs y os Hf Hl He Hr).
Qed.

Lemma take_nil (m : N) (l : bytes) : m <> 0 -> take m l = [] -> l = [].
Proof.
  unfold take. destruct (lenN l <=? m); [auto|]. intros Hm. destruct l; [auto|].
  destruct (N.to_nat m) eqn:E; [lia|]. cbn. discriminate.
Qed.

Lemma ic_avail_law : forall h x m h', ic_step h x m = Some (Some (h', [])) -> ic_avail h' = false.
Proof.
  intros h x m h'. unfold ic_step, ic_avail. destruct (m =? 0) eqn:E.
  - intros [= <- _]. reflexivity.
  - intros [= <- Ht]. apply take_nil in Ht; [|lia]. rewrite Ht. unfold drop.
    replace (lenN (@nil N) <=? m) with true by (symmetry; apply N.leb_le; cbn; lia). reflexivity.
Qed.

Lemma progress_idcap : forall f c t len enc evs (y : ic_sys) os,
  1 <= c_limit c -> ic_run f (ic_init c t len enc) evs = (y, os) ->
  rexn (re (core y)) = None -> reof (re (core y)) = false -> connected (pr (core y)) = true -> buf (re (core y)) = [] ->
  has_more (pr (core y)) = false /\ rpaused (pr (core y)) = false /\ tpaused (pr (core y)) = false.
Proof. exact (progress_all bytes ic_new ic_step ic_avail ic_eof ic_flush ic_avail_law). Qed.

Lemma reaches_eof_idcap : forall f c t len enc evs (y : ic_sys) os,
  1 <= c_limit c -> ic_run f (ic_init c t len enc) evs = (y, os) ->
  connected (pr (core y)) = false -> buf (re (core y)) = [] ->
  reof (re (core y)) = true \/ rexn (re (core y)) <> None.
Proof. exact (reaches_eof_all bytes ic_new ic_step ic_avail ic_eof ic_flush ic_avail_law). Qed.

(* ---- witnesses on the executable toy instance ------------------------------------------------- *)
Definition toy_run (fuel : nat) (y : toy_sys) (evs : list event) : toy_sys * list obs :=
  run toy_zh toy_hnew toy_hstep toy_havail toy_heof toy_hflush fuel y evs.

(* a toy gzip "bomb": one member, 3 runs of 200 bytes, limit 4: the reader never holds more than
   high + max_length = 8 + 4 bytes although 600 bytes are decoded *)
Definition w_bomb : bytes := [31; 200; 65; 200; 66; 200; 67; 0; (200 * 65 + 200 * 66 + 200 * 67) mod 256].
Definition w_bomb_init : toy_sys := toy_init 4 true 8190 8190 125 true PLength 9 1.
Lemma bomb_witness :
  let y := fst (toy_run 1000 w_bomb_init [EvData w_bomb]) in
  rsize (re (core y)) = 12 /\ tpaused (pr (core y)) = true /\ has_more (pr (core y)) = true.
Proof. vm_compute. repeat split. Qed.


(* the histories that used to refute progress / end-of-body (before dc85988, 72e5a25, 497a2a6) now end well *)
Definition w_seg1 : bytes := [51; 13; 10; 97; 98; 99; 13; 10].
Definition w_seg2 : bytes := [51; 13; 10; 100; 101; 102; 13; 10; 48; 13; 10; 13; 10].
Definition w_stale_events : list event := [EvData w_seg1; EvOp OpReadAny; EvOp OpReadAny; EvData w_seg2; EvOp OpReadAny].
Lemma stale_pause_regression :
  snd (toy_run 100 (toy_init 1 true 8190 8190 125 true PChunked 0 0) w_stale_events) =
  [ONone; ORes (RData [97; 98; 99]); ORes RBlocked; ORes (RData [100; 101; 102]); ORes (RData [])].
Proof. vm_compute. reflexivity. Qed.

Definition w_lost_events : list event := [EvData w_bomb; EvClose; EvOp OpReadAny; EvOp OpReadAny; EvOp (OpRead 70000); EvOp OpReadAny].
Lemma lost_at_close_regression :
  let r := toy_run 1000 (toy_init 1 true 8190 8190 125 false PLength 9 1) w_lost_events in
  last (snd r) ONone = ORes (RData []) /\ lenN (delivered (re (core (fst r)))) = 600 /\ reof (re (core (fst r))) = true.
Proof. vm_compute. repeat split. Qed.

Definition w_rewait_seg1 : bytes := [52; 13; 10; 31; 2; 65].
Definition w_rewait_seg2 : bytes := [0; 13; 10; 49; 13; 10; 255; 13; 10; 48; 13; 10; 13; 10].
Definition w_rewait_events : list event := [EvData w_rewait_seg1; EvOp OpReadAny; EvOp OpReadAny; EvData w_rewait_seg2].
Lemma rewait_regression :
  last (snd (toy_run 100 (toy_init 64 true 8190 8190 125 true PChunked 5 1) w_rewait_events)) ONone = ORes (RErr EContentEncoding).
Proof. vm_compute. reflexivity. Qed.

(* ---- db20ae1: a compressed body never ends in a clean EOF unless the stream-end checks pass ----- *)
Section StreamEnd.
  Variable H : Type.
  Variable heof : H -> bool.
  Variable hflush : H -> option bytes.

  (* DeflateBuffer.feed_eof on a compressed body that carried data: the reader is given EOF only when the
     decompressor reports a complete stream (deflate: eof; every coding: not mid_stream) *)
  Lemma clean_eof_needs_complete : forall s s',
    db_feed_eof H heof hflush s = (s', None) -> comp (de s) = true -> 0 < d_size (de s) ->
    heof (d_h (de s)) = true.
  Proof.
    intros s s'. unfold db_feed_eof. intros E Hc Hs. rewrite Hc in E. cbn [negb] in E.
    destruct (hflush (d_h (de s))) as [c|]; [|discriminate].
    destruct (negb (isnil c)); [discriminate|].
    replace (0 <? d_size (de s)) with true in E by (symmetry; apply N.ltb_lt; exact Hs). cbn [andb] in E.
    destruct (heof (d_h (de s))); [reflexivity|discriminate].
  Qed.

  (* ... and when they do not pass, the call is an error and the reader is left untouched (no EOF) *)
  Lemma incomplete_is_error : forall s,
    comp (de s) = true -> 0 < d_size (de s) -> heof (d_h (de s)) = false ->
    exists e, db_feed_eof H heof hflush s = (s, Some e).
  Proof.
    intros s Hc Hs He. unfold db_feed_eof. rewrite Hc. cbn [negb].
    destruct (hflush (d_h (de s))) as [c|]; [|eexists; reflexivity].
    destruct (negb (isnil c)); [eexists; reflexivity|].
    replace (0 <? d_size (de s)) with true by (symmetry; apply N.ltb_lt; exact Hs). rewrite He. cbn. eexists; reflexivity.
  Qed.
End StreamEnd.

(* the toy gzip member of w_bomb cut before its terminator and checksum, Content-Length framing complete:
   used to end in a clean EOF after the decoded prefix (before db20ae1); now the reader gets the payload error *)
Definition w_trunc : bytes := [31; 200; 65; 200; 66; 200; 67].
Definition w_trunc_events : list event := [EvData w_trunc; EvOp OpReadAny; EvOp OpReadAny].
Lemma truncated_regression :
  let r := toy_run 1000 (toy_init 65536 true 8190 8190 125 true PLength 7 1) w_trunc_events in
  snd r = [ONone; ORes (RErr EContentEncoding); ORes (RErr EContentEncoding)] /\ reof (re (core (fst r))) = false.
Proof. vm_compute. split; reflexivity. Qed.
(* the complete member is still delivered with a clean EOF *)
Lemma complete_member_clean_eof :
  let r := toy_run 1000 (toy_init 65536 true 8190 8190 125 true PLength 9 1) [EvData w_bomb; EvOp OpReadAny; EvOp OpReadAny] in
  last (snd r) ONone = ORes (RData []) /\ lenN (delivered (re (core (fst r)))) = 600 /\ reof (re (core (fst r))) = true /\ rexn (re (core (fst r))) = None.
Proof. vm_compute. repeat split. Qed.
