(* C09: a small concrete codec satisfying the laws the theorems assume (so that they are not vacuous),
   and concrete runs of the executable toy instance used as witnesses. *)
From AV Require Import Lib.Base Generated.DecodeGen Model.Decode Proofs.DecodeBound.
From Coq Require Import ZifyBool ZifyN.
Ltac Zify.zify_post_hook ::= Z.to_euclidean_division_equations.
Open Scope N_scope.

(* IdCap: the identity "compression" with zlib's max_length discipline: what does not fit in the output
   cap is kept and handed out by later calls with empty input. *)
Definition ic_new (_ : N) : bytes := [].
Definition ic_step (h x : bytes) (m : N) : option (option (bytes * bytes)) :=
  let all := h ++ x in
  if m =? 0 then Some (Some ([], all)) else Some (Some (drop m all, take m all)).
Definition ic_avail (h : bytes) : bool := negb (isnil h).
Definition ic_eof (_ : bytes) : bool := true.
Definition ic_flush (h : bytes) : option bytes := Some h.

Lemma firstn_lenN (n : nat) (l : bytes) : lenN (firstn n l) <= N.of_nat n.
Proof. unfold lenN. rewrite firstn_length. lia. Qed.

Lemma take_le (m : N) (l : bytes) : lenN (take m l) <= m.
Proof.
  unfold take. destruct (lenN l <=? m) eqn:E; [lia|].
  pose proof (firstn_lenN (N.to_nat m) l). lia.
Qed.

Lemma ic_cap : forall h x m h' out, ic_step h x m = Some (Some (h', out)) -> m <> 0 -> lenN out <= m.
Proof.
  intros h x m h' out. unfold ic_step. destruct (m =? 0) eqn:E; [lia|].
  intros [= <- <-] _. apply take_le.
Qed.

Lemma id_mono : forall a b : N, a <= b -> (fun m => m) a <= (fun m => m) b.
Proof. auto. Qed.

Definition ic_sys := sys bytes.
Definition ic_run := run bytes ic_new ic_step ic_avail ic_eof ic_flush.
Definition ic_init := init bytes ic_new.

Lemma bounded_memory_idcap : forall f c t len enc evs (y : ic_sys) os,
  c_flow c = true -> 1 <= c_limit c -> enc <> 0 ->
  ic_run f (ic_init c t len enc) evs = (y, os) ->
  let r := re (core y) in
  dg_max_length (c_limit c) (low r) <> 0 ->
  rsize r <= high r + dg_max_length (c_limit c) (low r) /\ high r = low r * 2.
Proof.
  intros f c t len enc evs y os Hf Hl He Hr.
  exact (bounded_memory bytes ic_new ic_step ic_avail ic_eof ic_flush (fun m => m) ic_cap id_mono f c t len enc evs y os Hf Hl He Hr).
Qed.

(* ---- witnesses on the executable toy instance ------------------------------------------------- *)
Definition toy_run (fuel : nat) (y : toy_sys) (evs : list event) : toy_sys * list obs :=
  run toy_zh toy_hnew toy_hstep toy_havail toy_heof toy_hflush fuel y evs.

(* a toy gzip "bomb": one member, 3 runs of 200 bytes, limit 4: the reader never holds more than
   high + max_length = 8 + 4 bytes although 600 bytes are decoded *)
Definition w_bomb : bytes := [31; 200; 65; 200; 66; 200; 67; 0; (200 * 65 + 200 * 66 + 200 * 67) mod 256].
Definition w_bomb_init : toy_sys := toy_init 4 true 8190 8190 125 true PLength 9 1.
Lemma bomb_witness :
  let y := fst (toy_run 1000 w_bomb_init [EvData w_bomb]) in
  rsize (re (core y)) = 12 /\ tpaused (pr (core y)) = true /\ has_more (pr (core y)) = true.
Proof. vm_compute. repeat split. Qed.

