(* C06 — preservation of the segment-independent part of the tag invariant. *)
From AV Require Import Lib.Base Generated.ClientConnGen Model.ClientConn Proofs.ClientConnBase Proofs.ClientConnStruct
  Proofs.ClientConnTagsDef.
Open Scope N_scope.

Definition pay_stable (s s' : state) : Prop :=
  s_npay s <= s_npay s' /\
  forall pid, pid < s_npay s ->
    p_tag (s_pay s' pid) = p_tag (s_pay s pid) /\ p_conn (s_pay s' pid) = p_conn (s_pay s pid).

Lemma pay_stable_same s s' : s_npay s' = s_npay s -> s_pay s' = s_pay s -> pay_stable s s'.
Proof. intros H1 H2. split; [rewrite H1; lia|]. intros pid _. now rewrite H2. Qed.

Lemma pay_stable_upd s pid pl :
  p_tag pl = p_tag (s_pay s pid) -> p_conn pl = p_conn (s_pay s pid) -> pay_stable s (set_payl s pid pl).
Proof.
  intros H1 H2. split; [cbn; lia|]. intros pid' _. cbn.
  destruct (upd_cases (s_pay s) pid pl pid') as [[-> E]|[_ E]]; rewrite E; [now split|now split].
Qed.

Lemma msg_ok_transfer s s' m : pay_stable s s' -> msg_ok s m -> msg_ok s' m.
Proof.
  intros [Hn Hp] H pid Hm. destruct (H pid Hm) as [H1 H2]. split; [lia|].
  destruct (Hp pid H1) as [E _]. now rewrite E.
Qed.

Lemma conntags_transfer s s' c :
  s_conn s' c = s_conn s c -> pay_stable s s' ->
  (forall pid rem, c_pst (s_conn s c) = PSBody pid rem -> p_eof (s_pay s' pid) = p_eof (s_pay s pid)) ->
  ConnTags s c -> ConnTags s' c.
Proof.
  intros Ec Hs He [A B C D E]. split; rewrite Ec.
  - exact A.
  - exact B.
  - exact C.
  - eapply Forall_impl; [|exact D]. intros m. now apply msg_ok_transfer.
  - intros pid rem Hp. destruct (E pid rem Hp) as (E1 & E2 & E3 & E4). destruct Hs as [Hn Hp'].
    destruct (Hp' pid E1) as [T1 T2]. repeat split; [lia|congruence|rewrite (He pid rem Hp); exact E3|].
    intros e He'. rewrite T1. now apply E4.
Qed.

Lemma core_frame s s' :
  (forall c, s_conn s' c = s_conn s c) -> s_pay s' = s_pay s -> s_npay s' = s_npay s ->
  s_log s' = s_log s -> (forall e, x_pay (s_x s' e) = x_pay (s_x s e)) ->
  Core s -> Core s'.
Proof.
  intros Hc Hp Hn Hl Hx [A B C D]. split.
  - now rewrite Hl.
  - intros c. apply (conntags_transfer s s' c (Hc c)); [now apply pay_stable_same|intros; now rewrite Hp|apply B].
  - intros pid. rewrite Hp. apply C.
  - intros e pid H. rewrite Hx in H. rewrite Hp, Hn. now apply D.
Qed.

(* one connection changes, payloads stay *)
Lemma core_set_conn s c cn' :
  Core s -> ConnTags (set_conn s c cn') c -> Core (set_conn s c cn').
Proof.
  intros [A B C D] H. split; try assumption.
  intros c'. destruct (N.eq_dec c' c) as [->|Hne]; [exact H|].
  apply (conntags_transfer s); [cbn; now apply upd_other|now apply pay_stable_same|reflexivity|apply B].
Qed.

Lemma core_set_pool s p : Core s -> Core (set_s_pool s p).
Proof. intros K. now apply (core_frame s). Qed.
Lemma core_set_seg s g : Core s -> Core (set_s_seg s g).
Proof. intros K. now apply (core_frame s). Qed.
Lemma core_set_idle s b : Core s -> Core (set_s_idle_parsed s b).
Proof. intros K. now apply (core_frame s). Qed.
Lemma core_set_tails s b : Core s -> Core (set_s_tail_surplus s b).
Proof. intros K. now apply (core_frame s). Qed.

Lemma should_close_pooled s cn :
  proto_should_close s cn = false ->
  c_buf cn = [] /\ c_htail cn = [] /\ pay_open s cn = false.
Proof.
  unfold proto_should_close. intros H. apply should_close_false in H as (_ & H2 & _ & _ & H5 & H6 & _).
  repeat split; [now apply nonempty_false|now apply nonempty_false|exact H2].
Qed.

Lemma core_release cf s c arg e :
  Core s -> c_phase (s_conn s c) = PFlight e ->
  (forall pid rem, c_pst (s_conn s c) = PSBody pid rem -> c_pay (s_conn s c) = Some pid) ->
  Core (release_conn cf s c arg).
Proof.
  intros K Hph Hlink. pose proof (tg_conn s K c) as [A B C D E].
  unfold release_conn. rewrite Hph. unfold mark_incomplete.
  destruct (prog_done (c_prog (s_conn s c)));
    (destruct (release_closes_gen _ _ _) eqn:Er;
     [ apply core_set_conn; [exact K|]; split; cbn; rewrite upd_same; cbn;
       [ intros; discriminate | intros; discriminate | reflexivity | exact D | intros pid rem Hp; destruct (E pid rem Hp) as (E1 & E2 & E3 & _); repeat split; try assumption; intros; discriminate ]
     | apply release_closes_false in Er as (_ & _ & Er); apply should_close_pooled in Er as (Hb & Ht & Hpo); cbn in Hb, Ht;
       apply core_set_pool;
       apply core_set_conn; [exact K|]; split; cbn; rewrite upd_same; cbn;
       [ intros; discriminate
       | intros _; repeat split; try assumption;
         destruct (c_pst (s_conn s c)) as [|pid rem] eqn:Ep; [reflexivity|];
         exfalso; destruct (E pid rem eq_refl) as (_ & _ & E3 & _);
         unfold pay_open in Hpo; cbn in Hpo; rewrite (Hlink pid rem eq_refl), E3 in Hpo; discriminate
       | intros; discriminate
       | exact D
       | intros pid rem Hp; destruct (E pid rem Hp) as (E1 & E2 & E3 & _); repeat split; try assumption; intros; discriminate ] ]).
Qed.

Lemma core_set_exch s e x' : Core s -> x_pay x' = x_pay (s_x s e) -> Core (set_exch s e x').
Proof.
  intros K H. apply (core_frame s); try reflexivity; [|exact K].
  intros e'. cbn. destruct (upd_cases (s_x s) e x' e') as [[-> E]|[_ E]]; rewrite E; [exact H|reflexivity].
Qed.

Lemma core_set_log s d : Core s -> well_tagged d -> Core (set_s_log s (s_log s ++ [d])).
Proof.
  intros [A B C D] H. split; cbn; try assumption.
  - apply Forall_app. split; [exact A|now constructor].
  - intros c. apply (conntags_transfer s); [reflexivity|now apply pay_stable_same|reflexivity|apply B].
Qed.

(* what release_conn does to each connection, and that it touches nothing else but the pool *)
Lemma release_conn_spec cf s c arg c' :
  let s' := release_conn cf s c arg in
  s_conn s' c' = s_conn s c' \/
  (c' = c /\ c_phase (s_conn s' c') = PClosed /\ c_pst (s_conn s' c') = c_pst (s_conn s c') /\
   c_pupg (s_conn s' c') = c_pupg (s_conn s c') /\ exists e, c_phase (s_conn s c') = PFlight e) \/
  (c' = c /\ c_phase (s_conn s' c') = PIdle /\ c_pst (s_conn s' c') = c_pst (s_conn s c') /\
   c_pay (s_conn s' c') = c_pay (s_conn s c') /\ c_pupg (s_conn s' c') = c_pupg (s_conn s c') /\
   exists e, c_phase (s_conn s c') = PFlight e).
Proof.
  cbv zeta. unfold release_conn. destruct (c_phase (s_conn s c)) eqn:Hph; [|now left|now left].
  destruct (release_closes_gen _ _ _); cbn.
  - destruct (upd_cases (s_conn s) c (close_proto (mark_incomplete (s_conn s c))) c') as [[-> E]|[_ E]]; rewrite E; [|now left].
    right; left. unfold mark_incomplete. destruct (prog_done _); cbn; repeat split; eauto.
  - destruct (upd_cases (s_conn s) c (set_c_phase (mark_incomplete (s_conn s c)) PIdle) c') as [[-> E]|[_ E]]; rewrite E; [|now left].
    right; right. unfold mark_incomplete. destruct (prog_done _); cbn; repeat split; eauto.
Qed.

Lemma release_conn_frame cf s c arg :
  let s' := release_conn cf s c arg in
  s_pay s' = s_pay s /\ s_npay s' = s_npay s /\ s_x s' = s_x s /\ s_seg s' = s_seg s /\ s_log s' = s_log s.
Proof.
  cbv zeta. unfold release_conn. destruct (c_phase _); [|now repeat split|now repeat split].
  destruct (release_closes_gen _ _ _); now repeat split.
Qed.

Lemma core_response_eof cf s e :
  Struct s -> Core s ->
  LinkOK (s_conn s (x_conn (s_x s e))) ->
  Core (response_eof cf s e).
Proof.
  intros S K Hl. unfold response_eof. destruct (response_eof_releases_gen _ _); [|exact K].
  destruct (x_held (s_x s e)) eqn:Hh.
  - apply (core_release cf _ _ _ e).
    + now apply core_set_exch.
    + cbn. now apply (st_held s S).
    + cbn. intros pid rem Hp. apply (Hl pid rem Hp). rewrite (st_held s S e Hh). discriminate.
  - now apply core_set_exch.
Qed.
