(* C03 support, part 4: a header block that already contains a line with a bare LF can never be
   completed into a message: every further read either raises / asks, or returns normally having
   delivered nothing.  (This is why the early BadHttpMessage of the split run in witness (b) is a
   rejection that is "only noticed earlier".) *)
From Coq Require Import ZifyBool ZifyN.
From AV Require Import Lib.Base Lib.BytesX Generated.HttpGen Model.Http
  Proofs.HttpSegBase Proofs.HttpSegChunk Proofs.HttpSeg.
Ltac Zify.zify_post_hook ::= Z.to_euclidean_division_equations.
Open Scope N_scope.

Definition poisoned (s : pst) : bool := existsb (has_byte 10) (lines s).

(* ------------------------------------------------------------------ bytes *)
Lemma forallb_no_lf (P : N -> bool) m : P 10 = false -> forallb P m = true -> has_byte 10 m = false.
Proof.
  intros HP. induction m as [|c m IH]; [reflexivity|]. cbn [forallb has_byte]. intro H.
  apply andb_true_iff in H as [H1 H2]. rewrite (IH H2), orb_false_r.
  destruct (c =? 10) eqn:E; [|reflexivity]. apply N.eqb_eq in E. subst. congruence.
Qed.

Lemma existsb_lf (P : N -> bool) m : P 10 = true -> has_byte 10 m = true -> existsb P m = true.
Proof.
  intros HP. induction m as [|c m IH]; [discriminate|]. cbn [existsb has_byte]. intro H.
  apply orb_true_iff in H as [H|H].
  - apply N.eqb_eq in H. subst. rewrite HP. reflexivity.
  - rewrite (IH H). apply orb_true_r.
Qed.

Lemma split_first_aux_shape sep : forall s acc a b,
  split_first_aux sep acc s = Some (a, b) -> exists m, a = rev acc ++ m /\ s = m ++ sep :: b.
Proof.
  induction s as [|c s IH]; intros acc a b H; [discriminate|]. cbn [split_first_aux] in H.
  destruct (c =? sep) eqn:E.
  - inversion H; subst. apply N.eqb_eq in E. subst. exists []. rewrite app_nil_r. split; reflexivity.
  - apply IH in H as (m & -> & ->). exists (c :: m). cbn [rev]. rewrite <- app_assoc. split; reflexivity.
Qed.

Lemma split_first_shape sep s a b : split_first sep s = Some (a, b) -> s = a ++ sep :: b.
Proof. intro H. apply split_first_aux_shape in H as (m & -> & ->). reflexivity. Qed.

Lemma has_byte_rev b s : has_byte b (rev s) = has_byte b s.
Proof.
  induction s as [|c s IH]; [reflexivity|]. cbn [rev has_byte]. rewrite has_byte_app, IH. cbn [has_byte].
  rewrite orb_false_r. apply orb_comm.
Qed.

Lemma lstrip_lf s : has_byte 10 s = true -> has_byte 10 (lstrip_ows s) = true.
Proof.
  induction s as [|c s IH]; [discriminate|]. cbn [lstrip_ows]. intro H.
  destruct (is_ows c) eqn:E; [|exact H]. apply IH. cbn [has_byte] in H.
  apply orb_true_iff in H as [H|H]; [|exact H]. apply N.eqb_eq in H. subst. discriminate.
Qed.

Lemma strip_lf s : has_byte 10 s = true -> has_byte 10 (strip_ows s) = true.
Proof.
  intro H. unfold strip_ows, rstrip_ows. rewrite has_byte_rev. apply lstrip_lf.
  rewrite has_byte_rev. now apply lstrip_lf.
Qed.

(* ------------------------------------------------------------------ the validators reject LF *)
Lemma parse_version_no_lf v x : parse_version v = Some x -> has_byte 10 v = false.
Proof.
  unfold parse_version. intro H.
  do 9 (destruct v as [|? v]; try discriminate).
  destruct (list_eqb [n; n0; n1; n2; n3] [72; 84; 84; 80; 47] && (n5 =? 46) && dec_digit n4 && dec_digit n6) eqn:E;
    [|discriminate].
  repeat (apply andb_true_iff in E as [E ?]).
  unfold dec_digit in *. cbn [has_byte].
  repeat match goal with |- context [?a =? 10] => destruct (a =? 10) eqn:?; try lia end; reflexivity.
Qed.

Lemma parse_field_lf l r : has_byte 10 l = true -> parse_field l <> POk r.
Proof.
  intros H E. unfold parse_field in E.
  destruct (split_first 58 l) as [[bname bvalue]|] eqn:E1; [|discriminate].
  apply split_first_shape in E1. subst l. rewrite has_byte_app in H. cbn [has_byte] in H.
  destruct bname as [|f bn]; [discriminate|].
  destruct (is_ows f || is_ows (last (f :: bn) 0)); [discriminate|].
  destruct (negb (forallb tchar (f :: bn))) eqn:E2; [discriminate|].
  apply negb_false_iff in E2. apply (forallb_no_lf tchar _ eq_refl) in E2. rewrite E2 in H.
  cbn [orb] in H. change (58 =? 10) with false in H. cbn [orb] in H.
  apply strip_lf in H. apply (existsb_lf field_forbidden_ctl _ eq_refl) in H. rewrite H in E. discriminate.
Qed.

Lemma parse_fields_lf : forall ls acc r, existsb (has_byte 10) ls = true -> parse_fields ls acc <> POk r.
Proof.
  induction ls as [|l ls IH]; intros acc r H E; [discriminate|]. cbn [parse_fields existsb] in *.
  destruct (parse_field l) as [[n v]|e|c t] eqn:E1; try discriminate.
  destruct (has_byte 10 l) eqn:E2; [exact (parse_field_lf _ _ E2 E1)|]. cbn [orb] in H.
  destruct (has_header n acc && is_singleton n); [discriminate|]. exact (IH _ _ H E).
Qed.

Lemma parse_request_lf o ls m : existsb (has_byte 10) ls = true -> parse_request o ls <> POk m.
Proof.
  intros H E. unfold parse_request in E. destruct ls as [|rl fls]; [discriminate|].
  destruct (split_first 32 rl) as [[mm r]|] eqn:E1; [|discriminate].
  destruct (split_first 32 r) as [[t v]|] eqn:E2; [|discriminate].
  destruct (negb (nonempty mm && forallb tchar mm)) eqn:E3; [discriminate|].
  destruct (parse_version v) as [[vmaj vmin]|] eqn:E4; [|discriminate].
  destruct (check_target o (map upper mm) t) as [u|e|c x] eqn:E5; try discriminate.
  destruct (parse_fields fls []) as [hs|e|c x] eqn:E6; try discriminate.
  cbn [existsb] in H. apply orb_true_iff in H as [H|H]; [|exact (parse_fields_lf _ _ _ H E6)].
  apply split_first_shape in E1, E2. subst rl r. rewrite !has_byte_app in H. cbn [has_byte] in H.
  rewrite has_byte_app in H. cbn [has_byte] in H.
  apply negb_false_iff, andb_true_iff in E3 as [_ E3]. apply (forallb_no_lf tchar _ eq_refl) in E3.
  rewrite E3, (parse_version_no_lf _ _ E4) in H. change (32 =? 10) with false in H. cbn [orb] in H.
  rewrite orb_false_r in H. apply (existsb_lf target_forbidden _ eq_refl) in H.
  unfold check_target in E5. rewrite H in E5. discriminate.
Qed.

Lemma start_message_lf lim o s ls0 x : existsb (has_byte 10) ls0 = true ->
  start_message lim o s (ls0 ++ [[]]) <> POk x.
Proof.
  intros H E. unfold start_message in E. cbv zeta in E. rewrite removelast_last in E.
  destruct (parse_request o ls0) as [m|e|c t] eqn:E1; try discriminate.
  exact (parse_request_lf _ _ _ H E1).
Qed.

(* ------------------------------------------------------------------ loop invariant *)
Lemma loop_inv {St R : Type} (step : St -> bytes -> (St * bytes) + R) (dflt : St -> R)
      (P : St -> Prop) (Q : R -> Prop) :
  (forall s b s' b', P s -> step s b = inl (s', b') -> P s') ->
  (forall s b r, P s -> step s b = inr r -> Q r) ->
  (forall s, P s -> Q (dflt s)) ->
  forall f s b, P s -> Q (loop step dflt f s b).
Proof.
  intros H1 H2 H3. induction f as [|f IH]; intros s b Hp; cbn [loop]; [now apply H3|].
  destruct (step s b) as [[s' b']|r] eqn:E; [apply IH; eapply H1; eassumption|eapply H2; eassumption].
Qed.

Definition doomed_cfg (acc0 : acc) (se : fcfg) : Prop :=
  poisoned (fst se) = true /\ payload (fst se) = None /\ snd se = acc0.

Definition doomed_res (acc0 : acc) (x : fres) : Prop :=
  let '(s', acc', r) := x in
  match r with ROk _ => acc' = acc0 /\ poisoned s' = true /\ payload s' = None | _ => True end.

Lemma poisoned_lines_nonempty s : poisoned s = true -> lines s <> [].
Proof. unfold poisoned. destruct (lines s); [discriminate|discriminate]. Qed.

Lemma step_f_doomed_cont lim o acc0 : forall se b se' b',
  doomed_cfg acc0 se -> step_f lim o se b = inl (se', b') -> doomed_cfg acc0 se'.
Proof.
  intros [s evs] b se' b' (Hp & Hn & He) H. cbn [fst snd] in *. subst evs.
  destruct b as [|a r]; [discriminate|]. cbn [step_f] in H. rewrite Hn in H.
  pose proof (poisoned_lines_nonempty _ Hp) as Hl. unfold poisoned in Hp.
  destruct (lines s) as [|l0 ls0] eqn:El; [congruence|].
  destruct (upgraded s); [discriminate|].
  destruct ((0 <? max_queue lim) && (max_queue lim <=? in_flight s)); [discriminate|].
  destruct (find_crlf (a :: r)) as [[line rest]|]; [|repeat (dmH H; try discriminate)].
  destruct line as [|c line].
  - destruct (should_close s); [discriminate|].
    destruct (max_field lim <? lenN []); [discriminate|].
    destruct (max_headers lim <? _); [discriminate|].
    destruct (start_message _ _ _ _) as [[s' e1]|e|cc t] eqn:Es; try discriminate.
    exfalso. exact (start_message_lf _ _ _ _ _ Hp Es).
  - repeat (dmH H; try discriminate). inversion H; subst. unfold doomed_cfg, poisoned. cbn [fst snd lines payload].
    change (l0 :: ls0 ++ [c :: line]) with ((l0 :: ls0) ++ [c :: line]).
    rewrite existsb_app, Hp. repeat split.
Qed.

Lemma step_f_doomed_stop lim o acc0 : forall se b r,
  doomed_cfg acc0 se -> step_f lim o se b = inr r -> doomed_res acc0 r.
Proof.
  intros [s evs] b r (Hp & Hn & He) H. cbn [fst snd] in *. subst evs.
  destruct b as [|a r0]; [cbn [step_f] in H; inversion H; subst; cbn; auto|].
  cbn [step_f] in H. rewrite Hn in H.
  destruct (upgraded s); [inversion H; subst; cbn; auto|].
  destruct ((0 <? max_queue lim) && (max_queue lim <=? in_flight s));
    [inversion H; subst; cbn; unfold poisoned; cbn [lines payload]; auto|].
  destruct (find_crlf (a :: r0)) as [[line rest]|].
  - repeat (dmH H; try discriminate); inversion H; subst; exact I.
  - repeat (dmH H; try discriminate); inversion H; subst; cbn; unfold poisoned; cbn [lines payload]; auto.
Qed.

Theorem doomed_feed lim o s d acc : poisoned s = true -> payload s = None ->
  doomed_res acc (feed lim o s d acc).
Proof.
  intros Hp Hn. rewrite feed_floop. unfold floop.
  apply (loop_inv (step_f lim o) fdflt (doomed_cfg acc) (doomed_res acc)
           (step_f_doomed_cont lim o acc) (step_f_doomed_stop lim o acc)).
  - intros [s0 e0] _. exact I.
  - unfold doomed_cfg, clr, poisoned. cbn [fst snd lines payload]. auto.
Qed.

Theorem doomed_run_segs lim o : forall segs s acc lo,
  poisoned s = true -> payload s = None ->
  doomed_res acc (run_segs lim o s segs acc lo).
Proof.
  induction segs as [|d segs IH]; intros s acc lo Hp Hn; [cbn; auto|].
  rewrite run_segs_cons. pose proof (doomed_feed lim o s d acc Hp Hn) as H.
  destruct (feed lim o s d acc) as [[s1 a1] r1]. destruct r1; try exact I.
  cbn in H. destruct H as (-> & Hp1 & Hn1). apply IH; assumption.
Qed.
