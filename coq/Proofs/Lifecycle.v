(* Lemmas about Model/Lifecycle.v: the cleanup-context mechanism, the signal walks over an
   application tree, and the two entry points. *)
From AV Require Import Lib.Base Generated.LifecycleGen Model.Lifecycle.
From Coq Require Import Permutation.
Open Scope N_scope.

(* ---------- generic list facts ---------- *)

Inductive subseq {A : Type} : list A -> list A -> Prop :=
| ss_nil : subseq [] []
| ss_skip : forall l x m, subseq l m -> subseq l (x :: m)
| ss_take : forall l x m, subseq l m -> subseq (x :: l) (x :: m).

Lemma subseq_nil_l {A} (m : list A) : subseq [] m.
Proof. induction m; constructor; auto. Qed.

Lemma subseq_nil_r {A} (l : list A) : subseq l [] -> l = [].
Proof. inversion 1; auto. Qed.

Lemma subseq_refl {A} (m : list A) : subseq m m.
Proof. induction m; [apply ss_nil | apply ss_take; auto]. Qed.

Lemma subseq_app {A} (l1 l2 m1 m2 : list A) : subseq l1 m1 -> subseq l2 m2 -> subseq (l1 ++ l2) (m1 ++ m2).
Proof. induction 1; simpl; intros; auto; [apply ss_skip | apply ss_take]; auto. Qed.

Lemma subseq_app_l {A} (l m1 m2 : list A) : subseq l m1 -> subseq l (m1 ++ m2).
Proof. intros H. rewrite <- (app_nil_r l). apply subseq_app; auto. apply subseq_nil_l. Qed.

Lemma subseq_app_r {A} (l m1 m2 : list A) : subseq l m2 -> subseq l (m1 ++ m2).
Proof. intros H. change l with ([] ++ l). apply subseq_app; auto. apply subseq_nil_l. Qed.

Lemma subseq_count (l m : list N) : subseq l m -> forall c, (count_occ N.eq_dec l c <= count_occ N.eq_dec m c)%nat.
Proof.
  induction 1; intros c; simpl; auto.
  - destruct (N.eq_dec x c); auto.
  - destruct (N.eq_dec x c); auto. apply le_n_S; auto.
Qed.

Lemma subseq_In {A} (l m : list A) : subseq l m -> forall c, In c l -> In c m.
Proof. induction 1; simpl; intros c Hc; auto. destruct Hc; auto. Qed.

Lemma subseq_NoDup {A} (l m : list A) : subseq l m -> NoDup m -> NoDup l.
Proof.
  induction 1; intros Hm; auto; inversion Hm; subst; auto.
  constructor; auto. intro Hx. eapply subseq_In in Hx; eauto.
Qed.

(* ---------- projections distribute ---------- *)

Lemma entered_app l1 l2 : entered (l1 ++ l2) = entered l1 ++ entered l2.
Proof. unfold entered. apply flat_map_app. Qed.
Lemma exited_app l1 l2 : exited (l1 ++ l2) = exited l1 ++ exited l2.
Proof. unfold exited. apply flat_map_app. Qed.

Lemma entered_raised_setup r : entered (raised_setup r) = [].
Proof. destruct r; reflexivity. Qed.
Lemma exited_raised_setup r : exited (raised_setup r) = [].
Proof. destruct r; reflexivity. Qed.
Lemma entered_raised_cleanup r : entered (raised_cleanup r) = [].
Proof. destruct r; reflexivity. Qed.
Lemma exited_raised_cleanup r : exited (raised_cleanup r) = [].
Proof. destruct r; reflexivity. Qed.
Lemma entered_site f : entered (fst (site_phase f)) = [].
Proof. unfold site_phase. destruct (f SSite); reflexivity. Qed.
Lemma exited_site f : exited (fst (site_phase f)) = [].
Proof. unfold site_phase. destruct (f SSite); reflexivity. Qed.

(* ---------- induction over application trees (nested through list) ---------- *)

Definition sub_all (P : app -> Prop) (rs : list reg) : Prop :=
  Forall (fun r => match r with RSub b => P b | _ => True end) rs.

Lemma app_ind' (P : app -> Prop) :
  (forall regs, sub_all P regs -> P (App regs)) -> forall a, P a.
Proof.
  intros H. fix IH 1. intros [regs]. apply H.
  induction regs as [|r t IHt]; constructor; auto.
  destruct r; auto.
Qed.

Lemma xt_ind' (P : xt -> Prop) :
  (forall e s, Forall P s -> P (XT e s)) -> forall x, P x.
Proof.
  intros H. fix IH 1. intros [e s]. apply H.
  induction s as [|y t IHt]; constructor; auto.
Qed.

(* ---------- the cleanup-context mechanism ---------- *)

Lemma ctx_startup_spec f cs : forall ex0 l ex r,
  ctx_startup f cs ex0 = (l, ex, r) ->
  ex = ex0 ++ entered l /\ exited l = [] /\
  (r = None -> entered l = cs) /\
  (forall e, r = Some e -> exists p c q, cs = p ++ c :: q /\ e = ErrStep (SEnter c) /\ entered l = p /\ f (SEnter c) = true).
Proof.
  induction cs as [|c t IH]; intros ex0 l ex r; simpl.
  - intros [= <- <- <-]. rewrite app_nil_r. repeat split; auto. discriminate.
  - destruct (f (SEnter c)) eqn:Ef.
    + unfold record_after_enter. intros [= <- <- <-]. simpl. rewrite app_nil_r.
      repeat split; auto; try discriminate.
      intros e [= <-]. exists [], c, t. auto.
    + destruct (ctx_startup f t (ex0 ++ [c])) as [[l' e'] r'] eqn:E.
      intros [= <- <- <-]. apply IH in E as (E1 & E2 & E3 & E4). subst e'.
      simpl. rewrite <- app_assoc. simpl. repeat split; auto.
      * intros Hr. f_equal; auto.
      * intros e He. destruct (E4 e He) as (p & c' & q & -> & -> & Hp & Hf).
        exists (c :: p), c', q. simpl. rewrite Hp. auto.
Qed.

Lemma ctx_exit_all_spec f xs : forall l es,
  ctx_exit_all f xs = (l, es) -> exited l = xs /\ entered l = [] /\
  (es = [] <-> forall c, In c xs -> f (SExit c) = false).
Proof.
  induction xs as [|c t IH]; intros l es; simpl.
  - intros [= <- <-]. repeat split; auto. intros _ c [].
  - unfold exit_errors_collected.
    destruct (ctx_exit_all f t) as [l' es'] eqn:E. destruct (IH _ _ eq_refl) as (E1 & E2 & E3).
    destruct (f (SExit c)) eqn:Ef; intros [= <- <-]; simpl; rewrite E1, E2; repeat split; auto.
    + discriminate.
    + intros H. specialize (H c (or_introl eq_refl)). congruence.
    + intros H c' [<-|Hc]; auto. apply E3; auto.
    + intros H. apply E3. intros c' Hc. apply H; auto.
Qed.

Lemma ctx_cleanup_spec f ex l r :
  ctx_cleanup f ex = (l, r) -> exited l = rev ex /\ entered l = [] /\
  (r = None <-> forall c, In c ex -> f (SExit c) = false).
Proof.
  unfold ctx_cleanup, exits_reversed.
  destruct (ctx_exit_all f (rev ex)) as [l' es] eqn:E. apply ctx_exit_all_spec in E as (E1 & E2 & E3).
  intros [= <- <-]. repeat split; auto.
  - intros H c Hc. assert (Hes : es = []) by (destruct es as [|e [|e' es']]; auto; discriminate).
    apply (proj1 E3 Hes). apply in_rev in Hc; auto.
  - intros H. assert (es = []) as ->; auto. apply E3. intros c Hc. apply H. apply in_rev; auto.
Qed.

(* ---------- start-up over a tree ---------- *)

Definition startup_ok (f : oracle) (a : app) : Prop :=
  forall l x r, startup_app f a = (l, x, r) -> entered l = xt_started x /\ exited l = [].

Lemma startup_app_unfold f regs :
  startup_app f (App regs) =
  let '(l0, ex, r0) := ctx_startup f (ctxs_of regs) [] in
  match r0 with
  | Some e => (l0, XT ex [], Some e)
  | None => let '(l1, xs, r1) := startup_regs (startup_app f) f regs in (l0 ++ l1, XT ex xs, r1)
  end.
Proof. reflexivity. Qed.

Lemma startup_regs_spec f rs : sub_all (startup_ok f) rs ->
  forall l xs r, startup_regs (startup_app f) f rs = (l, xs, r) ->
  entered l = flat_map xt_started xs /\ exited l = [].
Proof.
  induction 1 as [|r0 t Hr Ht IH]; intros l xs r; simpl.
  - intros [= <- <- <-]. auto.
  - destruct r0 as [c|u|u|u|b]; try (apply IH).
    + destruct (f (SStartup u)).
      * intros [= <- <- <-]. auto.
      * destruct (startup_regs (startup_app f) f t) as [[l' xs'] r'] eqn:E.
        intros [= <- <- <-]. destruct (IH _ _ _ eq_refl). simpl. auto.
    + destruct (startup_app f b) as [[lb xb] rb] eqn:Eb. destruct (Hr _ _ _ Eb) as (B1 & B2).
      destruct rb.
      * intros [= <- <- <-]. simpl. rewrite app_nil_r. auto.
      * destruct (startup_regs (startup_app f) f t) as [[l' xs'] r'] eqn:E.
        intros [= <- <- <-]. destruct (IH _ _ _ eq_refl) as (I1 & I2).
        rewrite entered_app, exited_app, B1, B2, I1, I2. simpl. auto.
Qed.

Lemma startup_app_spec f : forall a, startup_ok f a.
Proof.
  apply app_ind'. intros regs H l x r. rewrite startup_app_unfold.
  destruct (ctx_startup f (ctxs_of regs) []) as [[l0 ex] r0] eqn:E0.
  apply ctx_startup_spec in E0 as (E1 & E2 & _). simpl in E1. subst ex.
  destruct r0.
  - intros [= <- <- <-]. simpl. rewrite app_nil_r. auto.
  - destruct (startup_regs (startup_app f) f regs) as [[l1 xs] r1] eqn:E.
    intros [= <- <- <-]. apply startup_regs_spec in E as (I1 & I2); auto.
    rewrite entered_app, exited_app, I1, I2, E2. simpl. auto.
Qed.

(* ---------- shutdown signal: no context event ---------- *)

Definition shutdown_quiet (f : oracle) (a : app) : Prop :=
  entered (fst (shutdown_app f a)) = [] /\ exited (fst (shutdown_app f a)) = [].

Lemma shutdown_regs_quiet f rs : sub_all (shutdown_quiet f) rs ->
  entered (fst (shutdown_regs (shutdown_app f) f rs)) = [] /\ exited (fst (shutdown_regs (shutdown_app f) f rs)) = [].
Proof.
  induction 1 as [|r0 t Hr Ht IH]; simpl; auto.
  destruct r0 as [c|u|u|u|b]; auto.
  - destruct (f (SShutdown u)); simpl; auto.
    destruct (shutdown_regs (shutdown_app f) f t) as [l r]. simpl in *. auto.
  - destruct Hr as (B1 & B2). destruct (shutdown_app f b) as [lb rb]. simpl in *.
    destruct rb; simpl; auto.
    destruct (shutdown_regs (shutdown_app f) f t) as [l r]. simpl in *.
    destruct IH as (I1 & I2). rewrite entered_app, exited_app, B1, B2, I1, I2. auto.
Qed.

Lemma shutdown_app_quiet f : forall a, shutdown_quiet f a.
Proof.
  apply app_ind'. intros regs H. unfold shutdown_quiet.
  change (shutdown_app f (App regs)) with (shutdown_regs (shutdown_app f) f regs).
  apply shutdown_regs_quiet; auto.
Qed.

Definition shutdown_fine (f : oracle) (a : app) : Prop := snd (shutdown_app f a) = None.

Lemma shutdown_regs_fine f rs : no_shutdown_failure f -> sub_all (shutdown_fine f) rs ->
  snd (shutdown_regs (shutdown_app f) f rs) = None.
Proof.
  intros Hf. induction 1 as [|r0 t Hr Ht IH]; simpl; auto.
  destruct r0 as [c|u|u|u|b]; auto.
  - rewrite Hf. destruct (shutdown_regs (shutdown_app f) f t) as [l r]. simpl in *. auto.
  - unfold shutdown_fine in Hr. destruct (shutdown_app f b) as [lb rb]. simpl in *. subst rb.
    destruct (shutdown_regs (shutdown_app f) f t) as [l r]. simpl in *. auto.
Qed.

Lemma shutdown_app_fine f : no_shutdown_failure f -> forall a, shutdown_fine f a.
Proof.
  intros Hf. apply app_ind'. intros regs H. unfold shutdown_fine.
  change (shutdown_app f (App regs)) with (shutdown_regs (shutdown_app f) f regs).
  apply shutdown_regs_fine; auto.
Qed.

(* ---------- clean-up over a tree ---------- *)

Lemma cleanup_app_unfold f regs x :
  cleanup_app f (App regs) x =
  let '(l0, r0) := ctx_cleanup f (xt_exits x) in
  let '(l1, es) := cleanup_regs (cleanup_app f) f regs (xt_subs x) in
  (l0 ++ l1, collect (opt_list r0 ++ es)).
Proof. reflexivity. Qed.

Lemma started_cleanup_unfold f regs x :
  started_cleanup f (App regs) x =
  let '(l0, r0) := ctx_cleanup f (xt_exits x) in
  let '(l1, es) := started_regs (started_cleanup f) regs (xt_subs x) in
  (l0 ++ l1, collect (opt_list r0 ++ es)).
Proof. reflexivity. Qed.

(* clean-up order and start-up order list the same contexts *)
Lemma xt_orders_perm : forall x, Permutation (xt_cleanup_order x) (xt_started x).
Proof.
  apply xt_ind'. intros e s H. simpl.
  apply Permutation_app. { symmetry. apply Permutation_rev. }
  induction H as [|y t Hy Ht IH]; simpl; auto. apply Permutation_app; auto.
Qed.

Lemma perm_count (l m : list N) : Permutation l m -> forall c, count_occ N.eq_dec l c = count_occ N.eq_dec m c.
Proof.
  induction 1; intros c; simpl; auto.
  - rewrite IHPermutation; auto.
  - destruct (N.eq_dec y c), (N.eq_dec x c); auto.
  - rewrite IHPermutation1; auto.
Qed.

(* (1) the on_cleanup signal after a SUCCESSFUL start-up tears down exactly what the state records,
       whatever raises: every receiver runs *)
Definition cleanup_exact (f : oracle) (a : app) : Prop :=
  forall l x, startup_app f a = (l, x, None) ->
  entered (fst (cleanup_app f a x)) = [] /\ exited (fst (cleanup_app f a x)) = xt_cleanup_order x.

Lemma cleanup_regs_exact f rs : sub_all (cleanup_exact f) rs ->
  forall l xs, startup_regs (startup_app f) f rs = (l, xs, None) ->
  entered (fst (cleanup_regs (cleanup_app f) f rs xs)) = [] /\
  exited (fst (cleanup_regs (cleanup_app f) f rs xs)) = flat_map xt_cleanup_order xs.
Proof.
  induction 1 as [|r0 t Hr Ht IH]; intros l xs; simpl.
  - intros [= <- <-]. auto.
  - destruct r0 as [c|u|u|u|b]; try apply IH.
    + destruct (f (SStartup u)); [discriminate|].
      destruct (startup_regs (startup_app f) f t) as [[l' xs'] r'] eqn:E. intros [= <- <- ->]. apply (IH _ _ eq_refl).
    + intros E. destruct (IH _ _ E) as (I1 & I2).
      destruct (cleanup_regs (cleanup_app f) f t xs) as [l' es']. cbn [fst] in *.
      destruct (f (SCleanup u)); cbn [fst]; auto.
    + destruct (startup_app f b) as [[lb xb] rb] eqn:Eb. destruct rb; [discriminate|].
      destruct (startup_regs (startup_app f) f t) as [[l' xs'] r'] eqn:E. intros [= <- <- ->].
      cbn [hd tl]. destruct (Hr _ _ Eb) as (B1 & B2). destruct (IH _ _ eq_refl) as (I1 & I2).
      destruct (cleanup_app f b xb) as [lb' rb']. cbn [fst] in B1, B2.
      destruct (cleanup_regs (cleanup_app f) f t xs') as [l'' es'']. cbn [fst] in *.
      rewrite entered_app, exited_app, B1, B2, I1, I2. auto.
Qed.

Lemma cleanup_app_exact f : forall a, cleanup_exact f a.
Proof.
  apply app_ind'. intros regs H l x. rewrite startup_app_unfold.
  destruct (ctx_startup f (ctxs_of regs) []) as [[l0 ex] r0] eqn:E0.
  destruct r0; [discriminate|].
  destruct (startup_regs (startup_app f) f regs) as [[l1 xs] r1] eqn:Er. intros [= <- <- ->].
  rewrite cleanup_app_unfold. cbn [xt_exits xt_subs].
  destruct (ctx_cleanup f ex) as [lc rc] eqn:Ec. apply ctx_cleanup_spec in Ec as (C1 & C2 & _).
  destruct (cleanup_regs_exact f regs H _ _ Er) as (I1 & I2).
  destruct (cleanup_regs (cleanup_app f) f regs xs) as [l3 es3]. cbn [fst] in *.
  rewrite entered_app, exited_app, C1, C2, I1, I2. auto.
Qed.

(* (2) after a FAILED start-up: the cleanup contexts of the whole tree, exactly what the state records *)
Definition started_empty (f : oracle) (a : app) : Prop :=
  entered (fst (started_cleanup f a xt_empty)) = [] /\ exited (fst (started_cleanup f a xt_empty)) = [].

Lemma started_regs_empty f rs : sub_all (started_empty f) rs ->
  entered (fst (started_regs (started_cleanup f) rs [])) = [] /\ exited (fst (started_regs (started_cleanup f) rs [])) = [].
Proof.
  induction 1 as [|r0 t Hr Ht IH]; simpl; auto.
  destruct r0 as [c|u|u|u|b]; auto.
  cbn [hd tl]. destruct Hr as (B1 & B2). destruct IH as (I1 & I2).
  destruct (started_cleanup f b xt_empty) as [lb rb]. destruct (started_regs (started_cleanup f) t []) as [l es].
  cbn [fst] in *. rewrite entered_app, exited_app, B1, B2, I1, I2. auto.
Qed.

Lemma started_cleanup_empty f : forall a, started_empty f a.
Proof.
  apply app_ind'. intros regs H. unfold started_empty. rewrite started_cleanup_unfold. cbn [xt_empty xt_exits xt_subs].
  destruct (ctx_cleanup f []) as [lc rc] eqn:Ec. apply ctx_cleanup_spec in Ec as (C1 & C2 & _).
  destruct (started_regs_empty f regs H) as (I1 & I2).
  destruct (started_regs (started_cleanup f) regs []) as [l es]. cbn [fst] in *.
  rewrite entered_app, exited_app, C1, C2, I1, I2. auto.
Qed.

Definition started_exact (f : oracle) (a : app) : Prop :=
  forall l x r, startup_app f a = (l, x, r) ->
  entered (fst (started_cleanup f a x)) = [] /\ exited (fst (started_cleanup f a x)) = xt_cleanup_order x.

Lemma sub_all_weaken (P Q : app -> Prop) rs : (forall a, Q a) -> sub_all P rs -> sub_all Q rs.
Proof. intros HQ. induction 1 as [|r t Hr Ht IH]; constructor; auto. destruct r; auto. Qed.

Lemma started_regs_exact f rs : sub_all (started_exact f) rs ->
  forall l xs r, startup_regs (startup_app f) f rs = (l, xs, r) ->
  entered (fst (started_regs (started_cleanup f) rs xs)) = [] /\
  exited (fst (started_regs (started_cleanup f) rs xs)) = flat_map xt_cleanup_order xs.
Proof.
  induction 1 as [|r0 t Hr Ht IH]; intros l xs r; simpl.
  - intros [= <- <- <-]. auto.
  - destruct r0 as [c|u|u|u|b]; try apply IH.
    + destruct (f (SStartup u)).
      * intros [= <- <- <-]. apply started_regs_empty. eapply sub_all_weaken; [apply started_cleanup_empty | exact Ht].
      * destruct (startup_regs (startup_app f) f t) as [[l' xs'] r'] eqn:E. intros [= <- <- <-]. apply (IH _ _ _ eq_refl).
    + destruct (startup_app f b) as [[lb xb] rb] eqn:Eb. destruct (Hr _ _ _ Eb) as (B1 & B2).
      destruct rb.
      * intros [= <- <- <-]. cbn [hd tl].
        assert (He : sub_all (started_empty f) t) by (eapply sub_all_weaken; [apply started_cleanup_empty | exact Ht]).
        destruct (started_regs_empty f t He) as (I1 & I2).
        destruct (started_cleanup f b xb) as [lb' rb']. destruct (started_regs (started_cleanup f) t []) as [l' es'].
        cbn [fst] in *. rewrite entered_app, exited_app, B1, B2, I1, I2. simpl. rewrite !app_nil_r. auto.
      * destruct (startup_regs (startup_app f) f t) as [[l' xs'] r'] eqn:E. intros [= <- <- <-]. cbn [hd tl].
        destruct (IH _ _ _ eq_refl) as (I1 & I2).
        destruct (started_cleanup f b xb) as [lb' rb']. destruct (started_regs (started_cleanup f) t xs') as [l'' es''].
        cbn [fst] in *. rewrite entered_app, exited_app, B1, B2, I1, I2. auto.
Qed.

Lemma started_cleanup_exact f : forall a, started_exact f a.
Proof.
  apply app_ind'. intros regs H l x r. rewrite startup_app_unfold.
  destruct (ctx_startup f (ctxs_of regs) []) as [[l0 ex] r0] eqn:E0.
  assert (Hctx : forall xs, entered (fst (started_cleanup f (App regs) (XT ex xs))) =
                            entered (fst (started_regs (started_cleanup f) regs xs)) /\
                            exited (fst (started_cleanup f (App regs) (XT ex xs))) =
                            rev ex ++ exited (fst (started_regs (started_cleanup f) regs xs))).
  { intros xs. rewrite started_cleanup_unfold. cbn [xt_exits xt_subs].
    destruct (ctx_cleanup f ex) as [lc rc] eqn:Ec. apply ctx_cleanup_spec in Ec as (C1 & C2 & _).
    destruct (started_regs (started_cleanup f) regs xs) as [l3 es3]. cbn [fst].
    rewrite entered_app, exited_app, C1, C2. auto. }
  destruct r0.
  - intros [= <- <- <-]. destruct (Hctx []) as (-> & ->).
    assert (He : sub_all (started_empty f) regs) by (eapply sub_all_weaken; [apply started_cleanup_empty | exact H]).
    destruct (started_regs_empty f regs He) as (I1 & I2). rewrite I1, I2. simpl. auto.
  - destruct (startup_regs (startup_app f) f regs) as [[l1 xs] r1] eqn:Er. intros [= <- <- <-].
    destruct (Hctx xs) as (-> & ->). destruct (started_regs_exact f regs H _ _ _ Er) as (I1 & I2).
    rewrite I1, I2. simpl. auto.
Qed.

(* ---------- BaseRunner.cleanup() for the phase sequence of the unchanged tree ---------- *)

Lemma phase_run_1 f a x ok : phase_run f a x ok 1 = ((if ok then [EPre] else []), None).
Proof. reflexivity. Qed.
Lemma phase_run_2 f a x ok : phase_run f a x ok 2 = (if ok then shutdown_app f a else ([], None)).
Proof. reflexivity. Qed.
Lemma phase_run_3 f a x ok : phase_run f a x ok 3 = ((if ok then [ESrv] else []), None).
Proof. reflexivity. Qed.
Lemma phase_run_4 f a x ok : phase_run f a x ok 4 = app_cleanup f a x ok.
Proof. reflexivity. Qed.

Lemma runner_cleanup_unfold f a x ok :
  runner_cleanup f a x ok =
  if ok then
    let '(l2, r2) := shutdown_app f a in
    let '(l3, r3) := cleanup_app f a x in
    (EPre :: l2 ++ ESrv :: l3, match r3 with Some e => Some e | None => r2 end)
  else started_cleanup f a x.
Proof.
  unfold runner_cleanup, runner_cleanup_seq. cbn [run_phases].
  rewrite phase_run_1, phase_run_2, phase_run_3, phase_run_4. unfold app_cleanup, runner_cleanup_finally.
  destruct ok.
  - destruct (shutdown_app f a) as [l2 r2]. destruct (cleanup_app f a x) as [l3 r3].
    destruct r2, r3; cbn; rewrite ?app_nil_r; auto.
  - cbn. destruct (started_cleanup f a x) as [l r]. destruct r; cbn; rewrite ?app_nil_r; auto.
Qed.

(* whatever start-up did, the clean-up tears down exactly the recorded contexts *)
Lemma runner_cleanup_exact f a l1 x r1 :
  startup_app f a = (l1, x, r1) ->
  entered (fst (runner_cleanup f a x (is_none r1))) = [] /\
  exited (fst (runner_cleanup f a x (is_none r1))) = xt_cleanup_order x.
Proof.
  intros E. rewrite runner_cleanup_unfold. destruct r1 as [e|]; cbn [is_none].
  - apply (started_cleanup_exact f a _ _ _ E).
  - destruct (shutdown_app_quiet f a) as (Q1 & Q2). destruct (shutdown_app f a) as [l2 r2]. cbn [fst] in Q1, Q2.
    destruct (cleanup_app_exact f a _ _ E) as (C1 & C2). destruct (cleanup_app f a x) as [l3 r3]. cbn [fst] in *.
    change (EPre :: l2 ++ ESrv :: l3) with ([EPre] ++ l2 ++ [ESrv] ++ l3).
    rewrite !entered_app, !exited_app, Q1, Q2, C1, C2. auto.
Qed.

(* ---------- the two entry points ---------- *)

Lemma entry_points_agree f a : fst (via_run_app f a) = via_apprunner f a.
Proof.
  unfold via_run_app, via_apprunner, run_app_setup_in_try.
  destruct (startup_app f a) as [[l1 x] r1]. destruct r1 as [e|]; simpl.
  - destruct (runner_cleanup f a x false) as [l2 r2]. reflexivity.
  - destruct (site_phase f) as [ls rs]. destruct (runner_cleanup f a x true) as [l2 r2]. reflexivity.
Qed.

(* THE PROPERTY, all trees, all failure choices: what is torn down is exactly what started, per application in
   reverse order (root first, then the sub-applications in registration order) *)
Lemma exact f a l1 x r1 :
  startup_app f a = (l1, x, r1) ->
  entered (via_apprunner f a) = xt_started x /\
  exited (via_apprunner f a) = xt_cleanup_order x /\
  Permutation (xt_cleanup_order x) (xt_started x).
Proof.
  intros E. unfold via_apprunner. rewrite E.
  destruct (startup_app_spec f a _ _ _ E) as (S1 & S2).
  destruct (runner_cleanup_exact f a _ _ _ E) as (R1 & R2).
  destruct (runner_cleanup f a x (is_none r1)) as [l2 r2]. cbn [fst] in *.
  assert (Hs1 : entered (match r1 with None => fst (site_phase f) | Some _ => [] end) = []).
  { destruct r1; auto. apply entered_site. }
  assert (Hs2 : exited (match r1 with None => fst (site_phase f) | Some _ => [] end) = []).
  { destruct r1; auto. apply exited_site. }
  rewrite !entered_app, !exited_app, entered_raised_setup, exited_raised_setup,
    entered_raised_cleanup, exited_raised_cleanup, Hs1, Hs2, R1, R2, S1, S2. simpl. rewrite !app_nil_r.
  repeat split; auto. apply xt_orders_perm.
Qed.

Lemma iff_started f a :
  cleanup_iff_started (via_apprunner f a) /\ cleanup_iff_started (fst (via_run_app f a)).
Proof.
  rewrite entry_points_agree. destruct (startup_app f a) as [[l1 x] r1] eqn:E.
  destruct (exact f a _ _ _ E) as (P1 & P2 & P3).
  assert (H : cleanup_iff_started (via_apprunner f a)).
  { intros c. rewrite P1, P2. apply perm_count; auto. }
  auto.
Qed.

Lemma only_if_started f a c :
  (count_occ N.eq_dec (exited (via_apprunner f a)) c <= count_occ N.eq_dec (entered (via_apprunner f a)) c)%nat /\
  (count_occ N.eq_dec (exited (fst (via_run_app f a))) c <= count_occ N.eq_dec (entered (fst (via_run_app f a))) c)%nat.
Proof. destruct (iff_started f a) as (H1 & H2). rewrite (H1 c), (H2 c). auto. Qed.

(* ---------- flat applications (no sub-application): global reverse order ---------- *)

Definition flat_regs (rs : list reg) : Prop := Forall (fun r => match r with RSub _ => False | _ => True end) rs.

Lemma flat_regs_iff regs : flat (App regs) = true <-> flat_regs regs.
Proof.
  unfold flat, flat_regs. rewrite forallb_forall, Forall_forall. split; intros H r Hr; specialize (H r Hr); destruct r; auto; discriminate.
Qed.

Lemma startup_regs_flat rec f rs : flat_regs rs ->
  forall l xs r, startup_regs rec f rs = (l, xs, r) -> xs = [] /\ entered l = [] /\ exited l = [].
Proof.
  induction 1 as [|r0 t Hr Ht IH]; intros l xs r; simpl.
  - intros [= <- <- <-]. auto.
  - destruct r0 as [c|u|u|u|b]; try apply IH; try contradiction.
    destruct (f (SStartup u)).
    + intros [= <- <- <-]. auto.
    + destruct (startup_regs rec f t) as [[l' xs'] r'] eqn:E. intros [= <- <- <-]. destruct (IH _ _ _ eq_refl) as (? & ? & ?). simpl. auto.
Qed.

Lemma flat_exact f a : flat a = true ->
  exited (via_apprunner f a) = rev (entered (via_apprunner f a)).
Proof.
  destruct a as [regs]. intros Hflat. apply flat_regs_iff in Hflat.
  destruct (startup_app f (App regs)) as [[l1 x] r1] eqn:E.
  destruct (exact f _ _ _ _ E) as (P1 & P2 & _). rewrite P1, P2.
  rewrite startup_app_unfold in E.
  destruct (ctx_startup f (ctxs_of regs) []) as [[l0 ex] r0] eqn:E0.
  destruct r0.
  - injection E as <- <- <-. simpl. rewrite !app_nil_r. reflexivity.
  - destruct (startup_regs (startup_app f) f regs) as [[l1' xs] r1'] eqn:Er.
    apply startup_regs_flat in Er as (-> & _ & _); auto.
    injection E as <- <- <-. simpl. rewrite !app_nil_r. reflexivity.
Qed.

(* ---------- statements in the form used by Props/C20.v ---------- *)

Lemma context_mechanism f cs l ex r :
  ctx_startup f cs [] = (l, ex, r) ->
  ex = entered l /\
  (r = None -> ex = cs) /\
  (forall e, r = Some e -> exists p c q, cs = p ++ c :: q /\ ex = p /\ e = ErrStep (SEnter c) /\ f (SEnter c) = true) /\
  (forall l' r', ctx_cleanup f ex = (l', r') -> exited l' = rev ex /\ entered l' = []).
Proof.
  intros E. apply ctx_startup_spec in E as (E1 & E2 & E3 & E4). simpl in E1. repeat split.
  - auto.
  - intros Hr. rewrite E1. auto.
  - intros e He. destruct (E4 e He) as (p & c & q & H1 & H2 & H3 & H4). exists p, c, q. rewrite E1. auto.
  - apply ctx_cleanup_spec in H. apply H.
  - apply ctx_cleanup_spec in H. apply H.
Qed.

Lemma flat_iff f a : flat a = true ->
  exited (via_apprunner f a) = rev (entered (via_apprunner f a)) /\
  exited (fst (via_run_app f a)) = rev (entered (fst (via_run_app f a))).
Proof. intros H1. rewrite entry_points_agree. assert (H := flat_exact f a H1). auto. Qed.

(* regression witnesses: the former refutations (repaired in /repo 14e69de, ee73039, 9bf51ac) *)
Definition w_startup_app : app := App [RSub (App [RCtx 1]); RSu 101].
Definition w_startup_f : oracle := fails [SStartup 101].
Definition w_cleanup_app : app := App [RCtx 1; RSub (App [RCtx 2])].
Definition w_cleanup_f : oracle := fails [SExit 1].
Definition w_shutdown_app : app := App [RCtx 1; RSd 201].
Definition w_shutdown_f : oracle := fails [SShutdown 201].

Lemma regression_startup :
  via_apprunner w_startup_f w_startup_app =
  [EEnter 1 true; ESu 101 false; ESetupRaised (ErrStep (SStartup 101)); EExit 1 true].
Proof. vm_compute. reflexivity. Qed.
Lemma regression_cleanup :
  via_apprunner w_cleanup_f w_cleanup_app =
  [EEnter 1 true; EEnter 2 true; ESite true; EPre; ESrv; EExit 1 false; EExit 2 true; ECleanupRaised (ErrStep (SExit 1))].
Proof. vm_compute. reflexivity. Qed.
Lemma regression_shutdown :
  via_apprunner w_shutdown_f w_shutdown_app =
  [EEnter 1 true; ESite true; EPre; ESd 201 false; ESrv; EExit 1 true; ECleanupRaised (ErrStep (SShutdown 201))].
Proof. vm_compute. reflexivity. Qed.

(* order of the phases of a shutdown after a successful start-up, WHATEVER raises: connections are told to
   close before the on_shutdown receivers run, Server.shutdown runs after them (even when one raised) and
   before any cleanup context is torn down *)
Lemma phase_order f a l1 x :
  startup_app f a = (l1, x, None) ->
  exists l2 r2 l3 r3,
    shutdown_app f a = (l2, r2) /\ cleanup_app f a x = (l3, r3) /\
    via_apprunner f a = l1 ++ fst (site_phase f) ++ EPre :: l2 ++ ESrv :: l3 ++
                        raised_cleanup (match r3 with Some e => Some e | None => r2 end) /\
    exited l1 = [] /\ exited l2 = [] /\ exited (via_apprunner f a) = exited l3.
Proof.
  intros E. destruct (startup_app_spec f a _ _ _ E) as (_ & S2).
  destruct (shutdown_app_quiet f a) as (_ & Q2).
  unfold via_apprunner. rewrite E. cbn [is_none raised_setup]. rewrite runner_cleanup_unfold.
  destruct (shutdown_app f a) as [l2 r2]. cbn [fst snd] in *.
  destruct (cleanup_app f a x) as [l3 r3].
  exists l2, r2, l3, r3. repeat split; auto.
  - cbn [List.app]. rewrite <- !app_assoc. reflexivity.
  - cbn [List.app]. rewrite !exited_app, S2, exited_site. cbn [List.app].
    change (exited (EPre :: (l2 ++ ESrv :: l3) ++ raised_cleanup (match r3 with Some e => Some e | None => r2 end)))
      with (exited ((l2 ++ ESrv :: l3) ++ raised_cleanup (match r3 with Some e => Some e | None => r2 end))).
    rewrite !exited_app, Q2, exited_raised_cleanup. cbn [List.app].
    change (exited (ESrv :: l3)) with (exited l3). rewrite app_nil_r. reflexivity.
Qed.
