(* C02 support, part 2: the request parser on a message body (Content-Length or chunked) and on every
   prefix of it: no prefix is rejected, and the buffered partial chunk line always passes the re-check. *)
From Coq Require Import ZifyBool ZifyN.
From AV Require Import Lib.Base Lib.BytesX Generated.HttpGen Model.Http Model.Writer
  Proofs.HttpSegBase Proofs.HttpSegChunk Proofs.HttpSeg Proofs.WriterBody Proofs.WireLines.
Ltac Zify.zify_post_hook ::= Z.to_euclidean_division_equations.
Open Scope N_scope.

(* parser state while a body is being read / after it *)
Definition bst (p : option pstate) (sc : bool) (infl : N) : pst := mkS [] [] p false false sc infl.

Lemma step_f_need lim o p sc infl x evs p' e1 :
  x <> [] -> feed_payload lim p x evs = PRNeed p' e1 ->
  step_f lim o (bst (Some p) sc infl, evs) x = inr (bst (Some p') sc infl, e1, ROk []).
Proof. intros Hx H. destruct x as [|a r]; [congruence|]. unfold step_f, bst. cbn [payload]. rewrite H. reflexivity. Qed.

Lemma step_f_done lim o p sc infl x evs rest e1 :
  x <> [] -> feed_payload lim p x evs = PRDone rest e1 ->
  step_f lim o (bst (Some p) sc infl, evs) x = inl ((bst None sc infl, e1), rest).
Proof. intros Hx H. destruct x as [|a r]; [congruence|]. unfold step_f, bst. cbn [payload]. rewrite H. reflexivity. Qed.

Lemma short_prefix (x y a b : bytes) :
  x ++ y = a ++ b -> (length x < length a)%nat -> exists z, a = x ++ z /\ z <> [].
Proof.
  revert a. induction x as [|c x IH]; intros a E Hlen.
  - exists a. split; [reflexivity|]. destruct a; [cbn in Hlen; lia|discriminate].
  - destruct a as [|d a]; [cbn in Hlen; lia|]. cbn [app] in E. inversion E; subst. cbn [length] in Hlen.
    destruct (IH a H1 ltac:(lia)) as (z & -> & Hz). exists z. split; [reflexivity|exact Hz].
Qed.

Lemma takeN_short : forall x n, lenN x <= n -> takeN n x = (x, []).
Proof.
  intros x n H. rewrite takeN_firstn. unfold lenN in H.
  rewrite firstn_all2, skipn_all2 by lia. reflexivity.
Qed.

(* ------------------------------------------------------------------ Content-Length bodies *)
Lemma length_body_prefixes lim o mt sc infl d evs :
  d <> [] -> forall x y, d = x ++ y ->
  accepts lim o (bst (Some (mkP (PLength (lenN d)) [] [] mt)) sc infl) x evs.
Proof.
  intros Hd x y E. destruct x as [|a x'].
  - eexists _, _. split; [|intros f Hf; destruct f as [|f]; [cbn in Hf; lia|apply feed_loop_nil]]. reflexivity.
  - set (x := a :: x') in *.
    assert (Hlen : lenN x <= lenN d) by (rewrite E, lenN_app; lia).
    destruct (lenN d - lenN x =? 0) eqn:E0.
    + (* the whole body *)
      exists (bst None sc infl), (ev_eof (ev_data x evs)). split; [reflexivity|]. intros f Hf.
      destruct f as [|f]; [lia|]. rewrite feed_loop_S.
      rewrite (step_f_done lim o _ sc infl x evs [] (ev_eof (ev_data x evs))); [|discriminate|].
      * destruct f as [|f]; [cbn [length] in Hf; lia|]. apply feed_loop_nil.
      * unfold feed_payload. cbn [pk]. rewrite takeN_short by exact Hlen. rewrite E0. reflexivity.
    + eexists (bst (Some (mkP (PLength (lenN d - lenN x)) [] [] mt)) sc infl), (ev_data x evs).
      split; [reflexivity|]. intros f Hf.
      destruct f as [|f]; [lia|]. rewrite feed_loop_S.
      rewrite (step_f_need lim o _ sc infl x evs (mkP (PLength (lenN d - lenN x)) [] [] mt) (ev_data x evs));
        [reflexivity|discriminate|].
      unfold feed_payload. cbn [pk max_trailers]. rewrite takeN_short by exact Hlen. rewrite E0. reflexivity.
Qed.

Lemma length_body_run lim o mt sc infl d evs f :
  d <> [] -> (2 * length d + 2 <= f)%nat ->
  feed_loop f lim o (bst (Some (mkP (PLength (lenN d)) [] [] mt)) sc infl) d evs =
  (bst None sc infl, ev_eof (ev_data d evs), ROk []).
Proof.
  intros Hd Hf. destruct f as [|f]; [lia|]. rewrite feed_loop_S.
  rewrite (step_f_done lim o _ sc infl d evs [] (ev_eof (ev_data d evs))); [|exact Hd|].
  - destruct f as [|f]; [destruct d; [congruence|cbn [length] in Hf; lia]|]. apply feed_loop_nil.
  - unfold feed_payload. cbn [pk]. rewrite takeN_short by lia.
    replace (lenN d - lenN d) with 0 by lia. reflexivity.
Qed.

(* ------------------------------------------------------------------ chunked bodies: strict prefixes *)
Definition needs (lim : limits) (mt : N) (c : cstate) (evs : acc) (x : bytes) : Prop :=
  exists p' e1, too_long lim p' = false /\
    forall f, (2 * length x + 2 <= f)%nat -> cloop lim mt f (c, [], evs) x = PRNeed p' e1.

Lemma needs_nil lim mt c evs : needs lim mt c evs [].
Proof.
  exists (mkP (PChunked c) [] [] mt), evs. split; [reflexivity|]. intros f Hf.
  destruct f as [|f]; [cbn in Hf; lia|]. rewrite cloop_S. reflexivity.
Qed.

Lemma needs_size_partial lim mt evs x :
  x <> [] -> find_crlf x = None -> has_byte 10 x = false -> lenN x <= max_line lim ->
  needs lim mt CSize evs x.
Proof.
  intros Hx Hf Hlf Hlen. exists (mkP (PChunked CSize) x [] mt), evs. split.
  - unfold too_long. cbn [pk ctail]. destruct x as [|x0 x]; [congruence|].
    pose proof (tail_len_le chunk_tail_check_discounts_cr (x0 :: x)). lia.
  - intros f Hf'. destruct f as [|f]; [lia|]. rewrite cloop_S.
    destruct x as [|a r]; [congruence|]. cbn [step_c]. rewrite Hf, Hlf. reflexivity.
Qed.

(* strict prefixes of one encoded chunk *)
Lemma chunk_prefix lim mt evs d x z :
  d <> [] -> lenN (to_hex (lenN d)) + 1 <= max_line lim -> 1 <= max_line lim ->
  chunk_enc d = x ++ z -> z <> [] -> needs lim mt CSize evs x.
Proof.
  intros Hd Hhex H1 E Hz.
  destruct (hex_numerals (lenN d)) as (Hp & Hdig & Hne & Hclean).
  set (H := to_hex (lenN d)) in *.
  assert (H13 : ~ In 13 H) by (intro Hi; apply Hclean in Hi; tauto).
  assert (H10 : ~ In 10 H) by (intro Hi; apply Hclean in Hi; tauto).
  assert (H59 : ~ In 59 H) by (intro Hi; apply Hclean in Hi; tauto).
  unfold chunk_enc, CRLF in E. fold H in E. cbn [app] in E.
  destruct (Nat.ltb (length x) (length H + 2)) eqn:Ec.
  - apply Nat.ltb_lt in Ec. symmetry in E.
    destruct x as [|a x0]; [apply needs_nil|].
    destruct (partial_facts (a :: x0) H H13 H10 (strict_prefix_cases _ _ _ _ E Ec)) as (F1 & F2 & F3).
    apply needs_size_partial; [discriminate|assumption|assumption|lia].
  - apply Nat.ltb_ge in Ec. symmetry in E.
    change (H ++ 13 :: 10 :: d ++ [13; 10]) with (H ++ [13; 10] ++ d ++ [13; 10]) in E. rewrite app_assoc in E.
    destruct (long_prefix_cases x z (H ++ [13; 10]) _ E) as (x1 & -> & E1).
    { rewrite app_length. cbn [length]. lia. }
    (* after the size line: CData (lenN d) on x1, where d CRLF = x1 ++ z *)
    assert (Hstep : forall f, cloop lim mt (S f) (CSize, [], evs) ((H ++ [13; 10]) ++ x1) =
                              cloop lim mt f (CData (lenN d), [], evs) x1).
    { intro f. rewrite <- app_assoc. cbn [app]. rewrite cloop_S, step_c_size; try assumption; [|lia].
      rewrite Hp. destruct (lenN d =? 0) eqn:E0; [destruct d; [congruence|rewrite lenN_cons in E0; lia]|]. reflexivity. }
    assert (Hx1 : (length x1 < length d + 2)%nat).
    { apply (f_equal (@length N)) in E1. rewrite !app_length in E1. cbn [length] in E1.
      destruct z; [congruence|cbn [length] in E1; lia]. }
    change (d ++ [13; 10]) with (d ++ 13 :: 10 :: []) in E1. symmetry in E1.
    destruct (strict_prefix_cases x1 z d [] E1 Hx1) as [[z' Hz']| ->].
    + destruct z' as [|b z''].
      * (* x1 = d: all the data, nothing of the CRLF yet *)
        rewrite app_nil_r in Hz'. subst x1.
        exists (mkP (PChunked CDataEnd) [] [] mt), (ev_chunk_end (ev_data d evs)). split; [reflexivity|].
        intros f Hf. rewrite app_length in Hf. destruct f as [|f]; [lia|]. rewrite Hstep.
        destruct f as [|f]; [rewrite !app_length in Hf; cbn [length] in Hf; lia|].
        rewrite cloop_S. rewrite <- (app_nil_r d) at 2. rewrite step_c_data_full by exact Hd.
        destruct f as [|f]; [rewrite !app_length in Hf; cbn [length] in Hf; lia|].
        rewrite cloop_S. reflexivity.
      * (* x1 a strict prefix of the data *)
        destruct x1 as [|a x1'].
        { exists (mkP (PChunked (CData (lenN d))) [] [] mt), evs. split; [reflexivity|].
          intros f Hf. destruct f as [|f]; [lia|]. rewrite Hstep.
          destruct f as [|f]; [rewrite !app_length in Hf; cbn [length] in Hf; lia|]. rewrite cloop_S. reflexivity. }
        set (x1 := a :: x1') in *.
        assert (Hl : lenN x1 < lenN d) by (rewrite Hz', lenN_app, lenN_cons; lia).
        exists (mkP (PChunked (CData (lenN d - lenN x1))) [] [] mt), (ev_data x1 evs). split; [reflexivity|].
        intros f Hf. destruct f as [|f]; [lia|]. rewrite Hstep.
        destruct f as [|f]; [rewrite !app_length in Hf; cbn [length] in Hf; lia|]. rewrite cloop_S.
        unfold x1 at 1. rewrite (step_c_data lim mt (lenN d) [] evs a x1' x1 []) by (apply takeN_short; lia).
        destruct (lenN d - lenN x1 =? 0) eqn:E0; [lia|]. reflexivity.
    + (* x1 = d CR *)
      exists (mkP (PChunked CDataEnd) [13] [] mt), (ev_chunk_end (ev_data d evs)). split.
      { unfold too_long. cbn [pk ctail]. pose proof (tail_len_le chunk_tail_check_discounts_cr [13]) as Htl13. change (lenN [13]) with 1 in Htl13. lia. }
      intros f Hf. destruct f as [|f]; [lia|]. rewrite Hstep.
      destruct f as [|f]; [rewrite !app_length in Hf; cbn [length] in Hf; lia|].
      rewrite cloop_S, step_c_data_full by exact Hd.
      destruct f as [|f]; [rewrite !app_length in Hf; cbn [length] in Hf; lia|].
      rewrite cloop_S. reflexivity.
Qed.

Lemma last_chunk_prefix lim mt evs x z :
  2 <= max_line lim -> 1 <= max_field lim ->
  last_chunk = x ++ z -> z <> [] -> needs lim mt CSize evs x.
Proof.
  intros H2 H1 E Hz. unfold last_chunk in E.
  destruct x as [|a x]; [apply needs_nil|]. cbn [app] in E. inversion E; subst a. clear E. rename H3 into E.
  destruct x as [|a x].
  { apply needs_size_partial; [discriminate|reflexivity|reflexivity|change (lenN [48]) with 1; lia]. }
  cbn [app] in E. inversion E; subst a. clear E. rename H3 into E.
  destruct x as [|a x].
  { apply needs_size_partial; [discriminate|reflexivity|reflexivity|change (lenN [48; 13]) with 2; lia]. }
  cbn [app] in E. inversion E; subst a. clear E. rename H3 into E.
  assert (Hs : forall r f, cloop lim mt (S f) (CSize, [], evs) (48 :: 13 :: 10 :: r) = cloop lim mt f (CTrailers, [], evs) r).
  { intros r f. change (48 :: 13 :: 10 :: r) with ([48] ++ 13 :: 10 :: r).
    rewrite cloop_S, step_c_size; [reflexivity|discriminate|intros [H|[]]; discriminate|intros [H|[]]; discriminate|reflexivity|].
    change (lenN [48]) with 1. lia. }
  destruct x as [|a x].
  { exists (mkP (PChunked CTrailers) [] [] mt), evs. split; [reflexivity|]. intros f Hf.
    destruct f as [|f]; [lia|]. rewrite Hs. destruct f as [|f]; [cbn [length] in Hf; lia|]. rewrite cloop_S. reflexivity. }
  cbn [app] in E. inversion E; subst a. clear E. rename H3 into E.
  destruct x as [|a x].
  { exists (mkP (PChunked CTrailers) [13] [] mt), evs. split.
    { unfold too_long. cbn [pk ctail]. pose proof (tail_len_le chunk_tail_check_discounts_cr [13]) as Htl13. change (lenN [13]) with 1 in Htl13. lia. }
    intros f Hf. destruct f as [|f]; [lia|]. rewrite Hs.
    destruct f as [|f]; [cbn [length] in Hf; lia|]. rewrite cloop_S. reflexivity. }
  cbn [app] in E. inversion E; subst a. destruct x; [|discriminate]. cbn [app] in H3. congruence.
Qed.

Lemma chunked_prefixes lim mt : forall ds evs x z,
  (forall d, In d ds -> d <> [] -> lenN (to_hex (lenN d)) + 1 <= max_line lim) ->
  2 <= max_line lim -> 1 <= max_field lim ->
  chunked_body ds = x ++ z -> z <> [] -> needs lim mt CSize evs x.
Proof.
  induction ds as [|d ds IH]; intros evs x z Hl H2 H1 E Hz.
  - unfold chunked_body in E. cbn [map concat app] in E. eapply last_chunk_prefix; eassumption.
  - assert (Hl' : forall d0, In d0 ds -> d0 <> [] -> lenN (to_hex (lenN d0)) + 1 <= max_line lim)
      by (intros; apply Hl; [right; assumption|assumption]).
    unfold chunked_body in E. cbn [map concat] in E. rewrite <- app_assoc in E. fold (chunked_body ds) in E.
    destruct d as [|a d'].
    + cbn [enc1 app] in E. eapply IH; eassumption.
    + set (d := a :: d') in *. change (enc1 d) with (chunk_enc d) in E.
      assert (Hd : d <> []) by discriminate.
      assert (Hh : lenN (to_hex (lenN d)) + 1 <= max_line lim) by (apply Hl; [left; reflexivity|exact Hd]).
      destruct (Nat.ltb (length x) (length (chunk_enc d))) eqn:Ec.
      * apply Nat.ltb_lt in Ec. symmetry in E.
        destruct (short_prefix _ _ _ _ E Ec) as (z1 & E1 & Hz1).
        apply (chunk_prefix lim mt evs d x z1 Hd Hh ltac:(lia) E1 Hz1).
      * apply Nat.ltb_ge in Ec. symmetry in E.
        destruct (long_prefix_cases _ _ _ _ E Ec) as (x' & -> & E').
        destruct (IH (ev_chunk_end (ev_data d evs)) x' z Hl' H2 H1 E' Hz) as (p' & e1 & Hok & Hrun).
        exists p', e1. split; [exact Hok|]. intros f Hf.
        assert (Hlen5 : (5 <= length (chunk_enc d))%nat).
        { unfold chunk_enc, CRLF. rewrite !app_length. cbn [length].
          pose proof (to_hex_nonnil (lenN d)) as Hn. destruct (to_hex (lenN d)); [congruence|].
          unfold d. cbn [length]. lia. }
        rewrite app_length in Hf.
        do 3 (destruct f as [|f]; [lia|]).
        rewrite cloop_chunk by (try exact Hd; lia). apply Hrun. lia.
Qed.

(* ------------------------------------------------------------------ chunked bodies at the parser level *)
Lemma chunked_body_prefixes lim o mt sc infl ds evs :
  (forall d, In d ds -> d <> [] -> lenN (to_hex (lenN d)) + 1 <= max_line lim) ->
  2 <= max_line lim -> 1 <= max_field lim -> 1 <= mt ->
  forall x y, chunked_body ds = x ++ y ->
  accepts lim o (bst (Some (mkP (PChunked CSize) [] [] mt)) sc infl) x evs.
Proof.
  intros Hl H2 H1 Hmt x y E.
  destruct x as [|a x'].
  { eexists _, _. split; [|intros f Hf; destruct f as [|f]; [cbn in Hf; lia|apply feed_loop_nil]]. reflexivity. }
  set (x := a :: x') in *.
  destruct y as [|b y'].
  - (* the whole body *)
    rewrite app_nil_r in E. subst x.
    exists (bst None sc infl), (ev_eof (deliver ds evs)). split; [reflexivity|]. intros f Hf.
    destruct f as [|f]; [lia|]. rewrite feed_loop_S.
    rewrite (step_f_done lim o _ sc infl _ evs [] (ev_eof (deliver ds evs))).
    + destruct f as [|f]; [rewrite <- E in Hf; cbn [length] in Hf; lia|]. apply feed_loop_nil.
    + discriminate.
    + rewrite <- E. apply chunked_body_decodes; [|lia|exact Hmt].
      intros d Hd. destruct d as [|c d']; [change (lenN (@nil N)) with 0; cbn; lia|].
      specialize (Hl _ Hd ltac:(discriminate)). lia.
  - destruct (chunked_prefixes lim mt ds evs x (b :: y') Hl H2 H1 E ltac:(discriminate)) as (p' & e1 & Hok & Hrun).
    exists (bst (Some p') sc infl), e1. split.
    { unfold tail_ok, bst. cbn [payload]. rewrite Hok. reflexivity. }
    intros f Hf. destruct f as [|f]; [lia|]. rewrite feed_loop_S.
    rewrite (step_f_need lim o _ sc infl x evs p' e1); [reflexivity|discriminate|].
    rewrite (feed_payload_chunked _ _ CSize) by reflexivity.
    cbn [too_long pk ctail tlines max_trailers app]. apply Hrun. lia.
Qed.

Lemma chunked_body_run lim o mt sc infl ds evs f :
  (forall d, In d ds -> d <> [] -> lenN (to_hex (lenN d)) + 1 <= max_line lim) ->
  2 <= max_line lim -> 1 <= mt ->
  (2 * length (chunked_body ds) + 2 <= f)%nat ->
  feed_loop f lim o (bst (Some (mkP (PChunked CSize) [] [] mt)) sc infl) (chunked_body ds) evs =
  (bst None sc infl, ev_eof (deliver ds evs), ROk []).
Proof.
  intros Hl H2 Hmt Hf.
  assert (Hne : chunked_body ds <> []).
  { unfold chunked_body, last_chunk. intro H. apply app_eq_nil in H as [_ H]. discriminate. }
  destruct f as [|f]; [lia|]. rewrite feed_loop_S.
  rewrite (step_f_done lim o _ sc infl _ evs [] (ev_eof (deliver ds evs))); [|exact Hne|].
  - destruct f as [|f]; [destruct (chunked_body ds); [congruence|cbn [length] in Hf; lia]|]. apply feed_loop_nil.
  - apply chunked_body_decodes; [|lia|exact Hmt].
    intros d Hd. destruct d as [|c d']; [change (lenN (@nil N)) with 0; cbn; lia|].
    specialize (Hl _ Hd ltac:(discriminate)). lia.
Qed.

(* a strict prefix of a chunked body leaves the parser INSIDE the body: the payload parser has not completed *)
Lemma chunked_strict_prefix_open lim o mt sc infl ds evs :
  (forall d, In d ds -> d <> [] -> lenN (to_hex (lenN d)) + 1 <= max_line lim) ->
  2 <= max_line lim -> 1 <= max_field lim ->
  forall x y, chunked_body ds = x ++ y -> y <> [] ->
  exists p' a', forall f, (2 * length x + 2 <= f)%nat ->
    feed_loop f lim o (bst (Some (mkP (PChunked CSize) [] [] mt)) sc infl) x evs = (bst (Some p') sc infl, a', ROk []).
Proof.
  intros Hl H2 H1 x y E Hy. destruct x as [|a x'].
  { eexists _, _. intros f Hf. destruct f as [|f]; [cbn in Hf; lia|]. apply feed_loop_nil. }
  set (x := a :: x') in *.
  destruct (chunked_prefixes lim mt ds evs x y Hl H2 H1 E Hy) as (p' & e1 & Hok & Hrun).
  exists p', e1. intros f Hf. destruct f as [|f]; [lia|]. rewrite feed_loop_S.
  rewrite (step_f_need lim o _ sc infl x evs p' e1); [reflexivity|discriminate|].
  rewrite (feed_payload_chunked _ _ CSize) by reflexivity.
  cbn [too_long pk ctail tlines max_trailers app]. apply Hrun. lia.
Qed.
