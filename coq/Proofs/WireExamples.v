(* C02: concrete instances (non-vacuity of the hypotheses; refutation witness), all by vm_compute. *)
From AV Require Import Lib.Base Lib.BytesX Generated.HttpGen Generated.WireGen Model.Writer Model.Http Model.Wire
  Proofs.HttpSegEx Proofs.WireRoundtrip Proofs.WireKeepalive.
Open Scope N_scope.

(* POST /p with header X-A: v, Host h, defaults Accept-Encoding: gz, User-Agent: ua *)
Definition ex_input (ch : option bool) (b : cbody) (v11 fc : bool) : cinput :=
  mkIn [112; 111; 115; 116] [47; 112] [104] v11 [([88; 45; 65], [118])] [103; 122] [117; 97] ch b fc.

Definition built (i : cinput) : creq :=
  match build i with BOk r => r | _ => mkCreq [] [] true [] None BNone end.
Definition wire_of (r : creq) : bytes := match client_serialize r with Some w => w | None => [] end.

(* async-generator body "x", "", "yz" -> chunked; cut into three reads inside the head and inside a chunk *)
Definition ex_chunked := ex_input None (BPieces [[120]; []; [121; 122]]) true false.
Definition ex_bytes := ex_input None (BBytes [120; 121; 122]) false true.
Definition ex_nobody := ex_input None BNone true false.
(* chunked=False with a body (repaired by 85945a4: framed by Content-Length only) *)
Definition ex_chunked_false := ex_input (Some false) (BBytes [120; 121; 122]) true false.

Definition cut3 (w : bytes) : list bytes := [firstn 40 w; firstn 100 (skipn 40 w); skipn 140 w].

Lemma ex_valid :
  (exists r, build ex_chunked = BOk r /\ valid lim0 r = true /\ client_serialize r <> None /\ c_chunked r = Some true) /\
  (exists r, build ex_bytes = BOk r /\ valid lim0 r = true /\ client_serialize r <> None /\ c_chunked r = None) /\
  (exists r, build ex_nobody = BOk r /\ valid lim0 r = true /\ client_serialize r <> None).
Proof.
  split; [|split]; eexists; (split; [vm_compute; reflexivity|]); repeat split; try (vm_compute; reflexivity); vm_compute; discriminate.
Qed.

Lemma ex_segmented :
  let r := built ex_chunked in
  concat (cut3 (wire_of r)) = wire_of r /\
  digest (run_segs lim0 [] init (cut3 (wire_of r)) [] []) =
    (ROk [], [([80; 79; 83; 84], [47; 112], [120; 121; 122], [1; 3], true, None)]) /\
  r_data (expected_rec r) = [120; 121; 122] /\ m_method (r_msg (expected_rec r)) = [80; 79; 83; 84].
Proof. vm_compute. repeat split; reflexivity. Qed.

Lemma ex_chunked_false_ok :
  let r := built ex_chunked_false in
  build ex_chunked_false = BOk r /\ i_chunked ex_chunked_false = Some false /\ c_chunked r = Some false /\
  client_serialize r <> None /\ valid lim0 r = true /\
  concat (cut3 (wire_of r)) = wire_of r /\
  digest (run_segs lim0 [] init (cut3 (wire_of r)) [] []) =
    (ROk [], [([80; 79; 83; 84], [47; 112], [120; 121; 122], [], true, None)]).
Proof. vm_compute. repeat split; try reflexivity; discriminate. Qed.

(* the async generator of ex_chunked raises after its second piece ("x", ""): head + one chunk, no terminator;
   the parser has the message with r_eof = false and is still inside the body *)
Definition wire_aborted (r : creq) (k : nat) : bytes := match client_serialize_aborted r k with Some w => w | None => [] end.
Lemma ex_aborted :
  let r := built ex_chunked in
  req_chunking r = true /\ client_serialize r <> None /\ valid lim0 r = true /\
  client_serialize_aborted r 2 <> None /\
  digest (run_segs lim0 [] init [wire_aborted r 2] [] []) =
    (ROk [], [([80; 79; 83; 84], [47; 112], [120], [1], false, None)]) /\
  digest (run_segs lim0 [] init [wire_of r] [] []) =
    (ROk [], [([80; 79; 83; 84], [47; 112], [120; 121; 122], [1; 3], true, None)]).
Proof. vm_compute. repeat split; try reflexivity; discriminate. Qed.

Lemma ex_keepalive :
  (let r := built ex_chunked in valid lim0 r = true /\ md_has n_connection (i_headers ex_chunked) = false /\ close_of r = false) /\
  (let r := built ex_bytes in valid lim0 r = true /\ md_has n_connection (i_headers ex_bytes) = false /\ close_of r = true).
Proof. vm_compute. repeat split; reflexivity. Qed.

(* what expected_rec / final_state say, field by field *)
Lemma expected_rec_spelled r :
  let e := expected_rec r in
  m_method (r_msg e) = map upper (c_method r) /\ m_target (r_msg e) = c_target r /\
  (m_vmaj (r_msg e), m_vmin (r_msg e)) = (1, if c_v11 r then 1 else 0) /\
  m_headers (r_msg e) = map (fun kv => (u8 (fst kv), strip_ows (u8 (snd kv)))) (c_headers r) /\
  r_data e = body_bytes (c_body r) /\ r_eof e = true /\ r_exc e = None.
Proof. repeat split; reflexivity. Qed.

Lemma final_state_spelled lim r :
  let s := final_state lim r in
  lines s = [] /\ tail s = [] /\ payload s = None /\ upgraded s = false /\
  should_close s = m_close (r_msg (expected_rec r)).
Proof. repeat split; reflexivity. Qed.
