(* C03 support, part 1: a generic fuelled "step until stop" loop with its fuel-independence and
   append (prefix-stability) lemmas, and the byte-string facts (find_crlf, takeN, has_byte) the
   HTTP parser proofs need.  Nothing here mentions the parser. *)
From Coq Require Import ZifyBool ZifyN.
From AV Require Import Lib.Base Lib.BytesX.
Ltac Zify.zify_post_hook ::= Z.to_euclidean_division_equations.
Open Scope N_scope.

(* ------------------------------------------------------------------ generic loop *)
Section Loop.
  Variables (St R : Type).
  Variable step : St -> bytes -> (St * bytes) + R.
  Variable dflt : St -> R.
  Variable mu : St -> nat.
  Variable inv : St -> Prop.

  Fixpoint loop (f : nat) (s : St) (b : bytes) : R :=
    match f with
    | O => dflt s
    | S f' => match step s b with
              | inl (s', b') => loop f' s' b'
              | inr r => r
              end
    end.

  (* the configuration in which the loop stops (or runs out of fuel) *)
  Fixpoint stopcfg (f : nat) (s : St) (b : bytes) : St * bytes :=
    match f with
    | O => (s, b)
    | S f' => match step s b with
              | inl (s', b') => stopcfg f' s' b'
              | inr _ => (s, b)
              end
    end.

  Definition meas (s : St) (b : bytes) : nat := (2 * length b + mu s)%nat.

  Hypothesis step_dec : forall s b s' b', inv s -> step s b = inl (s', b') ->
    inv s' /\ (meas s' b' < meas s b)%nat.

  Lemma loop_fuel : forall f f' s b, inv s -> (meas s b < f)%nat -> (meas s b < f')%nat ->
    loop f s b = loop f' s b.
  Proof.
    induction f as [|f IH]; intros f' s b Hi H1 H2; [lia|].
    destruct f' as [|f']; [lia|]. cbn [loop].
    destruct (step s b) as [[s' b']|r] eqn:E; [|reflexivity].
    destruct (step_dec _ _ _ _ Hi E) as [Hi' Hm]. apply IH; [assumption|lia|lia].
  Qed.

  Lemma stopcfg_stop : forall f s b, inv s -> (meas s b < f)%nat ->
    forall sk bk, stopcfg f s b = (sk, bk) ->
    inv sk /\ (meas sk bk <= meas s b)%nat /\ exists r, step sk bk = inr r /\ loop f s b = r.
  Proof.
    induction f as [|f IH]; intros s b Hi H1 sk bk E; [lia|].
    cbn [stopcfg loop] in *.
    destruct (step s b) as [[s' b']|r] eqn:Es.
    - destruct (step_dec _ _ _ _ Hi Es) as [Hi' Hm].
      destruct (IH s' b' Hi' ltac:(lia) sk bk E) as (A & B & C). repeat split; [assumption|lia|assumption].
    - inversion E; subst. repeat split; [assumption|lia|]. exists r. split; [assumption|reflexivity].
  Qed.

  Hypothesis step_stable : forall s x s' x' y, inv s -> step s x = inl (s', x') ->
    step s (x ++ y) = inl (s', x' ++ y).

  Lemma meas_app s x y : meas s (x ++ y) = (meas s x + 2 * length y)%nat.
  Proof. unfold meas. rewrite app_length. lia. Qed.

  Lemma loop_app : forall f s x y f' f'', inv s -> (meas s x < f)%nat -> (meas s (x ++ y) < f')%nat ->
    forall sk xk, stopcfg f s x = (sk, xk) -> (meas sk (xk ++ y) < f'')%nat ->
    loop f' s (x ++ y) = loop f'' sk (xk ++ y).
  Proof.
    induction f as [|f IH]; intros s x y f' f'' Hi H1 H2 sk xk E H3; [lia|].
    cbn [stopcfg] in E.
    destruct (step s x) as [[s' x']|r] eqn:Es.
    - destruct f' as [|f']; [lia|]. cbn [loop].
      rewrite (step_stable _ _ _ _ y Hi Es).
      destruct (step_dec _ _ _ _ Hi Es) as [Hi' Hm].
      rewrite meas_app in H2.
      apply IH; try assumption; [lia|rewrite meas_app; lia].
    - inversion E; subst. apply loop_fuel; assumption.
  Qed.
End Loop.

Arguments loop {St R} step dflt f s b.
Arguments stopcfg {St R} step f s b.
Arguments meas {St} mu s b.

(* ------------------------------------------------------------------ find_crlf *)
Lemma find_crlf_aux_cons2 acc c d x :
  find_crlf_aux acc (c :: d :: x) =
  if (c =? 13) && (d =? 10) then Some (rev acc, x) else find_crlf_aux (c :: acc) (d :: x).
Proof. reflexivity. Qed.

Lemma find_crlf_aux_app : forall x acc y l r,
  find_crlf_aux acc x = Some (l, r) -> find_crlf_aux acc (x ++ y) = Some (l, r ++ y).
Proof.
  induction x as [|c x IH]; intros acc y l r H; [discriminate|].
  destruct x as [|d x]; [discriminate|].
  cbn [app find_crlf_aux] in *.
  destruct ((c =? 13) && (d =? 10)).
  - inversion H; subst. reflexivity.
  - apply (IH (c :: acc) y l r) in H. exact H.
Qed.

Lemma find_crlf_app x y l r : find_crlf x = Some (l, r) -> find_crlf (x ++ y) = Some (l, r ++ y).
Proof. apply find_crlf_aux_app. Qed.

Lemma find_crlf_aux_shape : forall x acc l r,
  find_crlf_aux acc x = Some (l, r) -> exists m, l = rev acc ++ m /\ x = m ++ 13 :: 10 :: r.
Proof.
  induction x as [|c x IH]; intros acc l r H; [discriminate|].
  destruct x as [|d x]; [discriminate|].
  cbn [find_crlf_aux] in H.
  destruct ((c =? 13) && (d =? 10)) eqn:E.
  - inversion H; subst. apply andb_true_iff in E as [E1 E2].
    apply N.eqb_eq in E1, E2. subst. exists []. rewrite app_nil_r. split; reflexivity.
  - apply IH in H as (m & -> & Hx). exists (c :: m). cbn [rev]. rewrite <- app_assoc. cbn [app].
    split; [reflexivity|]. now rewrite Hx.
Qed.

Lemma find_crlf_shape x l r : find_crlf x = Some (l, r) -> x = l ++ 13 :: 10 :: r.
Proof. intro H. apply find_crlf_aux_shape in H as (m & -> & ->). reflexivity. Qed.

Lemma find_crlf_len x l r : find_crlf x = Some (l, r) -> length x = (length l + length r + 2)%nat.
Proof. intro H. apply find_crlf_shape in H. subst. rewrite app_length. cbn [length]. lia. Qed.

(* a buffer without CRLF: the first CRLF of buffer ++ new data ends inside the new data *)
Lemma find_crlf_aux_none_app : forall ct acc d l r,
  find_crlf_aux acc ct = None -> find_crlf_aux acc (ct ++ d) = Some (l, r) ->
  (length r <= length d)%nat.
Proof.
  induction ct as [|c ct IH]; intros acc d l r Hn Hs.
  - cbn [app] in Hs. apply find_crlf_aux_shape in Hs as (m & _ & ->). rewrite app_length. cbn [length]. lia.
  - destruct ct as [|c2 ct].
    + cbn [app] in Hs. destruct d as [|e d]; [discriminate|]. rewrite find_crlf_aux_cons2 in Hs.
      destruct ((c =? 13) && (e =? 10)).
      * inversion Hs; subst. cbn [length]. lia.
      * apply find_crlf_aux_shape in Hs as (m & _ & Hx). rewrite Hx, app_length. cbn [length]. lia.
    + cbn [app] in Hs. rewrite find_crlf_aux_cons2 in Hn, Hs.
      destruct ((c =? 13) && (c2 =? 10)); [discriminate|].
      eapply IH; eassumption.
Qed.

Lemma find_crlf_none_app ct d l r :
  find_crlf ct = None -> find_crlf (ct ++ d) = Some (l, r) -> (length r <= length d)%nat.
Proof. apply find_crlf_aux_none_app. Qed.

(* ------------------------------------------------------------------ takeN *)
Lemma takeN_split : forall x n d r, takeN n x = (d, r) -> x = d ++ r /\ lenN d = N.min n (lenN x).
Proof.
  induction x as [|c x IH]; intros n d r H; cbn [takeN] in H.
  - inversion H; subst. split; [reflexivity|]. unfold lenN. cbn [length]. lia.
  - destruct (n =? 0) eqn:E.
    + inversion H; subst. split; [reflexivity|]. unfold lenN. cbn [length]. lia.
    + destruct (takeN (n - 1) x) as [a b] eqn:E2. inversion H; subst.
      apply IH in E2 as [-> Hl]. split; [reflexivity|]. rewrite !lenN_cons. lia.
Qed.

Lemma takeN_rest_len x n d r : takeN n x = (d, r) -> (length r <= length x)%nat.
Proof. intro H. apply takeN_split in H as [-> _]. rewrite app_length. lia. Qed.

Lemma takeN_app_full : forall x n d r y, takeN n x = (d, r) -> n - lenN d = 0 ->
  takeN n (x ++ y) = (d, r ++ y).
Proof.
  induction x as [|c x IH]; intros n d r y H Hz; cbn [takeN app] in *.
  - inversion H; subst. assert (n = 0) by (unfold lenN in Hz; cbn [length] in Hz; lia). subst.
    destruct y; reflexivity.
  - destruct (n =? 0) eqn:E.
    + inversion H; subst. reflexivity.
    + destruct (takeN (n - 1) x) as [a b] eqn:E2. inversion H; subst.
      rewrite lenN_cons in Hz. rewrite (IH (n - 1) a r y E2 ltac:(lia)). reflexivity.
Qed.

Lemma takeN_app_short : forall x n d r y d2 r2, takeN n x = (d, r) -> n - lenN d <> 0 ->
  takeN (n - lenN x) y = (d2, r2) ->
  d = x /\ r = [] /\ takeN n (x ++ y) = (x ++ d2, r2).
Proof.
  induction x as [|c x IH]; intros n d r y d2 r2 H Hz H2; cbn [takeN app] in *.
  - inversion H; subst. repeat split. unfold lenN in H2. cbn [length] in H2.
    replace (n - N.of_nat 0) with n in H2 by lia. exact H2.
  - destruct (n =? 0) eqn:E.
    + inversion H; subst. unfold lenN in Hz. cbn [length] in Hz. lia.
    + destruct (takeN (n - 1) x) as [a b] eqn:E2. inversion H; subst.
      rewrite lenN_cons in Hz. rewrite lenN_cons in H2.
      replace (n - (1 + lenN x)) with (n - 1 - lenN x) in H2 by lia.
      destruct (IH (n - 1) a r y d2 r2 E2 ltac:(lia) H2) as (-> & -> & ->). repeat split.
Qed.

(* ------------------------------------------------------------------ has_byte *)
Lemma has_byte_app b x y : has_byte b (x ++ y) = has_byte b x || has_byte b y.
Proof. induction x as [|c x IH]; cbn [app has_byte]; [reflexivity|]. rewrite IH. now rewrite orb_assoc. Qed.

(* with enough fuel the value returned by the out-of-fuel branch is irrelevant: it is never taken *)
Lemma loop_dflt_irrel {St R : Type} (step : St -> bytes -> (St * bytes) + R) (d d' : St -> R)
      (mu : St -> nat) (inv : St -> Prop) :
  (forall s b s' b', inv s -> step s b = inl (s', b') -> inv s' /\ (meas mu s' b' < meas mu s b)%nat) ->
  forall f s b, inv s -> (meas mu s b < f)%nat -> loop step d f s b = loop step d' f s b.
Proof.
  intros Hdec. induction f as [|f IH]; intros s b Hi Hf; [lia|].
  cbn [loop]. destruct (step s b) as [[s' b']|r] eqn:E; [|reflexivity].
  destruct (Hdec _ _ _ _ Hi E) as [Hi' Hm]. apply IH; [assumption|lia].
Qed.
