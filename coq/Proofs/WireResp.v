(* C02, response direction: keep-alive agreement between StreamResponse._prepare_headers / web_protocol and
   the response parser, by exhaustive case analysis of the decision model (Model/WireResp.v). *)
From AV Require Import Lib.Base Generated.WireGen Model.WireResp.
Open Scope N_scope.

(* safety of the pair of decisions: the client never reuses a connection the server closes, and never waits
   for the end of a connection the server keeps open *)
Definition agree (c : sctx) (h : rhead) (keeps : bool) : Prop :=
  (client_close h = false -> keeps = true) /\ (keeps && client_waits_eof (q_head c) h = false).

Theorem keepalive_agree_partial c r h keeps :
  server_prepare c r = SHead h keeps -> h10_close_delimited_kept c r = false -> agree c h keeps.
Proof.
  destruct c as [v11 ka hd], r as [st len ch fc].
  unfold server_prepare, h10_close_delimited_kept, must_be_empty, agree, client_close, client_waits_eof.
  cbn [q_v11 q_keep_alive q_head p_status p_length p_chunked p_force_close].
  unfold h10_nolength_clears_stored_keepalive.
  destruct (empty_body_status st) eqn:Es; destruct v11, ka, hd, ch, fc, len as [n|];
    cbn; intros H; inversion H; subst; cbn [h_conn h_v11 h_status h_cl h_te]; try rewrite Es; cbn;
    intros; try discriminate; split; try reflexivity; intros; try discriminate; reflexivity.
Qed.

Theorem keepalive_agree_refuted :
  exists c r h,
    server_prepare c r = SHead h true /\ client_close h = true /\ client_waits_eof (q_head c) h = true /\
    h10_close_delimited_kept c r = true.
Proof.
  exists (mkCtx false true false), (mkResp 200 None false false), (mkHead false 200 None false CNone).
  vm_compute. repeat split; reflexivity.
Qed.

Lemma agree_example :
  (exists h, server_prepare (mkCtx true true false) (mkResp 200 None false false) = SHead h true /\
             client_close h = false /\ client_waits_eof false h = false /\
             h10_close_delimited_kept (mkCtx true true false) (mkResp 200 None false false) = false) /\
  (exists h, server_prepare (mkCtx false true false) (mkResp 200 (Some 5) false false) = SHead h true /\
             client_close h = false /\ h_conn h = CKeepAlive).
Proof. split; eexists; vm_compute; repeat split; reflexivity. Qed.
