(* C02, response direction: keep-alive agreement between StreamResponse._prepare_headers / web_protocol and
   the response parser, by exhaustive case analysis of the decision model (Model/WireResp.v). *)
From AV Require Import Lib.Base Generated.WireGen Model.WireResp.
Open Scope N_scope.

(* safety of the pair of decisions: the client never reuses a connection the server closes, and never waits
   for the end of a connection the server keeps open *)
Definition agree (c : sctx) (h : rhead) (keeps : bool) : Prop :=
  (client_close h = false -> keeps = true) /\ (keeps && client_waits_eof (q_head c) h = false).

Theorem keepalive_agree c r h keeps :
  server_prepare c r = SHead h keeps -> agree c h keeps.
Proof.
  destruct c as [v11 ka hd], r as [st len ch fc].
  unfold server_prepare, must_be_empty, agree, client_close, client_waits_eof.
  cbn [q_v11 q_keep_alive q_head p_status p_length p_chunked p_force_close].
  unfold h10_nolength_clears_stored_keepalive.
  destruct (empty_body_status st) eqn:Es; destruct v11, ka, hd, ch, fc, len as [n|];
    cbn; intros H; inversion H; subst; cbn [h_conn h_v11 h_status h_cl h_te]; try rewrite Es; cbn;
    split; try reflexivity; intros; try discriminate; reflexivity.
Qed.

(* the family that used to deadlock (HTTP/1.0 keep-alive, body, no length; fixed by 796e67c): the server now closes,
   which is what ends the close-delimited body the client is reading *)
Lemma h10_family_now_closes :
  h10_close_delimited_kept (mkCtx false true false) (mkResp 200 None false false) = true /\
  server_prepare (mkCtx false true false) (mkResp 200 None false false) = SHead (mkHead false 200 None false CNone) false /\
  client_close (mkHead false 200 None false CNone) = true /\ client_waits_eof false (mkHead false 200 None false CNone) = true.
Proof. vm_compute. repeat split; reflexivity. Qed.

(* Expect: 100-continue: the client only waits for a `100 Continue` the server will send *)
Lemma expect_no_deadlock e v : continue_waiter_created e v = true -> server_sends_100 e v = true.
Proof. unfold continue_waiter_created, server_sends_100. exact (fun H => H). Qed.

Lemma agree_example :
  (exists h, server_prepare (mkCtx true true false) (mkResp 200 None false false) = SHead h true /\
             client_close h = false /\ client_waits_eof false h = false /\
             h10_close_delimited_kept (mkCtx true true false) (mkResp 200 None false false) = false) /\
  (exists h, server_prepare (mkCtx false true false) (mkResp 200 (Some 5) false false) = SHead h true /\
             client_close h = false /\ h_conn h = CKeepAlive).
Proof. split; eexists; vm_compute; repeat split; reflexivity. Qed.
