(* C07 — connection identities: the counted set has no duplicates, idle and in-use connections are
   disjoint, every connection ever created is pooled, in use, or closed; and closing the connector
   closes all of them. *)
From AV Require Import Lib.Base Generated.PoolGen Model.Pool Proofs.PoolLimit Proofs.PoolCoh Proofs.PoolOwner.
Open Scope N_scope.

Record fresh (s : state) : Prop := {
  f_acq_lt : forall cn, In (SConn cn) (acquired s) -> cn < nconn s;
  f_idle_lt : forall cn k, In (cn, k) (idle s) -> cn < nconn s;
  f_idle_nodup : NoDup (map fst (idle s));
  f_acq_nodup : NoDup (acquired s);
  f_disj : forall cn k, In (cn, k) (idle s) -> ~ In (SConn cn) (acquired s);
  f_all : forall cn, cn < nconn s -> In cn (map fst (idle s)) \/ In (SConn cn) (acquired s) \/ In cn (closedc s);
  f_creating : forall t k, get_pc (pcs s) t = PCreating k -> In (SPh t) (acquired s);
  f_holding : forall t k cn, get_pc (pcs s) t = PHolding k cn -> In (SConn cn) (acquired s);
  f_hold_uniq : forall t t' k k' cn, get_pc (pcs s) t = PHolding k cn -> get_pc (pcs s) t' = PHolding k' cn -> t = t'
}.

Definition conn_inv (s : state) : Prop :=
  (closed s = false -> fresh s) /\
  (closed s = true -> forall cn, cn < nconn s -> In cn (closedc s)).

(* ---- take_idle --------------------------------------------------------------------------------- *)

Lemma take_idle_spec k l : forall cn rest,
  take_idle k l = Some (cn, rest) ->
  In (cn, k) l /\
  (forall x, In x rest -> In x l) /\
  (forall x, In x l -> x = (cn, k) \/ In x rest) /\
  (NoDup (map fst l) -> NoDup (map fst rest) /\ ~ In cn (map fst rest)).
Proof.
  induction l as [|[c0 k0] r IH]; intros cn rest H; cbn [take_idle] in H; [discriminate|].
  destruct (k0 =? k) eqn:Ek.
  - apply N.eqb_eq in Ek. subst k0. injection H as -> ->. split; [left; reflexivity|].
    split; [intros x Hx; right; exact Hx|].
    split; [intros x [<-|Hx]; [left; reflexivity|right; exact Hx]|].
    intro Hnd. cbn [map fst] in Hnd. inversion Hnd; subst. split; assumption.
  - destruct (take_idle k r) as [[c' r']|] eqn:E; [|discriminate]. injection H as -> <-.
    destruct (IH _ _ eq_refl) as (A & B & D & F). split; [right; exact A|].
    split; [intros x [<-|Hx]; [left; reflexivity|right; apply B; exact Hx]|].
    split.
    { intros x [<-|Hx]; [right; left; reflexivity|].
      destruct (D x Hx) as [->|Hx']; [left; reflexivity|right; right; exact Hx']. }
    intro Hnd. cbn [map fst] in Hnd. inversion Hnd as [|? ? Hn Hnd']; subst. destruct (F Hnd') as (F1 & F2).
    split.
    + cbn [map fst]. constructor; [|exact F1].
      intro Hin. apply Hn. apply in_map_iff in Hin as (x & Ex & Hx). apply in_map_iff.
      exists x. split; [exact Ex|apply B; exact Hx].
    + cbn [map fst]. intros [E1|Hin]; [|exact (F2 Hin)].
      subst c0. apply Hn. apply in_map_iff. exists (cn, k). split; [reflexivity|exact A].
Qed.

(* ---- pcs after _release_waiter ---------------------------------------------------------------- *)

Lemma release_loop_pc_cases c order : forall s t,
  get_pc (pcs (release_loop c s order)) t = get_pc (pcs s) t \/
  exists k, get_pc (pcs (release_loop c s order)) t = PWaiting k FWoken.
Proof.
  induction order as [|k r IH]; intros s t; cbn [release_loop]; [left; reflexivity|].
  destruct (release_skips_key (avail c s k)); [apply IH|].
  destruct (wake_key k (waiters s)) as [w' [t'|]] eqn:E.
  - cbn [with_pc with_woken with_waiters pcs]. destruct (N.eq_dec t t') as [->|Hne].
    + right. exists k. apply get_set_same.
    + left. apply get_set_other. exact Hne.
  - destruct (IH (with_waiters s w') t) as [H|H]; [left|right]; exact H.
Qed.

Lemma NoDup_map_replace a b l :
  NoDup l -> ~ In b l -> NoDup (map (replace_slot a b) l).
Proof.
  induction l as [|x l IH]; cbn [map]; intros Hnd Hb; [constructor|].
  inversion Hnd as [|? ? Hx Hl]; subst. constructor.
  - intro Hin. apply in_map_iff in Hin as (y & Ey & Hy). unfold replace_slot in Ey.
    destruct (slot_eqb x a) eqn:Exa; destruct (slot_eqb y a) eqn:Eya.
    + apply slot_eqb_eq in Exa, Eya. subst. contradiction.
    + subst y. apply Hb. right. exact Hy.
    + apply slot_eqb_eq in Eya. subst y. apply Hb. left. symmetry. exact Ey.
    + subst y. contradiction.
  - apply IH; [exact Hl|]. intro X. apply Hb. right. exact X.
Qed.

Lemma in_replace a b l x :
  In x (map (replace_slot a b) l) -> (x = b /\ In a l) \/ (x <> a /\ In x l) \/ (x = a /\ a = b /\ In a l).
Proof.
  intro Hin. apply in_map_iff in Hin as (y & Ey & Hy). unfold replace_slot in Ey.
  destruct (slot_eqb y a) eqn:E.
  - apply slot_eqb_eq in E. subst y. left. split; [symmetry; exact Ey|exact Hy].
  - subst y. right. left. split; [|exact Hy]. intro; subst x. rewrite slot_eqb_refl in E. discriminate.
Qed.

Lemma in_replace_intro a b l x :
  In x l -> In (replace_slot a b x) (map (replace_slot a b) l).
Proof. intro H. apply in_map. exact H. Qed.

(* ---- with_pc on a task that neither had nor gets an owner pc ------------------------------------ *)

Lemma fresh_same_books s s' :
  acquired s' = acquired s -> idle s' = idle s -> nconn s' = nconn s -> closedc s' = closedc s ->
  (forall t, is_owner_pc (get_pc (pcs s') t) -> get_pc (pcs s') t = get_pc (pcs s) t) ->
  fresh s -> fresh s'.
Proof.
  intros Ea Ei En Ec Hp F. destruct F. constructor; rewrite ?Ea, ?Ei, ?En, ?Ec; auto.
  - intros t k E. apply (f_creating0 t k). rewrite <- Hp; [exact E|]. left. exists k. exact E.
  - intros t k cn E. apply (f_holding0 t k cn). rewrite <- Hp; [exact E|]. right. exists k, cn. exact E.
  - intros t t' k k' cn E E'. apply (f_hold_uniq0 t t' k k' cn).
    + rewrite <- Hp; [exact E|]. right. exists k, cn. exact E.
    + rewrite <- Hp; [exact E'|]. right. exists k', cn. exact E'.
Qed.

Lemma set_pc_nonowner_back l t p t' :
  ~ is_owner_pc p -> is_owner_pc (get_pc (set_pc l t p) t') -> get_pc (set_pc l t p) t' = get_pc l t'.
Proof.
  intros Hp Ho. destruct (N.eq_dec t' t) as [->|Hne].
  - rewrite get_set_same in Ho. contradiction.
  - apply get_set_other. exact Hne.
Qed.

Lemma not_owner_waiting k f : ~ is_owner_pc (PWaiting k f).
Proof. intros [(k' & E)|(k' & cn & E)]; discriminate. Qed.
Lemma not_owner_done : ~ is_owner_pc PDone.
Proof. intros [(k' & E)|(k' & cn & E)]; discriminate. Qed.
Lemma not_owner_failed : ~ is_owner_pc PFailed.
Proof. intros [(k' & E)|(k' & cn & E)]; discriminate. Qed.
Lemma not_owner_cancelled : ~ is_owner_pc PCancelled.
Proof. intros [(k' & E)|(k' & cn & E)]; discriminate. Qed.

(* pcs of a state after release_loop followed by setting the releasing task's pc to a non-owner pc:
   every owner pc afterwards was the same owner pc before *)
Lemma release_then_pc_back c s order t p t' :
  ~ is_owner_pc p ->
  is_owner_pc (get_pc (set_pc (pcs (release_loop c s order)) t p) t') ->
  get_pc (set_pc (pcs (release_loop c s order)) t p) t' = get_pc (pcs s) t' /\ t' <> t.
Proof.
  intros Hp Ho. destruct (N.eq_dec t' t) as [->|Hne].
  - rewrite get_set_same in Ho. contradiction.
  - rewrite get_set_other in * by exact Hne. split; [|exact Hne].
    destruct (release_loop_pc_cases c order s t') as [E|(k & E)]; [exact E|].
    rewrite E in Ho. exfalso. exact (not_owner_waiting _ _ Ho).
Qed.

(* ---- the step ---------------------------------------------------------------------------------- *)

Lemma proceed_fresh c s t k :
  coh s -> owned c s -> closed s = false -> fresh s -> ~ is_owner_pc (get_pc (pcs s) t) ->
  fresh (proceed c s t k).
Proof.
  intros C O Hc F Hn. destruct (O Hc) as (O1 & _). destruct F. unfold proceed.
  destruct (take_idle k (idle s)) as [[cn rest]|] eqn:Ei.
  - destruct (take_idle_spec _ _ _ _ Ei) as (A & B & D & E). destruct (E f_idle_nodup0) as (E1 & E2).
    constructor; cbn [with_pc add_slot with_idle acquired idle nconn closedc pcs].
    + intros cn' [X|X]; [injection X as <-; eapply f_idle_lt0; eauto|apply f_acq_lt0; exact X].
    + intros cn' k' X. eapply f_idle_lt0. apply B. exact X.
    + exact E1.
    + constructor; [|exact f_acq_nodup0]. eapply f_disj0; eauto.
    + intros cn' k' X [Y|Y].
      * injection Y as <-. apply E2. apply in_map_iff. exists (cn, k'). split; [reflexivity|exact X].
      * eapply f_disj0; [apply B; exact X|exact Y].
    + intros cn' Hlt. destruct (f_all0 cn' Hlt) as [X|[X|X]].
      * apply in_map_iff in X as ([c1 k1] & Ex & X). cbn in Ex. subst c1. destruct (D _ X) as [Y|Y].
        -- injection Y as -> ->. right. left. left. reflexivity.
        -- left. apply in_map_iff. exists (cn', k1). split; [reflexivity|exact Y].
      * right. left. right. exact X.
      * right. right. exact X.
    + intros t' k' X. destruct (N.eq_dec t' t) as [->|Hne].
      * rewrite get_set_same in X. discriminate.
      * rewrite get_set_other in X by exact Hne. right. eapply f_creating0; eauto.
    + intros t' k' cn' X. destruct (N.eq_dec t' t) as [->|Hne].
      * rewrite get_set_same in X. injection X as _ <-. left. reflexivity.
      * rewrite get_set_other in X by exact Hne. right. eapply f_holding0; eauto.
    + intros t1 t2 k1 k2 cn' X1 X2.
      destruct (N.eq_dec t1 t) as [->|Hne1]; destruct (N.eq_dec t2 t) as [->|Hne2]; [reflexivity| | |].
      * rewrite get_set_same in X1. injection X1 as _ <-. rewrite get_set_other in X2 by exact Hne2.
        exfalso. eapply f_disj0; [exact A|]. eapply f_holding0; eauto.
      * rewrite get_set_same in X2. injection X2 as _ <-. rewrite get_set_other in X1 by exact Hne1.
        exfalso. eapply f_disj0; [exact A|]. eapply f_holding0; eauto.
      * rewrite get_set_other in X1 by exact Hne1. rewrite get_set_other in X2 by exact Hne2.
        eapply f_hold_uniq0; eauto.
  - constructor; cbn [with_pc add_slot acquired idle nconn closedc pcs]; auto.
    + intros cn' [X|X]; [discriminate|apply f_acq_lt0; exact X].
    + constructor; [|exact f_acq_nodup0]. intro X. apply O1 in X. cbn [owner] in X. destruct X as (k' & X).
      apply Hn. left. exists k'. exact X.
    + intros cn' k' X [Y|Y]; [discriminate|]. eapply f_disj0; eauto.
    + intros cn' Hlt. destruct (f_all0 cn' Hlt) as [X|[X|X]]; auto. right. left. right. exact X.
    + intros t' k' X. destruct (N.eq_dec t' t) as [->|Hne]; [left; reflexivity|].
      rewrite get_set_other in X by exact Hne. right. eapply f_creating0; eauto.
    + intros t' k' cn' X. destruct (N.eq_dec t' t) as [->|Hne].
      * rewrite get_set_same in X. discriminate.
      * rewrite get_set_other in X by exact Hne. right. eapply f_holding0; eauto.
    + intros t1 t2 k1 k2 cn' X1 X2.
      destruct (N.eq_dec t1 t) as [->|Hne1]; [rewrite get_set_same in X1; discriminate|].
      destruct (N.eq_dec t2 t) as [->|Hne2]; [rewrite get_set_same in X2; discriminate|].
      rewrite get_set_other in X1 by exact Hne1. rewrite get_set_other in X2 by exact Hne2.
      eapply f_hold_uniq0; eauto.
Qed.

(* removing the slot of task t (whose new pc p is not an owner pc) and running _release_waiter *)
Lemma release_fresh c s t sl order p :
  fresh s -> ~ is_owner_pc p ->
  (forall t' k, t' <> t -> get_pc (pcs s) t' = PCreating k -> SPh t' <> sl) ->
  (forall t' k cn, t' <> t -> get_pc (pcs s) t' = PHolding k cn -> SConn cn <> sl) ->
  (forall cn, sl = SConn cn -> In cn (closedc s)) ->
  fresh (with_pc (release_loop c (del_slot s sl) order) t p).
Proof.
  intros F Hp H1 H2 H3. destruct F.
  destruct (release_loop_frame c order (del_slot s sl)) as (A & _ & B & _ & D & E).
  constructor; cbn [with_pc acquired idle nconn closedc pcs]; rewrite ?A, ?B, ?D, ?E; cbn [del_slot acquired idle nconn closedc].
  - intros cn X. apply filter_In in X as [X _]. apply f_acq_lt0. exact X.
  - exact f_idle_lt0.
  - exact f_idle_nodup0.
  - apply NoDup_filter. exact f_acq_nodup0.
  - intros cn k X Y. apply filter_In in Y as [Y _]. eapply f_disj0; eauto.
  - intros cn Hlt. destruct (f_all0 cn Hlt) as [X|[X|X]]; auto.
    destruct (slot_eqb (SConn cn) sl) eqn:Es.
    + apply slot_eqb_eq in Es. right. right. apply H3. symmetry. exact Es.
    + right. left. apply filter_In. split; [exact X|]. rewrite Es. reflexivity.
  - intros t' k X. destruct (release_then_pc_back c (del_slot s sl) order t p t' Hp) as (Y & Hne).
    { rewrite X. left. exists k. reflexivity. }
    rewrite X in Y. cbn [del_slot pcs] in Y. symmetry in Y. apply filter_In. split; [eapply f_creating0; eauto|].
    destruct (slot_eqb (SPh t') sl) eqn:Es; [|reflexivity]. apply slot_eqb_eq in Es. exfalso. eapply H1; eauto.
  - intros t' k cn X. destruct (release_then_pc_back c (del_slot s sl) order t p t' Hp) as (Y & Hne).
    { rewrite X. right. exists k, cn. reflexivity. }
    rewrite X in Y. cbn [del_slot pcs] in Y. symmetry in Y. apply filter_In. split; [eapply f_holding0; eauto|].
    destruct (slot_eqb (SConn cn) sl) eqn:Es; [|reflexivity]. apply slot_eqb_eq in Es. exfalso. eapply H2; eauto.
  - intros t1 t2 k1 k2 cn X1 X2.
    destruct (release_then_pc_back c (del_slot s sl) order t p t1 Hp) as (Y1 & _).
    { rewrite X1. right. exists k1, cn. reflexivity. }
    destruct (release_then_pc_back c (del_slot s sl) order t p t2 Hp) as (Y2 & _).
    { rewrite X2. right. exists k2, cn. reflexivity. }
    rewrite X1 in Y1. rewrite X2 in Y2. cbn [del_slot pcs] in Y1, Y2. eapply f_hold_uniq0; eauto.
Qed.

Lemma fresh_init : fresh init.
Proof.
  constructor; cbn [init acquired idle nconn closedc pcs get_pc map].
  - intros ? [].
  - intros ? ? [].
  - constructor.
  - constructor.
  - intros ? ? [].
  - intros x H. exfalso. destruct x; discriminate.
  - intros; discriminate.
  - intros; discriminate.
  - intros; discriminate.
Qed.

(* ---- _release_waiter does not look at closedc -------------------------------------------------- *)

Lemma release_loop_closedc c order l : forall s,
  release_loop c (with_closedc s l) order = with_closedc (release_loop c s order) l.
Proof.
  induction order as [|k r IH]; intro s; cbn [release_loop]; [reflexivity|].
  change (avail c (with_closedc s l) k) with (avail c s k).
  destruct (release_skips_key (avail c s k)); [apply IH|].
  change (waiters (with_closedc s l)) with (waiters s).
  destruct (wake_key k (waiters s)) as [w' [t|]]; [reflexivity|].
  change (with_waiters (with_closedc s l) w') with (with_closedc (with_waiters s w') l). apply IH.
Qed.

Lemma fresh_ext s s' :
  acquired s' = acquired s -> idle s' = idle s -> nconn s' = nconn s -> closedc s' = closedc s ->
  pcs s' = pcs s -> fresh s -> fresh s'.
Proof.
  intros Ea Ei En Ec Ep F. eapply fresh_same_books; eauto. intros t _. rewrite Ep. reflexivity.
Qed.

Lemma fresh_more_closed s cn : fresh s -> fresh (with_closedc s (cn :: closedc s)).
Proof.
  intros []. constructor; cbn [with_closedc acquired idle nconn closedc pcs]; auto.
  intros cn' Hlt. destruct (f_all0 cn' Hlt) as [X|[X|X]]; auto. right. right. right. exact X.
Qed.

(* a connection recorded as closed is instead put at the end of the idle pool *)
Lemma move_to_idle x cn0 k l :
  fresh x -> closedc x = cn0 :: l -> ~ In cn0 (map fst (idle x)) -> ~ In (SConn cn0) (acquired x) ->
  cn0 < nconn x ->
  fresh {| acquired := acquired x; hostacq := hostacq x; idle := idle x ++ [(cn0, k)];
           waiters := waiters x; woken := woken x; pcs := pcs x; closed := closed x; nconn := nconn x;
           closedc := l |}.
Proof.
  intros [] Ec Hni Hna Hlt. constructor; cbn [acquired idle nconn closedc pcs]; auto.
  - intros cn k' X. apply in_app_iff in X as [X|[X|[]]]; [eapply f_idle_lt0; eauto|]. injection X as <- _. exact Hlt.
  - rewrite map_app. cbn [map fst]. apply NoDup_snoc; assumption.
  - intros cn k' X. apply in_app_iff in X as [X|[X|[]]]; [eapply f_disj0; eauto|]. injection X as <- _. exact Hna.
  - intros cn Hlt'. rewrite map_app, in_app_iff. cbn [map fst In].
    destruct (f_all0 cn Hlt') as [X|[X|X]]; auto. rewrite Ec in X. destruct X as [<-|X]; auto.
Qed.

Lemma replace_same a b : replace_slot a b a = b.
Proof. unfold replace_slot. rewrite slot_eqb_refl. reflexivity. Qed.

Lemma replace_other a b x : x <> a -> replace_slot a b x = x.
Proof.
  intro H. unfold replace_slot. destruct (slot_eqb x a) eqn:E; [|reflexivity].
  apply slot_eqb_eq in E. contradiction.
Qed.

Lemma in_map_replace_same a b l : In a l -> In b (map (replace_slot a b) l).
Proof. intro H. apply in_map_iff. exists a. split; [apply replace_same|exact H]. Qed.

Lemma in_map_replace_other a b l x : x <> a -> In x l -> In x (map (replace_slot a b) l).
Proof. intros Hne H. apply in_map_iff. exists x. split; [apply replace_other; exact Hne|exact H]. Qed.

Lemma create_ok_fresh s t k :
  fresh s -> get_pc (pcs s) t = PCreating k ->
  fresh (with_pc (swap_slot (bump_conn s) (SPh t) (SConn (nconn s))) t (PHolding k (nconn s))).
Proof.
  intros [] Ep. set (n := nconn s).
  assert (Hn : ~ In (SConn n) (acquired s)).
  { intro X. apply f_acq_lt0 in X. unfold n in X. lia. }
  constructor; cbn [with_pc swap_slot bump_conn acquired idle nconn closedc pcs]; fold n.
  - intros cn X. apply in_replace in X as [(E & _)|[(_ & X)|(E & _)]].
    + injection E as ->. lia.
    + apply f_acq_lt0 in X. fold n in X. lia.
    + discriminate.
  - intros cn k' X. apply f_idle_lt0 in X. fold n in X. lia.
  - exact f_idle_nodup0.
  - apply NoDup_map_replace; assumption.
  - intros cn k' X Y. apply in_replace in Y as [(E & _)|[(_ & Y)|(E & _)]].
    + injection E as ->. apply f_idle_lt0 in X. fold n in X. lia.
    + eapply f_disj0; eauto.
    + discriminate.
  - intros cn Hlt. destruct (N.eq_dec cn n) as [->|Hne].
    + right. left. apply in_map_replace_same. eapply f_creating0; eauto.
    + assert (cn < n) by lia. destruct (f_all0 cn H) as [X|[X|X]]; auto.
      right. left. apply in_map_replace_other; [discriminate|exact X].
  - intros t' k' X. destruct (N.eq_dec t' t) as [->|Hne].
    + rewrite get_set_same in X. discriminate.
    + rewrite get_set_other in X by exact Hne.
      apply in_map_replace_other; [congruence|]. eapply f_creating0; eauto.
  - intros t' k' cn X. destruct (N.eq_dec t' t) as [->|Hne].
    + rewrite get_set_same in X. injection X as _ <-.
      apply in_map_replace_same. eapply f_creating0; eauto.
    + rewrite get_set_other in X by exact Hne.
      apply in_map_replace_other; [discriminate|]. eapply f_holding0; eauto.
  - intros t1 t2 k1 k2 cn X1 X2.
    destruct (N.eq_dec t1 t) as [->|Hne1]; destruct (N.eq_dec t2 t) as [->|Hne2]; [reflexivity| | |].
    + rewrite get_set_same in X1. injection X1 as _ <-. rewrite get_set_other in X2 by exact Hne2.
      exfalso. apply Hn. eapply f_holding0; eauto.
    + rewrite get_set_same in X2. injection X2 as _ <-. rewrite get_set_other in X1 by exact Hne1.
      exfalso. apply Hn. eapply f_holding0; eauto.
    + rewrite get_set_other in X1 by exact Hne1. rewrite get_set_other in X2 by exact Hne2.
      eapply f_hold_uniq0; eauto.
Qed.

(* books of a closed connector: nothing changes except that late connections are closed on arrival *)
Lemma proceed_books c s t k :
  nconn (proceed c s t k) = nconn s /\ closedc (proceed c s t k) = closedc s.
Proof. unfold proceed. destruct (take_idle k (idle s)) as [[cn rest]|]; split; reflexivity. Qed.

Lemma release_waiter_books c s order s' :
  release_waiter c s order = Some s' -> nconn s' = nconn s /\ closedc s' = closedc s.
Proof.
  unfold release_waiter. destruct (covers order (waiters s)); [|discriminate]. intros [= <-].
  destruct (release_loop_frame c order s) as (_ & _ & _ & _ & A & B). split; assumption.
Qed.

Lemma start_tail_books c s t k s' :
  start_tail c s t k = Some s' -> nconn s' = nconn s /\ closedc s' = closedc s.
Proof.
  unfold start_tail. destruct (connect_must_wait _); [|intros [= <-]; apply proceed_books].
  destruct (refuse_wait s); intros [= <-]; split; reflexivity.
Qed.

Lemma requeue_books c s1 t k order s' :
  requeue c s1 t k order = Some s' -> nconn s' = nconn s1 /\ closedc s' = closedc s1.
Proof.
  unfold requeue. destruct (hand_on c s1 order) as [s2|] eqn:Eh; [|discriminate].
  destruct (hand_on_frame _ _ _ _ Eh) as (_ & _ & _ & _ & E & G).
  destruct (refuse_wait s2); intros [= <-]; split; assumption.
Qed.

Lemma step_closed_books c s e s' :
  closed s = true -> step c s e = Some s' ->
  closed s' = true /\
  ((nconn s' = nconn s /\ closedc s' = closedc s) \/
   (nconn s' = nconn s + 1 /\ closedc s' = nconn s :: closedc s)).
Proof.
  intros Hc H. split.
  { destruct (closed s') eqn:E; [reflexivity|]. pose proof (step_closed _ _ _ _ H E). congruence. }
  destruct e as [t k|t order|t|t|t order|t cl order|]; cbn [step] in H.
  - destruct (get_pc (pcs s) t); try discriminate.
    destruct (if connect_fast_path (avail c s k) then take_idle k (idle s) else None);
      [injection H as <-; left; apply proceed_books|].
    left. eapply start_tail_books; eauto.
  - destruct (get_pc (pcs s) t) as [| k f | | | | |]; try discriminate. destruct f; try discriminate.
    + destruct (wait_slot_found _).
      * injection H as <-. left.
        destruct (proceed_books c (with_woken s (filter (fun x => negb (x =? t)) (woken s))) t k) as (A & B).
        split; assumption.
      * left. destruct (requeue_books _ _ _ _ _ _ H) as (A & B). split; [exact A|exact B].
    + injection H as <-. left. split; reflexivity.
    + destruct (release_waiter c _ order) as [s2|] eqn:Er; [|discriminate]. injection H as <-. left.
      apply release_waiter_books in Er. exact Er.
  - destruct (get_pc (pcs s) t) as [| k f | | | | |]; try discriminate.
    destruct f; try discriminate; injection H as <-; left; split; reflexivity.
  - destruct (get_pc (pcs s) t); try discriminate. rewrite Hc in H. injection H as <-. right. split; reflexivity.
  - destruct (get_pc (pcs s) t); try discriminate. unfold release_acquired in H. rewrite Hc in H.
    injection H as <-. left. split; reflexivity.
  - destruct (get_pc (pcs s) t) as [| | | k cn | | |]; try discriminate. rewrite Hc in H. injection H as <-.
    left. split; reflexivity.
  - rewrite Hc in H. injection H as <-. left. split; reflexivity.
Qed.

Lemma in_conns_of cn l : In (SConn cn) l -> In cn (conns_of l).
Proof.
  intro H. unfold conns_of. apply in_flat_map. exists (SConn cn). split; [exact H|left; reflexivity].
Qed.

Lemma step_conn c s e s' :
  coh s -> owned c s -> conn_inv s -> step c s e = Some s' -> conn_inv s'.
Proof.
  intros C O (I1 & I2) H. destruct (closed s) eqn:Hc.
  - (* already closed *)
    destruct (step_closed_books _ _ _ _ Hc H) as (Hc' & B). split; [congruence|]. intros _ cn Hlt.
    specialize (I2 eq_refl). destruct B as [(A & B)|(A & B)]; rewrite B; rewrite A in Hlt.
    + apply I2. exact Hlt.
    + destruct (N.eq_dec cn (nconn s)) as [->|Hne]; [left; reflexivity|right; apply I2; lia].
  - specialize (I1 eq_refl). clear I2.
    destruct e as [t k|t order|t|t|t order|t cl order|]; cbn [step] in H.
    + (* EStart *)
      destruct (get_pc (pcs s) t) eqn:Ep; try discriminate.
      assert (Hn : ~ is_owner_pc (get_pc (pcs s) t)).
      { rewrite Ep. intros [(k' & E)|(k' & cn & E)]; discriminate. }
      assert (P : conn_inv (proceed c s t k)).
      { split; [intros _; apply proceed_fresh; assumption|]. rewrite proceed_closed, Hc. discriminate. }
      destruct (if connect_fast_path (avail c s k) then take_idle k (idle s) else None); [injection H as <-; exact P|].
      unfold start_tail in H. destruct (connect_must_wait _); [|injection H as <-; exact P].
      destruct (refuse_wait s); injection H as <-; (split; [|cbn; rewrite Hc; discriminate]); intros _;
        (eapply fresh_same_books; [| | | | |exact I1]; try reflexivity;
         intros t' Ho; cbn [with_pc with_waiters pcs] in *;
         apply set_pc_nonowner_back; [first [apply not_owner_waiting|apply not_owner_failed]|exact Ho]).
    + (* EResume *)
      destruct (get_pc (pcs s) t) as [| k f | | | | |] eqn:Ep; try discriminate.
      assert (Hn : ~ is_owner_pc (get_pc (pcs s) t)) by (rewrite Ep; apply not_owner_waiting).
      destruct f; try discriminate.
      * set (s1 := with_woken s (filter (fun x => negb (x =? t)) (woken s))) in *.
        assert (F1 : fresh s1) by (eapply fresh_ext; [| | | | |exact I1]; reflexivity).
        assert (C1 : coh s1).
        { destruct C as (A & B & D & E). unfold coh, s1. cbn [with_woken waiters woken pcs]. repeat split; auto.
          - intros t' Hin. apply filter_In in Hin as [Hin _]. apply D. exact Hin.
          - apply NoDup_filter. exact E. }
        assert (O1 : owned c s1).
        { eapply (owned_same c s); [reflexivity|reflexivity|reflexivity|intros; reflexivity|exact O]. }
        destruct (wait_slot_found _).
        -- injection H as <-.
           split; [intros _; apply proceed_fresh; assumption|]. rewrite proceed_closed. cbn. rewrite Hc. discriminate.
        -- unfold requeue in H. destruct (hand_on c s1 order) as [s2|] eqn:Eh; [|discriminate].
           destruct (hand_on_frame _ _ _ _ Eh) as (A & _ & B & D & E & G).
           assert (P2 : forall p t', ~ is_owner_pc p -> is_owner_pc (get_pc (set_pc (pcs s2) t p) t') ->
                        get_pc (set_pc (pcs s2) t p) t' = get_pc (pcs s1) t').
           { intros p t' Hp Ho. unfold hand_on in Eh. destruct requeue_hands_on.
             - unfold release_waiter in Eh. destruct (covers order (waiters s1)); [|discriminate]. injection Eh as <-.
               destruct (release_then_pc_back c s1 order t p t' Hp Ho) as (Y & _). exact Y.
             - injection Eh as <-. apply set_pc_nonowner_back; assumption. }
           destruct (refuse_wait s2); injection H as <-;
             (split; [|cbn [with_pc with_waiters closed]; rewrite D; cbn; rewrite Hc; discriminate]); intros _;
             (eapply fresh_same_books; [| | | | |exact F1];
              [cbn [with_pc with_waiters acquired]; exact A|cbn [with_pc with_waiters idle]; exact B
              |cbn [with_pc with_waiters nconn]; exact E|cbn [with_pc with_waiters closedc]; exact G|];
              intros t' Ho; cbn [with_pc with_waiters pcs] in *;
              apply P2; [first [apply not_owner_waiting|apply not_owner_failed]|exact Ho]).
      * injection H as <-. split; [|cbn; rewrite Hc; discriminate]. intros _.
        eapply fresh_same_books; [| | | | |exact I1]; try reflexivity.
        intros t' Ho. cbn [with_pc with_waiters pcs] in *.
        apply set_pc_nonowner_back; [apply not_owner_cancelled|exact Ho].
      * set (s1 := with_woken s (filter (fun x => negb (x =? t)) (woken s))) in *.
        destruct (release_waiter c s1 order) as [s2|] eqn:Er; [|discriminate]. injection H as <-.
        unfold release_waiter in Er. destruct (covers order (waiters s1)); [|discriminate]. injection Er as <-.
        destruct (release_loop_frame c order s1) as (A & _ & B & D & E & G).
        split; [|cbn [with_pc closed]; rewrite D; cbn; rewrite Hc; discriminate]. intros _.
        eapply fresh_same_books; [| | | | |exact I1].
        -- cbn [with_pc acquired]. rewrite A. reflexivity.
        -- cbn [with_pc idle]. rewrite B. reflexivity.
        -- cbn [with_pc nconn]. rewrite E. reflexivity.
        -- cbn [with_pc closedc]. rewrite G. reflexivity.
        -- intros t' Ho. cbn [with_pc pcs] in *.
           destruct (release_then_pc_back c s1 order t PCancelled t' not_owner_cancelled Ho) as (Y & _). exact Y.
    + (* ECancel *)
      destruct (get_pc (pcs s) t) as [| k f | | | | |] eqn:Ep; try discriminate.
      destruct f; try discriminate; injection H as <-; (split; [|cbn; rewrite Hc; discriminate]); intros _;
        (eapply fresh_same_books; [| | | | |exact I1]; try reflexivity;
         intros t' Ho; cbn [with_pc with_waiters pcs] in *;
         apply set_pc_nonowner_back; [apply not_owner_waiting|exact Ho]).
    + (* ECreateOk *)
      destruct (get_pc (pcs s) t) eqn:Ep; try discriminate. rewrite Hc in H. injection H as <-.
      split; [|cbn; rewrite Hc; discriminate]. intros _. apply create_ok_fresh; assumption.
    + (* ECreateFail *)
      destruct (get_pc (pcs s) t) eqn:Ep; try discriminate.
      destruct (release_acquired c s (SPh t) order) as [s1|] eqn:Er; [|discriminate]. injection H as <-.
      unfold release_acquired in Er. rewrite Hc in Er.
      unfold release_waiter in Er. destruct (covers order _); [|discriminate]. injection Er as <-.
      destruct (release_loop_frame c order (del_slot s (SPh t))) as (_ & _ & _ & D & _).
      split; [|cbn [with_pc closed]; rewrite D; cbn; rewrite Hc; discriminate]. intros _.
      apply release_fresh; [exact I1|apply not_owner_failed| | |].
      * intros t' k' Hne _ E. injection E as ->. contradiction.
      * intros; discriminate.
      * intros; discriminate.
    + (* ERelease *)
      destruct (get_pc (pcs s) t) as [| | | k cn0 | | |] eqn:Ep; try discriminate. rewrite Hc in H.
      destruct (release_acquired c s (SConn cn0) order) as [s1|] eqn:Er; [|discriminate]. injection H as <-.
      unfold release_acquired in Er. rewrite Hc in Er.
      unfold release_waiter in Er. destruct (covers order _); [|discriminate]. injection Er as <-.
      set (s0 := with_closedc s (cn0 :: closedc s)).
      assert (F0 : fresh s0) by (apply fresh_more_closed; exact I1).
      assert (FA : fresh (with_pc (release_loop c (del_slot s0 (SConn cn0)) order) t PDone)).
      { apply release_fresh; [exact F0|apply not_owner_done| | |].
        - intros; discriminate.
        - intros t' k' cn Hne E X. injection X as ->. apply Hne.
          destruct I1. eapply f_hold_uniq0; eauto.
        - intros cn X. injection X as <-. left. reflexivity. }
      change (del_slot s0 (SConn cn0)) with (with_closedc (del_slot s (SConn cn0)) (cn0 :: closedc s)) in FA.
      rewrite release_loop_closedc in FA.
      destruct (release_loop_frame c order (del_slot s (SConn cn0))) as (A & _ & B & D & E & G).
      split; [|destruct (force_close c || cl); cbn [with_pc with_closedc with_idle closed]; rewrite D; cbn; rewrite Hc; discriminate].
      intros _. destruct (force_close c || cl).
      * eapply fresh_ext; [| | | | |exact FA]; cbn [with_pc with_closedc acquired idle nconn closedc pcs]; try reflexivity.
        rewrite G. reflexivity.
      * assert (Hacq : In (SConn cn0) (acquired s)) by (destruct I1; eapply f_holding0; eauto).
        assert (M1 : ~ In cn0 (map fst (idle (release_loop c (del_slot s (SConn cn0)) order)))).
        { rewrite B. cbn [del_slot idle]. intro X. apply in_map_iff in X as ([c1 k1] & Ex & X). cbn in Ex. subst c1.
          destruct I1. eapply f_disj0; eauto. }
        assert (M2 : ~ In (SConn cn0) (acquired (release_loop c (del_slot s (SConn cn0)) order))).
        { rewrite A. cbn [del_slot acquired]. intro X. apply filter_In in X as [_ X].
          rewrite slot_eqb_refl in X. discriminate. }
        assert (M3 : cn0 < nconn (release_loop c (del_slot s (SConn cn0)) order)).
        { rewrite E. cbn [del_slot nconn]. destruct I1. apply f_acq_lt0. exact Hacq. }
        pose proof (move_to_idle _ cn0 k (closedc s) FA eq_refl M1 M2 M3) as M.
        eapply fresh_ext; [| | | | |exact M]; cbn [with_pc with_idle with_closedc acquired idle nconn closedc pcs].
        -- reflexivity.
        -- reflexivity.
        -- reflexivity.
        -- exact G.
        -- reflexivity.
    + (* EClose *)
      rewrite Hc in H. injection H as <-. split; [cbn; discriminate|]. intros _ cn Hlt. cbn [nconn closedc] in *.
      destruct I1. destruct (f_all0 cn Hlt) as [X|[X|X]]; rewrite !in_app_iff.
      * left. exact X.
      * right. left. apply in_conns_of. exact X.
      * right. right. exact X.
Qed.

Lemma conn_inv_init : conn_inv init.
Proof. split; [intros _; apply fresh_init|cbn; discriminate]. Qed.

Lemma run_all_inv c : forall tr s s',
  coh s -> owned c s -> conn_inv s -> run c s tr = Some s' -> coh s' /\ owned c s' /\ conn_inv s'.
Proof.
  induction tr as [|e r IH]; intros s s' C O I H; cbn [run] in H.
  - injection H as <-. split; [|split]; assumption.
  - destruct (step c s e) as [s1|] eqn:Es; [|discriminate]. eapply IH; [| | |exact H].
    + eapply step_coh; eauto.
    + eapply step_owned; eauto.
    + eapply step_conn; eauto.
Qed.

(* closing the connector closes every connection it created, including connections whose
   establishment finishes after the close *)
Lemma close_closes_all c tr s cn :
  run c init tr = Some s -> closed s = true -> cn < nconn s -> In cn (closedc s).
Proof.
  intros H Hc Hlt.
  destruct (run_all_inv c tr init s coh_init (owned_init c) conn_inv_init H) as (_ & _ & (_ & I2)).
  apply I2; assumption.
Qed.

(* and while it is open, every connection it created is pooled, in use, or closed: none is lost *)
Lemma conn_conservation c tr s cn :
  run c init tr = Some s -> closed s = false -> cn < nconn s ->
  In cn (map fst (idle s)) \/ In (SConn cn) (acquired s) \/ In cn (closedc s).
Proof.
  intros H Hc Hlt.
  destruct (run_all_inv c tr init s coh_init (owned_init c) conn_inv_init H) as (_ & _ & (I1 & _)).
  destruct (I1 Hc). apply f_all0. exact Hlt.
Qed.
