(* Stream reader: end-of-stream is reported last; readchunk reports sender boundaries only. *)
From AV Require Import Lib.Base Generated.StreamGen Model.Stream Proofs.StreamBase Proofs.StreamInv Proofs.StreamDeliver.
From Coq Require Import ZifyBool Sorted.
Open Scope Z_scope.

(* Inv together with "the reader task is the one running" *)
Definition ICP := CP Inv.

Lemma ICP_rnc n f r s : ICP s -> buf s = f :: r -> ICP (fst (rnc n f r s)).
Proof. exact (rnc_CP Inv Inv_feed Inv_end Inv_pend Inv_consume_resume n f r s). Qed.

Lemma ICP_read_nowait n s : ICP s -> ICP (fst (fst (read_nowait n s))).
Proof. exact (read_nowait_CP Inv Inv_feed Inv_end Inv_pend Inv_consume_resume n s). Qed.

Lemma ICP_take_n fuel n s : ICP s -> ICP (fst (fst (take_n fuel n s))).
Proof. exact (take_n_CP Inv Inv_feed Inv_end Inv_pend Inv_consume_resume fuel n s). Qed.

Lemma ICP_marks n s : ICP s -> ICP (set_chunk_size n s).
Proof. exact (set_chunk_size_CP Inv Inv_marks n s). Qed.

(* ---- a read from a non-empty buffer returns at least one byte ---------------------------------- *)

Definition takes (n : Z) : Prop := n = -1 \/ 1 <= n.

Lemma consume_nonempty n f r s : f <> [] -> takes n -> snd (consume n f r s) <> [].
Proof.
  intros Hf Hn. unfold consume, take_chunk. destruct (take_partial (len f) n) eqn:Et; cbn [snd]; [|exact Hf].
  unfold take_partial in Et. apply andb_true_iff in Et as [E1 E2]. apply negb_true_iff, Z.eqb_neq in E1.
  destruct Hn as [Hn|Hn]; [congruence|]. destruct f as [|x f]; [congruence|].
  destruct (Z.to_nat n) eqn:En; [lia|]. cbn. discriminate.
Qed.

Lemma rnc_snd n f r s : snd (rnc n f r s) = snd (consume n f r s).
Proof. unfold rnc. destruct (consume n f r s). reflexivity. Qed.

Lemma rnc_nonempty n f r s : Inv s -> buf s = f :: r -> takes n -> snd (rnc n f r s) <> [].
Proof.
  intros HI Hb Hn. rewrite rnc_snd. apply consume_nonempty; [|exact Hn].
  pose proof (I_ne s HI) as H. rewrite Hb in H. inversion H; assumption.
Qed.

Lemma read_nowait_nil n s :
  Inv s -> takes n -> snd (fst (read_nowait n s)) = [] -> buf s = [] /\ read_nowait n s = (s, [], SOk).
Proof.
  intros HI Hn. unfold read_nowait. destruct (n =? -1) eqn:E1.
  - destruct (buf s) as [|f r] eqn:Eb; [cbn; auto|]. cbn [length]. rewrite drain_S, Eb.
    pose proof (rnc_nonempty (-1) f r s HI Eb (or_introl eq_refl)) as Hne.
    destruct (rnc (-1) f r s) as [s1 d]. cbn [snd] in Hne. destruct (drain (length r) s1) as [[s2 d2] e].
    cbn [fst snd]. intros E. apply app_eq_nil in E. tauto.
  - unfold fuel_of. rewrite take_n_eq. destruct (buf s) as [|f r] eqn:Eb; [auto|].
    pose proof (rnc_nonempty n f r s HI Eb Hn) as Hne.
    destruct (rnc n f r s) as [s1 d]. cbn [snd] in Hne. cbv zeta.
    destruct (n - len d =? 0); cbn [fst snd]; [tauto|].
    destruct (take_n _ (n - len d) s1) as [[s2 d2] e]. cbn [fst snd]. intros E. apply app_eq_nil in E. tauto.
Qed.

Definition at_eof_state (s : st) : Prop := buf s = [] /\ eof s = true.

Lemma need_wait_false_nil s : need_wait s = false -> buf s = [] -> eof s = true.
Proof. unfold need_wait. intros H E. rewrite E in H. destruct (eof s); [reflexivity|discriminate]. Qed.

Lemma finish_bytes_nil e d : finish e (RBytes d) d = RBytes [] -> e = SOk /\ d = [].
Proof. destruct e; cbn; intros H; inversion H; auto. Qed.

Lemma eof_k_read n s s' : ICP s -> takes n -> k_read n s = (s', Done (RBytes [])) -> at_eof_state s'.
Proof.
  intros [HI _] Hn. unfold k_read. destruct (need_wait s) eqn:Ew; [unfold block; destruct (wait_exc _); intros E; inversion E|].
  destruct (read_nowait n s) as [[s1 d] e] eqn:Er. intros E. inversion E; subst s1.
  apply finish_bytes_nil in H1 as [-> ->].
  destruct (read_nowait_nil n s HI Hn) as [Hb Hr]; [rewrite Er; reflexivity|].
  rewrite Hr in Er. inversion Er; subst. split; [exact Hb|apply need_wait_false_nil; assumption].
Qed.

(* read(): returning at all means end of stream *)
Lemma eof_k_readall fuel : forall acc s s' b, ICP s -> k_readall fuel acc s = (s', Done (RBytes b)) -> at_eof_state s'.
Proof.
  induction fuel as [|fuel IH]; intros acc s s' b H; rewrite k_readall_eq;
    (destruct (need_wait s) eqn:Ew; [unfold block; destruct (wait_exc _); intros E; inversion E|]);
    pose proof (ICP_read_nowait (-1) s H) as H1;
    destruct (read_nowait (-1) s) as [[s1 d] e] eqn:Er; cbn [fst] in H1;
    (destruct e; [|cbn; intros E; inversion E|cbn; intros E; inversion E]);
    (destruct d as [|x d];
     [intros E; inversion E; subst;
      destruct (read_nowait_nil (-1) s (proj1 H) (or_introl eq_refl)) as [Hb Hr]; [rewrite Er; reflexivity|];
      rewrite Hr in Er; inversion Er; subst; split; [exact Hb|apply need_wait_false_nil; assumption]|]);
    (destruct (exc s1); [intros E; inversion E|]).
  - intros E; inversion E.
  - intros E. eapply IH; [exact H1|exact E].
Qed.

Lemma find_sub_nonneg sep : forall f i, find_sub sep f = Some i -> 0 <= i.
Proof.
  induction f as [|x f IHf]; intros i; cbn [find_sub].
  - destruct (starts_with sep []); intros E; inversion E; lia.
  - destruct (starts_with sep (x :: f)); [intros E; inversion E; lia|].
    destruct (find_sub sep f) as [j|]; cbn; intros E; inversion E. specialize (IHf j eq_refl). lia.
Qed.

Lemma eof_k_until fuel : forall sep m acc s s', sep <> [] -> ICP s ->
  k_until fuel sep m acc s = (s', Done (RBytes [])) -> at_eof_state s'.
Proof.
  induction fuel as [|fuel IH]; intros sep m acc s s' Hsep H; rewrite k_until_eq;
    (destruct (buf s) as [|f r] eqn:Eb;
     [destruct (eof s) eqn:Ee; [intros E; inversion E; subst; split; assumption|unfold block; destruct (wait_exc _); intros E; inversion E]|]).
  - intros E; inversion E.
  - destruct (find_sub sep f) as [i|] eqn:Ef.
    + assert (Hn : takes (i + len sep)).
      { right. pose proof (find_sub_nonneg _ _ _ Ef). pose proof (len_pos sep Hsep). lia. }
      pose proof (rnc_nonempty _ f r s (proj1 H) Eb Hn) as Hne.
      destruct (rnc (i + len sep) f r s) as [s1 d]. cbn [snd] in Hne. cbv zeta.
      destruct (line_too_long _ _); intros E; inversion E. apply app_eq_nil in H2. tauto.
    + pose proof (rnc_nonempty _ f r s (proj1 H) Eb (or_introl eq_refl)) as Hne.
      pose proof (ICP_rnc (-1) f r s H Eb) as H1.
      destruct (rnc (-1) f r s) as [s1 d]. cbn [snd fst] in *. cbv zeta.
      destruct (line_too_long _ _); [intros E; inversion E|]. intros E. eapply IH; [exact Hsep|exact H1|exact E].
Qed.

Lemma eof_k_exactly fuel : forall n acc s s' p x lost, 1 <= n -> ICP s ->
  k_exactly fuel n acc s = (s', Done (RRaise (ExIncomplete p x) lost)) -> at_eof_state s'.
Proof.
  induction fuel as [|fuel IH]; intros n acc s s' p x lost Hn H; rewrite k_exactly_eq;
    (destruct (need_wait s) eqn:Ew; [unfold block; destruct (wait_exc _); intros E; inversion E|]);
    pose proof (ICP_read_nowait n s H) as H1;
    destruct (read_nowait n s) as [[s1 d] e] eqn:Er; cbn [fst] in H1;
    (destruct e; [|cbn; intros E; inversion E|cbn; intros E; inversion E]);
    (destruct d as [|c d];
     [intros E; inversion E; subst;
      destruct (read_nowait_nil n s (proj1 H) (or_intror Hn)) as [Hb Hr]; [rewrite Er; reflexivity|];
      rewrite Hr in Er; inversion Er; subst; split; [exact Hb|apply need_wait_false_nil; assumption]|]);
    cbv zeta; (destruct (n - len (c :: d) <=? 0) eqn:En; [intros E; inversion E|]);
    (destruct (exc s1); [intros E; inversion E|]).
  - intros E; inversion E.
  - intros E. eapply IH; [|apply ICP_marks; exact H1|exact E]. lia.
Qed.

Lemma eof_k_readchunk s s' : ICP s -> k_readchunk s = (s', Done (RChunk [] false)) -> at_eof_state s'.
Proof.
  intros H. unfold k_readchunk. destruct (exc s); [intros E; inversion E|].
  destruct (match splits s with
            | None => (None, s)
            | Some l => let '(p, l') := pop_splits (cursor s) l in (p, set_splits s (Some l'))
            end) as [found s0] eqn:E0.
  assert (H0 : ICP s0).
  { destruct (splits s) as [l|] eqn:El.
    - destruct (pop_splits_suffix (cursor s) l) as [l1 Hl]. destruct (pop_splits (cursor s) l) as [p l'].
      cbn [snd] in Hl. inversion E0; subst. destruct H as [HI Hw]. split; [|exact Hw].
      apply (Inv_pop s l1 l' HI Hw). congruence.
    - inversion E0; subst. exact H. }
  destruct found as [p|].
  - destruct (readchunk_at p (cursor s)); [intros E; inversion E|].
    destruct (read_nowait (p - cursor s) s0) as [[s1 d] e]. destruct e; cbn; intros E; inversion E.
  - destruct (buf s0) as [|f r] eqn:Eb.
    + destruct (eof s0) eqn:Ee; [intros E; inversion E; subst; split; assumption|unfold block; destruct (wait_exc _); intros E; inversion E].
    + pose proof (rnc_nonempty (-1) f r s0 (proj1 H0) Eb (or_introl eq_refl)) as Hne.
      destruct (rnc (-1) f r s0) as [s1 d]. cbn [snd] in Hne. intros E; inversion E. congruence.
Qed.

(* which results are end-of-stream indications *)
Definition eof_ind_k (k : cont) (r : result) : Prop :=
  match k, r with
  | KRead n, RBytes [] => takes n                    (* read(n>0) / readany returned b"" *)
  | KReadAll _, RBytes _ => True                     (* read() returned *)
  | KReadUntil sep _ _, RBytes [] => sep <> []       (* readline / readuntil returned b"" *)
  | KReadExactly n _, RRaise (ExIncomplete _ _) _ => 1 <= n
  | KReadChunk, RChunk [] false => True
  | _, _ => False
  end.

Definition eof_ind_c (c : cop) (r : result) : Prop :=
  match c, r with
  | CRead n, RBytes b => n < 0 \/ (0 < n /\ b = [])
  | CReadAny, RBytes [] => True
  | CReadUntil _ _, RBytes [] => True
  | CReadExactly _, RRaise (ExIncomplete _ _) _ => True
  | CReadChunk, RChunk [] false => True
  | _, _ => False
  end.

Lemma eof_resume_k k s s' r : ICP s -> resume_k k s = (s', Done r) -> eof_ind_k k r -> at_eof_state s'.
Proof.
  intros H E Hi. destruct k; cbn [resume_k] in E; cbn [eof_ind_k] in Hi.
  - destruct r; try contradiction. destruct b; [|contradiction]. eapply eof_k_read; eassumption.
  - destruct r; try contradiction. eapply eof_k_readall; eassumption.
  - destruct r; try contradiction. destruct b; [|contradiction]. eapply eof_k_until; eassumption.
  - destruct r; try contradiction. destruct e; try contradiction. eapply eof_k_exactly; eassumption.
  - destruct r; try contradiction. destruct b; [|contradiction]. destruct e; [contradiction|].
    eapply eof_k_readchunk; eassumption.
Qed.

Lemma eof_start c s s' r : ICP s -> start c s = (s', Done r) -> eof_ind_c c r -> at_eof_state s'.
Proof.
  intros H E Hi. destruct c; cbn [start] in E; cbn [eof_ind_c] in Hi; try contradiction.
  - destruct r; try contradiction. unfold raise_exc in E. destruct (exc s); [inversion E|].
    destruct (n =? 0) eqn:E0; [lia|]. destruct (n <? 0) eqn:E1.
    + eapply eof_k_readall; [apply ICP_marks; exact H|exact E].
    + destruct Hi as [Hi|[Hi ->]]; [lia|]. eapply eof_k_read; [apply ICP_marks; exact H| |exact E]. right; lia.
  - destruct r; try contradiction. destruct b; [|contradiction]. unfold raise_exc in E. destruct (exc s); [inversion E|].
    eapply eof_k_read; [exact H|left; reflexivity|exact E].
  - destruct r; try contradiction. destruct b; [|contradiction]. destruct sep as [|c sep]; [inversion E|].
    unfold raise_exc in E. destruct (exc s); [inversion E|].
    eapply eof_k_until; [|exact H|exact E]. discriminate.
  - destruct r; try contradiction. destruct e; try contradiction. unfold raise_exc in E. destruct (exc s); [inversion E|].
    destruct (n <=? 0) eqn:E0; [inversion E|]. eapply eof_k_exactly; [|apply ICP_marks; exact H|exact E]. lia.
  - destruct r; try contradiction. destruct b; [|contradiction]. destruct e; [contradiction|].
    eapply eof_k_readchunk; eassumption.
Qed.

(* C08 EOF last: when a call reports end-of-stream, EOF was fed and nothing is buffered (with
   conservation: everything received has been handed out) *)
Theorem eof_last_step o y y' r :
  SysP Inv y -> step o y = (y', ObDone r) ->
  match o with
  | OStart c => eof_ind_c c r
  | ORun => match task y with Some k => eof_ind_k k r | None => False end
  | _ => False
  end ->
  at_eof (sst y') = true.
Proof.
  intros [HI Ht] E Hi.
  assert (Hfin : forall so, finish_task so = (y', ObDone r) -> exists s', so = (s', Done r) /\ buf (sst y') = buf s' /\ eof (sst y') = eof s').
  { intros [s1 o1] Ef. unfold finish_task in Ef. destruct o1; inversion Ef; subst. exists s1. cbn. auto. }
  assert (Hat : forall s', at_eof_state s' -> buf (sst y') = buf s' -> eof (sst y') = eof s' -> at_eof (sst y') = true).
  { intros s' [A B] C D. unfold at_eof. rewrite C, D, A, B. reflexivity. }
  destruct o; try contradiction; cbn [step] in E.
  - destruct (task y) as [k|] eqn:Et.
    + destruct c; try (inversion E; fail).
      * destruct (wt (sst y)); inversion E; subst. cbn in Hi. destruct (exc (sst y')); contradiction.
      * inversion E; subst. contradiction.
    + destruct (Hfin _ E) as [s' [Es [A B]]]. eapply Hat; [|exact A|exact B].
      eapply eof_start; [|exact Es|exact Hi]. split; auto.
  - destruct (task y) as [k|] eqn:Et; [|contradiction].
    destruct (wt (sst y)) eqn:Ew; try (inversion E; fail).
    + destruct (Hfin _ E) as [s' [Es [A B]]]. eapply Hat; [|exact A|exact B].
      eapply eof_resume_k; [|exact Es|exact Hi]. split; [apply Inv_wt; exact HI|reflexivity].
    + inversion E; subst. destruct k; contradiction.
Qed.

Theorem SysP_Inv_run limit ops : SysP Inv (fst (run ops (init_sys limit))).
Proof.
  apply (run_SysP Inv Inv_feed Inv_begin Inv_end Inv_eof Inv_exc Inv_pend Inv_consume_resume Inv_marks
                  (fun s H _ _ _ _ => Inv_wt s Waiting H) (fun s H => Inv_wt s NoTask H) Inv_pop Inv_unread).
  split; [apply Inv_init|reflexivity].
Qed.

Theorem eof_last limit ops o y' r :
  let y := fst (run ops (init_sys limit)) in
  step o y = (y', ObDone r) ->
  match o with
  | OStart c => eof_ind_c c r
  | ORun => match task y with Some k => eof_ind_k k r | None => False end
  | _ => False
  end ->
  at_eof (sst y') = true.
Proof. intros y. apply eof_last_step. apply SysP_Inv_run. Qed.
