(* C03 support, part 2: the chunked payload parser (Http.chunked_loop / Http.feed_payload) as an
   instance of the generic loop: one-step function, fuel independence, prefix stability,
   well-formedness of the state it leaves behind, and the payload-level splitting lemmas. *)
From Coq Require Import ZifyBool ZifyN.
From AV Require Import Lib.Base Lib.BytesX Generated.HttpGen Model.Http Proofs.HttpSegBase.
Ltac Zify.zify_post_hook ::= Z.to_euclidean_division_equations.
Open Scope N_scope.

(* ------------------------------------------------------------------ events *)
Lemma ev_data_app a b evs : ev_data (a ++ b) evs = ev_data b (ev_data a evs).
Proof. destruct evs as [|m r]; [reflexivity|]. cbn. now rewrite app_assoc. Qed.

Lemma ev_data_nil evs : ev_data [] evs = evs.
Proof. destruct evs as [|[m b d s e x] r]; [reflexivity|]. cbn. now rewrite app_nil_r. Qed.

(* ------------------------------------------------------------------ one step of chunked_loop *)
Definition cst := (cstate * list bytes * acc)%type.

Definition step_c (lim : limits) (mt : N) (s : cst) (chunk : bytes) : (cst * bytes) + pres :=
  let '(c, tl, evs) := s in
  match chunk with
  | [] => inr (PRNeed (mkP (PChunked c) [] tl mt) evs)
  | a :: r =>
    match c with
    | CSize =>
      match find_crlf chunk with
      | Some (line, rest) =>
        if max_line lim <? lenN line then inr (PRFail ELineTooLong evs) else
        let (size_b, ext_ok) :=
          match split_first 59 line with
          | Some (sz, ext) => (sz, negb (has_byte 10 ext))
          | None => (line, true)
          end in
        if negb ext_ok then inr (PRFail ETransferEncoding evs)
        else if negb (nonempty size_b && forallb hex_digit size_b) then inr (PRFail ETransferEncoding evs)
        else let size := parse_hex size_b in
             if size =? 0 then inl ((CTrailers, tl, evs), rest)
             else inl ((CData size, tl, evs), rest)
      | None =>
        if has_byte 10 chunk then inr (PRFail ETransferEncoding evs)
        else inr (PRNeed (mkP (PChunked CSize) chunk tl mt) evs)
      end
    | CData rem =>
      let '(d, rest) := takeN rem chunk in
      let left' := rem - lenN d in
      let evs' := ev_data d evs in
      if left' =? 0 then inl ((CDataEnd, tl, ev_chunk_end evs'), rest)
      else inr (PRNeed (mkP (PChunked (CData left')) [] tl mt) evs')
    | CDataEnd =>
      if a =? 13 then
        match r with
        | [] => inr (PRNeed (mkP (PChunked CDataEnd) [13] tl mt) evs)
        | b :: rest => if b =? 10 then inl ((CSize, tl, evs), rest)
                       else inr (PRFail ETransferEncoding evs)
        end
      else inr (PRFail ETransferEncoding evs)
    | CTrailers =>
      match find_crlf chunk with
      | None =>
        if has_byte 10 chunk then inr (PRFail ETransferEncoding evs)
        else inr (PRNeed (mkP (PChunked CTrailers) chunk tl mt) evs)
      | Some (line, rest) =>
        if max_field lim <? lenN line then inr (PRFail ELineTooLong evs) else
        let tl' := tl ++ [line] in
        if mt <? lenN tl' then inr (PRFail EBadMessage evs) else
        match line with
        | [] => match parse_trailers tl with
                | Some e => inr (PRFail e evs)
                | None => inr (PRDone rest (ev_eof evs))
                end
        | _ => inl ((CTrailers, tl', evs), rest)
        end
      end
    end
  end.

Ltac dm_goal := match goal with |- context [match ?x with _ => _ end] => destruct x end.

Lemma chunked_loop_S f lim p c tl chunk evs :
  chunked_loop (S f) lim p c tl chunk evs =
  match step_c lim (max_trailers p) (c, tl, evs) chunk with
  | inl ((c', tl', evs'), rest) => chunked_loop f lim p c' tl' rest evs'
  | inr r => r
  end.
Proof.
  destruct chunk as [|a r]; [reflexivity|].
  destruct c; cbn [chunked_loop step_c].
  - repeat dm_goal; reflexivity.
  - repeat dm_goal; reflexivity.
  - destruct a as [|pa]; [reflexivity|].
    do 4 (try destruct pa as [pa|pa|]); try reflexivity.
    destruct r as [|b rest]; [reflexivity|].
    destruct b as [|pb]; [reflexivity|].
    do 4 (try destruct pb as [pb|pb|]); reflexivity.
  - repeat dm_goal; reflexivity.
Qed.

Definition cdflt (s : cst) : pres := PRFail EBadMessage (snd s).
Definition mu_c (s : cst) : nat := match fst (fst s) with CData _ => 1%nat | _ => 0%nat end.
Definition cwf (s : cst) : Prop := match fst (fst s) with CData rem => 0 < rem | _ => True end.

Definition cloop lim mt := loop (step_c lim mt) cdflt.

Lemma chunked_loop_loop : forall f lim p c tl chunk evs,
  chunked_loop f lim p c tl chunk evs = cloop lim (max_trailers p) f (c, tl, evs) chunk.
Proof.
  induction f as [|f IH]; intros; [reflexivity|].
  rewrite chunked_loop_S. unfold cloop. cbn [loop].
  destruct (step_c lim (max_trailers p) (c, tl, evs) chunk) as [[[[c' tl'] evs'] rest]|r]; [|reflexivity].
  apply IH.
Qed.

(* ------------------------------------------------------------------ loop hypotheses *)
Ltac dmH H := match type of H with context [match ?x with _ => _ end] => destruct x eqn:? end.
Ltac inj_inl H := inversion H; subst; clear H.

Lemma step_c_dec lim mt : forall s b s' b', cwf s -> step_c lim mt s b = inl (s', b') ->
  cwf s' /\ (meas mu_c s' b' < meas mu_c s b)%nat.
Proof.
  intros [[c tl] evs] b s' b' Hw H. destruct b as [|a r]; [discriminate|].
  unfold meas, mu_c, cwf in *. cbn [fst snd] in *.
  destruct c; cbn [step_c] in H.
  - destruct (find_crlf (a :: r)) as [[line rest]|] eqn:E; [|dmH H; discriminate].
    apply find_crlf_len in E.
    repeat (dmH H; try discriminate); inj_inl H; cbn [fst]; split; try exact I; try lia.
  - destruct (takeN rem (a :: r)) as [d rest] eqn:E. apply takeN_rest_len in E.
    dmH H; [|discriminate]. inj_inl H. cbn [fst]. split; [exact I|lia].
  - repeat (dmH H; try discriminate). inj_inl H. cbn [fst length]. split; [exact I|lia].
  - destruct (find_crlf (a :: r)) as [[line rest]|] eqn:E; [|dmH H; discriminate].
    apply find_crlf_len in E.
    repeat (dmH H; try discriminate); inj_inl H; cbn [fst]; split; try exact I; try lia.
Qed.

Lemma step_c_stable lim mt : forall s x s' x' y, cwf s -> step_c lim mt s x = inl (s', x') ->
  step_c lim mt s (x ++ y) = inl (s', x' ++ y).
Proof.
  intros [[c tl] evs] x s' x' y _ H. destruct x as [|a r]; [discriminate|].
  destruct c; cbn [step_c app] in *.
  - destruct (find_crlf (a :: r)) as [[line rest]|] eqn:E; [|dmH H; discriminate].
    apply (find_crlf_app _ y) in E. cbn [app] in E. rewrite E.
    repeat (dmH H; try discriminate); inj_inl H; reflexivity.
  - destruct (takeN rem (a :: r)) as [d rest] eqn:E.
    destruct (rem - lenN d =? 0) eqn:E0; [|discriminate].
    apply (takeN_app_full _ _ _ _ y) in E; [|lia]. cbn [app] in E. rewrite E, E0.
    inj_inl H. reflexivity.
  - destruct (a =? 13); [|discriminate]. destruct r as [|b rest]; [discriminate|]. cbn [app].
    destruct (b =? 10); [|discriminate]. inj_inl H. reflexivity.
  - destruct (find_crlf (a :: r)) as [[line rest]|] eqn:E; [|dmH H; discriminate].
    apply (find_crlf_app _ y) in E. cbn [app] in E. rewrite E.
    repeat (dmH H; try discriminate); inj_inl H; reflexivity.
Qed.

Lemma cloop_fuel lim mt f f' s b : cwf s -> (meas mu_c s b < f)%nat -> (meas mu_c s b < f')%nat ->
  cloop lim mt f s b = cloop lim mt f' s b.
Proof. apply loop_fuel with (inv := cwf). apply step_c_dec. Qed.

(* ------------------------------------------------------------------ well-formed buffered tails *)
Definition wfc (c : cstate) (ct : bytes) : Prop :=
  match c with
  | CSize | CTrailers => find_crlf ct = None /\ has_byte 10 ct = false
  | CData rem => 0 < rem /\ ct = []
  | CDataEnd => ct = [] \/ ct = [13]
  end.

Definition wfp (p : pstate) : Prop :=
  match pk p with
  | PLength rem => 0 < rem /\ ctail p = [] /\ tlines p = []
  | PUntilEof => ctail p = [] /\ tlines p = []
  | PChunked c => wfc c (ctail p)
  end.

Lemma wfc_cwf c ct tl evs : wfc c ct -> cwf (c, tl, evs).
Proof. unfold wfc, cwf. cbn [fst]. destruct c; try tauto. Qed.

Lemma step_c_data lim mt rem tl evs a r d rest : takeN rem (a :: r) = (d, rest) ->
  step_c lim mt (CData rem, tl, evs) (a :: r) =
  if rem - lenN d =? 0 then inl ((CDataEnd, tl, ev_chunk_end (ev_data d evs)), rest)
  else inr (PRNeed (mkP (PChunked (CData (rem - lenN d))) [] tl mt) (ev_data d evs)).
Proof. intros E. cbn [step_c]. rewrite E. reflexivity. Qed.

(* a stop asking for more input: the state left behind, and how the run resumes *)
Lemma cstop_need lim mt c tl evs x p' e1 :
  cwf (c, tl, evs) ->
  step_c lim mt (c, tl, evs) x = inr (PRNeed p' e1) ->
  exists c' ct' tl', p' = mkP (PChunked c') ct' tl' mt /\ wfc c' ct' /\
    forall y f f', (meas mu_c (c, tl, evs) (x ++ y) < f)%nat ->
                   (meas mu_c (c', tl', e1) (ct' ++ y) < f')%nat ->
      cloop lim mt f (c, tl, evs) (x ++ y) = cloop lim mt f' (c', tl', e1) (ct' ++ y).
Proof.
  intros Hw H. destruct x as [|a r].
  { cbn [step_c] in H. inversion H; subst. exists c, [], tl. split; [reflexivity|]. split.
    - unfold cwf in Hw. cbn [fst] in Hw. unfold wfc. destruct c; auto.
    - intros y f f' H1 H2. apply cloop_fuel; assumption. }
  destruct c.
  - (* CSize *) cbn [step_c] in H.
    destruct (find_crlf (a :: r)) as [[line rest]|] eqn:E.
    { repeat (dmH H; try discriminate). }
    destruct (has_byte 10 (a :: r)) eqn:E2; [discriminate|]. inversion H; subst.
    exists CSize, (a :: r), tl. repeat split; try assumption.
    intros y f f' H1 H2. apply cloop_fuel; assumption.
  - (* CData *)
    destruct (takeN rem (a :: r)) as [d rest] eqn:E.
    rewrite (step_c_data _ _ _ _ _ _ _ _ _ E) in H.
    destruct (rem - lenN d =? 0) eqn:E0; [discriminate|]. inversion H; subst. clear H.
    exists (CData (rem - lenN d)), [], tl. split; [reflexivity|]. split; [split; [lia|reflexivity]|].
    intros y f f' H1 H2. cbn [app] in H2 |- *.
    destruct y as [|b y].
    + rewrite app_nil_r in *. destruct f as [|f]; [lia|]. destruct f' as [|f']; [lia|].
      unfold cloop. cbn [loop].
      rewrite (step_c_data _ _ _ _ _ _ _ _ _ E), E0. reflexivity.
    + destruct (takeN (rem - lenN (a :: r)) (b :: y)) as [d2 r2] eqn:E3.
      destruct (takeN_app_short _ _ _ _ _ _ _ E ltac:(lia) E3) as (-> & -> & E4).
      destruct f as [|f]; [unfold meas in H1; lia|]. destruct f' as [|f']; [unfold meas in H2; lia|].
      unfold cloop. cbn [loop].
      rewrite (step_c_data _ _ _ _ _ _ _ _ _ E3).
      change (a :: r ++ b :: y) with ((a :: r) ++ b :: y).
      rewrite (step_c_data _ _ _ _ _ _ _ _ _ E4).
      rewrite ev_data_app.
      replace (rem - lenN ((a :: r) ++ d2)) with (rem - lenN (a :: r) - lenN d2) by (rewrite lenN_app; lia).
      destruct (rem - lenN (a :: r) - lenN d2 =? 0); [|reflexivity].
      apply takeN_rest_len in E3. apply (loop_fuel _ _ _ _ mu_c cwf (step_c_dec lim mt)).
      * exact I.
      * unfold meas, mu_c in *. cbn [fst length] in *. rewrite app_length in H1. cbn [length] in *. lia.
      * unfold meas, mu_c in *. cbn [fst length] in *. lia.
  - (* CDataEnd *) cbn [step_c] in H.
    destruct (a =? 13) eqn:Ea; [|discriminate]. destruct r as [|b rest]; [|dmH H; discriminate].
    apply N.eqb_eq in Ea. subst a. inversion H; subst.
    exists CDataEnd, [13], tl. split; [reflexivity|]. split; [right; reflexivity|].
    intros y f f' H1 H2. apply cloop_fuel; [exact I|assumption|assumption].
  - (* CTrailers *) cbn [step_c] in H.
    destruct (find_crlf (a :: r)) as [[line rest]|] eqn:E.
    { repeat (dmH H; try discriminate). }
    destruct (has_byte 10 (a :: r)) eqn:E2; [discriminate|]. inversion H; subst.
    exists CTrailers, (a :: r), tl. repeat split; try assumption.
    intros y f f' H1 H2. apply cloop_fuel; assumption.
Qed.

Lemma cstop_done lim mt s x rest e y :
  step_c lim mt s x = inr (PRDone rest e) ->
  step_c lim mt s (x ++ y) = inr (PRDone (rest ++ y) e) /\ (length rest + 2 <= length x)%nat.
Proof.
  destruct s as [[c tl] evs]. intro H. destruct x as [|a r]; [discriminate|].
  destruct c; cbn [step_c app] in *.
  - repeat (dmH H; try discriminate).
  - repeat (dmH H; try discriminate).
  - repeat (dmH H; try discriminate).
  - destruct (find_crlf (a :: r)) as [[line rest0]|] eqn:E; [|dmH H; discriminate].
    pose proof (find_crlf_len _ _ _ E) as HL.
    apply (find_crlf_app _ y) in E. cbn [app] in E. rewrite E.
    repeat (dmH H; try discriminate). inversion H; subst. split; [reflexivity|lia].
Qed.

(* ------------------------------------------------------------------ whole chunked runs *)
Lemma cloop_stop lim mt f s x : cwf s -> (meas mu_c s x < f)%nat ->
  exists sk xk, stopcfg (step_c lim mt) f s x = (sk, xk) /\ cwf sk /\
    (meas mu_c sk xk <= meas mu_c s x)%nat /\
    step_c lim mt sk xk = inr (cloop lim mt f s x).
Proof.
  intros Hw Hf. destruct (stopcfg (step_c lim mt) f s x) as [sk xk] eqn:E.
  destruct (stopcfg_stop _ _ (step_c lim mt) cdflt mu_c cwf (step_c_dec lim mt) f s x Hw Hf sk xk E)
    as (A & B & r & C & D).
  exists sk, xk. unfold cloop. rewrite D. auto.
Qed.

Lemma cloop_done_app lim mt f f' s x y rest e : cwf s -> (meas mu_c s x < f)%nat ->
  (meas mu_c s (x ++ y) < f')%nat ->
  cloop lim mt f s x = PRDone rest e ->
  cloop lim mt f' s (x ++ y) = PRDone (rest ++ y) e /\ (length rest <= length x)%nat.
Proof.
  intros Hw Hf Hf' H.
  destruct (cloop_stop lim mt f s x Hw Hf) as (sk & xk & E & Hwk & Hm & Hs). rewrite H in Hs.
  destruct (cstop_done _ _ _ _ _ _ y Hs) as [Hs' HL]. split.
  - unfold cloop.
    rewrite (loop_app _ _ (step_c lim mt) cdflt mu_c cwf (step_c_dec lim mt) (step_c_stable lim mt)
               f s x y f' (S (meas mu_c sk (xk ++ y))) Hw Hf Hf' sk xk E ltac:(lia)).
    cbn [loop]. rewrite Hs'. reflexivity.
  - unfold meas, mu_c in Hm. destruct (fst (fst sk)), (fst (fst s)); lia.
Qed.

Lemma cloop_need_app lim mt f s x p' e1 : cwf s -> (meas mu_c s x < f)%nat ->
  cloop lim mt f s x = PRNeed p' e1 ->
  exists c' ct' tl', p' = mkP (PChunked c') ct' tl' mt /\ wfc c' ct' /\
    forall y f' f'', (meas mu_c s (x ++ y) < f')%nat ->
                     (meas mu_c (c', tl', e1) (ct' ++ y) < f'')%nat ->
      cloop lim mt f' s (x ++ y) = cloop lim mt f'' (c', tl', e1) (ct' ++ y).
Proof.
  intros Hw Hf H.
  destruct (cloop_stop lim mt f s x Hw Hf) as (sk & xk & E & Hwk & Hm & Hs). rewrite H in Hs.
  destruct sk as [[ck tlk] evk].
  destruct (cstop_need _ _ _ _ _ _ _ _ Hwk Hs) as (c' & ct' & tl' & -> & Hwf & Hres).
  exists c', ct', tl'. split; [reflexivity|]. split; [assumption|].
  intros y f' f'' H1 H2.
  unfold cloop.
  rewrite (loop_app _ _ (step_c lim mt) cdflt mu_c cwf (step_c_dec lim mt) (step_c_stable lim mt)
             f s x y f' (S (meas mu_c (ck, tlk, evk) (xk ++ y))) Hw Hf H1 _ xk E ltac:(lia)).
  apply (Hres y (S (meas mu_c (ck, tlk, evk) (xk ++ y))) f''); [lia|assumption].
Qed.

Ltac dm_in :=
  match goal with
  | |- context [match ?x with _ => _ end] =>
    lazymatch x with
    | context [match _ with _ => _ end] => fail
    | _ => destruct x
    end
  end.

(* first step from a well-formed buffered tail: what remains lies inside the new data *)
Lemma step_c_first lim mt c tl evs ct d : wfc c ct ->
  match step_c lim mt (c, tl, evs) (ct ++ d) with
  | inl (_, x') => (length x' <= length d)%nat
  | inr (PRDone rest _) => (length rest <= length d)%nat
  | _ => True
  end.
Proof.
  intro Hw. destruct (ct ++ d) as [|a r] eqn:Ex; [exact I|].
  destruct c; cbn [step_c wfc] in *.
  - destruct Hw as [Hn _]. destruct (find_crlf (a :: r)) as [[line rest]|] eqn:E; [|destruct (has_byte 10 (a :: r)); exact I].
    rewrite <- Ex in E. apply (find_crlf_none_app _ _ _ _ Hn) in E.
    repeat dm_in; try exact I; assumption.
  - destruct Hw as [_ ->]. cbn [app] in Ex. subst d.
    destruct (takeN rem (a :: r)) as [d0 rest] eqn:E. apply takeN_rest_len in E.
    dm_in; [assumption|exact I].
  - destruct (a =? 13); [|exact I]. destruct r as [|b rest]; [exact I|].
    destruct (b =? 10); [|exact I].
    destruct Hw as [-> | ->]; cbn [app] in Ex; subst d || (inversion Ex; subst d); cbn [length]; lia.
  - destruct Hw as [Hn _]. destruct (find_crlf (a :: r)) as [[line rest]|] eqn:E; [|destruct (has_byte 10 (a :: r)); exact I].
    rewrite <- Ex in E. apply (find_crlf_none_app _ _ _ _ Hn) in E.
    repeat dm_in; try exact I; assumption.
Qed.

(* ------------------------------------------------------------------ feed_payload *)
(* the re-check of a buffered partial line that feed_payload makes before appending new data *)
Definition too_long (lim : limits) (p : pstate) : bool :=
  match pk p with
  | PChunked c =>
      match ctail p, c with
      | [], _ => false
      | _, CData _ => false
      | t, CTrailers => max_field lim <? tail_len chunk_tail_check_discounts_cr t
      | t, _ => max_line lim <? tail_len chunk_tail_check_discounts_cr t
      end
  | _ => false
  end.

Lemma tail_len_le d (t : bytes) : tail_len d t <= lenN t.
Proof. unfold tail_len. destruct (d && (last t 0 =? 13)); lia. Qed.

Lemma tail_len_ge d (t : bytes) : lenN t <= tail_len d t + 1.
Proof. unfold tail_len. destruct (d && (last t 0 =? 13)); lia. Qed.

Lemma feed_payload_chunked lim p c data evs : pk p = PChunked c ->
  feed_payload lim p data evs =
  if too_long lim p then PRFail ELineTooLong evs
  else cloop lim (max_trailers p) (2 * length (ctail p ++ data) + 2) (c, tlines p, evs) (ctail p ++ data).
Proof. intro H. unfold feed_payload, too_long. rewrite H. rewrite chunked_loop_loop. reflexivity. Qed.

Lemma meas_c_fuel c tl evs (x : bytes) : (meas mu_c (c, tl, evs) x < 2 * length x + 2)%nat.
Proof. unfold meas, mu_c. cbn [fst]. destruct c; lia. Qed.

Lemma feed_payload_done lim p x evs rest e : wfp p ->
  feed_payload lim p x evs = PRDone rest e ->
  (length rest <= length x)%nat /\
  forall y, feed_payload lim p (x ++ y) evs = PRDone (rest ++ y) e.
Proof.
  intros Hw H. unfold wfp in Hw. destruct (pk p) as [rem|c|] eqn:Ek.
  - unfold feed_payload in *. rewrite Ek in *.
    destruct (takeN rem x) as [d r] eqn:E. destruct (rem - lenN d =? 0) eqn:E0; [|discriminate].
    inversion H; subst. split; [eapply takeN_rest_len; eassumption|].
    intro y. rewrite (takeN_app_full _ _ _ _ y E ltac:(lia)), E0. reflexivity.
  - rewrite (feed_payload_chunked _ _ _ _ _ Ek) in H.
    destruct (too_long lim p) eqn:Et; [discriminate|].
    pose proof (wfc_cwf _ _ (tlines p) evs Hw) as Hc.
    pose proof (meas_c_fuel c (tlines p) evs (ctail p ++ x)) as Hf.
    split.
    + replace (2 * length (ctail p ++ x) + 2)%nat with (S (2 * length (ctail p ++ x) + 1)) in H by lia.
      unfold cloop in H. cbn [loop] in H.
      pose proof (step_c_first lim (max_trailers p) c (tlines p) evs (ctail p) x Hw) as H1.
      destruct (step_c lim (max_trailers p) (c, tlines p, evs) (ctail p ++ x)) as [[s' x']|r] eqn:Es.
      * destruct (step_c_dec _ _ _ _ _ _ Hc Es) as [Hc' Hm].
        destruct (cloop_done_app lim (max_trailers p) (2 * length (ctail p ++ x) + 1) (2 * length (x' ++ []) + 2) s' x' [] rest e Hc'
                    ltac:(lia) ltac:(unfold meas, mu_c in *; destruct (fst (fst s')); lia) H) as [_ HL].
        lia.
      * subst r. assumption.
    + intro y. rewrite (feed_payload_chunked _ _ _ _ _ Ek), Et.
      rewrite app_assoc.
      pose proof (meas_c_fuel c (tlines p) evs ((ctail p ++ x) ++ y)) as Hf'.
      destruct (cloop_done_app lim (max_trailers p) _ _ _ _ y rest e Hc Hf Hf' H) as [-> _]. reflexivity.
  - unfold feed_payload in H. rewrite Ek in H. discriminate.
Qed.

Lemma feed_payload_need lim p x evs p' e1 : wfp p ->
  feed_payload lim p x evs = PRNeed p' e1 ->
  wfp p' /\ max_trailers p' = max_trailers p /\
  (too_long lim p' = false -> forall y, feed_payload lim p (x ++ y) evs = feed_payload lim p' y e1).
Proof.
  intros Hw H. unfold wfp in Hw. destruct (pk p) as [rem|c|] eqn:Ek.
  - unfold feed_payload in H. rewrite Ek in H.
    destruct (takeN rem x) as [d r] eqn:E. destruct (rem - lenN d =? 0) eqn:E0; [discriminate|].
    inversion H; subst. clear H. split; [unfold wfp; cbn; repeat split; lia|]. split; [reflexivity|].
    intros _ y. unfold feed_payload. rewrite Ek. cbn [pk max_trailers].
    destruct (takeN (rem - lenN x) y) as [d2 r2] eqn:E2.
    destruct (takeN_app_short _ _ _ _ _ _ _ E ltac:(lia) E2) as (-> & -> & ->). rewrite E2.
    rewrite ev_data_app.
    replace (rem - lenN (x ++ d2)) with (rem - lenN x - lenN d2) by (rewrite lenN_app; lia).
    reflexivity.
  - rewrite (feed_payload_chunked _ _ _ _ _ Ek) in H.
    destruct (too_long lim p) eqn:Et; [discriminate|].
    pose proof (wfc_cwf _ _ (tlines p) evs Hw) as Hc.
    pose proof (meas_c_fuel c (tlines p) evs (ctail p ++ x)) as Hf.
    destruct (cloop_need_app _ _ _ _ _ _ _ Hc Hf H) as (c' & ct' & tl' & -> & Hwf & Hres).
    split; [exact Hwf|]. split; [reflexivity|].
    intros Ht y. rewrite (feed_payload_chunked _ _ _ _ _ Ek), Et.
    rewrite (feed_payload_chunked lim (mkP (PChunked c') ct' tl' (max_trailers p)) c' y e1 eq_refl), Ht. cbn [ctail tlines max_trailers].
    rewrite app_assoc. apply Hres; apply meas_c_fuel.
  - unfold feed_payload in H. rewrite Ek in H. inversion H; subst. clear H.
    split; [unfold wfp; rewrite Ek; assumption|]. split; [reflexivity|].
    intros _ y. unfold feed_payload. rewrite Ek. rewrite ev_data_app. reflexivity.
Qed.

(* ------------------------------------------------------------------ failures raised on complete input *)
(* the chunked parser stopped on something other than a partial (CRLF-less) line *)
Definition c_complete (c : cstate) (x : bytes) : bool :=
  match c with
  | CDataEnd => true
  | _ => match find_crlf x with Some _ => true | None => false end
  end.

Lemma cstop_fail lim mt c tl evs x e e1 y :
  step_c lim mt (c, tl, evs) x = inr (PRFail e e1) -> c_complete c x = true ->
  step_c lim mt (c, tl, evs) (x ++ y) = inr (PRFail e e1).
Proof.
  intros H Hc. destruct x as [|a r]; [discriminate|].
  destruct c; cbn [step_c app c_complete] in *.
  - destruct (find_crlf (a :: r)) as [[line rest]|] eqn:E; [|discriminate].
    apply (find_crlf_app _ y) in E. cbn [app] in E. rewrite E.
    repeat (dmH H; try discriminate); inversion H; subst; reflexivity.
  - repeat (dmH H; try discriminate).
  - destruct (a =? 13); [|exact H]. destruct r as [|b rest]; [discriminate|]. cbn [app].
    destruct (b =? 10); [discriminate|exact H].
  - destruct (find_crlf (a :: r)) as [[line rest]|] eqn:E; [|discriminate].
    apply (find_crlf_app _ y) in E. cbn [app] in E. rewrite E.
    repeat (dmH H; try discriminate); inversion H; subst; reflexivity.
Qed.

Definition pl_complete (lim : limits) (p : pstate) (buf : bytes) (evs : acc) : bool :=
  match pk p with
  | PChunked c =>
    too_long lim p ||
    let '((ck, _, _), xck) :=
      stopcfg (step_c lim (max_trailers p)) (2 * length (ctail p ++ buf) + 2)
              (c, tlines p, evs) (ctail p ++ buf) in
    c_complete ck xck
  | _ => true
  end.

Lemma feed_payload_fail_app lim p x evs e e1 y : wfp p ->
  feed_payload lim p x evs = PRFail e e1 -> pl_complete lim p x evs = true ->
  feed_payload lim p (x ++ y) evs = PRFail e e1.
Proof.
  intros Hw H Hc. unfold wfp in Hw. unfold pl_complete in Hc. destruct (pk p) as [rem|c|] eqn:Ek.
  - unfold feed_payload in H. rewrite Ek in H. repeat (dmH H; try discriminate).
  - rewrite (feed_payload_chunked _ _ _ _ _ Ek) in H. rewrite (feed_payload_chunked _ _ _ _ _ Ek).
    destruct (too_long lim p) eqn:Et; [exact H|]. cbn [orb] in Hc.
    pose proof (wfc_cwf _ _ (tlines p) evs Hw) as Hcw.
    pose proof (meas_c_fuel c (tlines p) evs (ctail p ++ x)) as Hf.
    destruct (cloop_stop lim (max_trailers p) _ _ _ Hcw Hf) as (sk & xk & E & Hwk & Hm & Hs).
    rewrite E in Hc. rewrite H in Hs. destruct sk as [[ck tlk] evk].
    rewrite app_assoc. unfold cloop.
    rewrite (loop_app _ _ (step_c lim (max_trailers p)) cdflt mu_c cwf (step_c_dec lim _) (step_c_stable lim _)
               _ _ _ y _ (S (meas mu_c (ck, tlk, evk) (xk ++ y))) Hcw Hf (meas_c_fuel _ _ _ _) _ _ E ltac:(lia)).
    cbn [loop]. rewrite (cstop_fail _ _ _ _ _ _ _ _ y Hs Hc). reflexivity.
  - unfold feed_payload in H. rewrite Ek in H. discriminate.
Qed.

(* ------------------------------------------------------------------ an over-long buffered partial line *)
(* (the repaired length check: the generated flag must be set) *)
Lemma chunk_flag : chunk_tail_check_discounts_cr = true.
Proof. reflexivity. Qed.

Lemma tail_len_cons2 (c c2 : N) (r : bytes) : tail_len true (c :: c2 :: r) = tail_len true (c2 :: r) + 1.
Proof.
  unfold tail_len. cbn [andb]. change (last (c :: c2 :: r) 0) with (last (c2 :: r) 0).
  rewrite (lenN_cons c (c2 :: r)). rewrite (lenN_cons c2 r). destruct (last (c2 :: r) 0 =? 13); lia.
Qed.

Lemma lenN_rev (l : bytes) : lenN (rev l) = lenN l.
Proof. unfold lenN. now rewrite rev_length. Qed.

(* the line that ends a buffered CRLF-less part contains that part, except a CR ending it *)
Lemma find_crlf_aux_none_app_line : forall ct acc d l r,
  find_crlf_aux acc ct = None -> find_crlf_aux acc (ct ++ d) = Some (l, r) ->
  lenN acc + tail_len true ct <= lenN l.
Proof.
  induction ct as [|c ct IH]; intros acc d l r Hn Hs.
  - cbn [app] in Hs. apply find_crlf_aux_shape in Hs as (m & -> & _).
    rewrite lenN_app, lenN_rev. unfold tail_len, lenN. cbn. lia.
  - destruct ct as [|c2 ct].
    + cbn [app] in Hs. destruct d as [|e d]; [discriminate|]. rewrite find_crlf_aux_cons2 in Hs.
      destruct ((c =? 13) && (e =? 10)) eqn:E.
      * inversion Hs; subst. apply andb_true_iff in E as [E _]. apply N.eqb_eq in E. subst c.
        rewrite lenN_rev. unfold tail_len, lenN. cbn. lia.
      * apply find_crlf_aux_shape in Hs as (m & -> & _). rewrite lenN_app, lenN_rev, lenN_cons.
        pose proof (tail_len_le true [c]) as H. change (lenN [c]) with 1 in H. lia.
    + cbn [app] in Hs. rewrite find_crlf_aux_cons2 in Hn, Hs.
      destruct ((c =? 13) && (c2 =? 10)); [discriminate|].
      pose proof (IH _ _ _ _ Hn Hs) as H. rewrite lenN_cons in H. rewrite tail_len_cons2. lia.
Qed.

Lemma find_crlf_none_app_line ct d l r :
  find_crlf ct = None -> find_crlf (ct ++ d) = Some (l, r) -> tail_len true ct <= lenN l.
Proof.
  intros Hn Hs. pose proof (find_crlf_aux_none_app_line ct [] d l r Hn Hs) as H.
  unfold lenN in H at 1. cbn [length] in H. lia.
Qed.

Lemma tail_len_app_mono dd (ct y : bytes) : y <> [] -> tail_len dd ct <= tail_len dd (ct ++ y).
Proof.
  intro Hy. pose proof (tail_len_le dd ct). pose proof (tail_len_ge dd (ct ++ y)).
  rewrite lenN_app in *. destruct y; [congruence|]. rewrite lenN_cons in *. lia.
Qed.

(* resuming on such a line: LineTooLong once its end is seen; before that a bare LF is a
   TransferEncodingError, and otherwise the (longer) part is buffered again *)
Lemma cstop_long lim mt c' ct' tl' e1 y :
  wfc c' ct' -> too_long lim (mkP (PChunked c') ct' tl' mt) = true -> y <> [] ->
  match find_crlf (ct' ++ y) with
  | Some _ => step_c lim mt (c', tl', e1) (ct' ++ y) = inr (PRFail ELineTooLong e1)
  | None =>
    if has_byte 10 (ct' ++ y) then step_c lim mt (c', tl', e1) (ct' ++ y) = inr (PRFail ETransferEncoding e1)
    else step_c lim mt (c', tl', e1) (ct' ++ y) = inr (PRNeed (mkP (PChunked c') (ct' ++ y) tl' mt) e1) /\
         too_long lim (mkP (PChunked c') (ct' ++ y) tl' mt) = true
  end.
Proof.
  intros Hw Ht Hy. unfold too_long in *. cbn [pk ctail] in *. rewrite chunk_flag in *.
  destruct ct' as [|a r]; [discriminate|].
  destruct c'; cbn [wfc] in Hw.
  - destruct Hw as [Hn _]. cbn [app step_c]. change (a :: r ++ y) with ((a :: r) ++ y).
    destruct (find_crlf ((a :: r) ++ y)) as [[line rest]|] eqn:E.
    + pose proof (find_crlf_none_app_line _ _ _ _ Hn E) as Hl.
      destruct (max_line lim <? lenN line) eqn:E1; [reflexivity|lia].
    + destruct (has_byte 10 ((a :: r) ++ y)); [reflexivity|]. split; [reflexivity|].
      pose proof (tail_len_app_mono true (a :: r) y Hy). cbn [app] in *. lia.
  - discriminate.
  - destruct Hw as [Hw|Hw]; [discriminate|]. inversion Hw; subst.
    unfold tail_len, lenN in Ht. cbn in Ht. lia.
  - destruct Hw as [Hn _]. cbn [app step_c]. change (a :: r ++ y) with ((a :: r) ++ y).
    destruct (find_crlf ((a :: r) ++ y)) as [[line rest]|] eqn:E.
    + pose proof (find_crlf_none_app_line _ _ _ _ Hn E) as Hl.
      destruct (max_field lim <? lenN line) eqn:E1; [reflexivity|lia].
    + destruct (has_byte 10 ((a :: r) ++ y)); [reflexivity|]. split; [reflexivity|].
      pose proof (tail_len_app_mono true (a :: r) y Hy). cbn [app] in *. lia.
Qed.

Lemma feed_payload_need_long lim p x evs p' e1 y : wfp p ->
  feed_payload lim p x evs = PRNeed p' e1 -> too_long lim p' = true -> y <> [] ->
  match find_crlf (ctail p' ++ y) with
  | Some _ => feed_payload lim p (x ++ y) evs = PRFail ELineTooLong e1
  | None =>
    if has_byte 10 (ctail p' ++ y) then feed_payload lim p (x ++ y) evs = PRFail ETransferEncoding e1
    else exists p'', feed_payload lim p (x ++ y) evs = PRNeed p'' e1 /\ too_long lim p'' = true
  end.
Proof.
  intros Hw H Ht Hy. unfold wfp in Hw. destruct (pk p) as [rem|c|] eqn:Ek.
  - unfold feed_payload in H. rewrite Ek in H. repeat (dmH H; try discriminate). inversion H; subst. discriminate.
  - rewrite (feed_payload_chunked _ _ _ _ _ Ek) in H.
    destruct (too_long lim p) eqn:Et; [discriminate|].
    pose proof (wfc_cwf _ _ (tlines p) evs Hw) as Hc.
    pose proof (meas_c_fuel c (tlines p) evs (ctail p ++ x)) as Hf.
    destruct (cloop_need_app _ _ _ _ _ _ _ Hc Hf H) as (c' & ct' & tl' & -> & Hwf & Hres).
    cbn [ctail]. rewrite (feed_payload_chunked _ _ _ _ _ Ek), Et. rewrite app_assoc.
    rewrite (Hres y _ (S (meas mu_c (c', tl', e1) (ct' ++ y))) (meas_c_fuel _ _ _ _) ltac:(lia)).
    unfold cloop. cbn [loop].
    pose proof (cstop_long lim (max_trailers p) c' ct' tl' e1 y Hwf Ht Hy) as Hs.
    destruct (find_crlf (ct' ++ y)); [rewrite Hs; reflexivity|].
    destruct (has_byte 10 (ct' ++ y)); [rewrite Hs; reflexivity|].
    destruct Hs as [Hs Ht']. rewrite Hs. eauto.
  - unfold feed_payload in H. rewrite Ek in H. inversion H; subst. unfold too_long in Ht. rewrite Ek in Ht. discriminate.
Qed.
