(* normalize_path_middleware: every candidate that is resolved (and may become the Location of a
   redirect) starts with exactly one slash. *)
From AV Require Import Lib.Base Generated.DispatchGen Model.Dispatch Proofs.DispatchStrings.
Open Scope N_scope.

Lemma drop_slashes_head s : match drop_slashes s with x :: _ => (x =? SLASH) = false | [] => True end.
Proof.
  induction s as [|c s IH]; simpl; [exact I|].
  destruct (c =? SLASH) eqn:E; [exact IH|]. simpl. exact E.
Qed.

Lemma sanitize_no_double s : starts_with [SLASH; SLASH] (sanitize s) = false.
Proof.
  destruct s as [|c [|d s]]; try reflexivity.
  - cbn [sanitize starts_with]. apply andb_false_r.
  - unfold sanitize. destruct ((c =? SLASH) && (d =? SLASH)) eqn:E.
    + pose proof (drop_slashes_head s) as H. cbn [starts_with]. rewrite N.eqb_refl. cbn [andb].
      destruct (drop_slashes s) as [|x t]; [reflexivity|].
      rewrite N.eqb_sym, H. reflexivity.
    + cbn [starts_with]. rewrite (N.eqb_sym SLASH c), (N.eqb_sym SLASH d), andb_true_r. exact E.
Qed.

Lemma sanitize_rooted s : starts_with [SLASH] s = true -> starts_with [SLASH] (sanitize s) = true.
Proof.
  destruct s as [|c [|d s]]; try (intros H; exact H).
  intros H. unfold sanitize. destruct ((c =? SLASH) && (d =? SLASH)); [reflexivity|exact H].
Qed.

Lemma sanitize_nil_or s : sanitize s = [] -> s = [].
Proof.
  destruct s as [|c [|d s]]; try (intros H; exact H).
  unfold sanitize. destruct ((c =? SLASH) && (d =? SLASH)); discriminate.
Qed.

Lemma merge_slashes_rooted s : starts_with [SLASH] s = true -> starts_with [SLASH] (merge_slashes s) = true.
Proof.
  induction s as [|c s IH]; [discriminate|]. intros H.
  cbn [starts_with] in H. rewrite andb_true_r in H. apply N.eqb_eq in H. subst c.
  cbn [merge_slashes]. rewrite N.eqb_refl. destruct s as [|d s]; [reflexivity|].
  destruct (d =? SLASH) eqn:E; [|reflexivity].
  apply IH. apply N.eqb_eq in E. subst d. reflexivity.
Qed.

Lemma removelast_rooted (s : str) : starts_with [SLASH] s = true -> removelast s = [] \/ starts_with [SLASH] (removelast s) = true.
Proof.
  destruct s as [|c [|d s]]; [discriminate|left; reflexivity|]. intros H. right.
  cbn [starts_with] in H |- *. exact H.
Qed.

Lemma app_rooted (s t : str) : starts_with [SLASH] s = true -> starts_with [SLASH] (s ++ t) = true.
Proof. destruct s; [discriminate|]. intros H. exact H. Qed.

Theorem redirect_no_double_slash a r mg path dec c :
  In c (redirect_candidates a r mg path dec) -> starts_with [SLASH; SLASH] c = false.
Proof.
  unfold redirect_candidates. intros H. apply in_map_iff in H. destruct H as (x & <- & _).
  apply sanitize_no_double.
Qed.

Theorem redirect_rooted a r mg path dec c :
  starts_with [SLASH] path = true ->
  In c (redirect_candidates a r mg path dec) -> c = [] \/ starts_with [SLASH] c = true.
Proof.
  intros Hp H. unfold redirect_candidates in H. apply in_map_iff in H. destruct H as (x & <- & Hx).
  assert (Hx' : x = [] \/ starts_with [SLASH] x = true).
  { unfold paths_to_check in Hx.
    repeat (apply in_app_or in Hx; destruct Hx as [Hx|Hx]).
    - destruct mg; [|destruct Hx]. destruct Hx as [<-|[]]. right. apply merge_slashes_rooted; assumption.
    - destruct (a && negb dec); [|destruct Hx]. destruct Hx as [<-|[]]. right. apply app_rooted; assumption.
    - destruct (r && dec); [|destruct Hx]. destruct Hx as [<-|[]]. apply removelast_rooted; assumption.
    - destruct (mg && a); [|destruct Hx]. destruct Hx as [<-|[]]. right.
      apply merge_slashes_rooted. apply app_rooted; assumption.
    - destruct (mg && r && ends_with_char SLASH path); [|destruct Hx]. destruct Hx as [<-|[]].
      apply removelast_rooted. apply merge_slashes_rooted; assumption. }
  destruct Hx' as [->|Hx']; [left; reflexivity|right; apply sanitize_rooted; assumption].
Qed.
