(* Response-parser proofs, part 2: the lax chunked payload parser (HttpResp.rchunked_loop /
   rfeed_payload) as an instance of the generic loop of Proofs/HttpSegBase.v: one-step function,
   fuel independence, prefix stability, well-formedness of the state left behind, and the
   payload-level splitting lemmas. *)
From Coq Require Import ZifyBool ZifyN.
From AV Require Import Lib.Base Lib.BytesX Lib.Utf8Decode Generated.HttpGen Generated.HttpRespGen Model.Http Model.HttpResp
  Proofs.HttpSegBase Proofs.HttpRespBase.
Ltac Zify.zify_post_hook ::= Z.to_euclidean_division_equations.
Open Scope N_scope.

Definition rcst := (rcstate * list bytes * racc)%type.

Definition size_of_line (raw : bytes) : bytes :=
  strip_bws (match split_byte 59 raw with Some (sz, _) => sz | None => raw end).

Definition rstep_c (lim : limits) (mt : N) (s : rcst) (chunk : bytes) : (rcst * bytes) + rpres :=
  let '(c, tl, evs) := s in
  match chunk with
  | [] => inr (QNeed (mkRP (RChunked c) [] tl mt) evs)
  | a :: r =>
    match c with
    | RSize =>
      match find_lf chunk with
      | Some (raw, rest) =>
        if max_line lim <? lenN raw then inr (QFail ELineTooLong evs) else
        let size_b := strip_bws (match split_byte 59 raw with Some (sz, _) => sz | None => raw end) in
        if negb (nonempty size_b && forallb hex_digit size_b) then inr (QFail ETransferEncoding evs)
        else let size := parse_hex size_b in
             if size =? 0 then inl ((RTrailers, tl, evs), rest)
             else inl ((RData size, tl, evs), rest)
      | None => inr (QNeed (mkRP (RChunked RSize) chunk tl mt) evs)
      end
    | RData rem =>
      let '(d, rest) := takeN rem chunk in
      let left' := rem - lenN d in
      let evs' := rev_data d evs in
      if left' =? 0 then inl ((RDataEnd, tl, rev_chunk_end evs'), rest)
      else inr (QNeed (mkRP (RChunked (RData left')) [] tl mt) evs')
    | RDataEnd =>
      if a =? 13 then
        match r with
        | [] => inr (QNeed (mkRP (RChunked RDataEnd) [13] tl mt) evs)
        | b :: rest => if b =? 10 then inl ((RSize, tl, evs), rest)
                       else inr (QFail ETransferEncoding evs)
        end
      else if a =? 10 then inl ((RSize, tl, evs), r)
      else inr (QFail ETransferEncoding evs)
    | RTrailers =>
      match find_lf chunk with
      | None => inr (QNeed (mkRP (RChunked RTrailers) chunk tl mt) evs)
      | Some (raw, rest) =>
        let line := rstrip_cr raw in
        if max_field lim <? len1 raw then inr (QFail ELineTooLong evs) else
        let tl' := tl ++ [line] in
        if mt <? lenN tl' then inr (QFail EBadMessage evs) else
        match line with
        | [] => match parse_trailers_lax (max_field lim) tl with
                | Some e => inr (QFail e evs)
                | None => inr (QDone rest (rev_eof evs))
                end
        | _ => inl ((RTrailers, tl', evs), rest)
        end
      end
    end
  end.

Ltac dm_goal := match goal with |- context [match ?x with _ => _ end] => destruct x end.
Ltac dmH H := match type of H with context [match ?x with _ => _ end] => destruct x eqn:? end.
Ltac inj_inl H := inversion H; subst; clear H.

Lemma rchunked_loop_S f lim mt c tl chunk evs :
  rchunked_loop (S f) lim mt c tl chunk evs =
  match rstep_c lim mt (c, tl, evs) chunk with
  | inl ((c', tl', evs'), rest) => rchunked_loop f lim mt c' tl' rest evs'
  | inr r => r
  end.
Proof.
  destruct chunk as [|a r]; [reflexivity|].
  destruct c; cbn [rchunked_loop rstep_c]; repeat dm_goal; reflexivity.
Qed.

Definition rcdflt (s : rcst) : rpres := QFail EBadMessage (snd s).
Definition rmu_c (s : rcst) : nat :=
  match fst (fst s) with RData _ => 1%nat | _ => 0%nat end.
Definition rcwf (s : rcst) : Prop := match fst (fst s) with RData rem => 0 < rem | _ => True end.

Definition rcloop lim mt := loop (rstep_c lim mt) rcdflt.

Lemma rchunked_loop_loop : forall f lim mt c tl chunk evs,
  rchunked_loop f lim mt c tl chunk evs = rcloop lim mt f (c, tl, evs) chunk.
Proof.
  induction f as [|f IH]; intros; [reflexivity|].
  rewrite rchunked_loop_S. unfold rcloop. cbn [loop].
  destruct (rstep_c lim mt (c, tl, evs) chunk) as [[[[c' tl'] evs'] rest]|r]; [|reflexivity].
  apply IH.
Qed.

(* ------------------------------------------------------------------ loop hypotheses *)
Lemma rstep_c_dec lim mt : forall s b s' b', rcwf s -> rstep_c lim mt s b = inl (s', b') ->
  rcwf s' /\ (meas rmu_c s' b' < meas rmu_c s b)%nat.
Proof.
  intros [[c tl] evs] b s' b' Hw H. destruct b as [|a r]; [discriminate|].
  unfold meas, rmu_c, rcwf in *. cbn [fst snd] in *.
  destruct c; cbn [rstep_c] in H.
  - destruct (find_lf (a :: r)) as [[raw rest]|] eqn:E; [|discriminate].
    apply find_lf_len in E.
    repeat (dmH H; try discriminate); inj_inl H; cbn [fst]; split; try exact I; try lia.
  - destruct (takeN rem (a :: r)) as [d rest] eqn:E. apply takeN_rest_len in E.
    dmH H; [|discriminate]. inj_inl H. cbn [fst]. split; [exact I|lia].
  - repeat (dmH H; try discriminate); inj_inl H; cbn [fst length]; split; try exact I; lia.
  - destruct (find_lf (a :: r)) as [[raw rest]|] eqn:E; [|discriminate].
    apply find_lf_len in E.
    repeat (dmH H; try discriminate); inj_inl H; cbn [fst]; split; try exact I; try lia.
Qed.

Lemma rstep_c_stable lim mt : forall s x s' x' y, rcwf s -> rstep_c lim mt s x = inl (s', x') ->
  rstep_c lim mt s (x ++ y) = inl (s', x' ++ y).
Proof.
  intros [[c tl] evs] x s' x' y _ H. destruct x as [|a r]; [discriminate|].
  destruct c; cbn [rstep_c app] in *.
  - destruct (find_lf (a :: r)) as [[raw rest]|] eqn:E; [|discriminate].
    apply (find_lf_app _ y) in E. cbn [app] in E. rewrite E.
    repeat (dmH H; try discriminate); inj_inl H; reflexivity.
  - destruct (takeN rem (a :: r)) as [d rest] eqn:E.
    destruct (rem - lenN d =? 0) eqn:E0; [|discriminate].
    apply (takeN_app_full _ _ _ _ y) in E; [|lia]. cbn [app] in E. rewrite E, E0.
    inj_inl H. reflexivity.
  - destruct (a =? 13).
    + destruct r as [|b rest]; [discriminate|]. cbn [app].
      destruct (b =? 10); [|discriminate]. inj_inl H. reflexivity.
    + destruct (a =? 10); [|discriminate]. inj_inl H. reflexivity.
  - destruct (find_lf (a :: r)) as [[raw rest]|] eqn:E; [|discriminate].
    apply (find_lf_app _ y) in E. cbn [app] in E. rewrite E.
    repeat (dmH H; try discriminate); inj_inl H; reflexivity.
Qed.

Lemma rcloop_fuel lim mt f f' s b : rcwf s -> (meas rmu_c s b < f)%nat -> (meas rmu_c s b < f')%nat ->
  rcloop lim mt f s b = rcloop lim mt f' s b.
Proof. apply loop_fuel with (inv := rcwf). apply rstep_c_dec. Qed.

(* ------------------------------------------------------------------ well-formed buffered tails *)
Definition rwfc (c : rcstate) (ct : bytes) : Prop :=
  match c with
  | RSize | RTrailers => find_lf ct = None
  | RData rem => 0 < rem /\ ct = []
  | RDataEnd => ct = [] \/ ct = [13]
  end.

Definition rwfp (p : rpstate) : Prop :=
  match rpk p with
  | RLength rem => 0 < rem /\ rctail p = [] /\ rtlines p = []
  | RUntilEof => rctail p = [] /\ rtlines p = []
  | RChunked c => rwfc c (rctail p)
  end.

Lemma rwfc_cwf c ct tl evs : rwfc c ct -> rcwf (c, tl, evs).
Proof. unfold rwfc, rcwf. cbn [fst]. destruct c; try tauto. Qed.


Lemma rstep_c_data lim mt rem tl evs a r d rest : takeN rem (a :: r) = (d, rest) ->
  rstep_c lim mt (RData rem, tl, evs) (a :: r) =
  if rem - lenN d =? 0 then inl ((RDataEnd, tl, rev_chunk_end (rev_data d evs)), rest)
  else inr (QNeed (mkRP (RChunked (RData (rem - lenN d))) [] tl mt) (rev_data d evs)).
Proof. intros E. cbn [rstep_c]. rewrite E. reflexivity. Qed.

Lemma rcloop_step_eq2 lim mt f f' s1 s2 z1 z2 : rcwf s1 -> rcwf s2 ->
  rstep_c lim mt s1 z1 = rstep_c lim mt s2 z2 ->
  (meas rmu_c s1 z1 < f)%nat -> (meas rmu_c s2 z2 < f')%nat ->
  rcloop lim mt f s1 z1 = rcloop lim mt f' s2 z2.
Proof.
  intros W1 W2 E H1 H2. destruct f as [|f]; [lia|]. destruct f' as [|f']; [lia|].
  unfold rcloop. cbn [loop]. rewrite E.
  destruct (rstep_c lim mt s2 z2) as [[s' z']|r] eqn:Es; [|reflexivity].
  destruct (rstep_c_dec _ _ _ _ _ _ W2 Es) as [W' M2].
  destruct (rstep_c_dec _ _ _ _ _ _ W1 E) as [_ M1].
  apply (loop_fuel _ _ _ _ rmu_c rcwf (rstep_c_dec lim mt)); [exact W'|lia|lia].
Qed.

Lemma rcloop_step_eq lim mt f f' s1 s2 z : rcwf s1 -> rcwf s2 ->
  rstep_c lim mt s1 z = rstep_c lim mt s2 z ->
  (meas rmu_c s1 z < f)%nat -> (meas rmu_c s2 z < f')%nat ->
  rcloop lim mt f s1 z = rcloop lim mt f' s2 z.
Proof. apply rcloop_step_eq2. Qed.

(* one more step on the left *)
Lemma rcloop_step_left lim mt f f' s1 s2 z z' : rcwf s1 ->
  rstep_c lim mt s1 z = inl (s2, z') ->
  (meas rmu_c s1 z < f)%nat -> (meas rmu_c s2 z' < f')%nat ->
  rcloop lim mt f s1 z = rcloop lim mt f' s2 z'.
Proof.
  intros W1 E H1 H2. destruct f as [|f]; [lia|]. unfold rcloop. cbn [loop]. rewrite E.
  destruct (rstep_c_dec _ _ _ _ _ _ W1 E) as [W' M].
  apply (loop_fuel _ _ _ _ rmu_c rcwf (rstep_c_dec lim mt)); [exact W'|lia|lia].
Qed.

(* a stop asking for more input: the state left behind, and how the run resumes *)
Lemma rcstop_need lim mt c tl evs x p' e1 :
  rcwf (c, tl, evs) ->
  rstep_c lim mt (c, tl, evs) x = inr (QNeed p' e1) ->
  exists c' ct' tl', p' = mkRP (RChunked c') ct' tl' mt /\ rwfc c' ct' /\
    forall y f f', (meas rmu_c (c, tl, evs) (x ++ y) < f)%nat ->
                   (meas rmu_c (c', tl', e1) (ct' ++ y) < f')%nat ->
      rcloop lim mt f (c, tl, evs) (x ++ y) = rcloop lim mt f' (c', tl', e1) (ct' ++ y).
Proof.
  intros Hw H. destruct x as [|a r].
  { cbn [rstep_c] in H. inversion H; subst. exists c, [], tl. split; [reflexivity|]. split.
    - unfold rcwf in Hw. cbn [fst] in Hw. unfold rwfc. destruct c; auto.
    - intros y f f' H1 H2. apply rcloop_fuel; assumption. }
  destruct c.
  - (* RSize *) cbn [rstep_c] in H.
    destruct (find_lf (a :: r)) as [[raw rest]|] eqn:E.
    { repeat (dmH H; try discriminate). }
    inversion H; subst.
    exists RSize, (a :: r), tl. repeat split; try assumption.
    intros y f f' H1 H2. apply rcloop_fuel; assumption.
  - (* RData *)
    destruct (takeN rem (a :: r)) as [d rest] eqn:E.
    rewrite (rstep_c_data _ _ _ _ _ _ _ _ _ E) in H.
    destruct (rem - lenN d =? 0) eqn:E0; [discriminate|]. inversion H; subst. clear H.
    exists (RData (rem - lenN d)), [], tl. split; [reflexivity|]. split; [split; [lia|reflexivity]|].
    intros y f f' H1 H2. cbn [app] in H2 |- *.
    destruct y as [|b y].
    + rewrite app_nil_r in *. destruct f as [|f]; [lia|]. destruct f' as [|f']; [lia|].
      unfold rcloop. cbn [loop].
      rewrite (rstep_c_data _ _ _ _ _ _ _ _ _ E), E0. reflexivity.
    + destruct (takeN (rem - lenN (a :: r)) (b :: y)) as [d2 r2] eqn:E3.
      destruct (takeN_app_short _ _ _ _ _ _ _ E ltac:(lia) E3) as (-> & -> & E4).
      destruct f as [|f]; [unfold meas in H1; lia|]. destruct f' as [|f']; [unfold meas in H2; lia|].
      unfold rcloop. cbn [loop].
      rewrite (rstep_c_data _ _ _ _ _ _ _ _ _ E3).
      change (a :: r ++ b :: y) with ((a :: r) ++ b :: y).
      rewrite (rstep_c_data _ _ _ _ _ _ _ _ _ E4).
      rewrite rev_data_app.
      replace (rem - lenN ((a :: r) ++ d2)) with (rem - lenN (a :: r) - lenN d2) by (rewrite lenN_app; lia).
      destruct (rem - lenN (a :: r) - lenN d2 =? 0); [|reflexivity].
      apply takeN_rest_len in E3. apply (loop_fuel _ _ _ _ rmu_c rcwf (rstep_c_dec lim mt)).
      * exact I.
      * unfold meas, rmu_c in *. cbn [fst length] in *. rewrite app_length in H1. cbn [length] in *. lia.
      * unfold meas, rmu_c in *. cbn [fst length] in *. lia.
  - (* RDataEnd: the only stop for more input is a CR at the very end, which stays buffered *)
    cbn [rstep_c] in H.
    destruct (a =? 13) eqn:Ea.
    + destruct r as [|b rest]; [|dmH H; discriminate].
      inversion H; subst. apply N.eqb_eq in Ea. subst a.
      exists RDataEnd, [13], tl. split; [reflexivity|]. split; [right; reflexivity|].
      intros y f f' H1 H2. apply rcloop_fuel; [exact I|assumption|assumption].
    + dmH H; discriminate.
  - (* RTrailers *) cbn [rstep_c] in H.
    destruct (find_lf (a :: r)) as [[raw rest]|] eqn:E.
    { repeat (dmH H; try discriminate). }
    inversion H; subst.
    exists RTrailers, (a :: r), tl. repeat split; try assumption.
    intros y f f' H1 H2. apply rcloop_fuel; assumption.
Qed.

Lemma rcstop_done lim mt s x rest e y :
  rstep_c lim mt s x = inr (QDone rest e) ->
  rstep_c lim mt s (x ++ y) = inr (QDone (rest ++ y) e) /\ (length rest + 1 <= length x)%nat.
Proof.
  destruct s as [[c tl] evs]. intro H. destruct x as [|a r]; [discriminate|].
  destruct c; cbn [rstep_c app] in *.
  - repeat (dmH H; try discriminate).
  - repeat (dmH H; try discriminate).
  - repeat (dmH H; try discriminate).
  - destruct (find_lf (a :: r)) as [[raw rest0]|] eqn:E; [|discriminate].
    pose proof (find_lf_len _ _ _ E) as HL.
    apply (find_lf_app _ y) in E. cbn [app] in E. rewrite E.
    repeat (dmH H; try discriminate). inversion H; subst. split; [reflexivity|lia].
Qed.

(* ------------------------------------------------------------------ whole chunked runs *)
Lemma rcloop_stop lim mt f s x : rcwf s -> (meas rmu_c s x < f)%nat ->
  exists sk xk, stopcfg (rstep_c lim mt) f s x = (sk, xk) /\ rcwf sk /\
    (meas rmu_c sk xk <= meas rmu_c s x)%nat /\
    rstep_c lim mt sk xk = inr (rcloop lim mt f s x).
Proof.
  intros Hw Hf. destruct (stopcfg (rstep_c lim mt) f s x) as [sk xk] eqn:E.
  destruct (stopcfg_stop _ _ (rstep_c lim mt) rcdflt rmu_c rcwf (rstep_c_dec lim mt) f s x Hw Hf sk xk E)
    as (A & B & r & C & D).
  exists sk, xk. unfold rcloop. rewrite D. auto.
Qed.

Lemma rcloop_done_app lim mt f f' s x y rest e : rcwf s -> (meas rmu_c s x < f)%nat ->
  (meas rmu_c s (x ++ y) < f')%nat ->
  rcloop lim mt f s x = QDone rest e ->
  rcloop lim mt f' s (x ++ y) = QDone (rest ++ y) e /\ (length rest < length x)%nat.
Proof.
  intros Hw Hf Hf' H.
  destruct (rcloop_stop lim mt f s x Hw Hf) as (sk & xk & E & Hwk & Hm & Hs). rewrite H in Hs.
  destruct (rcstop_done _ _ _ _ _ _ y Hs) as [Hs' HL]. split.
  - unfold rcloop.
    rewrite (loop_app _ _ (rstep_c lim mt) rcdflt rmu_c rcwf (rstep_c_dec lim mt) (rstep_c_stable lim mt)
               f s x y f' (S (meas rmu_c sk (xk ++ y))) Hw Hf Hf' sk xk E ltac:(lia)).
    cbn [loop]. rewrite Hs'. reflexivity.
  - unfold meas, rmu_c in Hm. destruct (fst (fst sk)), (fst (fst s)); lia.
Qed.

Lemma rcloop_need_app lim mt f s x p' e1 : rcwf s -> (meas rmu_c s x < f)%nat ->
  rcloop lim mt f s x = QNeed p' e1 ->
  exists c' ct' tl', p' = mkRP (RChunked c') ct' tl' mt /\ rwfc c' ct' /\
    forall y f' f'', (meas rmu_c s (x ++ y) < f')%nat ->
                     (meas rmu_c (c', tl', e1) (ct' ++ y) < f'')%nat ->
      rcloop lim mt f' s (x ++ y) = rcloop lim mt f'' (c', tl', e1) (ct' ++ y).
Proof.
  intros Hw Hf H.
  destruct (rcloop_stop lim mt f s x Hw Hf) as (sk & xk & E & Hwk & Hm & Hs). rewrite H in Hs.
  destruct sk as [[ck tlk] evk].
  destruct (rcstop_need _ _ _ _ _ _ _ _ Hwk Hs) as (c' & ct' & tl' & -> & Hwf & Hres).
  exists c', ct', tl'. split; [reflexivity|]. split; [assumption|].
  intros y f' f'' H1 H2.
  unfold rcloop.
  rewrite (loop_app _ _ (rstep_c lim mt) rcdflt rmu_c rcwf (rstep_c_dec lim mt) (rstep_c_stable lim mt)
             f s x y f' (S (meas rmu_c (ck, tlk, evk) (xk ++ y))) Hw Hf H1 _ xk E ltac:(lia)).
  apply (Hres y (S (meas rmu_c (ck, tlk, evk) (xk ++ y))) f''); [lia|assumption].
Qed.

Ltac dm_in :=
  match goal with
  | |- context [match ?x with _ => _ end] =>
    lazymatch x with
    | context [match _ with _ => _ end] => fail
    | _ => destruct x
    end
  end.

(* first step from a well-formed buffered tail: what remains lies inside the new data *)
Lemma rstep_c_first lim mt c tl evs ct d : rwfc c ct ->
  match rstep_c lim mt (c, tl, evs) (ct ++ d) with
  | inl (_, x') => (length x' <= length d)%nat
  | inr (QDone rest _) => (length rest <= length d)%nat
  | _ => True
  end.
Proof.
  intro Hw. destruct (ct ++ d) as [|a r] eqn:Ex; [exact I|].
  destruct c; cbn [rstep_c rwfc] in *.
  - destruct (find_lf (a :: r)) as [[raw rest]|] eqn:E; [|exact I].
    rewrite <- Ex in E. apply (find_lf_none_app _ _ _ _ Hw) in E.
    repeat dm_in; try exact I; lia.
  - destruct Hw as [_ ->]. cbn [app] in Ex. subst d.
    destruct (takeN rem (a :: r)) as [d0 rest] eqn:E. apply takeN_rest_len in E.
    dm_in; [assumption|exact I].
  - repeat dm_in; try exact I;
      destruct Hw as [-> | ->]; cbn [app] in Ex; subst d || (inversion Ex; subst d); cbn [length]; lia.
  - destruct (find_lf (a :: r)) as [[raw rest]|] eqn:E; [|exact I].
    rewrite <- Ex in E. apply (find_lf_none_app _ _ _ _ Hw) in E.
    repeat dm_in; try exact I; lia.
Qed.

(* ------------------------------------------------------------------ rfeed_payload *)
Lemma rfeed_payload_chunked lim p c data evs : rpk p = RChunked c ->
  rfeed_payload lim p data evs =
  if rtoo_long lim p then QFail ELineTooLong evs
  else rcloop lim (rmax_trailers p) (2 * length (rctail p ++ data) + 2) (c, rtlines p, evs) (rctail p ++ data).
Proof. intro H. unfold rfeed_payload. rewrite H. rewrite rchunked_loop_loop. reflexivity. Qed.

Lemma rmeas_c_fuel c tl evs (x : bytes) : (meas rmu_c (c, tl, evs) x < 2 * length x + 2)%nat.
Proof. unfold meas, rmu_c. cbn [fst]. destruct c; lia. Qed.

Lemma rfeed_payload_done lim p x evs rest e : rwfp p ->
  rfeed_payload lim p x evs = QDone rest e ->
  (length rest <= length x)%nat /\
  forall y, rfeed_payload lim p (x ++ y) evs = QDone (rest ++ y) e.
Proof.
  intros Hw H. unfold rwfp in Hw. destruct (rpk p) as [rem|c|] eqn:Ek.
  - unfold rfeed_payload in *. rewrite Ek in *.
    destruct (takeN rem x) as [d r] eqn:E. destruct (rem - lenN d =? 0) eqn:E0; [|discriminate].
    inversion H; subst. split; [eapply takeN_rest_len; eassumption|].
    intro y. rewrite (takeN_app_full _ _ _ _ y E ltac:(lia)), E0. reflexivity.
  - rewrite (rfeed_payload_chunked _ _ _ _ _ Ek) in H.
    destruct (rtoo_long lim p) eqn:Et; [discriminate|].
    pose proof (rwfc_cwf _ _ (rtlines p) evs Hw) as Hc.
    pose proof (rmeas_c_fuel c (rtlines p) evs (rctail p ++ x)) as Hf.
    split.
    + replace (2 * length (rctail p ++ x) + 2)%nat with (S (2 * length (rctail p ++ x) + 1)) in H by lia.
      unfold rcloop in H. cbn [loop] in H.
      pose proof (rstep_c_first lim (rmax_trailers p) c (rtlines p) evs (rctail p) x Hw) as H1.
      destruct (rstep_c lim (rmax_trailers p) (c, rtlines p, evs) (rctail p ++ x)) as [[s' x']|r] eqn:Es.
      * destruct (rstep_c_dec _ _ _ _ _ _ Hc Es) as [Hc' Hm].
        destruct (rcloop_done_app lim (rmax_trailers p) (2 * length (rctail p ++ x) + 1) (2 * length (x' ++ []) + 2) s' x' [] rest e Hc'
                    ltac:(lia) ltac:(unfold meas, rmu_c in *; destruct (fst (fst s')); lia) H) as [_ HL].
        lia.
      * subst r. assumption.
    + intro y. rewrite (rfeed_payload_chunked _ _ _ _ _ Ek), Et.
      rewrite app_assoc.
      pose proof (rmeas_c_fuel c (rtlines p) evs ((rctail p ++ x) ++ y)) as Hf'.
      destruct (rcloop_done_app lim (rmax_trailers p) _ _ _ _ y rest e Hc Hf Hf' H) as [-> _]. reflexivity.
  - unfold rfeed_payload in H. rewrite Ek in H. discriminate.
Qed.

(* the re-check is monotone: a buffered partial line that is too long stays too long when its line
   is completed (the complete line is measured the same way), so the one-read run fails as well *)
Lemma rstep_c_too_long lim mt c' ct' tl' e1 y : rwfc c' ct' ->
  rtoo_long lim (mkRP (RChunked c') ct' tl' mt) = true -> has_byte 10 y = true ->
  rstep_c lim mt (c', tl', e1) (ct' ++ y) = inr (QFail ELineTooLong e1).
Proof.
  intros Hw Ht Hy. unfold rtoo_long in Ht. cbn [rpk rctail] in Ht.
  destruct ct' as [|t0 t]; [discriminate|].
  assert (Hlf : exists raw rest, find_lf ((t0 :: t) ++ y) = Some (raw, rest)).
  { destruct (find_lf ((t0 :: t) ++ y)) as [[raw rest]|] eqn:E; [eauto|].
    apply find_lf_none_has in E. rewrite has_byte_app, Hy, orb_true_r in E. discriminate. }
  destruct Hlf as (raw & rest & Hlf).
  destruct c' as [| rem | |]; cbn [rwfc] in Hw.
  - (* RSize: the raw line is at least as long as the buffered part *)
    destruct (find_lf_none_app_prefix _ _ _ _ Hw Hlf) as [pre ->].
    change ((t0 :: t) ++ y) with (t0 :: (t ++ y)) in *. cbn [rstep_c]. rewrite Hlf.
    assert (E : max_line lim <? lenN ((t0 :: t) ++ pre) = true) by (rewrite lenN_app; lia).
    rewrite E. reflexivity.
  - discriminate.
  - (* RDataEnd: a lone buffered CR is measured as nothing *)
    exfalso. destruct Hw as [Hw|Hw]; [discriminate|]. inversion Hw; subst. unfold len1, lenN in Ht. cbn in Ht. lia.
  - destruct (find_lf_none_app_prefix _ _ _ _ Hw Hlf) as [pre ->].
    change ((t0 :: t) ++ y) with (t0 :: (t ++ y)) in *. cbn [rstep_c]. rewrite Hlf.
    pose proof (len1_app_ge (t0 :: t) pre).
    assert (E : max_field lim <? len1 ((t0 :: t) ++ pre) = true) by lia.
    rewrite E. reflexivity.
Qed.

Lemma rfeed_payload_need lim p x evs p' e1 : rwfp p ->
  rfeed_payload lim p x evs = QNeed p' e1 ->
  rwfp p' /\ rmax_trailers p' = rmax_trailers p /\
  (forall y, rtoo_long lim p' = false \/ has_byte 10 y = true ->
   rfeed_payload lim p (x ++ y) evs = rfeed_payload lim p' y e1).
Proof.
  intros Hw H. unfold rwfp in Hw. destruct (rpk p) as [rem|c|] eqn:Ek.
  - unfold rfeed_payload in H. rewrite Ek in H.
    destruct (takeN rem x) as [d r] eqn:E. destruct (rem - lenN d =? 0) eqn:E0; [discriminate|].
    inversion H; subst. clear H. split; [unfold rwfp; cbn; repeat split; lia|]. split; [reflexivity|].
    intros y _. unfold rfeed_payload. rewrite Ek. cbn [rpk rmax_trailers].
    destruct (takeN (rem - lenN x) y) as [d2 r2] eqn:E2.
    destruct (takeN_app_short _ _ _ _ _ _ _ E ltac:(lia) E2) as (-> & -> & ->). rewrite E2.
    rewrite rev_data_app.
    replace (rem - lenN (x ++ d2)) with (rem - lenN x - lenN d2) by (rewrite lenN_app; lia).
    reflexivity.
  - rewrite (rfeed_payload_chunked _ _ _ _ _ Ek) in H.
    destruct (rtoo_long lim p) eqn:Et; [discriminate|].
    pose proof (rwfc_cwf _ _ (rtlines p) evs Hw) as Hc.
    pose proof (rmeas_c_fuel c (rtlines p) evs (rctail p ++ x)) as Hf.
    destruct (rcloop_need_app _ _ _ _ _ _ _ Hc Hf H) as (c' & ct' & tl' & -> & Hwf & Hres).
    split; [exact Hwf|]. split; [reflexivity|].
    intros y Hty. rewrite (rfeed_payload_chunked _ _ _ _ _ Ek), Et.
    rewrite (rfeed_payload_chunked lim (mkRP (RChunked c') ct' tl' (rmax_trailers p)) c' y e1 eq_refl). cbn [rctail rtlines rmax_trailers].
    rewrite app_assoc. rewrite (Hres y _ (2 * length (ct' ++ y) + 2)%nat); [|apply rmeas_c_fuel|apply rmeas_c_fuel].
    destruct (rtoo_long lim (mkRP (RChunked c') ct' tl' (rmax_trailers p))) eqn:Et'; [|reflexivity].
    destruct Hty as [Hty|Hty]; [discriminate|].
    replace (2 * length (ct' ++ y) + 2)%nat with (S (2 * length (ct' ++ y) + 1)) by lia.
    unfold rcloop. cbn [loop]. rewrite (rstep_c_too_long _ _ _ _ _ _ _ Hwf Et' Hty). reflexivity.
  - unfold rfeed_payload in H. rewrite Ek in H. inversion H; subst. clear H.
    split; [unfold rwfp; rewrite Ek; assumption|]. split; [reflexivity|].
    intros y _. unfold rfeed_payload. rewrite Ek. rewrite rev_data_app. reflexivity.
Qed.

Lemma rfeed_payload_too_long lim p d evs : rtoo_long lim p = true ->
  rfeed_payload lim p d evs = QFail ELineTooLong evs.
Proof.
  intro H. destruct (rpk p) as [rem|c|] eqn:Ek; try (unfold rtoo_long in H; rewrite Ek in H; discriminate).
  rewrite (rfeed_payload_chunked _ _ _ _ _ Ek), H. reflexivity.
Qed.
