(* Soundness of the sliding-window reader (BodyPartReader._read_chunk_from_stream with its push-back), for a
   part without Content-Length and without base64, over ANY stream state / segmentation / arrival schedule and
   ANY legal chunk sizes: whenever the reading loop ends without an exception, the bytes it returned are exactly
   the content that precedes the first delimiter.  (That valid bodies raise no exception is not proved here.) *)
From AV Require Import Lib.Base Generated.MultipartGen Model.Multipart Proofs.MultipartStream Proofs.MultipartTerm
  Proofs.MultipartFind.
From Coq Require Import ZifyBool ZifyN ZifyNat.
Open Scope N_scope.
Ltac Zify.zify_post_hook ::= Z.to_euclidean_division_equations.

(* the bytes still to come, in order *)
Definition L (s : stream) : bytes := s_buf s ++ concat (map snd (s_pending s)).
(* once feed_eof() has happened nothing is pending *)
Definition s_ok (s : stream) : Prop := s_eof s = true -> s_pending s = [].

Lemma arrive0_L p : forall b r, arrive0 p = (b, r) -> concat (map snd p) = b ++ concat (map snd r).
Proof.
  induction p as [|[d seg] p IH]; intros b r H; cbn [arrive0] in H.
  - inversion H; reflexivity.
  - destruct (d =? 0).
    + destruct (arrive0 p) as [b' r'] eqn:E. inversion H; subst. cbn [map snd concat].
      rewrite (IH _ _ eq_refl), app_assoc. reflexivity.
    + inversion H; subst. reflexivity.
Qed.

Lemma dec_head_L p : concat (map snd (dec_head p)) = concat (map snd p).
Proof. destruct p as [|[d seg] p]; reflexivity. Qed.

Lemma L_with s b p e : L (s_with s b p e) = b ++ concat (map snd p).
Proof. reflexivity. Qed.

Lemma tick_L s : L (s_tick s) = L s.
Proof.
  unfold s_tick. destruct (s_eof s); [reflexivity|].
  destruct (arrive0 (dec_head (s_pending s))) as [b r] eqn:E. apply arrive0_L in E. rewrite dec_head_L in E.
  rewrite L_with. unfold L. rewrite E, app_assoc. reflexivity.
Qed.

Lemma tick_ok s : s_ok s -> s_ok (s_tick s).
Proof.
  unfold s_tick, s_ok. destruct (s_eof s) eqn:E; [intros H _; apply H; reflexivity|].
  destruct (arrive0 (dec_head (s_pending s))) as [b r]. intros _. cbn [s_eof s_pending s_with].
  intro H. apply andb_true_iff in H as [_ H]. apply is_nil_true in H. exact H.
Qed.

Lemma tick_eof s : s_eof s = true -> s_tick s = s.
Proof. unfold s_tick. intros ->. reflexivity. Qed.

Lemma next_seg_L p : forall seg r, next_seg p = (seg, r) -> concat (map snd p) = seg ++ concat (map snd r).
Proof.
  induction p as [|[d sg] p IH]; intros seg r H; cbn [next_seg] in H.
  - inversion H; reflexivity.
  - destruct sg as [|c sg']; [cbn [map snd concat app]; apply IH; exact H|]. inversion H; subst. reflexivity.
Qed.

Lemma wait_L s : L (s_wait s) = L s.
Proof.
  unfold s_wait. destruct (next_seg (s_pending s)) as [seg r] eqn:E. pose proof (next_seg_L _ _ _ E) as H.
  destruct seg as [|c seg'].
  - apply next_seg_nil in E as [-> _]. rewrite L_with. unfold L. rewrite H. reflexivity.
  - rewrite L_with. unfold L. rewrite H, app_assoc. reflexivity.
Qed.

Lemma wait_ok s : s_ok (s_wait s).
Proof.
  unfold s_wait, s_ok. destruct (next_seg (s_pending s)) as [seg r]. destruct seg as [|c seg']; cbn [s_eof s_pending s_with].
  - reflexivity.
  - intro H. apply andb_true_iff in H as [_ H]. apply is_nil_true in H. exact H.
Qed.

Lemma chunk_size_L n s : L (s_set_chunk_size n s) = L s.
Proof. unfold s_set_chunk_size. destruct (s_low s <? n); reflexivity. Qed.
Lemma chunk_size_ok n s : s_ok s -> s_ok (s_set_chunk_size n s).
Proof. unfold s_set_chunk_size. destruct (s_low s <? n); intro H; exact H. Qed.

Lemma read_L n s d s1 : s_read n s = (d, s1) -> L s = d ++ L s1.
Proof.
  unfold s_read. destruct (n =? 0).
  - intro H; inversion H; subst. rewrite tick_L. reflexivity.
  - set (s0 := s_set_chunk_size n (s_tick s)).
    set (s2 := if is_nil (s_buf s0) && negb (s_eof s0) then s_wait s0 else s0).
    intro H; inversion H; subst; clear H.
    assert (T : L s2 = L s).
    { unfold s2. destruct (is_nil (s_buf s0) && negb (s_eof s0)); [rewrite wait_L|]; unfold s0; rewrite chunk_size_L, tick_L; reflexivity. }
    rewrite L_with, <- T. unfold L. rewrite app_assoc, take_drop. reflexivity.
Qed.

Lemma read_ok n s d s1 : s_ok s -> s_read n s = (d, s1) -> s_ok s1.
Proof.
  intro K. unfold s_read. destruct (n =? 0).
  - intro H; inversion H; subst. apply tick_ok, K.
  - set (s0 := s_set_chunk_size n (s_tick s)).
    assert (K0 : s_ok s0) by (apply chunk_size_ok, tick_ok, K).
    intro H; inversion H; subst; clear H.
    destruct (is_nil (s_buf s0) && negb (s_eof s0)); unfold s_ok in *; cbn [s_eof s_pending s_with].
    + apply wait_ok.
    + exact K0.
Qed.

Lemma read_eof_kept n s d s1 : s_eof s = true -> s_read n s = (d, s1) -> s_eof s1 = true.
Proof.
  intro E. unfold s_read. rewrite (tick_eof s E). destruct (n =? 0).
  - intro H; inversion H; subst. exact E.
  - assert (E0 : s_eof (s_set_chunk_size n s) = true) by (rewrite s_set_chunk_size_eof; exact E).
    rewrite E0. rewrite andb_false_r. intro H; inversion H; subst. exact E0.
Qed.

(* after feed_eof() the buffer is all there is: a read returns n bytes or drains the stream *)
Lemma read_after_eof n s d s1 : s_ok s -> s_eof s = true -> s_read n s = (d, s1) -> lenN d = n \/ L s1 = [].
Proof.
  intros K E. unfold s_read. rewrite (tick_eof s E). destruct (n =? 0) eqn:N0.
  - intro H; inversion H; subst. left. apply N.eqb_eq in N0. rewrite lenN_nil0. lia.
  - assert (E0 : s_eof (s_set_chunk_size n s) = true) by (rewrite s_set_chunk_size_eof; exact E).
    rewrite E0, andb_false_r. intro H; inversion H; subst; clear H.
    rewrite L_with. assert (P : s_pending (s_set_chunk_size n s) = []).
    { apply (chunk_size_ok n s K). exact E0. }
    rewrite P. cbn [map concat]. rewrite app_nil_r, takeb_len.
    destruct (N.le_gt_cases n (lenN (s_buf (s_set_chunk_size n s)))) as [Le|Gt]; [left; lia|right].
    apply lenN_zero_nil. rewrite dropb_len. lia.
Qed.

Lemma unread_L d s : L (s_unread d s) = d ++ L s.
Proof. unfold s_unread. destruct d as [|c d']; [reflexivity|]. rewrite L_with. unfold L. rewrite app_assoc. reflexivity. Qed.
Lemma unread_ok d s : s_ok s -> s_ok (s_unread d s).
Proof. unfold s_unread. destruct d; intro H; exact H. Qed.
Lemma unread_eof d s : s_eof (s_unread d s) = s_eof s.
Proof. unfold s_unread. destruct d; reflexivity. Qed.

Lemma at_eof_L s : s_ok s -> s_at_eof s = true -> L s = [].
Proof.
  unfold s_at_eof, s_ok, L. intros K H. apply andb_true_iff in H as [E B]. apply is_nil_true in B.
  rewrite B, (K E). reflexivity.
Qed.

Lemma at_eof_flag s : s_at_eof s = true -> s_eof s = true.
Proof. unfold s_at_eof. intro H. apply andb_true_iff in H as [E _]. exact E. Qed.

(* ---- the fill loop in terms of the byte sequence ---- *)
Lemma fill_chunk_L fuel : forall size blen chunk ceof s chunk' ceof' s',
  0 < size -> blen <= size -> s_ok s -> (ceof <> 0 -> s_eof s = true) ->
  fill_chunk fuel size blen chunk ceof s = Ok (chunk', ceof', s') ->
  exists x, chunk' = chunk ++ x /\ L s = x ++ L s' /\ s_ok s' /\ (ceof' <> 0 -> s_eof s' = true) /\
            (blen <= lenN chunk' \/ L s' = []).
Proof.
  induction fuel as [|f IH]; intros size blen chunk ceof s chunk' ceof' s' Hsz Hbl K J H; rewrite fill_chunk_eq in H.
  - unfold fill_more in H. destruct (lenN chunk <? blen) eqn:FM; [discriminate|]. inversion H; subst.
    exists []. rewrite app_nil_r. repeat split; try assumption. left. lia.
  - unfold fill_more in H. destruct (lenN chunk <? blen) eqn:FM.
    2:{ inversion H; subst. exists []. rewrite app_nil_r. repeat split; try assumption. left. lia. }
    destruct (s_read size s) as [d s1] eqn:R. cbv zeta in H.
    pose proof (read_L _ _ _ _ R) as RL. pose proof (read_ok _ _ _ _ K R) as K1.
    set (c1 := ceof + (if s_at_eof s1 then 1 else 0)) in *.
    assert (J1 : c1 <> 0 -> s_eof s1 = true).
    { intro C. destruct (s_at_eof s1) eqn:A; [apply at_eof_flag; exact A|].
      apply (read_eof_kept _ _ _ _ (J ltac:(unfold c1 in C; lia)) R). }
    destruct (content_eof_exceeded c1); [discriminate|].
    destruct (negb (c1 =? 0)) eqn:Z.
    + inversion H; subst. exists d. repeat split; try assumption.
      apply negb_true_iff, N.eqb_neq in Z.
      destruct (s_at_eof s') eqn:A; [right; apply at_eof_L; assumption|].
      assert (C0 : ceof <> 0) by (unfold c1 in Z; lia).
      destruct (read_after_eof _ _ _ _ K (J C0) R) as [Ln|Le]; [left; rewrite lenN_app; lia|right; exact Le].
    + apply negb_false_iff, N.eqb_eq in Z.
      destruct (IH _ _ _ _ _ _ _ _ Hsz Hbl K1 J1 H) as (x & -> & X2 & X3 & X4 & X5).
      exists (d ++ x). rewrite app_assoc. repeat split; try assumption.
      rewrite RL, X2, app_assoc. reflexivity.
Qed.

(* ---- _read_chunk_from_stream after the optional first read ---- *)
Definition fs_rest (first : bool) (prev : bytes) (size : N) (p : part) (s1 : stream) : res (bytes * part * stream) :=
  match fill_chunk (S (N.to_nat (p_blen p))) size (p_blen p) [] (p_content_eof p) s1 with
  | Err e => Err e
  | Ok (chunk0, ceof, s2) =>
    let '(chunk, s3) := if overflow (lenN chunk0) size
                        then (takeb size chunk0, s_unread (dropb size chunk0) s2)
                        else (chunk0, s2) in
    let window := prev ++ chunk in
    let sub := delimiter p in
    let start := if first then 0 else window_search_start (lenN prev) (lenN sub) in
    let strip := if first then first_chunk_strip else 0 in
    match find_from sub window start with
    | Some idx =>
      let s4 := s_unread (dropb idx window) s3 in
      let prev' := takeb idx prev in
      let chunk' := dropb (lenN prev') (takeb idx window) in
      Ok (dropb strip prev', p_set_window chunk' ceof (is_nil chunk') p, s4)
    | None => Ok (dropb strip prev, p_set_window chunk ceof false p, s3)
    end
  end.

Lemma rcfs_eq size p s :
  read_chunk_from_stream size p s =
  if size <? p_blen p then Err EAssert else
  match p_prev p with
  | None => let '(d, s') := s_read size s in fs_rest true (delim_prefix ++ d) size p s'
  | Some pv => fs_rest false pv size p s
  end.
Proof.
  unfold read_chunk_from_stream, fs_rest. destruct (size <? p_blen p); [reflexivity|].
  destruct (p_prev p); [reflexivity|]. destruct (s_read size s). reflexivity.
Qed.

Lemma firstn_app_ge {A} (a b : list A) k : (length a <= k)%nat -> firstn k (a ++ b) = a ++ firstn (k - length a) b.
Proof. intro H. rewrite firstn_app, firstn_all2 by lia. reflexivity. Qed.

Section Sound.
  Variables bnd body rest : bytes.
  Let D := delim_prefix ++ bnd.
  Let V := delim_prefix ++ body ++ D ++ rest.
  Let i0 := (2 + length body)%nat.
  (* the delimiter does not occur before the end of the content (neither inside it nor across its end) *)
  Hypothesis Hfirst : forall i, (i < i0)%nat -> starts_with D (skipn i V) = false.

  Lemma D_len : length D = (2 + length bnd)%nat.
  Proof. reflexivity. Qed.

  Lemma D_nonempty : D <> [].
  Proof. discriminate. Qed.

  Lemma sw_app sub u : starts_with sub (sub ++ u) = true.
  Proof. induction sub as [|c sub IH]; cbn; [reflexivity|]. rewrite N.eqb_refl, IH. reflexivity. Qed.

  Lemma Hocc : starts_with D (skipn i0 V) = true.
  Proof.
    unfold V, i0. change (delim_prefix ++ body ++ D ++ rest) with (13 :: 10 :: body ++ D ++ rest).
    cbn [skipn Nat.add]. rewrite skipn_app, skipn_all, Nat.sub_diag. cbn [skipn app]. apply sw_app.
  Qed.

  Lemma V_long : (i0 + length D <= length V)%nat.
  Proof. pose proof (sw_length _ _ Hocc) as H. rewrite skipn_length in H. pose proof D_len. lia. Qed.

  Lemma fs_rest_sound first pre pv size p s1 d p' s' :
    V = pre ++ pv ++ L s1 -> (length pre <= i0)%nat -> (first = false -> (length pre + length pv < i0 + length D)%nat) ->
    (first = true -> pre = []) ->
    s_ok s1 -> (p_content_eof p <> 0 -> s_eof s1 = true) -> p_blen p <= size -> p_boundary p = bnd ->
    fs_rest first pv size p s1 = Ok (d, p', s') ->
    same_static p p' /\
    ((p_at_eof p' = p_at_eof p /\ d = dropb (if first then 2 else 0) pv /\
      exists pv', p_prev p' = Some pv' /\ V = (pre ++ pv) ++ pv' ++ L s' /\
                  (length pre + length pv <= i0)%nat /\ (length pre + length pv + length pv' < i0 + length D)%nat /\
                  s_ok s' /\ (p_content_eof p' <> 0 -> s_eof s' = true))
     \/ (p_at_eof p' = true /\ (i0 - length pre <= length pv)%nat /\
         d = dropb (if first then 2 else 0) (firstn (i0 - length pre) pv))).
  Proof.
    intros HV Hpre Hpv Hf K J Hsz Hb. unfold fs_rest. pose proof D_len as DL.
    assert (BL : p_blen p = N.of_nat (length D)).
    { unfold p_blen, boundary_len_formula. rewrite Hb, D_len. unfold lenN. lia. }
    assert (Hs0 : 0 < size) by (pose proof (blen_ge2 p); lia).
    destruct (fill_chunk _ size (p_blen p) [] (p_content_eof p) s1) as [[[chunk0 ceof'] s2]|e] eqn:F; [|discriminate].
    destruct (fill_chunk_L _ _ _ _ _ _ _ _ _ Hs0 Hsz K J F) as (x & X1 & X2 & K2 & J2 & X5).
    cbn [app] in X1. subst x. unfold overflow.
    set (cs := if size <? lenN chunk0 then (takeb size chunk0, s_unread (dropb size chunk0) s2) else (chunk0, s2)).
    assert (CS : L s1 = fst cs ++ L (snd cs) /\ s_ok (snd cs) /\ (ceof' <> 0 -> s_eof (snd cs) = true) /\
                 (p_blen p <= lenN (fst cs) \/ L (snd cs) = [])).
    { unfold cs. destruct (size <? lenN chunk0) eqn:OV; cbn [fst snd].
      - rewrite unread_L, app_assoc, take_drop. repeat split; [exact X2|apply unread_ok; exact K2|rewrite unread_eof; exact J2|].
        left. rewrite takeb_len. lia.
      - repeat split; assumption. }
    destruct cs as [chunk s3]. cbn [fst snd] in CS. destruct CS as (C1 & K3 & J3 & C4).
    assert (SD : delimiter p = D) by (unfold delimiter; rewrite Hb; reflexivity).
    rewrite SD.
    set (start := if first then 0 else window_search_start (lenN pv) (lenN D)).
    assert (HV' : V = pre ++ (pv ++ chunk) ++ L s3). { rewrite HV, C1, <- app_assoc. reflexivity. }
    assert (Hstart : (length pre + N.to_nat start <= i0)%nat).
    { unfold start. destruct first; [lia|]. specialize (Hpv eq_refl). unfold window_search_start, lenN. lia. }
    destruct (find_from D (pv ++ chunk) start) as [idx|] eqn:FF.
    - (* delimiter found *)
      apply find_from_some in FF as (k & -> & Sk & Ok & Nk).
      pose proof (window_found D V i0 D_nonempty Hocc Hfirst pre (pv ++ chunk) (L s3) HV' (N.to_nat start) Hpre Hstart
                               k Sk Ok Nk) as EQ.
      pose proof (sw_length _ _ Ok) as FitL. rewrite skipn_length, app_length in FitL.
      intro H; inversion H; subst d p' s'; clear H. split; [repeat split|].
      unfold takeb, dropb, lenN. rewrite !Nat2N.id.
      destruct (Nat.le_gt_cases k (length pv)) as [Le|Gt].
      + (* inside _prev_chunk: the part ends here *)
        right. assert (E : skipn (length (firstn k pv)) (firstn k (pv ++ chunk)) = []).
        { apply skipn_all2. rewrite !firstn_length, app_length. lia. }
        rewrite E. cbn [is_nil p_at_eof p_set_window orb]. replace (i0 - length pre)%nat with k by lia.
        split; [reflexivity|]. split; [exact Le|]. destruct first; reflexivity.
      + (* beyond _prev_chunk: hand back _prev_chunk, keep the bytes before the delimiter *)
        left. rewrite (firstn_all2 pv) by lia. rewrite (firstn_app_ge pv chunk k) by lia.
        rewrite skipn_app, skipn_all, Nat.sub_diag. cbn [skipn app].
        assert (NE : is_nil (firstn (k - length pv) chunk) = false).
        { apply is_nil_false. intro Z. apply (f_equal (@length N)) in Z. rewrite firstn_length in Z. cbn [length] in Z. lia. }
        rewrite NE. cbn [p_at_eof p_set_window orb p_prev p_content_eof]. split; [reflexivity|].
        split; [destruct first; reflexivity|].
        exists (firstn (k - length pv) chunk). split; [reflexivity|].
        rewrite unread_L. split.
        { rewrite HV'. rewrite skipn_app, (skipn_all2 pv) by lia. cbn [app].
          rewrite <- !app_assoc. f_equal. f_equal. rewrite app_assoc, firstn_skipn. reflexivity. }
        rewrite firstn_length. repeat split; try lia; [apply unread_ok; exact K3|rewrite unread_eof; exact J3].
    - (* not found *)
      pose proof (find_from_none _ _ _ FF) as Nk.
      pose proof (window_not_found D V i0 Hocc Hfirst pre (pv ++ chunk) (L s3) HV' (N.to_nat start) Hpre Hstart Nk) as NF.
      rewrite app_length in NF.
      intro H; inversion H; subst d p' s'; clear H. split; [repeat split|]. left.
      cbn [p_at_eof p_set_window orb p_prev p_content_eof]. split; [reflexivity|]. split; [destruct first; reflexivity|].
      exists chunk. split; [reflexivity|]. split; [rewrite HV', <- !app_assoc; reflexivity|].
      assert (LE : (length pre + length pv <= i0)%nat).
      { destruct C4 as [C4|C4].
        - rewrite BL in C4. unfold lenN in C4. lia.
        - pose proof V_long as VL. rewrite HV', C4, !app_length in VL. cbn [length] in VL. lia. }
      repeat split; try lia; assumption.
  Qed.

  (* ---- the invariant of the reading loop ---- *)
  Definition St (acc : bytes) (p : part) (s : stream) : Prop :=
    p_b64 p = false /\ p_length p = None /\ p_carry p = [] /\ p_boundary p = bnd /\ s_ok s /\
    (p_content_eof p <> 0 -> s_eof s = true) /\
    match p_prev p with
    | None => acc = [] /\ V = delim_prefix ++ L s
    | Some pv => V = (delim_prefix ++ acc) ++ pv ++ L s /\ (2 + length acc <= i0)%nat /\
                 (2 + length acc + length pv < i0 + length D)%nat
    end.

  Lemma firstn_V : firstn i0 V = delim_prefix ++ body.
  Proof.
    unfold V, i0. change (delim_prefix ++ body ++ D ++ rest) with (13 :: 10 :: body ++ D ++ rest).
    cbn [firstn Nat.add]. rewrite firstn_app, firstn_all, Nat.sub_diag. cbn [firstn]. rewrite app_nil_r. reflexivity.
  Qed.

  Lemma from_stream_sound size acc p s d p' s' :
    St acc p s -> read_chunk_from_stream size p s = Ok (d, p', s') ->
    same_static p p' /\
    ((p_at_eof p' = p_at_eof p /\ St (acc ++ d) p' s') \/ (p_at_eof p' = true /\ acc ++ d = body)).
  Proof.
    intros (B64 & PL & PC & PB & K & J & PV) H. rewrite rcfs_eq in H.
    destruct (size <? p_blen p) eqn:SZ; [discriminate|]. assert (Hsz : p_blen p <= size) by lia.
    destruct (p_prev p) as [pv|] eqn:PP.
    - destruct PV as (HV & A1 & A2).
      assert (LP : length (delim_prefix ++ acc) = (2 + length acc)%nat) by (rewrite app_length; reflexivity).
      destruct (fs_rest_sound false (delim_prefix ++ acc) pv size p s d p' s' HV ltac:(lia) ltac:(intros _; lia)
                  ltac:(discriminate) K J Hsz PB H) as (SS & [(E1 & E2 & pv' & P1 & P2 & P3 & P4 & P5 & P6)|(E1 & E2 & E3)]).
      + split; [exact SS|]. left. split; [exact E1|].
        destruct SS as (S1 & S2 & S3 & S4 & S5 & _).
        unfold St. rewrite S3, S2, S5, S1, P1.
        split; [exact B64|split; [exact PL|split; [exact PC|split; [exact PB|split; [exact P5|split; [exact P6|]]]]]].
        subst d. change (dropb 0 pv) with pv.
        split; [|split].
        * rewrite P2, <- !app_assoc. reflexivity.
        * rewrite app_length. lia.
        * rewrite app_length. lia.
      + split; [exact SS|]. right. split; [exact E1|].
        pose proof firstn_V as FV. rewrite HV in FV. rewrite LP in *.
        rewrite (firstn_app_ge (delim_prefix ++ acc) _ i0) in FV by lia. rewrite LP in FV.
        rewrite firstn_app in FV. replace (i0 - (2 + length acc) - length pv)%nat with 0%nat in FV by lia.
        cbn [firstn] in FV. rewrite app_nil_r, <- app_assoc in FV. apply app_inv_head in FV.
        rewrite E3. cbn [dropb skipn N.to_nat]. exact FV.
    - destruct PV as (-> & HV). destruct (s_read size s) as [r1 s1] eqn:R.
      pose proof (read_L _ _ _ _ R) as RL. pose proof (read_ok _ _ _ _ K R) as K1.
      assert (J1 : p_content_eof p <> 0 -> s_eof s1 = true) by (intro C; apply (read_eof_kept _ _ _ _ (J C) R)).
      assert (HV1 : V = [] ++ (delim_prefix ++ r1) ++ L s1). { cbn [app]. rewrite HV, RL, <- app_assoc. reflexivity. }
      destruct (fs_rest_sound true [] (delim_prefix ++ r1) size p s1 d p' s' HV1 ltac:(cbn; lia) ltac:(discriminate)
                  ltac:(reflexivity) K1 J1 Hsz PB H) as (SS & [(E1 & E2 & pv' & P1 & P2 & P3 & P4 & P5 & P6)|(E1 & E2 & E3)]).
      + split; [exact SS|]. left. split; [exact E1|].
        destruct SS as (S1 & S2 & S3 & S4 & S5 & _).
        assert (DR : d = r1) by (rewrite E2; reflexivity). clear E2. subst d.
        cbn [app length] in *. unfold St. rewrite S3, S2, S5, S1, P1.
        split; [exact B64|split; [exact PL|split; [exact PC|split; [exact PB|split; [exact P5|split; [exact P6|]]]]]].
        split; [exact P2|split].
        * rewrite app_length in P3. cbn [length delim_prefix] in P3. lia.
        * rewrite app_length in P4. cbn [length delim_prefix] in P4. lia.
      + split; [exact SS|]. right. split; [exact E1|]. cbn [app length] in *. rewrite Nat.sub_0_r in *.
        pose proof firstn_V as FV. rewrite HV1 in FV. cbn [app] in FV.
        change (13 :: 10 :: r1 ++ L s1) with ((delim_prefix ++ r1) ++ L s1) in FV.
        rewrite firstn_app in FV. replace (i0 - length (delim_prefix ++ r1))%nat with 0%nat in FV by lia.
        cbn [firstn] in FV. rewrite app_nil_r in FV. rewrite E3, FV. reflexivity.
  Qed.

  Lemma St_set_carry acc p s : St acc p s -> St acc (p_set_carry [] p) s.
  Proof. intros (B64 & PL & PC & PB & K & J & PV). repeat split; assumption. Qed.

  Lemma St_add_read acc n p s : St acc p s -> St acc (p_add_read n p) s.
  Proof. intros (B64 & PL & PC & PB & K & J & PV). repeat split; assumption. Qed.

  Lemma read_chunk_once_sound size acc p s d p' s' :
    St acc p s -> p_at_eof p = false -> read_chunk_once size p s = Ok (d, p', s') ->
    p_carry p' = [] /\
    ((p_at_eof p' = false /\ St (acc ++ d) p' s') \/ (p_at_eof p' = true /\ acc ++ d = body)).
  Proof.
    intros HS E H. pose proof HS as (B64 & PL & PC & PB & K & J & PV).
    rewrite read_chunk_eq, E, PL, B64, PC in H.
    destruct (read_chunk_from_stream _ _ s) as [[[fresh p1] s1]|e] eqn:F; [|discriminate].
    apply (from_stream_sound _ acc _ _ _ _ _ (St_set_carry _ _ _ HS)) in F.
    destruct F as ((S1 & S2 & S3 & S4 & S5 & _) & F).
    unfold rc_tail in H. cbn [app] in H.
    assert (LR : length_reached (p_add_read (lenN fresh) p1) = false).
    { unfold length_reached. cbn [p_length p_add_read]. rewrite S2. cbn [p_length p_set_carry]. rewrite PL. reflexivity. }
    rewrite LR in H. cbn [p_at_eof p_add_read] in H.
    destruct F as [(E1 & F)|(E1 & F)].
    - cbn [p_at_eof p_set_carry] in E1. rewrite E1, E in H. inversion H; subst. split; [exact S5|]. left.
      split; [cbn [p_at_eof p_add_read]; rewrite E1; exact E|]. apply St_add_read. exact F.
    - rewrite E1 in H. destruct (s_readline 0 s1) as [[l|] s2]; [|discriminate].
      destruct (list_eqb l CRLF); [|discriminate]. inversion H; subst. split; [exact S5|]. right. split; [exact E1|exact F].
  Qed.

  Theorem read_chunk_sound size acc p s d p' s' :
    St acc p s -> p_at_eof p = false -> read_chunk size p s = Ok (d, p', s') ->
    (p_at_eof p' = false /\ St (acc ++ d) p' s') \/ (p_at_eof p' = true /\ acc ++ d = body).
  Proof.
    intros HS E H. unfold read_chunk in H. unfold chunk_budget in H. rewrite read_chunk_n_eq in H.
    destruct (read_chunk_once size p s) as [[[d1 p1] s1]|e] eqn:R; [|discriminate].
    destruct (read_chunk_once_sound _ _ _ _ _ _ _ HS E R) as [C G].
    unfold retry in H. rewrite C in H. cbn [is_nil negb andb] in H. rewrite andb_false_r in H. cbn [andb] in H.
    inversion H; subst. exact G.
  Qed.

  Definition Good (acc : bytes) (p : part) (s : stream) : Prop :=
    (p_at_eof p = false /\ St acc p s) \/ (p_at_eof p = true /\ acc = body).

  Theorem read_loop_sound fuel : forall acc p s data p' s',
    Good acc p s -> read_loop fuel acc p s = Ok (data, p', s') -> data = body.
  Proof.
    induction fuel as [|f IH]; intros acc p s data p' s' G H; rewrite read_loop_eq in H.
    - destruct G as [[E _]|[E A]]; rewrite E in H; [discriminate|]. inversion H; subst. reflexivity.
    - destruct G as [[E HS]|[E A]]; rewrite E in H.
      2:{ inversion H; subst. reflexivity. }
      destruct (read_chunk chunk_size p s) as [[[d p1] s1]|e] eqn:R; [|discriminate]. cbv zeta in H.
      destruct (over_client_max _ _); [discriminate|].
      apply (IH _ _ _ _ _ _) in H; [exact H|].
      destruct (read_chunk_sound _ _ _ _ _ _ _ HS E R) as [[E1 S1]|[E1 A1]]; [left|right]; split; assumption.
  Qed.

  Theorem chunks_loop_sound fuel : forall sizes count bounded acc p s data p' s',
    Good acc p s -> chunks_loop fuel sizes count bounded acc p s = Ok (data, p', s') ->
    p_at_eof p' = true -> data = body.
  Proof.
    induction fuel as [|f IH]; intros sizes count bounded acc p s data p' s' G H E'; rewrite chunks_loop_eq in H.
    - destruct G as [[E _]|[E A]]; rewrite E in H; cbn [orb] in H.
      + destruct (bounded && (count =? 0)); [|discriminate]. inversion H; subst. congruence.
      + inversion H; subst. reflexivity.
    - destruct G as [[E HS]|[E A]]; rewrite E in H; cbn [orb] in H.
      2:{ inversion H; subst. reflexivity. }
      destruct (bounded && (count =? 0)); [inversion H; subst; congruence|].
      destruct (match sizes with [] => (chunk_size, []) | z :: r => (z, r ++ [z]) end) as [sz sizes'].
      destruct (read_chunk sz p s) as [[[d p1] s1]|e] eqn:R; [|discriminate].
      apply (IH _ _ _ _ _ _ _ _ _) in H; [exact H| |exact E'].
      destruct (read_chunk_sound _ _ _ _ _ _ _ HS E R) as [[E1 S1]|[E1 A1]]; [left|right]; split; assumption.
  Qed.

  Lemma St_initial mx s : s_ok s -> L s = body ++ D ++ rest -> St [] (new_part bnd None false mx) s.
  Proof.
    intros K HL. unfold St, new_part. cbn. repeat split; try assumption; try congruence.
    unfold V. rewrite HL. reflexivity.
  Qed.
End Sound.

(* any part without Content-Length / base64, any stream holding  content ++ CRLF--boundary ++ anything *)
Theorem window_reader_sound bnd body rest mx s fuel data p' s' :
  (forall i, (i < 2 + length body)%nat ->
     starts_with (delim_prefix ++ bnd) (skipn i (delim_prefix ++ body ++ (delim_prefix ++ bnd) ++ rest)) = false) ->
  s_ok s -> L s = body ++ (delim_prefix ++ bnd) ++ rest ->
  part_read fuel (new_part bnd None false mx) s = Ok (data, p', s') -> data = body.
Proof.
  intros HF K HL H. eapply (read_loop_sound bnd body rest HF); [|exact H].
  left. split; [reflexivity|]. apply St_initial; assumption.
Qed.

Theorem window_reader_chunks_sound bnd body rest mx s fuel sizes count bounded data p' s' :
  (forall i, (i < 2 + length body)%nat ->
     starts_with (delim_prefix ++ bnd) (skipn i (delim_prefix ++ body ++ (delim_prefix ++ bnd) ++ rest)) = false) ->
  s_ok s -> L s = body ++ (delim_prefix ++ bnd) ++ rest ->
  chunks_loop fuel sizes count bounded [] (new_part bnd None false mx) s = Ok (data, p', s') ->
  p_at_eof p' = true -> data = body.
Proof.
  intros HF K HL H E. eapply (chunks_loop_sound bnd body rest HF); [|exact H|exact E].
  left. split; [reflexivity|]. apply St_initial; assumption.
Qed.

Lemma s_init_ok segs eager limit : s_ok (s_init segs eager limit).
Proof.
  unfold s_ok, s_init. cbn. intro H. apply andb_true_iff in H as [_ H]. apply is_nil_true in H. exact H.
Qed.

Lemma s_init_L segs eager limit : L (s_init segs eager limit) = concat (map snd segs).
Proof. reflexivity. Qed.

(* the same for a part that starts on a fresh stream fed with ANY segmentation of the bytes *)
Corollary window_reader_sound_segs bnd body rest mx segs eager limit fuel data p' s' :
  (forall i, (i < 2 + length body)%nat ->
     starts_with (delim_prefix ++ bnd) (skipn i (delim_prefix ++ body ++ (delim_prefix ++ bnd) ++ rest)) = false) ->
  concat (map snd segs) = body ++ (delim_prefix ++ bnd) ++ rest ->
  part_read fuel (new_part bnd None false mx) (s_init segs eager limit) = Ok (data, p', s') -> data = body.
Proof.
  intros HF HC H. eapply window_reader_sound; [exact HF|apply s_init_ok|rewrite s_init_L; exact HC|exact H].
Qed.

Corollary window_reader_chunks_sound_segs bnd body rest mx segs eager limit fuel sizes count bounded data p' s' :
  (forall i, (i < 2 + length body)%nat ->
     starts_with (delim_prefix ++ bnd) (skipn i (delim_prefix ++ body ++ (delim_prefix ++ bnd) ++ rest)) = false) ->
  concat (map snd segs) = body ++ (delim_prefix ++ bnd) ++ rest ->
  chunks_loop fuel sizes count bounded [] (new_part bnd None false mx) (s_init segs eager limit) = Ok (data, p', s') ->
  p_at_eof p' = true -> data = body.
Proof.
  intros HF HC H E. eapply window_reader_chunks_sound; [exact HF|apply s_init_ok|rewrite s_init_L; exact HC|exact H|exact E].
Qed.
