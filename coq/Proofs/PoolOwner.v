(* C07 — every counted slot has a live owner (no leak), and the per-host book mirrors the total one. *)
From AV Require Import Lib.Base Generated.PoolGen Model.Pool Proofs.PoolLimit Proofs.PoolCoh.
Open Scope N_scope.

Definition owner (s : state) (sl : slot) : Prop :=
  match sl with
  | SPh t => exists k, get_pc (pcs s) t = PCreating k
  | SConn cn => exists t k, get_pc (pcs s) t = PHolding k cn
  end.

Definition is_owner_pc (p : pc) : Prop :=
  (exists k, p = PCreating k) \/ (exists k cn, p = PHolding k cn).

Definition owned (c : cfg) (s : state) : Prop :=
  closed s = false ->
  (forall sl, In sl (acquired s) -> owner s sl) /\
  (if per_host c then map fst (hostacq s) = acquired s else hostacq s = []).

Lemma slot_eqb_eq a b : slot_eqb a b = true <-> a = b.
Proof.
  destruct a, b; cbn [slot_eqb]; split; intro H; try discriminate; try (inversion H; subst; apply N.eqb_refl).
  - apply N.eqb_eq in H. congruence.
  - apply N.eqb_eq in H. congruence.
Qed.

Lemma slot_eqb_refl a : slot_eqb a a = true.
Proof. apply slot_eqb_eq. reflexivity. Qed.

Lemma owner_transfer s s' sl :
  (forall t, is_owner_pc (get_pc (pcs s) t) -> get_pc (pcs s') t = get_pc (pcs s) t) ->
  owner s sl -> owner s' sl.
Proof.
  intros H O. destruct sl as [t|cn]; cbn [owner] in *.
  - destruct O as (k & E). exists k. rewrite H; [exact E|]. left. exists k. exact E.
  - destruct O as (t & k & E). exists t, k. rewrite H; [exact E|]. right. exists k, cn. exact E.
Qed.

Lemma map_fst_filter_slot sl (h : list (slot * key)) :
  map fst (filter (fun x => negb (slot_eqb (fst x) sl)) h) =
  filter (fun x => negb (slot_eqb x sl)) (map fst h).
Proof.
  induction h as [|[a k] h IH]; cbn [filter map fst]; [reflexivity|].
  destruct (slot_eqb a sl); cbn [negb map fst]; rewrite IH; reflexivity.
Qed.

(* ---- closed is monotone ------------------------------------------------------------------------ *)

Lemma proceed_closed c s t k : closed (proceed c s t k) = closed s.
Proof. unfold proceed. destruct (take_idle k (idle s)) as [[cn rest]|]; reflexivity. Qed.

Lemma release_waiter_closed c s order s' : release_waiter c s order = Some s' -> closed s' = closed s.
Proof.
  unfold release_waiter. destruct (covers order (waiters s)); [|discriminate]. intros [= <-].
  destruct (release_loop_frame c order s) as (_ & _ & _ & X & _). exact X.
Qed.

Lemma release_acquired_closed c s sl order s' : release_acquired c s sl order = Some s' -> closed s' = closed s.
Proof.
  unfold release_acquired. destruct (closed s) eqn:E; [intros [= <-]; exact E|].
  intro H. apply release_waiter_closed in H. rewrite H. exact E.
Qed.

Lemma start_tail_closed c s t k s' : start_tail c s t k = Some s' -> closed s' = closed s.
Proof.
  unfold start_tail. destruct (connect_must_wait _); [|intros [= <-]; apply proceed_closed].
  destruct (refuse_wait s); intros [= <-]; reflexivity.
Qed.

Lemma requeue_closed c s1 t k order s' : requeue c s1 t k order = Some s' -> closed s' = closed s1.
Proof.
  unfold requeue. destruct (hand_on c s1 order) as [s2|] eqn:Eh; [|discriminate].
  destruct (hand_on_frame _ _ _ _ Eh) as (_ & _ & _ & D & _).
  destruct (refuse_wait s2); intros [= <-]; exact D.
Qed.

Lemma step_closed c s e s' : step c s e = Some s' -> closed s' = false -> closed s = false.
Proof.
  intros H Hc. destruct e as [t k|t order|t|t|t order|t cl order|]; cbn [step] in H.
  - destruct (get_pc (pcs s) t); try discriminate.
    destruct (if connect_fast_path (avail c s k) then take_idle k (idle s) else None);
      [injection H as <-; rewrite proceed_closed in Hc; exact Hc|].
    rewrite (start_tail_closed _ _ _ _ _ H) in Hc. exact Hc.
  - destruct (get_pc (pcs s) t) as [| k f | | | | |]; try discriminate. destruct f; try discriminate.
    + destruct (wait_slot_found _); [injection H as <-; rewrite proceed_closed in Hc; exact Hc|].
      rewrite (requeue_closed _ _ _ _ _ _ H) in Hc. exact Hc.
    + injection H as <-. exact Hc.
    + destruct (release_waiter c _ order) as [s2|] eqn:Er; [|discriminate]. injection H as <-.
      apply release_waiter_closed in Er. cbn [with_pc closed] in Hc. rewrite Er in Hc. exact Hc.
  - destruct (get_pc (pcs s) t) as [| k f | | | | |]; try discriminate.
    destruct f; try discriminate; injection H as <-; exact Hc.
  - destruct (get_pc (pcs s) t); try discriminate. destruct (closed s) eqn:E; [|reflexivity].
    injection H as <-. cbn in Hc. congruence.
  - destruct (get_pc (pcs s) t); try discriminate.
    destruct (release_acquired c s (SPh t) order) as [s1|] eqn:Er; [|discriminate]. injection H as <-.
    apply release_acquired_closed in Er. cbn [with_pc closed] in Hc. congruence.
  - destruct (get_pc (pcs s) t) as [| | | k cn | | |]; try discriminate.
    destruct (closed s) eqn:E; [|reflexivity]. injection H as <-. cbn in Hc. congruence.
  - destruct (closed s) eqn:E; injection H as <-; [congruence|]. cbn in Hc. discriminate.
Qed.

(* ---- preservation ------------------------------------------------------------------------------ *)

Lemma not_owner_other s t p t' :
  ~ is_owner_pc (get_pc (pcs s) t) -> is_owner_pc (get_pc (pcs s) t') ->
  get_pc (set_pc (pcs s) t p) t' = get_pc (pcs s) t'.
Proof. intros Hn Ho. apply get_set_other. intro; subst. contradiction. Qed.

(* a task without owner pc takes a new slot *)
Lemma owned_add c s t k sl p :
  owned c s -> closed s = false -> ~ is_owner_pc (get_pc (pcs s) t) ->
  (owner (with_pc s t p) sl) ->
  owned c (with_pc (add_slot c s sl k) t p).
Proof.
  intros O Hc Hn Hsl _. destruct (O Hc) as (O1 & O2). split.
  - cbn [with_pc add_slot acquired]. intros sl' [<-|Hin].
    + destruct sl as [u|cn]; cbn [owner with_pc pcs] in *; exact Hsl.
    + eapply owner_transfer; [|apply O1; exact Hin]. intros t' Ho. cbn [with_pc add_slot pcs].
      apply not_owner_other; assumption.
  - cbn [with_pc add_slot hostacq acquired]. destruct (per_host c); [|exact O2].
    cbn [map fst]. rewrite O2. reflexivity.
Qed.

Lemma owned_same c s s' :
  acquired s' = acquired s -> hostacq s' = hostacq s -> closed s' = closed s ->
  (forall t, is_owner_pc (get_pc (pcs s) t) -> get_pc (pcs s') t = get_pc (pcs s) t) ->
  owned c s -> owned c s'.
Proof.
  intros Ea Eh Ec Hp O Hc. rewrite Ec in Hc. destruct (O Hc) as (O1 & O2). rewrite Ea, Eh. split; [|exact O2].
  intros sl Hin. eapply owner_transfer; [exact Hp|]. apply O1. exact Hin.
Qed.

Lemma proceed_owned c s t k :
  owned c s -> ~ is_owner_pc (get_pc (pcs s) t) -> owned c (proceed c s t k).
Proof.
  intros O Hn Hc'. rewrite proceed_closed in Hc'. revert Hc'. unfold proceed.
  destruct (take_idle k (idle s)) as [[cn rest]|]; intro Hc.
  - assert (O' : owned c (with_idle s rest)).
    { eapply (owned_same c s); [reflexivity|reflexivity|reflexivity|intros; reflexivity|exact O]. }
    apply (owned_add c (with_idle s rest) t k (SConn cn) (PHolding k cn) O' Hc Hn).
    + cbn [owner with_pc pcs]. exists t, k. apply get_set_same.
    + exact Hc.
  - apply (owned_add c s t k (SPh t) (PCreating k) O Hc Hn).
    + cbn [owner with_pc pcs]. exists k. apply get_set_same.
    + exact Hc.
Qed.

Lemma owner_pc_no_live s t :
  coh s -> is_owner_pc (get_pc (pcs s) t) -> forall k, ~ In (t, k, false) (waiters s).
Proof.
  intros (C1 & _) Ho k Hin. rewrite (C1 _ _ _ Hin) in Ho.
  destruct Ho as [(k' & E)|(k' & cn & E)]; discriminate.
Qed.

Lemma start_tail_owned c s t k s' :
  owned c s -> ~ is_owner_pc (get_pc (pcs s) t) -> start_tail c s t k = Some s' -> owned c s'.
Proof.
  intros O Hn H. unfold start_tail in H.
  destruct (connect_must_wait _); [|injection H as <-; apply proceed_owned; assumption].
  destruct (refuse_wait s); injection H as <-;
    (eapply (owned_same c s); [reflexivity|reflexivity|reflexivity| |exact O];
     intros t' Ho; cbn [with_pc with_waiters pcs]; apply not_owner_other; assumption).
Qed.

Lemma requeue_owned c s1 t k order s' :
  coh s1 -> owned c s1 -> ~ is_owner_pc (get_pc (pcs s1) t) -> requeue c s1 t k order = Some s' -> owned c s'.
Proof.
  intros C1 O Hn H. unfold requeue in H. destruct (hand_on c s1 order) as [s2|] eqn:Eh; [|discriminate].
  destruct (hand_on_frame _ _ _ _ Eh) as (A & B & _ & D & _). destruct (hand_on_facts _ _ _ _ Eh) as (_ & _ & F3).
  assert (P : forall t', is_owner_pc (get_pc (pcs s1) t') -> t' <> t /\ get_pc (pcs s2) t' = get_pc (pcs s1) t').
  { intros t' Ho. split; [intro; subst; contradiction|]. apply F3. apply (owner_pc_no_live s1 t' C1 Ho). }
  destruct (refuse_wait s2); injection H as <-;
    (eapply (owned_same c s1); [exact A|exact B|exact D| |exact O];
     intros t' Ho; destruct (P t' Ho) as (Hne & E); cbn [with_pc with_waiters pcs];
     rewrite get_set_other by exact Hne; exact E).
Qed.

Lemma step_owned c s e s' : coh s -> owned c s -> step c s e = Some s' -> owned c s'.
Proof.
  intros C O H Hc'. pose proof (step_closed _ _ _ _ H Hc') as Hc. revert Hc'.
  destruct e as [t k|t order|t|t|t order|t cl order|]; cbn [step] in H.
  - (* EStart *)
    destruct (get_pc (pcs s) t) eqn:Ep; try discriminate.
    assert (Hn : ~ is_owner_pc (get_pc (pcs s) t)).
    { rewrite Ep. intros [(k' & E)|(k' & cn & E)]; discriminate. }
    destruct (if connect_fast_path (avail c s k) then take_idle k (idle s) else None);
      [injection H as <-; apply proceed_owned; assumption|].
    eapply start_tail_owned; eauto.
  - (* EResume *)
    destruct (get_pc (pcs s) t) as [| k f | | | | |] eqn:Ep; try discriminate.
    assert (Hn : ~ is_owner_pc (get_pc (pcs s) t)).
    { rewrite Ep. intros [(k' & E)|(k' & cn & E)]; discriminate. }
    destruct f; try discriminate.
    + set (s1 := with_woken s (filter (fun x => negb (x =? t)) (woken s))) in *.
      assert (O1 : owned c s1) by (eapply (owned_same c s); [reflexivity|reflexivity|reflexivity|intros; reflexivity|exact O]).
      destruct (wait_slot_found _); [injection H as <-; apply proceed_owned; assumption|].
      assert (C1 : coh s1).
      { destruct C as (A & B & D & E). unfold coh, s1. cbn [with_woken waiters woken pcs]. repeat split; auto.
        - intros t' Hin. apply filter_In in Hin as [Hin _]. apply D. exact Hin.
        - apply NoDup_filter. exact E. }
      eapply (requeue_owned c s1); eauto.
    + injection H as <-. eapply (owned_same c s); [reflexivity|reflexivity|reflexivity| |exact O].
      intros t' Ho. cbn [with_pc with_waiters pcs]. apply not_owner_other; assumption.
    + set (s1 := with_woken s (filter (fun x => negb (x =? t)) (woken s))) in *.
      destruct (release_waiter c s1 order) as [s2|] eqn:Er; [|discriminate]. injection H as <-.
      destruct (release_waiter_facts _ _ _ _ Er) as (_ & _ & F3).
      unfold release_waiter in Er. destruct (covers order (waiters s1)); [|discriminate]. injection Er as <-.
      destruct (release_loop_frame c order s1) as (A & B & _ & D & _).
      eapply (owned_same c s); [| | | |exact O].
      * cbn [with_pc acquired]. rewrite A. reflexivity.
      * cbn [with_pc hostacq]. rewrite B. reflexivity.
      * cbn [with_pc closed]. rewrite D. reflexivity.
      * intros t' Ho. cbn [with_pc pcs]. rewrite get_set_other by (intro; subst; contradiction).
        apply F3. apply (owner_pc_no_live s t' C Ho).
  - (* ECancel *)
    destruct (get_pc (pcs s) t) as [| k f | | | | |] eqn:Ep; try discriminate.
    assert (Hn : ~ is_owner_pc (get_pc (pcs s) t)).
    { rewrite Ep. intros [(k' & E)|(k' & cn & E)]; discriminate. }
    destruct f; try discriminate; injection H as <-;
      (eapply (owned_same c s); [reflexivity|reflexivity|reflexivity| |exact O];
       intros t' Ho; cbn [with_pc with_waiters pcs]; apply not_owner_other; assumption).
  - (* ECreateOk *)
    destruct (get_pc (pcs s) t) eqn:Ep; try discriminate. rewrite Hc in H. injection H as <-. intros _.
    destruct (O Hc) as (O1 & O2). split.
    + cbn [with_pc swap_slot bump_conn acquired]. intros sl Hin.
      apply in_map_iff in Hin as (x & Ex & Hin). unfold replace_slot in Ex.
      destruct (slot_eqb x (SPh t)) eqn:Es.
      * subst sl. cbn [owner with_pc pcs]. exists t, k. apply get_set_same.
      * subst sl. specialize (O1 x Hin). destruct x as [u|cn]; cbn [owner with_pc pcs] in *.
        -- destruct O1 as (k' & E). exists k'. rewrite get_set_other; [exact E|].
           intro; subst u. rewrite slot_eqb_refl in Es. discriminate.
        -- destruct O1 as (u & k' & E). exists u, k'. rewrite get_set_other; [exact E|].
           intro; subst u. congruence.
    + cbn [with_pc swap_slot bump_conn acquired hostacq]. destruct (per_host c).
      * rewrite map_map. cbn [fst]. rewrite <- O2. rewrite map_map. reflexivity.
      * rewrite O2. reflexivity.
  - (* ECreateFail *)
    destruct (get_pc (pcs s) t) eqn:Ep; try discriminate.
    destruct (release_acquired c s (SPh t) order) as [s1|] eqn:Er; [|discriminate]. injection H as <-.
    intros _. unfold release_acquired in Er. rewrite Hc in Er.
    destruct (release_waiter_facts _ _ _ _ Er) as (_ & _ & F3).
    unfold release_waiter in Er. destruct (covers order _); [|discriminate]. injection Er as <-.
    destruct (release_loop_frame c order (del_slot s (SPh t))) as (A & B & _).
    destruct (O Hc) as (O1 & O2). split.
    + cbn [with_pc acquired]. rewrite A. cbn [del_slot acquired]. intros sl Hin.
      apply filter_In in Hin as [Hin Hne]. specialize (O1 sl Hin).
      destruct sl as [u|cn]; cbn [owner with_pc pcs] in *.
      * destruct O1 as (k' & E). exists k'.
        assert (u <> t) by (intro; subst u; rewrite slot_eqb_refl in Hne; discriminate).
        rewrite get_set_other by assumption. rewrite F3; [exact E|].
        cbn [del_slot waiters]. apply (owner_pc_no_live s u C). left. exists k'. exact E.
      * destruct O1 as (u & k' & E). exists u, k'.
        assert (u <> t) by (intro; subst u; congruence).
        rewrite get_set_other by assumption. rewrite F3; [exact E|].
        cbn [del_slot waiters]. apply (owner_pc_no_live s u C). right. exists k', cn. exact E.
    + cbn [with_pc acquired hostacq]. rewrite A, B. cbn [del_slot acquired hostacq]. destruct (per_host c).
      * rewrite map_fst_filter_slot. rewrite O2. reflexivity.
      * rewrite O2. reflexivity.
  - (* ERelease *)
    destruct (get_pc (pcs s) t) as [| | | k cn0 | | |] eqn:Ep; try discriminate. rewrite Hc in H.
    destruct (release_acquired c s (SConn cn0) order) as [s1|] eqn:Er; [|discriminate]. injection H as <-.
    unfold release_acquired in Er. rewrite Hc in Er.
    destruct (release_waiter_facts _ _ _ _ Er) as (_ & _ & F3).
    unfold release_waiter in Er. destruct (covers order _); [|discriminate]. injection Er as <-.
    destruct (release_loop_frame c order (del_slot s (SConn cn0))) as (A & B & _).
    destruct (O Hc) as (O1 & O2).
    assert (G : (forall sl, In sl (filter (fun x => negb (slot_eqb x (SConn cn0))) (acquired s)) ->
                 owner (with_pc (release_loop c (del_slot s (SConn cn0)) order) t PDone) sl)).
    { intros sl Hin. apply filter_In in Hin as [Hin Hne]. specialize (O1 sl Hin).
      destruct sl as [u|cn]; cbn [owner with_pc pcs] in *.
      * destruct O1 as (k' & E). exists k'.
        assert (u <> t) by (intro; subst u; congruence).
        rewrite get_set_other by assumption. rewrite F3; [exact E|].
        cbn [del_slot waiters]. apply (owner_pc_no_live s u C). left. exists k'. exact E.
      * destruct O1 as (u & k' & E). exists u, k'.
        assert (u <> t).
        { intro; subst u. rewrite Ep in E. injection E as _ <-. rewrite slot_eqb_refl in Hne. discriminate. }
        rewrite get_set_other by assumption. rewrite F3; [exact E|].
        cbn [del_slot waiters]. apply (owner_pc_no_live s u C). right. exists k', cn. exact E. }
    intros _. destruct (force_close c || cl).
    + split.
      * cbn [with_pc with_closedc acquired]. rewrite A. exact G.
      * cbn [with_pc with_closedc acquired hostacq]. rewrite A, B. cbn [del_slot acquired hostacq].
        destruct (per_host c); [rewrite map_fst_filter_slot, O2; reflexivity|rewrite O2; reflexivity].
    + split.
      * cbn [with_pc with_idle acquired]. rewrite A. exact G.
      * cbn [with_pc with_idle acquired hostacq]. rewrite A, B. cbn [del_slot acquired hostacq].
        destruct (per_host c); [rewrite map_fst_filter_slot, O2; reflexivity|rewrite O2; reflexivity].
  - (* EClose *)
    rewrite Hc in H. injection H as <-. cbn [closed]. discriminate.
Qed.

Lemma owned_init c : owned c init.
Proof. intros _. cbn. split; [intros sl []|]. destruct (per_host c); reflexivity. Qed.

Lemma run_coh_owned c : forall tr s s',
  coh s -> owned c s -> run c s tr = Some s' -> coh s' /\ owned c s'.
Proof.
  induction tr as [|e r IH]; intros s s' C O H; cbn [run] in H.
  - injection H as <-. split; assumption.
  - destruct (step c s e) as [s1|] eqn:Es; [|discriminate]. eapply IH; [| |exact H].
    + eapply step_coh; eauto.
    + eapply step_owned; eauto.
Qed.

(* terminal = the request is over (released, failed or cancelled) or never started *)
Definition terminal (p : pc) : Prop :=
  p = PIdle \/ p = PDone \/ p = PFailed \/ p = PCancelled.

(* a request that is only waiting does not count as in use either *)
Definition not_in_use (p : pc) : Prop :=
  match p with PCreating _ | PHolding _ _ => False | _ => True end.

Lemma no_leak c tr s :
  run c init tr = Some s -> closed s = false ->
  (forall t, not_in_use (get_pc (pcs s) t)) ->
  acquired s = [] /\ hostacq s = [].
Proof.
  intros H Hc Hall. destruct (run_coh_owned c tr init s coh_init (owned_init c) H) as (_ & O).
  destruct (O Hc) as (O1 & O2).
  assert (E : acquired s = []).
  { destruct (acquired s) as [|sl l]; [reflexivity|]. exfalso.
    specialize (O1 sl (or_introl eq_refl)). destruct sl as [t|cn]; cbn [owner] in O1.
    - destruct O1 as (k & E). specialize (Hall t). rewrite E in Hall. exact Hall.
    - destruct O1 as (t & k & E). specialize (Hall t). rewrite E in Hall. exact Hall. }
  split; [exact E|]. destruct (per_host c); [|exact O2].
  rewrite E in O2. destruct (hostacq s); [reflexivity|discriminate].
Qed.

(* every counted slot belongs to a request that is being established or holds its connection *)
Lemma counted_has_owner c tr s sl :
  run c init tr = Some s -> closed s = false -> In sl (acquired s) -> owner s sl.
Proof.
  intros H Hc Hin. destruct (run_coh_owned c tr init s coh_init (owned_init c) H) as (_ & O).
  destruct (O Hc) as (O1 & _). apply O1. exact Hin.
Qed.
