(* BodyPartReader._align_base64_chunk: a chunk handed back before the end of the part ends on a quartet
   edge PROVIDED it holds at least four base64 characters; a shorter chunk is returned as it is, which is the
   defect replayed by corpus/C19/base64_short_read.json (the refutation witness below). *)
From AV Require Import Lib.Base Generated.MultipartGen Model.Multipart Proofs.MultipartStream.
From Coq Require Import ZifyBool ZifyN ZifyNat.
Open Scope N_scope.
Ltac Zify.zify_post_hook ::= Z.to_euclidean_division_equations.

Lemma count_b64_app a b : count_b64 (a ++ b) = count_b64 a + count_b64 b.
Proof. unfold count_b64. rewrite filter_app, lenN_app. reflexivity. Qed.

Lemma count_b64_cons c l : count_b64 (c :: l) = (if base64_char c then 1 else 0) + count_b64 l.
Proof. unfold count_b64. cbn [filter]. destruct (base64_char c); [rewrite lenN_cons|]; lia. Qed.

Lemma count_b64_nil : count_b64 [] = 0.
Proof. reflexivity. Qed.

Lemma count_b64_rev l : count_b64 (rev l) = count_b64 l.
Proof.
  induction l as [|c l IH]; [reflexivity|]. cbn [rev].
  rewrite count_b64_app, IH, (count_b64_cons c []), (count_b64_cons c l), count_b64_nil. lia.
Qed.

(* walking back over [left] base64 characters of r stops after a prefix of r that holds exactly [left] of them *)
Lemma walk_back_spec : forall r left taken,
  left <= count_b64 r ->
  exists k, (k <= length r)%nat /\ walk_back r left taken = taken + N.of_nat k /\ count_b64 (firstn k r) = left.
Proof.
  induction r as [|c r IH]; intros left taken H.
  - unfold count_b64 in H. cbn in H. assert (left = 0) by lia. subst. exists 0%nat. cbn. repeat split; lia.
  - cbn [walk_back]. destruct (left =? 0) eqn:L0.
    + apply N.eqb_eq in L0. subst. exists 0%nat. cbn. repeat split; lia.
    + apply N.eqb_neq in L0. rewrite count_b64_cons in H. destruct (base64_char c) eqn:B.
      * destruct (IH (left - 1) (taken + 1)) as (k & K1 & K2 & K3); [lia|].
        exists (S k). cbn [length firstn]. rewrite count_b64_cons, B, K2, K3. repeat split; lia.
      * destruct (IH left (taken + 1)) as (k & K1 & K2 & K3); [lia|].
        exists (S k). cbn [length firstn]. rewrite count_b64_cons, B, K2, K3. repeat split; lia.
Qed.

Lemma takeb_rev_skipn (l : bytes) k : (k <= length l)%nat ->
  takeb (lenN l - N.of_nat k) l = rev (skipn k (rev l)).
Proof.
  intro H. unfold takeb, lenN. replace (N.to_nat (N.of_nat (length l) - N.of_nat k)) with (length l - k)%nat by lia.
  rewrite skipn_rev, rev_involutive. reflexivity.
Qed.

Definition at_end (p : part) : bool :=
  p_at_eof p || match p_length p with Some l => l <=? p_read_bytes p | None => false end.

Definition align_tail (chunk1 : bytes) (p1 : part) : bytes * part :=
  let remainder := count_b64 chunk1 mod 4 in
  if (remainder =? 0) || false then (chunk1, p1) else
  let cut := lenN chunk1 - walk_back (rev chunk1) remainder 0 in
  if cut =? 0 then (chunk1, p1)
  else (takeb cut chunk1, p_set_carry (dropb cut chunk1 ++ p_carry p1) p1).

Lemma align_base64_eq chunk size p :
  at_end p = false ->
  align_base64 chunk size p =
  if size <? lenN chunk then align_tail (takeb size chunk) (p_set_carry (dropb size chunk) p) else align_tail chunk p.
Proof.
  intro AE. unfold align_base64. fold (at_end p). rewrite AE. cbn [negb andb].
  destruct (size <? lenN chunk); reflexivity.
Qed.

Lemma align_tail_quartets chunk1 p1 c p' :
  align_tail chunk1 p1 = (c, p') -> 4 <= count_b64 c -> count_b64 c mod 4 = 0.
Proof.
  unfold align_tail. cbv zeta. rewrite orb_false_r.
  destruct (count_b64 chunk1 mod 4 =? 0) eqn:R0.
  - intro H. inversion H; subst. intros _. apply N.eqb_eq in R0. exact R0.
  - apply N.eqb_neq in R0.
    assert (RL : count_b64 chunk1 mod 4 <= count_b64 (rev chunk1)). { rewrite count_b64_rev. lia. }
    destruct (walk_back_spec (rev chunk1) (count_b64 chunk1 mod 4) 0 RL) as (k & K1 & K2 & K3).
    rewrite rev_length in K1. rewrite K2. rewrite N.add_0_l.
    assert (SK : count_b64 (rev (skipn k (rev chunk1))) = count_b64 chunk1 - count_b64 chunk1 mod 4).
    { rewrite count_b64_rev.
      assert (E : count_b64 (rev chunk1) = count_b64 (firstn k (rev chunk1)) + count_b64 (skipn k (rev chunk1))).
      { rewrite <- count_b64_app, firstn_skipn. reflexivity. }
      rewrite count_b64_rev, K3 in E. lia. }
    destruct (lenN chunk1 - N.of_nat k =? 0) eqn:C0.
    + intro H. inversion H; subst. intro G. exfalso.
      apply N.eqb_eq in C0. assert (k = length c) by (unfold lenN in C0; lia). subst k.
      rewrite skipn_all2 in SK by (rewrite rev_length; lia). cbn [rev] in SK. rewrite count_b64_nil in SK. lia.
    + intro H. inversion H; subst. intros _. rewrite (takeb_rev_skipn chunk1 k K1), SK. lia.
Qed.

Theorem align_base64_quartets chunk size p c p' :
  align_base64 chunk size p = (c, p') -> at_end p = false -> 4 <= count_b64 c -> count_b64 c mod 4 = 0.
Proof.
  intros H AE. rewrite (align_base64_eq _ _ _ AE) in H.
  destruct (size <? lenN chunk); eapply align_tail_quartets; exact H.
Qed.

(* the refutation: a base64 part whose first stream read returns one content byte *)
Definition b64_part : part := new_part [45; 45; 66; 78; 68] None true 4611686018427387903.
Definition b64_stream : stream :=
  mkStream [89] [(1000000, [87; 74; 106; 90; 71; 86; 109; 13; 10; 45; 45; 66; 78; 68; 45; 45; 13; 10])] false true 65536 131072.

Theorem base64_alignment_refuted :
  exists p s d p' s', p_b64 p = true /\ read_chunk chunk_size p s = Ok (d, p', s') /\
                      p_at_eof p' = false /\ d = [89] /\ count_b64 d mod 4 = 1.
Proof.
  exists b64_part, b64_stream. eexists. eexists. eexists.
  split; [reflexivity|]. split; [vm_compute; reflexivity|]. split; [reflexivity|]. split; reflexivity.
Qed.
