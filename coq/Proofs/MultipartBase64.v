(* BodyPartReader._align_base64_chunk: a chunk handed back before the end of the part ends on a quartet edge, unless
   the requested number of bytes was there and held no whole quartet.  After a short read the partial quartet is
   carried and read_chunk reads on (fix 75d1fb0; regression case corpus/C19/fixed-base64_short_read.json). *)
From AV Require Import Lib.Base Generated.MultipartGen Model.Multipart Proofs.MultipartStream.
From Coq Require Import ZifyBool ZifyN ZifyNat.
Open Scope N_scope.
Ltac Zify.zify_post_hook ::= Z.to_euclidean_division_equations.

Lemma count_b64_app a b : count_b64 (a ++ b) = count_b64 a + count_b64 b.
Proof. unfold count_b64. rewrite filter_app, lenN_app. reflexivity. Qed.

Lemma count_b64_cons c l : count_b64 (c :: l) = (if base64_char c then 1 else 0) + count_b64 l.
Proof. unfold count_b64. cbn [filter]. destruct (base64_char c); [rewrite lenN_cons|]; lia. Qed.

Lemma count_b64_nil : count_b64 [] = 0.
Proof. reflexivity. Qed.

Lemma count_b64_rev l : count_b64 (rev l) = count_b64 l.
Proof.
  induction l as [|c l IH]; [reflexivity|]. cbn [rev].
  rewrite count_b64_app, IH, (count_b64_cons c []), (count_b64_cons c l), count_b64_nil. lia.
Qed.

(* walking back over [left] base64 characters of r stops after a prefix of r that holds exactly [left] of them *)
Lemma walk_back_spec : forall r left taken,
  left <= count_b64 r ->
  exists k, (k <= length r)%nat /\ walk_back r left taken = taken + N.of_nat k /\ count_b64 (firstn k r) = left.
Proof.
  induction r as [|c r IH]; intros left taken H.
  - unfold count_b64 in H. cbn in H. assert (left = 0) by lia. subst. exists 0%nat. cbn. repeat split; lia.
  - cbn [walk_back]. destruct (left =? 0) eqn:L0.
    + apply N.eqb_eq in L0. subst. exists 0%nat. cbn. repeat split; lia.
    + apply N.eqb_neq in L0. rewrite count_b64_cons in H. destruct (base64_char c) eqn:B.
      * destruct (IH (left - 1) (taken + 1)) as (k & K1 & K2 & K3); [lia|].
        exists (S k). cbn [length firstn]. rewrite count_b64_cons, B, K2, K3. repeat split; lia.
      * destruct (IH left (taken + 1)) as (k & K1 & K2 & K3); [lia|].
        exists (S k). cbn [length firstn]. rewrite count_b64_cons, B, K2, K3. repeat split; lia.
Qed.

Lemma takeb_rev_skipn (l : bytes) k : (k <= length l)%nat ->
  takeb (lenN l - N.of_nat k) l = rev (skipn k (rev l)).
Proof.
  intro H. unfold takeb, lenN. replace (N.to_nat (N.of_nat (length l) - N.of_nat k)) with (length l - k)%nat by lia.
  rewrite skipn_rev, rev_involutive. reflexivity.
Qed.

Definition at_end (p : part) : bool :=
  p_at_eof p || match p_length p with Some l => l <=? p_read_bytes p | None => false end.

Definition align_tail (size : N) (chunk1 : bytes) (p1 : part) : bytes * part :=
  let remainder := count_b64 chunk1 mod 4 in
  if (remainder =? 0) || false then (chunk1, p1) else
  let cut := lenN chunk1 - walk_back (rev chunk1) remainder 0 in
  if cut =? 0 then
    if lenN chunk1 <? size then ([], p_set_carry (chunk1 ++ p_carry p1) p1) else (chunk1, p1)
  else (takeb cut chunk1, p_set_carry (dropb cut chunk1 ++ p_carry p1) p1).

Lemma align_base64_eq chunk size p :
  at_end p = false ->
  align_base64 chunk size p =
  if size <? lenN chunk then align_tail size (takeb size chunk) (p_set_carry (dropb size chunk) p) else align_tail size chunk p.
Proof.
  intro AE. unfold align_base64. fold (at_end p). rewrite AE. cbn [negb andb].
  destruct (size <? lenN chunk); reflexivity.
Qed.

(* the chunk handed back ends on a quartet edge, except when the requested number of bytes was there and held no
   whole quartet (then it is handed back as it is: carrying it would make no progress) *)
Lemma align_tail_quartets size chunk1 p1 c p' :
  align_tail size chunk1 p1 = (c, p') -> count_b64 c mod 4 = 0 \/ (size <= lenN c /\ count_b64 c < 4).
Proof.
  unfold align_tail. cbv zeta. rewrite orb_false_r.
  destruct (count_b64 chunk1 mod 4 =? 0) eqn:R0.
  - intro H. inversion H; subst. left. apply N.eqb_eq in R0. exact R0.
  - apply N.eqb_neq in R0.
    assert (RL : count_b64 chunk1 mod 4 <= count_b64 (rev chunk1)). { rewrite count_b64_rev. lia. }
    destruct (walk_back_spec (rev chunk1) (count_b64 chunk1 mod 4) 0 RL) as (k & K1 & K2 & K3).
    rewrite rev_length in K1. rewrite K2. rewrite N.add_0_l.
    assert (SK : count_b64 (rev (skipn k (rev chunk1))) = count_b64 chunk1 - count_b64 chunk1 mod 4).
    { rewrite count_b64_rev.
      assert (E : count_b64 (rev chunk1) = count_b64 (firstn k (rev chunk1)) + count_b64 (skipn k (rev chunk1))).
      { rewrite <- count_b64_app, firstn_skipn. reflexivity. }
      rewrite count_b64_rev, K3 in E. lia. }
    destruct (lenN chunk1 - N.of_nat k =? 0) eqn:C0.
    + destruct (lenN chunk1 <? size) eqn:SH; intro H; inversion H; subst.
      * left. reflexivity.
      * right. split; [lia|].
        apply N.eqb_eq in C0. assert (k = length c) by (unfold lenN in C0; lia). subst k.
        rewrite skipn_all2 in SK by (rewrite rev_length; lia). cbn [rev] in SK. rewrite count_b64_nil in SK. lia.
    + intro H. inversion H; subst. left. rewrite (takeb_rev_skipn chunk1 k K1), SK. lia.
Qed.

Theorem align_base64_quartets chunk size p c p' :
  align_base64 chunk size p = (c, p') -> at_end p = false ->
  count_b64 c mod 4 = 0 \/ (size <= lenN c /\ count_b64 c < 4).
Proof.
  intros H AE. rewrite (align_base64_eq _ _ _ AE) in H.
  destruct (size <? lenN chunk); eapply align_tail_quartets; exact H.
Qed.

(* the former refutation witness (first stream read = one content byte of a base64 part): read_chunk now waits for
   the rest of the quartet *)
Definition b64_part : part := new_part [45; 45; 66; 78; 68] None true 4611686018427387903.
Definition b64_stream : stream :=
  mkStream [89] [(1000000, [87; 74; 106; 90; 71; 86; 109; 13; 10; 45; 45; 66; 78; 68; 45; 45; 13; 10])] false true 65536 131072.

Lemma base64_short_read_example :
  exists d p' s', read_chunk chunk_size b64_part b64_stream = Ok (d, p', s') /\ d <> [] /\ count_b64 d mod 4 = 0.
Proof. eexists. eexists. eexists. split; [vm_compute; reflexivity|]. split; [discriminate|reflexivity]. Qed.
