(* C18 — per-request timer invariant of Model/Timeouts: every armed deadline lies ahead (urgency), and
   every timer that the configuration asks for is armed, with the generated deadline, in exactly the
   phases it covers. *)
From Coq Require Import ZArith Lia Bool List.
From AV Require Import Lib.Base Generated.TimeoutsGen Model.Timeouts Proofs.TimeoutsArith Proofs.TimeoutsEff
  Proofs.TimeoutsInv.
Open Scope Z_scope.

Definition wf_cfg (c : tcfg) : Prop :=
  forall t, c_total c = Some t \/ c_connect c = Some t \/ c_sock_connect c = Some t \/ c_sock_read c = Some t -> 0 <= t.

Definition wf_event (e : event) : Prop := match e with EStart _ c => wf_cfg c | _ => True end.

Record tinv (g : gcfg) (nw : Z) (ts : tstate) : Prop := {
  t_urgent : forall w D, deadline ts w = Some D -> nw <= D;
  t_wf : wf_cfg (cfg ts);
  t_started : live (pcs ts) = true -> started ts <= nw;
  t_sock_started : pcs ts = PConnect -> sock_started ts <= nw;
  t_last_io : has_conn (pcs ts) = true -> last_io ts <= nw;
  t_total : live (pcs ts) = true ->
            d_total (tm ts) = arm_total g (cfg ts) (started ts) \/
            (pcs ts = PBody false /\ latched ts <> None /\ d_total (tm ts) = None);
  t_conn : d_conn (tm ts) = if connecting (pcs ts)
                            then arm_ctx g (c_connect (cfg ts)) (c_thr (cfg ts)) (started ts) else None;
  t_sock : d_sock (tm ts) = match pcs ts with
                            | PConnect => arm_ctx g (c_sock_connect (cfg ts)) (c_thr (cfg ts)) (sock_started ts)
                            | _ => None
                            end;
  t_read : has_conn (pcs ts) = true -> writer ts = false -> paused ts = false ->
           latched ts <> Some FSockRead -> d_read (tm ts) = arm_read (cfg ts) (last_io ts);
  t_read_only : has_conn (pcs ts) = false -> d_read (tm ts) = None;
  t_total_only : live (pcs ts) = false -> d_total (tm ts) = None;
  t_awaiting : awaiting (pcs ts) = true -> latched ts = None /\ paused ts = false
}.

(* ---- arming -------------------------------------------------------------------------------------- *)

Lemma arm_total_ge g c nw D : 0 < u g -> arm_total g c nw = Some D -> nw <= D.
Proof.
  intros Hu. unfold arm_total. destruct (eff_total c) as [t|]; [|discriminate].
  destruct (total_enabled (Some t)) eqn:E; [|discriminate]. intro H. injection H as <-.
  apply total_enabled_iff in E. destruct E as [t' [E P]]. injection E as <-.
  pose proof (total_when_ge (u g) nw t (c_thr c) Hu). lia.
Qed.

Lemma arm_ctx_ge g o thr nw D : 0 < u g -> arm_ctx g o thr nw = Some D -> nw <= D.
Proof.
  intros Hu. unfold arm_ctx. destruct o as [t|]; [|discriminate].
  destruct (ctx_enabled (Some t)) eqn:E; [|discriminate]. intro H. injection H as <-.
  apply ctx_enabled_iff in E. destruct E as [t' [E P]]. injection E as <-.
  pose proof (ctx_when_ge (u g) nw t thr Hu). lia.
Qed.

Lemma arm_read_ge c nw D : wf_cfg c -> arm_read c nw = Some D -> nw <= D.
Proof.
  intros W. unfold arm_read. destruct (c_sock_read c) as [t|] eqn:R; [|discriminate].
  destruct (read_enabled (Some t)); [|discriminate]. intro H. injection H as <-.
  unfold read_when. assert (0 <= t) by (apply W; auto). lia.
Qed.

Lemma tinv_idle g nw : tinv g nw idle_ts.
Proof.
  split; simpl; intros; try discriminate; auto.
  - destruct w; discriminate.
  - intros t [H|[H|[H|H]]]; discriminate.
Qed.

Ltac dl_cases w H :=
  destruct w; simpl in H.

(* ---- time passes --------------------------------------------------------------------------------- *)

Lemma tinv_adv g nw d ts : 0 <= d -> timers_ok (nw + d) ts = true -> tinv g nw ts -> tinv g (nw + d) ts.
Proof.
  intros Hd Ok T. destruct T. split; auto; try (intros; match goal with H : _ |- _ => specialize (H ltac:(assumption)); lia end).
  intros w D E. unfold timers_ok, le_opt in Ok. repeat (apply andb_true_iff in Ok as [Ok ?]).
  destruct w; simpl in E; rewrite E in *; lia.
Qed.

(* ---- the effects ---------------------------------------------------------------------------------- *)

Lemma tinv_failed g nw ts f : tinv g nw ts -> tinv g nw (failed ts f nw).
Proof.
  intro T. destruct T. split; simpl; intros; try discriminate; auto.
  destruct w; discriminate.
Qed.

Lemma tinv_done g nw ts : tinv g nw ts -> tinv g nw (done_ts ts).
Proof.
  intro T. destruct T. split; simpl; intros; try discriminate; auto.
  destruct w; discriminate.
Qed.

Lemma tinv_recv g nw ts : tinv g nw ts -> tinv g nw (recv_ts ts).
Proof.
  intro T. destruct T. split; simpl; intros; try discriminate; auto.
  destruct w; discriminate.
Qed.

Lemma tinv_ended g nw ts r : tinv g nw ts -> tinv g nw (ended_ts ts r).
Proof. intro T. destruct r; [now apply tinv_done|now apply tinv_recv]. Qed.

Lemma awaiting_total g nw ts : tinv g nw ts -> awaiting (pcs ts) = true ->
  d_total (tm ts) = arm_total g (cfg ts) (started ts).
Proof.
  intros T A. assert (L : live (pcs ts) = true) by (destruct (pcs ts) as [| | | | |[|]| | |]; simpl in *; congruence).
  destruct (t_total _ _ _ T L) as [H|[H _]]; [assumption|]. rewrite H in A. discriminate.
Qed.

(* a request that is establishing its connection (or has just started) is handed a connection *)
Lemma tinv_to_headers g nw ts c :
  0 < u g -> tinv g nw ts -> connecting (pcs ts) = true -> tinv g nw (to_headers ts c nw).
Proof.
  intros Hu T C.
  assert (A : awaiting (pcs ts) = true) by (destruct (pcs ts) as [| | | | |[|]| | |]; simpl in *; congruence).
  assert (L : live (pcs ts) = true) by (destruct (pcs ts) as [| | | | |[|]| | |]; simpl in *; congruence).
  pose proof (awaiting_total _ _ _ T A) as Et. pose proof (t_wf _ _ _ T) as W.
  pose proof (t_started _ _ _ T L) as St.
  pose proof (t_urgent _ _ _ T TTotal) as Ut. simpl in Ut.
  unfold to_headers. destruct (c_block (cfg ts)); split; simpl; intros; try discriminate; auto; try lia;
    try (destruct w; simpl in *; try discriminate; auto; solve [eapply arm_read_ge; eauto]).
Qed.

Lemma tinv_to_connect g nw ts :
  0 < u g -> tinv g nw ts -> connecting (pcs ts) = true -> pcs ts <> PConnect -> tinv g nw (to_connect g ts nw).
Proof.
  intros Hu T C NC.
  assert (A : awaiting (pcs ts) = true) by (destruct (pcs ts) as [| | | | |[|]| | |]; simpl in *; congruence).
  assert (L : live (pcs ts) = true) by (destruct (pcs ts) as [| | | | |[|]| | |]; simpl in *; congruence).
  pose proof (awaiting_total _ _ _ T A) as Et. pose proof (t_wf _ _ _ T) as W.
  pose proof (t_started _ _ _ T L) as St.
  pose proof (t_urgent _ _ _ T TTotal) as Ut. pose proof (t_urgent _ _ _ T TConn) as Uc. simpl in Ut, Uc.
  pose proof (t_conn _ _ _ T) as Ec. rewrite C in Ec.
  destruct (t_awaiting _ _ _ T A) as [La Pa].
  split; simpl; intros; try discriminate; auto; try lia.
  destruct w; simpl in *; try discriminate; auto. eapply arm_ctx_ge; eauto.
Qed.

Lemma tinv_set_pc_connecting g nw ts p :
  tinv g nw ts -> connecting (pcs ts) = true -> pcs ts <> PConnect ->
  connecting p = true -> p <> PConnect -> tinv g nw (set_pc ts p).
Proof.
  intros T C NC Cp NCp.
  assert (A : awaiting (pcs ts) = true) by (destruct (pcs ts) as [| | | | |[|]| | |]; simpl in *; congruence).
  assert (L : live (pcs ts) = true) by (destruct (pcs ts) as [| | | | |[|]| | |]; simpl in *; congruence).
  assert (Ap : awaiting p = true) by (destruct p as [| | | | |[|]| | |]; simpl in *; congruence).
  assert (Lp : live p = true) by (destruct p as [| | | | |[|]| | |]; simpl in *; congruence).
  assert (Hp : has_conn p = false) by (destruct p as [| | | | |[|]| | |]; simpl in *; congruence).
  assert (Hts : has_conn (pcs ts) = false) by (destruct (pcs ts) as [| | | | |[|]| | |]; simpl in *; congruence).
  pose proof (awaiting_total _ _ _ T A) as Et.
  pose proof (t_conn _ _ _ T) as Ec. rewrite C in Ec.
  pose proof (t_sock _ _ _ T) as Es. pose proof (t_urgent _ _ _ T) as U.
  destruct T. split; simpl; intros; auto; try congruence.
  all: try (match goal with H : _ = Some ?D |- _ <= ?D => apply (U w D); exact H end).
  all: try (rewrite ?Cp; assumption).
  all: destruct (pcs ts) as [| | | | |[|]| | |]; destruct p as [| | | | |[|]| | |]; simpl in *; try congruence; auto.
  all: idtac.
Qed.

(* the four outcomes of EStart *)
Lemma tinv_start_base g nw c : 0 < u g -> wf_cfg c ->
  let ts1 := enter_connect g (start_ts g c nw) nw in
  tinv g nw (set_pc ts1 PWaitSlot).
Proof.
  intros Hu W. split; simpl; intros; try discriminate; auto; try lia.
  - destruct w; simpl in *; try discriminate;
      first [solve [eapply arm_total_ge; eauto] | solve [eapply arm_ctx_ge; eauto]].
Qed.

Lemma tinv_start_headers g nw c k : 0 < u g -> wf_cfg c -> tinv g nw (to_headers (start_ts g c nw) k nw).
Proof.
  intros Hu W. unfold to_headers. simpl.
  destruct (c_block c); split; simpl; intros; try discriminate; auto; try lia;
    destruct w; simpl in *; try discriminate;
    first [solve [eapply arm_total_ge; eauto] | solve [eapply arm_read_ge; eauto]].
Qed.

Lemma has_conn_not_connecting p : has_conn p = true -> connecting p = false.
Proof. destruct p as [| | | | |[|]| | |]; simpl; congruence. Qed.

(* updates of a request that holds a connection and keeps its total / connect timers *)
Lemma tinv_conn_update g nw old new :
  tinv g nw old -> has_conn (pcs old) = true -> has_conn (pcs new) = true ->
  cfg new = cfg old -> started new = started old -> d_total (tm new) = d_total (tm old) ->
  d_conn (tm new) = None -> d_sock (tm new) = None ->
  last_io new <= nw ->
  (forall D, d_read (tm new) = Some D -> nw <= D) ->
  (writer new = false -> paused new = false -> latched new <> Some FSockRead -> d_read (tm new) = arm_read (cfg new) (last_io new)) ->
  (pcs new = PBody false -> pcs old = PBody false \/ latched new = None) ->
  (latched new = None -> latched old = None) ->
  (awaiting (pcs new) = true -> latched new = None /\ paused new = false) ->
  tinv g nw new.
Proof.
  intros T Ho Hn Ec Es Et Edc Eds Hio Hur Hrd Hpb Hla Haw.
  pose proof (has_conn_live _ Ho) as Lo. pose proof (has_conn_live _ Hn) as Ln.
  pose proof (has_conn_not_connecting _ Hn) as Cn.
  split; intros; auto; try congruence.
  - destruct w; simpl in H; try congruence; auto.
    rewrite Et in H. apply (t_urgent _ _ _ T TTotal). exact H.
  - rewrite Ec. apply (t_wf _ _ _ T).
  - rewrite Es. apply (t_started _ _ _ T Lo).
  - rewrite H in Hn. discriminate.
  - rewrite Et, Ec, Es. destruct (t_total _ _ _ T Lo) as [X|[X [Y Z]]]; [left; assumption|].
    right. destruct (pcs new) as [| | | | |[|]| | |] eqn:Pn; simpl in *; try discriminate.
    + exfalso. destruct (Haw eq_refl) as [A _]. apply Y. apply Hla. assumption.
    + exfalso. destruct (Haw eq_refl) as [A _]. apply Y. apply Hla. assumption.
    + split; [reflexivity|]. split; [|assumption]. intro A. apply Y. apply Hla. assumption.
  - rewrite Cn. assumption.
  - rewrite Eds. destruct (pcs new) as [| | | | |[|]| | |]; simpl in *; congruence.
Qed.

Lemma tinv_rearm g nw ts : tinv g nw ts -> has_conn (pcs ts) = true -> tinv g nw (rearm_read ts nw).
Proof.
  intros T H. pose proof (has_conn_not_connecting _ H) as C.
  pose proof (t_conn _ _ _ T) as Ec. rewrite C in Ec. pose proof (t_sock _ _ _ T) as Es.
  apply (tinv_conn_update g nw ts); simpl; auto; try lia.
  - destruct (pcs ts) as [| | | | |[|]| | |]; simpl in *; congruence.
  - intros D E. eapply arm_read_ge; [apply (t_wf _ _ _ T)|eassumption].
  - apply (t_awaiting _ _ _ T).
Qed.

Lemma tinv_written g nw ts : tinv g nw ts -> has_conn (pcs ts) = true -> tinv g nw (written_ts ts nw).
Proof.
  intros T H. pose proof (has_conn_not_connecting _ H) as C.
  pose proof (t_conn _ _ _ T) as Ec. rewrite C in Ec. pose proof (t_sock _ _ _ T) as Es.
  apply (tinv_conn_update g nw ts); simpl; auto; try lia.
  - destruct (pcs ts) as [| | | | |[|]| | |]; simpl in *; congruence.
  - intros D E. eapply arm_read_ge; [apply (t_wf _ _ _ T)|eassumption].
  - apply (t_awaiting _ _ _ T).
Qed.

Lemma tinv_head g nw ts : tinv g nw ts -> pcs ts = PHeaders -> tinv g nw (head_ts ts nw).
Proof.
  intros T P.
  pose proof (t_conn _ _ _ T) as Ec. rewrite P in Ec. pose proof (t_sock _ _ _ T) as Es. rewrite P in Es.
  destruct (t_awaiting _ _ _ T) as [La Pa]; [rewrite P; reflexivity|].
  apply (tinv_conn_update g nw ts); simpl; auto; try lia; try (rewrite P; reflexivity); try discriminate.
  intros D E. eapply arm_read_ge; [apply (t_wf _ _ _ T)|eassumption].
Qed.

Lemma tinv_big_read g nw ts : tinv g nw ts -> pcs ts = PBody true -> tinv g nw (big_read_ts ts nw).
Proof.
  intros T P.
  pose proof (t_conn _ _ _ T) as Ec. rewrite P in Ec. pose proof (t_sock _ _ _ T) as Es. rewrite P in Es.
  destruct (t_awaiting _ _ _ T) as [La Pa]; [rewrite P; reflexivity|].
  apply (tinv_conn_update g nw ts); simpl; auto; try lia; rewrite ?P; try reflexivity; try discriminate; auto.
  intros D E. eapply arm_read_ge; [apply (t_wf _ _ _ T)|eassumption].
Qed.

Lemma tinv_big_pause g nw ts : tinv g nw ts -> pcs ts = PBody false -> tinv g nw (big_pause_ts ts).
Proof.
  intros T P.
  pose proof (t_conn _ _ _ T) as Ec. rewrite P in Ec. pose proof (t_sock _ _ _ T) as Es. rewrite P in Es.
  apply (tinv_conn_update g nw ts); simpl; auto; rewrite ?P; try reflexivity; try discriminate; auto.
  - apply (t_last_io _ _ _ T). rewrite P. reflexivity.
Qed.

Lemma tinv_read g nw ts : tinv g nw ts -> pcs ts = PBody false -> latched ts = None -> tinv g nw (read_ts ts nw).
Proof.
  intros T P La.
  pose proof (t_conn _ _ _ T) as Ec. rewrite P in Ec. pose proof (t_sock _ _ _ T) as Es. rewrite P in Es.
  unfold read_ts. destruct (paused ts) eqn:Pa.
  - apply (tinv_conn_update g nw ts); simpl; auto; try lia; rewrite ?P; try reflexivity; try discriminate; auto.
    intros D E. eapply arm_read_ge; [apply (t_wf _ _ _ T)|eassumption].
  - apply (tinv_conn_update g nw ts); simpl; auto; rewrite ?P; try reflexivity; try discriminate; auto.
    + apply (t_last_io _ _ _ T). rewrite P. reflexivity.
    + intros D E. apply (t_urgent _ _ _ T TRead). exact E.
    + intros W _ L. apply (t_read _ _ _ T); auto. rewrite P. reflexivity.
Qed.

Lemma tinv_latch_total g nw ts : tinv g nw ts -> pcs ts = PBody false -> tinv g nw (latch_total_ts ts).
Proof.
  intros T P.
  pose proof (t_conn _ _ _ T) as Ec. rewrite P in Ec. pose proof (t_sock _ _ _ T) as Es. rewrite P in Es.
  destruct T. rewrite P in *. unfold latch_total_ts.
  split; simpl; rewrite ?P; simpl; intros; auto; try discriminate.
  - destruct w; simpl in *; try discriminate; auto.
    + apply (t_urgent0 TConn). assumption.
    + apply (t_urgent0 TSock). assumption.
    + apply (t_urgent0 TRead). assumption.
  - right. split; [reflexivity|]. split; [|reflexivity]. destruct (latched ts) as [[| | | |]|]; discriminate.
  - apply t_read0; auto. destruct (latched ts) as [[| | | |]|]; congruence.
Qed.

Lemma tinv_latch_read g nw ts : tinv g nw ts -> pcs ts = PBody false -> tinv g nw (latch_read_ts ts).
Proof.
  intros T P.
  pose proof (t_conn _ _ _ T) as Ec. rewrite P in Ec. pose proof (t_sock _ _ _ T) as Es. rewrite P in Es.
  destruct T. rewrite P in *. unfold latch_read_ts.
  split; simpl; rewrite ?P; simpl; intros; auto; try discriminate; try congruence.
  - destruct w; simpl in *; try discriminate; auto.
    + apply (t_urgent0 TTotal). assumption.
    + apply (t_urgent0 TConn). assumption.
    + apply (t_urgent0 TSock). assumption.
  - destruct (t_total0 eq_refl) as [X|[_ [_ X]]]; [left; assumption|].
    right. split; [reflexivity|]. split; [discriminate|assumption].
Qed.

(* ---- the step --------------------------------------------------------------------------------------- *)

Lemma option_eq_dec_task (a b : option task) : {a = b} + {a <> b}.
Proof. decide equality. apply N.eq_dec. Qed.

Definition Tinv (g : gcfg) (s : state) : Prop := forall t, tinv g (now s) (tasks s t).

Lemma acquired_form_tinv g nw old new :
  0 < u g -> tinv g nw old -> pcs old = PWaitSlot -> acquired_form g nw old new -> tinv g nw new.
Proof.
  intros Hu T P [[c ->]|[->| ->]].
  - apply tinv_to_headers; auto. rewrite P. reflexivity.
  - apply tinv_to_connect; auto; rewrite P; [reflexivity|discriminate].
  - apply tinv_set_pc_connecting; auto; rewrite ?P; try reflexivity; discriminate.
Qed.

Lemma other_eff_tinv g nw old new : 0 < u g -> tinv g nw old -> other_eff g nw old new -> tinv g nw new.
Proof.
  intros Hu T [->|[[P F]|[P ->]]]; [assumption| |].
  - eapply acquired_form_tinv; eauto.
  - apply tinv_to_connect; auto; rewrite P; [reflexivity|discriminate].
Qed.

Lemma all_timers_ok_In x f l t : all_timers_ok x f l = true -> In t l -> timers_ok x (f t) = true.
Proof.
  induction l as [|y l IH]; simpl; [contradiction|]. intros H [->|I]; apply andb_true_iff in H as [A B]; auto.
Qed.

Lemma step_tinv g s e s' :
  0 < u g -> wf_event e -> Inv s -> Tinv g s -> step g s e = Some s' -> Tinv g s'.
Proof.
  intros Hu W I T H t.
  pose proof (step_now g s e s' H) as Nw.
  destruct (option_eq_dec_task (ev_task e) (Some t)) as [E|N].
  - (* the subject of the event *)
    pose proof (step_own g s e s' t H E) as O.
    assert (Nw' : now s' = now s) by (destruct e; simpl in E; try discriminate; assumption).
    rewrite Nw'. specialize (T t).
    destruct O; subst e; simpl in W;
      repeat match goal with
      | H : exists k, tasks s' t = _ |- _ => destruct H as [? H]
      | H : tasks s' t = _ \/ tasks s' t = _ |- _ => destruct H as [H|H]
      | H : tasks s' t = _ |- _ => rewrite H; clear H
      end.
    + now apply tinv_start_headers.
    + now apply tinv_start_base.
    + change (to_connect g (enter_connect g (start_ts g cf (now s)) (now s)) (now s))
        with (to_connect g (set_pc (enter_connect g (start_ts g cf (now s)) (now s)) PWaitSlot) (now s)).
      apply tinv_to_connect; auto; try (simpl; auto; discriminate). now apply tinv_start_base.
    + change (set_pc (enter_connect g (start_ts g cf (now s)) (now s)) PResolve)
        with (set_pc (set_pc (enter_connect g (start_ts g cf (now s)) (now s)) PWaitSlot) PResolve).
      apply tinv_set_pc_connecting; simpl; auto; try discriminate. now apply tinv_start_base.
    + apply tinv_to_headers; auto. match goal with H : pcs _ = PConnect |- _ => rewrite H end. reflexivity.
    + now apply tinv_written.
    + now apply tinv_rearm.
    + now apply tinv_head.
    + now apply tinv_big_read.
    + now apply tinv_big_pause.
    + now apply tinv_ended.
    + now apply tinv_read.
    + now apply tinv_failed.
    + now apply tinv_done.
    + now apply tinv_failed.
    + now apply tinv_failed.
    + now apply tinv_latch_total.
    + now apply tinv_latch_read.
  - (* every other request *)
    pose proof (step_other g s e s' t (Inv_waiters_wait s I) H N) as O.
    destruct e; try solve [rewrite Nw; eapply other_eff_tinv; eauto].
    (* EAdv: time passes *)
    simpl in H. destruct ((0 <=? d) && all_timers_ok (now s + d) (tasks s) (ids s)) eqn:G; [|discriminate].
    injection H as <-. simpl. apply andb_true_iff in G as [G1 G2]. apply Z.leb_le in G1.
    destruct (i_ids _ _ I t) as [X|X].
    + apply tinv_adv; auto. eapply all_timers_ok_In; eauto.
    + rewrite X. apply tinv_idle.
Qed.
