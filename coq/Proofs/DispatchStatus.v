(* 404 / 405 characterisation of the documented rule, through sub-applications: a 404 does not depend on
   the method, and a 405 lists exactly the methods for which the same path is served. *)
From AV Require Import Lib.Base Generated.DispatchGen Model.Dispatch Proofs.DispatchStrings Proofs.DispatchRule.
From Coq Require Import Arith.
Open Scope N_scope.

Definition methods (r : resource) : list str :=
  match r with
  | RPlain _ rt | RDyn _ _ _ rt | RStatic _ rt => map fst rt
  | _ => []
  end.

(* a leaf resource with at least one route (what add_route / add_static create) *)
Definition leaf (r : resource) : Prop :=
  match r with
  | RPlain _ rt | RDyn _ _ _ rt | RStatic _ rt => rt <> []
  | _ => False
  end.

Definition path_matches (r : resource) (p : str) : bool :=
  match r with
  | RPlain path _ => list_eqb path p
  | RDyn _ _ pat _ => match match_items pat p with Some _ => true | None => false end
  | RStatic prefix _ => literal_prefix_ok (index_key r) p && static_norm_ok (path_safe_dec prefix) p
  | _ => false
  end.

Definition serves (r : resource) (m : str) : bool :=
  match r with
  | RPlain _ rt | RDyn _ _ _ rt => match route_lookup m rt with Some _ => true | None => false end
  | RStatic _ rt => match assoc m rt with Some _ => true | None => false end
  | _ => false
  end.

Lemma assoc_In {A} k (l : list (str * A)) : (exists v, assoc k l = Some v) <-> In k (map fst l).
Proof.
  induction l as [|[k' v] l IH]; simpl.
  - split; [intros [v H]; discriminate|tauto].
  - destruct (list_eqb k k') eqn:E.
    + apply list_eqb_eq in E. subst. split; eauto.
    + apply list_eqb_neq in E. rewrite IH. split; [auto|intros [H|H]; [congruence|assumption]].
Qed.

Lemma assoc_none_In {A} k (l : list (str * A)) : assoc k l = None <-> ~ In k (map fst l).
Proof.
  rewrite <- assoc_In. split.
  - intros H [v Hv]. congruence.
  - intros H. destruct (assoc k l) eqn:E; [exfalso; eauto|reflexivity].
Qed.

Lemma map_fst_nonempty {A B} (l : list (A * B)) : l <> [] -> map fst l <> [].
Proof. destruct l; simpl; congruence. Qed.


Lemma serves_listed r m : leaf r -> serves r m = true -> In m (methods r) \/ In ANY (methods r).
Proof.
  destruct r as [path rt|o f pat rt|q rt|q rs ix|d rs ix]; cbn [leaf serves methods]; intros Hl H; try contradiction.
  - unfold route_lookup in H. destruct (assoc m rt) eqn:E; [left; apply assoc_In; eauto|].
    destruct (assoc ANY rt) eqn:E2; [right; apply assoc_In; eauto|discriminate].
  - unfold route_lookup in H. destruct (assoc m rt) eqn:E; [left; apply assoc_In; eauto|].
    destruct (assoc ANY rt) eqn:E2; [right; apply assoc_In; eauto|discriminate].
  - destruct (assoc m rt) eqn:E; [left; apply assoc_In; eauto|discriminate].
Qed.

Lemma listed_serves r m : leaf r -> In m (methods r) -> serves r m = true.
Proof.
  destruct r as [path rt|o f pat rt|q rt|q rs ix|d rs ix]; cbn [leaf serves methods]; intros Hl H; try contradiction;
    apply assoc_In in H; destruct H as [v Hv]; unfold route_lookup; rewrite Hv; reflexivity.
Qed.

(* a wildcard route serves every method (not for static resources, which list GET and HEAD only) *)
Lemma any_serves r m : In ANY (methods r) -> (forall q rts, r = RStatic q rts -> False) -> leaf r -> serves r m = true.
Proof.
  destruct r as [path rt|o f pat rt|q rt|q rs ix|d rs ix]; cbn [leaf serves methods]; intros H Hs Hl; try contradiction.
  - apply assoc_In in H. destruct H as [v Hv]. unfold route_lookup. rewrite Hv. destruct (assoc m rt); reflexivity.
  - apply assoc_In in H. destruct H as [v Hv]. unfold route_lookup. rewrite Hv. destruct (assoc m rt); reflexivity.
  - exfalso. eapply Hs. reflexivity.
Qed.

(* well-formed tables: every leaf has a route, static resources do not list the wildcard *)
Inductive wf_res : resource -> Prop :=
| wf_plain path rt : rt <> [] -> wf_res (RPlain path rt)
| wf_dyn o f pat rt : rt <> [] -> wf_res (RDyn o f pat rt)
| wf_static q rt : rt <> [] -> ~ In ANY (map fst rt) -> wf_res (RStatic q rt)
| wf_sub q rs ix : Forall wf_res rs -> wf_res (RSub q rs ix)
| wf_dom d rs ix : Forall wf_res rs -> wf_res (RDom d rs ix).

Definition wf_router (rt : router) : Prop := Forall wf_res (r_res rt).

Lemma merge_found acc h mi : merge_allowed acc (Found h mi) = Found h mi.
Proof. destruct acc; reflexivity. Qed.

(* what a method sweep over one path must satisfy *)
Definition sweep_ok (g : str -> result) : Prop :=
  (forall m, g m = NotFound -> forall m', g m' = NotFound) /\
  (forall m A, g m = NotAllowed A -> forall m', (exists h mi, g m' = Found h mi) <-> In m' A).

Section Status.
  Variables (host : option str) (p : str).
  Definition fr (m : str) := resolve_rule_res host p m.

  (* the three possible outcomes of a leaf *)
  Lemma leaf_outcome_cases m r : leaf r ->
    (path_matches r p = false /\ fr m r = ONo []) \/
    (path_matches r p = true /\ serves r m = true /\ exists h mi, fr m r = OFinal (Found h mi)) \/
    (path_matches r p = true /\ serves r m = false /\ fr m r = ONo (methods r) /\ methods r <> []).
  Proof.
    unfold fr. destruct r as [path rt|o f pat rt|q rt|q rs ix|d rs ix]; intros Hl; try contradiction.
    - cbn [resolve_rule_res leaf_outcome path_matches serves methods]. destruct (list_eqb path p); [|auto].
      unfold by_method. destruct (route_lookup m rt); [right; left; eauto|].
      right; right. repeat split; auto. apply map_fst_nonempty; assumption.
    - cbn [resolve_rule_res leaf_outcome path_matches serves methods]. destruct (match_items pat p); [|auto].
      unfold by_method. destruct (route_lookup m rt); [right; left; eauto|].
      right; right. repeat split; auto. apply map_fst_nonempty; assumption.
    - rewrite frule_static. cbn [path_matches serves methods].
      destruct (literal_prefix_ok (index_key (RStatic q rt)) p); [|auto].
      unfold static_outcome. cbn [andb]. destruct (static_norm_ok (path_safe_dec q) p); [|auto].
      destruct (assoc m rt); [right; left; eauto|].
      right; right. repeat split; auto. apply map_fst_nonempty; assumption.
  Qed.

  (* a sub-application takes the request over when the path lies under its prefix / the Host matches *)
  Definition captures (r : resource) : bool :=
    match r with
    | RSub _ _ _ => literal_prefix_ok (index_key r) p
    | RDom d _ _ => dom_match d host
    | _ => false
    end.

  Definition inner (r : resource) (m : str) : result :=
    match r with
    | RSub _ rs _ | RDom _ rs _ => scan (in_rule_order rs (map (fr m) rs)) []
    | _ => Broken
    end.

  Lemma captures_outcome r m : captures r = true -> fr m r = OFinal (inner r m).
  Proof.
    destruct r as [path rt|o f pat rt|q rt|q rs ix|d rs ix]; cbn [captures]; intros H; try discriminate; unfold fr.
    - rewrite frule_sub, H. reflexivity.
    - rewrite frule_dom, H. reflexivity.
  Qed.

  Fixpoint pre (l : list resource) : list resource :=
    match l with [] => [] | r :: l' => if captures r then [] else r :: pre l' end.
  Fixpoint cap (l : list resource) : option resource :=
    match l with [] => None | r :: l' => if captures r then Some r else cap l' end.

  Lemma cap_In l c : cap l = Some c -> In c l /\ captures c = true.
  Proof.
    induction l as [|r l IH]; [discriminate|]. cbn [cap]. destruct (captures r) eqn:E.
    - intros H. inversion H; subst. simpl. auto.
    - intros H. destruct (IH H). simpl. auto.
  Qed.

  Lemma pre_In l r : In r (pre l) -> In r l /\ captures r = false.
  Proof.
    induction l as [|x l IH]; [intros []|]. cbn [pre]. destruct (captures x) eqn:E; [intros []|].
    intros [<-|H]; [simpl; auto|]. destruct (IH H). simpl. auto.
  Qed.

  Definition listed (l : list resource) : list str :=
    flat_map (fun r => if path_matches r p then methods r else []) l.

  Lemma listed_In l x : In x (listed l) <-> exists r, In r l /\ path_matches r p = true /\ In x (methods r).
  Proof.
    unfold listed. rewrite in_flat_map. split.
    - intros (r & Hr & Hx). destruct (path_matches r p) eqn:E; [eauto|destruct Hx].
    - intros (r & Hr & Hm & Hx). exists r. rewrite Hm. auto.
  Qed.

  Lemma wf_leaf r : wf_res r -> path_matches r p = true -> leaf r.
  Proof. destruct 1; cbn [path_matches leaf]; intros Hpm; try discriminate; assumption. Qed.

  (* outcome of a well-formed resource that does not capture *)
  Lemma non_capturing m r : wf_res r -> captures r = false ->
    (path_matches r p = false /\ fr m r = ONo []) \/
    (path_matches r p = true /\ serves r m = true /\ exists h mi, fr m r = OFinal (Found h mi)) \/
    (path_matches r p = true /\ serves r m = false /\ fr m r = ONo (methods r) /\ methods r <> []).
  Proof.
    intros Hwf Hc. destruct Hwf as [path rt H|o f pat rt H|q rt H Hany|q rs ix H|d rs ix H].
    - apply leaf_outcome_cases. exact H.
    - apply leaf_outcome_cases. exact H.
    - apply leaf_outcome_cases. exact H.
    - left. split; [reflexivity|]. unfold fr. rewrite frule_sub. cbn [captures] in Hc. rewrite Hc. reflexivity.
    - left. split; [reflexivity|]. unfold fr. rewrite frule_dom. cbn [captures] in Hc. rewrite Hc. reflexivity.
  Qed.

  Definition tail_result (l : list resource) (m : str) (acc : list str) : result :=
    match cap l with
    | None => finish acc
    | Some c => merge_allowed acc (inner c m)
    end.

  Lemma scan_struct l : Forall wf_res l -> forall m acc,
    ((exists r, In r (pre l) /\ path_matches r p = true /\ serves r m = true) ->
       exists h mi, scan (map (fr m) l) acc = Found h mi) /\
    ((forall r, In r (pre l) -> path_matches r p = true -> serves r m = false) ->
       scan (map (fr m) l) acc = tail_result l m (acc ++ listed (pre l))).
  Proof.
    induction 1 as [|r l Hr Hl IH]; intros m acc.
    - split; [intros (r & [] & _)|]. intros _. unfold tail_result. simpl. rewrite app_nil_r. reflexivity.
    - cbn [pre]. unfold tail_result. cbn [cap]. destruct (captures r) eqn:Ec.
      + split; [intros (r' & [] & _)|]. intros _. cbn [map scan]. rewrite (captures_outcome r m Ec).
        cbn [scan listed flat_map]. rewrite app_nil_r. reflexivity.
      + fold (tail_result l m).
        destruct (non_capturing m r Hr Ec) as [(Hm & Ho)|[(Hm & Hs & h & mi & Ho)|(Hm & Hs & Ho & Hne)]].
        * cbn [map scan]. rewrite Ho. cbn [scan]. rewrite app_nil_r. split.
          -- intros (r' & [<-|Hin] & H1 & H2); [congruence|]. apply (proj1 (IH m acc)). eauto.
          -- intros H. unfold listed. cbn [flat_map]. rewrite Hm. cbn [app].
             apply (proj2 (IH m acc)). intros; apply H; simpl; auto.
        * cbn [map scan]. rewrite Ho. cbn [scan]. rewrite merge_found. split; [eauto|].
          intros H. specialize (H r (or_introl eq_refl) Hm). congruence.
        * cbn [map scan]. rewrite Ho. cbn [scan]. split.
          -- intros (r' & [<-|Hin] & H1 & H2); [congruence|]. apply (proj1 (IH m (acc ++ methods r))). eauto.
          -- intros H. unfold listed. cbn [flat_map]. rewrite Hm. rewrite app_assoc.
             apply (proj2 (IH m (acc ++ methods r))). intros; apply H; simpl; auto.
  Qed.

  Lemma decide_served l m :
    (exists r, In r l /\ path_matches r p = true /\ serves r m = true) \/
    (forall r, In r l -> path_matches r p = true -> serves r m = false).
  Proof.
    induction l as [|r l IH]; [right; intros r []|].
    destruct IH as [(r' & H1 & H2)|IH]; [left; exists r'; simpl; tauto|].
    destruct (path_matches r p) eqn:E1; [destruct (serves r m) eqn:E2|].
    - left. exists r. simpl. auto.
    - right. intros r' [<-|Hin] H; auto.
    - right. intros r' [<-|Hin] H; [congruence|auto].
  Qed.

  (* among the resources tried before a capture: served <-> listed, provided m itself is not served *)
  Lemma served_iff_listed l m : Forall wf_res l ->
    (forall r, In r l -> path_matches r p = true -> serves r m = false) ->
    forall m', (exists r, In r l /\ path_matches r p = true /\ serves r m' = true) <-> In m' (listed l).
  Proof.
    intros Hwf Hnone m'. rewrite Forall_forall in Hwf. rewrite listed_In. split.
    - intros (r & Hr & Hm & Hs). exists r. split; [exact Hr|]. split; [exact Hm|].
      pose proof (wf_leaf r (Hwf r Hr) Hm) as Hleaf.
      destruct (serves_listed r m' Hleaf Hs) as [Hin|Hany]; [exact Hin|]. exfalso.
      specialize (Hnone r Hr Hm).
      destruct (Hwf r Hr) as [path rt H|o f pat rt H|q rt H Hna|q rs ix H|d rs ix H].
      + rewrite (any_serves _ m Hany) in Hnone; [discriminate|intros; discriminate|exact H].
      + rewrite (any_serves _ m Hany) in Hnone; [discriminate|intros; discriminate|exact H].
      + exact (Hna Hany).
      + destruct Hany.
      + destruct Hany.
    - intros (r & Hr & Hm & Hx). exists r. split; [exact Hr|]. split; [exact Hm|].
      apply listed_serves; [apply (wf_leaf r (Hwf r Hr) Hm)|exact Hx].
  Qed.

  Lemma listed_nil_none l : Forall wf_res l -> listed l = [] -> forall r, In r l -> path_matches r p = false.
  Proof.
    intros Hwf HL r Hr. destruct (path_matches r p) eqn:E; [|reflexivity]. exfalso.
    rewrite Forall_forall in Hwf. pose proof (wf_leaf r (Hwf r Hr) E) as Hleaf.
    assert (Hne : methods r <> []).
    { destruct r as [path rt|o f pat rt|q rt|q rs ix|d rs ix]; cbn [leaf methods] in *; try contradiction;
        apply map_fst_nonempty; assumption. }
    destruct (methods r) as [|x ms] eqn:Em; [congruence|].
    assert (Hin : In x (listed l)) by (apply listed_In; exists r; rewrite Em; simpl; auto).
    rewrite HL in Hin. destruct Hin.
  Qed.

  (* one level: if every capturing candidate sweeps well, the whole candidate list does *)
  Lemma sweep_list l : Forall wf_res l ->
    (forall c, In c l -> captures c = true -> sweep_ok (inner c)) ->
    sweep_ok (fun m => scan (map (fr m) l) []).
  Proof.
    intros Hwf Hin.
    assert (Hpre : Forall wf_res (pre l)).
    { rewrite Forall_forall in *. intros r Hr. apply Hwf. apply (proj1 (pre_In l r Hr)). }
    set (L := listed (pre l)).
    assert (Hshape : forall m,
      (exists h mi, scan (map (fr m) l) [] = Found h mi) /\ (exists r, In r (pre l) /\ path_matches r p = true /\ serves r m = true)
      \/ (scan (map (fr m) l) [] = tail_result l m L /\ forall r, In r (pre l) -> path_matches r p = true -> serves r m = false)).
    { intros m. destruct (scan_struct l Hwf m []) as [Hf Hn].
      destruct (decide_served (pre l) m) as [Hs|Hs]; [left; auto|right; split; [apply Hn; exact Hs|exact Hs]]. }
    assert (Hcap : forall c, cap l = Some c -> sweep_ok (inner c)).
    { intros c Hc. destruct (cap_In l c Hc). apply Hin; assumption. }
    split.
    - (* 404 does not depend on the method *)
      intros m H m'. destruct (Hshape m) as [[(h & mi & E) _]|[E Hnone]]; [congruence|].
      rewrite E in H. unfold tail_result in H.
      assert (HL : L = [] /\ match cap l with None => True | Some c => inner c m = NotFound end).
      { destruct (cap l) as [c|].
        - destruct L as [|x L']; [split; [reflexivity|exact H]|].
          cbn [merge_allowed] in H. destruct (inner c m); discriminate.
        - unfold finish in H. destruct L; [auto|discriminate]. }
      destruct HL as [HL Hc]. pose proof (listed_nil_none (pre l) Hpre HL) as Hno.
      destruct (Hshape m') as [[_ (r & Hr & Hm & _)]|[E' _]]; [rewrite (Hno r Hr) in Hm; discriminate|].
      rewrite E'. unfold tail_result. fold L. rewrite HL. destruct (cap l) as [c|] eqn:Ecap; [|reflexivity].
      cbn [merge_allowed]. apply (proj1 (Hcap c eq_refl) m Hc).
    - (* 405 lists exactly the served methods *)
      intros m A H m'. destruct (Hshape m) as [[(h & mi & E) _]|[E Hnone]]; [congruence|].
      rewrite E in H. unfold tail_result in H.
      pose proof (served_iff_listed (pre l) m Hpre Hnone m') as Hsl. fold L in Hsl.
      assert (Hfound_pre : (exists r, In r (pre l) /\ path_matches r p = true /\ serves r m' = true) ->
                           exists h mi, scan (map (fr m') l) [] = Found h mi).
      { intros Hs. apply (proj1 (scan_struct l Hwf m' [])). exact Hs. }
      destruct (cap l) as [c|] eqn:Ecap.
      + destruct (Hcap c eq_refl) as [Hc404 Hc405].
        destruct L as [|x0 L0] eqn:EL.
        * (* nothing collected: the sub-application's own answer *)
          cbn [merge_allowed] in H.
          pose proof (listed_nil_none (pre l) Hpre EL) as Hno.
          destruct (Hshape m') as [[_ (r & Hr & Hm & _)]|[E' _]]; [rewrite (Hno r Hr) in Hm; discriminate|].
          rewrite E'. unfold tail_result. rewrite Ecap. cbn [merge_allowed]. apply (Hc405 m A H).
        * cbn [merge_allowed] in H. destruct (inner c m) as [h mi| |a|] eqn:Ei; try discriminate.
          -- (* sub-app 404, collected methods *)
             inversion H; subst A. rewrite <- Hsl. split.
             ++ intros Hf. destruct (Hshape m') as [[_ Hs]|[E' _]]; [exact Hs|].
                rewrite E' in Hf. unfold tail_result in Hf. rewrite Ecap, (Hc404 m Ei m') in Hf.
                cbn [merge_allowed] in Hf. destruct Hf as (h & mi & Hf). discriminate.
             ++ exact Hfound_pre.
          -- (* sub-app 405: union *)
             inversion H; subst A.
             transitivity (In m' (x0 :: L0) \/ In m' a); [|symmetry; apply (in_app_iff (x0 :: L0) a m')].
             rewrite <- Hsl. split.
             ++ intros Hf. destruct (Hshape m') as [[_ Hs]|[E' _]]; [left; exact Hs|].
                right. rewrite E' in Hf. unfold tail_result in Hf. rewrite Ecap in Hf.
                apply (Hc405 m a Ei m'). cbn [merge_allowed] in Hf.
                destruct (inner c m') as [h mi| |a'|]; destruct Hf as (h' & mi' & Hf); try discriminate. eauto.
             ++ intros [Hs|Ha]; [apply Hfound_pre; exact Hs|].
                destruct (Hshape m') as [[Hf _]|[E' _]]; [exact Hf|].
                rewrite E'. unfold tail_result. rewrite Ecap.
                destruct (proj2 (Hc405 m a Ei m') Ha) as (h & mi & Hf). rewrite Hf. cbn [merge_allowed]. eauto.
      + unfold finish in H. destruct L as [|x0 L0] eqn:EL; [discriminate|]. cbn [is_nil] in H. inversion H; subst A.
        rewrite <- Hsl. split.
        * intros Hf. destruct (Hshape m') as [[_ Hs]|[E' _]]; [exact Hs|].
          rewrite E' in Hf. unfold tail_result in Hf. rewrite Ecap in Hf. unfold finish in Hf. cbn [is_nil] in Hf.
          destruct Hf as (h & mi & Hf). discriminate.
        * exact Hfound_pre.
  Qed.
End Status.

Lemma rule_order_In r rs : In r (rule_order is_dom keylen rs) <-> In r rs.
Proof.
  unfold rule_order. rewrite in_app_iff, sort_In, !filter_In. destruct (is_dom r); simpl; intuition.
Qed.

Lemma resolve_rule_scan rt host p m :
  resolve_rule rt host p m = scan (map (resolve_rule_res host p m) (rule_order is_dom keylen (r_res rt))) [].
Proof. unfold resolve_rule. rewrite in_rule_order_map. reflexivity. Qed.

(* every nesting level *)
Lemma sweep_inner host p : forall r, wf_res r -> captures host p r = true -> sweep_ok (inner host p r).
Proof.
  induction r using resource_ind'; intros Hwf Hc; try discriminate Hc.
  - inversion Hwf as [| | |? ? ? Hrs|]; subst.
    assert (E : forall m, inner host p (RSub p0 rs ix) m
                = scan (map (fr host p m) (rule_order is_dom keylen rs)) []).
    { intros m. cbn [inner]. unfold fr. rewrite in_rule_order_map. reflexivity. }
    assert (S : sweep_ok (fun m => scan (map (fr host p m) (rule_order is_dom keylen rs)) [])).
    { apply sweep_list.
      - rewrite Forall_forall in *. intros x Hx. apply Hrs. apply rule_order_In. exact Hx.
      - intros c Hin Hcc. rewrite Forall_forall in *. apply (proj1 (rule_order_In _ _)) in Hin. apply H; auto. }
    destruct S as [S1 S2]. split.
    + intros m Hm m'. rewrite E in *. eauto.
    + intros m A Hm m'. rewrite E in *. eauto.
  - inversion Hwf as [| | | |? ? ? Hrs]; subst.
    assert (E : forall m, inner host p (RDom d rs ix) m
                = scan (map (fr host p m) (rule_order is_dom keylen rs)) []).
    { intros m. cbn [inner]. unfold fr. rewrite in_rule_order_map. reflexivity. }
    assert (S : sweep_ok (fun m => scan (map (fr host p m) (rule_order is_dom keylen rs)) [])).
    { apply sweep_list.
      - rewrite Forall_forall in *. intros x Hx. apply Hrs. apply rule_order_In. exact Hx.
      - intros c Hin Hcc. rewrite Forall_forall in *. apply (proj1 (rule_order_In _ _)) in Hin. apply H; auto. }
    destruct S as [S1 S2]. split.
    + intros m Hm m'. rewrite E in *. eauto.
    + intros m A Hm m'. rewrite E in *. eauto.
Qed.

(* FULL: for every well-formed table, with any nesting of sub-applications *)
Theorem rule_sweep rt host p : wf_router rt -> sweep_ok (fun m => resolve_rule rt host p m).
Proof.
  intros Hwf. unfold wf_router in Hwf.
  assert (S : sweep_ok (fun m => scan (map (fr host p m) (rule_order is_dom keylen (r_res rt))) [])).
  { apply sweep_list.
    - rewrite Forall_forall in *. intros x Hx. apply Hwf. apply rule_order_In. exact Hx.
    - intros c Hin Hcc. apply sweep_inner; [|exact Hcc]. rewrite Forall_forall in Hwf. apply Hwf.
      apply rule_order_In. exact Hin. }
  destruct S as [S1 S2]. split.
  - intros m Hm m'. rewrite resolve_rule_scan in *. eauto.
  - intros m A Hm m'. rewrite resolve_rule_scan in *. unfold fr in S2. eauto.
Qed.
