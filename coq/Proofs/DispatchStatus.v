(* 404 / 405 characterisation of the documented rule on tables without sub-applications. *)
From AV Require Import Lib.Base Generated.DispatchGen Model.Dispatch Proofs.DispatchStrings Proofs.DispatchRule.
From Coq Require Import Arith.
Open Scope N_scope.

Definition methods (r : resource) : list str :=
  match r with
  | RPlain _ rt | RDyn _ _ _ rt | RStatic _ rt => map fst rt
  | _ => []
  end.

(* a leaf resource with at least one route (what add_route / add_static create) *)
Definition leaf (r : resource) : Prop :=
  match r with
  | RPlain _ rt | RDyn _ _ _ rt | RStatic _ rt => rt <> []
  | _ => False
  end.

Definition path_matches (r : resource) (p : str) : bool :=
  match r with
  | RPlain path _ => list_eqb path p
  | RDyn _ _ pat _ => match match_items pat p with Some _ => true | None => false end
  | RStatic prefix _ => literal_prefix_ok (index_key r) p && static_norm_ok prefix p
  | _ => false
  end.

Definition serves (r : resource) (m : str) : bool :=
  match r with
  | RPlain _ rt | RDyn _ _ _ rt => match route_lookup m rt with Some _ => true | None => false end
  | RStatic _ rt => match assoc m rt with Some _ => true | None => false end
  | _ => false
  end.

Lemma assoc_In {A} k (l : list (str * A)) : (exists v, assoc k l = Some v) <-> In k (map fst l).
Proof.
  induction l as [|[k' v] l IH]; simpl.
  - split; [intros [v H]; discriminate|tauto].
  - destruct (list_eqb k k') eqn:E.
    + apply list_eqb_eq in E. subst. split; eauto.
    + apply list_eqb_neq in E. rewrite IH. split; [auto|intros [H|H]; [congruence|assumption]].
Qed.

Lemma assoc_none_In {A} k (l : list (str * A)) : assoc k l = None <-> ~ In k (map fst l).
Proof.
  rewrite <- assoc_In. split.
  - intros H [v Hv]. congruence.
  - intros H. destruct (assoc k l) eqn:E; [exfalso; eauto|reflexivity].
Qed.

Lemma map_fst_nonempty {A B} (l : list (A * B)) : l <> [] -> map fst l <> [].
Proof. destruct l; simpl; congruence. Qed.

Section Status.
  Variables (host : option str) (p m : str).
  Let fr := resolve_rule_res host p m.

  (* the three possible outcomes of a leaf *)
  Lemma leaf_outcome_cases r : leaf r ->
    (path_matches r p = false /\ fr r = ONo []) \/
    (path_matches r p = true /\ serves r m = true /\ exists h mi, fr r = OFinal (Found h mi)) \/
    (path_matches r p = true /\ serves r m = false /\ fr r = ONo (methods r) /\ methods r <> []).
  Proof.
    unfold fr. destruct r as [path rt|o f pat rt|q rt|q rs ix|d rs ix]; intros Hl; try contradiction.
    - cbn [resolve_rule_res leaf_outcome path_matches serves methods]. destruct (list_eqb path p); [|auto].
      unfold by_method. destruct (route_lookup m rt); [right; left; eauto|].
      right; right. repeat split; auto. apply map_fst_nonempty; assumption.
    - cbn [resolve_rule_res leaf_outcome path_matches serves methods]. destruct (match_items pat p); [|auto].
      unfold by_method. destruct (route_lookup m rt); [right; left; eauto|].
      right; right. repeat split; auto. apply map_fst_nonempty; assumption.
    - rewrite frule_static. cbn [path_matches serves methods].
      destruct (literal_prefix_ok (index_key (RStatic q rt)) p); [|auto].
      unfold static_outcome. cbn [andb]. destruct (static_norm_ok q p); [|auto].
      destruct (assoc m rt); [right; left; eauto|].
      right; right. repeat split; auto. apply map_fst_nonempty; assumption.
  Qed.

  Definition listed (l : list resource) : list str :=
    flat_map (fun r => if path_matches r p then methods r else []) l.

  Lemma scan_leaves l : Forall leaf l -> forall acc,
    (* found: the first resource that matches path and method *)
    ((exists r, In r l /\ path_matches r p = true /\ serves r m = true) ->
       exists h mi, scan (map fr l) acc = Found h mi) /\
    (* otherwise: the accumulated methods *)
    ((forall r, In r l -> path_matches r p = true -> serves r m = false) ->
       scan (map fr l) acc = finish (acc ++ listed l)).
  Proof.
    induction 1 as [|r l Hr Hl IH]; intros acc.
    - split; [intros (r & [] & _)|]. intros _. simpl. rewrite app_nil_r. reflexivity.
    - specialize (IH). destruct (leaf_outcome_cases r Hr) as [(Hm & Ho)|[(Hm & Hs & h & mi & Ho)|(Hm & Hs & Ho & Hne)]].
      + cbn [map scan]. rewrite Ho. cbn [scan]. rewrite app_nil_r. split.
        * intros (r' & [<-|Hin] & H1 & H2); [congruence|]. apply (proj1 (IH acc)). eauto.
        * intros H. unfold listed. cbn [flat_map]. rewrite Hm. cbn [app].
          apply (proj2 (IH acc)). intros; apply H; simpl; auto.
      + cbn [map scan]. rewrite Ho. cbn [scan]. split; [eauto|].
        intros H. specialize (H r (or_introl eq_refl) Hm). congruence.
      + cbn [map scan]. rewrite Ho. cbn [scan]. split.
        * intros (r' & [<-|Hin] & H1 & H2); [congruence|]. apply (proj1 (IH (acc ++ methods r))). eauto.
        * intros H. unfold listed. cbn [flat_map]. rewrite Hm. rewrite app_assoc.
          apply (proj2 (IH (acc ++ methods r))). intros; apply H; simpl; auto.
  Qed.
End Status.

Lemma rule_order_In r rs : In r (rule_order is_dom keylen rs) <-> In r rs.
Proof.
  unfold rule_order. rewrite in_app_iff, sort_In, !filter_In. destruct (is_dom r); simpl; intuition.
Qed.

Lemma resolve_rule_scan rt host p m :
  resolve_rule rt host p m = scan (map (resolve_rule_res host p m) (rule_order is_dom keylen (r_res rt))) [].
Proof. unfold resolve_rule. rewrite in_rule_order_map. reflexivity. Qed.

Definition flat (rt : router) : Prop := Forall leaf (r_res rt).

Lemma flat_order rt : flat rt -> Forall leaf (rule_order is_dom keylen (r_res rt)).
Proof. unfold flat. rewrite !Forall_forall. intros H r Hr. apply H. apply rule_order_In. exact Hr. Qed.

Lemma listed_In p l x : In x (listed p l) <-> exists r, In r l /\ path_matches r p = true /\ In x (methods r).
Proof.
  unfold listed. rewrite in_flat_map. split.
  - intros (r & Hr & Hx). destruct (path_matches r p) eqn:E; [eauto|destruct Hx].
  - intros (r & Hr & Hm & Hx). exists r. rewrite Hm. auto.
Qed.

Lemma decide_served rt p m :
  (exists r, In r (rule_order is_dom keylen (r_res rt)) /\ path_matches r p = true /\ serves r m = true) \/
  (forall r, In r (rule_order is_dom keylen (r_res rt)) -> path_matches r p = true -> serves r m = false).
Proof.
  induction (rule_order is_dom keylen (r_res rt)) as [|r l IH]; [right; intros r []|].
  destruct IH as [(r' & H1 & H2)|IH]; [left; exists r'; simpl; tauto|].
  destruct (path_matches r p) eqn:E1; [destruct (serves r m) eqn:E2|].
  - left. exists r. simpl. auto.
  - right. intros r' [<-|Hin] H; auto.
  - right. intros r' [<-|Hin] H; [congruence|auto].
Qed.

Lemma listed_nil p l : (forall r, In r l -> path_matches r p = false) -> listed p l = [].
Proof.
  induction l as [|r l IH]; intros H; [reflexivity|]. unfold listed. cbn [flat_map].
  rewrite (H r (or_introl eq_refl)). cbn [app]. apply IH. intros; apply H; simpl; auto.
Qed.

Lemma listed_nil_inv p l : listed p l = [] -> forall r, In r l -> path_matches r p = true -> methods r = [].
Proof.
  intros H r Hr Hm. destruct (methods r) as [|x ms] eqn:E; [reflexivity|]. exfalso.
  assert (Hin : In x (listed p l)) by (apply listed_In; exists r; rewrite E; simpl; auto).
  rewrite H in Hin. destruct Hin.
Qed.

(* 404 exactly when no resource matches the path *)
Theorem rule_404 rt host p m : flat rt ->
  (resolve_rule rt host p m = NotFound <-> forall r, In r (r_res rt) -> path_matches r p = false).
Proof.
  intros Hf. rewrite resolve_rule_scan. pose proof (flat_order rt Hf) as Hl.
  destruct (scan_leaves host p m _ Hl []) as [Hfound Hnone]. split.
  - intros H r Hr. apply (proj2 (rule_order_In _ _)) in Hr.
    destruct (decide_served rt p m) as [Hs|Hs].
    + destruct (Hfound Hs) as (h & mi & E). congruence.
    + rewrite (Hnone Hs) in H. unfold finish in H. cbn [app] in H.
      remember (listed p (rule_order is_dom keylen (r_res rt))) as L eqn:EL.
      destruct L; [|discriminate]. symmetry in EL.
      destruct (path_matches r p) eqn:E; [|reflexivity]. exfalso.
      pose proof (listed_nil_inv p _ EL r Hr E) as Hmeth.
      rewrite Forall_forall in Hl. specialize (Hl r Hr).
      destruct (leaf_outcome_cases host p m r Hl) as [(Hm & _)|[(_ & Hsv & _)|(_ & _ & _ & Hne)]].
      * congruence.
      * rewrite (Hs r Hr E) in Hsv. discriminate.
      * congruence.
  - intros H. rewrite Hnone.
    + rewrite listed_nil; [reflexivity|]. intros r Hr. apply H. apply rule_order_In. exact Hr.
    + intros r Hr Hm. apply (proj1 (rule_order_In _ _)) in Hr. rewrite (H r Hr) in Hm. discriminate.
Qed.

(* 405: some resource matches the path, none the method, and the list is exactly the union *)
Theorem rule_405 rt host p m A : flat rt -> resolve_rule rt host p m = NotAllowed A ->
  (exists r, In r (r_res rt) /\ path_matches r p = true) /\
  (forall r, In r (r_res rt) -> path_matches r p = true -> serves r m = false) /\
  (forall x, In x A <-> exists r, In r (r_res rt) /\ path_matches r p = true /\ In x (methods r)).
Proof.
  intros Hf. rewrite resolve_rule_scan. pose proof (flat_order rt Hf) as Hl.
  destruct (scan_leaves host p m _ Hl []) as [Hfound Hnone]. intros H.
  destruct (decide_served rt p m) as [Hs|Hs].
  { destruct (Hfound Hs) as (h & mi & E). congruence. }
  rewrite (Hnone Hs) in H. unfold finish in H. cbn [app] in H.
  destruct (listed p (rule_order is_dom keylen (r_res rt))) as [|x0 l0] eqn:EL; [discriminate|].
  cbn [is_nil] in H. inversion H; subst A. clear H.
  assert (Hiff : forall x, In x (x0 :: l0) <-> exists r, In r (r_res rt) /\ path_matches r p = true /\ In x (methods r)).
  { intros x. rewrite <- EL, listed_In. split; intros (r & Hr & Hx); exists r; (split; [apply rule_order_In; exact Hr|exact Hx]). }
  split; [|split].
  - destruct (proj1 (Hiff x0) (or_introl eq_refl)) as (r & Hr & Hm & _). eauto.
  - intros r Hr Hm. apply Hs; [apply rule_order_In; exact Hr|exact Hm].
  - exact Hiff.
Qed.

Lemma serves_listed r m : leaf r -> serves r m = true -> In m (methods r) \/ In ANY (methods r).
Proof.
  destruct r as [path rt|o f pat rt|q rt|q rs ix|d rs ix]; cbn [leaf serves methods]; intros Hl H; try contradiction.
  - unfold route_lookup in H. destruct (assoc m rt) eqn:E; [left; apply assoc_In; eauto|].
    destruct (assoc ANY rt) eqn:E2; [right; apply assoc_In; eauto|discriminate].
  - unfold route_lookup in H. destruct (assoc m rt) eqn:E; [left; apply assoc_In; eauto|].
    destruct (assoc ANY rt) eqn:E2; [right; apply assoc_In; eauto|discriminate].
  - destruct (assoc m rt) eqn:E; [left; apply assoc_In; eauto|discriminate].
Qed.

Lemma listed_serves r m : leaf r -> In m (methods r) -> serves r m = true.
Proof.
  destruct r as [path rt|o f pat rt|q rt|q rs ix|d rs ix]; cbn [leaf serves methods]; intros Hl H; try contradiction;
    apply assoc_In in H; destruct H as [v Hv]; unfold route_lookup; rewrite Hv; reflexivity.
Qed.

(* no static resource lists the wildcard (add_static registers GET and HEAD only) *)
Definition static_no_any (rt : router) : Prop :=
  forall q rts, In (RStatic q rts) (r_res rt) -> ~ In ANY (map fst rts).

(* 405 lists exactly the methods that would be served for this path *)
Theorem rule_405_complete rt host p m A : flat rt -> static_no_any rt ->
  resolve_rule rt host p m = NotAllowed A ->
  forall m', (exists h mi, resolve_rule rt host p m' = Found h mi) <-> In m' A.
Proof.
  intros Hf Hst H m'. destruct (rule_405 rt host p m A Hf H) as (_ & Hnone & HA).
  pose proof (flat_order rt Hf) as Hl. unfold flat in Hf. rewrite Forall_forall in Hf.
  rewrite resolve_rule_scan.
  destruct (scan_leaves host p m' _ Hl []) as [Hfound Hnot]. split.
  - intros (h & mi & E). destruct (decide_served rt p m') as [(r & Hr & Hm & Hs)|Hs].
    + apply (proj1 (rule_order_In _ _)) in Hr. apply HA. exists r. split; [exact Hr|]. split; [exact Hm|].
      destruct (serves_listed r m' (Hf r Hr) Hs) as [Hin|Hany]; [exact Hin|]. exfalso.
      (* the wildcard is listed: then m itself would have been served *)
      specialize (Hnone r Hr Hm).
      destruct r as [path rt'|o f pat rt'|q rt'|q rs ix|d rs ix]; cbn [serves methods] in *.
      * apply assoc_In in Hany. destruct Hany as [v Hv]. unfold route_lookup in Hnone.
        rewrite Hv in Hnone. destruct (assoc m rt'); discriminate.
      * apply assoc_In in Hany. destruct Hany as [v Hv]. unfold route_lookup in Hnone.
        rewrite Hv in Hnone. destruct (assoc m rt'); discriminate.
      * exact (Hst q rt' Hr Hany).
      * destruct Hany.
      * destruct Hany.
    + rewrite (Hnot Hs) in E. unfold finish in E. destruct (is_nil _); discriminate.
  - intros Hin. apply HA in Hin. destruct Hin as (r & Hr & Hm & Hx). apply Hfound.
    exists r. split; [apply rule_order_In; exact Hr|]. split; [exact Hm|].
    apply listed_serves; [apply Hf; exact Hr|exact Hx].
Qed.
