(* Stream reader: back-pressure.  For EVERY limit, in every reachable state an empty buffer implies
   that the transport is reading, and a reader suspended in _wait has an empty buffer; hence a
   blocked reader is never left with the transport paused.  Also: the pause rule of feed_data /
   end_http_chunk_receiving and the resume rule of _read_nowait_chunk. *)
From AV Require Import Lib.Base Generated.StreamGen Model.Stream Proofs.StreamBase Proofs.StreamInv.
From Coq Require Import ZifyBool Sorted.
Open Scope Z_scope.
Ltac Zify.zify_post_hook ::= Z.to_euclidean_division_equations.

(* water marks: what the proofs need of them.  The chunk-count marks are fine for every limit
   (max(4, ...) and its half); the byte marks need limit >= 0 and are only used by the resume rule. *)
Definition Wq (bytes_too : bool) (s : st) : Prop :=
  (if bytes_too then 0 <= low s /\ low s <= high s else True) /\ 2 <= lowc s /\ lowc s <= highc s.
Notation W := (Wq false).

(* Since b336e09 nothing is resumed once EOF was fed (feed_eof itself resumes), so the
   "empty buffer => reading" half is about streams that are still open; a reader can only be
   suspended on an open stream. *)
Definition NS (s : st) : Prop :=
  (eof s = false -> buf s = [] -> paused s = false) /\ (wt s = Waiting -> buf s = [] /\ eof s = false).

Definition G (s : st) : Prop := Inv s /\ W s /\ NS s.

Lemma W_same b s s' : low s' = low s -> high s' = high s -> lowc s' = lowc s -> highc s' = highc s -> Wq b s -> Wq b s'.
Proof. unfold Wq. intros -> -> -> ->. auto. Qed.

Lemma W_init b limit : (b = true -> 0 <= limit) -> Wq b (init limit).
Proof.
  intros H. unfold Wq, init. cbn [low high lowc highc].
  unfold init_low_water, init_high_water, init_low_water_chunks, init_high_water_chunks.
  destruct b; [specialize (H eq_refl)|]; lia.
Qed.

Lemma marks_wake_ok s : low (wake_ok s) = low s /\ high (wake_ok s) = high s /\ lowc (wake_ok s) = lowc s /\ highc (wake_ok s) = highc s.
Proof. unfold wake_ok. destruct (wt s); auto. Qed.

Lemma W_wake_ok b s : Wq b s -> Wq b (wake_ok s).
Proof. destruct (marks_wake_ok s) as [A [B [C D]]]. apply W_same; assumption. Qed.

Lemma W_feed b d s : Wq b s -> Wq b (fst (feed_data d s)).
Proof.
  intros H. unfold feed_data. destruct (eof s); [exact H|]. destruct d; [exact H|]. cbn [fst].
  match goal with |- Wq _ (if ?c then do_pause ?a else ?a) =>
    assert (Ha : Wq b a); [|destruct c; [apply (W_same _ a); try reflexivity|]; exact Ha] end.
  apply W_wake_ok. apply (W_same _ s); try reflexivity. exact H.
Qed.

Lemma W_end b s : Wq b s -> Wq b (fst (end_chunk s)).
Proof.
  intros H. unfold end_chunk. destruct (splits s); [|exact H]. destruct (empty_chunk _ _); [exact H|].
  cbn [fst]. apply W_wake_ok.
  match goal with |- Wq _ (if ?c then do_pause ?a else ?a) =>
    assert (Ha : Wq b a); [|destruct c; [apply (W_same _ a); try reflexivity|]; exact Ha] end.
  apply (W_same _ s); try reflexivity. exact H.
Qed.

Lemma W_marks b n s : Wq b s -> Wq b (set_chunk_size n s).
Proof.
  intros H. unfold set_chunk_size. destruct (chunk_size_raises n (low s)) eqn:E; [|exact H].
  unfold chunk_size_raises in E. unfold Wq in *. cbn [low high lowc highc set_marks].
  unfold chunk_size_low, chunk_size_high. destruct b; lia.
Qed.

(* a strictly increasing list inside [c, t] has at most t - c + 1 elements *)
Lemma sorted_in_len c t l : sorted_in c t l -> len l <= Z.max 0 (t - c + 1).
Proof.
  revert c. induction l as [|p l IH]; intros c [Hs Hb]; [rewrite len_nil; lia|].
  rewrite len_cons. inversion Hs; subst. inversion Hb; subst.
  assert (H : sorted_in (p + 1) t l).
  { split; [assumption|]. rewrite Forall_forall in *. intros q Hq.
    specialize (H2 q Hq). specialize (H4 q Hq). cbn beta in *. lia. }
  specialize (IH _ H). lia.
Qed.

Lemma concat_nil_len (l : list bytes) : Forall (fun b => b <> []) l -> len (concat l) = 0 -> l = [].
Proof.
  destruct l as [|b l]; [reflexivity|]. intros Hf H. inversion Hf; subst. cbn [concat] in H.
  rewrite len_app in H. pose proof (len_pos b H2). pose proof (len_nonneg (concat l)). lia.
Qed.

Lemma wt_wake_ok_neq s : wt (wake_ok s) <> Waiting \/ (wake_ok s = s /\ wt s <> Waiting).
Proof. unfold wake_ok. destruct (wt s) eqn:E; try (right; split; [reflexivity|congruence]). left. cbn. discriminate. Qed.

Lemma wake_ok_not_waiting s : wt (wake_ok s) <> Waiting.
Proof. unfold wake_ok. destruct (wt s) eqn:E; cbn; congruence. Qed.

Lemma buf_wake_ok s : buf (wake_ok s) = buf s /\ paused (wake_ok s) = paused s.
Proof. unfold wake_ok. destruct (wt s); auto. Qed.

Lemma NS_feed d s : NS s -> NS (fst (feed_data d s)).
Proof.
  intros HN. unfold feed_data. destruct (eof s) eqn:Ee; [exact HN|].
  destruct d as [|x d]; [exact HN|]. destruct HN as [N1 N2]. cbn [fst]. unfold wake_ok. cbn [wt].
  destruct (wt s) eqn:Ew; cbn [size high set_wt];
    match goal with |- NS (if ?c then _ else _) => destruct c end;
    (split; cbn [buf paused wt eof do_pause set_paused set_wt];
     [intros _ E0; destruct (buf s); discriminate | try discriminate; intros E; congruence]).
Qed.

Lemma G_feed d s : G s -> G (fst (feed_data d s)).
Proof.
  intros [HI [HW HN]]. split; [apply Inv_feed; exact HI|]. split; [apply W_feed; exact HW|].
  apply NS_feed. exact HN.
Qed.

Lemma G_begin s : G s -> G (fst (begin_chunk s)).
Proof.
  intros [HI [HW HN]]. split; [apply Inv_begin; exact HI|]. unfold begin_chunk.
  destruct (splits s); [split; assumption|]. destruct (total s =? 0); split; assumption.
Qed.

Lemma G_end s : G s -> G (fst (end_chunk s)).
Proof.
  intros [HI [HW [N1 N2]]].
  pose proof (Inv_end s HI) as HI'. split; [exact HI'|]. split; [apply W_end; exact HW|].
  pose proof (I_size s HI) as Hsz. pose proof (I_pos s HI) as Hp.
  unfold end_chunk in *. destruct (splits s) as [l|] eqn:El; [|split; assumption].
  destruct (empty_chunk (total s) (last l 0)); [split; assumption|]. cbn [fst highc] in *.
  unfold wake_ok in *.
  destruct (chunk_pause (len (l ++ [total s])) (highc s)) eqn:Ec; unfold do_pause in *; cbn [wt set_paused] in *;
    destruct (wt s) eqn:Ew; cbn [set_wt] in *;
    (split; cbn [buf paused wt eof set_paused set_wt]; [|try discriminate; intros; congruence]); try exact N1.
  (* paused by the chunk count: more than highc >= 1 distinct positions in [cursor, total] need bytes *)
  all: intros _ E0; exfalso; pose proof (I_spl _ HI' _ eq_refl) as Hs; cbn [cursor total set_paused set_wt] in Hs;
    apply sorted_in_len in Hs; rewrite E0 in Hsz; cbn [concat] in Hsz; rewrite len_nil in Hsz;
    unfold chunk_pause in Ec; destruct HW as [_ [W3 W4]]; lia.
Qed.

Lemma G_eof s : G s -> G (feed_eof s).
Proof.
  intros [HI [HW [N1 N2]]]. split; [apply Inv_eof; exact HI|]. split.
  - unfold feed_eof. destruct (marks_wake_ok (set_eof s true)) as [A [B [C D]]].
    apply (W_same _ s); cbn [low high lowc highc set_paused]; try assumption.
  - unfold feed_eof, wake_ok. cbn [wt set_eof].
    destruct (wt s) eqn:Ew; split; cbn [buf paused wt eof set_paused set_wt set_eof]; intros; try reflexivity; try discriminate; congruence.
Qed.

Lemma G_exc e s : G s -> G (set_exception e s).
Proof.
  intros [HI [HW [N1 N2]]]. split; [apply Inv_exc; exact HI|].
  unfold set_exception, wake_exc. cbn [wt set_exc]. destruct (wt s) eqn:Ew; (split; [apply (W_same _ s); try reflexivity; exact HW|]);
    split; cbn [buf paused wt eof set_wt set_exc]; try exact N1; try discriminate; intros E; congruence.
Qed.

Lemma G_pend s v : G s -> G (set_pend s v).
Proof.
  intros [HI [HW HN]]. split; [apply Inv_pend; exact HI|]. split; [apply (W_same _ s); try reflexivity; exact HW|exact HN].
Qed.

Lemma G_marks n s : G s -> G (set_chunk_size n s).
Proof.
  intros [HI [HW HN]]. split; [apply Inv_marks; exact HI|]. split; [apply W_marks; exact HW|].
  unfold set_chunk_size. destruct (chunk_size_raises _ _); exact HN.
Qed.

Lemma G_block s : G s -> wt s = NoTask -> buf s = [] -> eof s = false -> wait_exc s = None -> G (set_wt s Waiting).
Proof.
  intros [HI [HW [N1 N2]]] _ Hb He _. split; [apply Inv_wt; exact HI|].
  split; [apply (W_same _ s); try reflexivity; exact HW|]. split; cbn [buf paused wt eof set_wt]; auto.
Qed.

Lemma G_notask s : G s -> G (set_wt s NoTask).
Proof.
  intros [HI [HW [N1 N2]]]. split; [apply Inv_wt; exact HI|].
  split; [apply (W_same _ s); try reflexivity; exact HW|]. split; cbn [buf paused wt eof set_wt]; [exact N1|discriminate].
Qed.

Lemma G_pop s l1 l2 : G s -> wt s = NoTask -> splits s = Some (l1 ++ l2) -> G (set_splits s (Some l2)).
Proof.
  intros [HI [HW HN]] Hw E. split; [eapply Inv_pop; eassumption|].
  split; [apply (W_same _ s); try reflexivity; exact HW|exact HN].
Qed.

Lemma G_unread d s : G s -> wt s = NoTask -> G (unread d s).
Proof.
  intros [HI [HW [N1 N2]]] Hw. split; [apply Inv_unread; assumption|].
  unfold unread. destruct d as [|x d]; [split; [exact HW|split; assumption]|].
  split; [apply (W_same _ s); try reflexivity; exact HW|].
  split; cbn [buf paused wt eof]; [intros _ E; discriminate|congruence].
Qed.

(* the heart of "no stuck pause": the read that empties the buffer passes the resume test *)
Lemma empty_buffer_resumes s : Inv s -> W s -> eof s = false -> buf s = [] -> resume_cond s = true.
Proof.
  intros HI [_ [W3 W4]] He Hb. unfold resume_cond. rewrite Hb, He.
  apply andb_true_iff. split; [apply andb_true_iff; split; [reflexivity|unfold resume_bytes; apply orb_true_r]|].
  pose proof (I_size s HI) as Hsz. rewrite Hb in Hsz. cbn [concat] in Hsz. rewrite len_nil in Hsz.
  destruct (splits s) as [l|] eqn:El; [|reflexivity].
  pose proof (I_spl s HI l El) as Hs. apply sorted_in_len in Hs. pose proof (I_pos s HI).
  unfold resume_chunks. lia.
Qed.

Lemma marks_consume n f r s :
  let s1 := fst (consume n f r s) in low s1 = low s /\ high s1 = high s /\ lowc s1 = lowc s /\ highc s1 = highc s.
Proof. unfold consume. destruct (take_chunk n f r). cbn. auto. Qed.

Lemma G_consume n f r s : G s -> wt s = NoTask -> buf s = f :: r ->
  let s1 := fst (consume n f r s) in G (if resume_cond s1 then set_paused s1 false else s1).
Proof.
  intros [HI [HW [N1 N2]]] Hw Hb. cbv zeta.
  pose proof (Inv_consume n f r s HI Hb) as HI1.
  pose proof (consume_wt n f r s) as Hw1.
  destruct (marks_consume n f r s) as [A [B [C D]]].
  assert (HW1 : W (fst (consume n f r s))) by (apply (W_same _ s); assumption).
  set (s1 := fst (consume n f r s)) in *.
  destruct (resume_cond s1) eqn:Er.
  - split; [apply (Inv_same s1); try reflexivity; exact HI1|].
    split; [apply (W_same _ s1); try reflexivity; exact HW1|].
    split; cbn [buf paused wt eof set_paused]; [intros; reflexivity|]. intros E. congruence.
  - split; [exact HI1|]. split; [exact HW1|]. split.
    + intros He E. rewrite (empty_buffer_resumes s1 HI1 HW1 He E) in Er. discriminate.
    + intros E. congruence.
Qed.

Lemma G_init limit : G (init limit).
Proof.
  split; [apply Inv_init|]. split; [apply W_init; discriminate|]. split; cbn; [intros; reflexivity|discriminate].
Qed.

Theorem G_run limit ops : G (sst (fst (run ops (init_sys limit)))).
Proof.
  apply (run_SysP G G_feed G_begin G_end G_eof G_exc G_pend G_consume G_marks G_block G_notask G_pop G_unread).
  split; [apply G_init|reflexivity].
Qed.

(* ---- the statements used by Props/C08.v ------------------------------------------------------- *)

Theorem not_stuck limit ops :
  let y := fst (run ops (init_sys limit)) in
  wt (sst y) = Waiting -> buf (sst y) = [] /\ paused (sst y) = false.
Proof.
  intros y Hw. destruct (G_run limit ops) as [_ [_ [N1 N2]]]. fold y in N1, N2.
  destruct (N2 Hw) as [Hb He]. split; [exact Hb|]. apply N1; assumption.
Qed.

Theorem waiting_not_eof limit ops :
  let y := fst (run ops (init_sys limit)) in
  wt (sst y) = Waiting -> eof (sst y) = false.
Proof. intros y Hw. destruct (G_run limit ops) as [_ [_ [_ N2]]]. apply N2. exact Hw. Qed.

Theorem empty_buffer_reading limit ops :
  let y := fst (run ops (init_sys limit)) in
  eof (sst y) = false -> buf (sst y) = [] -> paused (sst y) = false.
Proof. intros y He Hb. destruct (G_run limit ops) as [_ [_ [N1 _]]]. apply N1; assumption. Qed.

(* pause rule *)
Theorem feed_pauses d s s' :
  feed_data d s = (s', None) -> d <> [] -> high s' < size s' -> paused s' = true.
Proof.
  unfold feed_data. destruct (eof s); [discriminate|]. destruct d as [|x d]; [congruence|].
  intros E _ Hs. inversion E; subst s'; clear E.
  match goal with H : context [if ?c then _ else _] |- _ => destruct c eqn:Ec end; [reflexivity|].
  exfalso. unfold feed_pause in Ec. apply Z.ltb_ge in Ec.
  unfold wake_ok in *. cbn [wt] in *. destruct (wt s); cbn [size high set_wt] in *; lia.
Qed.

Theorem end_chunk_pauses s s' l :
  end_chunk s = (s', None) -> splits s' = Some l -> splits s <> Some l -> highc s' < len l -> paused s' = true.
Proof.
  unfold end_chunk. destruct (splits s) as [l0|] eqn:El; [|discriminate].
  destruct (empty_chunk _ _). { intros E; inversion E; subst. congruence. }
  intros E Hl _ Hh. inversion E; subst s'; clear E.
  destruct (chunk_pause (len (l0 ++ [total s])) (highc s)) eqn:Ec.
  - unfold wake_ok, do_pause. cbn. destruct (wt s); reflexivity.
  - exfalso. unfold chunk_pause in Ec. apply Z.ltb_ge in Ec.
    unfold wake_ok in *. cbn [wt] in *. destruct (wt s); cbn [splits highc set_wt] in *; inversion Hl; subst; lia.
Qed.

(* resume rule: after a consumption step the transport is paused only if the buffer is non-empty and
   still at or above the low-water mark, or too many chunk splits are outstanding *)
Definition pause_justified (s : st) : Prop :=
  paused s = true ->
  eof s = true \/ (low s <= size s /\ buf s <> []) \/ exists l, splits s = Some l /\ lowc s <= len l.

Lemma pj_apply_pitem it s : Wq true s -> paused s = false -> pause_justified (apply_pitem it s) /\ Wq true (apply_pitem it s).
Proof.
  intros HW Hp. split.
  - destruct it as [d|]; cbn [apply_pitem].
    + unfold feed_data. destruct (eof s); [intros E; cbn in E; congruence|].
      destruct d as [|x d]; [intros E; cbn in E; congruence|]. cbn [fst].
      match goal with |- pause_justified (if ?c then _ else _) => destruct c eqn:Ec end.
      * intros _. right. left. unfold feed_pause in Ec. apply Z.ltb_lt in Ec. destruct HW as [[_ W2] _].
        unfold wake_ok in *. cbn [wt] in *.
        destruct (wt s); cbn [low size high buf do_pause set_paused set_wt] in *;
          (split; [lia|destruct (buf s); discriminate]).
      * intros E. exfalso. unfold wake_ok in E. cbn [wt] in E. destruct (wt s); cbn in E; congruence.
    + destruct (splits s) as [l|] eqn:El; [|intros E; congruence]. unfold end_chunk. rewrite El.
      destruct (empty_chunk _ _); [intros E; cbn in E; congruence|]. cbn [fst highc].
      destruct (chunk_pause (len (l ++ [total s])) (highc s)) eqn:Ec.
      * intros _. right. right. exists (l ++ [total s]). unfold chunk_pause in Ec. apply Z.ltb_lt in Ec.
        destruct HW as [_ [_ W4]].
        unfold wake_ok, do_pause. cbn [wt set_paused]. destruct (wt s); cbn [splits lowc set_wt set_paused]; (split; [reflexivity|lia]).
      * intros E. exfalso. unfold wake_ok in E. cbn [wt] in E. destruct (wt s); cbn in E; congruence.
  - destruct it as [d|]; cbn [apply_pitem]; [apply W_feed; exact HW|].
    destruct (splits s); [apply W_end; exact HW|exact HW].
Qed.

Lemma pj_deliver items : forall s, Wq true s -> pause_justified s -> pause_justified (deliver items s).
Proof.
  induction items as [|it rest IH]; intros s HW H; cbn [deliver].
  - intros E. apply H. exact E.
  - destruct (paused s) eqn:Ep; cbn [orb].
    + intros E. apply H. exact E.
    + destruct (eof s); [intros E; cbn in E; congruence|].
      destruct (pj_apply_pitem it s HW Ep) as [H1 H2]. apply IH; assumption.
Qed.

Theorem rnc_resume_rule n f r s :
  Inv s -> Wq true s -> buf s = f :: r -> pause_justified (fst (rnc n f r s)).
Proof.
  intros HI HW Hb. unfold rnc.
  destruct (marks_consume n f r s) as [A [B [C D]]].
  assert (HW1 : Wq true (fst (consume n f r s))) by (apply (W_same _ s); assumption).
  destruct (consume n f r s) as [s1 d]. cbn [fst] in *.
  destruct (resume_cond s1) eqn:Er.
  - unfold do_resume. cbv zeta. apply pj_deliver.
    + apply (W_same _ s1); try reflexivity; exact HW1.
    + intros E. cbn in E. discriminate.
  - intros _. unfold resume_cond in Er. apply andb_false_iff in Er as [Er|Er]; [apply andb_false_iff in Er as [Er|Er]|].
    + left. destruct (eof s1); [reflexivity|]. vm_compute in Er. discriminate.
    + right. left. unfold resume_bytes in Er. apply orb_false_iff in Er as [E1 E2]. unfold resume_size in E1.
      split; [lia|]. destruct (buf s1); [discriminate|discriminate].
    + right. right. destruct (splits s1) as [l|]; [|discriminate]. exists l. split; [reflexivity|].
      unfold resume_chunks in Er. lia.
Qed.

(* the byte marks stay ordered in every reachable state when limit >= 0 *)
Theorem Wb_run limit ops : 0 <= limit -> Wq true (sst (fst (run ops (init_sys limit)))).
Proof.
  intros H.
  apply (run_SysP (Wq true)).
  - intros; apply W_feed; assumption.
  - intros s Hs. unfold begin_chunk. destruct (splits s); [exact Hs|]. destruct (total s =? 0); [|exact Hs].
    apply (W_same _ s); try reflexivity; exact Hs.
  - intros; apply W_end; assumption.
  - intros s Hs. unfold feed_eof. destruct (marks_wake_ok (set_eof s true)) as [A [B [C D]]].
    apply (W_same _ s); cbn [low high lowc highc set_paused]; assumption.
  - intros e s Hs. unfold set_exception, wake_exc. cbn [wt set_exc].
    destruct (wt s); apply (W_same _ s); try reflexivity; exact Hs.
  - intros s v Hs. apply (W_same _ s); try reflexivity; exact Hs.
  - intros n f r s Hs _ _. cbv zeta. destruct (marks_consume n f r s) as [A [B [C D]]].
    destruct (resume_cond _); apply (W_same _ s); cbn [low high lowc highc set_paused]; assumption.
  - intros; apply W_marks; assumption.
  - intros s Hs _ _ _ _. apply (W_same _ s); try reflexivity; exact Hs.
  - intros s Hs. apply (W_same _ s); try reflexivity; exact Hs.
  - intros s l1 l2 Hs _ _. apply (W_same _ s); try reflexivity; exact Hs.
  - intros d s Hs _. unfold unread. destruct d; [exact Hs|]. apply (W_same _ s); try reflexivity; exact Hs.
  - split; [apply W_init; intros _; exact H|reflexivity].
Qed.

(* ---- a reader never stays suspended on a pending waiter once an exception is set --------------
   (repair 497a2a6: _wait raises a pending exception before it creates the waiter; set_exception
   fails the waiter if there is one) *)
Definition NE (s : st) : Prop := wt s = Waiting -> exc s = None.

Lemma NE_feed d s : NE s -> NE (fst (feed_data d s)).
Proof.
  unfold NE. intros H. unfold feed_data. destruct (eof s); [exact H|]. destruct d as [|x d]; [exact H|].
  cbn [fst]. unfold wake_ok. cbn [wt].
  destruct (wt s) eqn:Ew; cbn [size high set_wt];
    match goal with |- context [if ?c then _ else _] => destruct c end;
    cbn [wt exc do_pause set_paused set_wt]; intros E; try discriminate; auto.
Qed.

Lemma NE_end s : NE s -> NE (fst (end_chunk s)).
Proof.
  unfold NE. intros H. unfold end_chunk. destruct (splits s); [|exact H]. destruct (empty_chunk _ _); [exact H|].
  cbn [fst highc]. unfold wake_ok.
  match goal with |- context [if ?c then _ else _] => destruct c end; unfold do_pause; cbn [wt set_paused];
    destruct (wt s) eqn:Ew; cbn [wt exc set_wt set_paused]; intros E; try discriminate; auto.
Qed.

Theorem NE_run limit ops : NE (sst (fst (run ops (init_sys limit)))).
Proof.
  apply (run_SysP NE).
  - intros; apply NE_feed; assumption.
  - intros s Hs. unfold begin_chunk. destruct (splits s); [exact Hs|]. destruct (total s =? 0); exact Hs.
  - intros; apply NE_end; assumption.
  - intros s Hs. unfold NE, feed_eof. cbn [wt exc set_paused]. intros E. exfalso. exact (wake_ok_not_waiting _ E).
  - intros e s Hs. unfold NE, set_exception, wake_exc. cbn [wt set_exc].
    destruct (wt s) eqn:Ew; cbn [wt exc set_wt set_exc]; intros E; try discriminate; congruence.
  - intros s v Hs. exact Hs.
  - intros n f r s Hs Hw _. cbv zeta. pose proof (consume_wt n f r s) as E.
    destruct (resume_cond _); unfold NE; cbn [wt set_paused]; rewrite E, Hw; discriminate.
  - intros n s Hs. unfold set_chunk_size. destruct (chunk_size_raises _ _); exact Hs.
  - intros s Hs _ _ _ Hx. unfold NE. cbn [wt exc set_wt]. intros _.
    unfold wait_exc, wait_checks_exception in Hx. exact Hx.
  - intros s Hs. unfold NE. cbn [wt set_wt]. discriminate.
  - intros s l1 l2 Hs _ _. exact Hs.
  - intros d s Hs Hw. unfold NE, unread. destruct d; [exact Hs|]. cbn [wt]. rewrite Hw. discriminate.
  - split; [unfold NE; cbn; discriminate|reflexivity].
Qed.

(* so: if an exception is set, the reader task (if any) is either running/finished or already woken,
   and its next loop turn completes the call *)
Theorem exception_unblocks limit ops :
  let y := fst (run ops (init_sys limit)) in
  exc (sst y) <> None -> wt (sst y) <> Waiting.
Proof. intros y Hx Hw. apply Hx. apply (NE_run limit ops). exact Hw. Qed.

Theorem woken_reader_completes_on_exception y k e :
  task y = Some k -> wt (sst y) = WokenExc e ->
  snd (step ORun y) = ObDone (RRaise (ExStream e) (acc_of k)) /\ task (fst (step ORun y)) = None.
Proof. intros Ht Hw. cbn [step]. rewrite Ht, Hw. split; reflexivity. Qed.
