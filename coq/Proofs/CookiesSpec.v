(* C16 — reading the reference store's answer in RFC 6265 terms, executable versions of the hypotheses,
   and "a response changes only cookies of its own host's domain". *)
From AV Require Import Lib.Base Generated.CookiesGen Model.Cookies Proofs.CookiesStrings Proofs.CookiesJar Proofs.CookiesSound.
Open Scope N_scope.

(* ------------------------------------------------------------ what the reference store attaches *)

Definition rfc_allows (r : rcookie) (u : url) (now : Z) : Prop :=
  (if r_host_only r then r_domain r = u_host u else domain_match (r_domain r) (u_host u)) /\
  path_match (r_path r) (u_path u) /\
  (r_secure r = true -> u_secure u = true) /\
  (forall e, r_expiry r = Some e -> (now < e)%Z).

Lemma rfc_sendable_spec u now r : rfc_sendable u now r = true <-> rfc_allows r u now.
Proof.
  unfold rfc_sendable, rfc_allows. rewrite !andb_true_iff.
  rewrite rfc_path_match_spec.
  assert (D : (if r_host_only r then list_eqb (r_domain r) (u_host u) else rfc_domain_match (r_domain r) (u_host u)) = true
              <-> (if r_host_only r then r_domain r = u_host u else domain_match (r_domain r) (u_host u))).
  { destruct (r_host_only r); [apply list_eqb_eq|apply rfc_domain_match_spec]. }
  rewrite D.
  assert (S : negb (r_secure r) || u_secure u = true <-> (r_secure r = true -> u_secure u = true)).
  { destruct (r_secure r), (u_secure u); simpl; split; auto; intro H; discriminate (H eq_refl). }
  rewrite S.
  assert (L : r_live r now = true <-> (forall e, r_expiry r = Some e -> (now < e)%Z)).
  { unfold r_live. destruct (r_expiry r) as [e|].
    - rewrite Z.ltb_lt. split; [intros H e' E; inversion E; subst; exact H|intro H; apply H; reflexivity].
    - split; [intros _ e E; discriminate|reflexivity]. }
  rewrite L. tauto.
Qed.

Lemma rfc_filter_spec s u now n v :
  In (n, v) (rfc_filter s u now) <->
  exists r, In r s /\ r_name r = n /\ r_value r = v /\ rfc_allows r u now.
Proof.
  unfold rfc_filter. rewrite in_map_iff. split.
  - intros [r [E H]]. apply filter_In in H. destruct H as [Hr Hs]. inversion E. subst.
    exists r. split; [exact Hr|]. split; [reflexivity|]. split; [reflexivity|]. apply rfc_sendable_spec. exact Hs.
  - intros [r [Hr [A [B C]]]]. exists r. split; [rewrite A, B; reflexivity|].
    apply filter_In. split; [exact Hr|]. apply rfc_sendable_spec. exact C.
Qed.

(* the reference store only ever holds cookies whose domain domain-matches the host that set them:
   a received cookie enters under the host itself or under a Domain attribute that domain-matches it *)
Lemma rfc_set1_own_domain u now s m r :
  In r (rfc_set1 u now s m) -> In r s \/ (domain_match (r_domain r) (u_host u) /\ r_name r = m_name m /\ r_value r = m_value m).
Proof.
  unfold rfc_set1. destruct (is_nil (rfc_domain_attr m)) eqn:E.
  - intros [<-|H]; [right; simpl; split; [left; reflexivity|auto]|left; apply filter_In in H; tauto].
  - destruct (rfc_domain_match (rfc_domain_attr m) (u_host u)) eqn:M; [|auto].
    intros [<-|H]; [right; simpl; split; [apply rfc_domain_match_spec; exact M|auto]|left; apply filter_In in H; tauto].
Qed.

(* ------------------------------------------------------------ executable hypotheses *)

Fixpoint no_dotdot (h : str) : bool :=
  match h with
  | a :: t => match t with
              | b :: _ => negb ((a =? DOT) && (b =? DOT)) && no_dotdot t
              | [] => true
              end
  | [] => true
  end.

Lemma no_dotdot_spec h : no_dotdot h = true -> forall p q, h <> p ++ DOT :: DOT :: q.
Proof.
  intros H p. revert h H. induction p as [|x p IH]; intros h H q E; subst.
  - simpl in H. discriminate.
  - simpl in H. destruct (p ++ DOT :: DOT :: q) as [|b t] eqn:F; [destruct p; discriminate|].
    apply andb_true_iff in H. destruct H as [_ H]. apply (IH _ H q). symmetry. exact F.
Qed.

Definition wf_hostb (h : str) : bool := negb (is_nil h) && negb (first_is DOT h) && no_dotdot h.

Lemma wf_hostb_sound h : wf_hostb h = true -> wf_host h.
Proof.
  unfold wf_hostb, wf_host. rewrite !andb_true_iff, !negb_true_iff. intros [[A B] C].
  split; [destruct h; [discriminate|congruence]|]. split; [exact B|apply no_dotdot_spec; exact C].
Qed.

(* the hypothesis of the main theorem, executable: only the response hosts are constrained *)
Definition op_okb (o : op) : bool :=
  match o with OSet u _ => wf_hostb (u_host u) | _ => true end.

Lemma op_okb_sound o : op_okb o = true -> op_ok o.
Proof. destruct o; simpl; auto. apply wf_hostb_sound. Qed.

Lemma ops_okb_sound ops : forallb op_okb ops = true -> Forall op_ok ops.
Proof.
  intro H. apply Forall_forall. intros o Ho. apply op_okb_sound. rewrite forallb_forall in H. apply H. exact Ho.
Qed.

(* every attached cookie is one the RFC allows for this request *)
Definition attached_allowed (unsafe : bool) (t0 : Z) (ops : list op) : Prop :=
  outputs_sound (snd (run (empty_jar unsafe, t0) ops)) (snd (rfc_run unsafe ([], t0) ops)).

Theorem no_leak_b unsafe t0 ops : forallb op_okb ops = true -> attached_allowed unsafe t0 ops.
Proof. intro H. apply no_leak. apply ops_okb_sound. exact H. Qed.

(* ------------------------------------------------------------ a response touches only its own domain *)

Lemma update1_own u now j m k c : u_host u <> [] ->
  In (k, c) (j_cookies (update1 u now j m)) ->
  In (k, c) (j_cookies j) \/ (domain_match (k_dom k) (u_host u) /\ k_name k = m_name m /\ c_value c = m_value m).
Proof.
  intros Hne. rewrite update1_unfold. cbv zeta.
  assert (MC : j_cookies (mark j u m) = j_cookies j) by (unfold mark; destruct (marks_host_only m); reflexivity).
  destruct (negb (is_nil (u_host u)) && negb (is_domain_match (effective_domain u m) (u_host u))) eqn:E.
  - rewrite MC. auto.
  - simpl. rewrite stage_expiry_cookies, MC. intro H. apply In_upsert in H. destruct H as [H|[H _]]; [|auto].
    inversion H. subst. right. unfold k_dom, k_name, stored. simpl. split; [|auto].
    apply is_domain_match_spec. apply andb_false_iff in E. destruct E as [E|E].
    + destruct (u_host u); [congruence|discriminate].
    + apply negb_false_iff in E. exact E.
Qed.

Lemma update1_host_only_own u now j m x :
  In x (j_host_only (update1 u now j m)) -> In x (j_host_only j) \/ x = (u_host u, m_name m).
Proof.
  rewrite update1_unfold. cbv zeta.
  assert (MH : In x (j_host_only (mark j u m)) -> In x (j_host_only j) \/ x = (u_host u, m_name m)).
  { unfold mark. destruct (marks_host_only m); [|auto]. simpl. intro H. apply mem_dn_In in H.
    apply mem_add_dn in H. destruct H as [H|H]; [auto|left; apply mem_dn_In; exact H]. }
  destruct (negb (is_nil (u_host u)) && negb (is_domain_match (effective_domain u m) (u_host u))); [exact MH|].
  simpl. rewrite stage_expiry_host_only. exact MH.
Qed.

Lemma delete_cookies_host_only ks : forall j x, In x (j_host_only (delete_cookies j ks)) -> In x (j_host_only j).
Proof.
  induction ks as [|k ks IH]; intros j x H; simpl in *; [exact H|].
  apply IH in H. unfold delete_cookie in H. simpl in H.
  destruct (name_remains _ _ _); [exact H|]. apply mem_dn_In in H. apply mem_remove_dn in H. apply mem_dn_In. tauto.
Qed.

Lemma do_expiration_host_only j now x : In x (j_host_only (do_expiration j now)) -> In x (j_host_only j).
Proof.
  rewrite do_expiration_unfold. destruct (is_nil (j_heap j)); [auto|]. intro H. apply delete_cookies_host_only in H. exact H.
Qed.

(* update_cookies(cookies, response_url): every cookie present afterwards was there before, unchanged,
   or lies in a domain the response host domain-matches and carries a name/value from this response;
   and only (response host, name) pairs are newly marked host-only *)
Theorem set_only_own_domain j u ms now : u_host u <> [] ->
  (forall k c, In (k, c) (j_cookies (update j u ms now)) ->
     In (k, c) (j_cookies j) \/
     (domain_match (k_dom k) (u_host u) /\ exists m, In m ms /\ k_name k = m_name m /\ c_value c = m_value m)) /\
  (forall x, In x (j_host_only (update j u ms now)) ->
     In x (j_host_only j) \/ (fst x = u_host u /\ exists m, In m ms /\ snd x = m_name m)).
Proof.
  intro Hne. unfold update. destruct (negb (j_unsafe j) && is_ip (u_host u)); [split; auto|].
  assert (G : forall ms j0,
    (forall k c, In (k, c) (j_cookies (fold_left (update1 u now) ms j0)) ->
       In (k, c) (j_cookies j0) \/
       (domain_match (k_dom k) (u_host u) /\ exists m, In m ms /\ k_name k = m_name m /\ c_value c = m_value m)) /\
    (forall x, In x (j_host_only (fold_left (update1 u now) ms j0)) ->
       In x (j_host_only j0) \/ (fst x = u_host u /\ exists m, In m ms /\ snd x = m_name m))).
  { clear j ms. intro ms. induction ms as [|m ms IH]; intro j0; simpl; [split; auto|].
    destruct (IH (update1 u now j0 m)) as [A B]. split.
    - intros k c H. destruct (A k c H) as [H1|[D [m' [Hm' E]]]].
      + apply (update1_own u now j0 m k c Hne) in H1. destruct H1 as [H1|[D E]]; [auto|].
        right. split; [exact D|]. exists m. auto.
      + right. split; [exact D|]. exists m'. auto.
    - intros x H. destruct (B x H) as [H1|[D [m' [Hm' E]]]].
      + apply update1_host_only_own in H1. destruct H1 as [H1|H1]; [auto|].
        right. subst x. simpl. split; [reflexivity|]. exists m. auto.
      + right. split; [exact D|]. exists m'. auto. }
  destruct (G ms j) as [A B]. split.
  - intros k c H. apply (do_expiration_sub _ now k c) in H. apply A. apply H.
  - intros x H. apply do_expiration_host_only in H. apply B. exact H.
Qed.

(* ------------------------------------------------------------ ... and leaves every other cookie alone *)

Lemma delete_cookies_keeps ks : forall j k c, ~ In k ks -> In (k, c) (j_cookies j) ->
  In (k, c) (j_cookies (delete_cookies j ks)) /\
  lookup k (j_expirations (delete_cookies j ks)) = lookup k (j_expirations j).
Proof.
  induction ks as [|k1 ks IH]; intros j k c N H; simpl; [auto|].
  assert (N1 : k <> k1) by (intro; subst; apply N; left; reflexivity).
  destruct (IH (delete_cookie j k1) k c) as [A B].
  - intro Hin. apply N. right. exact Hin.
  - unfold delete_cookie. simpl. apply In_remove_key. auto.
  - split; [exact A|]. rewrite B. unfold delete_cookie. simpl. apply lookup_remove_key_other. exact N1.
Qed.

Lemma do_expiration_keeps j now k c : In (k, c) (j_cookies j) ->
  (forall w, lookup k (j_expirations j) = Some w -> (now < w)%Z) ->
  In (k, c) (j_cookies (do_expiration j now)) /\
  lookup k (j_expirations (do_expiration j now)) = lookup k (j_expirations j).
Proof.
  intros H L. rewrite do_expiration_unfold. destruct (is_nil (j_heap j)); [auto|].
  match goal with |- context [delete_cookies (set_heap j ?st) ?ks] =>
    apply (delete_cookies_keeps ks (set_heap j st) k c); [|exact H] end.
  intro Hin. apply in_map_iff in Hin. destruct Hin as [[w k'] [E Hin]]. simpl in E. subst k'.
  apply filter_In in Hin. destruct Hin as [Hin D]. simpl in D. apply deadline_is_true in D.
  apply filter_In in Hin. destruct Hin as [_ S]. simpl in S.
  specialize (L w D). unfold heap_entry_stays in S. apply negb_true_iff in S. lia.
Qed.

Lemma update1_foreign u now j m k c : u_host u <> [] ->
  In (k, c) (j_cookies j) -> ~ domain_match (k_dom k) (u_host u) ->
  In (k, c) (j_cookies (update1 u now j m)) /\
  lookup k (j_expirations (update1 u now j m)) = lookup k (j_expirations j).
Proof.
  intros Hne H ND. rewrite update1_unfold. cbv zeta.
  assert (MC : j_cookies (mark j u m) = j_cookies j) by (unfold mark; destruct (marks_host_only m); reflexivity).
  assert (ME : j_expirations (mark j u m) = j_expirations j) by (unfold mark; destruct (marks_host_only m); reflexivity).
  destruct (negb (is_nil (u_host u)) && negb (is_domain_match (effective_domain u m) (u_host u))) eqn:E.
  - rewrite MC, ME. auto.
  - assert (M : is_domain_match (effective_domain u m) (u_host u) = true).
    { apply andb_false_iff in E. destruct E as [E|E].
      - destruct (u_host u); [congruence|discriminate].
      - apply negb_false_iff in E. exact E. }
    assert (NK : k <> (effective_domain u m, rstrip SLASH (cookie_path u m), m_name m)).
    { intro Ek. apply ND. subst k. unfold k_dom. simpl. apply is_domain_match_spec. exact M. }
    simpl. rewrite stage_expiry_cookies, MC. split.
    + apply In_upsert. right. auto.
    + rewrite stage_expiry_other by exact NK. rewrite ME. reflexivity.
Qed.

(* a response cannot replace or remove a cookie of a domain its host does not domain-match: such a cookie
   (unless its own deadline has passed) is still there afterwards, with the same value and deadline *)
Theorem foreign_cookies_untouched j u ms now k c : u_host u <> [] ->
  In (k, c) (j_cookies j) -> ~ domain_match (k_dom k) (u_host u) ->
  (forall w, lookup k (j_expirations j) = Some w -> (now < w)%Z) ->
  In (k, c) (j_cookies (update j u ms now)) /\
  lookup k (j_expirations (update j u ms now)) = lookup k (j_expirations j).
Proof.
  intros Hne H ND L. unfold update. destruct (negb (j_unsafe j) && is_ip (u_host u)); [auto|].
  assert (G : forall ms j0, In (k, c) (j_cookies j0) ->
    In (k, c) (j_cookies (fold_left (update1 u now) ms j0)) /\
    lookup k (j_expirations (fold_left (update1 u now) ms j0)) = lookup k (j_expirations j0)).
  { clear H L ms. intro ms. induction ms as [|m ms IH]; intros j0 H0; simpl; [auto|].
    destruct (update1_foreign u now j0 m k c Hne H0 ND) as [A B].
    destruct (IH _ A) as [A2 B2]. split; [exact A2|congruence]. }
  destruct (G ms j H) as [A B].
  destruct (do_expiration_keeps (fold_left (update1 u now) ms j) now k c A) as [A2 B2].
  - intros w Lw. apply L. rewrite <- B. exact Lw.
  - split; [exact A2|congruence].
Qed.
