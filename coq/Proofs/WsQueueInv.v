(* C11 — WebSocketDataQueue: nothing is lost, duplicated or reordered between feed_data and read(), whatever the
   interleaving of feeds, reads and cancellations. *)
From AV Require Import Lib.Base Generated.WsCodecGen Model.Ws Model.WsQueue.
From Coq Require Import ZifyBool ZifyN.
Open Scope N_scope.

Definition qinv (st : qstate) : Prop := q_got st ++ q_buf st = q_fed st.

Lemma qstep_inv st e st' : qinv st -> qstep st e = Some st' -> qinv st'.
Proof.
  unfold qinv. intros I S. destruct st as [buf reading got fed]. cbn [q_buf q_reading q_got q_fed] in *.
  destruct e as [m| | |]; cbn [qstep q_buf q_reading q_got q_fed] in S.
  - injection S as <-. cbn. rewrite app_assoc, I. reflexivity.
  - destruct reading; [discriminate|]. injection S as <-. cbn. exact I.
  - destruct reading; [|discriminate]. destruct buf as [|m b]; [discriminate|].
    injection S as <-. cbn. rewrite <- app_assoc. exact I.
  - destruct reading; [|discriminate]. injection S as <-. cbn. exact I.
Qed.

Theorem queue_exactly_once evs : forall st st', qinv st -> qrun st evs = Some st' -> qinv st'.
Proof.
  induction evs as [|e evs IH]; intros st st' I R; cbn [qrun] in R.
  - injection R as <-. exact I.
  - destruct (qstep st e) as [s1|] eqn:E; [|discriminate]. eapply IH; [|exact R]. eapply qstep_inv; eassumption.
Qed.

Corollary queue_from_init evs st : qrun qinit evs = Some st -> q_got st ++ q_buf st = q_fed st.
Proof. apply queue_exactly_once. reflexivity. Qed.

(* a read cancelled after the message that woke it arrived loses nothing: the next read returns that message *)
Lemma cancel_after_wake_keeps_message m m2 : exists st,
  qrun qinit [QRead; QFeed m; QCancel; QRead; QFeed m2; QReturn] = Some st /\ q_got st = [m] /\ q_buf st = [m2].
Proof. eexists. cbn. repeat split. Qed.

(* ---- read flow control: an empty queue is never left paused ----------------------------------------------------- *)
Definition sumN (l : list N) : N := fold_right N.add 0 l.

Lemma sumN_app a b : sumN (a ++ b) = sumN a + sumN b.
Proof. induction a as [|x a IH]; cbn [sumN fold_right app]; [reflexivity|]. fold (sumN (a ++ b)) (sumN a). lia. Qed.

Definition flinv (st : flstate) : Prop := fl_size st = sumN (fl_buf st) /\ (fl_buf st = [] -> fl_paused st = false).

Lemma flstep_inv lim st e st' : 0 < lim -> flinv st -> flstep lim st e = Some st' -> flinv st'.
Proof.
  intros L (S & P) ST. unfold flinv. destruct e as [sz|]; cbn [flstep] in ST.
  - injection ST as <-. cbn [fl_buf fl_size fl_paused]. split.
    + rewrite sumN_app, S. cbn. lia.
    + intro E. destruct (fl_buf st); discriminate E.
  - destruct (fl_buf st) as [|sz b] eqn:B; [discriminate|]. injection ST as <-. cbn [fl_buf fl_size fl_paused]. split.
    + rewrite S. cbn [sumN fold_right]. fold (sumN b). lia.
    + intros ->. rewrite S. cbn [sumN fold_right]. unfold queue_resume_test.
      destruct (sz + 0 - sz <? lim) eqn:E; [reflexivity|lia].
Qed.

Theorem drained_queue_is_not_paused lim evs : forall st st',
  0 < lim -> flinv st -> flrun lim st evs = Some st' -> flinv st'.
Proof.
  induction evs as [|e evs IH]; intros st st' L I R; cbn [flrun] in R.
  - injection R as <-. exact I.
  - destruct (flstep lim st e) as [s1|] eqn:E; [|discriminate]. eapply IH; [exact L| |exact R]. eapply flstep_inv; eassumption.
Qed.

Corollary drained_from_init lim evs st :
  0 < lim -> flrun lim flinit evs = Some st -> fl_buf st = [] -> fl_paused st = false /\ fl_size st = 0.
Proof.
  intros L R E. destruct (drained_queue_is_not_paused lim evs flinit st L ltac:(split; reflexivity) R) as (S & P).
  split; [exact (P E)|]. rewrite S, E. reflexivity.
Qed.
