(* C11 — WebSocketDataQueue: nothing is lost, duplicated or reordered between feed_data and read(), whatever the
   interleaving of feeds, reads and cancellations. *)
From AV Require Import Lib.Base Model.Ws Model.WsQueue.
Open Scope N_scope.

Definition qinv (st : qstate) : Prop := q_got st ++ q_buf st = q_fed st.

Lemma qstep_inv st e st' : qinv st -> qstep st e = Some st' -> qinv st'.
Proof.
  unfold qinv. intros I S. destruct st as [buf reading got fed]. cbn [q_buf q_reading q_got q_fed] in *.
  destruct e as [m| | |]; cbn [qstep q_buf q_reading q_got q_fed] in S.
  - injection S as <-. cbn. rewrite app_assoc, I. reflexivity.
  - destruct reading; [discriminate|]. injection S as <-. cbn. exact I.
  - destruct reading; [|discriminate]. destruct buf as [|m b]; [discriminate|].
    injection S as <-. cbn. rewrite <- app_assoc. exact I.
  - destruct reading; [|discriminate]. injection S as <-. cbn. exact I.
Qed.

Theorem queue_exactly_once evs : forall st st', qinv st -> qrun st evs = Some st' -> qinv st'.
Proof.
  induction evs as [|e evs IH]; intros st st' I R; cbn [qrun] in R.
  - injection R as <-. exact I.
  - destruct (qstep st e) as [s1|] eqn:E; [|discriminate]. eapply IH; [|exact R]. eapply qstep_inv; eassumption.
Qed.

Corollary queue_from_init evs st : qrun qinit evs = Some st -> q_got st ++ q_buf st = q_fed st.
Proof. apply queue_exactly_once. reflexivity. Qed.

(* a read cancelled after the message that woke it arrived loses nothing: the next read returns that message *)
Lemma cancel_after_wake_keeps_message m m2 : exists st,
  qrun qinit [QRead; QFeed m; QCancel; QRead; QFeed m2; QReturn] = Some st /\ q_got st = [m] /\ q_buf st = [m2].
Proof. eexists. cbn. repeat split. Qed.
