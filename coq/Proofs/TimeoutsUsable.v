(* C18 — the session remains usable: once every earlier request has ended (however it ended), a new
   request served by a cooperative peer completes. *)
From Coq Require Import ZArith Lia Bool List.
From AV Require Import Lib.Base Generated.TimeoutsGen Model.Timeouts Proofs.TimeoutsEff Proofs.TimeoutsInv.
Open Scope Z_scope.

Lemma free_pool_no_wait l : 0 <= l -> connect_must_wait (available_connections l 0 0 0) = false.
Proof.
  intro H. unfold connect_must_wait, available_connections. cbv zeta.
  destruct (l =? 0) eqn:E; simpl.
  - reflexivity.
  - apply Z.eqb_neq in E. replace (l - 0) with l by lia.
    destruct (l <=? 0) eqn:E2; [apply Z.leb_le in E2; lia|]. simpl. assumption.
Qed.

Definition head_ready (ts : tstate) : Prop :=
  pcs ts = PHeaders /\ paused ts = false /\ latched ts = None /\ rp ts = RHead /\ exists k, conn_of ts = Some k.

Lemma to_headers_ready ts k nw : head_ready (to_headers ts k nw).
Proof. unfold head_ready, to_headers. destruct (c_block _); simpl; repeat split; eauto. Qed.

Lemma usable_dns g s t :
  pcs (tasks s t) = PResolve -> dns s = DInflight ->
  exists s1, step g s EDns = Some s1 /\ pcs (tasks s1 t) = PConnect.
Proof. intros P D. simpl. rewrite D. eexists. split; [reflexivity|]. simpl. rewrite P. reflexivity. Qed.

Lemma usable_conn g s t :
  pcs (tasks s t) = PConnect -> exists s1, step g s (EConn t) = Some s1 /\ head_ready (tasks s1 t).
Proof.
  intro P. simpl. rewrite P. eexists. split; [reflexivity|]. simpl. rewrite upd_same. apply to_headers_ready.
Qed.

Lemma usable_head g s t :
  head_ready (tasks s t) ->
  exists s1, step g s (EData t KHead) = Some s1 /\
    pcs (tasks s1 t) = PBody false /\ paused (tasks s1 t) = false /\ latched (tasks s1 t) = None /\
    rp (tasks s1 t) = RBody false /\ exists k, conn_of (tasks s1 t) = Some k.
Proof.
  intros [P [Pa [La [R [k C]]]]]. simpl. rewrite Pa, La, P, R. eexists. split; [reflexivity|].
  simpl. rewrite upd_same. simpl. repeat split; eauto.
Qed.

Lemma usable_read g s t :
  pcs (tasks s t) = PBody false -> paused (tasks s t) = false -> latched (tasks s t) = None ->
  exists s1, step g s (ERead t) = Some s1 /\
    tasks s1 t = set_pc (tasks s t) (PBody true).
Proof.
  intros P Pa La. simpl. rewrite P, La. eexists. split; [reflexivity|].
  simpl. rewrite upd_same. unfold read_ts. rewrite Pa. reflexivity.
Qed.

Lemma usable_end g s t b k :
  pcs (tasks s t) = PBody true -> paused (tasks s t) = false -> latched (tasks s t) = None ->
  rp (tasks s t) = RBody b -> conn_of (tasks s t) = Some k ->
  exists s1, step g s (EData t KEnd) = Some s1 /\ pcs (tasks s1 t) = PDone.
Proof.
  intros P Pa La R C. simpl. rewrite Pa, La, P, R, C. eexists. split; [reflexivity|].
  destruct (writer (tasks s t)); rewrite wake_give_back_own; reflexivity.
Qed.

(* from the moment the request owns a connection *)
Lemma usable_from_headers g s t :
  head_ready (tasks s t) ->
  exists s', run g s [EData t KHead; ERead t; EData t KEnd] = Some s' /\ pcs (tasks s' t) = PDone.
Proof.
  intro Hr. destruct (usable_head g s t Hr) as [s1 [E1 [P1 [Pa1 [La1 [R1 [k C1]]]]]]].
  destruct (usable_read g s1 t P1 Pa1 La1) as [s2 [E2 T2]].
  destruct (usable_end g s2 t false k) as [s3 [E3 P3]]; try (rewrite T2; simpl; assumption).
  - rewrite T2. reflexivity.
  - exists s3. split; [|assumption]. cbn [run]. rewrite E1. cbn [run]. rewrite E2. cbn [run]. rewrite E3. reflexivity.
Qed.

Lemma usable_from_connect g s t :
  pcs (tasks s t) = PConnect ->
  exists s', run g s [EConn t; EData t KHead; ERead t; EData t KEnd] = Some s' /\ pcs (tasks s' t) = PDone.
Proof.
  intro P. destruct (usable_conn g s t P) as [s1 [E1 Hr]].
  destruct (usable_from_headers g s1 t Hr) as [s' [R Pd]].
  exists s'. split; [|assumption]. change (run g s (EConn t :: [EData t KHead; ERead t; EData t KEnd]) = Some s').
  cbn [run]. rewrite E1. exact R.
Qed.

Lemma usable_from_resolve g s t :
  pcs (tasks s t) = PResolve -> dns s = DInflight ->
  exists s', run g s [EDns; EConn t; EData t KHead; ERead t; EData t KEnd] = Some s' /\ pcs (tasks s' t) = PDone.
Proof.
  intros P D. destruct (usable_dns g s t P D) as [s1 [E1 Pc]].
  destruct (usable_from_connect g s1 t Pc) as [s' [R Pd]].
  exists s'. split; [|assumption].
  change (run g s (EDns :: [EConn t; EData t KHead; ERead t; EData t KEnd]) = Some s').
  cbn [run]. rewrite E1. exact R.
Qed.

Lemma session_usable g tr s t c :
  0 <= limit g -> run g init tr = Some s ->
  (forall t', live (pcs (tasks s t')) = false) -> ~ In t (ids s) ->
  exists tr' s', run g s (EStart t c :: tr') = Some s' /\ pcs (tasks s' t) = PDone.
Proof.
  intros Hl H Dead Hni. pose proof (reach_inv g tr s H) as I.
  assert (Et : tasks s t = idle_ts) by (destruct (i_ids _ _ I t); [contradiction|assumption]).
  assert (Ea : acq s = []).
  { destruct (acq s) as [|x l] eqn:E; [reflexivity|]. exfalso.
    assert (X : In x (acq s)) by (rewrite E; left; reflexivity).
    apply (i_acq _ _ I) in X. unfold pc_of in X. specialize (Dead x).
    destruct (pcs (tasks s x)) as [| | | | |[|]| | |]; simpl in *; discriminate. }
  assert (M : memN t (ids s) = false).
  { destruct (memN t (ids s)) eqn:E; [|reflexivity]. apply memN_In in E. contradiction. }
  assert (Av : connect_must_wait (avail g s) = false).
  { unfold avail. rewrite Ea. simpl. now apply free_pool_no_wait. }
  (* the state after EStart, by cases on the pool and the DNS cache *)
  destruct (idle s) as [|k rest] eqn:Ei.
  - destruct (dns s) eqn:Ed.
    + (* no lookup yet: the request starts one *)
      assert (S1 : exists s1, step g s (EStart t c) = Some s1 /\ pcs (tasks s1 t) = PResolve /\ dns s1 = DInflight).
      { simpl. rewrite M, Et. simpl. rewrite Ei, Av. eexists. split; [reflexivity|].
        unfold acquire. simpl. rewrite Ed. simpl. rewrite !upd_same. auto. }
      destruct S1 as [s1 [E1 [P1 D1]]]. destruct (usable_from_resolve g s1 t P1 D1) as [s' [R Pd]].
      eexists. exists s'. split; [|exact Pd]. cbn [run]. rewrite E1. exact R.
    + assert (S1 : exists s1, step g s (EStart t c) = Some s1 /\ pcs (tasks s1 t) = PResolve /\ dns s1 = DInflight).
      { simpl. rewrite M, Et. simpl. rewrite Ei, Av. eexists. split; [reflexivity|].
        unfold acquire. simpl. rewrite Ed. simpl. rewrite !upd_same. auto. }
      destruct S1 as [s1 [E1 [P1 D1]]]. destruct (usable_from_resolve g s1 t P1 D1) as [s' [R Pd]].
      eexists. exists s'. split; [|exact Pd]. cbn [run]. rewrite E1. exact R.
    + assert (S1 : exists s1, step g s (EStart t c) = Some s1 /\ pcs (tasks s1 t) = PConnect).
      { simpl. rewrite M, Et. simpl. rewrite Ei, Av. eexists. split; [reflexivity|].
        unfold acquire. simpl. rewrite Ed. simpl. rewrite !upd_same. reflexivity. }
      destruct S1 as [s1 [E1 P1]]. destruct (usable_from_connect g s1 t P1) as [s' [R Pd]].
      eexists. exists s'. split; [|exact Pd]. cbn [run]. rewrite E1. exact R.
  - (* an idle pooled connection is reused *)
    assert (S1 : exists s1, step g s (EStart t c) = Some s1 /\ head_ready (tasks s1 t)).
    { simpl. rewrite M, Et. simpl. rewrite Ei. eexists. split; [reflexivity|].
      unfold acquire. simpl. rewrite !upd_same. apply to_headers_ready. }
    destruct S1 as [s1 [E1 Hr]]. destruct (usable_from_headers g s1 t Hr) as [s' [R Pd]].
    eexists. exists s'. split; [|exact Pd]. cbn [run]. rewrite E1. exact R.
Qed.
