(* Termination of the part-reading loops (BodyPartReader.read / release / the user's read_chunk loop):
   every read_chunk call with size > 0 that neither raises nor reaches at_eof strictly decreases
   [measure] = 4 * (2 * bytes still in the stream + |_prev_chunk|) + (3 - _content_eof),
   so the loops finish within measure + 1 iterations, for every stream state, segmentation and chunk size.
   The readline loop has no such measure: see readline_loop_spins. *)
From AV Require Import Lib.Base Generated.MultipartGen Model.Multipart Proofs.MultipartStream.
From Coq Require Import ZifyBool ZifyN ZifyNat.
Open Scope N_scope.
Ltac Zify.zify_post_hook ::= Z.to_euclidean_division_equations.

Definition prev_len (p : part) : N := match p_prev p with Some v => lenN v | None => 0 end.
Definition measure (p : part) (s : stream) : N :=
  4 * (2 * s_total s + prev_len p) + (3 - p_content_eof p).

(* Content-Length bookkeeping: read_bytes never exceeds a non-zero declared length *)
Definition wf (p : part) : Prop :=
  match p_length p with Some l => l = 0 \/ p_read_bytes p <= l | None => True end.

Lemma fill_chunk_eq fuel size blen chunk ceof s :
  fill_chunk fuel size blen chunk ceof s =
  if fill_more (lenN chunk) blen then
    match fuel with
    | O => Err EFuel
    | S f =>
      let '(d, s1) := s_read size s in
      let chunk' := chunk ++ d in
      let ceof' := ceof + (if s_at_eof s1 then 1 else 0) in
      if content_eof_exceeded ceof' then Err EValue
      else if negb (ceof' =? 0) then Ok (chunk', ceof', s1)
      else fill_chunk f size blen chunk' ceof' s1
    end
  else Ok (chunk, ceof, s).
Proof. destruct fuel; reflexivity. Qed.

Lemma fill_chunk_spec fuel : forall size blen chunk ceof s chunk' ceof' s',
  0 < size ->
  fill_chunk fuel size blen chunk ceof s = Ok (chunk', ceof', s') ->
  s_total s' + lenN chunk' = s_total s + lenN chunk /\ ceof <= ceof' /\ lenN chunk <= lenN chunk' /\
  (fill_more (lenN chunk) blen = true -> ceof' <= 2 /\ (lenN chunk < lenN chunk' \/ ceof < ceof')).
Proof.
  induction fuel as [|f IH]; intros size blen chunk ceof s chunk' ceof' s' Hsz H; rewrite fill_chunk_eq in H.
  - destruct (fill_more (lenN chunk) blen); [discriminate|]. inversion H; subst. repeat split; try lia; try discriminate.
  - destruct (fill_more (lenN chunk) blen) eqn:FM.
    2:{ inversion H; subst. repeat split; try lia; try discriminate. }
    destruct (s_read size s) as [d s1] eqn:R.
    pose proof (s_read_total _ _ _ _ R) as T.
    pose proof (s_read_empty_eof _ _ _ _ Hsz R) as E.
    cbv zeta in H. unfold content_eof_exceeded in H.
    set (c1 := ceof + (if s_at_eof s1 then 1 else 0)) in *.
    destruct (2 <? c1) eqn:X; [discriminate|].
    destruct (negb (c1 =? 0)) eqn:Z.
    + assert (K : ceof <= c1) by (unfold c1; destruct (s_at_eof s1); lia).
      assert (K2 : d = [] -> ceof < c1).
      { intro D. specialize (E D). unfold c1. rewrite E. lia. }
      inversion H; subst. rewrite lenN_app.
      split; [lia|]. split; [exact K|]. split; [lia|]. intros _. split; [lia|].
      destruct d as [|x d'].
      * right. apply K2. reflexivity.
      * left. rewrite lenN_cons. lia.
    + apply negb_false_iff in Z. apply N.eqb_eq in Z.
      assert (A : s_at_eof s1 = false). { unfold c1 in Z. destruct (s_at_eof s1); [lia|reflexivity]. }
      assert (D : d <> []). { intro D. rewrite (E D) in A. discriminate. }
      apply lenN_pos_cons in D.
      destruct (IH _ _ _ _ _ _ _ _ Hsz H) as (I1 & I2 & I3 & I4).
      rewrite lenN_app in *.
      assert (K : ceof <= c1) by (unfold c1; destruct (s_at_eof s1); lia).
      split; [lia|]. split; [lia|]. split; [lia|]. intros _. split; [|left; lia].
      destruct (fill_more (lenN chunk + lenN d) blen) eqn:FM2.
      * apply I4; reflexivity.
      * rewrite fill_chunk_eq, lenN_app, FM2 in H. inversion H; subst. lia.
Qed.

Lemma fill_chunk_fuel fuel : forall size blen chunk ceof s,
  0 < size -> (N.to_nat (blen - lenN chunk) < fuel)%nat -> fill_chunk fuel size blen chunk ceof s <> Err EFuel.
Proof.
  induction fuel as [|f IH]; intros size blen chunk ceof s Hsz Hf; [lia|].
  rewrite fill_chunk_eq. unfold fill_more. destruct (lenN chunk <? blen) eqn:FM; [|discriminate].
  destruct (s_read size s) as [d s1] eqn:R. cbv zeta.
  destruct (content_eof_exceeded _); [discriminate|].
  destruct (negb _) eqn:Z; [discriminate|].
  apply negb_false_iff in Z. apply N.eqb_eq in Z.
  assert (A : s_at_eof s1 = false). { destruct (s_at_eof s1); [lia|reflexivity]. }
  assert (D : d <> []). { intro D. rewrite (s_read_empty_eof _ _ _ _ Hsz R D) in A. discriminate. }
  apply lenN_pos_cons in D. apply IH; [assumption|]. rewrite lenN_app. lia.
Qed.

Lemma blen_ge2 p : 2 <= p_blen p.
Proof. unfold p_blen, boundary_len_formula. lia. Qed.

(* the fields read_chunk_from_stream leaves alone *)
Definition same_static (p p' : part) : Prop :=
  p_boundary p' = p_boundary p /\ p_length p' = p_length p /\ p_b64 p' = p_b64 p /\
  p_read_bytes p' = p_read_bytes p /\ p_carry p' = p_carry p /\ p_unread p' = p_unread p /\ p_max p' = p_max p.

Lemma from_stream_progress size p s d p' s' :
  read_chunk_from_stream size p s = Ok (d, p', s') ->
  (p_at_eof p' = true \/ measure p' s' < measure p s) /\ same_static p p' /\ p_blen p <= size.
Proof.
  unfold read_chunk_from_stream. pose proof (blen_ge2 p) as B2.
  destruct (size <? p_blen p) eqn:SZ; [discriminate|].
  assert (Hsz : 0 < size) by lia.
  destruct (p_prev p) as [pv|] eqn:PV.
  - (* later chunks *)
    destruct (fill_chunk _ size (p_blen p) [] (p_content_eof p) s) as [[[chunk0 ceof'] s2]|e] eqn:F; [|discriminate].
    destruct (fill_chunk_spec _ _ _ _ _ _ _ _ _ Hsz F) as (C1 & C2 & _ & C4).
    assert (FM : fill_more (lenN (@nil N)) (p_blen p) = true). { unfold fill_more. rewrite lenN_nil0. lia. }
    destruct (C4 FM) as (C5 & C6). rewrite lenN_nil0 in *. clear C4 FM.
    unfold overflow.
    destruct (size <? lenN chunk0) eqn:OV.
    + set (chunk := takeb size chunk0). set (s3 := s_unread (dropb size chunk0) s2).
      assert (T3 : s_total s3 + lenN chunk = s_total s2 + lenN chunk0).
      { unfold s3, chunk. rewrite s_unread_total, dropb_len, takeb_len. lia. }
      assert (L3 : 0 < lenN chunk). { unfold chunk. rewrite takeb_len. lia. }
      destruct (find_from _ (pv ++ chunk) _) as [idx|].
      * intro H; inversion H; subst; clear H. split; [|split; [repeat split|lia]].
        destruct (is_nil (dropb (lenN (takeb idx pv)) (takeb idx (pv ++ chunk)))) eqn:NI.
        -- left. reflexivity.
        -- right. apply is_nil_false, lenN_pos_cons in NI.
           unfold measure, prev_len. cbn [p_prev p_content_eof p_set_window]. rewrite PV.
           rewrite s_unread_total. rewrite !dropb_len, !takeb_len, !lenN_app in *. lia.
      * intro H; inversion H; subst; clear H. split; [|split; [repeat split|lia]]. right.
        unfold measure, prev_len. cbn [p_prev p_content_eof p_set_window]. rewrite PV. lia.
    + destruct (find_from _ (pv ++ chunk0) _) as [idx|].
      * intro H; inversion H; subst; clear H. split; [|split; [repeat split|lia]].
        destruct (is_nil (dropb (lenN (takeb idx pv)) (takeb idx (pv ++ chunk0)))) eqn:NI.
        -- left. reflexivity.
        -- right. apply is_nil_false, lenN_pos_cons in NI.
           unfold measure, prev_len. cbn [p_prev p_content_eof p_set_window]. rewrite PV.
           rewrite s_unread_total. rewrite !dropb_len, !takeb_len, !lenN_app in *. lia.
      * intro H; inversion H; subst; clear H. split; [|split; [repeat split|lia]]. right.
        unfold measure, prev_len. cbn [p_prev p_content_eof p_set_window]. rewrite PV. lia.
  - (* first chunk *)
    destruct (s_read size s) as [r1 s1] eqn:R1. pose proof (s_read_total _ _ _ _ R1) as T1.
    cbv beta iota zeta.
    assert (DP : lenN (delim_prefix ++ r1) = 2 + lenN r1). { rewrite lenN_app. reflexivity. }
    set (pv := delim_prefix ++ r1) in *. clearbody pv.
    destruct (fill_chunk _ size (p_blen p) [] (p_content_eof p) s1) as [[[chunk0 ceof'] s2]|e] eqn:F; [|discriminate].
    destruct (fill_chunk_spec _ _ _ _ _ _ _ _ _ Hsz F) as (C1 & C2 & _ & C4).
    assert (FM : fill_more (lenN (@nil N)) (p_blen p) = true). { unfold fill_more. rewrite lenN_nil0. lia. }
    destruct (C4 FM) as (C5 & C6). rewrite lenN_nil0 in *. clear C4 FM.
    unfold overflow.
    destruct (size <? lenN chunk0) eqn:OV.
    + set (chunk := takeb size chunk0). set (s3 := s_unread (dropb size chunk0) s2).
      assert (T3 : s_total s3 + lenN chunk = s_total s2 + lenN chunk0).
      { unfold s3, chunk. rewrite s_unread_total, dropb_len, takeb_len. lia. }
      assert (L3 : 0 < lenN chunk). { unfold chunk. rewrite takeb_len. lia. }
      destruct (find_from _ (pv ++ chunk) _) as [idx|].
      * intro H; inversion H; subst; clear H. split; [|split; [repeat split|lia]].
        destruct (is_nil (dropb (lenN (takeb idx pv)) (takeb idx (pv ++ chunk)))) eqn:NI.
        -- left. reflexivity.
        -- right. apply is_nil_false, lenN_pos_cons in NI.
           unfold measure, prev_len. cbn [p_prev p_content_eof p_set_window]. rewrite PV.
           rewrite s_unread_total. rewrite !dropb_len, !takeb_len, !lenN_app in *. lia.
      * intro H; inversion H; subst; clear H. split; [|split; [repeat split|lia]]. right.
        unfold measure, prev_len. cbn [p_prev p_content_eof p_set_window]. rewrite PV. lia.
    + destruct (find_from _ (pv ++ chunk0) _) as [idx|].
      * intro H; inversion H; subst; clear H. split; [|split; [repeat split|lia]].
        destruct (is_nil (dropb (lenN (takeb idx pv)) (takeb idx (pv ++ chunk0)))) eqn:NI.
        -- left. reflexivity.
        -- right. apply is_nil_false, lenN_pos_cons in NI.
           unfold measure, prev_len. cbn [p_prev p_content_eof p_set_window]. rewrite PV.
           rewrite s_unread_total. rewrite !dropb_len, !takeb_len, !lenN_app in *. lia.
      * intro H; inversion H; subst; clear H. split; [|split; [repeat split|lia]]. right.
        unfold measure, prev_len. cbn [p_prev p_content_eof p_set_window]. rewrite PV.
        destruct C6 as [C6|C6]; lia.
Qed.

(* ---- read_chunk ---- *)
Definition rc_tail (b64 : bool) (carry : bytes) (want : N) (x : bytes * part * stream) : res (bytes * part * stream) :=
  let '(fresh, p1, s1) := x in
  let chunk := carry ++ fresh in
  let p2 := p_add_read (lenN fresh) p1 in
  let '(chunk2, p3) := if b64 then align_base64 chunk (lenN carry + want) p2 else (chunk, p2) in
  let p4 := if length_reached p3 then p_set_eof p3 else p3 in
  if p_at_eof p4 then
    match s_readline 0 s1 with
    | (None, _) => Err ELineTooLong
    | (Some l, s2) => if list_eqb l CRLF then Ok (chunk2, p4, s2) else Err EValue
    end
  else Ok (chunk2, p4, s1).

Definition rc_want (size : N) (p : part) : N :=
  if is_nil (p_carry p) then size else N.max (size - lenN (p_carry p)) (p_blen p).

Lemma read_chunk_eq size p s :
  read_chunk_once size p s =
  if p_at_eof p then Ok ([], p, s) else
  match (match p_length p with
         | Some l => if l =? 0 then read_chunk_from_stream (rc_want size p) (p_set_carry [] p) s
                     else read_chunk_from_length (rc_want size p) l (p_set_carry [] p) s
         | None => read_chunk_from_stream (rc_want size p) (p_set_carry [] p) s
         end) with
  | Err e => Err e
  | Ok x => rc_tail (p_b64 p) (p_carry p) (rc_want size p) x
  end.
Proof.
  unfold read_chunk_once, rc_tail, rc_want. destruct (p_at_eof p); [reflexivity|].
  destruct (match p_length p with Some _ => _ | None => _ end) as [[[fresh p1] s1]|e]; reflexivity.
Qed.

Lemma align_base64_keeps chunk size p c p' :
  align_base64 chunk size p = (c, p') ->
  p_prev p' = p_prev p /\ p_content_eof p' = p_content_eof p /\ p_at_eof p' = p_at_eof p /\
  p_length p' = p_length p /\ p_read_bytes p' = p_read_bytes p.
Proof.
  unfold align_base64.
  destruct (negb _ && (size <? lenN chunk)); cbv beta iota zeta;
    repeat match goal with |- context [if ?b then _ else _] => destruct b end;
    intro H; inversion H; subst; repeat split; reflexivity.
Qed.

Lemma rc_tail_spec b64 carry want fresh p1 s1 d p' s' :
  rc_tail b64 carry want (fresh, p1, s1) = Ok (d, p', s') ->
  p_at_eof p' = true \/
  (s' = s1 /\ p_prev p' = p_prev p1 /\ p_content_eof p' = p_content_eof p1 /\ p_at_eof p1 = false /\
   p_length p' = p_length p1 /\ p_read_bytes p' = p_read_bytes p1 + lenN fresh /\ length_reached p' = false).
Proof.
  unfold rc_tail.
  set (p2 := p_add_read (lenN fresh) p1).
  destruct (if b64 then align_base64 (carry ++ fresh) (lenN carry + want) p2 else (carry ++ fresh, p2)) as [chunk2 p3] eqn:A.
  assert (K : p_prev p3 = p_prev p1 /\ p_content_eof p3 = p_content_eof p1 /\ p_at_eof p3 = p_at_eof p1 /\
              p_length p3 = p_length p1 /\ p_read_bytes p3 = p_read_bytes p1 + lenN fresh).
  { destruct b64.
    - apply align_base64_keeps in A. destruct A as (A1 & A2 & A3 & A4 & A5).
      rewrite A1, A2, A3, A4, A5. repeat split; reflexivity.
    - inversion A; subst. repeat split; reflexivity. }
  destruct K as (K1 & K2 & K3 & K4 & K5).
  destruct (length_reached p3) eqn:LR.
  - cbn [p_at_eof p_set_eof].
    destruct (s_readline 0 s1) as [[l|] s2]; [|discriminate].
    destruct (list_eqb l CRLF); [|discriminate]. intro H; inversion H; subst. left. reflexivity.
  - destruct (p_at_eof p3) eqn:E3.
    + destruct (s_readline 0 s1) as [[l|] s2]; [|discriminate].
      destruct (list_eqb l CRLF); [|discriminate]. intro H; inversion H; subst. left. exact E3.
    + intro H; inversion H; subst. right. rewrite <- K3. repeat split; assumption.
Qed.

Lemma measure_eq p p' s : p_prev p' = p_prev p -> p_content_eof p' = p_content_eof p -> measure p' s = measure p s.
Proof. unfold measure, prev_len. intros -> ->. reflexivity. Qed.

Lemma rc_want_pos size p : 0 < size -> 0 < rc_want size p.
Proof. unfold rc_want. pose proof (blen_ge2 p). destruct (is_nil (p_carry p)); lia. Qed.

Theorem read_chunk_once_progress size p s d p' s' :
  0 < size -> wf p -> p_at_eof p = false ->
  read_chunk_once size p s = Ok (d, p', s') ->
  p_at_eof p' = true \/ (measure p' s' < measure p s /\ wf p').
Proof.
  intros Hsz W E H. rewrite read_chunk_eq, E in H.
  pose proof (rc_want_pos size p Hsz) as Hw. set (want := rc_want size p) in *.
  set (p0 := p_set_carry [] p) in *.
  assert (stream_case : forall x, read_chunk_from_stream want p0 s = Ok x ->
            (p_length p = None \/ p_length p = Some 0) ->
            rc_tail (p_b64 p) (p_carry p) want x = Ok (d, p', s') ->
            p_at_eof p' = true \/ (measure p' s' < measure p s /\ wf p')).
  { intros [[fresh p1] s1] F PL T.
    apply from_stream_progress in F. destruct F as (F1 & (S1 & S2 & _) & _).
    apply rc_tail_spec in T. destruct T as [T|(-> & T1 & T2 & T3 & T4 & _)]; [left; exact T|]. right.
    destruct F1 as [F1|F1]; [congruence|]. split.
    - rewrite (measure_eq p1 p' s1 T1 T2). exact F1.
    - unfold wf. rewrite T4, S2. cbn [p_length p_set_carry p0]. destruct PL as [-> | ->]; [exact I|left; reflexivity]. }
  destruct (p_length p) as [l|] eqn:PL.
  - destruct (l =? 0) eqn:L0.
    + destruct (read_chunk_from_stream want p0 s) as [x|e] eqn:F; [|discriminate].
      apply N.eqb_eq in L0. subst l. apply (stream_case x eq_refl); [right; reflexivity|exact H].
    + apply N.eqb_neq in L0. unfold read_chunk_from_length in H.
      destruct (s_read (N.min want (l - p_read_bytes p0)) s) as [d0 s1] eqn:R.
      pose proof (s_read_total _ _ _ _ R) as T. pose proof (s_read_len _ _ _ _ R) as LN.
      unfold wf in W. rewrite PL in W. destruct W as [W|W]; [congruence|].
      change (p_read_bytes p0) with (p_read_bytes p) in *.
      apply rc_tail_spec in H. destruct H as [H|(-> & T1 & T2 & T3 & T4 & T5 & T6)]; [left; exact H|]. right.
      destruct (s_at_eof s1) eqn:AE; [discriminate T3|].
      change (p_prev p0) with (p_prev p) in T1. change (p_content_eof p0) with (p_content_eof p) in T2.
      change (p_length p0) with (p_length p) in T4. change (p_read_bytes p0) with (p_read_bytes p) in T5.
      assert (D : d0 <> []).
      { intro D. subst d0. rewrite lenN_nil0 in *.
        destruct (N.eq_dec (p_read_bytes p) l) as [EQ|NE].
        - unfold length_reached in T6. rewrite T4, PL, T5 in T6. apply N.eqb_neq in T6. lia.
        - assert (P : 0 < N.min want (l - p_read_bytes p)) by lia.
          rewrite (s_read_empty_eof _ _ _ _ P R eq_refl) in AE. discriminate. }
      apply lenN_pos_cons in D. split.
      * unfold measure, prev_len. rewrite T1, T2. lia.
      * unfold wf. rewrite T4, PL, T5. right. lia.
  - destruct (read_chunk_from_stream want p0 s) as [x|e] eqn:F; [|discriminate].
    apply (stream_case x eq_refl); [left; reflexivity|exact H].
Qed.

Lemma read_chunk_once_no_fuel size p s : read_chunk_once size p s <> Err EFuel.
Proof.
  rewrite read_chunk_eq. destruct (p_at_eof p); [discriminate|].
  assert (FS : forall want p0, read_chunk_from_stream want p0 s <> Err EFuel).
  { intros want p0. unfold read_chunk_from_stream. pose proof (blen_ge2 p0).
    destruct (want <? p_blen p0) eqn:SZ; [discriminate|].
    destruct (p_prev p0).
    - destruct (fill_chunk _ _ _ _ _ s) as [[[c0 ce] s2]|e] eqn:F.
      + destruct (overflow _ _); destruct (find_from _ _ _); discriminate.
      + intro X. inversion X; subst. revert F. apply fill_chunk_fuel; lia.
    - destruct (s_read want s) as [r1 s1]. cbv beta iota zeta.
      destruct (fill_chunk _ _ _ _ _ s1) as [[[c0 ce] s2]|e] eqn:F.
      + destruct (overflow _ _); destruct (find_from _ _ _); discriminate.
      + intro X. inversion X; subst. revert F. apply fill_chunk_fuel; lia. }
  assert (TL : forall b c w x, rc_tail b c w x <> Err EFuel).
  { intros b c w [[fresh p1] s1]. unfold rc_tail.
    destruct (if b then _ else _) as [c2 p3].
    destruct (p_at_eof _); [|discriminate].
    destruct (s_readline 0 s1) as [[l|] s2]; [|discriminate]. destruct (list_eqb l CRLF); discriminate. }
  destruct (p_length p) as [l|].
  - destruct (l =? 0).
    + destruct (read_chunk_from_stream _ _ s) eqn:F; [apply TL|]. intro X; inversion X; subst. exact (FS _ _ F).
    + unfold read_chunk_from_length. destruct (s_read _ s). apply TL.
  - destruct (read_chunk_from_stream _ _ s) eqn:F; [apply TL|]. intro X; inversion X; subst. exact (FS _ _ F).
Qed.


(* ---- read_chunk with its re-reads (a base64 part whose chunk held only a partial quartet) ---- *)
Lemma read_chunk_n_eq n size p s :
  read_chunk_n n size p s =
  match read_chunk_once size p s with
  | Err e => Err e
  | Ok (d, p', s') =>
    if retry d p' then match n with O => Err EFuel | S n' => read_chunk_n n' size p' s' end
    else Ok (d, p', s')
  end.
Proof. destruct n; reflexivity. Qed.

Lemma retry_not_eof d p : retry d p = true -> p_at_eof p = false.
Proof. unfold retry. intro H. apply andb_true_iff in H as [_ H]. apply negb_true_iff in H. exact H. Qed.

Lemma read_chunk_n_progress n : forall size p s d p' s',
  0 < size -> wf p -> p_at_eof p = false ->
  read_chunk_n n size p s = Ok (d, p', s') ->
  p_at_eof p' = true \/ (measure p' s' < measure p s /\ wf p').
Proof.
  induction n as [|n IH]; intros size p s d p' s' Hsz W E H; rewrite read_chunk_n_eq in H;
    destruct (read_chunk_once size p s) as [[[d1 p1] s1]|e] eqn:R; try discriminate;
    destruct (retry d1 p1) eqn:RT; try discriminate.
  - inversion H; subst. exact (read_chunk_once_progress _ _ _ _ _ _ Hsz W E R).
  - pose proof (retry_not_eof _ _ RT) as E1.
    destruct (read_chunk_once_progress _ _ _ _ _ _ Hsz W E R) as [X|[M1 W1]]; [congruence|].
    destruct (IH _ _ _ _ _ _ Hsz W1 E1 H) as [X|[M2 W2]]; [left; exact X|right; split; [lia|exact W2]].
  - inversion H; subst. exact (read_chunk_once_progress _ _ _ _ _ _ Hsz W E R).
Qed.

Lemma read_chunk_n_no_fuel n : forall size p s,
  0 < size -> wf p -> (N.to_nat (measure p s) < n)%nat -> read_chunk_n n size p s <> Err EFuel.
Proof.
  induction n as [|n IH]; intros size p s Hsz W Hn; [lia|]. rewrite read_chunk_n_eq.
  destruct (read_chunk_once size p s) as [[[d1 p1] s1]|e] eqn:R.
  - destruct (retry d1 p1) eqn:RT; [|discriminate].
    pose proof (retry_not_eof _ _ RT) as E1.
    destruct (p_at_eof p) eqn:E.
    + rewrite read_chunk_eq, E in R. inversion R; subst. congruence.
    + destruct (read_chunk_once_progress _ _ _ _ _ _ Hsz W E R) as [X|[M1 W1]]; [congruence|].
      apply IH; [exact Hsz|exact W1|lia].
  - intro X; inversion X; subst. exact (read_chunk_once_no_fuel _ _ _ R).
Qed.

Lemma chunk_budget_enough p s : (N.to_nat (measure p s) < chunk_budget p s)%nat.
Proof. unfold chunk_budget, measure, prev_len. destruct (p_prev p); lia. Qed.

Theorem read_chunk_progress size p s d p' s' :
  0 < size -> wf p -> p_at_eof p = false ->
  read_chunk size p s = Ok (d, p', s') ->
  p_at_eof p' = true \/ (measure p' s' < measure p s /\ wf p').
Proof. unfold read_chunk. apply read_chunk_n_progress. Qed.

Lemma read_chunk_no_fuel size p s : 0 < size -> wf p -> read_chunk size p s <> Err EFuel.
Proof. intros Hsz W. unfold read_chunk. apply read_chunk_n_no_fuel; [exact Hsz|exact W|apply chunk_budget_enough]. Qed.

(* ---- the loops ---- *)
Lemma chunk_size_pos : 0 < chunk_size.
Proof. unfold chunk_size. lia. Qed.

Lemma read_loop_eq fuel acc p s :
  read_loop fuel acc p s =
  if p_at_eof p then Ok (acc, p, s) else
  match fuel with
  | O => Err EFuel
  | S f => match read_chunk chunk_size p s with
           | Err e => Err e
           | Ok (d, p', s') => let acc' := acc ++ d in
                               if over_client_max (lenN acc') (p_max p) then Err EMaxSize else read_loop f acc' p' s'
           end
  end.
Proof. destruct fuel; reflexivity. Qed.

Theorem read_loop_terminates fuel : forall acc p s,
  wf p -> (N.to_nat (measure p s) < fuel)%nat -> read_loop fuel acc p s <> Err EFuel.
Proof.
  induction fuel as [|f IH]; intros acc p s W Hf; [lia|].
  rewrite read_loop_eq. destruct (p_at_eof p) eqn:E; [discriminate|].
  destruct (read_chunk chunk_size p s) as [[[d p'] s']|e] eqn:R.
  - cbv zeta. destruct (over_client_max _ _); [discriminate|].
    destruct (read_chunk_progress _ _ _ _ _ _ chunk_size_pos W E R) as [E'|[M W']].
    + rewrite read_loop_eq, E'. discriminate.
    + apply IH; [exact W'|lia].
  - intro X; inversion X; subst. exact (read_chunk_no_fuel _ _ _ chunk_size_pos W R).
Qed.

Lemma release_loop_eq fuel p s :
  release_loop fuel p s =
  if p_at_eof p then Ok (p, s) else
  match fuel with
  | O => Err EFuel
  | S f => match read_chunk chunk_size p s with Err e => Err e | Ok (_, p', s') => release_loop f p' s' end
  end.
Proof. destruct fuel; reflexivity. Qed.

Theorem release_loop_terminates fuel : forall p s,
  wf p -> (N.to_nat (measure p s) < fuel)%nat -> release_loop fuel p s <> Err EFuel.
Proof.
  induction fuel as [|f IH]; intros p s W Hf; [lia|].
  rewrite release_loop_eq. destruct (p_at_eof p) eqn:E; [discriminate|].
  destruct (read_chunk chunk_size p s) as [[[d p'] s']|e] eqn:R.
  - destruct (read_chunk_progress _ _ _ _ _ _ chunk_size_pos W E R) as [E'|[M W']].
    + rewrite release_loop_eq, E'. discriminate.
    + apply IH; [exact W'|lia].
  - intro X; inversion X; subst. exact (read_chunk_no_fuel _ _ _ chunk_size_pos W R).
Qed.

Lemma chunks_loop_eq fuel sizes count bounded acc p s :
  chunks_loop fuel sizes count bounded acc p s =
  if p_at_eof p || (bounded && (count =? 0)) then Ok (acc, p, s) else
  match fuel with
  | O => Err EFuel
  | S f =>
    let '(sz, sizes') := match sizes with [] => (chunk_size, []) | z :: r => (z, r ++ [z]) end in
    match read_chunk sz p s with
    | Err e => Err e
    | Ok (d, p', s') => chunks_loop f sizes' (count - 1) bounded (acc ++ d) p' s'
    end
  end.
Proof. destruct fuel; reflexivity. Qed.

(* the user's read_chunk loop, any positive sizes in any rotation *)
Theorem chunks_loop_terminates fuel : forall sizes count bounded acc p s,
  Forall (fun z => 0 < z) sizes -> wf p -> (N.to_nat (measure p s) < fuel)%nat ->
  chunks_loop fuel sizes count bounded acc p s <> Err EFuel.
Proof.
  induction fuel as [|f IH]; intros sizes count bounded acc p s Hs W Hf; [lia|].
  rewrite chunks_loop_eq. destruct (p_at_eof p) eqn:E; [discriminate|]. cbn [orb].
  destruct (bounded && (count =? 0)); [discriminate|].
  assert (exists sz sizes', (match sizes with [] => (chunk_size, []) | z :: r => (z, r ++ [z]) end) = (sz, sizes')
                            /\ 0 < sz /\ Forall (fun z => 0 < z) sizes') as (sz & sizes' & -> & Hz & Hs').
  { destruct sizes as [|z r].
    - exists chunk_size, []. split; [reflexivity|split; [exact chunk_size_pos|constructor]].
    - inversion Hs; subst. exists z, (r ++ [z]). split; [reflexivity|split; [assumption|]].
      apply Forall_app. split; [assumption|constructor; [assumption|constructor]]. }
  destruct (read_chunk sz p s) as [[[d p'] s']|e] eqn:R.
  - destruct (read_chunk_progress _ _ _ _ _ _ Hz W E R) as [E'|[M W']].
    + rewrite chunks_loop_eq, E'. discriminate.
    + apply IH; [exact Hs'|exact W'|lia].
  - intro X; inversion X; subst. exact (read_chunk_no_fuel _ _ _ Hz W R).
Qed.

Lemma new_part_wf b len b64 mx : wf (new_part b len b64 mx).
Proof. unfold wf, new_part. cbn. destruct len; [right; lia|exact I]. Qed.

(* a fresh part on any stream: read() needs at most 8 * (bytes in the stream) + 4 iterations *)
Corollary part_read_terminates b len b64 mx s :
  part_read (S (N.to_nat (8 * s_total s + 3))) (new_part b len b64 mx) s <> Err EFuel.
Proof.
  apply read_loop_terminates; [apply new_part_wf|]. unfold measure, prev_len, new_part. cbn [p_prev p_content_eof]. lia.
Qed.

