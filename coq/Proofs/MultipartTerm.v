(* Termination of the part-reading loops (BodyPartReader.read / release / the user's read_chunk loop):
   every read_chunk call with size > 0 that neither raises nor reaches at_eof strictly decreases
   [measure] = 4 * (2 * bytes still in the stream + |_prev_chunk|) + (3 - _content_eof),
   so the loops finish within measure + 1 iterations, for every stream state, segmentation and chunk size.
   The readline loop has no such measure: see readline_loop_spins. *)
From AV Require Import Lib.Base Generated.MultipartGen Model.Multipart Proofs.MultipartStream.
From Coq Require Import ZifyBool ZifyN ZifyNat.
Open Scope N_scope.
Ltac Zify.zify_post_hook ::= Z.to_euclidean_division_equations.

Definition prev_len (p : part) : N := match p_prev p with Some v => lenN v | None => 0 end.
Definition measure (p : part) (s : stream) : N :=
  4 * (2 * s_total s + prev_len p) + (3 - p_content_eof p).

(* Content-Length bookkeeping: read_bytes never exceeds a non-zero declared length *)
Definition wf (p : part) : Prop :=
  match p_length p with Some l => l = 0 \/ p_read_bytes p <= l | None => True end.

Lemma fill_chunk_eq fuel size blen chunk ceof s :
  fill_chunk fuel size blen chunk ceof s =
  if fill_more (lenN chunk) blen then
    match fuel with
    | O => Err EFuel
    | S f =>
      let '(d, s1) := s_read size s in
      let chunk' := chunk ++ d in
      let ceof' := ceof + (if s_at_eof s1 then 1 else 0) in
      if content_eof_exceeded ceof' then Err EValue
      else if negb (ceof' =? 0) then Ok (chunk', ceof', s1)
      else fill_chunk f size blen chunk' ceof' s1
    end
  else Ok (chunk, ceof, s).
Proof. destruct fuel; reflexivity. Qed.

Lemma fill_chunk_spec fuel : forall size blen chunk ceof s chunk' ceof' s',
  0 < size ->
  fill_chunk fuel size blen chunk ceof s = Ok (chunk', ceof', s') ->
  s_total s' + lenN chunk' = s_total s + lenN chunk /\ ceof <= ceof' /\ lenN chunk <= lenN chunk' /\
  (fill_more (lenN chunk) blen = true -> ceof' <= 2 /\ (lenN chunk < lenN chunk' \/ ceof < ceof')).
Proof.
  induction fuel as [|f IH]; intros size blen chunk ceof s chunk' ceof' s' Hsz H; rewrite fill_chunk_eq in H.
  - destruct (fill_more (lenN chunk) blen); [discriminate|]. inversion H; subst. repeat split; try lia. discriminate.
  - destruct (fill_more (lenN chunk) blen) eqn:FM.
    2:{ inversion H; subst. repeat split; try lia. discriminate. }
    destruct (s_read size s) as [d s1] eqn:R.
    pose proof (s_read_total _ _ _ _ R) as T.
    pose proof (s_read_empty_eof _ _ _ _ Hsz R) as E.
    cbv zeta in H. unfold content_eof_exceeded in H.
    set (c1 := ceof + (if s_at_eof s1 then 1 else 0)) in *.
    destruct (2 <? c1) eqn:X; [discriminate|].
    destruct (negb (c1 =? 0)) eqn:Z.
    + inversion H; subst. rewrite lenN_app. repeat split; try (unfold c1; destruct (s_at_eof s1); lia).
      * lia.
      * destruct d as [|x d'].
        -- right. specialize (E eq_refl). unfold c1. rewrite E. lia.
        -- left. rewrite lenN_cons. lia.
    + apply negb_false_iff in Z. apply N.eqb_eq in Z.
      assert (A : s_at_eof s1 = false). { unfold c1 in Z. destruct (s_at_eof s1); [lia|reflexivity]. }
      assert (D : d <> []). { intro D. rewrite (E D) in A. discriminate. }
      apply lenN_pos_cons in D.
      destruct (IH _ _ _ _ _ _ _ _ Hsz H) as (I1 & I2 & I3 & I4).
      rewrite lenN_app in *. repeat split; try lia.
      * unfold c1 in I2. destruct (s_at_eof s1); lia.
      * intros _. split; [|left; lia].
        destruct (fill_more (lenN chunk + lenN d) blen) eqn:FM2.
        -- apply I4; reflexivity.
        -- rewrite fill_chunk_eq, lenN_app, FM2 in H. inversion H; subst. lia.
Qed.

Lemma fill_chunk_fuel fuel : forall size blen chunk ceof s,
  0 < size -> (N.to_nat (blen - lenN chunk) < fuel)%nat -> fill_chunk fuel size blen chunk ceof s <> Err EFuel.
Proof.
  induction fuel as [|f IH]; intros size blen chunk ceof s Hsz Hf; [lia|].
  rewrite fill_chunk_eq. unfold fill_more. destruct (lenN chunk <? blen) eqn:FM; [|discriminate].
  destruct (s_read size s) as [d s1] eqn:R. cbv zeta.
  destruct (content_eof_exceeded _); [discriminate|].
  destruct (negb _) eqn:Z; [discriminate|].
  apply negb_false_iff in Z. apply N.eqb_eq in Z.
  assert (A : s_at_eof s1 = false). { destruct (s_at_eof s1); [lia|reflexivity]. }
  assert (D : d <> []). { intro D. rewrite (s_read_empty_eof _ _ _ _ Hsz R D) in A. discriminate. }
  apply lenN_pos_cons in D. apply IH; [assumption|]. rewrite lenN_app. lia.
Qed.

Lemma blen_ge2 p : 2 <= p_blen p.
Proof. unfold p_blen, boundary_len_formula. lia. Qed.

(* the fields read_chunk_from_stream leaves alone *)
Definition same_static (p p' : part) : Prop :=
  p_boundary p' = p_boundary p /\ p_length p' = p_length p /\ p_b64 p' = p_b64 p /\
  p_read_bytes p' = p_read_bytes p /\ p_carry p' = p_carry p /\ p_unread p' = p_unread p /\ p_max p' = p_max p.

Lemma from_stream_progress size p s d p' s' :
  read_chunk_from_stream size p s = Ok (d, p', s') ->
  (p_at_eof p' = true \/ measure p' s' < measure p s) /\ same_static p p' /\ p_blen p <= size.
Proof.
  unfold read_chunk_from_stream. pose proof (blen_ge2 p) as B2.
  destruct (size <? p_blen p) eqn:SZ; [discriminate|].
  assert (Hsz : 0 < size) by lia.
  destruct (p_prev p) as [pv|] eqn:PV.
  - (* later chunks *)
    destruct (fill_chunk _ size (p_blen p) [] (p_content_eof p) s) as [[[chunk0 ceof'] s2]|e] eqn:F; [|discriminate].
    destruct (fill_chunk_spec _ _ _ _ _ _ _ _ _ Hsz F) as (C1 & C2 & _ & C4).
    assert (FM : fill_more (lenN (@nil N)) (p_blen p) = true). { unfold fill_more. rewrite lenN_nil0. lia. }
    destruct (C4 FM) as (C5 & C6). rewrite lenN_nil0 in *. clear C4 FM.
    unfold overflow.
    destruct (size <? lenN chunk0) eqn:OV.
    + set (chunk := takeb size chunk0). set (s3 := s_unread (dropb size chunk0) s2).
      assert (T3 : s_total s3 + lenN chunk = s_total s2 + lenN chunk0).
      { unfold s3, chunk. rewrite s_unread_total, dropb_len, takeb_len. lia. }
      assert (L3 : 0 < lenN chunk). { unfold chunk. rewrite takeb_len. lia. }
      destruct (find_from _ (pv ++ chunk) _) as [idx|].
      * intro H; inversion H; subst; clear H. split; [|split; [repeat split|lia]].
        destruct (is_nil (dropb (lenN (takeb idx pv)) (takeb idx (pv ++ chunk)))) eqn:NI.
        -- left. cbn. rewrite NI. reflexivity.
        -- right. apply is_nil_false, lenN_pos_cons in NI.
           unfold measure, prev_len. cbn [p_prev p_content_eof p_set_window]. rewrite PV.
           rewrite s_unread_total. rewrite !dropb_len, !takeb_len, !lenN_app in *. lia.
      * intro H; inversion H; subst; clear H. split; [|split; [repeat split|lia]]. right.
        unfold measure, prev_len. cbn [p_prev p_content_eof p_set_window]. rewrite PV. lia.
    + destruct (find_from _ (pv ++ chunk0) _) as [idx|].
      * intro H; inversion H; subst; clear H. split; [|split; [repeat split|lia]].
        destruct (is_nil (dropb (lenN (takeb idx pv)) (takeb idx (pv ++ chunk0)))) eqn:NI.
        -- left. cbn. rewrite NI. reflexivity.
        -- right. apply is_nil_false, lenN_pos_cons in NI.
           unfold measure, prev_len. cbn [p_prev p_content_eof p_set_window]. rewrite PV.
           rewrite s_unread_total. rewrite !dropb_len, !takeb_len, !lenN_app in *. lia.
      * intro H; inversion H; subst; clear H. split; [|split; [repeat split|lia]]. right.
        unfold measure, prev_len. cbn [p_prev p_content_eof p_set_window]. rewrite PV. lia.
  - (* first chunk *)
    destruct (s_read size s) as [r1 s1] eqn:R1. pose proof (s_read_total _ _ _ _ R1) as T1.
    destruct (fill_chunk _ size (p_blen p) [] (p_content_eof p) s1) as [[[chunk0 ceof'] s2]|e] eqn:F; [|discriminate].
    destruct (fill_chunk_spec _ _ _ _ _ _ _ _ _ Hsz F) as (C1 & C2 & _ & C4).
    assert (FM : fill_more (lenN (@nil N)) (p_blen p) = true). { unfold fill_more. rewrite lenN_nil0. lia. }
    destruct (C4 FM) as (C5 & C6). rewrite lenN_nil0 in *. clear C4 FM.
    unfold overflow.
    assert (DP : lenN (delim_prefix ++ r1) = 2 + lenN r1). { rewrite lenN_app. reflexivity. }
    destruct (size <? lenN chunk0) eqn:OV.
    + set (chunk := takeb size chunk0). set (s3 := s_unread (dropb size chunk0) s2).
      assert (T3 : s_total s3 + lenN chunk = s_total s2 + lenN chunk0).
      { unfold s3, chunk. rewrite s_unread_total, dropb_len, takeb_len. lia. }
      assert (L3 : 0 < lenN chunk). { unfold chunk. rewrite takeb_len. lia. }
      destruct (find_from _ ((delim_prefix ++ r1) ++ chunk) _) as [idx|].
      * intro H; inversion H; subst; clear H. split; [|split; [repeat split|lia]].
        destruct (is_nil (dropb (lenN (takeb idx (delim_prefix ++ r1))) (takeb idx ((delim_prefix ++ r1) ++ chunk)))) eqn:NI.
        -- left. cbn. rewrite NI. reflexivity.
        -- right. apply is_nil_false, lenN_pos_cons in NI.
           unfold measure, prev_len. cbn [p_prev p_content_eof p_set_window]. rewrite PV.
           rewrite s_unread_total. rewrite !dropb_len, !takeb_len in *. rewrite (lenN_app (delim_prefix ++ r1) chunk) in *. lia.
      * intro H; inversion H; subst; clear H. split; [|split; [repeat split|lia]]. right.
        unfold measure, prev_len. cbn [p_prev p_content_eof p_set_window]. rewrite PV. lia.
    + destruct (find_from _ ((delim_prefix ++ r1) ++ chunk0) _) as [idx|].
      * intro H; inversion H; subst; clear H. split; [|split; [repeat split|lia]].
        destruct (is_nil (dropb (lenN (takeb idx (delim_prefix ++ r1))) (takeb idx ((delim_prefix ++ r1) ++ chunk0)))) eqn:NI.
        -- left. cbn. rewrite NI. reflexivity.
        -- right. apply is_nil_false, lenN_pos_cons in NI.
           unfold measure, prev_len. cbn [p_prev p_content_eof p_set_window]. rewrite PV.
           rewrite s_unread_total. rewrite !dropb_len, !takeb_len in *. rewrite (lenN_app (delim_prefix ++ r1) chunk0) in *. lia.
      * intro H; inversion H; subst; clear H. split; [|split; [repeat split|lia]]. right.
        unfold measure, prev_len. cbn [p_prev p_content_eof p_set_window]. rewrite PV.
        destruct C6 as [C6|C6]; lia.
Qed.
