(* C11 — one frame: a frame written by Model/WsCodec.write_frame is taken apart by one pass of the reader's
   loop (Model/Ws.iter) into exactly the (opcode, rsv1, payload) handed to _handle_frame; a whole run of the writer
   is read back as the expected messages, for every segmentation (C12's segmentation theorem). *)
From AV Require Import Lib.Base Lib.Utf8Valid Generated.WsGen Generated.WsCodecGen Model.Ws Model.WsCodec
  Proofs.WsSeg Proofs.WsRefine Proofs.WsCodecBytes.
From Coq Require Import ZifyBool ZifyN.
Open Scope N_scope.
Ltac Zify.zify_post_hook ::= Z.to_euclidean_division_equations.

Section Frame.
Variable Cx : Type.
Variable decomp : Cx -> bytes -> N -> dres Cx.
Variable c : cfg.

Notation rstate := (rstate Cx).
Notation iter := (iter Cx decomp c).
Notation ph_header := (ph_header Cx c).
Notation ph_length := (ph_length Cx c).
Notation after_length := (after_length Cx c).
Notation ph_mask := (ph_mask Cx).
Notation ph_payload := (ph_payload Cx decomp c).
Notation handle_frame := (handle_frame Cx decomp c).
Notation bind := (bind Cx).

(* ---- READ_HEADER ---------------------------------------------------------------------------------- *)
Lemma ph_header_go (s : rstate) b0 b1 r (rsv1 : bool) opcode (hm : bool) lf :
  s_phase s = RH ->
  N.testbit b0 7 = true -> N.testbit b0 6 = rsv1 -> N.testbit b0 5 = false -> N.testbit b0 4 = false ->
  N.land b0 15 = opcode -> N.testbit b1 7 = hm -> N.land b1 127 = lf ->
  opcode_ok opcode = true ->
  (rsv1 = true -> compress c = true /\ hdr_is_control opcode = false) ->
  (hdr_is_control opcode = true -> lf <= 125) ->
  hdr_first_fragment (s_ffin s) (s_comp s) = true ->
  ph_header s (b0 :: b1 :: r) =
    PGo (R RL (s_tail s) (s_m s) (if hdr_is_control opcode then s_ffin s else true) opcode (s_frags s) (s_nfrags s)
           hm (s_mask s) (s_toread s) lf (if hdr_is_control opcode then s_comp s else if rsv1 then 1 else 0)) r.
Proof.
  intros P B7 B6 B5 B4 BO BM BL OK RS CT FF.
  unfold Ws.ph_header. rewrite P. cbv beta iota zeta. rewrite B7, B6, B5, B4, BO, BM, BL.
  assert (E1 : hdr_rsv_bad rsv1 false false (compress c) = false).
  { unfold hdr_rsv_bad. destruct rsv1; [|reflexivity]. destruct (RS eq_refl) as [-> _]. reflexivity. }
  assert (E2 : hdr_opcode_bad opcode = false).
  { apply opcode_ok_cases in OK. destruct OK as [-> | [-> | [-> | [-> | ->]]]]; reflexivity. }
  assert (E3 : hdr_ctl_fragmented opcode true = false).
  { unfold hdr_ctl_fragmented. cbn [negb]. apply andb_false_r. }
  assert (E4 : hdr_ctl_too_long opcode lf = false).
  { unfold hdr_ctl_too_long. unfold hdr_is_control in CT. destruct (7 <? opcode) eqn:E; [|reflexivity].
    cbn [andb]. specialize (CT eq_refl). lia. }
  rewrite E1, E2, E3, E4.
  destruct (hdr_is_control opcode) eqn:C.
  - destruct rsv1; [destruct (RS eq_refl) as [_ X]; congruence|reflexivity].
  - rewrite FF. reflexivity.
Qed.

(* ---- READ_PAYLOAD_LENGTH ---------------------------------------------------------------------------- *)
Lemma after_length_go (s : rstate) len r :
  size_check_applies (max_msg_size c) (s_fop s)
  && size_reject (Z.of_N len) (Z.of_N (max_msg_size c)) (Z.of_N (lenN (m_partial (s_m s)))) = false ->
  after_length s len r =
    PGo (R (if s_hmask s then RM else RP) (s_tail s) (s_m s) (s_ffin s) (s_fop s) (s_frags s) (s_nfrags s)
           (s_hmask s) (s_mask s) len (s_lflag s) (s_comp s)) r.
Proof. intro H. unfold Ws.after_length. rewrite H. reflexivity. Qed.

Lemma ph_length_7 (s : rstate) d : s_phase s = RL -> s_lflag s < 126 ->
  ph_length s d = after_length s (s_lflag s) d.
Proof.
  intros P L. unfold Ws.ph_length. rewrite P.
  destruct (s_lflag s =? 126) eqn:E1; [lia|]. destruct (126 <? s_lflag s) eqn:E2; [lia|]. reflexivity.
Qed.

Lemma ph_length_16 (s : rstate) len d : s_phase s = RL -> s_lflag s = 126 -> len < 65536 ->
  ph_length s (be_bytes 2 len ++ d) = after_length s len d.
Proof.
  intros P L B. unfold Ws.ph_length. rewrite P, L. cbn [N.eqb Pos.eqb].
  pose proof (be_num_be_bytes_small 2 len ltac:(cbn; lia)) as E.
  unfold be_bytes in *. cbn [be_acc app] in *. rewrite E. reflexivity.
Qed.

Lemma ph_length_64 (s : rstate) len d : s_phase s = RL -> s_lflag s = 127 -> len <= MAX_PAYLOAD_LEN ->
  ph_length s (be_bytes 8 len ++ d) = after_length s len d.
Proof.
  intros P L B. unfold Ws.ph_length. rewrite P, L. cbn [N.eqb Pos.eqb N.ltb N.compare Pos.compare Pos.compare_cont].
  pose proof (be_num_be_bytes_small 8 len ltac:(unfold MAX_PAYLOAD_LEN in B; cbn; lia)) as E.
  unfold be_bytes in *. cbn [be_acc app] in *. rewrite E.
  unfold len64_too_big. unfold MAX_PAYLOAD_LEN in B.
  destruct (9223372036854775807 <? len) eqn:E2; [lia|]. reflexivity.
Qed.

(* header + length, for the three forms the writer produces *)
Lemma header_phases (s : rstate) (mk rsv1 : bool) opcode len tail (K : rstate -> bytes -> pres Cx) :
  s_phase s = RH ->
  opcode_ok opcode = true ->
  (rsv1 = true -> compress c = true /\ hdr_is_control opcode = false) ->
  (hdr_is_control opcode = true -> len <= 125) ->
  len <= MAX_PAYLOAD_LEN ->
  hdr_first_fragment (s_ffin s) (s_comp s) = true ->
  size_check_applies (max_msg_size c) opcode
  && size_reject (Z.of_N len) (Z.of_N (max_msg_size c)) (Z.of_N (lenN (m_partial (s_m s)))) = false ->
  exists lf,
    bind (ph_header s (encode_header mk (if rsv1 then RSV1_COMPRESSED else 0) opcode len ++ tail))
         (fun s1 d1 => bind (ph_length s1 d1) K)
    = K (R (if mk then RM else RP) (s_tail s) (s_m s) (if hdr_is_control opcode then s_ffin s else true) opcode
           (s_frags s) (s_nfrags s) mk (s_mask s) len lf
           (if hdr_is_control opcode then s_comp s else if rsv1 then 1 else 0)) tail.
Proof.
  intros P OK RS CT MX FF SZ.
  destruct (b0_facts rsv1 opcode OK) as (B7 & B6 & B5 & B4 & BO).
  unfold encode_header.
  destruct (len <? LEN7_BOUND) eqn:L7; [|destruct (len <? LEN16_BOUND) eqn:L16].
  - (* 7-bit *)
    unfold LEN7_BOUND in L7.
    destruct (b1_facts mk len ltac:(lia)) as (BM & BL).
    exists len. cbn [app].
    rewrite (ph_header_go s _ _ tail rsv1 opcode mk len P B7 B6 B5 B4 BO BM BL OK RS ltac:(intros; lia) FF).
    cbn [Ws.bind]. rewrite ph_length_7 by (cbn [s_phase s_lflag]; first [reflexivity|lia]).
    cbn [s_lflag]. rewrite after_length_go by (cbn [s_fop s_m]; exact SZ). cbn [Ws.bind s_hmask s_tail s_m s_ffin s_fop s_frags s_nfrags s_mask s_lflag s_comp].
    reflexivity.
  - (* 16-bit *)
    unfold LEN7_BOUND in L7. unfold LEN16_BOUND in L16.
    destruct (b1_facts mk MARK16 ltac:(unfold MARK16; lia)) as (BM & BL).
    assert (NC : hdr_is_control opcode = false).
    { destruct (hdr_is_control opcode); [specialize (CT eq_refl); lia|reflexivity]. }
    exists MARK16. cbn [app]. unfold EXT16_BYTES.
    rewrite (ph_header_go s _ _ (be_bytes 2 len ++ tail) rsv1 opcode mk MARK16 P B7 B6 B5 B4 BO BM BL OK RS
               ltac:(intro X; congruence) FF).
    cbn [Ws.bind]. rewrite ph_length_16 by (cbn [s_phase s_lflag]; first [reflexivity|lia]).
    rewrite after_length_go by (cbn [s_fop s_m]; exact SZ). cbn [Ws.bind s_hmask s_tail s_m s_ffin s_fop s_frags s_nfrags s_mask s_lflag s_comp].
    reflexivity.
  - (* 64-bit *)
    destruct (b1_facts mk MARK64 ltac:(unfold MARK64; lia)) as (BM & BL).
    assert (NC : hdr_is_control opcode = false).
    { unfold LEN7_BOUND in L7. destruct (hdr_is_control opcode); [specialize (CT eq_refl); lia|reflexivity]. }
    exists MARK64. cbn [app]. unfold EXT64_BYTES.
    rewrite (ph_header_go s _ _ (be_bytes 8 len ++ tail) rsv1 opcode mk MARK64 P B7 B6 B5 B4 BO BM BL OK RS
               ltac:(intro X; congruence) FF).
    cbn [Ws.bind]. rewrite ph_length_64 by (cbn [s_phase s_lflag]; first [reflexivity|exact MX]).
    rewrite after_length_go by (cbn [s_fop s_m]; exact SZ). cbn [Ws.bind s_hmask s_tail s_m s_ffin s_fop s_frags s_nfrags s_mask s_lflag s_comp].
    reflexivity.
Qed.

(* ---- READ_PAYLOAD ----------------------------------------------------------------------------------- *)
Lemma ph_payload_go (s : rstate) body rest :
  s_frags s = [] -> s_toread s = lenN body ->
  ph_payload s (body ++ rest) =
    match handle_frame (s_m s) (s_ffin s) (s_fop s) (unmask Cx s body) (s_comp s) with
    | HErr e => PFail e
    | HOk ev m' => PDone ev (R RH [] m' (s_ffin s) (s_fop s) []
                            (if had_fragments (s_nfrags s) (lenN (@nil N)) then 0 else s_nfrags s)
                            (s_hmask s) (s_mask s) 0 (s_lflag s) (s_comp s)) rest
    end.
Proof.
  intros FR TR. unfold Ws.ph_payload. cbv zeta. rewrite TR, FR.
  destruct (lenN (body ++ rest) <? lenN body) eqn:E; [rewrite lenN_app in E; lia|].
  rewrite lenN_to_nat, takeN_exact, dropN_exact. cbn [app]. reflexivity.
Qed.

(* ---- one whole frame -------------------------------------------------------------------------------- *)
Lemma iter_frame (s : rstate) (mk rsv1 : bool) opcode body rbits w rest :
  s_phase s = RH -> s_frags s = [] ->
  opcode_ok opcode = true ->
  (rsv1 = true -> compress c = true /\ hdr_is_control opcode = false) ->
  (hdr_is_control opcode = true -> lenN body <= 125) ->
  lenN body <= MAX_PAYLOAD_LEN ->
  hdr_first_fragment (s_ffin s) (s_comp s) = true ->
  size_check_applies (max_msg_size c) opcode
  && size_reject (Z.of_N (lenN body)) (Z.of_N (max_msg_size c)) (Z.of_N (lenN (m_partial (s_m s)))) = false ->
  write_frame mk (if rsv1 then RSV1_COMPRESSED else 0) opcode body rbits = FOk w ->
  let ff' := if hdr_is_control opcode then s_ffin s else true in
  let cp' := if hdr_is_control opcode then s_comp s else if rsv1 then 1 else 0 in
  match handle_frame (s_m s) ff' opcode body cp' with
  | HErr e => iter s (w ++ rest) = PFail e
  | HOk ev m' =>
    exists s', iter s (w ++ rest) = PDone ev s' rest
               /\ s_phase s' = RH /\ s_tail s' = [] /\ s_frags s' = [] /\ s_m s' = m' /\ s_ffin s' = ff' /\ s_comp s' = cp'
  end.
Proof.
  intros P FR OK RS CT MX FF SZ W ff' cp'.
  unfold write_frame in W. unfold Ws.iter.
  destruct mk.
  - unfold MASK_BYTES, be_bytes in W. cbn [be_acc] in W. injection W as <-.
    set (a := rbits / 256 / 256 / 256 mod 256). set (b := rbits / 256 / 256 mod 256).
    set (c' := rbits / 256 mod 256). set (d := rbits mod 256).
    rewrite <- !app_assoc.
    change ((a :: b :: c' :: d :: xor_mask a b c' d body) ++ rest) with ([a; b; c'; d] ++ xor_mask a b c' d body ++ rest).
    destruct (header_phases s true rsv1 opcode (lenN body) ([a; b; c'; d] ++ xor_mask a b c' d body ++ rest)
                (fun s2 d2 => bind (ph_mask s2 d2) (fun s3 d3 => ph_payload s3 d3)) P OK RS CT MX FF SZ) as (lf & E).
    rewrite E. cbv beta. unfold Ws.ph_mask. cbn [s_phase app Ws.bind].
    cbn [s_tail s_m s_ffin s_fop s_frags s_nfrags s_hmask s_toread s_lflag s_comp].
    rewrite ph_payload_go by (cbn [s_frags s_toread]; first [exact FR|symmetry; apply xor_mask_lenN]).
    cbn [s_m s_ffin s_fop s_comp s_hmask s_mask s_nfrags s_lflag]. unfold unmask. cbn [s_hmask s_mask].
    rewrite xor_mask_involutive. fold ff' cp'.
    destruct (handle_frame (s_m s) ff' opcode body cp') as [ev m'|e]; [|reflexivity].
    eexists. split; [reflexivity|]. cbn. repeat split; reflexivity.
  - injection W as <-. rewrite <- !app_assoc.
    destruct (header_phases s false rsv1 opcode (lenN body) (body ++ rest)
                (fun s2 d2 => bind (ph_mask s2 d2) (fun s3 d3 => ph_payload s3 d3)) P OK RS CT MX FF SZ) as (lf & E).
    rewrite E. cbv beta. rewrite ph_mask_skip by (cbn [s_phase]; discriminate). cbn [Ws.bind].
    rewrite ph_payload_go by (cbn [s_frags s_toread]; first [exact FR|reflexivity]).
    cbn [s_m s_ffin s_fop s_comp s_hmask s_mask s_nfrags s_lflag]. unfold unmask. cbn [s_hmask]. fold ff' cp'.
    destruct (handle_frame (s_m s) ff' opcode body cp') as [ev m'|e]; [|reflexivity].
    eexists. split; [reflexivity|]. cbn. repeat split; reflexivity.
Qed.

(* write_frame never fails *)
Lemma write_frame_ok mk rsv opcode body rbits : exists w, write_frame mk rsv opcode body rbits = FOk w.
Proof.
  unfold write_frame. destruct mk; [|eexists; reflexivity].
  unfold MASK_BYTES, be_bytes. cbn [be_acc]. eexists; reflexivity.
Qed.

(* ---- _handle_frame on whole (unfragmented) messages --------------------------------------------------- *)
Lemma handle_data (m : mstate Cx) opcode body cp :
  opcode = OP_TEXT \/ opcode = OP_BINARY -> m_partial m = [] -> m_opcode m = NOT_SET_OP ->
  handle_frame m true opcode body cp = complete Cx decomp c (m_cx m) opcode NOT_SET_OP body cp.
Proof.
  intros O HP HO. destruct m as [pa mo cx]. cbn in HP, HO. subst pa mo.
  destruct O as [-> | ->]; reflexivity.
Qed.

Lemma deliver_ok opcode body (m : mstate Cx) :
  opcode = OP_TEXT \/ opcode = OP_BINARY ->
  (opcode = OP_TEXT -> decode_text c = true -> utf8_valid body = true) ->
  deliver Cx c opcode body m = HOk [if opcode =? OP_TEXT then MText body else MBinary body] m.
Proof.
  intros O U. unfold deliver. destruct O as [-> | ->].
  - change (OP_TEXT =? OP_TEXT) with true. cbv iota.
    destruct (decode_text c) eqn:D; [|reflexivity]. now rewrite (U eq_refl eq_refl).
  - reflexivity.
Qed.

Lemma handle_ping (m : mstate Cx) ff body cp : handle_frame m ff OP_PING body cp = HOk [MPing body] m.
Proof. reflexivity. Qed.

Lemma handle_pong (m : mstate Cx) ff body cp : handle_frame m ff OP_PONG body cp = HOk [MPong body] m.
Proof. reflexivity. Qed.

Lemma handle_close (m : mstate Cx) ff code reason cp :
  code < 65536 -> close_code_bad code = false -> utf8_valid reason = true ->
  handle_frame m ff OP_CLOSE (be_bytes CLOSE_CODE_BYTES code ++ reason) cp = HOk [MClose code reason] m.
Proof.
  intros B OKC U. unfold CLOSE_CODE_BYTES.
  pose proof (be_num_be_bytes_small 2 code ltac:(cbn; lia)) as E.
  unfold be_bytes in *. cbn [be_acc app] in *.
  unfold Ws.handle_frame. change ((OP_CLOSE =? OP_TEXT) || (OP_CLOSE =? OP_BINARY) || (OP_CLOSE =? OP_CONTINUATION)) with false.
  cbv iota. change (OP_CLOSE =? OP_CLOSE) with true. cbv iota. rewrite E, OKC, U. reflexivity.
Qed.

End Frame.

