(* Every table produced by the construction operations (add_route, add_static, add_subapp with
   re-indexing under the prefix, add_domain, freeze) has a consistent index: router_ok. *)
From AV Require Import Lib.Base Generated.DispatchGen Model.Dispatch Proofs.DispatchStrings Proofs.DispatchRule.
From Coq Require Import Arith.
Open Scope N_scope.

(* ------------------------------------------------------------------ positions *)

Fixpoint pw (Q : resource -> bool) (off : nat) (rs : list resource) : list nat :=
  match rs with
  | [] => []
  | r :: rs' => (if Q r then [off] else []) ++ pw Q (S off) rs'
  end.

Lemma positions_gen Q rs : forall off,
  map fst (filter (fun ir : nat * resource => Q (snd ir)) (combine (seq off (length rs)) rs)) = pw Q off rs.
Proof.
  induction rs as [|r rs IH]; intros off; [reflexivity|].
  cbn [length seq combine filter snd pw]. destruct (Q r); cbn [map fst app]; rewrite IH; reflexivity.
Qed.

Lemma positions_where_pw Q rs : positions_where Q rs = pw Q 0 rs.
Proof. apply positions_gen. Qed.

Lemma pw_app Q a b : forall off, pw Q off (a ++ b) = pw Q off a ++ pw Q (off + length a) b.
Proof.
  induction a as [|r a IH]; intros off; simpl.
  - rewrite Nat.add_0_r. reflexivity.
  - rewrite IH, <- app_assoc, Nat.add_succ_r. reflexivity.
Qed.

Lemma pw_ge Q rs : forall off j, In j (pw Q off rs) -> (off <= j)%nat.
Proof.
  induction rs as [|r rs IH]; intros off j H; [destruct H|].
  cbn [pw] in H. apply in_app_or in H. destruct H as [H|H].
  - destruct (Q r); [destruct H as [<-|[]]; lia|destruct H].
  - apply IH in H. lia.
Qed.

Lemma pw_ext Q Q' rs rs' : Forall2 (fun a b => Q a = Q' b) rs rs' -> forall off, pw Q off rs = pw Q' off rs'.
Proof. induction 1 as [|a b rs rs' H _ IH]; intros off; [reflexivity|]. cbn [pw]. rewrite H, IH. reflexivity. Qed.

(* ------------------------------------------------------------------ index operations *)

Lemma list_eqb_sym a b : list_eqb a b = list_eqb b a.
Proof.
  destruct (list_eqb a b) eqn:E.
  - apply list_eqb_eq in E. subst. symmetry. apply list_eqb_refl.
  - symmetry. apply list_eqb_neq. apply list_eqb_neq in E. congruence.
Qed.

Lemma bucket_cons k k0 l ix : bucket ((k0, l) :: ix) k = if list_eqb k k0 then l else bucket ix k.
Proof. unfold bucket. cbn [idx_get]. destruct (list_eqb k k0); reflexivity. Qed.

Lemma bucket_append k i ix : forall k',
  bucket (idx_append k i ix) k' = if list_eqb k' k then bucket ix k' ++ [i] else bucket ix k'.
Proof.
  induction ix as [|[k0 l] ix IH]; intros k'.
  - cbn [idx_append]. rewrite bucket_cons. unfold bucket. simpl. destruct (list_eqb k' k); reflexivity.
  - cbn [idx_append]. destruct (list_eqb k k0) eqn:E.
    + apply list_eqb_eq in E. subst k0. rewrite !bucket_cons. destruct (list_eqb k' k); reflexivity.
    + rewrite !bucket_cons, IH. destruct (list_eqb k' k0) eqn:E2; [|reflexivity].
      apply list_eqb_eq in E2. subst k0. rewrite list_eqb_sym, E. reflexivity.
Qed.

Lemma idx_remove_spec k i : forall ix ix1, idx_remove k i ix = BOk ix1 ->
  exists l', remove_first i (bucket ix k) = Some l' /\
             forall k', bucket ix1 k' = if list_eqb k' k then l' else bucket ix k'.
Proof.
  induction ix as [|[k0 l] ix IH]; intros ix1 H; [discriminate|].
  cbn [idx_remove] in H. destruct (list_eqb k k0) eqn:E.
  - apply list_eqb_eq in E. subst k0. destruct (remove_first i l) as [l'|] eqn:R; [|discriminate].
    inversion H; subst ix1. exists l'. rewrite bucket_cons, list_eqb_refl. split; [exact R|].
    intros k'. rewrite !bucket_cons. destruct (list_eqb k' k); reflexivity.
  - destruct (idx_remove k i ix) as [r|e] eqn:R; [|discriminate]. inversion H; subst ix1.
    destruct (IH r eq_refl) as (l' & H1 & H2). exists l'. rewrite bucket_cons, E. split; [exact H1|].
    intros k'. rewrite !bucket_cons, H2. destruct (list_eqb k' k0) eqn:E2; [|reflexivity].
    apply list_eqb_eq in E2. subst k0. rewrite list_eqb_sym, E. reflexivity.
Qed.

Lemma remove_first_spec i : forall l l', remove_first i l = Some l' ->
  exists a b, l = a ++ i :: b /\ l' = a ++ b /\ ~ In i a.
Proof.
  induction l as [|j l IH]; intros l' H; [discriminate|].
  cbn [remove_first] in H. destruct (Nat.eqb i j) eqn:E.
  - apply Nat.eqb_eq in E. subst j. inversion H; subst. exists [], l'. simpl. auto.
  - destruct (remove_first i l) as [r|] eqn:R; [|discriminate]. inversion H; subst l'.
    destruct (IH r eq_refl) as (a & b & -> & -> & Hn). exists (j :: a), b. simpl.
    repeat split; auto. intros [H1|H1]; [subst; rewrite Nat.eqb_refl in E; discriminate|auto].
Qed.

(* ------------------------------------------------------------------ filters on position lists *)

Lemma filter_all {A} (P : A -> bool) l : (forall x, In x l -> P x = true) -> filter P l = l.
Proof.
  induction l as [|x l IH]; intros H; [reflexivity|]. cbn [filter]. rewrite (H x (or_introl eq_refl)).
  rewrite IH; [reflexivity|]. intros; apply H; simpl; auto.
Qed.

Lemma filter_none {A} (P : A -> bool) l : (forall x, In x l -> P x = false) -> filter P l = [].
Proof.
  induction l as [|x l IH]; intros H; [reflexivity|]. cbn [filter]. rewrite (H x (or_introl eq_refl)).
  apply IH. intros; apply H; simpl; auto.
Qed.

Lemma filter_nil_all {A} (P : A -> bool) l : filter P l = [] -> forall x, In x l -> P x = false.
Proof.
  induction l as [|y l IH]; intros H x Hx; [destruct Hx|]. cbn [filter] in H.
  destruct (P y) eqn:E; [discriminate|]. destruct Hx as [<-|Hx]; auto.
Qed.

Lemma filter_lt_S i l : ~ In i l -> filter (fun j => Nat.ltb j (S i)) l = filter (fun j => Nat.ltb j i) l.
Proof.
  intros H. apply filter_ext_in. intros j Hj. assert (j <> i) by (intros ->; contradiction).
  destruct (Nat.ltb j (S i)) eqn:E1, (Nat.ltb j i) eqn:E2; try reflexivity.
  - apply Nat.ltb_lt in E1. apply Nat.ltb_ge in E2. lia.
  - apply Nat.ltb_ge in E1. apply Nat.ltb_lt in E2. lia.
Qed.

Lemma filter_ge_S i l :
  filter (fun j => Nat.leb (S i) j) l = filter (fun j => Nat.leb (S i) j) (filter (fun j => Nat.leb i j) l).
Proof.
  induction l as [|x l IH]; [reflexivity|]. cbn [filter].
  destruct (Nat.leb (S i) x) eqn:E1.
  - assert (E2 : Nat.leb i x = true) by (apply Nat.leb_le; apply Nat.leb_le in E1; lia).
    rewrite E2. cbn [filter]. rewrite E1, IH. reflexivity.
  - destruct (Nat.leb i x); [cbn [filter]; rewrite E1|]; exact IH.
Qed.

Lemma filter_split_end n l : filter (fun j => Nat.leb n j) l = [] -> filter (fun j => Nat.ltb j n) l = l.
Proof.
  intros H. apply filter_all. intros x Hx. pose proof (filter_nil_all _ _ H x Hx) as E.
  apply Nat.ltb_lt. apply Nat.leb_gt in E. exact E.
Qed.

(* ------------------------------------------------------------------ index_ok in terms of pw *)

Lemma index_ok_pw rs ix : index_ok rs ix <-> forall k, bucket ix k = pw (in_bucket k) 0 rs.
Proof. unfold index_ok. split; intros H k; [rewrite <- positions_where_pw|rewrite positions_where_pw]; apply H. Qed.

Lemma in_bucket_key r k : is_dom r = false -> in_bucket k r = list_eqb k (index_key r).
Proof. intros H. unfold in_bucket, nondom. rewrite H. simpl. apply list_eqb_sym. Qed.

Lemma in_bucket_dom r k : is_dom r = true -> in_bucket k r = false.
Proof. intros H. unfold in_bucket, nondom. rewrite H. reflexivity. Qed.

Lemma register_ok r rt : router_ok rt -> res_ok r -> router_ok (register r rt).
Proof.
  intros [Hix Hrs] Hr. unfold router_ok, register. cbn [r_res r_ix]. split.
  - apply index_ok_pw. rewrite index_ok_pw in Hix. intros k. rewrite pw_app. cbn [pw Nat.add].
    rewrite app_nil_r. destruct (is_dom r) eqn:Ed.
    + rewrite (in_bucket_dom r k Ed), app_nil_r. apply Hix.
    + rewrite bucket_append, (in_bucket_key r k Ed), Hix. destruct (list_eqb k (index_key r)); [reflexivity|].
      rewrite app_nil_r. reflexivity.
  - apply Forall_app. split; [assumption|constructor; [assumption|constructor]].
Qed.

(* replacing resources by ones with the same key and kind keeps the index consistent *)
Lemma index_ok_ext rs rs' ix :
  Forall2 (fun a b => is_dom a = is_dom b /\ index_key a = index_key b) rs rs' ->
  index_ok rs ix -> index_ok rs' ix.
Proof.
  intros H. rewrite !index_ok_pw. intros Hix k. rewrite Hix. apply pw_ext.
  clear -H. induction H as [|a b rs rs' [H1 H2] _ IH]; constructor; [|assumption].
  unfold in_bucket, nondom. rewrite H1, H2. reflexivity.
Qed.

(* ------------------------------------------------------------------ re-indexing *)

Section Reindex.
  Variable f : resource -> bres resource.
  Hypothesis f_kind : forall r r', f r = BOk r' -> is_dom r' = is_dom r.

  Definition inv (done l : list resource) (ix : index) : Prop :=
    forall k,
      filter (fun j => Nat.ltb j (length done)) (bucket ix k) = pw (in_bucket k) 0 done /\
      filter (fun j => Nat.leb (length done) j) (bucket ix k) = pw (in_bucket k) (length done) l.

  Lemma high_has_i done r tail ix k : inv done (r :: tail) ix ->
    (In (length done) (bucket ix k) <-> in_bucket k r = true).
  Proof.
    intros H. destruct (H k) as [_ Hh]. cbn [pw] in Hh. split.
    - intros Hin. assert (Hin' : In (length done) (filter (fun j => Nat.leb (length done) j) (bucket ix k))).
      { apply filter_In. split; [assumption|apply Nat.leb_refl]. }
      rewrite Hh in Hin'. destruct (in_bucket k r); [reflexivity|]. cbn [app] in Hin'.
      apply pw_ge in Hin'. lia.
    - intros E. rewrite E in Hh. assert (Hin : In (length done) (filter (fun j => Nat.leb (length done) j) (bucket ix k))).
      { rewrite Hh. simpl. auto. }
      apply filter_In in Hin. tauto.
  Qed.

  Lemma reindex_step done r tail ix ix1 r' :
    inv done (r :: tail) ix ->
    idx_remove (index_key r) (length done) ix = BOk ix1 ->
    f r = BOk r' ->
    inv (done ++ [r']) tail (idx_append (index_key r') (length done) ix1).
  Proof.
    intros Hinv Hrem Hf. set (i := length done) in *.
    destruct (idx_remove_spec _ _ _ _ Hrem) as (l' & Hl' & Hb1).
    destruct (remove_first_spec _ _ _ Hl') as (a & b & HB & -> & Hna).
    (* r is an indexed (non matched) resource *)
    assert (Hr : in_bucket (index_key r) r = true).
    { apply (high_has_i done r tail ix (index_key r) Hinv). rewrite HB. apply in_or_app. right. simpl. auto. }
    assert (Hnd : is_dom r = false).
    { unfold in_bucket, nondom in Hr. apply andb_true_iff in Hr as [Hr _]. apply negb_true_iff in Hr. exact Hr. }
    assert (Hnd' : is_dom r' = false) by (rewrite (f_kind r r' Hf); exact Hnd).
    intros k. rewrite app_length. cbn [length]. rewrite Nat.add_1_r. fold i.
    (* the bucket after removal: no i left, everything else unchanged *)
    assert (HB1 : ~ In i (bucket ix1 k) /\
                  filter (fun j => Nat.ltb j i) (bucket ix1 k) = pw (in_bucket k) 0 done /\
                  filter (fun j => Nat.leb (S i) j) (bucket ix1 k) = pw (in_bucket k) (S i) tail).
    { destruct (Hinv k) as [Hlow Hhigh]. fold i in Hlow, Hhigh. cbn [pw] in Hhigh.
      rewrite Hb1. destruct (list_eqb k (index_key r)) eqn:Ek.
      - apply list_eqb_eq in Ek. subst k. rewrite Hr in Hhigh. cbn [app] in Hhigh.
        rewrite HB in Hlow, Hhigh. rewrite filter_app in Hlow, Hhigh. cbn [filter] in Hlow, Hhigh.
        rewrite Nat.leb_refl in Hhigh. rewrite Nat.ltb_irrefl in Hlow.
        assert (Ha : filter (fun j => Nat.leb i j) a = []).
        { destruct (filter (fun j => Nat.leb i j) a) as [|x t] eqn:Ea; [reflexivity|].
          cbn [app] in Hhigh. inversion Hhigh; subst x. exfalso. apply Hna.
          assert (Hin : In i (filter (fun j => Nat.leb i j) a)) by (rewrite Ea; simpl; auto).
          apply filter_In in Hin. tauto. }
        rewrite Ha in Hhigh. cbn [app] in Hhigh. inversion Hhigh as [Hb]. clear Hhigh.
        assert (Hnb : ~ In i b).
        { intros Hin. assert (Hin' : In i (filter (fun j => Nat.leb i j) b)) by (apply filter_In; split; [assumption|apply Nat.leb_refl]).
          rewrite Hb in Hin'. apply pw_ge in Hin'. lia. }
        split; [intros Hin; apply in_app_or in Hin; tauto|]. split.
        + rewrite <- Hlow, !filter_app. reflexivity.
        + rewrite filter_ge_S, filter_app, Ha. cbn [app]. rewrite Hb.
          apply filter_all. intros x Hx. apply pw_ge in Hx. apply Nat.leb_le. exact Hx.
      - assert (Hq : in_bucket k r = false).
        { rewrite (in_bucket_key r k Hnd). exact Ek. }
        rewrite Hq in Hhigh. cbn [app] in Hhigh.
        assert (Hni : ~ In i (bucket ix k)).
        { intros Hin. apply (high_has_i done r tail ix k Hinv) in Hin. congruence. }
        split; [exact Hni|]. split; [exact Hlow|].
        rewrite filter_ge_S, Hhigh. apply filter_all. intros x Hx. apply pw_ge in Hx. apply Nat.leb_le. exact Hx. }
    destruct HB1 as (Hni & Hlow1 & Hhigh1).
    rewrite bucket_append, pw_app. cbn [pw]. rewrite app_nil_r, Nat.add_0_l. fold i.
    rewrite (in_bucket_key r' k Hnd').
    destruct (list_eqb k (index_key r')).
    - rewrite !filter_app. cbn [filter]. rewrite (proj2 (Nat.ltb_lt i (S i))) by lia.
      rewrite (proj2 (Nat.leb_gt (S i) i)) by lia. rewrite app_nil_r.
      rewrite filter_lt_S by exact Hni. rewrite Hlow1, Hhigh1. split; reflexivity.
    - rewrite app_nil_r. rewrite filter_lt_S by exact Hni. rewrite Hlow1, Hhigh1. split; reflexivity.
  Qed.

  (* a matched sub-app is not in the index: it is only prefixed *)
  Lemma reindex_step_dom done r tail ix r' :
    inv done (r :: tail) ix -> is_dom r = true -> f r = BOk r' ->
    inv (done ++ [r']) tail ix.
  Proof.
    intros Hinv Hd Hf. set (i := length done) in *.
    assert (Hd' : is_dom r' = true) by (rewrite (f_kind r r' Hf); exact Hd).
    intros k. rewrite app_length. cbn [length]. rewrite Nat.add_1_r. fold i.
    destruct (Hinv k) as [Hlow Hhigh]. fold i in Hlow, Hhigh. cbn [pw] in Hhigh.
    rewrite (in_bucket_dom r k Hd) in Hhigh. cbn [app] in Hhigh.
    assert (Hni : ~ In i (bucket ix k)).
    { intros Hin. apply (high_has_i done r tail ix k Hinv) in Hin. rewrite (in_bucket_dom r k Hd) in Hin. discriminate. }
    rewrite pw_app. cbn [pw]. rewrite (in_bucket_dom r' k Hd'). cbn [app]. rewrite app_nil_r. split.
    - rewrite filter_lt_S by exact Hni. exact Hlow.
    - rewrite filter_ge_S, Hhigh. apply filter_all. intros x Hx. apply pw_ge in Hx. apply Nat.leb_le. exact Hx.
  Qed.

  Lemma reindex_loop_inv : forall l done ix rs' ix',
    inv done l ix ->
    reindex_loop f l (length done) ix = BOk (rs', ix') ->
    index_ok (done ++ rs') ix' /\ Forall2 (fun r r' => f r = BOk r') l rs'.
  Proof.
    induction l as [|r tail IH]; intros done ix rs' ix' Hinv H.
    - cbn [reindex_loop] in H. inversion H; subst. rewrite app_nil_r. split; [|constructor].
      apply index_ok_pw. intros k. destruct (Hinv k) as [Hlow Hhigh]. cbn [pw] in Hhigh.
      rewrite <- Hlow. symmetry. apply filter_split_end. exact Hhigh.
    - cbn [reindex_loop] in H. destruct (is_dom r) eqn:Hd.
      + destruct (f r) as [r'|e] eqn:Hf; [|discriminate].
        pose proof (reindex_step_dom done r tail ix r' Hinv Hd Hf) as Hinv'.
        assert (Hlen : S (length done) = length (done ++ [r'])) by (rewrite app_length; simpl; lia).
        rewrite Hlen in H.
        destruct (reindex_loop f tail (length (done ++ [r'])) ix) as [[l'' ix2]|e] eqn:Hloop; [|discriminate].
        inversion H; subst rs' ix'. destruct (IH _ _ _ _ Hinv' Hloop) as [Hok Hall].
        rewrite <- app_assoc in Hok. split; [exact Hok|constructor; assumption].
      + destruct (idx_remove (index_key r) (length done) ix) as [ix1|e] eqn:Hrem; [|discriminate].
        destruct (f r) as [r'|e] eqn:Hf; [|discriminate].
        pose proof (reindex_step done r tail ix ix1 r' Hinv Hrem Hf) as Hinv'.
        assert (Hlen : S (length done) = length (done ++ [r'])) by (rewrite app_length; simpl; lia).
        rewrite Hlen in H.
        destruct (reindex_loop f tail (length (done ++ [r'])) (idx_append (index_key r') (length done) ix1)) as [[l'' ix2]|e] eqn:Hloop; [|discriminate].
        inversion H; subst rs' ix'. destruct (IH _ _ _ _ Hinv' Hloop) as [Hok Hall].
        rewrite <- app_assoc in Hok. split; [exact Hok|constructor; assumption].
  Qed.

  Lemma inv_start rs ix : index_ok rs ix -> inv [] rs ix.
  Proof.
    rewrite index_ok_pw. intros H k. cbn [length pw]. split.
    - apply filter_none. intros x _. reflexivity.
    - rewrite filter_all; [apply H|]. intros x _. reflexivity.
  Qed.

  Lemma reindex_loop_ok rs ix rs' ix' :
    index_ok rs ix -> reindex_loop f rs 0%nat ix = BOk (rs', ix') ->
    index_ok rs' ix' /\ Forall2 (fun r r' => f r = BOk r') rs rs'.
  Proof. intros Hix H. apply (reindex_loop_inv rs [] ix rs' ix' (inv_start rs ix Hix) H). Qed.
End Reindex.

(* ------------------------------------------------------------------ add_prefix keeps resources consistent *)

Lemma add_prefix_kind pfx r r' : add_prefix pfx r = BOk r' -> is_dom r' = is_dom r.
Proof.
  destruct r as [p rt|o f pat rt|p rt|p rs ix|d rs ix]; cbn [add_prefix]; intros H;
    try (inversion H; reflexivity);
    destruct (reindex_loop (add_prefix pfx) rs 0%nat ix) as [[rs' ix']|e]; inversion H; reflexivity.
Qed.

Lemma Forall2_Forall_r {A} (R : A -> A -> Prop) (P Q : A -> Prop) l l' :
  Forall2 R l l' -> Forall (fun a => forall b, R a b -> P a -> Q b) l -> Forall P l -> Forall Q l'.
Proof.
  induction 1 as [|a b l l' H _ IH]; intros H1 H2; [constructor|].
  inversion H1; subst. inversion H2; subst. constructor; eauto.
Qed.

(* a sub-application prefix that reaches the resources unchanged by yarl's decoder, and brace free *)
Definition clean_prefix (pfx : str) : Prop := memN PCT pfx = false /\ memN ik_brace pfx = false.

Lemma add_prefix_ok pfx : clean_prefix pfx -> forall r r', res_ok r -> add_prefix pfx r = BOk r' -> res_ok r'.
Proof.
  intros [Hpct Hbr].
  induction r using resource_ind'; intros r' Hok Hadd; cbn [add_prefix] in Hadd.
  - inversion Hok; subst. inversion Hadd. constructor. rewrite memN_app, Hbr. assumption.
  - inversion Hok as [|? ? ? Hlead| | |]; subst. inversion Hadd.
    change (pfx ++ formatter_of pat) with (formatter_of (Lit pfx pfx :: pat)). constructor.
    unfold lead_ok in *. cbn [lead_f lead_m]. rewrite dec_plain_app by assumption. rewrite Hlead. reflexivity.
  - inversion Hadd. constructor.
  - inversion Hok as [| | |? ? ? Hix Hrs|]; subst.
    destruct (reindex_loop (add_prefix pfx) rs 0%nat ix) as [[rs' ix']|e] eqn:Hl; [|discriminate].
    inversion Hadd; subst r'. destruct (reindex_loop_ok _ (add_prefix_kind pfx) rs ix rs' ix' Hix Hl) as [Hix' Hall].
    constructor; [exact Hix'|]. eapply Forall2_Forall_r; [exact Hall| |exact Hrs].
    rewrite Forall_forall in *. intros a Ha b Hab Hpa. apply (H a Ha b Hpa Hab).
  - inversion Hok as [| | | |? ? ? Hix Hrs]; subst.
    destruct (reindex_loop (add_prefix pfx) rs 0%nat ix) as [[rs' ix']|e] eqn:Hl; [|discriminate].
    inversion Hadd; subst r'. destruct (reindex_loop_ok _ (add_prefix_kind pfx) rs ix rs' ix' Hix Hl) as [Hix' Hall].
    constructor; [exact Hix'|]. eapply Forall2_Forall_r; [exact Hall| |exact Hrs].
    rewrite Forall_forall in *. intros a Ha b Hab Hpa. apply (H a Ha b Hpa Hab).
Qed.

Lemma reindex_ok pfx rt rt' : clean_prefix pfx -> router_ok rt -> reindex pfx rt = BOk rt' -> router_ok rt'.
Proof.
  intros Hclean [Hix Hrs] H. unfold reindex in H.
  destruct (reindex_loop (add_prefix pfx) (r_res rt) 0%nat (r_ix rt)) as [[rs' ix']|e] eqn:Hl; [|discriminate].
  inversion H; subst rt'. destruct (reindex_loop_ok _ (add_prefix_kind pfx) _ _ rs' ix' Hix Hl) as [Hix' Hall].
  split; [exact Hix'|]. cbn [r_res]. eapply Forall2_Forall_r; [exact Hall| |exact Hrs].
  apply Forall_forall. intros a _ b Hab Hpa. eapply add_prefix_ok; eassumption.
Qed.

(* ------------------------------------------------------------------ freeze *)

Lemma freeze_res_same r : is_dom r = is_dom (freeze_res r) /\ index_key r = index_key (freeze_res r).
Proof. destruct r as [[|c p] rt|o f pat rt|p rt|p rs ix|d rs ix]; split; reflexivity. Qed.

Lemma freeze_res_ok r : res_ok r -> res_ok (freeze_res r).
Proof. destruct r as [[|c p] rt|o f pat rt|p rt|p rs ix|d rs ix]; intros H; try exact H. constructor. reflexivity. Qed.

Lemma freeze_ok rt : router_ok rt -> router_ok (freeze rt).
Proof.
  intros [Hix Hrs]. unfold freeze, router_ok. cbn [r_res r_ix]. split.
  - eapply index_ok_ext; [|exact Hix]. clear. induction (r_res rt); constructor; [apply freeze_res_same|assumption].
  - apply Forall_forall. intros r Hr. apply in_map_iff in Hr. destruct Hr as (x & <- & Hx).
    apply freeze_res_ok. rewrite Forall_forall in Hrs. auto.
Qed.

(* ------------------------------------------------------------------ the operations *)

Lemma empty_ok : router_ok empty_router.
Proof. split; [|constructor]. intros k. reflexivity. Qed.

Lemma add_route_to_same m h r r' : add_route_to m h r = BOk r' ->
  is_dom r = is_dom r' /\ index_key r = index_key r' /\ (res_ok r -> res_ok r').
Proof.
  destruct r as [p rt|o f pat rt|p rt|p rs ix|d rs ix]; cbn [add_route_to]; intros H; try discriminate.
  - destruct (route_lookup m rt); inversion H. repeat split. intros Hok. inversion Hok; subst. constructor. assumption.
  - destruct (route_lookup m rt); inversion H. repeat split. intros Hok. inversion Hok; subst. constructor. assumption.
Qed.

Lemma rev_last_split {A} (l : list A) y t : rev l = y :: t -> l = removelast l ++ [y] /\ t = rev (removelast l).
Proof.
  intros H. assert (Hl : l = rev t ++ [y]).
  { rewrite <- (rev_involutive l), H. reflexivity. }
  rewrite Hl. rewrite removelast_last. rewrite rev_involutive. auto.
Qed.

Lemma replace_last_snoc {A} (q : list A) y x : replace_last (q ++ [y]) x = q ++ [x].
Proof.
  induction q as [|a q IH]; [reflexivity|].
  cbn [app]. destruct (q ++ [y]) as [|b t] eqn:E; [destruct q; discriminate|].
  change (replace_last (a :: b :: t) x) with (a :: replace_last (b :: t) x). rewrite IH. reflexivity.
Qed.

Lemma replace_last_spec {A} (l : list A) y t x : rev l = y :: t -> replace_last l x = removelast l ++ [x].
Proof.
  intros H. destruct (rev_last_split l y t H) as [Hl _].
  rewrite <- (replace_last_snoc (removelast l) y x), <- Hl. reflexivity.
Qed.

(* ---- what parse_template produces: at most one leading literal, matched in its path_safe form *)
Definition lead_shape (its : list item) : Prop :=
  match its with
  | [] => True
  | Hole _ _ _ :: _ => True
  | Lit q m :: [] => m = path_safe_dec q
  | Lit q m :: Hole _ _ _ :: _ => m = path_safe_dec q
  | Lit _ _ :: Lit _ _ :: _ => False
  end.

Lemma lead_shape_ok its : lead_shape its -> lead_ok its.
Proof.
  unfold lead_ok. destruct its as [|[q m|n c mn] [|[q' m'|n' c' mn'] r]]; cbn [lead_shape lead_f lead_m]; intros H;
    try reflexivity; try contradiction; subst; rewrite !app_nil_r; reflexivity.
Qed.

Lemma parse_hole_is_hole body h : parse_hole body = Some h -> exists n c mn, h = Hole n c mn.
Proof.
  unfold parse_hole. destruct (negb (valid_name (before_char 58 body))); [discriminate|].
  destruct (strip_prefix (before_char 58 body) body) as [[|x re]|]; [|
    destruct (assoc re regex_family) as [[c mn]|]|]; intros H; inversion H; eauto.
Qed.

Lemma lit_item_shape lit l : lit_item lit = Some l -> l = [] \/ exists q, l = [Lit q (path_safe_dec q)].
Proof.
  unfold lit_item. destruct lit; [intros H; inversion H; auto|].
  destruct (requote_path (rev (n :: lit))); intros H; inversion H. eauto.
Qed.

Lemma parse_aux_shape f : forall lit s its, parse_aux f lit s = Some its -> lead_shape its.
Proof.
  induction f as [|f IH]; intros lit s its H; [discriminate|]. cbn [parse_aux] in H.
  destruct s as [|c s'].
  - destruct (lit_item_shape lit its H) as [->|[q ->]]; simpl; auto.
  - destruct (c =? 125); [discriminate|]. destruct (c =? 123).
    + destruct (take_until_close s') as [[body rest]|]; [|discriminate].
      destruct (lit_item lit) as [l|] eqn:El; [|discriminate].
      destruct (parse_hole body) as [h|] eqn:Eh; [|discriminate].
      destruct (parse_aux f [] rest) as [its'|]; [|discriminate]. inversion H; subst its.
      destruct (parse_hole_is_hole body h Eh) as (n & cl & mn & ->).
      destruct (lit_item_shape lit l El) as [->|[q ->]]; simpl; auto.
    + eapply IH. exact H.
Qed.

Lemma new_resource_ok path r : new_resource path = BOk r -> res_ok r.
Proof.
  unfold new_resource. destruct (has_brace path) eqn:Hb.
  - unfold parse_template. destruct (parse_aux (S (length path)) [] path) as [its|] eqn:Ep; [|discriminate].
    destruct (nodup_str (hole_names its)); intros H; inversion H. constructor.
    apply lead_shape_ok. eapply parse_aux_shape. exact Ep.
  - intros H. inversion H. constructor. unfold has_brace in Hb. apply orb_false_iff in Hb. tauto.
Qed.

Lemma op_route_ok m path h rt rt' : router_ok rt -> op_route m path h rt = BOk rt' -> router_ok rt'.
Proof.
  intros Hok H. unfold op_route in H.
  destruct (negb (is_nil path) && negb (starts_with [SLASH] path)); [discriminate|].
  destruct (rev (r_res rt)) as [|y t] eqn:Erev.
  - destruct (new_resource path) as [r|e] eqn:En; [|discriminate].
    destruct (add_route_to m h r) as [r'|e] eqn:Ea; [|discriminate]. inversion H; subst rt'.
    apply register_ok; [assumption|]. destruct (add_route_to_same m h r r' Ea) as (_ & _ & Hr). apply Hr.
    eapply new_resource_ok. exact En.
  - destruct (raw_match y path).
    + destruct (add_route_to m h y) as [r'|e] eqn:Ea; [|discriminate]. inversion H; subst rt'.
      destruct (add_route_to_same m h y r' Ea) as (Hd & Hk & Hr).
      destruct Hok as [Hix Hrs]. destruct (rev_last_split _ _ _ Erev) as [Hl _].
      rewrite (replace_last_spec _ y t r' Erev). split; cbn [r_res r_ix].
      * eapply index_ok_ext; [|exact Hix]. rewrite Hl at 1.
        apply Forall2_app; [|constructor; [auto|constructor]].
        clear. induction (removelast (r_res rt)); constructor; auto.
      * rewrite Hl in Hrs. apply Forall_app in Hrs. destruct Hrs as [H1 H2]. apply Forall_app. split; [exact H1|].
        inversion H2; subst. constructor; [auto|constructor].
    + destruct (new_resource path) as [r|e] eqn:En; [|discriminate].
      destruct (add_route_to m h r) as [r'|e] eqn:Ea; [|discriminate]. inversion H; subst rt'.
      apply register_ok; [assumption|]. destruct (add_route_to_same m h r r' Ea) as (_ & _ & Hr). apply Hr.
      eapply new_resource_ok. exact En.
Qed.

Lemma op_static_ok prefix h rt rt' : router_ok rt -> op_static prefix h rt = BOk rt' -> router_ok rt'.
Proof.
  intros Hok H. unfold op_static in H.
  destruct (negb (starts_with [SLASH] prefix)); [discriminate|].
  destruct (negb (prefix_resource_ok (strip_one_slash prefix))); [discriminate|].
  destruct (requote_path (strip_one_slash prefix)); inversion H. apply register_ok; [assumption|constructor].
Qed.

Lemma op_subapp_ok prefix sub rt rt' : clean_prefix (rstrip SLASH prefix) ->
  router_ok rt -> router_ok sub -> op_subapp prefix sub rt = BOk rt' -> router_ok rt'.
Proof.
  intros Hclean Hok Hsub H. unfold op_subapp in H.
  destruct (is_nil (rstrip SLASH prefix)); [discriminate|].
  destruct (negb (prefix_resource_ok (rstrip SLASH prefix))); [discriminate|].
  destruct (requote_path (rstrip SLASH prefix)); [|discriminate].
  destruct (reindex (rstrip SLASH prefix) sub) as [sub'|e] eqn:Er; [|discriminate].
  inversion H; subst rt'. apply register_ok; [assumption|].
  destruct (freeze_ok sub' (reindex_ok _ _ _ Hclean Hsub Er)) as [H1 H2]. constructor; assumption.
Qed.

Lemma op_domain_ok d sub rt rt' : router_ok rt -> router_ok sub -> op_domain d sub rt = BOk rt' -> router_ok rt'.
Proof.
  intros Hok Hsub H. unfold op_domain in H. inversion H; subst rt'. apply register_ok; [assumption|].
  destruct (freeze_ok sub Hsub) as [H1 H2]. constructor; assumption.
Qed.

(* ------------------------------------------------------------------ whole operation lists *)

Lemma op_ind' (P : op -> Prop) :
  (forall m path h, P (ORoute m path h)) ->
  (forall prefix h, P (OStatic prefix h)) ->
  (forall prefix ops, Forall P ops -> P (OSub prefix ops)) ->
  (forall d ops, Forall P ops -> P (ODom d ops)) ->
  forall o, P o.
Proof.
  intros H1 H2 H3 H4. fix IH 1. intros [m path h|prefix h|prefix ops|d ops].
  - apply H1.
  - apply H2.
  - apply H3. induction ops as [|o ops IHo]; constructor; [apply IH|apply IHo].
  - apply H4. induction ops as [|o ops IHo]; constructor; [apply IH|apply IHo].
Qed.

(* every add_subapp prefix is clean *)
Inductive op_clean : op -> Prop :=
| oc_route m path h : op_clean (ORoute m path h)
| oc_static prefix h : op_clean (OStatic prefix h)
| oc_sub prefix ops : clean_prefix (rstrip SLASH prefix) -> Forall op_clean ops -> op_clean (OSub prefix ops)
| oc_dom d ops : Forall op_clean ops -> op_clean (ODom d ops).

Lemma fold_ops_ok ops : Forall (fun o => forall rt rt', router_ok rt -> build_op o rt = BOk rt' -> router_ok rt') ops ->
  forall rt rt', router_ok rt -> fold_ops build_op ops rt = BOk rt' -> router_ok rt'.
Proof.
  induction 1 as [|o ops Ho _ IH]; intros rt rt' Hok H; cbn [fold_ops] in H.
  - inversion H; subst. assumption.
  - destruct (build_op o rt) as [rt1|e] eqn:E; [|discriminate]. eapply IH; [|exact H]. eapply Ho; eassumption.
Qed.

Lemma build_op_ok : forall o, op_clean o -> forall rt rt', router_ok rt -> build_op o rt = BOk rt' -> router_ok rt'.
Proof.
  induction o using op_ind'; intros Hc rt rt' Hok Hb; cbn [build_op] in Hb.
  - eapply op_route_ok; eassumption.
  - eapply op_static_ok; eassumption.
  - inversion Hc as [| |? ? Hpfx Hops|]; subst.
    destruct (fold_ops build_op ops empty_router) as [sub|e] eqn:E; [|discriminate].
    eapply op_subapp_ok; [exact Hpfx|exact Hok| |exact Hb]. eapply fold_ops_ok; [|apply empty_ok|exact E].
    rewrite Forall_forall in *. intros o Ho. apply H; auto.
  - inversion Hc as [| | |? ? Hops]; subst.
    destruct (fold_ops build_op ops empty_router) as [sub|e] eqn:E; [|discriminate].
    eapply op_domain_ok; [exact Hok| |exact Hb]. eapply fold_ops_ok; [|apply empty_ok|exact E].
    rewrite Forall_forall in *. intros o Ho. apply H; auto.
Qed.

Theorem build_app_ok ops rt : Forall op_clean ops -> build_app ops = BOk rt -> router_ok rt.
Proof.
  unfold build_app. intros Hc H. destruct (fold_ops build_op ops empty_router) as [rt0|e] eqn:E; [|discriminate].
  inversion H; subst rt. apply freeze_ok. eapply fold_ops_ok; [|apply empty_ok|exact E].
  rewrite Forall_forall in *. intros o Ho. apply build_op_ok. auto.
Qed.
