(* Lemmas about Model/Shutdown.v (timed model of graceful shutdown). *)
From AV Require Import Lib.Base Generated.LifecycleGen Model.Shutdown.
From Coq Require Import ZifyBool ZifyN.
Open Scope Z_scope.
Ltac Zify.zify_post_hook ::= Z.to_euclidean_division_equations.

(* facts about the unchanged tree, by computation on the translated constants *)
Lemma closing_at_T0_true : closing_at_T0 = true.  Proof. reflexivity. Qed.
Lemma srv_present_true : srv_present = true.      Proof. reflexivity. Qed.
Lemma phases_two : N.to_nat shutdown_phases = 2%nat. Proof. reflexivity. Qed.
Lemma drops_false : drops_data_when_closing = false. Proof. reflexivity. Qed.
Lemma closes_idle_true : close_closes_idle = true. Proof. reflexivity. Qed.
Lemma no_wait_true : nonpositive_timeout_no_wait = true. Proof. reflexivity. Qed.

Lemma ceil1000_bounds w : w <= ceil1000 w < w + 1000.
Proof. unfold ceil1000. lia. Qed.

(* one wait lasts max(0, t), plus < 1 s of rounding when t > 5 s *)
Lemma deadline_bounds c now :
  exists d, deadline c now = Some d /\ now + Z.max 0 (t_ms c) <= d < now + Z.max 0 (t_ms c) + 1000 /\
            (t_ms c <= 5000 -> d = now + Z.max 0 (t_ms c)).
Proof.
  unfold deadline, ceil_threshold_ms. rewrite no_wait_true.
  destruct (t_ms c <=? 0) eqn:E0.
  - exists now. split; auto. split; lia.
  - destruct (5000 <? t_ms c) eqn:E1.
    + eexists; split; [reflexivity|]. pose proof (ceil1000_bounds (abs0 c + now + t_ms c)). split; lia.
    + eexists; split; [reflexivity|]. split; lia.
Qed.

Lemma slack_cases c : (t_ms c <= 5000 /\ slack c = 0) \/ (5000 < t_ms c /\ slack c = 2000).
Proof. unfold slack. destruct (t_ms c <=? 5000) eqn:E; [left|right]; split; auto; lia. Qed.

Lemma deadlines_le_bound c : 0 <= s_ms c ->
  exists d1 dl, first_deadline c = Some d1 /\ last_deadline c = Some dl /\ d1 <= dl /\ dl <= bound c /\ s_ms c <= bound c /\
                s_ms c + Z.max 0 (t_ms c) <= d1 /\ s_ms c + 2 * Z.max 0 (t_ms c) <= dl /\ s_ms c <= d1.
Proof.
  intros Hs. unfold last_deadline, first_deadline. rewrite phases_two. cbn [deadlines].
  destruct (deadline_bounds c (s_ms c)) as (d1 & -> & B1 & B1').
  destruct (deadline_bounds c d1) as (d2 & -> & B2 & B2').
  exists d1, d2. unfold bound. destruct (slack_cases c) as [[H1 H2]|[H1 H2]]; rewrite H2; repeat split; auto; lia.
Qed.

Lemma bound_explicit c : bound c <= s_ms c + 2 * Z.max 0 (t_ms c) + 2000 /\
  (t_ms c <= 5000 -> bound c = s_ms c + 2 * Z.max 0 (t_ms c)).
Proof. unfold bound. destruct (slack_cases c) as [[H1 H2]|[H1 H2]]; rewrite H2; split; lia. Qed.

(* ---- no new request ---- *)
Lemma no_new_request c p delta : late_accepted c p delta = false.
Proof. destruct p; reflexivity. Qed.

(* ---- idle connections: closed at once ---- *)
Lemma idle_outcome c : conn_outcome c PIdle = {| closed_at := Some 0; handler := HNone |}.
Proof. reflexivity. Qed.

(* ---- in-flight requests ---- *)
Lemma handling_completes c d : 0 <= s_ms c -> d <= s_ms c + Z.max 0 (t_ms c) ->
  handling c (Some d) = {| closed_at := Some d; handler := HCompleted d |}.
Proof.
  intros Hs Hd. cbn [handling]. rewrite closing_at_T0_true, srv_present_true.
  destruct (d <=? s_ms c) eqn:E; [reflexivity|].
  destruct (deadlines_le_bound c Hs) as (d1 & dl & _ & -> & _ & _ & _ & _ & B & _).
  destruct (d <=? dl) eqn:E2; [reflexivity|lia].
Qed.

Lemma may_complete c d : 0 <= s_ms c -> d <= s_ms c + Z.max 0 (t_ms c) ->
  conn_outcome c (PHandling (Some d)) = {| closed_at := Some d; handler := HCompleted d |} /\
  conn_outcome c (PUpload (Some d)) = {| closed_at := Some d; handler := HCompleted d |} /\
  conn_outcome c (PReadLater d) = {| closed_at := Some d; handler := HCompleted d |}.
Proof.
  intros Hs Hd. split; [apply handling_completes; auto|].
  destruct (deadlines_le_bound c Hs) as (d1 & dl & E1 & E2 & _ & _ & _ & B1 & _ & _).
  split.
  - cbn [conn_outcome]. unfold blocked_on_body. rewrite closing_at_T0_true, drops_false, srv_present_true. cbn [andb].
    destruct (d <=? s_ms c) eqn:E; [apply handling_completes; auto|].
    rewrite E1. destruct (d <=? d1) eqn:E3; [reflexivity|lia].
  - cbn [conn_outcome]. unfold read_later. rewrite srv_present_true.
    destruct (d <=? s_ms c) eqn:E; [apply handling_completes; auto|].
    rewrite E1, E2. destruct (d <=? d1) eqn:E3; [reflexivity|lia].
Qed.

Lemma handling_bounded c d : 0 <= s_ms c -> bounded c (handling c d).
Proof.
  intros Hs. unfold bounded, handling. rewrite closing_at_T0_true, srv_present_true.
  destruct (deadlines_le_bound c Hs) as (d1 & dl & _ & -> & _ & Hdl & Hsb & _).
  destruct d as [d|].
  - destruct (d <=? s_ms c) eqn:E.
    + cbn [closed_at handler]. split; [exists d; split; auto|]; lia.
    + destruct (d <=? dl) eqn:E2; cbn [closed_at handler]; (split; [eexists; split; [reflexivity|]|]); lia.
  - cbn [closed_at handler]. split; [eexists; split; [reflexivity|]|]; lia.
Qed.

Lemma conn_bounded c p : 0 <= s_ms c -> bounded c (conn_outcome c p).
Proof.
  intros Hs. destruct (deadlines_le_bound c Hs) as (d1 & dl & E1 & E2 & L & Hdl & Hsb & _).
  destruct p as [|d|d|arrive].
  - rewrite idle_outcome. unfold bounded. cbn [closed_at handler]. split; auto. exists 0. split; auto. lia.
  - apply handling_bounded; auto.
  - cbn [conn_outcome]. unfold read_later. rewrite srv_present_true.
    destruct (d <=? s_ms c) eqn:E; [apply handling_bounded; auto|].
    rewrite E1, E2. unfold bounded.
    destruct (d <=? d1) eqn:E3; [|destruct (d <=? dl) eqn:E4]; cbn [closed_at handler];
      (split; [eexists; split; [reflexivity|]|]); lia.
  - cbn [conn_outcome]. unfold blocked_on_body. rewrite closing_at_T0_true, drops_false, srv_present_true. cbn [andb].
    rewrite E1. destruct arrive as [a|].
    + destruct (a <=? s_ms c) eqn:E; [apply handling_bounded; auto|].
      unfold bounded. destruct (a <=? d1) eqn:E3; cbn [closed_at handler]; (split; [eexists; split; [reflexivity|]|]); lia.
    + unfold bounded. cbn [closed_at handler]. split; [eexists; split; [reflexivity|]|]; lia.
Qed.

(* ---- every connection is closed when Server.shutdown returns ---- *)
Lemma all_closed_by_spec os : forall acc r, all_closed_by os acc = Some r ->
  acc <= r /\ forall o, In o os -> exists a, closed_at o = Some a /\ a <= r.
Proof.
  induction os as [|o t IH]; intros acc r; simpl.
  - intros [= <-]. split; [lia|]. intros o [].
  - destruct (closed_at o) as [a|] eqn:E; [|discriminate]. intros H. apply IH in H as (H1 & H2).
    split; [lia|]. intros o' [<-|Ho]; auto. exists a. split; auto. lia.
Qed.

Lemma all_closed_by_total os b : (forall o, In o os -> exists a, closed_at o = Some a /\ a <= b) ->
  forall acc, acc <= b -> exists r, all_closed_by os acc = Some r /\ r <= b.
Proof.
  induction os as [|o t IH]; intros H acc Hacc; simpl.
  - exists acc. auto.
  - destruct (H o (or_introl eq_refl)) as (a & -> & Ha). apply IH; [|lia]. intros o' Ho'. apply H. right; auto.
Qed.

Lemma all_closed_on_return c ps r : server_shutdown_returns c ps = Some r ->
  s_ms c <= r /\ forall p, In p ps -> exists a, closed_at (conn_outcome c p) = Some a /\ a <= r.
Proof.
  unfold server_shutdown_returns. intros H. apply all_closed_by_spec in H as (H1 & H2). split; auto.
  intros p Hp. apply H2. apply in_map; auto.
Qed.

Lemma shutdown_returns_bounded c ps : 0 <= s_ms c ->
  exists r, server_shutdown_returns c ps = Some r /\ r <= bound c.
Proof.
  intros Hs. unfold server_shutdown_returns. apply all_closed_by_total.
  - intros o Ho. apply in_map_iff in Ho as (p & <- & _). destruct (conn_bounded c p Hs) as (H & _). exact H.
  - destruct (deadlines_le_bound c Hs) as (_ & _ & _ & _ & _ & _ & H & _). exact H.
Qed.

(* ---------- statements in the form used by Props/C20.v ---------- *)

Lemma cancel_bound c p : 0 <= s_ms c ->
  bounded c (conn_outcome c p) /\
  bound c <= s_ms c + 2 * Z.max 0 (t_ms c) + 2000 /\ (t_ms c <= 5000 -> bound c = s_ms c + 2 * Z.max 0 (t_ms c)).
Proof. intros Hs. split; [apply conn_bounded; auto | apply bound_explicit]. Qed.

Lemma returns_bounded c ps : 0 <= s_ms c ->
  exists r, server_shutdown_returns c ps = Some r /\ r <= bound c /\
  forall p, In p ps -> exists a, closed_at (conn_outcome c p) = Some a /\ a <= r.
Proof.
  intros Hs. destruct (shutdown_returns_bounded c ps Hs) as (r & E & B).
  exists r. repeat split; auto. apply all_closed_on_return; auto.
Qed.

(* a handler that touches its body only after the first wait is failed when it does (the payload was poisoned) *)
Lemma read_later_after_first_wait c d d1 dl : 0 <= s_ms c ->
  first_deadline c = Some d1 -> last_deadline c = Some dl -> d1 < d <= dl ->
  conn_outcome c (PReadLater d) = {| closed_at := Some d; handler := HCancelled d |}.
Proof.
  intros Hs E1 E2 Hd. destruct (deadlines_le_bound c Hs) as (d1' & dl' & E1' & E2' & _ & _ & _ & _ & _ & B).
  rewrite E1 in E1'. injection E1' as <-.
  cbn [conn_outcome]. unfold read_later. rewrite srv_present_true, E1, E2.
  destruct (d <=? s_ms c) eqn:E; [lia|]. destruct (d <=? d1) eqn:E3; [lia|]. destruct (d <=? dl) eqn:E4; [reflexivity|lia].
Qed.

(* regression witnesses: the former refutations (repaired in /repo 009879e, cff98d2, 8d0202e) *)
Definition w_cfg_slow_signal : cfg := {| t_ms := 10000; s_ms := 4000; abs0 := 1000000 |}.
Definition w_cfg_plain : cfg := {| t_ms := 10000; s_ms := 0; abs0 := 1000000 |}.
Definition w_cfg_zero : cfg := {| t_ms := 0; s_ms := 0; abs0 := 1000000 |}.

Lemma regression_idle : conn_outcome w_cfg_slow_signal PIdle = {| closed_at := Some 0; handler := HNone |}.
Proof. reflexivity. Qed.
Lemma regression_upload : conn_outcome w_cfg_plain (PUpload (Some 125)) = {| closed_at := Some 125; handler := HCompleted 125 |}.
Proof. vm_compute. reflexivity. Qed.
Lemma regression_zero_timeout :
  conn_outcome w_cfg_zero (PHandling None) = {| closed_at := Some 0; handler := HCancelled 0 |} /\
  server_shutdown_returns w_cfg_zero [PHandling None] = Some 0.
Proof. vm_compute. split; reflexivity. Qed.
