(* Lemmas about Model/Shutdown.v (timed model of graceful shutdown). *)
From AV Require Import Lib.Base Generated.LifecycleGen Model.Shutdown.
From Coq Require Import ZifyBool ZifyN.
Open Scope Z_scope.
Ltac Zify.zify_post_hook ::= Z.to_euclidean_division_equations.

(* facts about the unchanged tree, by computation on the translated constants *)
Lemma closing_at_T0_true : closing_at_T0 = true.  Proof. reflexivity. Qed.
Lemma srv_present_true : srv_present = true.      Proof. reflexivity. Qed.
Lemma phases_two : N.to_nat shutdown_phases = 2%nat. Proof. reflexivity. Qed.
Lemma drops_true : drops_data_when_closing = true. Proof. reflexivity. Qed.

Lemma ceil1000_bounds w : w <= ceil1000 w < w + 1000.
Proof. unfold ceil1000. lia. Qed.

Lemma deadline_bounds c now : 0 < t_ms c ->
  exists d, deadline c now = Some d /\ now + t_ms c <= d < now + t_ms c + 1000 /\
            (t_ms c <= 5000 -> d = now + t_ms c).
Proof.
  intros Ht. unfold deadline, ceil_threshold_ms.
  destruct (t_ms c <=? 0) eqn:E0; [lia|].
  destruct (5000 <? t_ms c) eqn:E1.
  - eexists; split; [reflexivity|]. pose proof (ceil1000_bounds (abs0 c + now + t_ms c)). split; lia.
  - eexists; split; [reflexivity|]. split; lia.
Qed.

Lemma deadline_none c now : t_ms c <= 0 -> deadline c now = None.
Proof. intros Ht. unfold deadline. destruct (t_ms c <=? 0) eqn:E0; [reflexivity|lia]. Qed.

Lemma first_deadline_bounds c : 0 < t_ms c ->
  exists d1, first_deadline c = Some d1 /\ s_ms c + t_ms c <= d1 < s_ms c + t_ms c + 1000 /\
             (t_ms c <= 5000 -> d1 = s_ms c + t_ms c).
Proof.
  intros Ht. unfold first_deadline. cbn [deadlines].
  destruct (deadline_bounds c (s_ms c) Ht) as (d & -> & B & B'). exists d. auto.
Qed.

Lemma last_deadline_bounds c : 0 < t_ms c ->
  exists d1 dl, first_deadline c = Some d1 /\ last_deadline c = Some dl /\ d1 <= dl /\
             s_ms c + 2 * t_ms c <= dl < s_ms c + 2 * t_ms c + 2000 /\
             (t_ms c <= 5000 -> dl = s_ms c + 2 * t_ms c).
Proof.
  intros Ht. unfold last_deadline, first_deadline. rewrite phases_two. cbn [deadlines].
  destruct (deadline_bounds c (s_ms c) Ht) as (d1 & -> & B1 & B1').
  destruct (deadline_bounds c d1 Ht) as (d2 & -> & B2 & B2').
  exists d1, d2. repeat split; auto; try lia.
Qed.

Lemma last_deadline_none c : t_ms c <= 0 -> last_deadline c = None /\ first_deadline c = None.
Proof.
  intros Ht. unfold last_deadline, first_deadline. rewrite phases_two. cbn [deadlines].
  rewrite deadline_none; auto.
Qed.

(* ---- no new request ---- *)
Lemma no_new_request c p delta : late_accepted c p delta = false.
Proof. destruct p; reflexivity. Qed.

(* ---- idle connections ---- *)
Lemma idle_outcome c : conn_outcome c PIdle = {| closed_at := Some (s_ms c); handler := HNone |}.
Proof. reflexivity. Qed.

(* ---- in-flight requests ---- *)
Lemma may_complete c d : 0 < t_ms c -> 0 <= s_ms c -> d <= s_ms c + t_ms c ->
  conn_outcome c (PHandling (Some d)) = {| closed_at := Some d; handler := HCompleted d |}.
Proof.
  intros Ht Hs Hd. cbn [conn_outcome handling]. rewrite closing_at_T0_true, srv_present_true.
  destruct (d <=? s_ms c) eqn:E; [reflexivity|].
  destruct (last_deadline_bounds c Ht) as (d1 & dl & _ & -> & _ & B & _).
  destruct (d <=? dl) eqn:E2; [reflexivity|lia].
Qed.

Lemma slack_cases c : (t_ms c <= 5000 /\ slack c = 0) \/ (5000 < t_ms c /\ slack c = 2000).
Proof. unfold slack. destruct (t_ms c <=? 5000) eqn:E; [left|right]; split; auto; lia. Qed.

Lemma deadlines_le_bound c : 0 < t_ms c -> 0 <= s_ms c ->
  exists d1 dl, first_deadline c = Some d1 /\ last_deadline c = Some dl /\ d1 <= dl /\ dl <= bound c /\ s_ms c <= bound c /\
                s_ms c + 2 * t_ms c <= dl.
Proof.
  intros Ht Hs. destruct (last_deadline_bounds c Ht) as (d1 & dl & E1 & E2 & L & B & B').
  exists d1, dl. unfold bound. destruct (slack_cases c) as [[H1 H2]|[H1 H2]]; rewrite H2; repeat split; auto; lia.
Qed.

Lemma handling_bounded c d : 0 < t_ms c -> 0 <= s_ms c -> bounded c (handling c d).
Proof.
  intros Ht Hs. unfold bounded, handling. rewrite closing_at_T0_true, srv_present_true.
  destruct (deadlines_le_bound c Ht Hs) as (d1 & dl & _ & -> & _ & Hdl & Hsb & _).
  destruct d as [d|].
  - destruct (d <=? s_ms c) eqn:E.
    + cbn [closed_at handler]. split; [exists d; split; auto|]; lia.
    + destruct (d <=? dl) eqn:E2; cbn [closed_at handler]; (split; [eexists; split; [reflexivity|]|]); lia.
  - cbn [closed_at handler]. split; [eexists; split; [reflexivity|]|]; lia.
Qed.

Lemma conn_bounded c p : 0 < t_ms c -> 0 <= s_ms c -> bounded c (conn_outcome c p).
Proof.
  intros Ht Hs. destruct p as [|d|arrive].
  - rewrite idle_outcome. unfold bounded. cbn [closed_at handler]. split; auto. exists (s_ms c). split; auto.
    destruct (deadlines_le_bound c Ht Hs) as (_ & _ & _ & _ & _ & _ & H & _). exact H.
  - apply handling_bounded; auto.
  - cbn [conn_outcome]. rewrite closing_at_T0_true, drops_true, srv_present_true. cbn [andb].
    destruct (deadlines_le_bound c Ht Hs) as (d1 & dl & -> & _ & L & Hdl & _).
    unfold bounded. cbn [closed_at handler].
    split; [eexists; split; [reflexivity|]|]; lia.
Qed.

(* the body of a request being uploaded is lost: the handler is cancelled at the first deadline *)
Lemma upload_cancelled c arrive : 0 < t_ms c ->
  exists d1, first_deadline c = Some d1 /\
  conn_outcome c (PUpload arrive) = {| closed_at := Some d1; handler := HCancelled d1 |}.
Proof.
  intros Ht. cbn [conn_outcome]. rewrite closing_at_T0_true, drops_true, srv_present_true. cbn [andb].
  destruct (first_deadline_bounds c Ht) as (d1 & -> & _). exists d1. auto.
Qed.

Lemma nonpositive_timeout_stuck c : t_ms c <= 0 ->
  conn_outcome c (PHandling None) = {| closed_at := None; handler := HStuck |}.
Proof.
  intros Ht. cbn [conn_outcome handling]. rewrite srv_present_true.
  destruct (last_deadline_none c Ht) as (-> & _). reflexivity.
Qed.

(* ---- every connection is closed when Server.shutdown returns ---- *)
Lemma all_closed_by_spec os : forall acc r, all_closed_by os acc = Some r ->
  acc <= r /\ forall o, In o os -> exists a, closed_at o = Some a /\ a <= r.
Proof.
  induction os as [|o t IH]; intros acc r; simpl.
  - intros [= <-]. split; [lia|]. intros o [].
  - destruct (closed_at o) as [a|] eqn:E; [|discriminate]. intros H. apply IH in H as (H1 & H2).
    split; [lia|]. intros o' [<-|Ho]; auto. exists a. split; auto. lia.
Qed.

Lemma all_closed_by_total os b : (forall o, In o os -> exists a, closed_at o = Some a /\ a <= b) ->
  forall acc, acc <= b -> exists r, all_closed_by os acc = Some r /\ r <= b.
Proof.
  induction os as [|o t IH]; intros H acc Hacc; simpl.
  - exists acc. auto.
  - destruct (H o (or_introl eq_refl)) as (a & -> & Ha). apply IH; [|lia]. intros o' Ho'. apply H. right; auto.
Qed.

Lemma all_closed_on_return c ps r : server_shutdown_returns c ps = Some r ->
  s_ms c <= r /\ forall p, In p ps -> exists a, closed_at (conn_outcome c p) = Some a /\ a <= r.
Proof.
  unfold server_shutdown_returns. intros H. apply all_closed_by_spec in H as (H1 & H2). split; auto.
  intros p Hp. apply H2. apply in_map; auto.
Qed.

Lemma shutdown_returns_bounded c ps : 0 < t_ms c -> 0 <= s_ms c ->
  exists r, server_shutdown_returns c ps = Some r /\ r <= bound c.
Proof.
  intros Ht Hs. unfold server_shutdown_returns. apply all_closed_by_total.
  - intros o Ho. apply in_map_iff in Ho as (p & <- & _). destruct (conn_bounded c p Ht Hs) as (H & _). exact H.
  - destruct (deadlines_le_bound c Ht Hs) as (_ & _ & _ & _ & _ & _ & H & _). exact H.
Qed.

Lemma bound_explicit c : bound c <= s_ms c + 2 * t_ms c + 2000 /\ (t_ms c <= 5000 -> bound c = s_ms c + 2 * t_ms c).
Proof. unfold bound. destruct (slack_cases c) as [[H1 H2]|[H1 H2]]; rewrite H2; split; lia. Qed.

(* witnesses *)
Definition w_cfg_slow_signal : cfg := {| t_ms := 10000; s_ms := 4000; abs0 := 1000000 |}.
Definition w_cfg_plain : cfg := {| t_ms := 10000; s_ms := 0; abs0 := 1000000 |}.
Definition w_cfg_zero : cfg := {| t_ms := 0; s_ms := 0; abs0 := 1000000 |}.

(* ---------- statements in the form used by Props/C20.v ---------- *)

Lemma idle_at_once_refuted : exists c, 0 < t_ms c /\ 0 <= s_ms c /\ closed_at (conn_outcome c PIdle) <> Some 0.
Proof. exists w_cfg_slow_signal. repeat split; try reflexivity; try discriminate. Qed.

Lemma cancel_bound c p : 0 < t_ms c -> 0 <= s_ms c ->
  bounded c (conn_outcome c p) /\
  bound c <= s_ms c + 2 * t_ms c + 2000 /\ (t_ms c <= 5000 -> bound c = s_ms c + 2 * t_ms c).
Proof. intros Ht Hs. split; [apply conn_bounded; auto | apply bound_explicit]. Qed.

Lemma nonpositive_timeout_refuted : exists c, t_ms c <= 0 /\ 0 <= s_ms c /\
  conn_outcome c (PHandling None) = {| closed_at := None; handler := HStuck |} /\
  server_shutdown_returns c [PHandling None] = None.
Proof. exists w_cfg_zero. repeat split; try reflexivity; discriminate. Qed.

Lemma upload_refuted : exists c arrive, 0 < t_ms c /\ 0 <= s_ms c /\ 0 < arrive <= s_ms c + t_ms c /\
  exists a, handler (conn_outcome c (PUpload (Some arrive))) = HCancelled a.
Proof. exists w_cfg_plain, 125. repeat split; try reflexivity; try discriminate. eexists. reflexivity. Qed.

Lemma returns_bounded c ps : 0 < t_ms c -> 0 <= s_ms c ->
  exists r, server_shutdown_returns c ps = Some r /\ r <= bound c /\
  forall p, In p ps -> exists a, closed_at (conn_outcome c p) = Some a /\ a <= r.
Proof.
  intros Ht Hs. destruct (shutdown_returns_bounded c ps Ht Hs) as (r & E & B).
  exists r. repeat split; auto. apply all_closed_on_return; auto.
Qed.
