(* What an accepted request head looks like, and which heads are rejected (C01, C10).
   All lemmas are about the validators of Model/Http.v, for ALL byte strings. *)
From AV Require Import Lib.Base Lib.BytesX Generated.HttpGen Model.Http.
From Coq Require Import ZifyBool ZifyN.
Open Scope N_scope.

(* ---------- helpers on BytesX ---------- *)

Lemma split_first_aux_spec sep acc s a b :
  split_first_aux sep acc s = Some (a, b) ->
  rev acc ++ s = a ++ sep :: b /\ (forall x, In x a -> In x acc \/ (In x s /\ x <> sep)) /\
  (~ In sep acc -> ~ In sep a).
Proof.
  revert acc. induction s as [|c s IH]; intros acc H; cbn [split_first_aux] in H; [discriminate|].
  destruct (c =? sep) eqn:E.
  - apply N.eqb_eq in E. subst c. inversion H; subst. split; [reflexivity|]. split.
    + intros x Hx. left. now apply (proj2 (in_rev _ _)).
    + intros Hn Hin. apply Hn. now apply (proj2 (in_rev _ _)).
  - apply N.eqb_neq in E. apply IH in H as (H1 & H2 & H3). split; [|split].
    + rewrite <- H1. cbn [rev]. rewrite <- app_assoc. reflexivity.
    + intros x Hx. destruct (H2 x Hx) as [[->|Hi]|[Hi Hne]].
      * right. split; [left; reflexivity|exact E].
      * left; exact Hi.
      * right. split; [right; exact Hi|exact Hne].
    + intros Hn. apply H3. intros [->|Hi]; [congruence|auto].
Qed.

Lemma split_first_spec sep s a b :
  split_first sep s = Some (a, b) -> s = a ++ sep :: b /\ ~ In sep a.
Proof.
  intro H. apply split_first_aux_spec in H as (H1 & _ & H3). split; [exact H1|].
  apply H3. intros [].
Qed.

Lemma lstrip_keeps c s : In c s -> is_ows c = false -> In c (lstrip_ows s).
Proof.
  induction s as [|d s IH]; cbn [lstrip_ows In]; [tauto|]. intros [->|Hi] Hc.
  - rewrite Hc. left; reflexivity.
  - destruct (is_ows d); [auto|right; exact Hi].
Qed.

Lemma strip_keeps c s : In c s -> is_ows c = false -> In c (strip_ows s).
Proof.
  intros Hi Hc. unfold strip_ows, rstrip_ows. apply (proj1 (in_rev _ _)). apply lstrip_keeps; [|exact Hc].
  apply (proj1 (in_rev _ _)). apply lstrip_keeps; assumption.
Qed.

Lemma lstrip_sub c s : In c (lstrip_ows s) -> In c s.
Proof.
  induction s as [|d s IH]; cbn [lstrip_ows]; [tauto|]. destruct (is_ows d); [right; auto|tauto].
Qed.

Lemma strip_sub c s : In c (strip_ows s) -> In c s.
Proof.
  unfold strip_ows, rstrip_ows. intro H. apply (proj2 (in_rev _ _)) in H. apply lstrip_sub in H.
  apply (proj2 (in_rev _ _)) in H. now apply lstrip_sub.
Qed.

Lemma existsb_In {A} (f : A -> bool) l x : In x l -> f x = true -> existsb f l = true.
Proof. intros. apply existsb_exists. eauto. Qed.

Lemma forallb_In {A} (f : A -> bool) l x : forallb f l = true -> In x l -> f x = true.
Proof. intros H. rewrite forallb_forall in H. auto. Qed.

(* ---------- a field line ---------- *)

(* shape of an accepted field line *)
Lemma parse_field_ok line n v :
  parse_field line = POk (n, v) ->
  exists raw, line = n ++ 58 :: raw /\ v = strip_ows raw /\ n <> [] /\
              forallb tchar n = true /\ existsb field_forbidden_ctl v = false.
Proof.
  unfold parse_field. destruct (split_first 58 line) as [[bname bvalue]|] eqn:E; [|discriminate].
  apply split_first_spec in E as [-> _]. destruct bname as [|f bn]; [discriminate|].
  destruct (is_ows f || is_ows (last (f :: bn) 0)); [discriminate|].
  destruct (forallb tchar (f :: bn)) eqn:Et; cbn [negb]; [|discriminate].
  destruct (existsb field_forbidden_ctl (strip_ows bvalue)) eqn:Ec; [discriminate|].
  intro H. inversion H; subst. exists bvalue. repeat split; auto. discriminate.
Qed.

Lemma parse_field_no_ask line c t : parse_field line <> PAsk c t.
Proof.
  unfold parse_field. destruct (split_first 58 line) as [[bname bvalue]|]; [|discriminate].
  destruct bname; [discriminate|]. repeat (match goal with |- context [if ?b then _ else _] => destruct b end);
    discriminate.
Qed.

(* a control byte anywhere in a field line (any byte of the forbidden class; this includes LF, CR,
   NUL) makes the line invalid *)
Lemma parse_field_ctl line c r :
  In c line -> field_forbidden_ctl c = true -> parse_field line <> POk r.
Proof.
  intros Hin Hc H. destruct r as [n v]. apply parse_field_ok in H as (raw & -> & -> & _ & Ht & Hv).
  assert (Hows : is_ows c = false).
  { unfold is_ows, field_forbidden_ctl in *. lia. }
  assert (Htc : tchar c = false).
  { unfold tchar, field_forbidden_ctl in *. lia. }
  apply in_app_or in Hin as [Hin|[<-|Hin]].
  - rewrite (forallb_In _ _ _ Ht Hin) in Htc. discriminate.
  - unfold field_forbidden_ctl in Hc. lia.
  - rewrite (existsb_In _ _ c (strip_keeps _ _ Hin Hows) Hc) in Hv. discriminate.
Qed.

(* whitespace before the colon or inside the name, and lines starting with whitespace (obs-fold) *)
Lemma parse_field_ws_in_name line n v c :
  parse_field line = POk (n, v) -> In c n -> is_ows c = false.
Proof.
  intros H Hin. apply parse_field_ok in H as (raw & _ & _ & _ & Ht & _).
  pose proof (forallb_In _ _ _ Ht Hin) as E. unfold tchar in E. unfold is_ows. lia.
Qed.

Lemma parse_field_obs_fold c rest r : is_ows c = true -> parse_field (c :: rest) <> POk r.
Proof.
  intros Hc H. destruct r as [n v]. pose proof H as H0.
  apply parse_field_ok in H as (raw & E & _ & Hne & Ht & _).
  destruct n as [|f n']; [congruence|]. inversion E; subst f.
  rewrite (parse_field_ws_in_name _ _ _ c H0 (or_introl eq_refl)) in Hc. discriminate.
Qed.

(* ---------- the field list ---------- *)

Lemma parse_fields_no_ask lines acc c t : parse_fields lines acc <> PAsk c t.
Proof.
  revert acc. induction lines as [|l ls IH]; intros acc; cbn [parse_fields]; [discriminate|].
  destruct (parse_field l) as [[n v]|e|c' t'] eqn:E; [|discriminate|].
  - destruct (has_header n acc && is_singleton n); [discriminate|apply IH].
  - exfalso. exact (parse_field_no_ask _ _ _ E).
Qed.

(* every accepted line is an accepted field; headers come out in order *)
Lemma parse_fields_ok lines acc hs :
  parse_fields lines acc = POk hs ->
  exists fs, hs = acc ++ fs /\ Forall2 (fun l kv => parse_field l = POk kv) lines fs.
Proof.
  revert acc. induction lines as [|l ls IH]; intros acc H; cbn [parse_fields] in H.
  - inversion H; subst. exists []. rewrite app_nil_r. split; constructor.
  - destruct (parse_field l) as [[n v]|e|c t] eqn:E; try discriminate.
    destruct (has_header n acc && is_singleton n); [discriminate|].
    apply IH in H as (fs & -> & HF). exists ((n, v) :: fs). rewrite <- app_assoc. split; [reflexivity|].
    constructor; assumption.
Qed.

Lemma parse_fields_bad_line lines acc l hs :
  In l lines -> (forall r, parse_field l <> POk r) -> parse_fields lines acc <> POk hs.
Proof.
  intros Hin Hbad H. apply parse_fields_ok in H as (fs & _ & HF).
  clear -Hin Hbad HF. induction HF as [|x y ls fs Hx _ IH]; [destruct Hin|].
  destruct Hin as [->|Hin]; [exact (Hbad _ Hx)|auto].
Qed.

(* no singleton field occurs twice in an accepted field list *)
Lemma app_eq_len {A} (l1 l2 l3 l4 : list A) :
  l1 ++ l2 = l3 ++ l4 -> length l1 = length l3 -> l1 = l3 /\ l2 = l4.
Proof.
  revert l3. induction l1 as [|x l1 IH]; intros [|y l3] H Hl; try discriminate; cbn in *.
  - auto.
  - inversion H; subst. destruct (IH l3) as [-> ->]; auto.
Qed.

Lemma parse_fields_singletons lines acc hs :
  parse_fields lines acc = POk hs ->
  forall pre k v post, hs = pre ++ (k, v) :: post -> (length acc <= length pre)%nat ->
    is_singleton k = true -> has_header k pre = false.
Proof.
  revert acc. induction lines as [|l ls IH]; intros acc H pre k v post Heq Hlen Hs; cbn [parse_fields] in H.
  - assert (Eh : hs = acc) by congruence. rewrite Eh in Heq. exfalso.
    apply (f_equal (@length _)) in Heq. rewrite app_length in Heq. cbn [length] in Heq. lia.
  - destruct (parse_field l) as [[n v0]|e|c t] eqn:E; try discriminate.
    destruct (has_header n acc && is_singleton n) eqn:Ed; [discriminate|].
    destruct (Nat.eq_dec (length pre) (length acc)) as [El|Nl].
    + pose proof H as H0. apply parse_fields_ok in H0 as (fs & Hhs & _).
      rewrite <- app_assoc in Hhs. cbn [app] in Hhs. rewrite Hhs in Heq.
      symmetry in Heq. apply app_eq_len in Heq as [-> Hk]; [|exact El].
      inversion Hk; subst. apply andb_false_iff in Ed as [Ed|Ed]; [exact Ed|congruence].
    + apply (IH _ H pre k v post Heq); [|exact Hs]. rewrite app_length. cbn [length]. lia.
Qed.
