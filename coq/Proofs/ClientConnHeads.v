(* C06 — unconditional part of "no mixing": every response HEAD handed to a caller arrived while that caller's
   exchange held the connection, for every trace (no quietness hypothesis).  Relies on the repaired _get:
   a pooled connection is handed out only with an empty response queue and an empty raw tail. *)
From AV Require Import Lib.Base Generated.ClientConnGen Model.ClientConn Proofs.ClientConnBase Proofs.ClientConnStruct
  Proofs.ClientConnTagsDef Proofs.ClientConnCore Proofs.ClientConnTagsA Proofs.ClientConnTagsB.
Open Scope N_scope.

Definition hconn (cn : conn) : Prop :=
  forall e, c_phase cn = PFlight e ->
    Forall (fun m => m_tag m = TFlight e) (c_buf cn) /\ Forall (fun p => snd p = TFlight e) (c_htail cn).

Definition hseg (cn : conn) (g : seg) : Prop :=
  forall e, c_phase cn = PFlight e ->
    g_tag g = TFlight e /\ Forall (fun m => m_tag m = g_tag g) (g_msgs g) /\
    Forall (fun p => snd p = g_tag g) (g_rest g) /\ Forall (fun p => snd p = g_tag g) (g_queue g).

Record Heads (s : state) : Prop := {
  hd_log : forall d, In d (s_log s) -> d_head d = true -> well_tagged d;
  hd_conn : forall c, hconn (s_conn s c);
  hd_seg : forall g, s_seg s = Some g -> hseg (s_conn s (g_c g)) g
}.

Lemma heads_init : Heads init.
Proof. split; cbn; [contradiction|intros c e H; discriminate|discriminate]. Qed.

(* a connection that is not held by an exchange carries no obligation *)
Lemma hconn_unheld cn : (forall e, c_phase cn <> PFlight e) -> hconn cn.
Proof. intros H e He. now destruct (H e). Qed.

Lemma hseg_unheld cn g : (forall e, c_phase cn <> PFlight e) -> hseg cn g.
Proof. intros H e He. now destruct (H e). Qed.

Lemma hconn_same cn cn' :
  c_phase cn' = c_phase cn -> c_buf cn' = c_buf cn -> c_htail cn' = c_htail cn -> hconn cn -> hconn cn'.
Proof. intros H1 H2 H3 H e He. rewrite H2, H3. apply H. congruence. Qed.

Lemma hseg_same cn cn' g : c_phase cn' = c_phase cn -> hseg cn g -> hseg cn' g.
Proof. intros H1 H e He. apply H. congruence. Qed.

(* generic transfer: every connection is either unheld now, or unchanged in the fields we read *)
Definition conn_le (cn cn' : conn) : Prop :=
  (forall e, c_phase cn' <> PFlight e) \/
  (c_phase cn' = c_phase cn /\ c_buf cn' = c_buf cn /\ c_htail cn' = c_htail cn).

Lemma conn_le_refl cn : conn_le cn cn.
Proof. right. now repeat split. Qed.

Lemma heads_transfer s s' :
  Heads s -> s_log s' = s_log s -> s_seg s' = s_seg s -> (forall c, conn_le (s_conn s c) (s_conn s' c)) -> Heads s'.
Proof.
  intros [A B C] Hl Hs Hc. split.
  - now rewrite Hl.
  - intros c. destruct (Hc c) as [H|(H1 & H2 & H3)]; [now apply hconn_unheld|eapply hconn_same; eauto].
  - intros g Hg. rewrite Hs in Hg. destruct (Hc (g_c g)) as [H|(H1 & H2 & H3)]; [now apply hseg_unheld|].
    eapply hseg_same; [exact H1|now apply C].
Qed.

Lemma release_conn_le cf s c arg c' : conn_le (s_conn s c') (s_conn (release_conn cf s c arg) c').
Proof.
  destruct (release_conn_spec cf s c arg c') as [E|[(_ & E & _)|(_ & E & _)]].
  - rewrite E. apply conn_le_refl.
  - left. intros e. congruence.
  - left. intros e. congruence.
Qed.

Lemma heads_release cf s c arg : Heads s -> Heads (release_conn cf s c arg).
Proof.
  intros H. destruct (release_conn_frame cf s c arg) as (_ & _ & _ & F4 & F5).
  eapply heads_transfer; [exact H|exact F5|exact F4|]. intros c'. apply release_conn_le.
Qed.

Lemma heads_set_exch s e x : Heads s -> Heads (set_exch s e x).
Proof. intros H. eapply heads_transfer; [exact H|reflexivity|reflexivity|]. intros c. apply conn_le_refl. Qed.

Lemma heads_set_payl s p pl : Heads s -> Heads (set_payl s p pl).
Proof. intros H. eapply heads_transfer; [exact H|reflexivity|reflexivity|]. intros c. apply conn_le_refl. Qed.

Lemma heads_response_eof cf s e : Heads s -> Heads (response_eof cf s e).
Proof.
  intros H. unfold response_eof. destruct (response_eof_releases_gen _ _); [|exact H].
  destruct (x_held _); [apply heads_release|]; now apply heads_set_exch.
Qed.

(* the fields of one connection change but not the ones we read *)
Lemma heads_set_conn_same s c cn' :
  Heads s -> c_phase cn' = c_phase (s_conn s c) -> c_buf cn' = c_buf (s_conn s c) -> c_htail cn' = c_htail (s_conn s c) ->
  Heads (set_conn s c cn').
Proof.
  intros H H1 H2 H3. eapply heads_transfer; [exact H|reflexivity|reflexivity|].
  intros c'. cbn. destruct (upd_cases (s_conn s) c cn' c') as [[-> E]|[_ E]]; rewrite E; [right; now repeat split|apply conn_le_refl].
Qed.

Lemma heads_log_body s e items : Heads s -> Heads (set_s_log s (s_log s ++ log_items e items)).
Proof.
  intros [A B C]. split; cbn; try assumption.
  intros d Hd Hh. apply in_app_or in Hd as [Hd|Hd]; [now apply A|].
  exfalso. induction items as [|[i t] r IH]; cbn in Hd; [contradiction|]. destruct Hd as [<-|Hd]; [discriminate|now apply IH].
Qed.

Lemma pool_get_le cf key : forall pool s kept s1 got,
  pool_get cf s key pool kept = (s1, got) ->
  s_log s1 = s_log s /\ s_seg s1 = s_seg s /\
  (forall c, c_phase (s_conn s1 c) = PClosed \/ s_conn s1 c = s_conn s c) /\
  (forall c, got = Some c -> reusable cf s1 (s_conn s1 c) = true).
Proof.
  induction pool as [|c0 rest IH]; intros s kept s1 got H; cbn [pool_get] in H.
  - inv_some. repeat split; [intros c; now right|intros c Hc; discriminate].
  - destruct (list_eqb _ _); [|eapply IH; eauto].
    destruct (reusable cf s (s_conn s c0)) eqn:Er.
    + injection H as <- <-. repeat split; [intros c; now right|]. intros c Hc. injection Hc as <-. exact Er.
    + destruct (IH _ _ _ _ H) as (H1 & H2 & H3 & H4). repeat split; try assumption.
      intros c. destruct (H3 c) as [E|E]; [now left|]. rewrite E. cbn.
      destruct (upd_cases (s_conn s) c0 (close_proto (s_conn s c0)) c) as [[-> E']|[_ E']]; rewrite E'; [now left|now right].
Qed.

Lemma conn_le_trans a b c : conn_le a b -> conn_le b c -> conn_le a c.
Proof.
  intros [H1|(A1 & A2 & A3)] [H2|(B1 & B2 & B3)]; try (left; assumption).
  - left. intros e. rewrite B1. apply H1.
  - right. repeat split; congruence.
Qed.

Lemma conn_le_fields cn cn' :
  c_phase cn' = c_phase cn -> c_buf cn' = c_buf cn -> c_htail cn' = c_htail cn -> conn_le cn cn'.
Proof. intros. right. now repeat split. Qed.

Lemma set_conn_le s c cn' c' : conn_le (s_conn s c) cn' -> conn_le (s_conn s c') (s_conn (set_conn s c cn') c').
Proof.
  intros H. cbn. destruct (upd_cases (s_conn s) c cn' c') as [[-> E]|[_ E]]; rewrite E; [exact H|apply conn_le_refl].
Qed.

Section Step.
Variable cf : cfg.

Lemma response_eof_le s e c' : conn_le (s_conn s c') (s_conn (response_eof cf s e) c').
Proof.
  destruct (response_eof_spec cf s e c') as [E|[(E & _)|(E & _)]].
  - rewrite E. apply conn_le_refl.
  - left. intros e0. congruence.
  - left. intros e0. congruence.
Qed.

Lemma surplus_tail_conn s cn : s_conn (surplus_tail s cn) = s_conn s /\ s_log (surplus_tail s cn) = s_log s.
Proof. unfold surplus_tail. now destruct (prog_done _). Qed.

(* what one token through the parser can do to the parts of the state Heads reads *)
Lemma parse_tok_le s g tk tg s1 g1 :
  parse_tok cf s g tk tg = Some (s1, g1) ->
  s_log s1 = s_log s /\ (forall c', conn_le (s_conn s c') (s_conn s1 c')) /\
  g_c g1 = g_c g /\ g_tag g1 = g_tag g /\ g_rest g1 = g_rest g /\ g_queue g1 = g_queue g /\
  (g_msgs g1 = g_msgs g \/ g_msgs g1 = [] \/ exists m, g_msgs g1 = g_msgs g ++ [m] /\ m_tag m = tg).
Proof.
  intros H. unfold parse_tok in H.
  destruct (c_pst (s_conn s (g_c g))) as [|pid rem]; destruct tk as [id blen cl up|id n|id|id]; try discriminate.
  - destruct (c_ptail _ || c_psc _).
    { unfold parse_error in H. inv_some. cbn. repeat split; try (right; left; reflexivity).
      intros c'. apply set_conn_le. now apply conn_le_fields. }
    destruct up.
    { inv_some. cbn. repeat split; [intros c'; apply set_conn_le; now apply conn_le_fields|].
      right; right. eexists. split; reflexivity. }
    destruct (blen =? 0); inv_some; cbn.
    + repeat split; [intros c'; apply set_conn_le; now apply conn_le_fields|]. right; right. eexists. split; reflexivity.
    + repeat split; [|right; right; eexists; split; reflexivity].
      intros c'. cbn. destruct (upd_cases (s_conn s) (g_c g) (set_c_pst (set_c_psc (s_conn s (g_c g)) cl) (PSBody (s_npay s) blen)) c') as [[-> E]|[_ E]]; rewrite E;
        [now apply conn_le_fields|apply conn_le_refl].
  - inv_some. destruct (surplus_tail_conn (set_conn s (g_c g) (set_c_ptail (s_conn s (g_c g)) true)) (s_conn s (g_c g))) as [E1 E2].
    rewrite E1, E2. cbn. repeat split; [|now left]. intros c'. apply set_conn_le. now apply conn_le_fields.
  - unfold parse_error in H. inv_some. cbn. repeat split; try (right; left; reflexivity).
    intros c'. apply set_conn_le. now apply conn_le_fields.
  - inv_some. destruct (surplus_tail_conn (set_conn s (g_c g) (set_c_ptail (s_conn s (g_c g)) true)) (s_conn s (g_c g))) as [E1 E2].
    rewrite E1, E2. cbn. repeat split; [|now left]. intros c'. apply set_conn_le. now apply conn_le_fields.
  - destruct (n <? rem); inv_some.
    + cbn. repeat split; [|now left]. intros c'.
      destruct (upd_cases (s_conn s) (g_c g) (set_c_pst (s_conn s (g_c g)) (PSBody pid (rem - n))) c') as [[-> E]|[_ E]]; rewrite E;
        [now apply conn_le_fields|apply conn_le_refl].
    + match goal with |- context[if _ then surplus_tail (set_conn ?t _ _) _ else _] => set (s3 := t) end.
      assert (L3 : s_log s3 = s_log s /\ forall c', conn_le (s_conn s c') (s_conn s3 c')).
      { subst s3. cbn [p_cb set_p_items].
        set (s2 := set_conn (set_payl s pid _) (g_c g) (set_c_pst (s_conn s (g_c g)) PSHead)).
        assert (L2 : forall c', conn_le (s_conn s c') (s_conn s2 c')).
        { intros c'. subst s2. cbn. destruct (upd_cases (s_conn s) (g_c g) (set_c_pst (s_conn s (g_c g)) PSHead) c') as [[-> E]|[_ E]]; rewrite E;
            [now apply conn_le_fields|apply conn_le_refl]. }
        destruct (p_cb (s_pay s pid)) as [e1|]; [|split; [reflexivity|exact L2]].
        destruct (response_eof_frame cf s2 e1) as (_ & _ & _ & F4). split; [now rewrite F4|].
        intros c'. eapply conn_le_trans; [apply L2|apply response_eof_le]. }
      destruct L3 as [L3a L3b].
      destruct (rem <? n).
      * destruct (surplus_tail_conn (set_conn s3 (g_c g) (set_c_ptail (s_conn s3 (g_c g)) true)) (s_conn s (g_c g))) as [E1 E2].
        rewrite E1, E2. cbn [s_log set_conn set_s_conn]. repeat split; [exact L3a| |now left].
        intros c'. eapply conn_le_trans; [apply L3b|]. apply set_conn_le. now apply conn_le_fields.
      * repeat split; [exact L3a|exact L3b|now left].
Qed.

Lemma heads_proc_tok s g0 g' tk tg s1 g1 :
  Heads s -> s_seg s = Some g0 -> g_c g' = g_c g0 -> hseg (s_conn s (g_c g0)) g' ->
  (forall e, c_phase (s_conn s (g_c g0)) = PFlight e -> tg = g_tag g') ->
  proc_tok cf s g' tk tg = Some (s1, g1) ->
  Heads (set_s_seg s1 (Some g1)).
Proof.
  intros H Hs Gc HG Htg Hp. set (c := g_c g0) in *.
  assert (Hfin : forall s1' g1', s_log s1' = s_log s -> (forall c', c' <> c -> conn_le (s_conn s c') (s_conn s1' c')) ->
             g_c g1' = c -> hconn (s_conn s1' c) -> hseg (s_conn s1' c) g1' ->
             Heads (set_s_seg s1' (Some g1'))).
  { intros s1' g1' Hl Hc Hgc Hcn Hsg. destruct H as [A B C]. split; cbn.
    - now rewrite Hl.
    - intros c'. destruct (N.eq_dec c' c) as [->|Hne]; [exact Hcn|].
      destruct (Hc c' Hne) as [X|(X1 & X2 & X3)]; [now apply hconn_unheld|eapply hconn_same; eauto].
    - intros g2 Hg2. injection Hg2 as <-. now rewrite Hgc. }
  pose proof (hd_conn s H c) as Hcn.
  unfold proc_tok in Hp. rewrite Gc in Hp. fold c in Hp.
  destruct (g_err g').
  { inv_some. apply Hfin; try assumption; try reflexivity. intros c' _. apply conn_le_refl. }
  destruct (g_stash g').
  { inv_some. apply Hfin; try assumption; try reflexivity.
    - intros c' Hne. cbn. rewrite upd_other by assumption. apply conn_le_refl.
    - cbn. rewrite upd_same. intros e He. cbn in He. destruct (Hcn e He) as [X1 X2]. destruct (HG e He) as (Y1 & _).
      cbn. split; [exact X1|]. apply Forall_app. split; [exact X2|]. constructor; [|constructor]. cbn. rewrite (Htg e He). exact Y1.
    - cbn. rewrite upd_same. intros e He. cbn in He. now apply HG. }
  destruct (c_pupg (s_conn s c)).
  { inv_some. apply Hfin; try assumption; try reflexivity; [intros c' _; apply conn_le_refl|].
    intros e He. destruct (HG e He) as (Y1 & Y2 & Y3 & Y4). cbn. repeat split; try assumption.
    apply Forall_app. split; [exact Y3|]. constructor; [|constructor]. cbn. exact (Htg e He). }
  destruct (parse_tok_le _ _ _ _ _ _ Hp) as (L1 & L2 & L3 & L4 & L5 & L6 & L7).
  apply Hfin; try assumption.
  - intros c' _. apply L2.
  - congruence.
  - destruct (L2 c) as [X|(X1 & X2 & X3)]; [now apply hconn_unheld|eapply hconn_same; eauto].
  - destruct (L2 c) as [X|(X1 & X2 & X3)]; [now apply hseg_unheld|].
    intros e He. rewrite X1 in He. destruct (HG e He) as (Y1 & Y2 & Y3 & Y4).
    rewrite L4, L5, L6. repeat split; try assumption.
    destruct L7 as [E|[E|[m [E Em]]]]; rewrite E; [exact Y2|constructor|].
    apply Forall_app. split; [exact Y2|]. constructor; [|constructor]. rewrite Em. exact (Htg e He).
Qed.

End Step.

Section Step2.
Variable cf : cfg.

Lemma ghost_tok_le s c tk c' : conn_le (s_conn s c') (s_conn (ghost_tok s c tk) c').
Proof.
  unfold ghost_tok. destruct (c_phase (s_conn s c)); [destruct (ghost_prog _ _)| |]; cbn;
    unfold upd; destruct (c' =? c) eqn:Ec; try apply conn_le_refl; apply N.eqb_eq in Ec; subst; now apply conn_le_fields.
Qed.

Lemma heads_ghost_tok s c tk : Heads s -> Heads (ghost_tok s c tk).
Proof.
  intros H. eapply heads_transfer; [exact H| | |intros c'; apply ghost_tok_le];
    unfold ghost_tok; destruct (c_phase (s_conn s c)); try destruct (ghost_prog _ _); reflexivity.
Qed.

Lemma heads_step s ev s' : Struct s -> Heads s -> step cf s ev = Some s' -> Heads s'.
Proof.
  intros S H Hst. destruct ev; cbn [step] in Hst; try (destruct (no_seg s) eqn:Hn; [|discriminate]).
  - (* connect *)
    unfold do_connect in Hst. destruct (x_st (s_x s e)); try discriminate.
    destruct (pool_get cf s (key_of_req r) (s_pool s) []) as [s1 got] eqn:Eg.
    destruct (pool_get_le cf _ _ _ _ _ _ Eg) as (P1 & P2 & P3 & P4).
    assert (H1 : Heads s1).
    { eapply heads_transfer; [exact H|exact P1|exact P2|]. intros c. destruct (P3 c) as [E|E]; [left; intros e0; congruence|rewrite E; apply conn_le_refl]. }
    destruct got as [c|]; inv_some.
    + specialize (P4 c eq_refl). unfold reusable in P4. apply andb_true_iff in P4 as [P4 _]. apply get_reuses_clean in P4.
      apply should_close_pooled in P4 as (Hb & Ht & _).
      apply heads_set_exch. destruct H1 as [A B C]. split; cbn; try assumption.
      * intros c'. destruct (upd_cases (s_conn s1) c (set_c_prog (set_c_phase (s_conn s1 c) (PFlight e)) GNone) c') as [[-> E]|[_ E]]; rewrite E; [|apply B].
        intros e0 _. cbn. rewrite Hb, Ht. split; constructor.
      * intros g Hg. unfold no_seg in Hn. rewrite <- P2 in Hn. rewrite Hg in Hn. discriminate.
    + apply heads_set_exch. destruct H1 as [A B C]. split; cbn; try assumption.
      * intros c'. destruct (upd_cases (s_conn s1) (s_nconn s1) (new_conn r e) c') as [[-> E]|[_ E]]; rewrite E; [|apply B].
        intros e0 _. cbn. split; constructor.
      * intros g Hg. unfold no_seg in Hn. rewrite <- P2 in Hn. rewrite Hg in Hn. discriminate.
  - (* params *)
    unfold do_params in Hst. destruct (x_st (s_x s e)); try discriminate.
    set (c := x_conn (s_x s e)) in *. pose proof (hd_conn s H c) as Hc.
    destruct (c_htail (s_conn s c)) as [|p q] eqn:Eh; inv_some.
    + apply heads_set_conn_same; [now apply heads_set_exch|reflexivity|reflexivity|]. cbn. reflexivity.
    + destruct H as [A B C]. split; cbn; try assumption.
      * intros c'. destruct (upd_cases (s_conn s) c (set_c_htail (set_c_pupg (set_c_psc (set_c_ptail (set_c_pst (set_c_parser (s_conn s c) true) PSHead) false) false) false) []) c') as [[-> E]|[_ E]]; rewrite E; [|apply B].
        intros e0 He. cbn in He. destruct (Hc e0 He) as [X1 X2]. cbn. split; [exact X1|constructor].
      * intros g Hg. injection Hg as <-. cbn. rewrite upd_same. intros e0 He. cbn in He. destruct (Hc e0 He) as [X1 X2].
        cbn. rewrite He. cbn. rewrite Eh in X2. repeat split; try constructor; try (now inversion X2).
  - (* read *)
    unfold do_read in Hst. destruct (x_st (s_x s e)) eqn:Est; try discriminate.
    pose proof (held_phase s e S (or_intror Est)) as Hph.
    set (c := x_conn (s_x s e)) in *. destruct (hd_conn s H c e Hph) as [Hb Ht].
    destruct (c_buf (s_conn s c)) as [|m rest] eqn:Eb.
    + destruct (c_exc _ =? 0); [discriminate|]. inv_some. apply heads_release. now apply heads_set_exch.
    + inversion Hb as [|? ? Hm Hrest]; subst.
      match type of Hst with context[set_exch ?t e ?x] => assert (H3 : Heads (set_exch t e x)) end.
      { apply heads_set_exch. destruct H as [A B C]. split; cbn; try assumption.
        - intros d Hd Hh. apply in_app_or in Hd as [Hd|[<-|[]]]; [now apply A|exact Hm].
        - intros c'. destruct (upd_cases (s_conn s) c (set_c_buf (s_conn s c) rest) c') as [[-> E]|[_ E]]; rewrite E; [|apply B].
          intros e0 He. cbn in He. rewrite Hph in He. injection He as <-. cbn. now split.
        - intros g Hg. unfold no_seg in Hn. rewrite Hg in Hn. discriminate. }
      destruct (m_pay m).
      * destruct (p_eof _); [inv_some; now apply heads_response_eof|].
        destruct (p_exc _); inv_some; [exact H3|now apply heads_set_payl].
      * inv_some. now apply heads_response_eof.
  - (* body *)
    unfold do_body in Hst. destruct (x_st (s_x s e)); try discriminate.
    assert (Hfin : forall s0, Heads s0 ->
      Heads (let x' := s_x s0 e in
             let upgraded := x_held x' && c_upg (s_conn s0 (x_conn x')) in
             let s'' := set_exch s0 e (set_x_held (set_x_st x' XDone) (x_held x' && upgraded)) in
             if x_held x' && negb upgraded then release_conn cf s'' (x_conn x') false else s'')).
    { intros s0 H0. cbv zeta. destruct (x_held (s_x s0 e) && negb _); [apply heads_release|]; now apply heads_set_exch. }
    destruct (x_pay (s_x s e)).
    + destruct (p_exc _ || _).
      * inv_some. destruct (x_held _); [apply heads_release|]; now apply heads_set_exch.
      * destruct (p_eof _); [|discriminate]. inv_some.
        apply (Hfin (set_s_log s (s_log s ++ log_items e (p_items (s_pay s n))))). now apply heads_log_body.
    + inv_some. exact (Hfin s H).
  - (* release *)
    unfold do_release in Hst.
    assert (Hgo : forall s0 x arg, Heads s0 ->
              Heads (let s1 := set_exch s0 e (set_x_held (set_x_closed (set_x_st x XDone) true) false) in
                     if x_held x then release_conn cf s1 (x_conn x) arg else s1)).
    { intros s0 x arg H0. cbv zeta. destruct (x_held x); [apply heads_release|]; now apply heads_set_exch. }
    destruct (x_st (s_x s e)); try discriminate; inv_some; apply Hgo;
      destruct (x_pay (s_x s e)); try exact H; now apply heads_set_payl.
  - (* close *)
    unfold do_release in Hst.
    assert (Hgo : forall s0 x arg, Heads s0 ->
              Heads (let s1 := set_exch s0 e (set_x_held (set_x_closed (set_x_st x XDone) true) false) in
                     if x_held x then release_conn cf s1 (x_conn x) arg else s1)).
    { intros s0 x arg H0. cbv zeta. destruct (x_held x); [apply heads_release|]; now apply heads_set_exch. }
    destruct (x_st (s_x s e)); try discriminate; inv_some; apply Hgo;
      destruct (x_pay (s_x s e)); try exact H; now apply heads_set_payl.
  - (* segbegin *)
    unfold do_segbegin in Hst. destruct ((c <? s_nconn s) && c_conn (s_conn s c)); inv_some.
    destruct H as [A B C]. split; cbn; try assumption.
    intros g Hg. injection Hg as <-. cbn. intros e He. rewrite He. cbn. repeat split; constructor.
  - (* tok *)
    unfold do_tok in Hst. destruct (s_seg s) as [g|] eqn:Hs; [|discriminate]. destruct (g_queue g) eqn:Hq; [|discriminate].
    destruct (proc_tok cf (ghost_tok s (g_c g) tk) g tk (g_tag g)) as [[s1 g1]|] eqn:Ep; [|discriminate]. inv_some.
    pose proof (heads_ghost_tok s (g_c g) tk H) as Hg.
    assert (Hsg : s_seg (ghost_tok s (g_c g) tk) = Some g).
    { unfold ghost_tok. destruct (c_phase _); try destruct (ghost_prog _ _); exact Hs. }
    eapply (heads_proc_tok cf _ g g tk (g_tag g) s1 g1 Hg Hsg eq_refl); [|reflexivity|exact Ep].
    now apply (hd_seg _ Hg).
  - (* replay *)
    unfold do_replay in Hst. destruct (s_seg s) as [g|] eqn:Hs; [|discriminate]. destruct (g_queue g) as [|[tk tg] q] eqn:Hq; [discriminate|].
    destruct (proc_tok cf s (set_g_queue g q) tk tg) as [[s1 g1]|] eqn:Ep; [|discriminate]. inv_some.
    pose proof (hd_seg s H g Hs) as HG.
    eapply (heads_proc_tok cf s g (set_g_queue g q) tk tg s1 g1 H Hs eq_refl); [| |exact Ep].
    + intros e He. destruct (HG e He) as (Y1 & Y2 & Y3 & Y4). cbn. rewrite Hq in Y4. repeat split; try assumption. now inversion Y4.
    + intros e He. destruct (HG e He) as (_ & _ & _ & Y4). rewrite Hq in Y4. inversion Y4; subst. cbn in *. assumption.
  - (* segend *)
    unfold do_segend in Hst. destruct (s_seg s) as [g|] eqn:Hs; [|discriminate]. destruct (g_queue g); [|discriminate]. inv_some.
    pose proof (hd_seg s H g Hs) as HG. pose proof (hd_conn s H (g_c g)) as Hc.
    destruct H as [A B C]. split; cbn; try assumption; [|discriminate].
    intros c'. match goal with |- hconn (upd _ _ ?x _) => set (cn1 := x) end.
    destruct (upd_cases (s_conn s) (g_c g) cn1 c') as [[-> E]|[_ E]]; rewrite E; [|apply B].
    subst cn1. destruct (g_err g || g_stash g); [exact Hc|].
    destruct (push_msgs_fields (g_msgs g) (s_conn s (g_c g))) as (P1 & P2 & P3 & P4 & P5 & P6 & P7).
    intros e He. cbn in He. rewrite P1 in He. destruct (Hc e He) as [X1 X2]. destruct (HG e He) as (Y1 & Y2 & Y3 & _).
    cbn. rewrite P6, P2. split; apply Forall_app; (split; [assumption|]).
    + eapply Forall_impl; [|exact Y2]. intros m Hm. congruence.
    + eapply Forall_impl; [|exact Y3]. intros m Hm. congruence.
  - (* peerclose *)
    unfold do_peerclose in Hst. destruct ((c <? s_nconn s) && c_conn (s_conn s c)); inv_some.
    match goal with |- Heads (set_conn ?t _ _) => set (s1 := t) end.
    assert (K1 : Heads s1 /\ s_conn s1 c = s_conn s c).
    { subst s1. destruct (c_parser _); [|split; [exact H|reflexivity]]. destruct (c_pst _); [split; [exact H|reflexivity]|].
      destruct (c_pay _); [|split; [exact H|reflexivity]]. split; [now apply heads_set_payl|reflexivity]. }
    destruct K1 as [K1 E1]. apply heads_set_conn_same; [exact K1| | |]; rewrite E1; now destruct (c_exc (s_conn s c) =? 0).
Qed.

End Step2.

(* C06_no_stale_head: for EVERY trace, every response head handed to a caller arrived while that caller's own
   exchange held the connection - whatever the peer sent while the connection was pooled, after the end of a
   response, or at any other time. *)
Theorem no_stale_head cf tr s :
  run cf init tr = Some s -> forall d, In d (s_log s) -> d_head d = true -> d_tag d = TFlight (d_e d).
Proof.
  intros Hr.
  assert (X : forall tr s0 s, Struct s0 -> Heads s0 -> run cf s0 tr = Some s -> Heads s).
  { induction tr0 as [|ev tr0 IH]; intros s0 s1 S0 H0 Hr0; cbn [run] in Hr0; [inversion Hr0; now subst|].
    destruct (step cf s0 ev) as [s2|] eqn:E; [|discriminate].
    eapply IH; [| |exact Hr0]; [eapply struct_step; eauto|eapply heads_step; eauto]. }
  exact (hd_log s (X tr init s struct_init heads_init Hr)).
Qed.
