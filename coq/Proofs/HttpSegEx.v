(* C03: concrete streams, non-vacuity examples and refutation witnesses (all by vm_compute). *)
From AV Require Import Lib.Base Lib.BytesX Generated.HttpGen Model.Http
  Proofs.HttpSegBase Proofs.HttpSegChunk Proofs.HttpSeg Proofs.HttpSegDoom Proofs.HttpSegRej.
Open Scope N_scope.

Definition lim0 : limits := mkLimits default_max_line default_max_field default_max_headers MAX_MSG_QUEUE_SIZE.

(* "POST /a HTTP/1.1 / Host: h / Transfer-Encoding: chunked // 1a;x=y / <26 bytes> / 0 / X-T: v //"
   followed by "GET /b HTTP/1.1 / Host: h //", cut after "1a;" (inside the chunk-size line) *)
Definition ex_a : bytes := [80; 79; 83; 84; 32; 47; 97; 32; 72; 84; 84; 80; 47; 49; 46; 49; 13; 10; 72; 111; 115; 116; 58; 32; 104; 13; 10; 84; 114; 97; 110; 115; 102; 101; 114; 45; 69; 110; 99; 111; 100; 105; 110; 103; 58; 32; 99; 104; 117; 110; 107; 101; 100; 13; 10; 13; 10; 49; 97; 59].
Definition ex_b : bytes := [120; 61; 121; 13; 10; 97; 98; 99; 100; 101; 102; 103; 104; 105; 106; 107; 108; 109; 110; 111; 112; 113; 114; 115; 116; 117; 118; 119; 120; 121; 122; 13; 10; 48; 13; 10; 88; 45; 84; 58; 32; 118; 13; 10; 13; 10; 71; 69; 84; 32; 47; 98; 32; 72; 84; 84; 80; 47; 49; 46; 49; 13; 10; 72; 111; 115; 116; 58; 32; 104; 13; 10; 13; 10].
(* the same stream cut inside the chunk-size line, inside the chunk data, inside the trailer line
   and inside the second request line *)
Definition ex_segs : list bytes := [[80; 79; 83; 84; 32; 47; 97; 32; 72; 84; 84; 80; 47; 49; 46; 49; 13; 10; 72; 111; 115; 116; 58; 32; 104; 13; 10; 84; 114; 97; 110; 115; 102; 101; 114; 45; 69; 110; 99; 111; 100; 105; 110; 103; 58; 32; 99; 104; 117; 110; 107; 101; 100; 13; 10; 13; 10; 49; 97; 59]; [120; 61; 121; 13; 10; 97; 98; 99; 100; 101; 102; 103; 104; 105; 106]; [107; 108; 109; 110; 111; 112; 113; 114; 115; 116; 117; 118; 119; 120; 121; 122; 13; 10; 48; 13; 10; 88; 45]; [84; 58; 32; 118; 13; 10; 13; 10; 71; 69; 84; 32; 47]; [98; 32; 72; 84; 84; 80; 47; 49; 46; 49; 13; 10; 72; 111; 115; 116; 58; 32; 104; 13; 10; 13; 10]].
(* second read with a malformed second chunk-size line ("ZZ") *)
Definition ex_bad_b : bytes := [120; 61; 121; 13; 10; 97; 98; 99; 100; 101; 102; 103; 104; 105; 106; 107; 108; 109; 110; 111; 112; 113; 114; 115; 116; 117; 118; 119; 120; 121; 122; 13; 10; 90; 90; 13; 10; 114; 101; 115; 116].

(* what a caller sees: outcome and, per message (newest first), method, target, body bytes, chunk
   boundaries, end-of-stream flag, exception set on the payload stream *)
Definition digest (x : pst * acc * outcome) :=
  let '(s, a, r) := x in
  (r, map (fun m => (m_method (r_msg m), m_target (r_msg m), r_data m, r_splits m, r_eof m, r_exc m)) a).

Definition ex_digest :=
  (ROk [], [([71; 69; 84], [47; 98], @nil N, @nil N, true, @None herr);
            ([80; 79; 83; 84], [47; 97], [97; 98; 99; 100; 101; 102; 103; 104; 105; 106; 107; 108; 109; 110; 111; 112; 113; 114; 115; 116; 117; 118; 119; 120; 121; 122], [26], true, @None herr)]).

(* first read, then second read from the state the first one left *)
Definition first_then (lim : limits) (a b : bytes) :=
  let '(s1, acc1, r1) := feed lim [] init a [] in
  (r1, tail_ok lim s1, match payload s1 with Some p => Some (pk p, ctail p) | None => None end,
   digest (feed lim [] s1 b acc1)).

Lemma ex_first_read :
  first_then lim0 ex_a ex_b = (ROk [], true, Some (PChunked CSize, [49; 97; 59]), ex_digest).
Proof. vm_compute. reflexivity. Qed.

Lemma ex_concat : ex_a ++ ex_b = concat ex_segs.
Proof. vm_compute. reflexivity. Qed.

Lemma ex_two_reads : digest (run_segs lim0 [] init [ex_a; ex_b] [] []) = ex_digest.
Proof. vm_compute. reflexivity. Qed.

Lemma ex_five_reads : digest (run_segs lim0 [] init ex_segs [] []) = ex_digest.
Proof. vm_compute. reflexivity. Qed.

Lemma ex_one_read : digest (run_segs lim0 [] init [concat ex_segs] [] []) = ex_digest.
Proof. vm_compute. reflexivity. Qed.

Lemma ex_rejected :
  boundaries_ok lim0 [] init [ex_a; ex_bad_b; ex_b] [] = true /\
  consumed lim0 [] init [ex_a; ex_bad_b; ex_b] [] = [ex_a; ex_bad_b] /\
  digest (run_segs lim0 [] init [ex_a; ex_bad_b; ex_b] [] []) =
    (RErr ETransferEncoding, [([80; 79; 83; 84], [47; 97], [97; 98; 99; 100; 101; 102; 103; 104; 105; 106; 107; 108; 109; 110; 111; 112; 113; 114; 115; 116; 117; 118; 119; 120; 121; 122], [26], false, Some ETransferEncoding)]) /\
  digest (run_segs lim0 [] init [ex_a ++ ex_bad_b] [] []) =
    (RErr ETransferEncoding, [([80; 79; 83; 84], [47; 97], [97; 98; 99; 100; 101; 102; 103; 104; 105; 106; 107; 108; 109; 110; 111; 112; 113; 114; 115; 116; 117; 118; 119; 120; 121; 122], [26], false, Some ETransferEncoding)]) /\
  digest (run_segs lim0 [] init [concat [ex_a; ex_bad_b; ex_b]] [] []) =
    (RErr ETransferEncoding, [([80; 79; 83; 84], [47; 97], [97; 98; 99; 100; 101; 102; 103; 104; 105; 106; 107; 108; 109; 110; 111; 112; 113; 114; 115; 116; 117; 118; 119; 120; 121; 122], [26], false, Some ETransferEncoding)]).
Proof. vm_compute. repeat split. Qed.

(* ---- boundary cases and refutation witnesses ---- *)
(* (a) max_field = 10, header line "a:34567890" of exactly 10 bytes, cut between its CR and LF:
   accepted either way (the buffered CR does not count) *)
Definition lim_a : limits := mkLimits 20 10 128 32.
Definition wa_1 : bytes := [71; 69; 84; 32; 47; 32; 72; 84; 84; 80; 47; 49; 46; 48; 13; 10; 97; 58; 51; 52; 53; 54; 55; 56; 57; 48; 13].
Definition wa_2 : bytes := [10; 13; 10].
Lemma ex_cr_boundary_fixed :
  digest (run_segs lim_a [] init [wa_1; wa_2] [] []) =
    (ROk [], [([71; 69; 84], [47], @nil N, @nil N, true, @None herr)]) /\
  digest (run_segs lim_a [] init [concat [wa_1; wa_2]] [] []) =
    (ROk [], [([71; 69; 84], [47], @nil N, @nil N, true, @None herr)]).
Proof. vm_compute. split; reflexivity. Qed.

(* (b) "GET / HTTP/1.0 CRLF foo LF" | "bar CRLF": a bare LF in an incomplete header block *)
Definition wb_1 : bytes := [71; 69; 84; 32; 47; 32; 72; 84; 84; 80; 47; 49; 46; 48; 13; 10; 102; 111; 111; 10].
Definition wb_2 : bytes := [98; 97; 114; 13; 10].
Lemma refute_bare_lf :
  digest (run_segs lim0 [] init [wb_1; wb_2] [] []) = (RErr EBadMessage, []) /\
  digest (run_segs lim0 [] init [concat [wb_1; wb_2]] [] []) = (ROk [], []) /\
  digest (run_segs lim0 [] init [concat [wb_1; wb_2] ++ [13; 10]] [] []) = (RErr EInvalidHeader, []).
Proof. vm_compute. repeat split. Qed.

(* (c) max_line = 20, chunk-size line "1;eeeeeeeeeeeeeeeeee" of exactly 20 bytes, cut between its CR
   and LF: the first read returns normally, the second raises LineTooLong, one read parses it all *)
Definition lim_c : limits := mkLimits 20 8190 128 32.
Definition wc_1 : bytes := [80; 79; 83; 84; 32; 47; 32; 72; 84; 84; 80; 47; 49; 46; 48; 13; 10; 84; 114; 97; 110; 115; 102; 101; 114; 45; 69; 110; 99; 111; 100; 105; 110; 103; 58; 32; 99; 104; 117; 110; 107; 101; 100; 13; 10; 13; 10; 49; 59; 101; 101; 101; 101; 101; 101; 101; 101; 101; 101; 101; 101; 101; 101; 101; 101; 101; 101; 13].
Definition wc_2 : bytes := [10; 120; 13; 10; 48; 13; 10; 13; 10].
Lemma ex_chunk_cr_boundary_fixed :
  first_then lim_c wc_1 wc_2 =
    (ROk [], true, Some (PChunked CSize, [49; 59; 101; 101; 101; 101; 101; 101; 101; 101; 101; 101; 101; 101; 101; 101; 101; 101; 101; 101; 13]),
     (ROk [], [([80; 79; 83; 84], [47], [120], [1], true, @None herr)])) /\
  digest (feed lim_c [] init (wc_1 ++ wc_2) []) =
    (ROk [], [([80; 79; 83; 84], [47], [120], [1], true, @None herr)]) /\
  digest (run_segs lim_c [] init [wc_1; wc_2] [] []) =
    (ROk [], [([80; 79; 83; 84], [47], [120], [1], true, @None herr)]).
Proof. vm_compute. repeat split. Qed.

(* (d) max_line = 20: the first read ends inside a chunk-size line that is already 25 bytes long (no
   CR, no LF yet); the next read, which still does not end the line, raises LineTooLong on the
   buffered part, while one read of the same bytes is still waiting for the end of the line: the
   rejection is only noticed earlier (every continuation of the one-read run is rejected too) *)
Definition wd_1 : bytes := [80; 79; 83; 84; 32; 47; 32; 72; 84; 84; 80; 47; 49; 46; 48; 13; 10; 84; 114; 97; 110; 115; 102; 101; 114; 45; 69; 110; 99; 111; 100; 105; 110; 103; 58; 32; 99; 104; 117; 110; 107; 101; 100; 13; 10; 13; 10; 49; 59; 101; 101; 101; 101; 101; 101; 101; 101; 101; 101; 101; 101; 101; 101; 101; 101; 101; 101; 101; 101; 101; 101; 101].
Definition wd_2 : bytes := [101; 101].
Lemma ex_tail_recheck_early :
  first_then lim_c wd_1 wd_2 =
    (ROk [], false, Some (PChunked CSize, [49; 59; 101; 101; 101; 101; 101; 101; 101; 101; 101; 101; 101; 101; 101; 101; 101; 101; 101; 101; 101; 101; 101; 101; 101]),
     (RErr ELineTooLong, [([80; 79; 83; 84], [47], @nil N, @nil N, false, Some ELineTooLong)])) /\
  (let '(s, a, r) := feed lim_c [] init (wd_1 ++ wd_2) [] in (r, tail_ok lim_c s, digest (s, a, r))) =
    (ROk [], false, (ROk [], [([80; 79; 83; 84], [47], @nil N, @nil N, false, @None herr)])).
Proof. vm_compute. split; reflexivity. Qed.

(* the one-read run of witness (b) returns normally but leaves a header block that can never be
   completed into a message (Proofs/HttpSegDoom.v) *)
Lemma ex_bare_lf_poisoned :
  (let '(s, a, r) := feed lim0 [] init (wb_1 ++ wb_2) [] in (r, poisoned s, payload s, a)) =
  (ROk [], true, None, []).
Proof. vm_compute. reflexivity. Qed.

(* hypotheses of the reject-direction theorem: met by the rejected example, and each of them
   violated by exactly the witnesses it is there to exclude *)
Lemma ex_rejected_hyps :
  boundaries_ok lim0 [] init [ex_a; ex_bad_b; ex_b] [] = true /\
  fail_complete lim0 [] init [ex_a; ex_bad_b; ex_b] [] = true.
Proof. vm_compute. split; reflexivity. Qed.

Lemma ex_hyps_exclude :
  fail_complete lim0 [] init [wb_1; wb_2] [] = false /\
  boundaries_ok lim0 [] init [wb_1; wb_2] [] = true /\
  boundaries_ok lim_c [] init [wd_1; wd_2] [] = false /\
  fail_complete lim_c [] init [wd_1; wd_2] [] = true.
Proof. vm_compute. repeat split. Qed.
