(* C01 support: fuel-free unfolding of the parser loops (frun / crun), the line-block reader shared
   by the header phase and the trailer phase (blk_run) and its relation to HttpSpec.take_block. *)
From Coq Require Import ZifyBool ZifyN.
From AV Require Import Lib.Base Lib.BytesX Generated.HttpGen Model.Http Model.HttpSpec
  Proofs.HttpSegBase Proofs.HttpSegChunk Proofs.HttpSeg Proofs.HttpSpecRefinePart.
Ltac Zify.zify_post_hook ::= Z.to_euclidean_division_equations.
Open Scope N_scope.

(* ------------------------------------------------------------------ fuel-free runs *)
Definition frun (lim : limits) (o : oracle) (se : fcfg) (b : bytes) : fres :=
  floop lim o (2 * length b + 2) se b.

Lemma frun_step lim o se b : inv_f se ->
  frun lim o se b =
  match step_f lim o se b with
  | inl (se', b') => frun lim o se' b'
  | inr r => r
  end.
Proof.
  intro Hi. unfold frun. replace (2 * length b + 2)%nat with (S (2 * length b + 1)) by lia.
  unfold floop. cbn [loop]. destruct (step_f lim o se b) as [[se' b']|r] eqn:E; [|reflexivity].
  destruct (step_f_dec lim o _ _ _ _ Hi E) as [Hi' Hm].
  pose proof (meas_f_fuel se b). pose proof (meas_f_fuel se' b').
  apply (floop_fuel lim o _ _ _ _ Hi'); lia.
Qed.

Lemma feed_frun lim o s : feed lim o init s [] = frun lim o (init, []) s.
Proof. rewrite feed_floop. reflexivity. Qed.

Definition crun (lim : limits) (mt : N) (s : cst) (x : bytes) : pres :=
  cloop lim mt (2 * length x + 2) s x.

Lemma crun_step lim mt s x : cwf s ->
  crun lim mt s x =
  match step_c lim mt s x with
  | inl (s', x') => crun lim mt s' x'
  | inr r => r
  end.
Proof.
  intro Hi. unfold crun. replace (2 * length x + 2)%nat with (S (2 * length x + 1)) by lia.
  unfold cloop. cbn [loop]. destruct (step_c lim mt s x) as [[s' x']|r] eqn:E; [|reflexivity].
  destruct (step_c_dec lim mt _ _ _ _ Hi E) as [Hi' Hm].
  destruct s as [[c tl] evs], s' as [[c' tl'] evs'].
  pose proof (meas_c_fuel c tl evs x). pose proof (meas_c_fuel c' tl' evs' x').
  apply (cloop_fuel lim mt _ _ _ _ Hi'); lia.
Qed.

(* ------------------------------------------------------------------ reading a block of lines *)
(* the way both the header phase of feed_loop and the trailer phase of chunked_loop read lines:
   one line at a time, each checked against its length limit (l1 for the first line, ln for the
   others) and the running line count against cnt, until the empty line *)
Inductive hres :=
| HBlock (ls : list bytes) (rest : bytes)
| HErr (ls : list bytes) (e : herr)
| HPartial (ls : list bytes) (b : bytes).

Section Blk.
  Variables (l1 ln cnt : N).
  Definition limit_of (ls0 : list bytes) : N := match ls0 with [] => l1 | _ => ln end.

  Fixpoint blk_run (f : nat) (ls0 : list bytes) (b : bytes) : hres :=
    match f with
    | O => HPartial ls0 b
    | S f' =>
      match find_crlf b with
      | None => HPartial ls0 b
      | Some (line, rest) =>
        if limit_of ls0 <? lenN line then HErr ls0 ELineTooLong
        else if cnt <? lenN (ls0 ++ [line]) then HErr ls0 EBadMessage
        else match line with
             | [] => HBlock ls0 rest
             | _ => blk_run f' (ls0 ++ [line]) rest
             end
      end
    end.

  Fixpoint long_any (ls0 new : list bytes) : bool :=
    match new with
    | [] => false
    | l :: new' => (limit_of ls0 <? lenN l) || long_any (ls0 ++ [l]) new'
    end.

  Lemma blk_block : forall f ls0 b ls rest,
    blk_run f ls0 b = HBlock ls rest -> take_block f b ls0 = Some (ls, rest).
  Proof.
    induction f as [|f IH]; intros ls0 b ls rest H; [discriminate|]. cbn [blk_run take_block] in *.
    destruct (find_crlf b) as [[line r]|]; [|discriminate].
    destruct (limit_of ls0 <? lenN line); [discriminate|].
    destruct (cnt <? lenN (ls0 ++ [line])); [discriminate|].
    destruct line as [|c line]; [inversion H; reflexivity|]. now apply IH.
  Qed.

  Lemma take_block_run : forall f ls0 b ls rest,
    take_block f b ls0 = Some (ls, rest) ->
    exists new, ls = ls0 ++ new /\
      if long_any ls0 new || (cnt <? lenN ls + 1)
      then exists lsk e', blk_run f ls0 b = HErr lsk e' /\
             ((e' = ELineTooLong /\ long_any ls0 new = true) \/ e' = EBadMessage)
      else blk_run f ls0 b = HBlock ls rest.
  Proof.
    induction f as [|f IH]; intros ls0 b ls rest H; [discriminate|]. cbn [blk_run take_block] in *.
    destruct (find_crlf b) as [[line r]|]; [|discriminate].
    destruct line as [|c line].
    - inversion H; subst. exists []. rewrite app_nil_r. split; [reflexivity|]. cbn [long_any orb].
      destruct (limit_of ls <? lenN _) eqn:E0; [unfold lenN in E0; cbn [length] in E0; lia|].
      destruct (cnt <? lenN ls + 1) eqn:E2; destruct (cnt <? lenN (_ ++ _)) eqn:E1;
        unfold lenN in E1, E2; rewrite app_length in E1; cbn [length] in E1; try lia.
      + exists ls, EBadMessage. split; [reflexivity|now right].
      + reflexivity.
    - destruct (IH _ _ _ _ H) as (new' & Hls & Hres). exists ((c :: line) :: new').
      split; [rewrite Hls, <- app_assoc; reflexivity|]. cbn [long_any].
      destruct (limit_of ls0 <? lenN (c :: line)) eqn:El.
      + cbn [orb]. exists ls0, ELineTooLong. split; [reflexivity|left; split; reflexivity].
      + cbn [orb]. destruct (cnt <? lenN (ls0 ++ _)) eqn:Ec.
        * assert (Hc : (cnt <? lenN ls + 1) = true).
          { unfold lenN in *. rewrite Hls, !app_length. rewrite app_length in Ec. cbn [length] in *. lia. }
          rewrite Hc, orb_true_r. exists ls0, EBadMessage. split; [reflexivity|now right].
        * exact Hres.
  Qed.
End Blk.

Lemma long_any_same l : forall new ls0,
  long_any l l ls0 new = existsb (fun x => l <? lenN x) new.
Proof.
  induction new as [|x new IH]; intros ls0; [reflexivity|]. cbn [long_any existsb].
  rewrite IH. unfold limit_of. destruct ls0; reflexivity.
Qed.

Lemma long_any_tail l1 ln : forall new ls, ls <> [] ->
  long_any l1 ln ls new = existsb (fun x => ln <? lenN x) new.
Proof.
  induction new as [|x new IH]; intros ls Hn; [reflexivity|]. cbn [long_any existsb].
  rewrite IH by (destruct ls; discriminate). unfold limit_of. destruct ls; [congruence|reflexivity].
Qed.

Lemma long_any_head l1 ln rl fls :
  long_any l1 ln [] (rl :: fls) = (l1 <? lenN rl) || existsb (fun x => ln <? lenN x) fls.
Proof. cbn [long_any limit_of app]. f_equal. apply long_any_tail. discriminate. Qed.

(* ------------------------------------------------------------------ the header phase of feed_loop *)
(* parser state while reading a header block: lines collected so far, nothing buffered, no payload,
   not upgraded, `cl` = the previous message asked to close *)
Definition hs (ls : list bytes) (cl : bool) : pst := mkS ls [] None false false cl 0.

Definition hdr_result (lim : limits) (o : oracle) (evs : acc) (h : hres) : fres :=
  match h with
  | HBlock ls rest =>
    match start_message lim o (hs ls false) (ls ++ [[]]) with
    | POk (s', e1) => frun lim o (s', e1 evs) rest
    | PErr e => (hs ls false, evs, RErr e)
    | PAsk c t => (hs ls false, evs, RAsk c t)
    end
  | HErr ls e => (hs ls false, evs, RErr e)
  | HPartial ls tl =>
    if has_byte 10 tl then (hs ls false, evs, RErr EBadMessage)
    else if limit_of (max_line lim) (max_field lim) ls <? tail_len tail_check_discounts_cr tl then (hs ls false, evs, RErr ELineTooLong)
    else (mkS ls tl None false false false 0, evs, ROk [])
  end.

Ltac dif := match goal with |- context [if ?c then _ else _] => destruct c eqn:? end.

Lemma inv_f_hs ls cl evs : inv_f (hs ls cl, evs).
Proof. split; [reflexivity|exact I]. Qed.

Lemma frun_hdr lim o : max_queue lim = 0 -> forall f b ls0 evs, (length b < f)%nat ->
  (ls0 = [] -> forall rest, find_crlf b <> Some ([], rest)) ->
  frun lim o (hs ls0 false, evs) b =
  hdr_result lim o evs (blk_run (max_line lim) (max_field lim) (max_headers lim) f ls0 b).
Proof.
  intros Hq. induction f as [|f IH]; intros b ls0 evs Hf Hh; [lia|].
  rewrite frun_step by apply inv_f_hs. destruct b as [|a r].
  - cbn [step_f blk_run]. change (find_crlf []) with (@None (bytes * bytes)).
    unfold hdr_result. cbn [has_byte].
    destruct (limit_of _ _ ls0 <? tail_len _ _) eqn:E; [unfold tail_len, lenN in E; cbn [length last] in E; destruct tail_check_discounts_cr; cbn in E; lia|]. reflexivity.
  - unfold hs at 1. cbn [step_f payload upgraded lines tail pending_upgrade should_close in_flight].
    rewrite Hq. change (0 <? 0) with false. cbn [andb blk_run].
    destruct (find_crlf (a :: r)) as [[line rest]|] eqn:E.
    + pose proof (find_crlf_len _ _ _ E) as HL.
      destruct line as [|c line]; destruct ls0 as [|l0 ls0]; unfold limit_of; lazy beta iota zeta.
      * exfalso. exact (Hh eq_refl rest eq_refl).
      * repeat dif; try reflexivity.
        unfold hdr_result, hs. destruct (start_message _ _ _ _) as [[s' e1]|e|cc t]; reflexivity.
      * repeat dif; try reflexivity.
        apply IH; [cbn [length] in *; lia|]. intro H0. destruct (app_cons_not_nil _ _ _ (eq_sym H0)).
      * repeat dif; try reflexivity.
        apply IH; [cbn [length] in *; lia|]. intro H0. discriminate.
    + unfold hdr_result, limit_of, hs. lazy zeta. repeat dif; reflexivity.
Qed.

(* data after a message that asked to close *)
Lemma frun_closing lim o : max_queue lim = 0 -> forall b evs,
  (forall rest, find_crlf b <> Some ([], rest)) ->
  match find_crlf b with
  | Some _ => frun lim o (hs [] true, evs) b = (hs [] true, evs, RErr EBadMessage)
  | None => exists st r, frun lim o (hs [] true, evs) b = (st, evs, r) /\
                         (r = ROk [] \/ r = RErr EBadMessage \/ r = RErr ELineTooLong)
  end.
Proof.
  intros Hq b evs Hh. rewrite frun_step by apply inv_f_hs. destruct b as [|a r].
  - change (find_crlf []) with (@None (bytes * bytes)). cbn [step_f]. eauto.
  - unfold hs at 1 3. cbn [step_f payload upgraded lines tail pending_upgrade should_close in_flight].
    rewrite Hq. change (0 <? 0) with false. cbn [andb].
    destruct (find_crlf (a :: r)) as [[line rest]|] eqn:E.
    + destruct line as [|c line]; [exfalso; exact (Hh rest eq_refl)|]. reflexivity.
    + lazy zeta. repeat dif; eauto 6.
Qed.

Lemma frun_skip lim o cl evs : max_queue lim = 0 -> forall n b, (length b <= n)%nat ->
  frun lim o (hs [] cl, evs) b = frun lim o (hs [] cl, evs) (skip_crlfs b).
Proof.
  intros Hq. induction n as [|n IH]; intros b Hn.
  - destruct b; [reflexivity|cbn in Hn; lia].
  - rewrite skip_crlfs_eq. destruct b as [|a [|b0 b]]; try reflexivity.
    destruct ((a =? 13) && (b0 =? 10)) eqn:E; [|reflexivity].
    rewrite <- IH by (cbn in Hn; lia).
    rewrite frun_step by apply inv_f_hs.
    unfold hs at 1. cbn [step_f payload upgraded lines tail pending_upgrade should_close in_flight].
    rewrite Hq. change (0 <? 0) with false. cbn [andb].
    unfold find_crlf. rewrite find_crlf_aux_cons2, E. reflexivity.
Qed.

(* ------------------------------------------------------------------ start_message, one-shot *)
Lemma sm_char lim o x st e1 : max_queue lim = 0 -> start_message lim o init x = POk (st, e1) ->
  exists m, parse_request o (removelast x) = POk m /\
    let mt := max_headers lim - lenN x in
    ((exists k upg, st = mkS [] [] (Some (mkP k [] [] mt)) false upg (m_close m) 0 /\ e1 = ev_msg m true /\
                    (k = PChunked CSize \/ exists n, k = PLength n /\ 0 < n)) \/
     (st = mkS [] [] (Some (mkP PUntilEof [] [] mt)) true false (m_close m) 0 /\ e1 = ev_msg m true) \/
     (exists u, st = mkS [] [] None u false (m_close m) 0 /\ e1 = ev_msg m false)).
Proof.
  intros Hq H. unfold start_message in H. cbv zeta in H. rewrite Hq in H. change (0 <? 0) with false in H.
  unfold init in H. cbn [upgraded pending_upgrade in_flight] in H.
  destruct (parse_request o (removelast x)) as [m|e|c t]; try discriminate.
  exists m. split; [reflexivity|]. cbv zeta.
  destruct (get_header h_content_length (m_headers m)) as [v|].
  - destruct (nonempty v && forallb dec_digit v && (lenN v <=? int_max_str_digits)); [|discriminate].
    destruct (has_header h_sec_websocket_key1 (m_headers m)); [discriminate|].
    destruct (negb _ && ((0 <? parse_dec v) || m_chunked m)) eqn:Eb.
    + inversion H. left. eexists _, _. split; [reflexivity|]. split; [reflexivity|].
      destruct (m_chunked m); [left; reflexivity|right]. eexists. split; [reflexivity|].
      rewrite orb_false_r in Eb. apply andb_true_iff in Eb as [_ Eb]. lia.
    + destruct (list_eqb (m_method m) m_CONNECT); [inversion H; right; left; split; reflexivity|].
      dmH H; inversion H; right; right; eexists; split; reflexivity.
  - destruct (has_header h_sec_websocket_key1 (m_headers m)); [discriminate|].
    destruct (negb _ && (false || m_chunked m)) eqn:Eb.
    + inversion H. left. eexists _, _. split; [reflexivity|]. split; [reflexivity|].
      destruct (m_chunked m); [left; reflexivity|]. rewrite andb_false_r in Eb. discriminate.
    + destruct (list_eqb (m_method m) m_CONNECT); [inversion H; right; left; split; reflexivity|].
      dmH H; inversion H; right; right; eexists; split; reflexivity.
Qed.

Lemma start_message_hs lim o ls x : start_message lim o (hs ls false) x = start_message lim o init x.
Proof. reflexivity. Qed.

(* classes of the rejections the parser can raise before the strict reading can decide *)
Definition early (e : herr) : Prop := e = EBadMessage \/ e = ELineTooLong \/ e = ETransferEncoding.

Lemma blk_err_class l1 ln cnt : forall f ls0 b ls e,
  blk_run l1 ln cnt f ls0 b = HErr ls e -> e = ELineTooLong \/ e = EBadMessage.
Proof.
  induction f as [|f IH]; intros ls0 b ls e H; [discriminate|]. cbn [blk_run] in H.
  destruct (find_crlf b) as [[line r]|]; [|discriminate].
  destruct (_ <? lenN line); [inversion H; auto|].
  destruct (cnt <? _); [inversion H; auto|].
  destruct line; [discriminate|]. eapply IH; eassumption.
Qed.
