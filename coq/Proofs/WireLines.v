(* C02 support, part 1: the request parser (Model/Http.v feed_loop) run on a block of CRLF-terminated
   lines and on every prefix of it.  Nothing here mentions the writer. *)
From Coq Require Import ZifyBool ZifyN.
From AV Require Import Lib.Base Lib.BytesX Generated.HttpGen Model.Http
  Proofs.HttpSegBase Proofs.HttpSegChunk Proofs.HttpSeg Proofs.WriterBody.
Ltac Zify.zify_post_hook ::= Z.to_euclidean_division_equations.
Open Scope N_scope.

Definition lines_bytes (ls : list bytes) : bytes := concat (map (fun l => l ++ [13; 10]) ls).

(* parser state while the head is being read *)
Definition hst (pre : list bytes) (tl : bytes) : pst := mkS pre tl None false false false 0.

Definition limit_for (lim : limits) (pre : list bytes) : N :=
  match pre with [] => max_line lim | _ => max_field lim end.

Lemma lines_bytes_cons l ls : lines_bytes (l :: ls) = l ++ 13 :: 10 :: lines_bytes ls.
Proof. unfold lines_bytes. cbn [map concat]. rewrite <- app_assoc. reflexivity. Qed.

Lemma find_crlf_clean l r : ~ In 13 l -> find_crlf (l ++ 13 :: 10 :: r) = Some (l, r).
Proof. intro H. unfold find_crlf. rewrite find_crlf_aux_clean by exact H. reflexivity. Qed.

Lemma queue_open lim : (0 <? max_queue lim) && (max_queue lim <=? 0) = false.
Proof. destruct (0 <? max_queue lim) eqn:E; [|reflexivity]. cbn [andb]. lia. Qed.

(* ------------------------------------------------------------------ one complete line *)
Lemma step_f_line lim o pre l rest evs :
  l <> [] -> ~ In 13 l ->
  lenN l <= limit_for lim pre ->
  lenN (pre ++ [l]) <= max_headers lim ->
  step_f lim o (hst pre [], evs) (l ++ 13 :: 10 :: rest) = inl ((hst (pre ++ [l]) [], evs), rest).
Proof.
  intros Hl H13 Hlen Hcnt. destruct l as [|a l']; [congruence|].
  unfold step_f. cbn [app]. rewrite app_comm_cons.
  cbn [hst payload upgraded in_flight lines should_close tail pending_upgrade].
  rewrite queue_open. rewrite find_crlf_clean by exact H13.
  unfold limit_for in Hlen.
  assert (E1 : (match pre with [] => max_line lim | _ :: _ => max_field lim end <? lenN (a :: l')) = false) by lia.
  assert (E2 : (max_headers lim <? lenN (pre ++ [a :: l'])) = false) by lia.
  unfold bytes in *. rewrite E1, E2. reflexivity.
Qed.

(* ------------------------------------------------------------------ a partial line at the end of a read *)
Lemma step_f_partial lim o pre part evs :
  part <> [] -> find_crlf part = None -> has_byte 10 part = false ->
  lenN part <= limit_for lim pre ->
  step_f lim o (hst pre [], evs) part = inr (hst pre part, evs, ROk []).
Proof.
  intros Hp Hf Hlf Hlen. destruct part as [|a p']; [congruence|].
  unfold step_f. cbn [hst payload upgraded in_flight lines should_close tail pending_upgrade].
  rewrite queue_open, Hf, Hlf. unfold limit_for in Hlen.
  assert (E1 : (match pre with [] => max_line lim | _ :: _ => max_field lim end <? tail_len tail_check_discounts_cr (a :: p')) = false)
    by (pose proof (tail_len_le tail_check_discounts_cr (a :: p')); lia).
  unfold bytes in *. rewrite E1. reflexivity.
Qed.

Lemma feed_loop_nil f lim o s evs : feed_loop (S f) lim o s [] evs = (s, evs, ROk []).
Proof. reflexivity. Qed.

(* ------------------------------------------------------------------ strict prefixes of  l CRLF *)
Lemma has_byte_In b s : has_byte b s = true <-> In b s.
Proof.
  induction s as [|c s IH]; cbn [has_byte In]; [split; [discriminate|tauto]|].
  rewrite orb_true_iff, IH, N.eqb_eq. split; intros [H|H]; auto.
Qed.

Lemma has_byte_false b s : ~ In b s -> has_byte b s = false.
Proof. intro H. destruct (has_byte b s) eqn:E; [|reflexivity]. apply has_byte_In in E. tauto. Qed.

Lemma find_crlf_aux_none_no_lf : forall s acc, ~ In 10 s -> find_crlf_aux acc s = None.
Proof.
  induction s as [|c s IH]; intros acc H; [reflexivity|].
  destruct s as [|d s']; [reflexivity|].
  rewrite find_crlf_aux_cons2.
  assert (d <> 10) by (intro; subst; apply H; right; left; reflexivity).
  destruct ((c =? 13) && (d =? 10)) eqn:E; [lia|].
  apply IH. intro Hin. apply H. right. exact Hin.
Qed.

Lemma find_crlf_none_no_lf s : ~ In 10 s -> find_crlf s = None.
Proof. apply find_crlf_aux_none_no_lf. Qed.

(* x ++ y = l CRLF R with x shorter than l CRLF: x is a prefix of l, or l CR *)
Lemma strict_prefix_cases (x y l R : bytes) :
  x ++ y = l ++ 13 :: 10 :: R -> (length x < length l + 2)%nat ->
  (exists z, l = x ++ z) \/ x = l ++ [13].
Proof.
  revert x. induction l as [|c l IH]; intros x E Hlen.
  - cbn [app length] in *. destruct x as [|a x]; [left; exists []; reflexivity|].
    destruct x as [|b x]; [|cbn [length] in Hlen; lia].
    cbn [app] in E. inversion E; subst. right. reflexivity.
  - destruct x as [|a x]; [left; exists (c :: l); reflexivity|].
    cbn [app] in E. inversion E; subst. cbn [length] in Hlen.
    destruct (IH x H1 ltac:(lia)) as [[z Hz]|Hx].
    + left. exists z. cbn [app]. rewrite Hz. reflexivity.
    + right. cbn [app]. rewrite Hx. reflexivity.
Qed.

Lemma long_prefix_cases (x y a b : bytes) :
  x ++ y = a ++ b -> (length a <= length x)%nat -> exists x', x = a ++ x' /\ b = x' ++ y.
Proof.
  revert x. induction a as [|c a IH]; intros x E Hlen.
  - exists x. split; [reflexivity|]. cbn [app] in E. symmetry. exact E.
  - destruct x as [|d x]; [cbn [length] in Hlen; lia|].
    cbn [app] in E. inversion E; subst. cbn [length] in Hlen.
    destruct (IH x H1 ltac:(lia)) as (x' & -> & ->). exists x'. split; reflexivity.
Qed.

Lemma partial_facts (x l : bytes) :
  ~ In 13 l -> ~ In 10 l ->
  ((exists z, l = x ++ z) \/ x = l ++ [13]) ->
  find_crlf x = None /\ has_byte 10 x = false /\ lenN x <= lenN l + 1.
Proof.
  intros H13 H10 [[z ->] | ->].
  - assert (~ In 10 x) by (intro; apply H10; apply in_or_app; left; assumption).
    split; [apply find_crlf_none_no_lf; assumption|]. split; [apply has_byte_false; assumption|].
    rewrite lenN_app. lia.
  - assert (~ In 10 (l ++ [13])).
    { intro Hin. apply in_app_or in Hin as [Hin|[Hin|[]]]; [tauto|discriminate]. }
    split; [apply find_crlf_none_no_lf; assumption|]. split; [apply has_byte_false; assumption|].
    rewrite lenN_app. change (lenN [13]) with 1. lia.
Qed.

(* ------------------------------------------------------------------ a block of lines, every prefix *)
(* "accepted": the read returns normally whatever sufficient fuel, and the buffered chunk line (if any)
   passes the re-check the next read makes *)
Definition accepts (lim : limits) (o : oracle) (s : pst) (x : bytes) (evs : acc) : Prop :=
  exists s' a', tail_ok lim s' = true /\
    forall f, (2 * length x + 2 <= f)%nat -> feed_loop f lim o s x evs = (s', a', ROk []).

Definition good_line (lim : limits) (l : bytes) : Prop :=
  l <> [] /\ ~ In 13 l /\ ~ In 10 l /\ lenN l + 1 <= max_field lim.

Lemma accepts_nil lim o pre evs : accepts lim o (hst pre []) [] evs.
Proof.
  exists (hst pre []), evs. split; [reflexivity|]. intros f Hf.
  destruct f as [|f]; [cbn in Hf; lia|]. apply feed_loop_nil.
Qed.

Lemma accepts_partial lim o pre x evs :
  x <> [] -> find_crlf x = None -> has_byte 10 x = false -> lenN x <= limit_for lim pre ->
  accepts lim o (hst pre []) x evs.
Proof.
  intros Hx Hf Hlf Hlen. exists (hst pre x), evs. split; [reflexivity|]. intros f Hf'.
  destruct f as [|f]; [lia|]. rewrite feed_loop_S, step_f_partial by assumption. reflexivity.
Qed.

(* one line consumed, then whatever follows *)
Lemma accepts_after_line lim o pre l x' evs :
  l <> [] -> ~ In 13 l -> lenN l <= limit_for lim pre -> lenN (pre ++ [l]) <= max_headers lim ->
  accepts lim o (hst (pre ++ [l]) []) x' evs ->
  accepts lim o (hst pre []) (l ++ 13 :: 10 :: x') evs.
Proof.
  intros Hl H13 Hlen Hcnt (s' & a' & Hok & Hrun). exists s', a'. split; [exact Hok|].
  intros f Hf. rewrite app_length in Hf. cbn [length] in Hf.
  destruct f as [|f]; [lia|]. rewrite feed_loop_S, step_f_line by assumption.
  apply Hrun. lia.
Qed.

Lemma fields_all_prefixes lim o : forall ls pre rest evs,
  pre <> [] -> Forall (good_line lim) ls -> lenN (pre ++ ls) <= max_headers lim ->
  (forall x y, rest = x ++ y -> accepts lim o (hst (pre ++ ls) []) x evs) ->
  forall x y, lines_bytes ls ++ rest = x ++ y -> accepts lim o (hst pre []) x evs.
Proof.
  induction ls as [|l ls IH]; intros pre rest evs Hpre Hg Hcnt Hrest x y E.
  - rewrite app_nil_r in Hrest. cbn [lines_bytes map concat app] in E. eapply Hrest. exact E.
  - inversion Hg as [|? ? (Hl & H13 & H10 & Hlen) Hg']; subst.
    rewrite lines_bytes_cons in E. rewrite <- app_assoc in E. cbn [app] in E.
    assert (Hlim : limit_for lim pre = max_field lim) by (destruct pre; [congruence|reflexivity]).
    destruct (Nat.ltb (length x) (length l + 2)) eqn:Ec.
    + apply Nat.ltb_lt in Ec. symmetry in E.
      destruct x as [|a x0]; [apply accepts_nil|].
      destruct (partial_facts (a :: x0) l H13 H10 (strict_prefix_cases _ _ _ _ E Ec)) as (F1 & F2 & F3).
      apply accepts_partial; [discriminate|assumption|assumption|lia].
    + apply Nat.ltb_ge in Ec. symmetry in E.
      change (l ++ 13 :: 10 :: lines_bytes ls ++ rest) with (l ++ [13; 10] ++ lines_bytes ls ++ rest) in E.
      rewrite app_assoc in E.
      destruct (long_prefix_cases x y (l ++ [13; 10]) _ E) as (x' & -> & E').
      { rewrite app_length. cbn [length]. lia. }
      rewrite <- app_assoc. cbn [app].
      assert (Hc2 : lenN (pre ++ [l]) <= max_headers lim).
      { rewrite !lenN_app in *. rewrite lenN_cons in Hcnt. change (lenN [l]) with 1. lia. }
      apply accepts_after_line; [assumption|assumption|lia|assumption|].
      apply (IH (pre ++ [l]) rest evs) with (y := y); [destruct pre; discriminate|assumption| | |exact E'].
      * rewrite <- app_assoc. exact Hcnt.
      * intros x1 y1 E1. rewrite <- app_assoc. cbn [app]. eapply Hrest. exact E1.
Qed.

(* the exact run over a complete block of field lines *)
Lemma fields_run lim o : forall ls pre rest evs f,
  pre <> [] -> Forall (good_line lim) ls -> lenN (pre ++ ls) <= max_headers lim ->
  (2 * length (lines_bytes ls ++ rest) + 2 <= f)%nat ->
  exists f', (2 * length rest + 2 <= f')%nat /\
    feed_loop f lim o (hst pre []) (lines_bytes ls ++ rest) evs =
    feed_loop f' lim o (hst (pre ++ ls) []) rest evs.
Proof.
  induction ls as [|l ls IH]; intros pre rest evs f Hpre Hg Hcnt Hf.
  - exists f. rewrite app_nil_r. cbn [lines_bytes map concat app] in *. split; [exact Hf|reflexivity].
  - inversion Hg as [|? ? (Hl & H13 & H10 & Hlen) Hg']; subst.
    rewrite lines_bytes_cons, <- app_assoc in *. cbn [app] in *.
    assert (Hlim : limit_for lim pre = max_field lim) by (destruct pre; [congruence|reflexivity]).
    assert (Hc2 : lenN (pre ++ [l]) <= max_headers lim).
    { rewrite !lenN_app in *. rewrite lenN_cons in Hcnt. change (lenN [l]) with 1. lia. }
    rewrite app_length in Hf. cbn [length] in Hf.
    destruct f as [|f]; [lia|]. rewrite feed_loop_S, step_f_line by (try assumption; lia).
    destruct (IH (pre ++ [l]) rest evs f) as (f' & Hf' & Hrun);
      [destruct pre; discriminate|assumption|rewrite <- app_assoc; exact Hcnt|lia|].
    exists f'. split; [exact Hf'|]. rewrite <- app_assoc in Hrun. exact Hrun.
Qed.
