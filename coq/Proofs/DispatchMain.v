(* Corollaries that combine the pieces, refutation witnesses and non-vacuity examples for C14. *)
From AV Require Import Lib.Base Lib.Utf8 Generated.DispatchGen Model.Dispatch
  Proofs.DispatchStrings Proofs.DispatchRule Proofs.DispatchIndex Proofs.DispatchStatus
  Proofs.DispatchTemplate Proofs.DispatchRedirect.
Open Scope N_scope.

Theorem built_dispatch_follows_rule ops rt host p m :
  build_app ops = BOk rt -> starts_with [SLASH] p = true ->
  resolve_ix rt host p m = resolve_rule rt host p m.
Proof. intros Hb Hp. apply index_eq_rule; [eapply build_app_ok; eassumption|assumption]. Qed.

(* ---- 404 / 405 for the code model (index walk), tables without sub-applications *)

Theorem ix_404 rt host p m : router_ok rt -> flat rt -> starts_with [SLASH] p = true ->
  (resolve_ix rt host p m = NotFound <-> forall r, In r (r_res rt) -> path_matches r p = false).
Proof. intros Hok Hf Hp. rewrite (index_eq_rule rt host p m Hok Hp). apply rule_404. assumption. Qed.

Theorem ix_405 rt host p m A : router_ok rt -> flat rt -> static_no_any rt -> starts_with [SLASH] p = true ->
  resolve_ix rt host p m = NotAllowed A ->
  (exists r, In r (r_res rt) /\ path_matches r p = true) /\
  (forall r, In r (r_res rt) -> path_matches r p = true -> serves r m = false) /\
  (forall x, In x A <-> exists r, In r (r_res rt) /\ path_matches r p = true /\ In x (methods r)) /\
  (forall m', (exists h mi, resolve_ix rt host p m' = Found h mi) <-> In m' A).
Proof.
  intros Hok Hf Hst Hp. rewrite (index_eq_rule rt host p m Hok Hp). intros H.
  destruct (rule_405 rt host p m A Hf H) as (H1 & H2 & H3). repeat split; try assumption; try apply H3.
  - intros (h & mi & E). rewrite (index_eq_rule rt host p m' Hok Hp) in E.
    apply (rule_405_complete rt host p m A Hf Hst H m'). eauto.
  - intros Hin. rewrite (index_eq_rule rt host p m' Hok Hp).
    apply (rule_405_complete rt host p m A Hf Hst H m'). assumption.
Qed.

(* tables built from add_route / add_static only are flat *)
Definition leaf_op (o : op) : Prop := match o with ORoute _ _ _ | OStatic _ _ => True | _ => False end.

Definition leafy (r : resource) : Prop :=
  leaf r /\ match r with RStatic _ rts => ~ In ANY (map fst rts) | _ => True end.

Lemma leafy_add_route m h r r' : add_route_to m h r = BOk r' -> leafy r'.
Proof.
  destruct r as [p rt|o f pat rt|p rt|p rs ix|d rs ix]; cbn [add_route_to]; intros H; try discriminate;
    destruct (route_lookup m rt); inversion H; (split; [|exact I]); cbn [leaf]; destruct rt; discriminate.
Qed.

Lemma op_leafy o rt rt' : leaf_op o -> Forall leafy (r_res rt) -> build_op o rt = BOk rt' -> Forall leafy (r_res rt').
Proof.
  destruct o as [m path h|prefix h|prefix ops|d ops]; intros Ho Hall Hb; try contradiction; cbn [build_op] in Hb.
  - unfold op_route in Hb. destruct (negb (is_nil path) && negb (starts_with [SLASH] path)); [discriminate|].
    assert (Hnew : forall r r', add_route_to m h r = BOk r' -> Forall leafy (r_res (register r' rt))).
    { intros r r' Ha. unfold register. cbn [r_res]. apply Forall_app. split; [assumption|].
      constructor; [eapply leafy_add_route; eassumption|constructor]. }
    destruct (rev (r_res rt)) as [|y t] eqn:Erev.
    + destruct (new_resource path) as [r|e]; [|discriminate].
      destruct (add_route_to m h r) as [r'|e] eqn:Ea; [|discriminate]. inversion Hb; subst. eapply Hnew; eassumption.
    + destruct (raw_match y path).
      * destruct (add_route_to m h y) as [r'|e] eqn:Ea; [|discriminate]. inversion Hb; subst. cbn [r_res].
        rewrite (replace_last_spec _ y t r' Erev). destruct (rev_last_split _ _ _ Erev) as [Hl _].
        rewrite Hl in Hall. apply Forall_app in Hall. destruct Hall as [H1 _]. apply Forall_app. split; [exact H1|].
        constructor; [eapply leafy_add_route; eassumption|constructor].
      * destruct (new_resource path) as [r|e]; [|discriminate].
        destruct (add_route_to m h r) as [r'|e] eqn:Ea; [|discriminate]. inversion Hb; subst. eapply Hnew; eassumption.
  - unfold op_static in Hb. destruct (negb (starts_with [SLASH] prefix)); [discriminate|].
    destruct (negb (prefix_resource_ok (strip_one_slash prefix))); [discriminate|].
    destruct (requote_path (strip_one_slash prefix)); inversion Hb. unfold register. cbn [r_res].
    apply Forall_app. split; [assumption|]. constructor; [|constructor]. split; [cbn [leaf]; discriminate|].
    cbn [map fst]. intros [H|[H|[]]]; discriminate H.
Qed.

Lemma fold_leafy ops : Forall leaf_op ops -> forall rt rt', Forall leafy (r_res rt) ->
  fold_ops build_op ops rt = BOk rt' -> Forall leafy (r_res rt').
Proof.
  induction 1 as [|o ops Ho _ IH]; intros rt rt' Hall H; cbn [fold_ops] in H.
  - inversion H; subst. assumption.
  - destruct (build_op o rt) as [rt1|e] eqn:E; [|discriminate]. eapply IH; [|exact H]. eapply op_leafy; eassumption.
Qed.

Theorem leaf_ops_flat ops rt : Forall leaf_op ops -> build_app ops = BOk rt -> flat rt /\ static_no_any rt.
Proof.
  intros Hops Hb. unfold build_app in Hb.
  destruct (fold_ops build_op ops empty_router) as [rt0|e] eqn:E; [|discriminate]. inversion Hb; subst rt.
  assert (H0 : Forall leafy (r_res rt0)) by (eapply (fold_leafy ops Hops empty_router rt0); [constructor|exact E]).
  assert (H1 : Forall leafy (r_res (freeze rt0))).
  { unfold freeze. cbn [r_res]. apply Forall_forall. intros r Hr. apply in_map_iff in Hr.
    destruct Hr as (x & <- & Hx). rewrite Forall_forall in H0. specialize (H0 x Hx).
    destruct x as [[|c p] rts|o f pat rts|p rts|p rs ix|d rs ix]; exact H0. }
  rewrite Forall_forall in H1. split.
  - apply Forall_forall. intros r Hr. apply H1. exact Hr.
  - intros q rts Hin. apply (H1 _ Hin).
Qed.

(* ---- strings used by witnesses and examples *)

Definition s_GET : str := [71; 69; 84].
Definition s_POST : str := [80; 79; 83; 84].
Definition s_DELETE : str := [68; 69; 76; 69; 84; 69].
Definition s_sx : str := [47; 115; 47; 120].            (* /s/x *)
Definition s_s : str := [47; 115].                      (* /s *)
Definition s_x : str := [47; 120].                      (* /x *)
Definition s_sy : str := [47; 115; 47; 121].            (* /s/y *)

(* parent: GET /s/x ; sub-application at /s: POST /x *)
Definition capture_ops : list op :=
  [ORoute s_GET s_sx 1; OSub s_s [ORoute s_POST s_x 2]].

(* 405 for DELETE /s/x lists POST only, although GET /s/x is served *)
Theorem allow_incomplete_witness :
  exists rt A h mi, build_app capture_ops = BOk rt /\
    resolve_ix rt None s_sx s_DELETE = NotAllowed A /\
    resolve_ix rt None s_sx s_GET = Found h mi /\ ~ In s_GET A.
Proof.
  destruct (build_app capture_ops) as [rt|e] eqn:E; [|vm_compute in E; discriminate].
  exists rt, [s_POST], 1, []. split; [reflexivity|].
  vm_compute in E. inversion E; subst rt. clear E.
  split; [vm_compute; reflexivity|]. split; [vm_compute; reflexivity|].
  intros [H|[]]. discriminate H.
Qed.

(* static /s registered before the sub-application at /s: POST /s/y -> 404 although GET /s/y is served *)
Definition capture404_ops : list op := [OStatic s_s 1; OSub s_s [ORoute s_GET s_x 2]].

Theorem notfound_although_matched_witness :
  exists rt h mi, build_app capture404_ops = BOk rt /\
    resolve_ix rt None s_sy s_POST = NotFound /\ resolve_ix rt None s_sy s_GET = Found h mi.
Proof.
  destruct (build_app capture404_ops) as [rt|e] eqn:E; [|vm_compute in E; discriminate].
  exists rt, 1, [(FILENAME, [121])]. split; [reflexivity|].
  vm_compute in E. inversion E; subst rt. clear E.
  split; vm_compute; reflexivity.
Qed.

(* /{a}-{b} : values free of '/', '{', '}' that do not come back *)
Definition t_a_b : str := [47; 123; 97; 125; 45; 123; 98; 125].
Definition vals_ab : list (str * str) := [([97], [120]); ([98], [121; 45; 122])].      (* a = x, b = y-z *)

Theorem url_for_ambiguous_witness :
  exists pat u d, parse_template t_a_b = Some pat /\ format_items pat vals_ab = Some u /\
    memN PCT u = false /\ match_items pat u = Some d /\ unquote_dict d <> vals_ab.
Proof.
  exists [Lit [47]; Hole [97] CGood 1%nat; Lit [45]; Hole [98] CGood 1%nat],
         [47; 120; 45; 121; 45; 122], [([97], [120; 45; 121]); ([98], [122])].
  repeat split; try (vm_compute; reflexivity). vm_compute. discriminate.
Qed.

(* /a b/{x} : the literal is stored as /a%20b ; the produced URL /a%20b/1 reaches the router as the
   decoded path_safe "/a b/1", which the stored pattern does not match *)
Definition t_ab_x : str := [47; 97; 32; 98; 47; 123; 120; 125].
Definition u_ab_1 : str := [47; 97; 37; 50; 48; 98; 47; 49].           (* /a%20b/1 *)
Definition ps_ab_1 : str := [47; 97; 32; 98; 47; 49].                   (* /a b/1 = yarl path_safe of it *)

Theorem url_for_requoted_witness :
  exists pat, parse_template t_ab_x = Some pat /\ format_items pat [([120], [49])] = Some u_ab_1 /\
    match_items pat ps_ab_1 = None.
Proof.
  exists [Lit [47; 97; 37; 50; 48; 98; 47]; Hole [120] CGood 1%nat].
  repeat split; vm_compute; reflexivity.
Qed.

(* ---- non-vacuity *)

Definition ex_ops : list op :=
  [ORoute s_GET [47; 97; 47; 98] 1;                                 (* GET /a/b *)
   ORoute s_POST [47; 97; 47; 123; 120; 125] 2;                      (* POST /a/{x} *)
   OSub s_s [ORoute s_GET s_x 3; OSub s_s [ORoute s_GET [47; 123; 121; 125] 4]]].   (* /s: GET /x ; /s/s: GET /{y} *)

Example ex_builds_and_resolves :
  exists rt, build_app ex_ops = BOk rt /\
    resolve_ix rt None [47; 115; 47; 115; 47; 113] s_GET = Found 4 [([121], [113])] /\   (* GET /s/s/q *)
    resolve_ix rt None [47; 97; 47; 98] s_POST = Found 2 [([120], [98])] /\           (* POST /a/b *)
    resolve_ix rt None [47; 97; 47; 98] s_DELETE = NotAllowed [s_GET; s_POST].
Proof.
  destruct (build_app ex_ops) as [rt|e] eqn:E; [|vm_compute in E; discriminate].
  exists rt. split; [reflexivity|]. vm_compute in E. inversion E; subst rt. clear E.
  repeat split; vm_compute; reflexivity.
Qed.

Example ex_flat_ops : Forall leaf_op [ORoute s_GET [47; 97; 47; 98] 1; OStatic s_s 2].
Proof. repeat constructor. Qed.

Example ex_good_for :
  let pat := [Lit [47; 97; 47]; Hole [120] CGood 1%nat; Lit [47; 98]; Hole [121] CDigit 1%nat] in
  let vals := [([120], [113; 45; 113]); ([121], [52; 50])] in
  good_for pat vals /\ plain_values pat vals /\ lits_no_pct pat.
Proof.
  cbn zeta. split; [|split].
  - cbn [good_for]. repeat split; try reflexivity; vm_compute; auto.
  - intros n [<-|[<-|[]]]; eexists; split; vm_compute; reflexivity.
  - cbn [lits_no_pct]. repeat split; reflexivity.
Qed.
