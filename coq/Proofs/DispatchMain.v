(* Corollaries that combine the pieces, witnesses and non-vacuity examples for C14. *)
From AV Require Import Lib.Base Lib.Utf8 Generated.DispatchGen Model.Dispatch
  Proofs.DispatchStrings Proofs.DispatchRule Proofs.DispatchIndex Proofs.DispatchStatus
  Proofs.DispatchTemplate Proofs.DispatchRedirect.
Open Scope N_scope.

Theorem built_dispatch_follows_rule ops rt host p m :
  Forall op_clean ops -> build_app ops = BOk rt ->
  starts_with [SLASH] p = true ->
  resolve_ix rt host p m = resolve_rule rt host p m.
Proof. intros Hc Hb Hp. apply index_eq_rule; [eapply build_app_ok; eassumption|assumption]. Qed.

(* ---- construction keeps tables well formed (every leaf has a route, statics list GET/HEAD) *)

Lemma reindex_loop_Forall2 f : forall l i ix rs' ix',
  reindex_loop f l i ix = BOk (rs', ix') -> Forall2 (fun r r' => f r = BOk r') l rs'.
Proof.
  induction l as [|r l IH]; intros i ix rs' ix' H; cbn [reindex_loop] in H.
  - inversion H. constructor.
  - destruct (if is_dom r then BOk ix else idx_remove (index_key r) i ix) as [ix1|e]; [|discriminate].
    destruct (f r) as [r'|e] eqn:Hf; [|discriminate].
    destruct (reindex_loop f l (S i) (if is_dom r then ix1 else idx_append (index_key r') i ix1)) as [[l'' ix2]|e] eqn:Hl; [|discriminate].
    inversion H; subst. constructor; [exact Hf|eapply IH; exact Hl].
Qed.

Lemma add_prefix_wf pfx : forall r r', wf_res r -> add_prefix pfx r = BOk r' -> wf_res r'.
Proof.
  induction r using resource_ind'; intros r' Hwf Hadd; cbn [add_prefix] in Hadd.
  - inversion Hwf; subst. inversion Hadd. constructor. assumption.
  - inversion Hwf; subst. inversion Hadd. constructor. assumption.
  - inversion Hwf; subst. inversion Hadd. constructor; assumption.
  - inversion Hwf as [| | |? ? ? Hrs|]; subst.
    destruct (reindex_loop (add_prefix pfx) rs 0%nat ix) as [[rs' ix']|e] eqn:Hl; [|discriminate].
    inversion Hadd; subst r'. constructor.
    eapply Forall2_Forall_r; [exact (reindex_loop_Forall2 _ _ _ _ _ _ Hl)| |exact Hrs].
    rewrite Forall_forall in *. intros a Ha b Hab Hpa. apply (H a Ha b Hpa Hab).
  - inversion Hwf as [| | | |? ? ? Hrs]; subst.
    destruct (reindex_loop (add_prefix pfx) rs 0%nat ix) as [[rs' ix']|e] eqn:Hl; [|discriminate].
    inversion Hadd; subst r'. constructor.
    eapply Forall2_Forall_r; [exact (reindex_loop_Forall2 _ _ _ _ _ _ Hl)| |exact Hrs].
    rewrite Forall_forall in *. intros a Ha b Hab Hpa. apply (H a Ha b Hpa Hab).
Qed.

Lemma freeze_wf rt : wf_router rt -> wf_router (freeze rt).
Proof.
  unfold wf_router, freeze. cbn [r_res]. intros H. apply Forall_forall. intros r Hr. apply in_map_iff in Hr.
  destruct Hr as (x & <- & Hx). rewrite Forall_forall in H. specialize (H x Hx).
  destruct x as [[|c p] rts|o f pat rts|p rts|p rs ix|d rs ix]; try exact H. inversion H; subst. constructor. assumption.
Qed.

Lemma add_route_wf m h r r' : add_route_to m h r = BOk r' -> wf_res r'.
Proof.
  destruct r as [p rt|o f pat rt|p rt|p rs ix|d rs ix]; cbn [add_route_to]; intros H; try discriminate;
    destruct (route_lookup m rt); inversion H; constructor; destruct rt; discriminate.
Qed.

Lemma register_wf r rt : wf_router rt -> wf_res r -> wf_router (register r rt).
Proof. unfold wf_router, register. cbn [r_res]. intros H Hr. apply Forall_app. split; [assumption|constructor; [assumption|constructor]]. Qed.

Lemma op_route_wf m path h rt rt' : wf_router rt -> op_route m path h rt = BOk rt' -> wf_router rt'.
Proof.
  intros Hall Hb. unfold op_route in Hb. destruct (negb (is_nil path) && negb (starts_with [SLASH] path)); [discriminate|].
  destruct (rev (r_res rt)) as [|y t] eqn:Erev.
  - destruct (new_resource path) as [r|e]; [|discriminate].
    destruct (add_route_to m h r) as [r'|e] eqn:Ea; [|discriminate]. inversion Hb; subst.
    apply register_wf; [assumption|eapply add_route_wf; eassumption].
  - destruct (raw_match y path).
    + destruct (add_route_to m h y) as [r'|e] eqn:Ea; [|discriminate]. inversion Hb; subst. unfold wf_router in *. cbn [r_res].
      rewrite (replace_last_spec _ y t r' Erev). destruct (rev_last_split _ _ _ Erev) as [Hl _].
      rewrite Hl in Hall. apply Forall_app in Hall. destruct Hall as [H1 _]. apply Forall_app. split; [exact H1|].
      constructor; [eapply add_route_wf; eassumption|constructor].
    + destruct (new_resource path) as [r|e]; [|discriminate].
      destruct (add_route_to m h r) as [r'|e] eqn:Ea; [|discriminate]. inversion Hb; subst.
      apply register_wf; [assumption|eapply add_route_wf; eassumption].
Qed.

Lemma op_static_wf prefix h rt rt' : wf_router rt -> op_static prefix h rt = BOk rt' -> wf_router rt'.
Proof.
  intros Hall Hb. unfold op_static in Hb. destruct (negb (starts_with [SLASH] prefix)); [discriminate|].
  destruct (negb (prefix_resource_ok (strip_one_slash prefix))); [discriminate|].
  destruct (requote_path (strip_one_slash prefix)); inversion Hb. apply register_wf; [assumption|].
  constructor; [discriminate|]. cbn [map fst]. intros [H|[H|[]]]; discriminate H.
Qed.

Lemma op_subapp_wf prefix sub rt rt' : wf_router rt -> wf_router sub -> op_subapp prefix sub rt = BOk rt' -> wf_router rt'.
Proof.
  intros Hok Hsub H. unfold op_subapp in H.
  destruct (is_nil (rstrip SLASH prefix)); [discriminate|].
  destruct (negb (prefix_resource_ok (rstrip SLASH prefix))); [discriminate|].
  destruct (requote_path (rstrip SLASH prefix)); [|discriminate].
  destruct (reindex (rstrip SLASH prefix) sub) as [sub'|e] eqn:Er; [|discriminate].
  inversion H; subst rt'. apply register_wf; [assumption|]. constructor.
  apply (freeze_wf sub'). unfold reindex in Er.
  destruct (reindex_loop (add_prefix (rstrip SLASH prefix)) (r_res sub) 0%nat (r_ix sub)) as [[rs' ix']|e] eqn:Hl; [|discriminate].
  inversion Er; subst sub'. unfold wf_router. cbn [r_res].
  eapply Forall2_Forall_r; [exact (reindex_loop_Forall2 _ _ _ _ _ _ Hl)| |exact Hsub].
  apply Forall_forall. intros a _ b Hab Hpa. eapply add_prefix_wf; eassumption.
Qed.

Lemma op_domain_wf d sub rt rt' : wf_router rt -> wf_router sub -> op_domain d sub rt = BOk rt' -> wf_router rt'.
Proof.
  intros Hok Hsub H. unfold op_domain in H. inversion H; subst rt'. apply register_wf; [assumption|].
  constructor. apply (freeze_wf sub Hsub).
Qed.

Lemma fold_ops_wf ops : Forall (fun o => forall rt rt', wf_router rt -> build_op o rt = BOk rt' -> wf_router rt') ops ->
  forall rt rt', wf_router rt -> fold_ops build_op ops rt = BOk rt' -> wf_router rt'.
Proof.
  induction 1 as [|o ops Ho _ IH]; intros rt rt' Hok H; cbn [fold_ops] in H.
  - inversion H; subst. assumption.
  - destruct (build_op o rt) as [rt1|e] eqn:E; [|discriminate]. eapply IH; [|exact H]. eapply Ho; eassumption.
Qed.

Lemma empty_wf : wf_router empty_router.
Proof. constructor. Qed.

Lemma build_op_wf : forall o rt rt', wf_router rt -> build_op o rt = BOk rt' -> wf_router rt'.
Proof.
  induction o using op_ind'; intros rt rt' Hok Hb; cbn [build_op] in Hb.
  - eapply op_route_wf; eassumption.
  - eapply op_static_wf; eassumption.
  - destruct (fold_ops build_op ops empty_router) as [sub|e] eqn:E; [|discriminate].
    eapply op_subapp_wf; [exact Hok| |exact Hb]. eapply fold_ops_wf; [exact H|apply empty_wf|exact E].
  - destruct (fold_ops build_op ops empty_router) as [sub|e] eqn:E; [|discriminate].
    eapply op_domain_wf; [exact Hok| |exact Hb]. eapply fold_ops_wf; [exact H|apply empty_wf|exact E].
Qed.

Theorem build_app_wf ops rt : build_app ops = BOk rt -> wf_router rt.
Proof.
  unfold build_app. intros H. destruct (fold_ops build_op ops empty_router) as [rt0|e] eqn:E; [|discriminate].
  inversion H; subst rt. apply freeze_wf. eapply fold_ops_wf; [|apply empty_wf|exact E].
  apply Forall_forall. intros o _. apply build_op_wf.
Qed.

(* ---- 404 / 405 for the code model (index walk), through any nesting of sub-applications *)

Theorem ix_sweep rt host p : router_ok rt -> wf_router rt ->
  starts_with [SLASH] p = true ->
  sweep_ok (fun m => resolve_ix rt host p m).
Proof.
  intros Hok Hwf Hp. destruct (rule_sweep rt host p Hwf) as [S1 S2]. split.
  - intros m Hm m'. rewrite (index_eq_rule rt host p m' Hok Hp). rewrite (index_eq_rule rt host p m Hok Hp) in Hm. eauto.
  - intros m A Hm m'. rewrite (index_eq_rule rt host p m' Hok Hp). rewrite (index_eq_rule rt host p m Hok Hp) in Hm. eauto.
Qed.

Theorem built_sweep ops rt host p : Forall op_clean ops -> build_app ops = BOk rt ->
  starts_with [SLASH] p = true ->
  sweep_ok (fun m => resolve_ix rt host p m).
Proof.
  intros Hc Hb Hp. apply ix_sweep; [eapply build_app_ok; eassumption|eapply build_app_wf; eassumption|assumption].
Qed.

(* ---- every literal that parse_template produces is matched in the path_safe form of its formatter text *)

Definition lit_decoded (it : item) : Prop :=
  match it with Lit f mt => mt = path_safe_dec f | Hole _ _ _ => True end.

Lemma parse_aux_decoded f : forall lit s its, parse_aux f lit s = Some its -> Forall lit_decoded its.
Proof.
  induction f as [|f IH]; intros lit s its H; [discriminate|]. cbn [parse_aux] in H.
  destruct s as [|c s'].
  - destruct (lit_item_shape lit its H) as [->|[q ->]]; repeat constructor.
  - destruct (c =? 125); [discriminate|]. destruct (c =? 123).
    + destruct (take_until_close s') as [[body rest]|]; [|discriminate].
      destruct (lit_item lit) as [l|] eqn:El; [|discriminate].
      destruct (parse_hole body) as [h|] eqn:Eh; [|discriminate].
      destruct (parse_aux f [] rest) as [its'|] eqn:Ep; [|discriminate]. inversion H; subst its.
      destruct (parse_hole_is_hole body h Eh) as (n & cl & mn & ->).
      apply Forall_app. split.
      * destruct (lit_item_shape lit l El) as [->|[q ->]]; repeat constructor.
      * constructor; [exact I|eapply IH; exact Ep].
    + eapply IH. exact H.
Qed.

Theorem parse_literals_decoded path its : parse_template path = Some its -> Forall lit_decoded its.
Proof.
  unfold parse_template. destruct (parse_aux (S (length path)) [] path) as [its0|] eqn:Ep; [|discriminate].
  destruct (nodup_str (hole_names its0)); intros H; inversion H; subst. eapply parse_aux_decoded. exact Ep.
Qed.

(* ---- strings used by witnesses and examples *)

Definition s_GET : str := [71; 69; 84].
Definition s_POST : str := [80; 79; 83; 84].
Definition s_DELETE : str := [68; 69; 76; 69; 84; 69].
Definition s_sx : str := [47; 115; 47; 120].            (* /s/x *)
Definition s_s : str := [47; 115].                      (* /s *)
Definition s_x : str := [47; 120].                      (* /x *)
Definition s_sy : str := [47; 115; 47; 121].            (* /s/y *)


(* ---- the former refutation witnesses, now answered as the property demands *)

(* parent: GET /s/x ; sub-application at /s: POST /x *)
Definition capture_ops : list op :=
  [ORoute s_GET s_sx 1; OSub s_s [ORoute s_POST s_x 2]].

Example allow_complete_example :
  exists rt, build_app capture_ops = BOk rt /\
    resolve_ix rt None s_sx s_DELETE = NotAllowed [s_GET; s_POST] /\
    resolve_ix rt None s_sx s_GET = Found 1 [] /\ resolve_ix rt None s_sx s_POST = Found 2 [].
Proof.
  destruct (build_app capture_ops) as [rt|e] eqn:E; [|vm_compute in E; discriminate].
  exists rt. split; [reflexivity|]. vm_compute in E. inversion E; subst rt. clear E.
  repeat split; vm_compute; reflexivity.
Qed.

(* static /s registered before the sub-application at /s *)
Definition capture404_ops : list op := [OStatic s_s 1; OSub s_s [ORoute s_GET s_x 2]].
Definition s_HEAD : str := [72; 69; 65; 68].

Example static_before_subapp_example :
  exists rt, build_app capture404_ops = BOk rt /\
    resolve_ix rt None s_sy s_POST = NotAllowed [s_GET; s_HEAD] /\
    resolve_ix rt None s_sy s_GET = Found 1 [(FILENAME, [121])].
Proof.
  destruct (build_app capture404_ops) as [rt|e] eqn:E; [|vm_compute in E; discriminate].
  exists rt. split; [reflexivity|]. vm_compute in E. inversion E; subst rt. clear E.
  split; vm_compute; reflexivity.
Qed.

(* /a b/{x} : formatter /a%20b/{x}, pattern literal "/a b/"; the URL /a%20b/1 reaches the router as
   its path_safe "/a b/1" and resolves back to x = 1 *)
Definition t_ab_x : str := [47; 97; 32; 98; 47; 123; 120; 125].
Definition u_ab_1 : str := [47; 97; 37; 50; 48; 98; 47; 49].           (* /a%20b/1 *)
Definition ps_ab_1 : str := [47; 97; 32; 98; 47; 49].                   (* /a b/1 *)

Example requoted_roundtrip_example :
  exists pat, parse_template t_ab_x = Some pat /\ format_items pat [([120], [49])] = Some u_ab_1 /\
    path_safe_dec u_ab_1 = ps_ab_1 /\
    option_map unquote_dict (match_items pat ps_ab_1) = Some [([120], [49])] /\
    index_key_of (formatter_of pat) = [47; 97; 32; 98].
Proof.
  exists [Lit [47; 97; 37; 50; 48; 98; 47] [47; 97; 32; 98; 47]; Hole [120] CGood 1%nat].
  repeat split; vm_compute; reflexivity.
Qed.

(* an application with an add_domain sub-application can be mounted under a prefix *)
Definition s_p : str := [47; 112].
Definition s_z : str := [47; 122].
Definition s_pz : str := [47; 112; 47; 122].
Definition s_host : str := [101; 120; 46; 99; 111; 109].                (* ex.com *)
Definition nested_domain_ops : list op := [OSub s_p [ODom s_host [ORoute s_GET s_z 1]]].

Example nested_domain_example :
  exists rt, build_app nested_domain_ops = BOk rt /\
    resolve_ix rt (Some s_host) s_pz s_GET = Found 1 [] /\ resolve_ix rt None s_pz s_GET = NotFound.
Proof.
  destruct (build_app nested_domain_ops) as [rt|e] eqn:E; [|vm_compute in E; discriminate].
  exists rt. split; [reflexivity|]. vm_compute in E. inversion E; subst rt. clear E.
  split; vm_compute; reflexivity.
Qed.

Example ex_ops_clean : Forall op_clean capture_ops /\ Forall op_clean nested_domain_ops.
Proof. split; repeat constructor. Qed.

(* a plain resource whose path is written with an escape is compared and indexed as written (b7a1f19):
   the path "/a%20b" (yarl's path_safe of the malformed target "/a%2%30b", not a fixed point of
   path_safe) finds it through the index *)
Definition s_a20b : str := [47; 97; 37; 50; 48; 98].                     (* /a%20b *)

Example plain_key_as_written_example :
  exists rt, build_app [ORoute s_POST s_a20b 1] = BOk rt /\ path_safe_dec s_a20b <> s_a20b /\
    resolve_ix rt None s_a20b s_POST = Found 1 [] /\ resolve_ix rt None s_a20b s_GET = NotAllowed [s_POST].
Proof.
  destruct (build_app [ORoute s_POST s_a20b 1]) as [rt|e] eqn:E; [|vm_compute in E; discriminate].
  exists rt. split; [reflexivity|]. vm_compute in E. inversion E; subst rt. clear E.
  split; [vm_compute; discriminate|]. split; vm_compute; reflexivity.
Qed.

(* /{a}-{b} : values free of '/', '{', '}' that do not come back *)
Definition t_a_b : str := [47; 123; 97; 125; 45; 123; 98; 125].
Definition vals_ab : list (str * str) := [([97], [120]); ([98], [121; 45; 122])].      (* a = x, b = y-z *)

Theorem url_for_ambiguous_witness :
  exists pat u d, parse_template t_a_b = Some pat /\ format_items pat vals_ab = Some u /\
    memN PCT u = false /\ match_items pat u = Some d /\ unquote_dict d <> vals_ab.
Proof.
  exists [Lit [47] [47]; Hole [97] CGood 1%nat; Lit [45] [45]; Hole [98] CGood 1%nat],
         [47; 120; 45; 121; 45; 122], [([97], [120; 45; 121]); ([98], [122])].
  repeat split; try (vm_compute; reflexivity). vm_compute. discriminate.
Qed.

(* ---- non-vacuity *)

Definition ex_ops : list op :=
  [ORoute s_GET [47; 97; 47; 98] 1;                                 (* GET /a/b *)
   ORoute s_POST [47; 97; 47; 123; 120; 125] 2;                      (* POST /a/{x} *)
   OSub s_s [ORoute s_GET s_x 3; OSub s_s [ORoute s_GET [47; 123; 121; 125] 4]]].   (* /s: GET /x ; /s/s: GET /{y} *)

Example ex_builds_and_resolves :
  exists rt, build_app ex_ops = BOk rt /\
    resolve_ix rt None [47; 115; 47; 115; 47; 113] s_GET = Found 4 [([121], [113])] /\   (* GET /s/s/q *)
    resolve_ix rt None [47; 97; 47; 98] s_POST = Found 2 [([120], [98])] /\           (* POST /a/b *)
    resolve_ix rt None [47; 97; 47; 98] s_DELETE = NotAllowed [s_GET; s_POST].
Proof.
  destruct (build_app ex_ops) as [rt|e] eqn:E; [|vm_compute in E; discriminate].
  exists rt. split; [reflexivity|]. vm_compute in E. inversion E; subst rt. clear E.
  repeat split; vm_compute; reflexivity.
Qed.

Example ex_ops_ex_clean : Forall op_clean ex_ops.
Proof. repeat constructor. Qed.

Example ex_good_for :
  let pat := [Lit [47; 97; 47] [47; 97; 47]; Hole [120] CGood 1%nat; Lit [47; 98] [47; 98]; Hole [121] CDigit 1%nat] in
  let vals := [([120], [113; 45; 113]); ([121], [52; 50])] in
  good_for pat vals /\ plain_values pat vals /\ lits_no_pct pat.
Proof.
  cbn zeta. split; [|split].
  - cbn [good_for]. repeat split; try reflexivity; vm_compute; auto.
  - intros n [<-|[<-|[]]]; eexists; split; vm_compute; reflexivity.
  - cbn [lits_no_pct]. repeat split; reflexivity.
Qed.
