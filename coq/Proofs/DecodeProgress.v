(* C09: progress for Content-Length and until-EOF bodies (chunked bodies: refuted, see Props/C09.v).

   No reachable state has the consumer's buffer empty while the connection is open and either the
   parser holds unprocessed input (has_more) or reading is paused: whenever the buffer runs empty the
   last _read_nowait_chunk resumed the parser, and the parser only stops early (PENDING / paused) right
   after it put bytes into the buffer.

   Codec law used:  an output-less decompress_sync call leaves data_available false
       hstep h x m = Some (Some (h', [])) -> havail h' = false
   (ZLibDecompressor: `_last_empty`; validated by sampling on the real codecs in harness/c09.py). *)
From AV Require Import Lib.Base Generated.DecodeGen Model.Decode Proofs.DecodeBound.
From Coq Require Import ZifyBool ZifyN.
Ltac Zify.zify_post_hook ::= Z.to_euclidean_division_equations.
Open Scope N_scope.

Lemma snoc_not_nil {A} (l : list A) (x : A) : l ++ [x] <> [].
Proof. destruct l; discriminate. Qed.

Section Progress.
  Variable H : Type.
  Variable hnew : N -> H.
  Variable hstep : H -> bytes -> N -> option (option (H * bytes)).
  Variable havail : H -> bool.
  Variable heof : H -> bool.
  Variable hflush : H -> option bytes.
  Hypothesis avail_law : forall h x m h', hstep h x m = Some (Some (h', [])) -> havail h' = false.

  Notation st := (st H).
  Notation sys := (sys H).

  Definition nonempty (s : st) : Prop := buf (re s) <> [].
  Definition Pg (s : st) : Prop := rpaused (pr s) = true -> nonempty s.
  Definition Pt (s : st) : Prop := connected (pr s) = true -> tpaused (pr s) = true -> rpaused (pr s) = true.
  Definition Ps (s : st) : Prop := splits (re s) = None.
  Definition SzP (s : st) : Prop := rsize (re s) = lenN (concat (buf (re s))).
  (* what a payload-parser function may change *)
  Definition Q (s s' : st) : Prop :=
    (Pg s -> Pg s') /\ (Pt s -> Pt s') /\ (Ps s -> Ps s') /\ (SzP s -> SzP s') /\ (nonempty s -> nonempty s') /\
    cf s' = cf s /\ low (re s') = low (re s) /\ ptyp (pa s') = ptyp (pa s) /\
    connected (pr s') = connected (pr s) /\ parser_alive (pr s') = parser_alive (pr s) /\
    pp_present (pr s') = pp_present (pr s) /\ has_more (pr s') = has_more (pr s) /\ closing (pr s') = closing (pr s).

  Lemma Q_refl s : Q s s.
  Proof. unfold Q. intuition. Qed.
  Lemma Q_trans a b c : Q a b -> Q b c -> Q a c.
  Proof. unfold Q. intros (A1&A2&A3&A4&A5&A6&A7&A8&A9&A10&A11&A12&A13) (B1&B2&B3&B4&B5&B6&B7&B8&B9&B10&B11&B12&B13). repeat split; try congruence; auto. Qed.

  Ltac inv_some := repeat match goal with Hs : Some _ = Some _ |- _ => inversion Hs; clear Hs; subst end.
  Ltac crush := repeat split; intros; subst; inv_some; try reflexivity; try discriminate; try tauto; try congruence; try lia;
                try (apply snoc_not_nil); intuition (try congruence; try lia; try (apply snoc_not_nil)).
  Ltac bust s :=
    destruct s as [cg p q d rr fd]; destruct p as [co tp rp al ppr hm cl]; destruct q as [pt pl ppz cs csz ctl mo ep pd ntr btr];
    destruct d as [cm en dh dsz dst]; destruct rr as [bf rs lo hi lc hc eo ex tt cu sp w dl].
  Ltac unq := unfold Q in *; unfold Pg, Pt, Ps, SzP, nonempty in *.

  Lemma db_feed_Q s chunk s' r :
    db_feed H hnew hstep havail s chunk = (s', r) -> Q s s' /\ (r = FMore true -> nonempty s').
  Proof.
    bust s. unq. unfold db_feed. cbn. destruct cm; cbn.
    - match goal with |- context [hstep ?a ?b ?m] => destruct (hstep a b m) as [[[h2 out]|]|] eqn:Eh end.
      + destruct out as [|o0 out]; cbn.
        * pose proof (avail_law _ _ _ _ Eh) as Ha. rewrite Ha. intros [= <- <-]; cbn. crush.
        * unfold rd_feed; cbn. destruct eo; cbn; [intros [= <- <-]; cbn; crush|].
          unfold wake_ok, dg_feed_pause; cbn.
          destruct w; cbn; match goal with |- context [if ?x then _ else _] => destruct x end; cbn; intros [= <- <-]; cbn;
            rewrite ?lenN_concat_snoc; destruct co; cbn; crush.
      + intros [= <- <-]; cbn. crush.
      + intros [= <- <-]; cbn. crush.
    - unfold rd_feed; cbn. destruct eo; cbn; [intros [= <- <-]; cbn; crush|].
      destruct chunk as [|c0 chunk]; cbn; [intros [= <- <-]; cbn; crush|].
      unfold wake_ok, dg_feed_pause; cbn.
      destruct w; cbn; match goal with |- context [if ?x then _ else _] => destruct x end; cbn; intros [= <- <-]; cbn;
        rewrite ?lenN_concat_snoc; destruct co; cbn; crush.
  Qed.

  Lemma db_feed_eof_Q s s' r :
    db_feed_eof H heof hflush s = (s', r) -> Q s s' /\ (forall e, r = Some e -> is_framing e = false).
  Proof.
    bust s. unq. unfold db_feed_eof, rd_feed_eof, wake_ok. cbn.
    destruct cm; cbn; [destruct (hflush dh) as [fl|]; [destruct (isnil fl); cbn; [destruct ((0 <? dsz) && (en =? 2) && negb (heof dh)); cbn|]|]|];
      destruct w; cbn; intros [= <- <-]; cbn; destruct co; cbn; crush.
  Qed.

  Lemma upd_Q s f : (forall q, ptyp (f q) = ptyp q) -> Q s (upd_pa H s f) /\ re (upd_pa H s f) = re s /\ pa (upd_pa H s f) = f (pa s).
  Proof. intros Hk. bust s. unq. unfold upd_pa. cbn. pose proof (Hk (mkPp pt pl ppz cs csz ctl mo ep pd ntr btr)) as K2. cbn in *. rewrite K2. crush. Qed.
  Ltac kt := let q := fresh "q" in (intro q; destruct q; cbn; auto).

  Lemma exn_Q s e : Q s (rd_set_exn H s e) /\ pr (rd_set_exn H s e) = pr s.
  Proof. bust s. unq. unfold rd_set_exn. cbn. crush. Qed.

  Lemma drain_Q f : forall s s' r,
    drain H hnew hstep havail f s = (s', r) ->
    Q s s' /\ ((more (pa s) = true -> nonempty s) -> r = DPaused -> nonempty s') /\ (forall e, r = DErr e -> is_framing e = false).
  Proof.
    induction f as [|f IH]; intros s s' r; cbn [drain].
    - intros [= <- <-]. split; [apply Q_refl|]. split; [intros _ Xd; discriminate Xd|]. intros e [= <-]; reflexivity.
    - destruct (more (pa s)) eqn:Em.
      + destruct (ppaused (pa s)) eqn:Ep.
        * intros [= <- <-]. destruct (upd_Q s (fun q => pa_paused q false)) as (Q1 & R1 & _); [kt|].
          split; [exact Q1|]. split; [|discriminate]. intros Hm _. unfold nonempty in *. rewrite R1. auto.
        * destruct (db_feed H hnew hstep havail s []) as [s1 [e|m]] eqn:Ed; destruct (db_feed_Q _ _ _ _ Ed) as (Q1 & N1).
          -- intros [= <- <-]. split; [exact Q1|]. split; [intros _ Xd; discriminate Xd|]. intros e' [= <-]. eapply db_feed_err; eauto.
          -- destruct (upd_Q s1 (fun q => pa_more q m)) as (Q2 & R2 & P2); [kt|].
             intros Hd. apply IH in Hd. destruct Hd as (Q3 & N3 & E3).
             split; [eapply Q_trans; [exact Q1|eapply Q_trans; [exact Q2|exact Q3]]|]. split; [|exact E3].
             intros _. apply N3. rewrite P2. destruct (pa s1); cbn. intros ->. unfold nonempty in *. rewrite R2. auto.
      + intros [= <- <-]. split; [apply Q_refl|]. split; [intros _ Xd; discriminate Xd|]. intros e [=].
  Qed.

  Definition nf (r : pres) : Prop := forall e, r = PRaise e -> is_framing e = false.

  Lemma finish_eof_Q s rest s' r : finish_eof H heof hflush s rest = (s', r) -> Q s s' /\ r <> PPending /\ nf r.
  Proof.
    unfold finish_eof. destruct (db_feed_eof H heof hflush s) as [s1 [e|]] eqn:Ed; intros [= <- <-];
      destruct (db_feed_eof_Q _ _ _ Ed) as (Q1 & E1); (split; [exact Q1|]); (split; [intro Xd; discriminate Xd|]); unfold nf; intros e' Hq; inversion Hq; subst; auto.
  Qed.

  Lemma len_feed_Q f s c s' r :
    len_feed H hnew hstep havail heof hflush f s c = (s', r) -> Q s s' /\ (r = PPending -> nonempty s') /\ nf r.
  Proof.
    unfold len_feed.
    set (chunk := ctail (pa s) ++ c). set (req := plength (pa s)).
    destruct (upd_Q s (fun q => pa_length (pa_tail q []) (dg_remaining req (lenN chunk)))) as (Q0 & _ & _); [kt|].
    set (s0 := upd_pa H s _) in *.
    destruct (db_feed H hnew hstep havail s0 (take req chunk)) as [s1 [e|m]] eqn:Ed; destruct (db_feed_Q _ _ _ _ Ed) as (Q1 & N1).
    - intros [= <- <-]. split; [eapply Q_trans; [exact Q0|exact Q1]|]. split; [intro Xd; discriminate Xd|]. intros e' [= <-]. eapply db_feed_err; eauto.
    - destruct (upd_Q s1 (fun q => pa_more q m)) as (Q2 & R2 & P2); [kt|].
      set (s2 := upd_pa H s1 _) in *.
      assert (Hm : more (pa s2) = true -> nonempty s2).
      { rewrite P2. destruct (pa s1); cbn. intros ->. unfold nonempty in *. rewrite R2. auto. }
      destruct (drain H hnew hstep havail f s2) as [s3 [| |e]] eqn:Edr; destruct (drain_Q _ _ _ _ Edr) as (Q3 & N3' & E3); pose proof (N3' Hm) as N3.
      + destruct (plength (pa s3) =? 0).
        * intros Hf. destruct (finish_eof_Q _ _ _ _ Hf) as (Q4 & N4 & E4).
          split; [eapply Q_trans; [exact Q0|eapply Q_trans; [exact Q1|eapply Q_trans; [exact Q2|eapply Q_trans; [exact Q3|exact Q4]]]]|].
          split; [intro X; contradiction|exact E4].
        * intros [= <- <-]. split; [eapply Q_trans; [exact Q0|eapply Q_trans; [exact Q1|eapply Q_trans; [exact Q2|exact Q3]]]|].
          split; [intro Xd; discriminate Xd|intros e [=]].
      + intros [= <- <-]. destruct (upd_Q s3 (fun q => pa_tail q (drop req chunk))) as (Q4 & R4 & _); [kt|].
        split; [eapply Q_trans; [exact Q0|eapply Q_trans; [exact Q1|eapply Q_trans; [exact Q2|eapply Q_trans; [exact Q3|exact Q4]]]]|].
        split; [|intros e [=]]. intros _. unfold nonempty in *. rewrite R4. auto.
      + intros [= <- <-]. split; [eapply Q_trans; [exact Q0|eapply Q_trans; [exact Q1|eapply Q_trans; [exact Q2|exact Q3]]]|].
        split; [intro Xd; discriminate Xd|]. intros e' [= <-]. apply E3; reflexivity.
  Qed.

  Lemma eof_feed_Q f s c s' r :
    eof_feed H hnew hstep havail heof hflush f s c = (s', r) -> Q s s' /\ (r = PPending -> nonempty s') /\ nf r.
  Proof.
    unfold eof_feed.
    destruct (db_feed H hnew hstep havail s c) as [s1 [e|m]] eqn:Ed; destruct (db_feed_Q _ _ _ _ Ed) as (Q1 & N1).
    - intros [= <- <-]. split; [exact Q1|]. split; [intro Xd; discriminate Xd|]. intros e' [= <-]. eapply db_feed_err; eauto.
    - destruct (upd_Q s1 (fun q => pa_more q m)) as (Q2 & R2 & P2); [kt|].
      set (s2 := upd_pa H s1 _) in *.
      assert (Hm : more (pa s2) = true -> nonempty s2).
      { rewrite P2. destruct (pa s1); cbn. intros ->. unfold nonempty in *. rewrite R2. auto. }
      destruct (drain H hnew hstep havail f s2) as [s3 [| |e]] eqn:Edr; destruct (drain_Q _ _ _ _ Edr) as (Q3 & N3' & E3); pose proof (N3' Hm) as N3.
      + destruct (eof_pending (pa s3)).
        * destruct (db_feed_eof H heof hflush s3) as [s4 [e|]] eqn:Ede; destruct (db_feed_eof_Q _ _ _ Ede) as (Q4 & E4); intros [= <- <-].
          -- split; [eapply Q_trans; [exact Q1|eapply Q_trans; [exact Q2|eapply Q_trans; [exact Q3|exact Q4]]]|].
             split; [intro Xd; discriminate Xd|]. intros e' [= <-]. apply E4; reflexivity.
          -- destruct (upd_Q s4 (fun q => pa_eofp (pa_done q true) false)) as (Q5 & _ & _); [kt|].
             split; [eapply Q_trans; [exact Q1|eapply Q_trans; [exact Q2|eapply Q_trans; [exact Q3|eapply Q_trans; [exact Q4|exact Q5]]]]|].
             split; [intro Xd; discriminate Xd|intros e [=]].
        * intros [= <- <-]. split; [eapply Q_trans; [exact Q1|eapply Q_trans; [exact Q2|exact Q3]]|]. split; [intro Xd; discriminate Xd|intros e [=]].
      + intros [= <- <-]. split; [eapply Q_trans; [exact Q1|eapply Q_trans; [exact Q2|exact Q3]]|]. split; [auto|intros e [=]].
      + intros [= <- <-]. split; [eapply Q_trans; [exact Q1|eapply Q_trans; [exact Q2|exact Q3]]|].
        split; [intro Xd; discriminate Xd|]. intros e' [= <-]. apply E3; reflexivity.
  Qed.

  Lemma payload_feed_Q f s c s' r :
    ptyp (pa s) <> PChunked -> payload_feed H hnew hstep havail heof hflush f s c = (s', r) ->
    Q s s' /\ (r = PPending -> nonempty s') /\ nf r.
  Proof.
    intros Ht. unfold payload_feed. destruct (ptyp (pa s)); [apply len_feed_Q|contradiction|apply eof_feed_Q].
  Qed.

  Lemma payload_feed_eof_Q f s s' r :
    ptyp (pa s) <> PChunked -> payload_feed_eof H hnew hstep havail heof hflush f s = (s', r) -> Q s s'.
  Proof.
    intros Ht. unfold payload_feed_eof. destruct (ptyp (pa s)); [|contradiction|].
    - destruct (negb (plength (pa s) =? 0)); [intros [= <- <-]; apply Q_refl|].
      destruct (drain H hnew hstep havail f s) as [s1 [| |e]] eqn:Edr; destruct (drain_Q _ _ _ _ Edr) as (Q1 & _ & _).
      + destruct (db_feed_eof H heof hflush s1) as [s2 [e|]] eqn:Ede; destruct (db_feed_eof_Q _ _ _ Ede) as (Q2 & _); intros [= <- <-].
        * eapply Q_trans; [exact Q1|exact Q2].
        * destruct (upd_Q s2 (fun q => pa_done q true)) as (Q3 & _ & _); [kt|]. eapply Q_trans; [exact Q1|eapply Q_trans; [exact Q2|exact Q3]].
      + intros [= <- <-]. exact Q1.
      + intros [= <- <-]. exact Q1.
    - destruct (upd_Q s (fun q => pa_eofp q true)) as (Q0 & _ & _); [kt|].
      destruct (drain H hnew hstep havail f (upd_pa H s (fun q => pa_eofp q true))) as [s1 [| |e]] eqn:Edr; destruct (drain_Q _ _ _ _ Edr) as (Q1 & _ & _).
      + destruct (db_feed_eof H heof hflush s1) as [s2 [e|]] eqn:Ede; destruct (db_feed_eof_Q _ _ _ Ede) as (Q2 & _); intros [= <- <-].
        * eapply Q_trans; [exact Q0|eapply Q_trans; [exact Q1|exact Q2]].
        * destruct (upd_Q s2 (fun q => pa_eofp (pa_done q true) false)) as (Q3 & _ & _); [kt|].
          eapply Q_trans; [exact Q0|eapply Q_trans; [exact Q1|eapply Q_trans; [exact Q2|exact Q3]]].
      + intros [= <- <-]. eapply Q_trans; [exact Q0|exact Q1].
      + intros [= <- <-]. eapply Q_trans; [exact Q0|exact Q1].
  Qed.

  (* ---- between stimuli ---------------------------------------------------------------------------------- *)
  Definition PIb (s : st) : Prop :=
    Ps s /\ SzP s /\ 1 <= low (re s) /\ ptyp (pa s) <> PChunked /\
    (has_more (pr s) = true -> parser_alive (pr s) = true -> pp_present (pr s) = true) /\
    parser_alive (pr s) = connected (pr s) /\ closing (pr s) = false.
  Definition PI (s : st) : Prop :=
    PIb s /\ Pg s /\ (has_more (pr s) = true -> parser_alive (pr s) = true -> nonempty s).

  Definition pr_same (f : prot -> prot) : Prop :=
    forall p, connected (f p) = connected p /\ tpaused (f p) = tpaused p /\ rpaused (f p) = rpaused p /\
              parser_alive (f p) = parser_alive p /\ closing (f p) = closing p.
  Lemma pr_upd s f : pr_same f ->
    let s' := pr_set H s f in
    (Pg s -> Pg s') /\ (Pt s -> Pt s') /\ (Ps s -> Ps s') /\ (SzP s -> SzP s') /\ re s' = re s /\ pa s' = pa s /\ cf s' = cf s /\ pr s' = f (pr s).
  Proof.
    intros Hk. bust s. unq. unfold pr_set. cbn.
    destruct (Hk (mkProt co tp rp al ppr hm cl)) as (K1 & K2 & K3 & K4 & K5). cbn in *. rewrite K1, K2, K3. crush.
  Qed.
  Ltac prs := unfold pr_same; let p := fresh "p" in (intro p; destruct p; cbn; auto).

  Lemma parser_feed_P f s data :
    PIb s -> Pg s ->
    let s' := parser_feed H hnew hstep havail heof hflush f s data in PI s' /\ (Pt s -> Pt s').
  Proof.
    intros Hb Hg. unfold parser_feed. cbv zeta.
    pose proof Hb as (B1 & B2 & B3 & B4 & B5 & B6 & B7).
    destruct (negb (parser_alive (pr s))) eqn:Ea.
    { split; [|auto]. split; [exact Hb|]. split; [exact Hg|]. intros _ X. apply negb_true_iff in Ea. congruence. }
    destruct (isnil data && negb (has_more (pr s))) eqn:En.
    { split; [|auto]. split; [exact Hb|]. split; [exact Hg|]. intros X _. apply andb_true_iff in En as [_ En]. apply negb_true_iff in En. congruence. }
    destruct (negb (pp_present (pr s))) eqn:Ep.
    { split; [|auto]. split; [exact Hb|]. split; [exact Hg|]. intros X Y. specialize (B5 X Y). apply negb_true_iff in Ep. congruence. }
    apply negb_false_iff in Ea. apply negb_false_iff in Ep.
    destruct (payload_feed H hnew hstep havail heof hflush f s data) as [s1 r] eqn:Ef.
    destruct (payload_feed_Q _ _ _ _ _ B4 Ef) as (Q1 & N1 & F1).
    destruct Q1 as (G1 & T1 & S1 & Z1 & M1 & C1 & L1 & Y1 & Co1 & Al1 & Pp1 & Hm1 & Cl1).
    destruct r as [| |rest|e].
    - match goal with |- context [pr_set H s1 ?g] => destruct (pr_upd s1 g) as (U1 & U2 & U3 & U4 & U5 & U6 & U7 & U8); [prs|] end. cbv zeta in *.
      unfold PI, PIb. unq. rewrite ?U5, ?U6, ?U8 in *. cbn in *. rewrite ?L1, ?Y1, ?Co1, ?Al1, ?Cl1, ?Pp1 in *. crush.
    - match goal with |- context [pr_set H s1 ?g] => destruct (pr_upd s1 g) as (U1 & U2 & U3 & U4 & U5 & U6 & U7 & U8); [prs|] end. cbv zeta in *.
      specialize (N1 eq_refl). unfold PI, PIb. unq. rewrite ?U5, ?U6, ?U8 in *. cbn in *. rewrite ?L1, ?Y1, ?Co1, ?Al1, ?Cl1, ?Pp1 in *. crush.
    - match goal with |- context [pr_set H s1 ?g] => destruct (pr_upd s1 g) as (U1 & U2 & U3 & U4 & U5 & U6 & U7 & U8); [prs|] end. cbv zeta in *.
      unfold PI, PIb. unq. rewrite ?U5, ?U6, ?U8 in *. cbn in *. rewrite ?L1, ?Y1, ?Co1, ?Al1, ?Cl1 in *. crush.
    - rewrite (F1 e eq_refl). destruct (exn_Q s1 e) as (Q2 & P2).
      destruct Q2 as (G2 & T2 & S2 & Z2 & M2 & C2 & L2 & Y2 & Co2 & Al2 & Pp2 & Hm2 & Cl2).
      match goal with |- context [pr_set H ?t ?g] => destruct (pr_upd t g) as (U1 & U2 & U3 & U4 & U5 & U6 & U7 & U8); [prs|] end. cbv zeta in *.
      unfold PI, PIb. unq. rewrite ?U5, ?U6, ?U8 in *. cbn in *. rewrite ?P2 in *. rewrite ?L2, ?Y2, ?Co2, ?Al2, ?Cl2 in *. rewrite ?L1, ?Y1, ?Co1, ?Al1, ?Cl1 in *. crush.
  Qed.

  Lemma connection_lost_P f s :
    PIb s -> let s' := connection_lost H hnew hstep havail heof hflush f s in PI s' /\ Pt s'.
  Proof.
    intros Hb. unfold connection_lost. cbv zeta.
    match goal with |- context [pr_set H ?t _] => remember t as s1 eqn:Es1 end.
    assert (H1 : Ps s1 /\ SzP s1 /\ low (re s1) = low (re s) /\ ptyp (pa s1) = ptyp (pa s)).
    { destruct Hb as (B1 & B2 & B3 & B4 & B5 & B6 & B7). subst s1.
      destruct (parser_alive (pr s) && pp_present (pr s)); [|auto].
      destruct (payload_feed_eof H hnew hstep havail heof hflush f s) as [s2 [e|]] eqn:Ef;
        pose proof (payload_feed_eof_Q _ _ _ _ B4 Ef) as (G1 & T1 & S1 & Z1 & M1 & C1 & L1 & Y1 & _).
      - destruct (exn_Q s2 e) as ((G2 & T2 & S2 & Z2 & M2 & C2 & L2 & Y2 & _) & _). repeat split; auto; congruence.
      - destruct (pdone (pa s2)); [|repeat split; auto].
        match goal with |- context [pr_set H s2 ?g] => destruct (pr_upd s2 g) as (U1 & U2 & U3 & U4 & U5 & U6 & U7 & U8); [prs|] end. cbv zeta in *.
        unq. rewrite U5, U6. repeat split; auto. }
    clear Es1. destruct Hb as (B1 & B2 & B3 & B4 & B5 & B6 & B7). destruct H1 as (S1 & Z1 & L1 & Y1).
    clear - S1 Z1 L1 Y1 B3 B4. bust s1. unfold PI, PIb. unq. unfold pr_set. cbn in *. rewrite L1, Y1. crush.
  Qed.

  Lemma resume_P f s :
    PIb s -> let s' := resume_reading H hnew hstep havail heof hflush f s in PI s' /\ Pt s'.
  Proof.
    intros Hb. unfold resume_reading. cbv zeta.
    match goal with |- context [parser_feed H hnew hstep havail heof hflush f ?t []] => set (s1 := t) end.
    assert (H1 : PIb s1 /\ Pg s1).
    { subst s1. clear - Hb. bust s. unfold PIb in *. unq. unfold pr_set. cbn in *. crush. }
    destruct H1 as (Hb1 & Hg1).
    destruct (parser_feed_P f s1 [] Hb1 Hg1) as (I2 & _). cbv zeta in *.
    set (s2 := parser_feed H hnew hstep havail heof hflush f s1 []) in *. clearbody s2. clear - I2.
    destruct (negb (rpaused (pr s2)) && connected (pr s2)) eqn:Er.
    - apply andb_true_iff in Er as [Er1 Er2]. apply negb_true_iff in Er1.
      bust s2. unfold PI, PIb in *. unq. unfold pr_set. cbn in *. subst. crush.
    - split; [exact I2|]. unfold Pt. intros Hc Ht. rewrite Hc in Er. rewrite andb_true_r in Er. apply negb_false_iff in Er. exact Er.
  Qed.

  Lemma rd_take_P f s n s' d :
    PI s -> Pt s -> rd_take H hnew hstep havail heof hflush f s n = (s', d) -> PI s' /\ Pt s'.
  Proof.
    intros Hi Ht. unfold rd_take. destruct (buf (re s)) as [|blk0 rest] eqn:Eb; [intros [= <- <-]; auto|].
    match goal with |- (let '(data, buf') := ?x in _) = _ -> _ => destruct x as [data buf'] eqn:Ex end.
    assert (Hlen : lenN data + lenN (concat buf') = lenN (concat (blk0 :: rest))).
    { cbn [concat]. rewrite lenN_app. destruct n as [k|].
      - destruct (k <? lenN blk0) eqn:Ek; inversion Ex; subst; cbn [concat]; rewrite ?lenN_app; [pose proof (take_drop_len k blk0); lia|lia].
      - inversion Ex; subst. lia. }
    cbv zeta.
    match goal with |- context [set_re H s ?r] => set (r1 := r) end.
    set (s1 := set_re H s r1).
    assert (Hs : rsize (re s) = lenN data + lenN (concat buf')).
    { destruct Hi as ((_ & I2 & _) & _). unfold SzP in I2. rewrite Eb in I2. lia. }
    assert (I1 : PIb s1 /\ Pt s1 /\ (buf' <> [] -> PI s1) /\ rsize (re s1) = lenN (concat buf') /\ low (re s1) = low (re s) /\ splits (re s1) = None /\ buf (re s1) = buf').
    { subst s1 r1. clear - Hi Ht Hs. bust s. unfold PI, PIb in *. unq. unfold set_re. cbn in *.
      destruct Hi as ((I1 & I2 & I3 & I4 & I5 & I6 & I7) & I8 & I9). subst sp. cbn. crush. }
    destruct I1 as (Hb1 & Ht1 & Hfull & Hsz & Hlow & Hsp & Hbuf).
    match goal with |- ((if ?x then _ else _), _) = _ -> _ => destruct x eqn:Ec end; intros [= <- <-].
    - apply resume_P; exact Hb1.
    - split; [|exact Ht1]. apply Hfull. intro Hn.
      (* an empty buffer always satisfies the resume test: rsize = 0 < 1 <= low and there are no chunk splits *)
      destruct Hi as ((P1 & _ & I3 & _) & _). unfold Ps in P1.
      rewrite Hn in Hs. cbn in Hs. clear - Ec P1 I3 Hs.
      subst r1. destruct s as [cg p q d rr fd]. destruct rr. cbn in *. subst. cbn in Ec.
      unfold dg_resume_size in Ec. rewrite N.add_0_r, N.sub_diag in Ec.
      destruct (0 <? low) eqn:E0; [cbn in Ec; discriminate|lia].
  Qed.

  Lemma take_k_P f k : forall s acc s' d, PI s -> Pt s -> take_k H hnew hstep havail heof hflush f k s acc = (s', d) -> PI s' /\ Pt s'.
  Proof.
    induction k as [|k IH]; intros s acc s' d Hi Ht; cbn [take_k]; [intros [= <- <-]; auto|].
    destruct (rd_take H hnew hstep havail heof hflush f s None) as [s1 d1] eqn:Et. intros Hk.
    destruct (rd_take_P _ _ _ _ _ Hi Ht Et) as (I1 & T1). eapply IH; eauto.
  Qed.

  Lemma read_upto_P f g : forall s n acc s' d, PI s -> Pt s -> read_upto H hnew hstep havail heof hflush f g s n acc = (s', d) -> PI s' /\ Pt s'.
  Proof.
    induction g as [|g IH]; intros s n acc s' d Hi Ht; cbn [read_upto]; [intros [= <- <-]; auto|].
    destruct (isnil (buf (re s))); [intros [= <- <-]; auto|].
    destruct (rd_take H hnew hstep havail heof hflush f s (Some n)) as [s1 d1] eqn:Et.
    destruct (rd_take_P _ _ _ _ _ Hi Ht Et) as (I1 & T1).
    destruct (n - lenN d1 =? 0); [intros [= <- <-]; auto|]. intros Hk. eapply IH; eauto.
  Qed.

  Lemma set_chunk_P s n : PI s -> Pt s -> PI (set_chunk_size H s n) /\ Pt (set_chunk_size H s n).
  Proof.
    intros Hi Ht. unfold set_chunk_size. destruct (dg_raises n (low (re s))) eqn:Er; [|auto].
    unfold dg_raises, dg_raise_low in *. bust s. unfold PI, PIb in *. unq. unfold set_re. cbn in *. crush.
  Qed.

  Lemma set_wt_P s w0 : PI s -> Pt s -> PI (set_wt H s w0) /\ Pt (set_wt H s w0).
  Proof. intros Hi Ht. bust s. unfold PI, PIb in *. unq. unfold set_wt, set_re. cbn in *. auto. Qed.

  Lemma op_body_P f s o s' r : PI s -> Pt s -> op_body H hnew hstep havail heof hflush f s o = (s', r) -> PI s' /\ Pt s'.
  Proof.
    intros Hi Ht. unfold op_body. cbv zeta.
    destruct (isnil (buf (re s)) && negb (reof (re s))).
    - destruct (connected (pr s)); intros [= <- <-]; apply set_wt_P; auto.
    - destruct (set_wt_P s WNone Hi Ht) as (I1 & T1). destruct o as [|n|n].
      + destruct (take_k H hnew hstep havail heof hflush f (length (buf (re s))) (set_wt H s WNone) []) as [s1 d] eqn:Et.
        intros [= <- <-]. eapply take_k_P; eauto.
      + destruct (read_upto H hnew hstep havail heof hflush f f (set_wt H s WNone) n []) as [s1 [d|]] eqn:Et;
          intros [= <- <-]; eapply read_upto_P; eauto.
      + intros [= <- <-]. auto.
  Qed.

  Lemma op_start_P f s o s' r : PI s -> Pt s -> op_start H hnew hstep havail heof hflush f s o = (s', r) -> PI s' /\ Pt s'.
  Proof.
    intros Hi Ht. unfold op_start. destruct o as [|n|n].
    - destruct (rexn (re s)); [intros [= <- <-]; auto|]. apply op_body_P; auto.
    - destruct (rexn (re s)); [intros [= <- <-]; auto|]. destruct (n =? 0); [intros [= <- <-]; auto|].
      destruct (set_chunk_P s n Hi Ht) as (I1 & T1). apply op_body_P; auto.
    - intros [= <- <-]. apply set_chunk_P; auto.
  Qed.

  Lemma op_wake_P f s o s' r : PI s -> Pt s -> op_wake H hnew hstep havail heof hflush f s o = (s', r) -> PI s' /\ Pt s'.
  Proof.
    intros Hi Ht. unfold op_wake. destruct (wt (re s)).
    - intros [= <- <-]; auto.
    - intros [= <- <-]; auto.
    - destruct (op_body H hnew hstep havail heof hflush f s o) as [s1 r1] eqn:Eo. intros [= <- <-]. eapply op_body_P; eauto.
    - intros [= <- <-]. apply set_wt_P; auto.
  Qed.

  Lemma poll_P f (y y' : sys) o : PI (core y) -> Pt (core y) -> poll H hnew hstep havail heof hflush f y = (y', o) -> PI (core y') /\ Pt (core y').
  Proof.
    intros Hi Ht. unfold poll. destruct (pend y) as [op0|]; [|intros [= <- <-]; auto].
    destruct (op_wake H hnew hstep havail heof hflush f (core y) op0) as [s1 [r|]] eqn:Ew;
      pose proof (op_wake_P _ _ _ _ _ Hi Ht Ew) as I1; [destruct r|]; intros [= <- <-]; exact I1.
  Qed.

  Lemma settle_P f (y : sys) (o : obs) (y' : sys) (o' : obs) :
    PI (core y) -> Pt (core y) -> settle H hnew hstep havail heof hflush f (y, o) = (y', o') -> PI (core y') /\ Pt (core y').
  Proof.
    intros Hi Ht. unfold settle. destruct Hi as (Hb & Hg & Hh). pose proof Hb as (_ & _ & _ & _ & _ & _ & Cl). rewrite Cl.
    intros [= <- <-]. split; [split; auto|auto].
  Qed.

  Lemma step_P f (y y' : sys) ev o : PI (core y) -> Pt (core y) -> step H hnew hstep havail heof hflush f y ev = (y', o) -> PI (core y') /\ Pt (core y').
  Proof.
    intros Hi Ht. unfold step. cbv zeta. destruct ev as [d| |op0].
    - destruct (deliverable H (core y) && pp_present (pr (core y)) && parser_alive (pr (core y)) && negb (isnil d)); [|intros [= <- <-]; auto].
      destruct Hi as (Hb & Hg & Hh). destruct (parser_feed_P f (core y) d Hb Hg) as (I1 & T1). cbv zeta in *.
      intros Hs.
      destruct (poll H hnew hstep havail heof hflush f (mkSys H (parser_feed H hnew hstep havail heof hflush f (core y) d) (pend y))) as [y1 o1] eqn:Ep.
      eapply poll_P in Ep; [|exact I1|exact (T1 Ht)]. destruct Ep as (I2 & T2). eapply settle_P in Hs; eauto.
    - destruct (deliverable H (core y) && pp_present (pr (core y)) && parser_alive (pr (core y))); [|intros [= <- <-]; auto].
      destruct Hi as (Hb & Hg & Hh). destruct (connection_lost_P f (core y) Hb) as (I1 & T1). cbv zeta in *.
      intros Hp. eapply poll_P in Hp; eauto.
    - destruct (pend y); [intros [= <- <-]; auto|].
      destruct (op_start H hnew hstep havail heof hflush f (core y) op0) as [s1 r] eqn:Eo.
      destruct (op_start_P _ _ _ _ _ Hi Ht Eo) as (I1 & T1).
      destruct r as [d| |e].
      + intros Hs. eapply settle_P in Hs; eauto.
      + destruct (settle H hnew hstep havail heof hflush f (mkSys H s1 (Some op0), ONone)) as [y1 o1] eqn:Es.
        eapply settle_P in Es; eauto. destruct o1; intros [= <- <-]; exact Es.
      + intros Hs. eapply settle_P in Hs; eauto.
  Qed.

  Lemma run_P f : forall evs (y y' : sys) os, PI (core y) -> Pt (core y) -> run H hnew hstep havail heof hflush f y evs = (y', os) -> PI (core y') /\ Pt (core y').
  Proof.
    induction evs as [|ev evs IH]; intros y y' os Hi Ht; cbn [run]; [intros [= <- <-]; auto|].
    destruct (step H hnew hstep havail heof hflush f y ev) as [y1 o] eqn:Es.
    destruct (run H hnew hstep havail heof hflush f y1 evs) as [y2 os2] eqn:Er. intros [= <- <-].
    destruct (step_P _ _ _ _ _ Hi Ht Es) as (I1 & T1). eapply IH; eauto.
  Qed.

  Lemma init_P c t len enc : 1 <= c_limit c -> t <> PChunked -> PI (core (init H hnew c t len enc)) /\ Pt (core (init H hnew c t len enc)).
  Proof.
    intros Hl Ht. unfold init, PI, PIb. unq. cbn. unfold dg_low. repeat split; auto; try discriminate.
  Qed.

  (* no stalled state for Content-Length and until-EOF bodies *)
  Theorem progress_nonchunked : forall f c t len enc evs (y : sys) os,
    1 <= c_limit c -> t <> PChunked ->
    run H hnew hstep havail heof hflush f (init H hnew c t len enc) evs = (y, os) ->
    buf (re (core y)) = [] -> connected (pr (core y)) = true ->
    has_more (pr (core y)) = false /\ rpaused (pr (core y)) = false /\ tpaused (pr (core y)) = false.
  Proof.
    intros f c t len enc evs y os Hl Ht Hr He Hc.
    destruct (init_P c t len enc Hl Ht) as (I0 & T0).
    destruct (run_P f evs _ _ _ I0 T0 Hr) as (((B1 & B2 & B3 & B4 & B5 & B6 & B7) & Hg & Hh) & Hpt).
    unfold Pg, Pt, nonempty in *.
    assert (R : rpaused (pr (core y)) = false). { destruct (rpaused (pr (core y))); [exfalso; apply Hg; auto|reflexivity]. }
    split; [|split; [exact R|]].
    - destruct (has_more (pr (core y))); [exfalso; apply Hh; auto; congruence|reflexivity].
    - destruct (tpaused (pr (core y))); [rewrite Hpt in R; auto; discriminate|reflexivity].
  Qed.
End Progress.
