(* C09: progress and end-of-body for every framing (repaired code: dc85988, 497a2a6, 72e5a25).

   progress      while the connection is open and no payload error is set: an empty buffer implies that the
                 parser holds no unprocessed input and reading is not paused (the consumer waits for the
                 network, never for a resume nobody will issue);
   reaches_eof   once the connection is lost: an empty buffer implies EOF was fed or a payload error is set
                 (the consumer never ends in RuntimeError("Connection closed.") or in a wait).

   Codec law used:  an output-less decompress_sync call leaves data_available false
       hstep h x m = Some (Some (h', [])) -> havail h' = false
   (ZLibDecompressor: `_last_empty`; validated by sampling on the real codecs in harness/c09.py). *)
From AV Require Import Lib.Base Generated.DecodeGen Model.Decode Proofs.DecodeCommon.
From Coq Require Import ZifyBool ZifyN.
Ltac Zify.zify_post_hook ::= Z.to_euclidean_division_equations.
Open Scope N_scope.

Lemma snoc_not_nil {A} (l : list A) (x : A) : l ++ [x] <> [].
Proof. destruct l; discriminate. Qed.

(* chunk-end offsets: strictly increasing, between the cursor and the total *)
Fixpoint incr (l : list N) (lo hi : N) : Prop :=
  match l with [] => True | x :: l' => lo <= x /\ x <= hi /\ incr l' (x + 1) hi end.

Lemma incr_hi l : forall lo hi hi', incr l lo hi -> hi <= hi' -> incr l lo hi'.
Proof. induction l as [|x l IH]; cbn; intros lo hi hi' Hi Hh; [exact I|]. destruct Hi as (A & B & C). repeat split; try lia. eapply IH; eauto. Qed.

Lemma incr_lo l : forall lo lo' hi, incr l lo hi -> lo' <= lo -> incr l lo' hi.
Proof. destruct l as [|x l]; cbn; intros lo lo' hi Hi Hl; [exact I|]. destruct Hi as (A & B & C). repeat split; auto; lia. Qed.

Lemma incr_len l : forall lo hi, incr l lo hi -> l = [] \/ lenN l + lo <= hi + 1.
Proof.
  induction l as [|x l IH]; cbn [incr]; intros lo hi Hi; [left; reflexivity|right].
  destruct Hi as (A & B & C). rewrite lenN_cons. destruct (IH _ _ C) as [->|Hl]; [change (lenN (@nil N)) with 0; lia|lia].
Qed.

Lemma incr_snoc l : forall lo t, incr l lo t -> lo <= t -> last_or l 0 <> t -> incr (l ++ [t]) lo t.
Proof.
  induction l as [|x l IH]; intros lo t Hi Hl Hn.
  - cbn. repeat split; lia.
  - cbn [incr app] in *. destruct Hi as (A & B & C). repeat split; auto.
    destruct l as [|y l'].
    + cbn in *. repeat split; lia.
    + apply IH; auto.
      * cbn [incr] in C. destruct C as (C1 & C2 & _). lia.
Qed.

Lemma drop_stale_incr l : forall lo hi c, incr l lo hi -> incr (drop_stale l c) c hi.
Proof.
  induction l as [|x l IH]; intros lo hi c Hi; cbn [drop_stale]; [exact I|].
  cbn [incr] in Hi. destruct Hi as (A & B & C). unfold dg_split_stale.
  destruct (x <? c) eqn:E.
  - eapply IH; eauto.
  - cbn [incr]. repeat split; auto. lia.
Qed.

Section Progress.
  Variable H : Type.
  Variable hnew : N -> H.
  Variable hstep : H -> bytes -> N -> option (option (H * bytes)).
  Variable havail : H -> bool.
  Variable heof : H -> bool.
  Variable hflush : H -> option bytes.
  Hypothesis avail_law : forall h x m h', hstep h x m = Some (Some (h', [])) -> havail h' = false.

  Notation st := (st H).
  Notation sys := (sys H).

  (* ---- reader well-formedness -------------------------------------------------------------------- *)
  Definition Wr (r : rd) : Prop :=
    rsize r = lenN (concat (buf r)) /\ total r = cursor r + rsize r /\
    match splits r with None => True | Some l => incr l (cursor r) (total r) end /\
    1 <= low r /\ 2 <= lowc r /\ 4 <= highc r.
  Definition W (s : st) : Prop := Wr (re s).
  Definition nonempty (s : st) : Prop := buf (re s) <> [].

  Lemma Wr_nonempty r : Wr r -> 0 < rsize r -> buf r <> [].
  Proof. intros (A & _) Hp Hb. rewrite Hb in A. cbn in A. lia. Qed.

  (* more chunk ends than the high-water count => there are bytes in the buffer *)
  Lemma Wr_many_splits r l : Wr r -> splits r = Some l -> 4 < lenN l -> buf r <> [].
  Proof.
    intros Hw Hs Hl. apply (Wr_nonempty r Hw). destruct Hw as (A & B & C & _). rewrite Hs in C.
    destruct (incr_len _ _ _ C) as [->|Hx]; [change (lenN (@nil N)) with 0 in Hl; lia|lia].
  Qed.

  (* an empty buffer leaves at most one chunk end *)
  Lemma Wr_empty_splits r l : Wr r -> buf r = [] -> splits r = Some l -> lenN l <= 1.
  Proof.
    intros (A & B & C & _) Hb Hs. rewrite Hs in C. rewrite Hb in A. cbn in A.
    destruct (incr_len _ _ _ C) as [->|Hx]; [change (lenN (@nil N)) with 0; lia|lia].
  Qed.

  (* ---- flow predicates ---------------------------------------------------------------------------------- *)
  Definition Pg (s : st) : Prop := reof (re s) = false -> rpaused (pr s) = true -> nonempty s.
  Definition Pt (s : st) : Prop := connected (pr s) = true -> tpaused (pr s) = true -> rpaused (pr s) = true.
  Definition Pq (s : st) : Prop := ppaused (pa s) = true -> nonempty s.

  (* what a payload-parser step may change *)
  Definition Qw (s s' : st) : Prop :=
    (W s -> W s') /\ (W s -> Pg s -> Pg s') /\ (Pt s -> Pt s') /\ (W s -> Pq s -> Pq s') /\ (nonempty s -> nonempty s') /\
    cf s' = cf s /\ ptyp (pa s') = ptyp (pa s) /\
    connected (pr s') = connected (pr s) /\ parser_alive (pr s') = parser_alive (pr s) /\
    pp_present (pr s') = pp_present (pr s) /\ has_more (pr s') = has_more (pr s) /\ closing (pr s') = closing (pr s) /\
    rexn (re s') = rexn (re s) /\ (reof (re s) = true -> reof (re s') = true).
  Definition Q (s s' : st) : Prop :=
    Qw s s' /\ plength (pa s') = plength (pa s) /\ eof_pending (pa s') = eof_pending (pa s) /\ pdone (pa s') = pdone (pa s).

  Lemma Qw_refl s : Qw s s.
  Proof. unfold Qw. intuition. Qed.
  Lemma Qw_trans a b c : Qw a b -> Qw b c -> Qw a c.
  Proof.
    unfold Qw. intros (A1&A2&A3&A4&A5&A6&A7&A8&A9&A10&A11&A12&A13&A14) (B1&B2&B3&B4&B5&B6&B7&B8&B9&B10&B11&B12&B13&B14).
    split; [auto|]. split; [intros Hw Hp; apply B2; auto|]. split; [auto|]. split; [intros Hw Hp; apply B4; auto|]. split; [auto|].
    repeat split; try congruence; auto.
  Qed.
  Lemma Q_refl s : Q s s.
  Proof. unfold Q. split; [apply Qw_refl|auto]. Qed.
  Lemma Q_trans a b c : Q a b -> Q b c -> Q a c.
  Proof. unfold Q. intros (A & A1 & A2 & A3) (B & B1 & B2 & B3). split; [eapply Qw_trans; eauto|]. repeat split; congruence. Qed.
  Lemma Q_Qw a b : Q a b -> Qw a b.
  Proof. intros (A & _); exact A. Qed.

  Ltac inv_some := repeat match goal with Hs : Some _ = Some _ |- _ => inversion Hs; clear Hs; subst end.
  Ltac crush := repeat split; intros; subst; inv_some; try reflexivity; try discriminate; try tauto; try congruence; try lia;
                try (apply snoc_not_nil); intuition (try congruence; try lia; try (apply snoc_not_nil)).
  Ltac bust s :=
    destruct s as [cg p q d rr fd]; destruct p as [co tp rp al ppr hm cl]; destruct q as [pt pl ppz cs csz ctl mo ep pd ntr btr];
    destruct d as [cm en dh dsz dst]; destruct rr as [bf rs lo hi lc hc eo ex tt cu sp w dl].
  Ltac unq := unfold Q, Qw in *; unfold W, Wr, Pg, Pt, Pq, nonempty in *.

  (* StreamReader.feed_data keeps the reader well formed *)
  Lemma Wr_feed bf rs lo hi lc hc eo ex tt cu sp w dl w' (data : bytes) :
    Wr (mkRd bf rs lo hi lc hc eo ex tt cu sp w dl) ->
    Wr (mkRd (bf ++ [data]) (rs + lenN data) lo hi lc hc eo ex (tt + lenN data) cu sp w' dl).
  Proof.
    unfold Wr; cbn. intros (A & B & C & D). rewrite lenN_concat_snoc. repeat split; try lia; try tauto.
    destruct sp as [l|]; [|exact I]. eapply incr_hi; [exact C|lia].
  Qed.

  Lemma db_feed_Q s chunk s' r :
    db_feed H hnew hstep havail s chunk = (s', r) -> Q s s' /\ (r = FMore true -> nonempty s').
  Proof.
    bust s. unfold db_feed. cbn. destruct cm; cbn.
    - match goal with |- context [hstep ?a ?b ?m] => destruct (hstep a b m) as [[[h2 out]|]|] eqn:Eh end.
      + destruct out as [|o0 out]; cbn.
        * pose proof (avail_law _ _ _ _ Eh) as Ha. rewrite Ha. intros [= <- <-]. unq. cbn. crush.
        * unfold rd_feed; cbn. destruct eo; cbn; [intros [= <- <-]; unq; cbn; crush|].
          unfold wake_ok, dg_feed_pause; cbn.
          destruct w; cbn; match goal with |- context [if ?x then _ else _] => destruct x end; cbn; intros [= <- <-];
            (split; [|intros _; cbn; apply snoc_not_nil]); unfold Q, Qw; cbn;
            (split; [|repeat split; reflexivity]);
            (split; [unfold W; cbn; apply Wr_feed|]); unfold Pg, Pt, Pq, nonempty; cbn; destruct co; cbn; crush.
      + intros [= <- <-]. unq. cbn. crush.
      + intros [= <- <-]. unq. cbn. crush.
    - unfold rd_feed; cbn. destruct eo; cbn; [intros [= <- <-]; unq; cbn; crush|].
      destruct chunk as [|c0 chunk]; cbn; [intros [= <- <-]; unq; cbn; crush|].
      unfold wake_ok, dg_feed_pause; cbn.
      destruct w; cbn; match goal with |- context [if ?x then _ else _] => destruct x end; cbn; intros [= <- <-];
        (split; [|intro Hx; discriminate Hx]); unfold Q, Qw; cbn;
        (split; [|repeat split; reflexivity]);
        (split; [unfold W; cbn; apply Wr_feed|]); unfold Pg, Pt, Pq, nonempty; cbn; destruct co; cbn; crush.
  Qed.

  Lemma db_feed_eof_Q s s' r :
    db_feed_eof H heof hflush s = (s', r) ->
    Q s s' /\ (r = None -> reof (re s') = true) /\ (forall e, r = Some e -> is_framing e = false).
  Proof.
    bust s. unq. unfold db_feed_eof, rd_feed_eof, wake_ok. cbn.
    destruct cm; cbn; [destruct (hflush dh) as [fl|]; [destruct (isnil fl); cbn; [destruct ((0 <? dsz) && negb (heof dh)); cbn|]|]|];
      destruct w; cbn; intros [= <- <-]; cbn; destruct co; cbn; crush.
  Qed.

  (* setters of the payload parser's own fields *)
  Definition keepsQ (f : pp -> pp) : Prop :=
    forall q, ptyp (f q) = ptyp q /\ plength (f q) = plength q /\ eof_pending (f q) = eof_pending q /\ pdone (f q) = pdone q /\
              (ppaused (f q) = true -> ppaused q = true).
  Lemma upd_Q s f : keepsQ f -> Q s (upd_pa H s f) /\ re (upd_pa H s f) = re s /\ pa (upd_pa H s f) = f (pa s) /\ pr (upd_pa H s f) = pr s.
  Proof.
    intros Hk. bust s. unq. unfold upd_pa. cbn.
    destruct (Hk (mkPp pt pl ppz cs csz ctl mo ep pd ntr btr)) as (K1 & K2 & K3 & K5 & K4). cbn in *. rewrite K1, K2, K3, K5. crush.
  Qed.
  Definition keepsW (f : pp -> pp) : Prop := forall q, ptyp (f q) = ptyp q /\ (ppaused (f q) = true -> ppaused q = true).
  Lemma upd_Qw s f : keepsW f -> Qw s (upd_pa H s f) /\ re (upd_pa H s f) = re s /\ pa (upd_pa H s f) = f (pa s) /\ pr (upd_pa H s f) = pr s.
  Proof.
    intros Hk. bust s. unq. unfold upd_pa. cbn.
    destruct (Hk (mkPp pt pl ppz cs csz ctl mo ep pd ntr btr)) as (K1 & K4). cbn in *. rewrite K1. crush.
  Qed.
  Ltac kt := unfold keepsQ, keepsW; let q := fresh "q" in (intro q; destruct q; cbn; repeat split; auto; discriminate).

  Lemma begin_Q s : Q s (rd_begin_chunk H s) /\ pa (rd_begin_chunk H s) = pa s.
  Proof. bust s. unq. unfold rd_begin_chunk. cbn. destruct sp; cbn; [crush|]. repeat split; auto; try tauto; try lia. Qed.

  Lemma end_Q s : Q s (rd_end_chunk H s) /\ (ppaused (pa s) = false -> ppaused (pa (rd_end_chunk H s)) = true -> W s -> nonempty (rd_end_chunk H s)).
  Proof.
    bust s. unfold rd_end_chunk. cbn. destruct sp as [l|]; cbn; [|unq; cbn; crush].
    destruct (tt =? last_or l 0) eqn:El; cbn; [unq; cbn; crush|].
    assert (Hw : Wr (mkRd bf rs lo hi lc hc eo ex tt cu (Some l) w dl) -> forall w', Wr (mkRd bf rs lo hi lc hc eo ex tt cu (Some (l ++ [tt])) w' dl)).
    { unfold Wr; cbn. intros (A & B & C & D) w'. repeat split; try tauto. apply incr_snoc; auto; lia. }
    unfold dg_chunk_pause. destruct (hc <? lenN (l ++ [tt])) eqn:Ep; cbn; unfold wake_ok; cbn.
    - assert (Hn : Wr (mkRd bf rs lo hi lc hc eo ex tt cu (Some l) w dl) -> bf <> []).
      { intros Hwr. pose proof (Hw Hwr w) as Hw2. eapply (Wr_many_splits _ (l ++ [tt]) Hw2); [reflexivity|]. destruct Hwr as (_ & _ & _ & _ & _ & X). cbn in X. lia. }
      destruct w; cbn; (split; [|intros _ _ Hwr; unfold nonempty; cbn; apply Hn; exact Hwr]); unfold Q, Qw; cbn;
        (split; [|repeat split; reflexivity]); (split; [unfold W; cbn; intro Hwr; apply Hw; exact Hwr|]);
        unfold W, Pg, Pt, Pq, nonempty; cbn; destruct co; cbn; crush.
    - destruct w; cbn; (split; [|intros A B; cbn in *; congruence]); unfold Q, Qw; cbn;
        (split; [|repeat split; reflexivity]); (split; [unfold W; cbn; intro Hwr; apply Hw; exact Hwr|]);
        unfold W, Pg, Pt, Pq, nonempty; cbn; crush.
  Qed.

  Definition nfd (r : dres) : Prop := forall e, r = DErr e -> is_framing e = false.
  Definition nf (r : pres) : Prop := forall e, r = PRaise e -> is_framing e = false.

  (* the data_available loop *)
  Lemma drain_Q f : forall s s' r,
    drain H hnew hstep havail f s = (s', r) ->
    Q s s' /\ ((ppaused (pa s) = true -> more (pa s) = true -> nonempty s) -> r = DPaused -> nonempty s') /\
    (r = DPaused -> ppaused (pa s') = false /\ more (pa s') = true) /\ (r = DDone -> more (pa s') = false) /\ nfd r.
  Proof.
    induction f as [|f IH]; intros s s' r; cbn [drain].
    - intros [= <- <-]. split; [apply Q_refl|]. repeat split; try (intros; discriminate). intros e [= <-]; reflexivity.
    - destruct (more (pa s)) eqn:Em.
      + destruct (ppaused (pa s)) eqn:Ep.
        * intros [= <- <-]. destruct (upd_Q s (fun q => pa_paused q false)) as (Q1 & R1 & P1 & _); [kt|].
          split; [exact Q1|]. split; [intros Hm _; unfold nonempty in *; rewrite R1; apply Hm; auto|].
          split; [intros _; rewrite P1; destruct (pa s); cbn in *; auto|]. split; [intro X; discriminate X|intros e X; discriminate X].
        * destruct (db_feed H hnew hstep havail s []) as [s1 [e|m]] eqn:Ed; destruct (db_feed_Q _ _ _ _ Ed) as (Q1 & N1).
          -- intros [= <- <-]. split; [exact Q1|]. split; [intros _ X; discriminate X|]. split; [intro X; discriminate X|].
             split; [intro X; discriminate X|]. intros e' [= <-]. eapply (db_feed_err H hnew hstep havail); eauto.
          -- destruct (upd_Q s1 (fun q => pa_more q m)) as (Q2 & R2 & P2 & _); [kt|].
             intros Hd. apply IH in Hd. destruct Hd as (Q3 & N3 & D3 & O3 & E3).
             split; [eapply Q_trans; [exact Q1|eapply Q_trans; [exact Q2|exact Q3]]|]. split; [|auto].
             intros _. apply N3. intros _. rewrite P2. destruct (pa s1); cbn. intros ->. unfold nonempty in *. rewrite R2. auto.
      + intros [= <- <-]. split; [apply Q_refl|]. split; [intros _ X; discriminate X|]. split; [intro X; discriminate X|].
        split; [auto|intros e X; discriminate X].
  Qed.

  Lemma finish_eof_Q s rest s' r :
    finish_eof H heof hflush s rest = (s', r) -> Q s s' /\ r <> PPending /\ r <> PNeeds /\ (forall x, r = PComplete x -> reof (re s') = true) /\ nf r.
  Proof.
    unfold finish_eof. destruct (db_feed_eof H heof hflush s) as [s1 [e|]] eqn:Ed; intros [= <- <-];
      destruct (db_feed_eof_Q _ _ _ Ed) as (Q1 & R1 & E1); (split; [exact Q1|]); (split; [discriminate|]); (split; [discriminate|]).
    - split; [intros x X; discriminate X|]. intros e' X; inversion X; subst; auto.
    - split; [auto|]. intros e' X; discriminate X.
  Qed.

  Ltac qt := repeat (first [eassumption | apply Qw_refl | apply Q_Qw; eassumption | (eapply Qw_trans; [first [eassumption | apply Q_Qw; eassumption]|])]).
  Ltac pafield P x := rewrite P; destruct (pa x); cbn in *.

  (* ---- PARSE_LENGTH ----------------------------------------------------------------------------------- *)
  Lemma len_feed_Q f s c s' r :
    len_feed H hnew hstep havail heof hflush f s c = (s', r) ->
    Qw s s' /\ eof_pending (pa s') = eof_pending (pa s) /\
    (r = PPending -> nonempty s' /\ ppaused (pa s') = false /\ more (pa s') = true) /\
    (r = PNeeds -> ppaused (pa s') = false /\ more (pa s') = false) /\
    (forall x, r = PComplete x -> reof (re s') = true) /\ nf r /\
    (plength (pa s) = 0 -> r <> PNeeds /\ plength (pa s') = 0).
  Proof.
    unfold len_feed.
    set (chunk := ctail (pa s) ++ c). set (req := plength (pa s)).
    destruct (upd_Qw s (fun q => pa_length (pa_tail q []) (dg_remaining req (lenN chunk)))) as (Q0 & _ & P0 & _); [kt|].
    set (s0 := upd_pa H s _) in *. clearbody s0.
    assert (E0 : eof_pending (pa s0) = eof_pending (pa s)) by (pafield P0 s; reflexivity).
    assert (L0 : req = 0 -> plength (pa s0) = 0) by (intro Hz; pafield P0 s; unfold dg_remaining; subst req; cbn in Hz; rewrite Hz; lia).
    destruct (db_feed H hnew hstep havail s0 (take req chunk)) as [s1 [e|m]] eqn:Ed; destruct (db_feed_Q _ _ _ _ Ed) as ((Q1 & L1 & E1 & Dn1) & N1).
    - intros [= <- <-]. split; [qt|]. split; [congruence|]. split; [intro X; discriminate X|]. split; [intro X; discriminate X|].
      split; [intros x X; discriminate X|]. split; [intros e' [= <-]; eapply (db_feed_err H hnew hstep havail); eauto|]. intros Hz. split; [discriminate|]. rewrite L1. auto.
    - destruct (upd_Q s1 (fun q => pa_more q m)) as ((Q2 & L2 & E2 & Dn2) & R2 & P2 & _); [kt|].
      set (s2 := upd_pa H s1 _) in *. clearbody s2.
      assert (Hm : more (pa s2) = true -> nonempty s2).
      { pafield P2 s1. intros ->. unfold nonempty in *. rewrite R2. auto. }
      destruct (drain H hnew hstep havail f s2) as [s3 [| |e]] eqn:Edr; destruct (drain_Q _ _ _ _ Edr) as ((Q3 & L3 & E3 & Dn3) & N3' & D3 & O3 & F3); pose proof (N3' (fun _ => Hm)) as N3.
      + destruct (plength (pa s3) =? 0) eqn:Ez.
        * intros Hf. destruct (finish_eof_Q _ _ _ _ Hf) as ((Q4 & L4 & E4 & Dn4) & NP & NN & C4 & F4).
          split; [qt|]. split; [congruence|]. split; [intro X; contradiction|]. split; [intro X; contradiction|]. split; [exact C4|]. split; [exact F4|].
          intros Hz. split; [exact NN|]. rewrite L4, L3, L2, L1. auto.
        * intros [= <- <-]. destruct (upd_Q s3 (fun q => pa_paused q false)) as ((Q4 & L4 & E4 & Dn4) & R4 & P4 & _); [kt|].
          split; [qt|]. split; [congruence|]. split; [intro X; discriminate X|].
          split; [intros _; specialize (O3 eq_refl); pafield P4 s3; auto|]. split; [intros x X; discriminate X|]. split; [intros e X; discriminate X|].
          intros Hz. exfalso. apply N.eqb_neq in Ez. apply Ez. rewrite L3, L2, L1. auto.
      + intros [= <- <-]. destruct (upd_Q s3 (fun q => pa_tail q (drop req chunk))) as ((Q4 & L4 & E4 & Dn4) & R4 & P4 & _); [kt|].
        destruct (D3 eq_refl) as (D31 & D32).
        split; [qt|]. split; [congruence|].
        split; [intros _; split; [unfold nonempty in *; rewrite R4; auto|pafield P4 s3; auto]|].
        split; [intro X; discriminate X|]. split; [intros x X; discriminate X|]. split; [intros e X; discriminate X|].
        intros Hz. split; [discriminate|]. rewrite L4, L3, L2, L1. auto.
      + intros [= <- <-]. split; [qt|]. split; [congruence|]. split; [intro X; discriminate X|]. split; [intro X; discriminate X|].
        split; [intros x X; discriminate X|]. split; [intros e' [= <-]; apply F3; reflexivity|].
        intros Hz. split; [discriminate|]. rewrite L3, L2, L1. auto.
  Qed.

  (* ---- PARSE_UNTIL_EOF -------------------------------------------------------------------------------- *)
  Lemma eof_feed_Q f s c s' r :
    eof_feed H hnew hstep havail heof hflush f s c = (s', r) ->
    Qw s s' /\
    (r = PPending -> nonempty s' /\ ppaused (pa s') = false /\ more (pa s') = true /\ eof_pending (pa s') = eof_pending (pa s)) /\
    (r = PNeeds -> ppaused (pa s') = false /\ more (pa s') = false) /\
    (forall x, r = PComplete x -> reof (re s') = true) /\ nf r /\
    (eof_pending (pa s) = true -> r <> PNeeds).
  Proof.
    unfold eof_feed.
    destruct (db_feed H hnew hstep havail s c) as [s1 [e|m]] eqn:Ed; destruct (db_feed_Q _ _ _ _ Ed) as ((Q1 & L1 & E1 & Dn1) & N1).
    - intros [= <- <-]. split; [qt|]. split; [intro X; discriminate X|]. split; [intro X; discriminate X|].
      split; [intros x X; discriminate X|]. split; [intros e' [= <-]; eapply (db_feed_err H hnew hstep havail); eauto|]. intros _; discriminate.
    - destruct (upd_Q s1 (fun q => pa_more q m)) as ((Q2 & L2 & E2 & Dn2) & R2 & P2 & _); [kt|].
      set (s2 := upd_pa H s1 _) in *. clearbody s2.
      assert (Hm : more (pa s2) = true -> nonempty s2).
      { pafield P2 s1. intros ->. unfold nonempty in *. rewrite R2. auto. }
      destruct (drain H hnew hstep havail f s2) as [s3 [| |e]] eqn:Edr; destruct (drain_Q _ _ _ _ Edr) as ((Q3 & L3 & E3 & Dn3) & N3' & D3 & O3 & F3); pose proof (N3' (fun _ => Hm)) as N3.
      + destruct (eof_pending (pa s3)) eqn:Ep.
        * destruct (db_feed_eof H heof hflush s3) as [s4 [e|]] eqn:Ede; destruct (db_feed_eof_Q _ _ _ Ede) as ((Q4 & L4 & E4 & Dn4) & R4 & F4); intros [= <- <-].
          -- split; [qt|]. split; [intro X; discriminate X|]. split; [intro X; discriminate X|].
             split; [intros x X; discriminate X|]. split; [intros e' [= <-]; apply F4; reflexivity|]. intros _; discriminate.
          -- destruct (upd_Qw s4 (fun q => pa_eofp (pa_done q true) false)) as (Q5 & R5 & _); [kt|].
             split; [qt|]. split; [intro X; discriminate X|]. split; [intro X; discriminate X|].
             split; [intros x _; rewrite R5; auto|]. split; [intros e X; discriminate X|]. intros _; discriminate.
        * intros [= <- <-]. destruct (upd_Q s3 (fun q => pa_paused q false)) as ((Q4 & L4 & E4 & Dn4) & R4 & P4 & _); [kt|].
          split; [qt|]. split; [intro X; discriminate X|].
          split; [intros _; specialize (O3 eq_refl); pafield P4 s3; auto|]. split; [intros x X; discriminate X|]. split; [intros e X; discriminate X|].
          intros Hp. exfalso. rewrite E3, E2, E1 in Ep. congruence.
      + intros [= <- <-]. destruct (D3 eq_refl) as (D31 & D32).
        split; [qt|]. split; [intros _; repeat split; auto; congruence|]. split; [intro X; discriminate X|].
        split; [intros x X; discriminate X|]. split; [intros e X; discriminate X|]. intros _; discriminate.
      + intros [= <- <-]. split; [qt|]. split; [intro X; discriminate X|]. split; [intro X; discriminate X|].
        split; [intros x X; discriminate X|]. split; [intros e' [= <-]; apply F3; reflexivity|]. intros _; discriminate.
  Qed.

  (* ---- PARSE_CHUNKED ---------------------------------------------------------------------------------- *)
  Lemma Qw_upd s f : keepsW f -> Qw s (upd_pa H s f).
  Proof. intros Hk. destruct (upd_Qw s f Hk) as (X & _); exact X. Qed.
  Lemma Qw_begin s : Qw s (rd_begin_chunk H s).
  Proof. destruct (begin_Q s) as ((X & _) & _); exact X. Qed.
  Lemma Qw_end s : Qw s (rd_end_chunk H s).
  Proof. destruct (end_Q s) as ((X & _) & _); exact X. Qed.
  Ltac solveQ :=
    first [ apply Qw_refl
          | (eapply Qw_trans; [|apply Qw_begin]); solveQ
          | (eapply Qw_trans; [|apply Qw_end]); solveQ
          | (eapply Qw_trans; [|apply Qw_upd; kt]); solveQ ].

  Definition rq (s s1 : st) (x : pres) : Prop :=
    (x = PPending -> (W s -> Pq s -> nonempty s1) /\ ppaused (pa s1) = false) /\ (x = PNeeds -> ppaused (pa s1) = false) /\
    (forall y, x = PComplete y -> reof (re s1) = true).
  Definition bq (s : st) (r : bres H) : Prop :=
    match r with
    | BNext s1 _ | BCont s1 _ => Qw s s1
    | BRet s1 x => Qw s s1 /\ rq s s1 x
    end.
  Lemma rq_raise s s1 e : rq s s1 (PRaise e).
  Proof. unfold rq. repeat split; intros; discriminate. Qed.
  Lemma rq_needs s s1 f : (forall q, ppaused (f q) = false) -> rq s (upd_pa H s1 f) PNeeds.
  Proof.
    intros Hf. unfold rq. split; [intro X; discriminate X|]. split; [|intros y X; discriminate X].
    intros _. destruct s1 as [cg p q d rr fd]; cbn. apply Hf.
  Qed.
  Lemma rq_shift s t s1 x : Qw s t -> rq t s1 x -> rq s s1 x.
  Proof.
    intros (T1 & _ & _ & T4 & _) (A & B & C). unfold rq. split; [|auto].
    intros X. destruct (A X) as (A1 & A2). split; [|exact A2]. intros Hw Hq. apply A1; auto.
  Qed.
  Ltac pz := let q := fresh "q" in (intro q; destruct q; reflexivity).
  Ltac walkq :=
    repeat match goal with
           | |- bq _ (match ?x with _ => _ end) => destruct x eqn:?
           | |- bq _ (if ?x then _ else _) => destruct x eqn:?
           | |- bq _ (let _ := _ in _) => cbv zeta
           end; cbn [bq].
  Ltac leafq := first [ solveQ | (split; [solveQ|first [apply rq_raise | apply rq_needs; pz]]) ].

  Lemma blk_size_Q s chunk : bq s (blk_size H s chunk).
  Proof. unfold blk_size. walkq; leafq. Qed.

  Lemma blk_eof_Q s chunk : bq s (blk_eof H s chunk).
  Proof. unfold blk_eof. walkq; leafq. Qed.

  Lemma blk_trailers_Q s chunk : bq s (blk_trailers H heof hflush s chunk).
  Proof.
    unfold blk_trailers.
    repeat match goal with
           | |- bq _ (match finish_eof _ _ _ _ _ with _ => _ end) => fail 1
           | |- bq _ (match ?x with _ => _ end) => destruct x eqn:?
           | |- bq _ (if ?x then _ else _) => destruct x eqn:?
           | |- bq _ (let _ := _ in _) => cbv zeta
           end; cbn [bq]; try leafq.
    match goal with |- bq _ (match finish_eof _ _ _ ?t ?c with _ => _ end) => destruct (finish_eof H heof hflush t c) as [s2 r2] eqn:Ef; set (t0 := t) in * end.
    cbn [bq]. destruct (finish_eof_Q _ _ _ _ Ef) as ((Q4 & _) & NP & NN & C4 & F4).
    assert (Qt : Qw s t0) by (subst t0; solveQ).
    split; [eapply Qw_trans; [exact Qt|exact Q4]|]. unfold rq. split; [intro X; contradiction|]. split; [intro X; contradiction|exact C4].
  Qed.

  Lemma blk_chunk_Q s chunk : bq s (blk_chunk H hnew hstep havail s chunk).
  Proof.
    unfold blk_chunk. destruct (cst (pa s)); cbn [bq]; try solveQ.
    destruct (ppaused (pa s)) eqn:Ep; cbn [bq].
    - destruct (upd_Qw s (fun q => pa_tail (pa_paused q false) chunk)) as (Q1 & R1 & P1 & _); [kt|].
      split; [exact Q1|]. unfold rq. split; [|split; [intro X; discriminate X|intros y X; discriminate X]].
      intros _. split; [intros _ Hq; unfold nonempty; rewrite R1; apply Hq; exact Ep|]. clear. destruct s as [cg p q d rr fd]; destruct q; reflexivity.
    - cbv zeta.
      destruct (upd_Qw s (fun q => pa_csize q (dg_remaining (csize (pa s)) (lenN chunk)))) as (Q0 & _); [kt|].
      set (s0 := upd_pa H s _) in *. clearbody s0.
      destruct (db_feed H hnew hstep havail s0 (take (csize (pa s)) chunk)) as [s1 [e|m]] eqn:Ed; destruct (db_feed_Q _ _ _ _ Ed) as ((Q1 & _) & _); cbn [bq].
      + split; [qt|apply rq_raise].
      + assert (Q01 : Qw s s1) by qt.
        destruct m; [|destruct (negb (csize (pa (upd_pa H s1 (fun q => pa_more q false))) =? 0))]; cbn [bq].
        * eapply Qw_trans; [exact Q01|solveQ].
        * split; [eapply Qw_trans; [exact Q01|solveQ]|apply rq_needs; pz].
        * eapply Qw_trans; [exact Q01|solveQ].
  Qed.

  Definition presq (s s' : st) (r : pres) : Prop := Qw s s' /\ rq s s' r.

  Lemma chunk_loop_Q f : forall s chunk s' r,
    chunk_loop H hnew hstep havail heof hflush f s chunk = (s', r) -> presq s s' r.
  Proof.
    induction f as [|f IH]; intros s chunk s' r; cbn [chunk_loop].
    - intros [= <- <-]. split; [apply Qw_refl|apply rq_raise].
    - destruct (isnil chunk && negb (more (pa s))).
      { intros [= <- <-]. split; [solveQ|apply rq_needs; pz]. }
      assert (next : forall t c, Qw s t -> chunk_loop H hnew hstep havail heof hflush f t c = (s', r) -> presq s s' r).
      { intros t c Qt Hl. apply IH in Hl. destruct Hl as (Q' & R'). split; [eapply Qw_trans; [exact Qt|exact Q']|eapply rq_shift; eauto]. }
      pose proof (blk_size_Q s chunk) as S1.
      destruct (blk_size H s chunk) as [s1 c1|s1 c1|s1 r1]; cbn [bq] in S1.
      2: { eauto. }
      2: { destruct S1 as (Q1 & R1). intros [= <- <-]. split; auto. }
      pose proof (blk_chunk_Q s1 c1) as S2.
      destruct (blk_chunk H hnew hstep havail s1 c1) as [s2 c2|s2 c2|s2 r2]; cbn [bq] in S2.
      2: { apply next. eapply Qw_trans; [exact S1|exact S2]. }
      2: { destruct S2 as (Q2 & R2). intros [= <- <-]. split; [eapply Qw_trans; [exact S1|exact Q2]|eapply rq_shift; eauto]. }
      assert (Q02 : Qw s s2) by (eapply Qw_trans; [exact S1|exact S2]).
      pose proof (blk_eof_Q s2 c2) as S3.
      destruct (blk_eof H s2 c2) as [s3 c3|s3 c3|s3 r3]; cbn [bq] in S3.
      2: { apply next. eapply Qw_trans; [exact Q02|exact S3]. }
      2: { destruct S3 as (Q3 & R3). intros [= <- <-]. split; [eapply Qw_trans; [exact Q02|exact Q3]|eapply rq_shift; eauto]. }
      assert (Q03 : Qw s s3) by (eapply Qw_trans; [exact Q02|exact S3]).
      pose proof (blk_trailers_Q s3 c3) as S4.
      destruct (blk_trailers H heof hflush s3 c3) as [s4 c4|s4 c4|s4 r4]; cbn [bq] in S4.
      + apply next. eapply Qw_trans; [exact Q03|exact S4].
      + apply next. eapply Qw_trans; [exact Q03|exact S4].
      + destruct S4 as (Q4 & R4). intros [= <- <-]. split; [eapply Qw_trans; [exact Q03|exact Q4]|eapply rq_shift; eauto].
  Qed.

  Lemma chunked_feed_Q f s c s' r :
    chunked_feed H hnew hstep havail heof hflush f s c = (s', r) -> presq s s' r.
  Proof.
    unfold chunked_feed.
    match goal with |- (if ?x then _ else _) = _ -> _ => destruct x end.
    - intros [= <- <-]. split; [apply Qw_refl|apply rq_raise].
    - destruct (upd_Qw s (fun q => pa_tail q [])) as (Q0 & _); [kt|].
      intros Hl. destruct (chunk_loop_Q _ _ _ _ _ Hl) as (Q1 & R1). split; [eapply Qw_trans; [exact Q0|exact Q1]|exact (rq_shift _ _ _ _ Q0 R1)].
  Qed.

  (* HttpPayloadParser.feed_data, any framing *)
  Lemma payload_feed_Q f s c s' r :
    payload_feed H hnew hstep havail heof hflush f s c = (s', r) -> presq s s' r.
  Proof.
    unfold payload_feed. destruct (ptyp (pa s)).
    - intros Hf. destruct (len_feed_Q _ _ _ _ _ Hf) as (Q1 & _ & A & B & C & _). split; [exact Q1|]. unfold rq.
      split; [intro X; destruct (A X) as (A1 & A2 & _); auto|]. split; [intro X; destruct (B X); auto|exact C].
    - apply chunked_feed_Q.
    - intros Hf. destruct (eof_feed_Q _ _ _ _ _ Hf) as (Q1 & A & B & C & _). split; [exact Q1|]. unfold rq.
      split; [intro X; destruct (A X) as (A1 & A2 & _); auto|]. split; [intro X; destruct (B X); auto|exact C].
  Qed.

  (* pdone is only set when EOF has been fed *)
  Lemma len_feed_pdone f s c s' r : len_feed H hnew hstep havail heof hflush f s c = (s', r) -> pdone (pa s') = pdone (pa s).
  Proof.
    unfold len_feed.
    set (chunk := ctail (pa s) ++ c). set (req := plength (pa s)).
    destruct (upd_Qw s (fun q => pa_length (pa_tail q []) (dg_remaining req (lenN chunk)))) as (_ & _ & P0 & _); [kt|].
    set (s0 := upd_pa H s _) in *. clearbody s0.
    assert (D0 : pdone (pa s0) = pdone (pa s)) by (pafield P0 s; reflexivity).
    destruct (db_feed H hnew hstep havail s0 (take req chunk)) as [s1 [e|m]] eqn:Ed; destruct (db_feed_Q _ _ _ _ Ed) as ((_ & _ & _ & Dn1) & _).
    - intros [= <- <-]. congruence.
    - destruct (upd_Q s1 (fun q => pa_more q m)) as ((_ & _ & _ & Dn2) & _); [kt|].
      set (s2 := upd_pa H s1 _) in *. clearbody s2.
      destruct (drain H hnew hstep havail f s2) as [s3 [| |e]] eqn:Edr; destruct (drain_Q _ _ _ _ Edr) as ((_ & _ & _ & Dn3) & _).
      + destruct (plength (pa s3) =? 0).
        * intros Hf. destruct (finish_eof_Q _ _ _ _ Hf) as ((_ & _ & _ & Dn4) & _). congruence.
        * intros [= <- <-]. destruct (upd_Q s3 (fun q => pa_paused q false)) as ((_ & _ & _ & Dn4) & _); [kt|]. congruence.
      + intros [= <- <-]. destruct (upd_Q s3 (fun q => pa_tail q (drop req chunk))) as ((_ & _ & _ & Dn4) & _); [kt|]. congruence.
      + intros [= <- <-]. congruence.
  Qed.

  Lemma eof_feed_pdone f s c s' r :
    eof_feed H hnew hstep havail heof hflush f s c = (s', r) -> (forall x, r <> PComplete x) -> pdone (pa s') = pdone (pa s).
  Proof.
    unfold eof_feed.
    destruct (db_feed H hnew hstep havail s c) as [s1 [e|m]] eqn:Ed; destruct (db_feed_Q _ _ _ _ Ed) as ((_ & _ & _ & Dn1) & _).
    - intros [= <- <-] _. congruence.
    - destruct (upd_Q s1 (fun q => pa_more q m)) as ((_ & _ & _ & Dn2) & _); [kt|].
      set (s2 := upd_pa H s1 _) in *. clearbody s2.
      destruct (drain H hnew hstep havail f s2) as [s3 [| |e]] eqn:Edr; destruct (drain_Q _ _ _ _ Edr) as ((_ & _ & _ & Dn3) & _).
      + destruct (eof_pending (pa s3)).
        * destruct (db_feed_eof H heof hflush s3) as [s4 [e|]] eqn:Ede; destruct (db_feed_eof_Q _ _ _ Ede) as ((_ & _ & _ & Dn4) & _); intros [= <- <-] Hn.
          -- congruence.
          -- exfalso. apply (Hn []). reflexivity.
        * intros [= <- <-] _. destruct (upd_Q s3 (fun q => pa_paused q false)) as ((_ & _ & _ & Dn4) & _); [kt|]. congruence.
      + intros [= <- <-] _. congruence.
      + intros [= <- <-] _. congruence.
  Qed.

  (* HttpPayloadParser.feed_eof() *)
  Definition shape (s : st) : Prop :=
    (ptyp (pa s) = PLength /\ plength (pa s) = 0) \/ (ptyp (pa s) = PUntilEof /\ eof_pending (pa s) = true).

  Lemma payload_feed_eof_Q f s s' r :
    payload_feed_eof H hnew hstep havail heof hflush f s = (s', r) ->
    Qw s s' /\
    (r = None -> pdone (pa s) = false ->
      (pdone (pa s') = true /\ reof (re s') = true) \/
      (pdone (pa s') = false /\ ((ppaused (pa s) = true -> more (pa s) = true -> nonempty s) -> nonempty s') /\ ppaused (pa s') = false /\ more (pa s') = true /\ shape s')).
  Proof.
    unfold payload_feed_eof. destruct (ptyp (pa s)) eqn:Et.
    - destruct (negb (plength (pa s) =? 0)) eqn:Ez; [intros [= <- <-]; split; [apply Qw_refl|intro X; discriminate X]|].
      apply negb_false_iff in Ez. apply N.eqb_eq in Ez.
      destruct (drain H hnew hstep havail f s) as [s1 [| |e]] eqn:Edr; destruct (drain_Q _ _ _ _ Edr) as ((Q1 & L1 & E1 & Dn1) & N1 & D1 & O1 & F1).
      + destruct (db_feed_eof H heof hflush s1) as [s2 [e|]] eqn:Ede; destruct (db_feed_eof_Q _ _ _ Ede) as ((Q2 & _) & R2 & _); intros [= <- <-].
        * split; [qt|intro X; discriminate X].
        * destruct (upd_Qw s2 (fun q => pa_done q true)) as (Q3 & R3 & P3 & _); [kt|].
          split; [qt|]. intros _ _. left. split; [pafield P3 s2; reflexivity|rewrite R3; auto].
      + intros [= <- <-]. split; [qt|]. intros _ Hd. right. destruct (D1 eq_refl) as (D11 & D12).
        split; [congruence|]. split; [intro Hm; apply N1; auto|]. split; [exact D11|]. split; [exact D12|].
        left. pose proof Q1 as (_ & _ & _ & _ & _ & _ & T & _). split; congruence.
      + intros [= <- <-]. split; [qt|intro X; discriminate X].
    - intros [= <- <-]. split; [apply Qw_refl|intro X; discriminate X].
    - destruct (upd_Qw s (fun q => pa_eofp q true)) as (Q0 & R0 & P0 & _); [kt|].
      set (s0 := upd_pa H s _) in *. clearbody s0.
      assert (F0 : eof_pending (pa s0) = true /\ more (pa s0) = more (pa s) /\ pdone (pa s0) = pdone (pa s) /\ ppaused (pa s0) = ppaused (pa s)) by (pafield P0 s; auto).
      destruct F0 as (F01 & F02 & F03 & F04).
      destruct (drain H hnew hstep havail f s0) as [s1 [| |e]] eqn:Edr; destruct (drain_Q _ _ _ _ Edr) as ((Q1 & L1 & E1 & Dn1) & N1 & D1 & O1 & F1).
      + destruct (db_feed_eof H heof hflush s1) as [s2 [e|]] eqn:Ede; destruct (db_feed_eof_Q _ _ _ Ede) as ((Q2 & _) & R2 & _); intros [= <- <-].
        * split; [qt|intro X; discriminate X].
        * destruct (upd_Qw s2 (fun q => pa_eofp (pa_done q true) false)) as (Q3 & R3 & P3 & _); [kt|].
          split; [qt|]. intros _ _. left. split; [pafield P3 s2; reflexivity|rewrite R3; auto].
      + intros [= <- <-]. split; [qt|]. intros _ Hd. right. destruct (D1 eq_refl) as (D11 & D12).
        split; [congruence|]. split; [intro Hm; apply N1; [rewrite F02, F04; intros X Y; unfold nonempty in *; rewrite R0; auto|reflexivity]|]. split; [exact D11|]. split; [exact D12|].
        right. pose proof Q1 as (_ & _ & _ & _ & _ & _ & T & _). pose proof Q0 as (_ & _ & _ & _ & _ & _ & T0 & _). split; congruence.
      + intros [= <- <-]. split; [qt|intro X; discriminate X].
  Qed.

  (* non-chunked framing: what the result tells about more / pdone / shape *)
  Lemma payload_feed_nc f s c s' r :
    ptyp (pa s) <> PChunked -> payload_feed H hnew hstep havail heof hflush f s c = (s', r) ->
    (r = PNeeds -> more (pa s') = false) /\ ((forall x, r <> PComplete x) -> pdone (pa s') = pdone (pa s)) /\
    (shape s -> r <> PNeeds /\ (r = PPending -> shape s')).
  Proof.
    intros Ht. unfold payload_feed, shape. destruct (ptyp (pa s)) eqn:Et; [|contradiction|].
    - intros Hf. pose proof (len_feed_pdone _ _ _ _ _ Hf) as Hd.
      destruct (len_feed_Q _ _ _ _ _ Hf) as ((_ & _ & _ & _ & _ & _ & T & _) & _ & A & B & C & _ & D).
      split; [intro X; destruct (B X); auto|]. split; [auto|].
      intros [(S1 & S2)|(S1 & _)]; [|discriminate]. destruct (D S2) as (D1 & D2). split; [exact D1|]. intros _. left. split; congruence.
    - intros Hf.
      destruct (eof_feed_Q _ _ _ _ _ Hf) as ((_ & _ & _ & _ & _ & _ & T & _) & A & B & C & _ & D).
      split; [intro X; destruct (B X); auto|]. split; [apply (eof_feed_pdone _ _ _ _ _ Hf)|].
      intros [(S1 & _)|(S1 & S2)]; [discriminate|]. split; [apply D; exact S2|]. intros X. right. destruct (A X) as (_ & _ & _ & A4). split; congruence.
  Qed.

  (* ---- between stimuli ---------------------------------------------------------------------------------- *)
  Definition Fb (s : st) : Prop :=
    closing (pr s) = false /\
    (connected (pr s) = true -> parser_alive (pr s) = true) /\
    (parser_alive (pr s) = true -> pp_present (pr s) = true ->
       ppaused (pa s) = false /\ (ptyp (pa s) <> PChunked -> pdone (pa s) = false /\ (more (pa s) = true -> has_more (pr s) = true))) /\
    (has_more (pr s) = true -> parser_alive (pr s) = true -> pp_present (pr s) = true) /\
    (pp_present (pr s) = false -> reof (re s) = true) /\
    (connected (pr s) = false -> parser_alive (pr s) = true -> pp_present (pr s) = true -> has_more (pr s) = true /\ shape s) /\
    (connected (pr s) = false -> parser_alive (pr s) = false -> reof (re s) = true).
  Definition Ph (s : st) : Prop := reof (re s) = false -> has_more (pr s) = true -> parser_alive (pr s) = true -> nonempty s.

  Lemma pr_set_proj s f : pr (pr_set H s f) = f (pr s) /\ pa (pr_set H s f) = pa s /\ re (pr_set H s f) = re s /\ cf (pr_set H s f) = cf s.
  Proof. destruct s; cbn; auto. Qed.
  Lemma exn_proj s e :
    pr (rd_set_exn H s e) = pr s /\ pa (rd_set_exn H s e) = pa s /\ cf (rd_set_exn H s e) = cf s /\
    rexn (re (rd_set_exn H s e)) = Some e /\ (W s -> W (rd_set_exn H s e)).
  Proof. bust s. unfold rd_set_exn, W, Wr. cbn. repeat split; auto; tauto. Qed.

  Ltac fin2 := intuition (try congruence; try discriminate);
    repeat match goal with
           | Hx : _ -> _ -> ?g |- ?g => apply Hx; try congruence
           | Hx : _ -> ?g |- ?g => apply Hx; try congruence
           end.

  Ltac prep s :=
    destruct (connected (pr s)) eqn:Ec; destruct (ptyp (pa s)) eqn:Et;
    repeat match goal with
           | Hx : (?a = ?a -> _) |- _ => specialize (Hx eq_refl)
           | Hx : ((?a = ?b -> False) -> _) |- _ => first [ specialize (Hx ltac:(discriminate)) | clear Hx ]
           | Hx : (true = false -> _) |- _ => clear Hx
           | Hx : (false = true -> _) |- _ => clear Hx
           | Hx : _ /\ _ |- _ => destruct Hx
           end.
  (* HttpParser.feed_data (payload branch) inside data_received *)
  Lemma parser_feed_F f s data :
    W s -> (rexn (re s) = None -> Fb s) ->
    let s' := parser_feed H hnew hstep havail heof hflush f s data in
    W s' /\ (rexn (re s') = None -> Fb s' /\ Ph s' /\ (Pg s -> Pg s') /\ (Pt s -> Pt s')) /\
    (rexn (re s') = None -> rexn (re s) = None) /\ connected (pr s') = connected (pr s).
  Proof.
    intros Hw Hf. unfold parser_feed. cbv zeta.
    assert (Hs : W s /\ (rexn (re s) = None -> Fb s /\ (has_more (pr s) = false \/ parser_alive (pr s) = false -> Ph s) /\ (Pg s -> Pg s) /\ (Pt s -> Pt s)) /\
                 (rexn (re s) = None -> rexn (re s) = None) /\ connected (pr s) = connected (pr s)).
    { split; [exact Hw|]. split; [|auto]. intro X. split; [auto|]. split; [|auto]. unfold Ph. intros [A|A] _ B C; congruence. }
    destruct (negb (parser_alive (pr s))) eqn:Ea.
    { apply negb_true_iff in Ea. destruct Hs as (A & B & C & D). split; [exact A|]. split; [|auto]. intro X. destruct (B X) as (B1 & B2 & B3 & B4). auto. }
    destruct (isnil data && negb (has_more (pr s))) eqn:En.
    { apply andb_true_iff in En as [_ En]. apply negb_true_iff in En. destruct Hs as (A & B & C & D). split; [exact A|]. split; [|auto]. intro X. destruct (B X) as (B1 & B2 & B3 & B4). auto. }
    apply negb_false_iff in Ea.
    destruct (negb (pp_present (pr s))) eqn:Ep.
    { apply negb_true_iff in Ep. destruct Hs as (A & B & C & D). split; [exact A|]. split; [|auto]. intro X. destruct (B X) as (B1 & B2 & B3 & B4).
      split; [auto|]. split; [|auto]. unfold Ph. intros _ Y _. exfalso. destruct B1 as (_ & _ & _ & K & _). specialize (K Y Ea). congruence. }
    apply negb_false_iff in Ep. clear Hs.
    destruct (payload_feed H hnew hstep havail heof hflush f s data) as [s1 r] eqn:Ef.
    destruct (payload_feed_Q _ _ _ _ _ Ef) as (Q1 & R1).
    pose proof Q1 as (T1 & T2 & T3 & T4 & T5 & T6 & T7 & T8 & T9 & T10 & T11 & T12 & T13 & T14).
    pose proof (T1 Hw) as Hw1.
    destruct r as [| |rest|e].
    - (* NEEDS_INPUT *)
      match goal with |- context [pr_set H s1 ?g] => destruct (pr_set_proj s1 g) as (U1 & U2 & U3 & U4); set (s' := pr_set H s1 g) in * end. clearbody s'.
      split; [unfold W in *; rewrite U3; exact Hw1|]. split; [|split; [rewrite U3, T13; auto|rewrite U1; cbn; exact T8]].
      rewrite U3, T13. intro X. specialize (Hf X). destruct R1 as (_ & RN & _). specialize (RN eq_refl).
      assert (NC : ptyp (pa s) <> PChunked -> more (pa s1) = false /\ pdone (pa s1) = pdone (pa s) /\ (shape s -> False)).
      { intro Ht. destruct (payload_feed_nc _ _ _ _ _ Ht Ef) as (N1 & N2 & N3). split; [auto|]. split; [apply N2; intros x Y; discriminate Y|].
        intro Hsh. destruct (N3 Hsh) as (N4 & _). apply N4; reflexivity. }
      unfold Fb, Ph, Pg, Pt, nonempty, shape in *. rewrite ?U1, ?U2, ?U3. cbn. rewrite ?T7, ?T8, ?T9, ?T10, ?T12.
      destruct Hf as (F1 & F2 & F3 & F4 & F5 & F6 & F7). destruct (F3 Ea Ep) as (F31 & F32).
      clear F3 Ef Q1 T1 T4 T6 T13 T14 U4 Hw1 En. specialize (T2 Hw). clear Hw. rewrite Ea, Ep in *. prep s; fin2.
    - (* HAS_PENDING_INPUT *)
      match goal with |- context [pr_set H s1 ?g] => destruct (pr_set_proj s1 g) as (U1 & U2 & U3 & U4); set (s' := pr_set H s1 g) in * end. clearbody s'.
      split; [unfold W in *; rewrite U3; exact Hw1|]. split; [|split; [rewrite U3, T13; auto|rewrite U1; cbn; exact T8]].
      rewrite U3, T13. intro X. specialize (Hf X). destruct R1 as (RP & _ & _). destruct (RP eq_refl) as (RP1 & RP2).
      destruct Hf as (F1 & F2 & F3 & F4 & F5 & F6 & F7). destruct (F3 Ea Ep) as (F31 & F32).
      assert (Hq : Pq s) by (unfold Pq; congruence). pose proof (RP1 Hw Hq) as Hne.
      assert (NC : ptyp (pa s) <> PChunked -> pdone (pa s1) = pdone (pa s) /\ (shape s -> shape s1)).
      { intro Ht. destruct (payload_feed_nc _ _ _ _ _ Ht Ef) as (N1 & N2 & N3). split; [apply N2; intros x Y; discriminate Y|].
        intro Hsh. destruct (N3 Hsh) as (_ & N5). apply N5; reflexivity. }
      unfold Fb, Ph, Pg, Pt, nonempty, shape in *. rewrite ?U1, ?U2, ?U3. cbn. rewrite ?T7, ?T8, ?T9, ?T10, ?T12.
      clear F3 Ef Q1 T1 T4 T6 T13 T14 U4 Hw1 En RP RP1 Hq. specialize (T2 Hw). clear Hw. rewrite Ea, Ep in *. prep s; fin2.
    - (* COMPLETE *)
      match goal with |- context [pr_set H s1 ?g] => destruct (pr_set_proj s1 g) as (U1 & U2 & U3 & U4); set (s' := pr_set H s1 g) in * end. clearbody s'.
      split; [unfold W in *; rewrite U3; exact Hw1|]. split; [|split; [rewrite U3, T13; auto|rewrite U1; cbn; exact T8]].
      rewrite U3, T13. intro X. specialize (Hf X). destruct R1 as (_ & _ & RC). pose proof (RC rest eq_refl) as Heof.
      destruct Hf as (F1 & F2 & F3 & F4 & F5 & F6 & F7).
      unfold Fb, Ph, Pg, Pt, nonempty, shape in *. rewrite ?U1, ?U2, ?U3. cbn. rewrite ?T7, ?T8, ?T9, ?T10, ?T12.
      fin2.
    - (* raises: the payload gets the exception *)
      destruct (exn_proj s1 e) as (E1 & E2 & E3 & E4 & E5). cbv zeta.
      destruct (is_framing e);
        match goal with |- context [pr_set H ?t ?g] => destruct (pr_set_proj t g) as (U1 & U2 & U3 & U4); set (s' := pr_set H t g) in * end; clearbody s';
        (split; [unfold W in *; rewrite U3; apply E5; exact Hw1|]);
        (split; [rewrite U3, E4; intro A; discriminate A|]); (split; [rewrite U3, E4; intro A; discriminate A|]);
        rewrite U1, E1; cbn; exact T8.
  Qed.

  Definition Inv (s : st) : Prop := W s /\ (rexn (re s) = None -> Fb s /\ Ph s /\ Pg s /\ Pt s).

  (* connection_lost *)
  Lemma connection_lost_F f s : Inv s -> Inv (connection_lost H hnew hstep havail heof hflush f s).
  Proof.
    intros (Hw & Hf). unfold connection_lost.
    destruct (if parser_alive (pr s) && pp_present (pr s) then _ else _) as [s1 keep] eqn:Ex.
    destruct (pr_set_proj s1 (fun p => mkProt false (tpaused p) false (keep && parser_alive p) (pp_present p) (keep || has_more p) false)) as (U1 & U2 & U3 & U4).
    match goal with |- Inv ?t => set (s' := t) in * end. clearbody s'.
    destruct (parser_alive (pr s) && pp_present (pr s)) eqn:Eap.
    - apply andb_true_iff in Eap as [Ea Ep].
      destruct (payload_feed_eof H hnew hstep havail heof hflush f s) as [s2 [e|]] eqn:Ef; destruct (payload_feed_eof_Q _ _ _ _ Ef) as (Q1 & R1);
        pose proof Q1 as (T1 & T2 & T3 & T4 & T5 & T6 & T7 & T8 & T9 & T10 & T11 & T12 & T13 & T14).
      + inversion Ex; subst s1 keep. destruct (exn_proj s2 e) as (E1 & E2 & E3 & E4 & E5).
        split; [unfold W in *; rewrite U3; apply E5; apply T1; exact Hw|]. rewrite U3, E4. intro X; discriminate X.
      + destruct (pdone (pa s2)) eqn:Ed; inversion Ex; subst s1 keep.
        * match type of U1 with context [pr_set H s2 ?g] => destruct (pr_set_proj s2 g) as (V1 & V2 & V3 & V4) end.
          split; [unfold W in *; rewrite U3, V3; apply T1; exact Hw|]. rewrite U3, V3, T13. intro X. destruct (Hf X) as (Fbs & Phs & Pgs & Pts).
          destruct Fbs as (F1 & F2 & F3 & F4 & F5 & F6 & F7). destruct (F3 Ea Ep) as (F31 & F32).
          assert (Heof : reof (re s2) = true).
          { destruct (ptyp (pa s)) eqn:Et.
            - destruct (F32 ltac:(congruence)) as (F33 & _). destruct (R1 eq_refl F33) as [(_ & X1)|(X1 & _)]; [exact X1|congruence].
            - unfold payload_feed_eof in Ef. rewrite Et in Ef. discriminate Ef.
            - destruct (F32 ltac:(congruence)) as (F33 & _). destruct (R1 eq_refl F33) as [(_ & X1)|(X1 & _)]; [exact X1|congruence]. }
          unfold Fb, Ph, Pg, Pt, nonempty, shape. rewrite ?U1, ?U2, ?U3, ?V1, ?V2, ?V3. cbn. fin2.
        * split; [unfold W in *; rewrite U3; apply T1; exact Hw|]. rewrite U3, T13. intro X. destruct (Hf X) as (Fbs & Phs & Pgs & Pts).
          destruct Fbs as (F1 & F2 & F3 & F4 & F5 & F6 & F7). destruct (F3 Ea Ep) as (F31 & F32).
          assert (Hk : ptyp (pa s) <> PChunked /\ nonempty s2 /\ ppaused (pa s2) = false /\ more (pa s2) = true /\ shape s2).
          { destruct (ptyp (pa s)) eqn:Et.
            - destruct (F32 ltac:(congruence)) as (F33 & F34). destruct (R1 eq_refl F33) as [(X1 & _)|(_ & X2 & X3 & X4 & X5)]; [congruence|].
              split; [congruence|]. split; [apply X2; intro Y; congruence|auto].
            - unfold payload_feed_eof in Ef. rewrite Et in Ef. discriminate Ef.
            - destruct (F32 ltac:(congruence)) as (F33 & F34). destruct (R1 eq_refl F33) as [(X1 & _)|(_ & X2 & X3 & X4 & X5)]; [congruence|].
              split; [congruence|]. split; [apply X2; intro Y; congruence|auto]. }
          destruct Hk as (K1 & K2 & K3 & K4 & K5).
          unfold Fb, Ph, Pg, Pt, nonempty, shape in *. rewrite ?U1, ?U2, ?U3. cbn. rewrite ?T7, ?T9, ?T10. rewrite ?Ea, ?Ep. cbn.
          destruct (F32 K1) as (F33 & F34). fin2.
    - inversion Ex; subst s1 keep.
      split; [unfold W in *; rewrite U3; exact Hw|]. rewrite U3. intro X. destruct (Hf X) as (Fbs & Phs & Pgs & Pts).
      destruct Fbs as (F1 & F2 & F3 & F4 & F5 & F6 & F7).
      unfold Fb, Ph, Pg, Pt, nonempty, shape in *. rewrite ?U1, ?U2, ?U3. cbn.
      apply andb_false_iff in Eap. destruct (connected (pr s)) eqn:Ec; destruct (parser_alive (pr s)) eqn:Ea; destruct (pp_present (pr s)) eqn:Ep; fin2.
  Qed.

  (* BaseProtocol.resume_reading *)
  Lemma resume_F f s :
    W s -> (rexn (re s) = None -> Fb s) -> Inv (resume_reading H hnew hstep havail heof hflush f s).
  Proof.
    intros Hw Hf. unfold resume_reading. cbv zeta.
    match goal with |- context [parser_feed H hnew hstep havail heof hflush f ?t []] => set (s1 := t) end.
    assert (H1 : W s1 /\ (rexn (re s1) = None -> Fb s1) /\ Pg s1 /\ rpaused (pr s1) = false).
    { subst s1. match goal with |- context [pr_set H s ?g] => destruct (pr_set_proj s g) as (U1 & U2 & U3 & U4) end.
      split; [unfold W in *; rewrite U3; exact Hw|]. split; [|split; [unfold Pg; rewrite U1; cbn; intros _ X; discriminate X|rewrite U1; reflexivity]].
      rewrite U3. intro X. specialize (Hf X). unfold Fb, shape, nonempty in *. rewrite ?U1, ?U2, ?U3. cbn. exact Hf. }
    clearbody s1. destruct H1 as (Hw1 & Hf1 & Hg1 & Hr1).
    destruct (parser_feed_F f s1 [] Hw1 Hf1) as (Hw2 & Hf2 & _ & _). cbv zeta in *.
    set (s2 := parser_feed H hnew hstep havail heof hflush f s1 []) in *. clearbody s2.
    destruct (negb (rpaused (pr s2)) && connected (pr s2)) eqn:Er.
    - apply andb_true_iff in Er as [Er1 Er2]. apply negb_true_iff in Er1.
      match goal with |- context [pr_set H s2 ?g] => destruct (pr_set_proj s2 g) as (U1 & U2 & U3 & U4); set (s' := pr_set H s2 g) in * end. clearbody s'.
      split; [unfold W in *; rewrite U3; exact Hw2|]. rewrite U3. intro X. destruct (Hf2 X) as (Fbs & Phs & G & T).
      unfold Fb, Ph, Pg, Pt, nonempty, shape in *. rewrite ?U1, ?U2, ?U3. cbn. fin2.
    - split; [exact Hw2|]. intro X. destruct (Hf2 X) as (Fbs & Phs & G & T). split; [exact Fbs|]. split; [exact Phs|]. split; [auto|].
      unfold Pt. intros Hc Ht. rewrite Hc in Er. rewrite andb_true_r in Er. apply negb_false_iff in Er. exact Er.
  Qed.

  (* _read_nowait_chunk keeps the reader well formed *)
  Lemma Wr_take blk0 rest rs lo hi lc hc eo ex tt cu sp w dl (data : bytes) buf' w' dl' :
    Wr (mkRd (blk0 :: rest) rs lo hi lc hc eo ex tt cu sp w dl) ->
    lenN data + lenN (concat buf') = lenN (concat (blk0 :: rest)) ->
    Wr (mkRd buf' (rs - lenN data) lo hi lc hc eo ex tt (cu + lenN data)
             (match sp with Some l => Some (drop_stale l (cu + lenN data)) | None => None end) w' dl').
  Proof.
    unfold Wr; cbn [rsize buf total cursor splits low lowc highc]. intros (A & B & C & D) Hl. repeat split; try tauto; try lia.
    destruct sp as [l|]; [|exact I]. eapply drop_stale_incr; eauto.
  Qed.

  Lemma rd_take_F f s n s' dd : Inv s -> rd_take H hnew hstep havail heof hflush f s n = (s', dd) -> Inv s'.
  Proof.
    intros Hi. unfold rd_take. destruct (buf (re s)) as [|blk0 rest] eqn:Eb; [intros [= <- <-]; exact Hi|].
    match goal with |- (let '(data, buf') := ?x in _) = _ -> _ => destruct x as [data buf'] eqn:Ex end.
    assert (Hlen : lenN data + lenN (concat buf') = lenN (concat (blk0 :: rest))).
    { cbn [concat]. rewrite lenN_app. destruct n as [k|].
      - destruct (k <? lenN blk0) eqn:Ek; inversion Ex; subst; cbn [concat]; rewrite ?lenN_app; [pose proof (take_drop_len k blk0); lia|lia].
      - inversion Ex; subst. lia. }
    cbv zeta.
    match goal with |- context [set_re H s ?r] => set (r1 := r) end.
    set (s1 := set_re H s r1).
    destruct Hi as (Hw & Hf).
    assert (I1 : W s1 /\ (rexn (re s1) = None -> Fb s1 /\ Pt s1 /\ (buf' <> [] \/ reof (re s) = true -> Ph s1 /\ Pg s1)) /\
                 re s1 = r1 /\ rexn r1 = rexn (re s)).
    { subst s1 r1. clear Ex. bust s. cbn in Eb. subst bf. unfold set_re. cbn.
      split; [unfold W in *; cbn in *; eapply Wr_take; eassumption|]. split; [|split; reflexivity].
      intro X. destruct (Hf X) as (Fbs & Phs & Pgs & Pts). unfold Fb, Ph, Pg, Pt, nonempty, shape in *. cbn in *. fin2. }
    destruct I1 as (Hw1 & Hf1 & Hre & Hrx).
    match goal with |- ((if ?x then _ else _), _) = _ -> _ => destruct x eqn:Ec end; intros [= <- <-].
    - apply resume_F; [exact Hw1|]. intro X. destruct (Hf1 X) as (A & _). exact A.
    - split; [exact Hw1|]. intro X. destruct (Hf1 X) as (A & B & C).
      destruct (reof (re s)) eqn:Ere; [destruct (C (or_intror eq_refl)) as (C1 & C2); auto|].
      assert (Hne : buf' <> []).
      { intro Hn. unfold W in Hw1. rewrite Hre in Hw1. subst r1. cbn in Ec. try rewrite Ere in Ec. unfold dg_resume_not_eof in Ec. cbn [negb andb] in Ec.
        pose proof Hw1 as (W1 & W2 & W3 & W4 & W5 & W6). cbn in W1, W4, W5.
        rewrite Hn in W1. cbn in W1.
        destruct (splits (re s)) as [l|] eqn:Es.
        - pose proof (Wr_empty_splits _ (drop_stale l (cursor (re s) + lenN data)) Hw1 Hn eq_refl) as Hl.
          unfold dg_resume_size, dg_resume_chunks in Ec. rewrite W1 in Ec.
          destruct (0 <? low (re s)) eqn:E0; [|lia]. destruct (lenN (drop_stale l (cursor (re s) + lenN data)) <? lowc (re s)) eqn:E1; [|lia].
          cbn in Ec. discriminate Ec.
        - unfold dg_resume_size in Ec. rewrite W1 in Ec. destruct (0 <? low (re s)) eqn:E0; [cbn in Ec; discriminate Ec|lia]. }
      destruct (C (or_introl Hne)) as (C1 & C2). auto.
  Qed.

  Lemma take_k_F f k : forall s acc s' dd, Inv s -> take_k H hnew hstep havail heof hflush f k s acc = (s', dd) -> Inv s'.
  Proof.
    induction k as [|k IH]; intros s acc s' dd Hi; cbn [take_k]; [intros [= <- <-]; exact Hi|].
    destruct (rd_take H hnew hstep havail heof hflush f s None) as [s1 d1] eqn:Et. intros Hk.
    eapply IH; [|exact Hk]. eapply rd_take_F; eauto.
  Qed.

  Lemma read_upto_F f g : forall s n acc s' dd, Inv s -> read_upto H hnew hstep havail heof hflush f g s n acc = (s', dd) -> Inv s'.
  Proof.
    induction g as [|g IH]; intros s n acc s' dd Hi; cbn [read_upto]; [intros [= <- <-]; exact Hi|].
    destruct (isnil (buf (re s))); [intros [= <- <-]; exact Hi|].
    destruct (rd_take H hnew hstep havail heof hflush f s (Some n)) as [s1 d1] eqn:Et.
    assert (I1 : Inv s1) by (eapply rd_take_F; eauto).
    destruct (n - lenN d1 =? 0); [intros [= <- <-]; exact I1|]. intros Hk. eapply IH; eauto.
  Qed.

  Lemma set_chunk_F s n : Inv s -> Inv (set_chunk_size H s n).
  Proof.
    intros Hi. unfold set_chunk_size. destruct (dg_raises n (low (re s))) eqn:Er; [|exact Hi].
    unfold dg_raises, dg_raise_low in *. destruct Hi as (Hw & Hf). bust s. unfold Inv, W, Wr, Fb, Ph, Pg, Pt, nonempty, shape in *. unfold set_re. cbn in *.
    split; [repeat split; try tauto; lia|]. exact Hf.
  Qed.

  Lemma set_wt_F s w0 : Inv s -> Inv (set_wt H s w0).
  Proof. intros Hi. bust s. unfold Inv, W, Wr, Fb, Ph, Pg, Pt, nonempty, shape in *. unfold set_wt, set_re. cbn in *. exact Hi. Qed.

  Lemma op_body_F f s o s' r : Inv s -> op_body H hnew hstep havail heof hflush f s o = (s', r) -> Inv s'.
  Proof.
    intros Hi. unfold op_body. cbv zeta.
    destruct (isnil (buf (re s)) && negb (reof (re s))).
    - destruct (rexn (re s)); [|destruct (connected (pr s))]; intros [= <- <-]; apply set_wt_F; exact Hi.
    - pose proof (set_wt_F s WNone Hi) as H1. destruct o as [|n|n].
      + destruct (take_k H hnew hstep havail heof hflush f (length (buf (re s))) (set_wt H s WNone) []) as [s1 dd] eqn:Et.
        intros [= <- <-]. eapply take_k_F; eauto.
      + destruct (read_upto H hnew hstep havail heof hflush f f (set_wt H s WNone) n []) as [s1 [dd|]] eqn:Et;
          intros [= <- <-]; eapply read_upto_F; eauto.
      + intros [= <- <-]. exact H1.
  Qed.

  Lemma op_start_F f s o s' r : Inv s -> op_start H hnew hstep havail heof hflush f s o = (s', r) -> Inv s'.
  Proof.
    intros Hi. unfold op_start. destruct o as [|n|n].
    - destruct (rexn (re s)); [intros [= <- <-]; exact Hi|]. apply op_body_F; exact Hi.
    - destruct (rexn (re s)); [intros [= <- <-]; exact Hi|]. destruct (n =? 0); [intros [= <- <-]; exact Hi|].
      apply op_body_F. apply set_chunk_F; exact Hi.
    - intros [= <- <-]. apply set_chunk_F; exact Hi.
  Qed.

  Lemma op_wake_F f s o s' r : Inv s -> op_wake H hnew hstep havail heof hflush f s o = (s', r) -> Inv s'.
  Proof.
    intros Hi. unfold op_wake. destruct (wt (re s)).
    - intros [= <- <-]; exact Hi.
    - intros [= <- <-]; exact Hi.
    - destruct (op_body H hnew hstep havail heof hflush f s o) as [s1 r1] eqn:Eo. intros [= <- <-]. eapply op_body_F; eauto.
    - intros [= <- <-]. apply set_wt_F; exact Hi.
  Qed.

  Lemma poll_F f (y y' : sys) o : Inv (core y) -> poll H hnew hstep havail heof hflush f y = (y', o) -> Inv (core y').
  Proof.
    intros Hi. unfold poll. destruct (pend y) as [op0|]; [|intros [= <- <-]; exact Hi].
    destruct (op_wake H hnew hstep havail heof hflush f (core y) op0) as [s1 [r|]] eqn:Ew;
      pose proof (op_wake_F _ _ _ _ _ Hi Ew) as I1; [destruct r|]; intros [= <- <-]; exact I1.
  Qed.

  Lemma settle_F f (y : sys) (o : obs) (y' : sys) (o' : obs) :
    Inv (core y) -> settle H hnew hstep havail heof hflush f (y, o) = (y', o') -> Inv (core y').
  Proof.
    intros Hi. unfold settle. destruct (closing (pr (core y))) eqn:Ec; [|intros [= <- <-]; exact Hi].
    destruct (poll H hnew hstep havail heof hflush f (mkSys H (connection_lost H hnew hstep havail heof hflush f (core y)) (pend y))) as [y1 o1] eqn:Ep.
    intros [= <- _]. eapply poll_F in Ep; [exact Ep|]. cbn [core]. apply connection_lost_F; exact Hi.
  Qed.

  Lemma parser_feed_Inv f s data : Inv s -> Inv (parser_feed H hnew hstep havail heof hflush f s data).
  Proof.
    intros (Hw & Hf). destruct (parser_feed_F f s data Hw (fun X => proj1 (Hf X))) as (Hw' & Hf' & Hx & _). cbv zeta in *.
    split; [exact Hw'|]. intro X. destruct (Hf' X) as (A & B & C & D). destruct (Hf (Hx X)) as (_ & _ & G & T). auto.
  Qed.

  Lemma step_F f (y y' : sys) ev o : Inv (core y) -> step H hnew hstep havail heof hflush f y ev = (y', o) -> Inv (core y').
  Proof.
    intros Hi. unfold step. cbv zeta. destruct ev as [dd| |op0].
    - destruct (deliverable H (core y) && pp_present (pr (core y)) && parser_alive (pr (core y)) && negb (isnil dd)); [|intros [= <- <-]; exact Hi].
      intros Hs.
      destruct (poll H hnew hstep havail heof hflush f (mkSys H (parser_feed H hnew hstep havail heof hflush f (core y) dd) (pend y))) as [y1 o1] eqn:Ep.
      eapply poll_F in Ep; [|cbn [core]; apply parser_feed_Inv; exact Hi]. eapply settle_F in Hs; [exact Hs|exact Ep].
    - destruct (deliverable H (core y) && pp_present (pr (core y)) && parser_alive (pr (core y))); [|intros [= <- <-]; exact Hi].
      intros Hp. eapply poll_F in Hp; [exact Hp|]. cbn [core]. apply connection_lost_F; exact Hi.
    - destruct (pend y); [intros [= <- <-]; exact Hi|].
      destruct (op_start H hnew hstep havail heof hflush f (core y) op0) as [s1 r] eqn:Eo.
      pose proof (op_start_F _ _ _ _ _ Hi Eo) as J.
      destruct r as [dd| |e].
      + intros Hs. eapply settle_F in Hs; [exact Hs|exact J].
      + destruct (settle H hnew hstep havail heof hflush f (mkSys H s1 (Some op0), ONone)) as [y1 o1] eqn:Es.
        eapply settle_F in Es; [|exact J]. destruct o1; intros [= <- <-]; exact Es.
      + intros Hs. eapply settle_F in Hs; [exact Hs|exact J].
  Qed.

  Lemma run_F f : forall evs (y y' : sys) os, Inv (core y) -> run H hnew hstep havail heof hflush f y evs = (y', os) -> Inv (core y').
  Proof.
    induction evs as [|ev evs IH]; intros y y' os Hi; cbn [run]; [intros [= <- <-]; exact Hi|].
    destruct (step H hnew hstep havail heof hflush f y ev) as [y1 o] eqn:Es.
    destruct (run H hnew hstep havail heof hflush f y1 evs) as [y2 os2] eqn:Er. intros [= <- <-].
    eapply IH; [|exact Er]. eapply step_F; eauto.
  Qed.

  Lemma init_F c t len enc : 1 <= c_limit c -> Inv (core (init H hnew c t len enc)).
  Proof.
    intros Hl. unfold init, Inv, W, Wr, Fb, Ph, Pg, Pt, nonempty, shape. cbn. unfold dg_low, dg_lowc, dg_highc.
    split; [repeat split; auto; try lia|].
    intros _. repeat split; intros; try discriminate; try congruence; auto.
  Qed.

  (* ---- the two theorems ------------------------------------------------------------------------------------ *)
  Theorem progress_all : forall f c t len enc evs (y : sys) os,
    1 <= c_limit c ->
    run H hnew hstep havail heof hflush f (init H hnew c t len enc) evs = (y, os) ->
    rexn (re (core y)) = None -> reof (re (core y)) = false -> connected (pr (core y)) = true -> buf (re (core y)) = [] ->
    has_more (pr (core y)) = false /\ rpaused (pr (core y)) = false /\ tpaused (pr (core y)) = false.
  Proof.
    intros f c t len enc evs y os Hl Hr Hx Hn Hc He.
    destruct (run_F f evs _ _ _ (init_F c t len enc Hl) Hr) as (Hw & Hf). destruct (Hf Hx) as (Fbs & Phs & Pgs & Pts).
    destruct Fbs as (F1 & F2 & _). unfold Ph, Pg, Pt, nonempty in *.
    assert (R : rpaused (pr (core y)) = false). { destruct (rpaused (pr (core y))); [exfalso; apply Pgs; auto|reflexivity]. }
    split; [|split; [exact R|]].
    - destruct (has_more (pr (core y))); [exfalso; apply Phs; auto|reflexivity].
    - destruct (tpaused (pr (core y))); [rewrite Pts in R; auto; discriminate|reflexivity].
  Qed.

  Theorem reaches_eof_all : forall f c t len enc evs (y : sys) os,
    1 <= c_limit c ->
    run H hnew hstep havail heof hflush f (init H hnew c t len enc) evs = (y, os) ->
    connected (pr (core y)) = false -> buf (re (core y)) = [] ->
    reof (re (core y)) = true \/ rexn (re (core y)) <> None.
  Proof.
    intros f c t len enc evs y os Hl Hr Hc He.
    destruct (run_F f evs _ _ _ (init_F c t len enc Hl) Hr) as (Hw & Hf).
    destruct (rexn (re (core y))) eqn:Hx; [right; discriminate|left].
    destruct (Hf eq_refl) as (Fbs & Phs & Pgs & Pts). destruct Fbs as (F1 & F2 & F3 & F4 & F5 & F6 & F7).
    destruct (parser_alive (pr (core y))) eqn:Ea; [|auto].
    destruct (pp_present (pr (core y))) eqn:Ep; [|auto].
    destruct (reof (re (core y))) eqn:Hn; [reflexivity|].
    exfalso. destruct (F6 Hc eq_refl eq_refl) as (Hm & _). unfold Ph, nonempty in Phs. apply Phs; auto.
  Qed.
End Progress.
