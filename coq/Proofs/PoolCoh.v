(* C07 — coherence between the waiter queue, the woken set and the task program counters. *)
From AV Require Import Lib.Base Generated.PoolGen Model.Pool Proofs.PoolLimit.
Open Scope N_scope.

Definition wtask (x : task * key * bool) : task := fst (fst x).

Definition fs_of (b : bool) : fstate := if b then FCancelled else FPending.

Definition is_woken_pc (p : pc) : Prop :=
  exists k, p = PWaiting k FWoken \/ p = PWaiting k FWokenCancel.

Definition coh (s : state) : Prop :=
  (forall t k b, In (t, k, b) (waiters s) -> get_pc (pcs s) t = PWaiting k (fs_of b)) /\
  NoDup (map wtask (waiters s)) /\
  (forall t, In t (woken s) -> is_woken_pc (get_pc (pcs s) t)) /\
  NoDup (woken s).

(* ---- get_pc / set_pc ------------------------------------------------------------------------ *)

Lemma get_set_same l t p : get_pc (set_pc l t p) t = p.
Proof. unfold set_pc. cbn [get_pc]. rewrite N.eqb_refl. reflexivity. Qed.

Lemma get_filter_other l t t' :
  t' <> t -> get_pc (filter (fun x => negb (fst x =? t)) l) t' = get_pc l t'.
Proof.
  intro Hne. induction l as [|[u p] l IH]; cbn [filter get_pc fst]; [reflexivity|].
  destruct (u =? t) eqn:E; cbn [negb].
  - apply N.eqb_eq in E. subst u. destruct (t =? t') eqn:E2.
    + apply N.eqb_eq in E2. congruence.
    + exact IH.
  - cbn [get_pc]. destruct (u =? t'); [reflexivity|exact IH].
Qed.

Lemma get_set_other l t p t' : t' <> t -> get_pc (set_pc l t p) t' = get_pc l t'.
Proof.
  intro Hne. unfold set_pc. cbn [get_pc]. destruct (t =? t') eqn:E.
  - apply N.eqb_eq in E. congruence.
  - apply get_filter_other. exact Hne.
Qed.

(* ---- consequences of coherence --------------------------------------------------------------- *)

Lemma coh_no_entry s t :
  coh s -> (forall k b, get_pc (pcs s) t <> PWaiting k (fs_of b)) ->
  forall k b, ~ In (t, k, b) (waiters s).
Proof. intros (C & _) H k b Hin. apply (H k b). apply C. exact Hin. Qed.

Lemma coh_no_task s t :
  coh s -> (forall k b, get_pc (pcs s) t <> PWaiting k (fs_of b)) -> ~ In t (map wtask (waiters s)).
Proof.
  intros C H Hin. apply in_map_iff in Hin as ([[t' k] b] & E & Hin). unfold wtask in E. cbn in E. subst t'.
  exact (coh_no_entry s t C H k b Hin).
Qed.

Lemma coh_not_woken s t : coh s -> ~ is_woken_pc (get_pc (pcs s) t) -> ~ In t (woken s).
Proof. intros (_ & _ & C & _) H Hin. apply H. apply C. exact Hin. Qed.

Lemma coh_same s s' :
  waiters s' = waiters s -> woken s' = woken s -> pcs s' = pcs s -> coh s -> coh s'.
Proof. unfold coh. intros -> -> ->. tauto. Qed.

(* setting the pc of a task that has no queue entry *)
Lemma coh_with_pc s t p :
  coh s -> ~ In t (map wtask (waiters s)) -> (In t (woken s) -> is_woken_pc p) ->
  coh (with_pc s t p).
Proof.
  intros (C1 & C2 & C3 & C4) Hno Hw. unfold coh. cbn [with_pc waiters woken pcs]. repeat split; auto.
  - intros t' k b Hin. assert (t' <> t).
    { intro; subst t'. apply Hno. apply in_map_iff. exists (t, k, b). split; [reflexivity|exact Hin]. }
    rewrite get_set_other by assumption. apply C1. exact Hin.
  - intros t' Hin. destruct (N.eq_dec t' t) as [->|Hne].
    + rewrite get_set_same. apply Hw. exact Hin.
    + rewrite get_set_other by assumption. apply C3. exact Hin.
Qed.

Lemma not_woken_pc_idle : ~ is_woken_pc PIdle.
Proof. intros (k & [H|H]); discriminate. Qed.
Lemma not_woken_pc_creating k : ~ is_woken_pc (PCreating k).
Proof. intros (k' & [H|H]); discriminate. Qed.
Lemma not_woken_pc_holding k c : ~ is_woken_pc (PHolding k c).
Proof. intros (k' & [H|H]); discriminate. Qed.
Lemma not_woken_pc_pending k b : ~ is_woken_pc (PWaiting k (fs_of b)).
Proof. intros (k' & [H|H]); destruct b; discriminate. Qed.

(* enqueue a fresh pending waiter (at either end) *)
Lemma coh_enqueue s t k w' :
  coh s -> ~ In t (map wtask (waiters s)) -> ~ In t (woken s) ->
  (forall x, In x w' <-> x = (t, k, false) \/ In x (waiters s)) ->
  NoDup (map wtask w') ->
  coh (with_pc (with_waiters s w') t (PWaiting k FPending)).
Proof.
  intros (C1 & C2 & C3 & C4) Hno Hnw Hw' Hnd. unfold coh. cbn [with_pc with_waiters waiters woken pcs].
  repeat split; auto.
  - intros t' k' b Hin. apply Hw' in Hin as [E|Hin].
    + injection E as -> -> ->. rewrite get_set_same. reflexivity.
    + assert (t' <> t).
      { intro; subst t'. apply Hno. apply in_map_iff. exists (t, k', b). split; [reflexivity|exact Hin]. }
      rewrite get_set_other by assumption. apply C1. exact Hin.
  - intros t' Hin. assert (t' <> t) by (intro; subst; contradiction).
    rewrite get_set_other by assumption. apply C3. exact Hin.
Qed.

(* ---- wake_key --------------------------------------------------------------------------------- *)

Lemma wake_key_sub k w : forall w' o, wake_key k w = (w', o) -> forall x, In x w' -> In x w.
Proof.
  induction w as [|[[t k'] b] r IH]; intros w' o H x Hx; cbn [wake_key] in H.
  - injection H as <- <-. exact Hx.
  - destruct (k' =? k).
    + destruct b.
      * right. eapply IH; eauto.
      * injection H as <- <-. right. exact Hx.
    + destruct (wake_key k r) as [r' o'] eqn:E. injection H as <- <-.
      destruct Hx as [<-|Hx]; [left; reflexivity|right; eapply IH; eauto].
Qed.

Lemma wake_key_nodup k w : forall w' o,
  wake_key k w = (w', o) -> NoDup (map wtask w) -> NoDup (map wtask w').
Proof.
  induction w as [|[[t k'] b] r IH]; intros w' o H Hnd; cbn [wake_key] in H.
  - injection H as <- <-. exact Hnd.
  - cbn [map] in Hnd. inversion Hnd as [|? ? Hnotin Hnd']; subst. destruct (k' =? k).
    + destruct b; [eapply IH; eauto|]. injection H as <- <-. exact Hnd'.
    + destruct (wake_key k r) as [r' o'] eqn:E. injection H as <- <-. cbn [map]. constructor.
      * intro Hin. apply Hnotin. apply in_map_iff in Hin as (x & Ex & Hx).
        apply in_map_iff. exists x. split; [exact Ex|]. eapply wake_key_sub; eauto.
      * eapply IH; eauto.
Qed.

Lemma wake_key_some k w : forall w' t,
  wake_key k w = (w', Some t) -> In (t, k, false) w.
Proof.
  induction w as [|[[t0 k'] b] r IH]; intros w' t H; cbn [wake_key] in H.
  - discriminate.
  - destruct (k' =? k) eqn:Ek.
    + apply N.eqb_eq in Ek. subst k'. destruct b.
      * right. eapply IH; eauto.
      * injection H as <- <-. left. reflexivity.
    + destruct (wake_key k r) as [r' o'] eqn:E. injection H as <- ->. right. eapply IH; eauto.
Qed.

Lemma wake_key_some_gone k w : forall w' t,
  wake_key k w = (w', Some t) -> NoDup (map wtask w) -> ~ In t (map wtask w').
Proof.
  induction w as [|[[t0 k'] b] r IH]; intros w' t H Hnd; cbn [wake_key] in H.
  - discriminate.
  - cbn [map] in Hnd. inversion Hnd as [|? ? Hnotin Hnd']; subst. destruct (k' =? k) eqn:Ek.
    + destruct b; [eapply IH; eauto|]. injection H as <- <-. exact Hnotin.
    + destruct (wake_key k r) as [r' o'] eqn:E. injection H as <- ->. cbn [map]. intros [E1|Hin].
      * unfold wtask in E1. cbn in E1. subst t0. apply Hnotin.
        apply wake_key_some in E. apply in_map_iff. exists (t, k, false). split; [reflexivity|exact E].
      * eapply IH; eauto.
Qed.

Lemma wake_key_none k w : forall w',
  wake_key k w = (w', None) -> forall t, ~ In (t, k, false) w.
Proof.
  induction w as [|[[t0 k'] b] r IH]; intros w' H t Hin; cbn [wake_key] in H.
  - exact Hin.
  - destruct (k' =? k) eqn:Ek.
    + destruct b; [|discriminate]. destruct Hin as [E|Hin]; [discriminate|]. eapply IH; eauto.
    + destruct (wake_key k r) as [r' o'] eqn:E. injection H as <- ->.
      destruct Hin as [E1|Hin].
      * injection E1 as -> -> ->. rewrite N.eqb_refl in Ek. discriminate.
      * eapply IH; eauto.
Qed.

(* ---- release_loop ----------------------------------------------------------------------------- *)

Lemma release_loop_coh c order : forall s, coh s -> coh (release_loop c s order).
Proof.
  induction order as [|k r IH]; intros s C; cbn [release_loop]; [exact C|].
  destruct (release_skips_key (avail c s k)); [apply IH; exact C|].
  destruct (wake_key k (waiters s)) as [w' [t|]] eqn:E.
  - destruct C as (C1 & C2 & C3 & C4).
    pose proof (wake_key_some _ _ _ _ E) as Hin.
    pose proof (wake_key_some_gone _ _ _ _ E C2) as Hgone.
    pose proof (wake_key_nodup _ _ _ _ E C2) as Hnd.
    assert (Hnw : ~ In t (woken s)).
    { intro Hw. apply C3 in Hw. rewrite (C1 _ _ _ Hin) in Hw. exact (not_woken_pc_pending k false Hw). }
    unfold coh. cbn [with_pc with_woken with_waiters waiters woken pcs]. repeat split.
    + intros t' k' b Hx. assert (t' <> t).
      { intro; subst t'. apply Hgone. apply in_map_iff. exists (t, k', b). split; [reflexivity|exact Hx]. }
      rewrite get_set_other by assumption. apply C1. eapply wake_key_sub; eauto.
    + exact Hnd.
    + intros t' [<-|Hx].
      * rewrite get_set_same. exists k. left. reflexivity.
      * assert (t' <> t) by (intro; subst; contradiction).
        rewrite get_set_other by assumption. apply C3. exact Hx.
    + constructor; assumption.
  - apply IH. destruct C as (C1 & C2 & C3 & C4). unfold coh. cbn [with_waiters waiters woken pcs].
    repeat split; auto.
    + intros t' k' b Hx. apply C1. eapply wake_key_sub; eauto.
    + eapply wake_key_nodup; eauto.
Qed.

Lemma release_loop_waiters_sub c order : forall s x,
  In x (waiters (release_loop c s order)) -> In x (waiters s).
Proof.
  induction order as [|k r IH]; intros s x Hx; cbn [release_loop] in Hx; [exact Hx|].
  destruct (release_skips_key (avail c s k)); [apply IH; exact Hx|].
  destruct (wake_key k (waiters s)) as [w' [t|]] eqn:E.
  - cbn [with_pc with_woken with_waiters waiters] in Hx. eapply wake_key_sub; eauto.
  - apply IH in Hx. cbn [with_waiters waiters] in Hx. eapply wake_key_sub; eauto.
Qed.

Lemma release_loop_woken c order : forall s t,
  In t (woken (release_loop c s order)) -> In t (woken s) \/ exists k, In (t, k, false) (waiters s).
Proof.
  induction order as [|k r IH]; intros s t Hx; cbn [release_loop] in Hx; [left; exact Hx|].
  destruct (release_skips_key (avail c s k)); [apply IH; exact Hx|].
  destruct (wake_key k (waiters s)) as [w' [t'|]] eqn:E.
  - cbn [with_pc with_woken with_waiters woken] in Hx. destruct Hx as [<-|Hx]; [|left; exact Hx].
    right. exists k. eapply wake_key_some; eauto.
  - apply IH in Hx. cbn [with_waiters waiters woken] in Hx. destruct Hx as [Hx|(k' & Hx)]; [left; exact Hx|].
    right. exists k'. eapply wake_key_sub; eauto.
Qed.

Lemma release_loop_pc_other c order : forall s t,
  (forall k, ~ In (t, k, false) (waiters s)) ->
  get_pc (pcs (release_loop c s order)) t = get_pc (pcs s) t.
Proof.
  induction order as [|k r IH]; intros s t Hno; cbn [release_loop]; [reflexivity|].
  destruct (release_skips_key (avail c s k)); [apply IH; exact Hno|].
  destruct (wake_key k (waiters s)) as [w' [t'|]] eqn:E.
  - cbn [with_pc with_woken with_waiters pcs]. apply get_set_other. intro; subst t'.
    apply (Hno k). eapply wake_key_some; eauto.
  - rewrite IH; [reflexivity|]. cbn [with_waiters waiters]. intros k' Hin. apply (Hno k').
    eapply wake_key_sub; eauto.
Qed.

(* ---- cancel_all (close) ------------------------------------------------------------------------ *)

Lemma cancel_all_other w : forall p t,
  (forall k, ~ In (t, k, false) w) -> get_pc (cancel_all w p) t = get_pc p t.
Proof.
  induction w as [|[[t0 k0] b] r IH]; intros p t Hno; cbn [cancel_all]; [reflexivity|].
  rewrite IH by (intros k Hin; apply (Hno k); right; exact Hin).
  destruct b; [reflexivity|]. apply get_set_other. intro; subst t0. apply (Hno k0). left. reflexivity.
Qed.

Lemma cancel_all_entry w : forall p t k,
  NoDup (map wtask w) -> In (t, k, false) w -> get_pc (cancel_all w p) t = PWaiting k FCancelled.
Proof.
  induction w as [|[[t0 k0] b] r IH]; intros p t k Hnd Hin; cbn [cancel_all]; [destruct Hin|].
  cbn [map] in Hnd. inversion Hnd as [|? ? Hnotin Hnd']; subst. destruct Hin as [E|Hin].
  - injection E as -> -> ->. rewrite cancel_all_other.
    + apply get_set_same.
    + intros k' Hin. apply Hnotin. apply in_map_iff. exists (t, k', false). split; [reflexivity|exact Hin].
  - apply IH; assumption.
Qed.

(* ---- the step ---------------------------------------------------------------------------------- *)

Lemma pc_not_entry_idle s t : get_pc (pcs s) t = PIdle -> forall k b, get_pc (pcs s) t <> PWaiting k (fs_of b).
Proof. intros -> k b. discriminate. Qed.

Lemma NoDup_map_filter {A B} (f : A -> B) (g : A -> bool) l : NoDup (map f l) -> NoDup (map f (filter g l)).
Proof.
  induction l as [|x l IH]; cbn [map filter]; intro H; [exact H|].
  inversion H as [|? ? Hnotin Hnd]; subst. destruct (g x); cbn [map]; [|apply IH; exact Hnd].
  constructor; [|apply IH; exact Hnd]. intro Hin. apply Hnotin.
  apply in_map_iff in Hin as (y & E & Hy). apply filter_In in Hy as [Hy _].
  apply in_map_iff. exists y. split; assumption.
Qed.

Lemma NoDup_snoc {A} (x : A) l : NoDup l -> ~ In x l -> NoDup (l ++ [x]).
Proof.
  induction l as [|y l IH]; cbn [app]; intros H Hn.
  - constructor; [intros []|constructor].
  - inversion H as [|? ? Hy Hl]; subst. constructor.
    + rewrite in_app_iff. cbn [In]. intros [X|[X|[]]]; [contradiction|].
      subst. apply Hn. left. reflexivity.
    + apply IH; [exact Hl|]. intro X. apply Hn. right. exact X.
Qed.

Lemma NoDup_filter {A} (g : A -> bool) l : NoDup l -> NoDup (filter g l).
Proof. intro H. rewrite <- (map_id (filter g l)). apply NoDup_map_filter. rewrite map_id. exact H. Qed.

Lemma proceed_coh c s t k :
  coh s -> ~ In t (map wtask (waiters s)) -> ~ In t (woken s) -> coh (proceed c s t k).
Proof.
  intros C Hno Hnw. unfold proceed. destruct (take_idle k (idle s)) as [[cn rest]|].
  - apply coh_with_pc; [eapply coh_same; [| | |exact C]; reflexivity|exact Hno|].
    intro H. exfalso. apply Hnw. exact H.
  - apply coh_with_pc; [eapply coh_same; [| | |exact C]; reflexivity|exact Hno|].
    intro H. exfalso. apply Hnw. exact H.
Qed.

Lemma release_waiter_coh c s order s' : coh s -> release_waiter c s order = Some s' -> coh s'.
Proof.
  unfold release_waiter. intros C H. destruct (covers order (waiters s)); [|discriminate].
  injection H as <-. apply release_loop_coh. exact C.
Qed.

Lemma release_acquired_coh c s sl order s' : coh s -> release_acquired c s sl order = Some s' -> coh s'.
Proof.
  unfold release_acquired. intros C H. destruct (closed s); [injection H as <-; exact C|].
  eapply release_waiter_coh; [|exact H]. eapply coh_same; [| | |exact C]; reflexivity.
Qed.

(* facts about release_acquired needed to update the releasing task's pc afterwards *)
Lemma release_acquired_facts c s sl order s' :
  release_acquired c s sl order = Some s' ->
  (forall x, In x (waiters s') -> In x (waiters s)) /\
  (forall t, In t (woken s') -> In t (woken s) \/ exists k, In (t, k, false) (waiters s)) /\
  (forall t, (forall k, ~ In (t, k, false) (waiters s)) -> get_pc (pcs s') t = get_pc (pcs s) t).
Proof.
  unfold release_acquired, release_waiter. destruct (closed s).
  - intros [= <-]. repeat split; auto.
  - destruct (covers order (waiters (del_slot s sl))); [|discriminate]. intros [= <-]. repeat split.
    + intros x Hx. apply release_loop_waiters_sub in Hx. exact Hx.
    + intros t Hx. apply release_loop_woken in Hx. exact Hx.
    + intros t Hno. rewrite release_loop_pc_other; [reflexivity|exact Hno].
Qed.

Lemma release_waiter_facts c s order s' :
  release_waiter c s order = Some s' ->
  (forall x, In x (waiters s') -> In x (waiters s)) /\
  (forall t, In t (woken s') -> In t (woken s) \/ exists k, In (t, k, false) (waiters s)) /\
  (forall t, (forall k, ~ In (t, k, false) (waiters s)) -> get_pc (pcs s') t = get_pc (pcs s) t).
Proof.
  unfold release_waiter. destruct (covers order (waiters s)); [|discriminate]. intros [= <-]. repeat split.
  - intros x Hx. apply release_loop_waiters_sub in Hx. exact Hx.
  - intros t Hx. apply release_loop_woken in Hx. exact Hx.
  - intros t Hno. rewrite release_loop_pc_other; [reflexivity|exact Hno].
Qed.

(* a task whose pc is not a queued-waiter pc has no entry and is not woken, before and after a
   release; used for the releasing / failing / cancelled task itself *)
Lemma after_release_with_pc s s' t p :
  coh s -> coh s' ->
  (forall k b, get_pc (pcs s) t <> PWaiting k (fs_of b)) -> ~ In t (woken s) ->
  (forall x, In x (waiters s') -> In x (waiters s)) ->
  (forall t, In t (woken s') -> In t (woken s) \/ exists k, In (t, k, false) (waiters s)) ->
  coh (with_pc s' t p).
Proof.
  intros C C' Hpc Hnw Hsub Hwok. apply coh_with_pc; [exact C'| |].
  - intro Hin. apply in_map_iff in Hin as ([[t' k] b] & E & Hin). unfold wtask in E. cbn in E. subst t'.
    apply Hsub in Hin. exact (coh_no_entry s t C Hpc k b Hin).
  - intro Hin. exfalso. apply Hwok in Hin as [Hin|(k & Hin)]; [contradiction|].
    exact (coh_no_entry s t C Hpc k false Hin).
Qed.

Lemma hand_on_coh c s order s2 : coh s -> hand_on c s order = Some s2 -> coh s2.
Proof.
  unfold hand_on. destruct requeue_hands_on; [apply release_waiter_coh|]. intros C [= <-]. exact C.
Qed.

Lemma hand_on_facts c s order s2 :
  hand_on c s order = Some s2 ->
  (forall x, In x (waiters s2) -> In x (waiters s)) /\
  (forall t, In t (woken s2) -> In t (woken s) \/ exists k, In (t, k, false) (waiters s)) /\
  (forall t, (forall k, ~ In (t, k, false) (waiters s)) -> get_pc (pcs s2) t = get_pc (pcs s) t).
Proof.
  unfold hand_on. destruct requeue_hands_on; [apply release_waiter_facts|]. intros [= <-]. repeat split; auto.
Qed.

Lemma start_tail_coh c s t k s' :
  coh s -> ~ In t (map wtask (waiters s)) -> ~ In t (woken s) -> start_tail c s t k = Some s' -> coh s'.
Proof.
  intros C Hno Hnw H. unfold start_tail in H.
  destruct (connect_must_wait (avail c s k)); [|injection H as <-; apply proceed_coh; assumption].
  destruct (refuse_wait s); injection H as <-.
  { apply coh_with_pc; [exact C|exact Hno|intro X; contradiction]. }
  apply coh_enqueue; try assumption.
  - intro x. rewrite in_app_iff. cbn [In].
    split; [intros [A|[A|[]]]; [right; exact A|left; symmetry; exact A]
           |intros [A|A]; [right; left; symmetry; exact A|left; exact A]].
  - rewrite map_app. cbn [map]. destruct C as (_ & C2 & _). apply NoDup_snoc; assumption.
Qed.

Lemma requeue_coh c s1 t k order s' :
  coh s1 -> ~ In t (map wtask (waiters s1)) -> ~ In t (woken s1) -> requeue c s1 t k order = Some s' -> coh s'.
Proof.
  intros C1 Hno Hnw H. unfold requeue in H. destruct (hand_on c s1 order) as [s2|] eqn:Eh; [|discriminate].
  pose proof (hand_on_coh _ _ _ _ C1 Eh) as C2. destruct (hand_on_facts _ _ _ _ Eh) as (F1 & F2 & _).
  assert (Hno2 : ~ In t (map wtask (waiters s2))).
  { intro X. apply in_map_iff in X as ([[t' k'] b] & E & X). unfold wtask in E. cbn in E. subst t'.
    apply Hno. apply in_map_iff. exists (t, k', b). split; [reflexivity|apply F1; exact X]. }
  assert (Hnw2 : ~ In t (woken s2)).
  { intro X. apply F2 in X as [X|(k' & X)]; [contradiction|].
    apply Hno. apply in_map_iff. exists (t, k', false). split; [reflexivity|exact X]. }
  destruct (refuse_wait s2); injection H as <-.
  { apply coh_with_pc; [exact C2|exact Hno2|intro X; contradiction]. }
  apply coh_enqueue; try assumption.
  - intro x. cbn [In]. split; (intros [E|E]; [left; symmetry; exact E|right; exact E]).
  - cbn [map]. constructor; [exact Hno2|]. destruct C2 as (_ & X & _). exact X.
Qed.

Lemma step_coh c s e s' : coh s -> step c s e = Some s' -> coh s'.
Proof.
  intros C H. destruct e as [t k|t order|t|t|t order|t cl order|]; cbn [step] in H.
  - (* EStart *)
    destruct (get_pc (pcs s) t) eqn:Ep; try discriminate.
    assert (Hno : ~ In t (map wtask (waiters s))).
    { apply coh_no_task; [exact C|]. rewrite Ep. intros; discriminate. }
    assert (Hnw : ~ In t (woken s)).
    { apply coh_not_woken; [exact C|]. rewrite Ep. apply not_woken_pc_idle. }
    destruct (if connect_fast_path (avail c s k) then take_idle k (idle s) else None).
    + injection H as <-. apply proceed_coh; assumption.
    + eapply start_tail_coh; eauto.
  - (* EResume *)
    destruct (get_pc (pcs s) t) as [| k f | | | | |] eqn:Ep; try discriminate.
    destruct f; try discriminate.
    + (* woken *)
      set (s1 := with_woken s (filter (fun x => negb (x =? t)) (woken s))) in *.
      assert (C1 : coh s1).
      { destruct C as (A & B & D & E). unfold coh, s1. cbn [with_woken waiters woken pcs]. repeat split; auto.
        - intros t' Hin. apply filter_In in Hin as [Hin _]. apply D. exact Hin.
        - apply NoDup_filter. exact E. }
      assert (Hno : ~ In t (map wtask (waiters s1))).
      { unfold s1. cbn [with_woken waiters]. apply coh_no_task; [exact C|]. rewrite Ep.
        intros k' b. destruct b; discriminate. }
      assert (Hnw : ~ In t (woken s1)).
      { unfold s1. cbn [with_woken woken]. intro Hin. apply filter_In in Hin as [_ Hin].
        rewrite N.eqb_refl in Hin. discriminate. }
      destruct (wait_slot_found (avail c s1 k)); [injection H as <-; apply proceed_coh; assumption|].
      eapply requeue_coh; eauto.
    + (* cancelled *)
      injection H as <-.
      apply coh_with_pc.
      * destruct C as (A & B & D & E). unfold coh. cbn [with_waiters waiters woken pcs]. repeat split; auto.
        -- intros t' k' b Hin. apply filter_In in Hin as [Hin _]. apply A. exact Hin.
        -- apply NoDup_map_filter. exact B.
      * cbn [with_waiters waiters]. intro Hin. apply in_map_iff in Hin as ([[t' k'] b] & E & Hin).
        unfold wtask in E. cbn in E. subst t'. apply filter_In in Hin as [_ Hin]. cbn in Hin.
        rewrite N.eqb_refl in Hin. discriminate.
      * cbn [with_waiters woken]. intro Hin. exfalso. revert Hin. apply coh_not_woken; [exact C|].
        rewrite Ep. intros (k' & [E|E]); discriminate.
    + (* woken, then cancelled *)
      set (s1 := with_woken s (filter (fun x => negb (x =? t)) (woken s))) in *.
      assert (C1 : coh s1).
      { destruct C as (A & B & D & E). unfold coh, s1. cbn [with_woken waiters woken pcs]. repeat split; auto.
        - intros t' Hin. apply filter_In in Hin as [Hin _]. apply D. exact Hin.
        - apply NoDup_filter. exact E. }
      destruct (release_waiter c s1 order) as [s2|] eqn:Er; [|discriminate]. injection H as <-.
      destruct (release_waiter_facts _ _ _ _ Er) as (F1 & F2 & _).
      eapply after_release_with_pc with (s := s1); try eassumption.
      * eapply release_waiter_coh; eauto.
      * unfold s1. cbn [with_woken pcs]. rewrite Ep. intros k' b. destruct b; discriminate.
      * unfold s1. cbn [with_woken woken]. intro Hin. apply filter_In in Hin as [_ Hin].
        rewrite N.eqb_refl in Hin. discriminate.
  - (* ECancel *)
    destruct (get_pc (pcs s) t) as [| k f | | | | |] eqn:Ep; try discriminate.
    destruct f; try discriminate; injection H as <-.
    + (* pending -> cancelled *)
      destruct C as (A & B & D & E). unfold coh. cbn [with_pc with_waiters waiters woken pcs]. repeat split.
      * intros t' k' b Hin. apply in_map_iff in Hin as ([[t0 k0] b0] & Ex & Hin).
        unfold cancel_entry in Ex. cbn [fst] in Ex. destruct (t0 =? t) eqn:Et.
        -- apply N.eqb_eq in Et. subst t0. injection Ex as <- <- <-.
           rewrite get_set_same. pose proof (A _ _ _ Hin) as Hpc. rewrite Ep in Hpc.
           injection Hpc as <- _. reflexivity.
        -- injection Ex as <- <- <-. apply N.eqb_neq in Et. rewrite get_set_other by exact Et.
           apply A. exact Hin.
      * rewrite map_map. erewrite map_ext; [exact B|]. intros [[t0 k0] b0]. unfold cancel_entry, wtask.
        cbn [fst]. destruct (t0 =? t); reflexivity.
      * intros t' Hin. assert (t' <> t).
        { intro; subst t'. apply D in Hin. rewrite Ep in Hin. destruct Hin as (k' & [X|X]); discriminate. }
        rewrite get_set_other by assumption. apply D. exact Hin.
      * exact E.
    + (* woken -> woken+cancel *)
      apply coh_with_pc; [exact C| |].
      * apply coh_no_task; [exact C|]. rewrite Ep. intros k' b; destruct b; discriminate.
      * intros _. exists k. right. reflexivity.
  - (* ECreateOk *)
    destruct (get_pc (pcs s) t) eqn:Ep; try discriminate.
    assert (Hno : ~ In t (map wtask (waiters s))).
    { apply coh_no_task; [exact C|]. rewrite Ep. intros; discriminate. }
    assert (Hnw : ~ In t (woken s)).
    { apply coh_not_woken; [exact C|]. rewrite Ep. apply not_woken_pc_creating. }
    destruct (closed s); injection H as <-;
      (apply coh_with_pc; [eapply coh_same; [| | |exact C]; reflexivity|exact Hno|intro X; contradiction]).
  - (* ECreateFail *)
    destruct (get_pc (pcs s) t) eqn:Ep; try discriminate.
    destruct (release_acquired c s (SPh t) order) as [s1|] eqn:Er; [|discriminate]. injection H as <-.
    destruct (release_acquired_facts _ _ _ _ _ Er) as (F1 & F2 & _).
    eapply after_release_with_pc with (s := s); try eassumption.
    + eapply release_acquired_coh; eauto.
    + rewrite Ep. intros; discriminate.
    + apply coh_not_woken; [exact C|]. rewrite Ep. apply not_woken_pc_creating.
  - (* ERelease *)
    destruct (get_pc (pcs s) t) as [| | | k cn | | |] eqn:Ep; try discriminate.
    assert (Hpc : forall k b, get_pc (pcs s) t <> PWaiting k (fs_of b)) by (rewrite Ep; intros; discriminate).
    assert (Hnw : ~ In t (woken s)).
    { apply coh_not_woken; [exact C|]. rewrite Ep. apply not_woken_pc_holding. }
    destruct (closed s).
    + injection H as <-. apply coh_with_pc; [exact C| |intro X; contradiction].
      apply coh_no_task; assumption.
    + destruct (release_acquired c s (SConn cn) order) as [s1|] eqn:Er; [|discriminate]. injection H as <-.
      destruct (release_acquired_facts _ _ _ _ _ Er) as (F1 & F2 & _).
      pose proof (release_acquired_coh _ _ _ _ _ C Er) as C1.
      destruct (force_close c || cl).
      * eapply after_release_with_pc with (s := s); try eassumption;
          try (eapply coh_same; [| | |exact C1]; reflexivity).
      * eapply after_release_with_pc with (s := s); try eassumption;
          try (eapply coh_same; [| | |exact C1]; reflexivity).
  - (* EClose *)
    destruct (closed s); injection H as <-; [exact C|].
    destruct C as (A & B & D & E). unfold coh. cbn [waiters woken pcs]. repeat split; auto.
    + intros t k b [].
    + constructor.
    + intros t Hin. rewrite cancel_all_other; [apply D; exact Hin|].
      intros k Hk. apply D in Hin. rewrite (A _ _ _ Hk) in Hin. destruct Hin as (k' & [X|X]); discriminate.
Qed.

Lemma coh_init : coh init.
Proof. unfold coh, init. cbn. repeat split; try constructor; intros; contradiction. Qed.

Lemma run_coh c : forall tr s s', coh s -> run c s tr = Some s' -> coh s'.
Proof.
  induction tr as [|e r IH]; intros s s' C H; cbn [run] in H.
  - injection H as <-. exact C.
  - destruct (step c s e) as [s1|] eqn:Es; [|discriminate]. eapply IH; [|exact H]. eapply step_coh; eauto.
Qed.
